from fixes import *
import inspect, traceback
def build(seed, n=25, missing=False):
    rng = random.Random(seed)
    cs = mk(gen_stream(rng, n))
    for i,c in enumerate(cs):
        if not (missing and rng.random()<0.3): c.indicators["A"] = round(rng.uniform(0,10),1)
        if not (missing and rng.random()<0.3): c.indicators["B"] = round(rng.uniform(0,10),1)
    return cs
calls = {
 "positive": lambda f,c,i,L: f(c, index=i) if i is not None else f(c),
 "negative": lambda f,c,i,L: f(c, index=i) if i is not None else f(c),
 "above": lambda f,c,i,L: movement.above(c,"A","B",index=i) if i is not None else movement.above(c,"A","B"),
 "below": lambda f,c,i,L: movement.below(c,"A","B",index=i) if i is not None else movement.below(c,"A","B"),
}
for nm in ["value_range","rising","falling","mean_rising","mean_falling","highest","lowest","highestbar","lowestbar"]:
    calls[nm] = (lambda nm: lambda f,c,i,L: getattr(movement,nm)(c,"A",length=L,index=i) if i is not None else getattr(movement,nm)(c,"A",length=L))(nm)
for nm in ["cross","crossover","crossunder"]:
    calls[nm] = (lambda nm: lambda f,c,i,L: getattr(movement,nm)(c,"A","B",length=L,index=i) if i is not None else getattr(movement,nm)(c,"A","B",length=L))(nm)
for nm in ["doji","dojistar","hammer","inverted_hammer"]:
    calls[nm] = (lambda nm: lambda f,c,i,L: getattr(patterns,nm)(c,index=i) if i is not None else getattr(patterns,nm)(c))(nm)
    calls[nm+"_lb"] = (lambda nm: lambda f,c,i,L: getattr(patterns,nm)(c,lookback=L,index=i) if i is not None else getattr(patterns,nm)(c,lookback=L))(nm)
res = {}
for nm, call in calls.items():
    f = getattr(movement, nm, None)
    issues = {"trunc":0,"neg":0,"exc":0,"total":0}
    ex = {}
    for missing in (False, True):
      for seed in range(6):
        cs = build(seed, missing=missing)
        n = len(cs)
        for L in (1,2,3,4,7):
            for i in range(n):
                issues["total"]+=1
                try:
                    at = call(f, cs, i, L)
                except Exception as e:
                    issues["exc"]+=1; ex.setdefault("exc",(missing,seed,L,i,repr(e))); continue
                try:
                    tr = call(f, cs[:i+1], None, L)
                    if tr != at: issues["trunc"]+=1; ex.setdefault("trunc",(missing,seed,L,i,at,tr))
                except Exception as e:
                    issues["exc"]+=1; ex.setdefault("exc2",(missing,seed,L,i,repr(e)))
                try:
                    ng = call(f, cs, i-n, L)
                    if ng != at: issues["neg"]+=1; ex.setdefault("neg",(missing,seed,L,i,at,ng))
                except Exception as e:
                    issues["exc"]+=1; ex.setdefault("exc3",(missing,seed,L,i,repr(e)))
    print(nm, issues, ex)
