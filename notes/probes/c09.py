from fixes import *
import math, traceback
def streams():
    out={}
    def S(name, rows, step=60):
        ts=T0; l=[]
        for (o,h,lo,c,v) in rows:
            l.append(dict(open=o,high=h,low=lo,close=c,volume=v,timestamp=ts)); ts+=timedelta(seconds=step)
        out[name]=l
    n=45
    S("flat",[(100.0,100.0,100.0,100.0,10)]*n)
    S("flat_zero_vol",[(100.0,100.0,100.0,100.0,0)]*n)
    S("rising",[(100.0+i,101.0+i,99.5+i,100.5+i,10+i) for i in range(n)])
    S("falling",[(200.0-i,200.5-i,199.0-i,199.5-i,10+i) for i in range(n)])
    S("rise_then_flat",[(100.0+i,101.0+i,99.5+i,100.5+i,10) for i in range(15)]+[(115.0,115.0,115.0,115.0,0)]*30)
    S("zigzag_equal",[(100.0,101.0,99.0,100.0+(i%2),5) for i in range(n)])
    rng=random.Random(5); out["flaty"]=gen_stream(rng,n,flat=0.6)
    rng=random.Random(6); out["gappy"]=gen_stream(rng,n,gaps=True,jitter=True)
    return out
def finite_ok(v):
    if v is None or isinstance(v,bool): return True
    if isinstance(v,(int,float)): return math.isfinite(v)
    if isinstance(v,dict): return all(finite_ok(x) for x in v.values())
    return False
def gaps_after_start(lst):
    # per field contiguity
    fields={}
    for i,v in enumerate(lst):
        if isinstance(v,dict):
            for k,x in v.items(): fields.setdefault(k,[]).append(x)
        else: fields.setdefault("",[]).append(v)
    bad=[]
    for k,col in fields.items():
        started=False
        for i,x in enumerate(col):
            if x is not None: started=True
            elif started: bad.append((k,i)); break
    return bad
for sname,cs in streams().items():
    for cfg,kw in [("base",{}),("T5fill",dict(timeframe="T5",timeframe_fill=True))]:
        if cfg=="T5fill" and sname!="gappy": continue
        for name in ALL:
            if name in ("doji","hammer","rising","highest","highestbar"): continue
            try:
                ind=ALL[name](candles=mk(cs),**kw); ind.calculate()
            except Exception as e:
                print(f"{sname:15s} {cfg:6s} {name:11s} EXC {type(e).__name__}: {e}"); continue
            nf=[i for i,c in enumerate(ind.candles) if not all(finite_ok(v) for v in list(c.indicators.values())+list(c.sub_indicators.values()))]
            g=gaps_after_start(ind.as_list())
            allnone = all((v is None or (isinstance(v,dict) and all(x is None for x in v.values()))) for v in ind.as_list())
            if nf or g or allnone: print(f"{sname:15s} {cfg:6s} {name:11s} nonfinite@{nf[:3]} gaps={g[:4]} allnone={allnone}")
