from fixes import *
fix_ha()
# C02: prefix stability: snapshot after each single append must be a prefix of the final (base tf)
def prefix_check(name, kw={}, n=40, seeds=range(5), **gen):
    bad = {}
    for seed in seeds:
        rng = random.Random(seed)
        cs = gen_stream(rng, n, **gen)
        a = ALL[name](candles=[], **kw)
        snaps = []
        for c in mk(cs):
            a.append(c)
            snaps.append(snap(a.candles))
        final = snaps[-1]
        for t, s in enumerate(snaps):
            closed = s if not kw.get("timeframe") else s[:-1]
            for i, row in enumerate(closed):
                if i >= len(final) or row != final[i]:
                    bad.setdefault(seed, []).append((t, i)); break
        # batch on prefixes vs batch on full
        b = ALL[name](candles=mk(cs), **kw); b.calculate(); bs = snap(b.candles)
        for m in (1, 2, 3, 5, 11, 20):
            p = ALL[name](candles=mk(cs[:m]), **kw); p.calculate(); ps = snap(p.candles)
            closed = ps if not kw.get("timeframe") else ps[:-1]
            for i,row in enumerate(closed):
                if row != bs[i]:
                    bad.setdefault(seed, []).append(("batchprefix", m, i)); break
    return bad
for cfg,kw,gen in [("base",{},{}),("T5",dict(timeframe="T5"),dict(jitter=True,gaps=True)),("T5fill",dict(timeframe="T5",timeframe_fill=True),dict(jitter=True,gaps=True))]:
    print("==",cfg)
    for name in ALL:
        try:
            bad = prefix_check(name, kw, **gen)
        except Exception as e:
            print("  ", name, "EXC", repr(e)); continue
        if bad: print("  ", name, {k:v[:4] for k,v in list(bad.items())[:2]})
