from fixes import *
def build(seed, n=20, missing=False, ties=True):
    rng = random.Random(seed)
    cs = mk(gen_stream(rng, n))
    for i,c in enumerate(cs):
        if not (missing and rng.random()<0.3): c.indicators["A"] = float(rng.randint(0,5)) if ties else round(rng.uniform(0,10),2)
        if not (missing and rng.random()<0.3): c.indicators["B"] = float(rng.randint(0,5))
    return cs
def col(cs,nm): return [c.indicators.get(nm) for c in cs]
def win(x,i,L,incl):  # current (if incl) + L before
    lo=max(0,i-L); w=x[lo:i+(1 if incl else 0)]
    return [v for v in w if v is not None]
spec={
 "rising": lambda a,b,i,L: a[i] is not None and len(win(a,i,L,False))>0 and all(v<a[i] for v in win(a,i,L,False)),
 "falling": lambda a,b,i,L: a[i] is not None and len(win(a,i,L,False))>0 and all(v>a[i] for v in win(a,i,L,False)),
 "mean_rising": lambda a,b,i,L: a[i] is not None and len(win(a,i,L,False))>0 and sum(win(a,i,L,False))/len(win(a,i,L,False))<a[i],
 "mean_falling": lambda a,b,i,L: a[i] is not None and len(win(a,i,L,False))>0 and sum(win(a,i,L,False))/len(win(a,i,L,False))>a[i],
 "highest": lambda a,b,i,L: max(win(a,i,L,True)) if win(a,i,L,True) else None,
 "lowest": lambda a,b,i,L: min(win(a,i,L,True)) if win(a,i,L,True) else None,
 "value_range": lambda a,b,i,L: (max(win(a,i,L,True))-min(win(a,i,L,True))) if L>=2 and len(win(a,i,L,True))>=2 else None,
}
def hb(a,i,L,hi):
    # offset of most recent extreme among current and the (L-1) before it (code's 'length' counts current)
    best=None;off=0
    for k in range(0,L):
        j=i-k
        if j<0: break
        if a[j] is None: continue
        if best is None or (a[j]>best if hi else a[j]<best): best=a[j]; off=k
    return off
spec["highestbar"]=lambda a,b,i,L: hb(a,i,L,True)
spec["lowestbar"]=lambda a,b,i,L: hb(a,i,L,False)
def ab(a,b,j): return j>=0 and a[j] is not None and b[j] is not None and a[j]>b[j]
def be(a,b,j): return j>=0 and a[j] is not None and b[j] is not None and a[j]<b[j]
spec["crossover"]=lambda a,b,i,L: any(ab(a,b,j) and be(a,b,j-1) for j in range(i,max(i-L,-1),-1) if j>=1)
spec["crossunder"]=lambda a,b,i,L: any(be(a,b,j) and ab(a,b,j-1) for j in range(i,max(i-L,-1),-1) if j>=1)
res={}
for nm,sp in spec.items():
    f=getattr(movement,nm); cnt=0;tot=0;ex=None
    for missing in (False,True):
        for seed in range(8):
            cs=build(seed,missing=missing); a=col(cs,"A"); b=col(cs,"B"); n=len(cs)
            for L in (1,2,3,5):
                for i in range(1,n):
                    tot+=1
                    try:
                        got = f(cs,"A","B",length=L,index=i) if nm.startswith("cross") else f(cs,"A",length=L,index=i)
                    except Exception as e: got=("EXC",type(e).__name__)
                    want=sp(a,b,i,L)
                    if got!=want:
                        cnt+=1
                        if ex is None: ex=(missing,seed,L,i,got,want)
    print(nm,cnt,"/",tot,ex)
# geometry
rng=random.Random(1); g=0
for c in mk(gen_stream(rng,300,flat=0.1)):
    ok = (abs(c.realbody-abs(c.open-c.close))<1e-12 and abs(c.shadow_upper-(c.high-max(c.open,c.close)))<1e-12 and abs(c.shadow_lower-(min(c.open,c.close)-c.low))<1e-12 and abs(c.high_low-(c.high-c.low))<1e-12 and c.positive==(c.close>c.open) and c.negative==(c.close<c.open))
    g+= (not ok)
print("geometry bad",g)
