from fixes import *
import os
if os.environ.get("FIXTZ"): fix_tz()
from hexital.core.candle_manager import CandleManager
import math
EPOCH = datetime(1970,1,1)
def ref_resample(cs, tfsec, fill=False):
    out = []
    for c in cs:
        s = int((c["timestamp"]-EPOCH).total_seconds())
        k = -((-s)//tfsec)  # ceil
        lab = EPOCH + timedelta(seconds=k*tfsec)
        if out and out[-1][0]==lab:
            r = out[-1]
            r[2]=max(r[2],c["high"]); r[3]=min(r[3],c["low"]); r[4]=c["close"]; r[5]+=c["volume"]
        else:
            out.append([lab,c["open"],c["high"],c["low"],c["close"],c["volume"]])
    if fill:
        o2=[]
        for r in out:
            while o2 and o2[-1][0]+timedelta(seconds=tfsec) < r[0]:
                p=o2[-1]; o2.append([p[0]+timedelta(seconds=tfsec),p[4],p[4],p[4],p[4],0])
            o2.append(r)
        out=o2
    return [tuple(r) for r in out]
def got(m): return [(c.timestamp,c.open,c.high,c.low,c.close,c.volume) for c in m.candles]
tfs = {"S10":10,"S30":30,"T1":60,"T5":300,"T7":420,"H1":3600,"H4":14400,"D1":86400}
bad=0; tot=0; ex=[]
for tf,sec in tfs.items():
  for seed in range(40):
    rng=random.Random(seed)
    step = rng.choice([1,5,sec//5 or 1, sec//2 or 1, sec, sec*2])
    start = T0 + timedelta(seconds=rng.choice([0,0,1,sec-1,sec//2, 17]))
    n = rng.randint(1,40)
    cs = gen_stream(rng,n,step=step,jitter=rng.random()<0.7,gaps=rng.random()<0.5,start=start)
    for fill in (False,True):
        tot+=1
        want = ref_resample(cs,sec,fill)
        try:
            m = CandleManager(mk(cs),timeframe=tf,timeframe_fill=fill)
            g1 = got(m)
            m2 = CandleManager([],timeframe=tf,timeframe_fill=fill)
            prev=0
            for cut in chunks(rng,n):
                m2.append(mk(cs[prev:cut])); prev=cut
            g2 = got(m2)
            m.collapse_candles(); m.collapse_candles(); g3=got(m)
        except Exception as e:
            bad+=1; ex.append((tf,seed,fill,"EXC",repr(e)[:100])); continue
        if g1!=want: bad+=1; ex.append((tf,seed,fill,"batch"))
        elif g2!=want: bad+=1; ex.append((tf,seed,fill,"inc"))
        elif g3!=want: bad+=1; ex.append((tf,seed,fill,"recollapse"))
print(tot,bad,ex[:20])
