from fixes import *
import math
bad={}
def flag(k,info): bad.setdefault(k,[]).append(info)
def dec_ok(v,nd=4):
    return v is None or isinstance(v,(bool,int)) or round(v,nd)==v
for seed in range(30):
    rng=random.Random(seed); n=70
    cs=gen_stream(rng,n,flat=rng.choice([0,0,0.2]))
    H=[c["high"] for c in cs]; L=[c["low"] for c in cs]; C=[c["close"] for c in cs]; V=[c["volume"] for c in cs]
    p=rng.randint(2,9); S=2e-4
    def run(ind):
        try: ind.calculate(); return ind
        except Exception as e: flag("EXC "+type(ind).__name__, (seed,p,type(e).__name__)); return None
    i=run(I.RSI(candles=mk(cs),period=p))
    if i: [flag("RSI range",(seed,v)) for v in i.as_list() if v is not None and not (0<=v<=100)]
    i=run(I.STOCH(candles=mk(cs),period=p))
    if i:
        for r in i.as_list():
            for k,v in r.items():
                if v is not None and not (-S<=v<=100+S): flag("STOCH range",(seed,k,v))
    i=run(I.AROON(candles=mk(cs),period=p))
    if i:
        for r in i.as_list():
            if r["AROONU"] is not None:
                if not(0<=r["AROONU"]<=100 and 0<=r["AROOND"]<=100): flag("AROON range",(seed,r))
                if abs(r["AROONOSC"]-(r["AROONU"]-r["AROOND"]))>2e-4: flag("AROON osc",(seed,r))
    i=run(I.ADX(candles=mk(cs),period=p))
    if i:
        for r in i.as_list():
            for k,v in r.items():
                if v is not None and not (0<=v<=100+S): flag("ADX range",(seed,k,v))
    i=run(I.TSI(candles=mk(cs),period=p+1))
    if i: [flag("TSI range",(seed,v)) for v in i.as_list() if v is not None and not (-100<=v<=100)]
    i=run(I.TR(candles=mk(cs)))
    if i: [flag("TR",(seed,k)) for k,v in enumerate(i.as_list()) if v is not None and not (v>=round(H[k]-L[k],4)-1e-9>=-1e-9)]
    i=run(I.ATR(candles=mk(cs),period=p));
    if i: [flag("ATR neg",(seed,v)) for v in i.as_list() if v is not None and v<0]
    i=run(I.BBANDS(candles=mk(cs),period=p))
    if i: [flag("BB order",(seed,r)) for r in i.as_list() if r["BBM"] is not None and not (r["BBL"]<=r["BBM"]<=r["BBU"])]
    i=run(I.KC(candles=mk(cs),period=p))
    if i: [flag("KC order",(seed,r)) for r in i.as_list() if r["band"] is not None and not (r["lower"]<=r["band"]<=r["upper"])]
    i=run(I.Donchian(candles=mk(cs),period=p))
    if i:
        for k,r in enumerate(i.as_list()):
            if r["DCU"] is not None:
                if not (r["DCL"]<=L[k] and H[k]<=r["DCU"] and r["DCL"]<=r["DCM"]<=r["DCU"]): flag("DC enclose",(seed,k,r))
                if abs(r["DCM"]-(r["DCU"]+r["DCL"])/2)>1e-4: flag("DCM",(seed,k,r))
    i=run(I.MACD(candles=mk(cs),fast_period=p,slow_period=p+3,signal_period=3))
    if i:
        for r in i.as_list():
            if r["histogram"] is not None and abs(r["histogram"]-(r["MACD"]-r["signal"]))>2e-4: flag("MACD hist",(seed,r))
    i=run(I.Supertrend(candles=mk(cs),period=p))
    if i:
        for r in i.as_list():
            if r["direction"] not in (1,-1): flag("ST dir",(seed,r))
            if r["trend"] is not None:
                if (r["long"] is None)==(r["short"] is None): flag("ST both",(seed,r))
                if r["direction"]==1 and r["long"]!=r["trend"]: flag("ST long",(seed,r))
                if r["direction"]==-1 and r["short"]!=r["trend"]: flag("ST short",(seed,r))
    for cls in (I.SMA,I.EMA,I.RMA,I.WMA,I.VWMA):
        i=run(cls(candles=mk(cs),period=p))
        if i:
            for k,v in enumerate(i.as_list()):
                if v is not None:
                    lo=min(C[:k+1]) if cls in (I.EMA,I.RMA) else min(C[k-p+1:k+1]); hi=max(C[:k+1]) if cls in (I.EMA,I.RMA) else max(C[k-p+1:k+1])
                    if not (lo-1e-4<=v<=hi+1e-4): flag(cls.__name__+" range",(seed,k,v,lo,hi))
    i=run(I.OBV(candles=mk(cs)))
    if i:
        o=i.as_list()
        for k in range(1,n):
            if abs(o[k]-o[k-1]) not in (0,V[k]): flag("OBV step",(seed,k))
    i=run(I.Counter(candles=mk(cs),input_value="volume",count_value=0))
    if i:
        o=i.as_list()
        for k in range(1,n):
            if not (isinstance(o[k],int) and o[k]>=0 and (o[k]==o[k-1]+1 or o[k]==0)): flag("Counter",(seed,k,o[k]))
    for name in ALL:
        i=run(ALL[name](candles=mk(cs)))
        if i:
            for c in i.candles:
                for v in c.indicators.values():
                    vs=v.values() if isinstance(v,dict) else [v]
                    if not all(dec_ok(x) for x in vs): flag("rounding "+name,(seed,v)); break
for k,v in bad.items(): print(k,len(v),v[:2])
print("done")
