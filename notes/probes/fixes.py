# candidate fixes as monkeypatches, for exploration only
from common import *
from hexital.core.candlestick_type import CandlestickType
def _find_conv_index(self, candles):
    if len(candles) == 0 or not candles[0].tag:
        return 0
    for index in range(len(candles) - 1, -1, -1):
        if self.name == candles[index].tag:
            return index + 1
    return 0
def fix_ha():
    CandlestickType._find_conv_index = _find_conv_index

from hexital.utils import timeframe as _tf
import hexital.core.candle_manager as _cm
_EPOCH = datetime(1970, 1, 1)
def round_down_timestamp(timestamp, timeframe):
    timestamp = _tf.clean_timestamp(timestamp)
    return timestamp - (timestamp.replace(tzinfo=None) - _EPOCH) % timeframe
def on_timeframe(timestamp, timeframe):
    return (timestamp.replace(tzinfo=None) - _EPOCH) % timeframe == timedelta(0)
def fix_tz():
    _tf.round_down_timestamp = round_down_timestamp; _tf.on_timeframe = on_timeframe
    _cm.round_down_timestamp = round_down_timestamp; _cm.on_timeframe = on_timeframe
