From Coq Require Import ZArith List PrimFloat Uint63 FloatOps SpecFloat Bool.
Import ListNotations.
Local Open Scope Z_scope.

(* exact value of a finite float as m * 2^e *)
Definition f2me (x : float) : option (bool * Z * Z) :=
  match Prim2SF x with
  | S754_zero s => Some (s, 0, 0)
  | S754_finite s m e => Some (s, Zpos m, e)
  | _ => None
  end.

Definition of_Z_small (n : Z) : float :=   (* |n| < 2^62 ; exact below 2^53 *)
  if n <? 0 then PrimFloat.opp (PrimFloat.of_uint63 (Uint63.of_Z (- n)))
  else PrimFloat.of_uint63 (Uint63.of_Z n).

(* round half even of the rational p/q (q>0) *)
Definition rne_div (p q : Z) : Z :=
  let d := p / q in let r := p mod q in
  match Z.compare (2 * r) q with
  | Lt => d | Gt => d + 1 | Eq => if Z.even d then d else d + 1 end.

Definition py_round (x : float) (nd : Z) : float :=
  match f2me x with
  | None => x
  | Some (s, m, e) =>
      if m =? 0 then x else
      let p10 := 10 ^ nd in
      let n := if 0 <=? e then m * 2 ^ e * p10 else rne_div (m * p10) (2 ^ (- e)) in
      let r := PrimFloat.div (of_Z_small n) (of_Z_small p10) in
      if s then PrimFloat.opp r else r
  end.

(* Python 3.12 sum over floats: first item added to int 0, then Neumaier *)
Fixpoint neum (l : list float) (f c : float) : float :=
  match l with
  | [] => if PrimFloat.eqb c 0%float then f else PrimFloat.add f c   (* c finite assumed *)
  | x :: l' =>
      let t := PrimFloat.add f x in
      let c' := if PrimFloat.leb (PrimFloat.abs x) (PrimFloat.abs f)
                then PrimFloat.add c (PrimFloat.add (PrimFloat.sub f t) x)
                else PrimFloat.add c (PrimFloat.add (PrimFloat.sub x t) f) in
      neum l' t c'
  end.
Definition py_sum (l : list float) : float :=
  match l with [] => 0%float | x :: l' => neum l' (PrimFloat.add 0%float x) 0%float end.
Definition feqb (a b : float) : bool :=
  match Prim2SF a, Prim2SF b with
  | S754_zero s, S754_zero t => Bool.eqb s t
  | S754_finite s m e, S754_finite t n f => Bool.eqb s t && Pos.eqb m n && Z.eqb e f
  | S754_infinity s, S754_infinity t => Bool.eqb s t
  | S754_nan, S754_nan => true | _, _ => false end.
