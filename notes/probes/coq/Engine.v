(* Prototype: single leaf indicator, faithful python indexing, engine calculate loop.
   Goal: batch = canonical causal semantics = incremental, given a per-indicator Causal obligation. *)
From Coq Require Import ZArith List Bool Lia ZifyBool.
Import ListNotations.
Local Open Scope Z_scope.

Section Engine.
Variable D V : Type.
(* candle: raw data + reading slot: None = key absent, Some None = computed None, Some (Some v) *)
Record cd := { raw : D; rd : option (option V) }.
Definition fresh (d : D) : cd := {| raw := d; rd := None |}.
Definition store := list cd.
Variable calc : store -> Z -> option V.     (* _calculate_reading(index), may index anywhere, python style *)

Definition set_rd (st : store) (i : nat) (v : option V) : store :=
  match nth_error st i with
  | Some c => firstn i st ++ {| raw := raw c; rd := Some v |} :: skipn (S i) st
  | None => st end.

(* calculate(): for index in range(start, len): skip if reading present and not None else compute *)
Fixpoint calc_range (st : store) (i : nat) (n : nat) : store :=
  match n with
  | O => st
  | S n' =>
      let st' := match nth_error st i with
                 | Some c => match rd c with
                             | Some (Some _) => st
                             | _ => set_rd st i (calc st (Z.of_nat i)) end
                 | None => st end in
      calc_range st' (S i) n'
  end.

(* _find_calc_index: 0 if candle 0 lacks the key, else (last index having the key)+1 scanning 1..len-1, else 0 *)
Fixpoint last_with_key (st : store) (i : nat) : option nat :=   (* scans st as indices i, i+1, ... returns last having key *)
  match st with
  | [] => None
  | c :: st' => match last_with_key st' (S i) with
                | Some j => Some j
                | None => match rd c with Some _ => Some i | None => None end end
  end.
Definition find_calc_index (st : store) : nat :=
  match st with
  | [] => O
  | c0 :: st' => match rd c0 with
                 | None => O
                 | Some _ => match last_with_key st' 1 with Some j => S j | None => O end end
  end.
Definition calculate (st : store) : store :=
  let s := find_calc_index st in calc_range st s (length st - s).

(* canonical causal semantics: reading i is computed on the store truncated after i *)
Fixpoint canon_acc (done : store) (todo : list D) : store :=
  match todo with
  | [] => done
  | d :: todo' =>
      let i := Z.of_nat (length done) in
      canon_acc (done ++ [{| raw := d; rd := Some (calc (done ++ [fresh d]) i) |}]) todo'
  end.
Definition canon (ds : list D) : store := canon_acc [] ds.

(* per-indicator obligation: on a canonical prefix, calc at the next index ignores what follows *)
Definition Causal : Prop :=
  forall ds d x rest, calc (canon ds ++ {| raw := d; rd := x |} :: rest) (Z.of_nat (length ds)) =
                      calc (canon ds ++ [fresh d]) (Z.of_nat (length ds)).

Lemma canon_acc_app done a b : canon_acc done (a ++ b) = canon_acc (canon_acc done a) b.
Proof. revert done; induction a as [|x a IH]; intros done; cbn; [reflexivity|apply IH]. Qed.
Lemma canon_acc_length done ds : length (canon_acc done ds) = (length done + length ds)%nat.
Proof. revert done; induction ds as [|d ds IH]; intros done; cbn; [lia|]. rewrite IH, app_length; cbn; lia. Qed.
Lemma canon_length ds : length (canon ds) = length ds.
Proof. unfold canon. rewrite canon_acc_length. reflexivity. Qed.
Lemma canon_snoc ds d : canon (ds ++ [d]) =
  canon ds ++ [{| raw := d; rd := Some (calc (canon ds ++ [fresh d]) (Z.of_nat (length ds))) |}].
Proof. unfold canon. rewrite canon_acc_app. cbn. rewrite canon_acc_length. reflexivity. Qed.

Lemma skipn_S_mid {A} (pre : list A) c post : skipn (S (length pre)) (pre ++ c :: post) = post.
Proof. induction pre as [|x pre IH]; cbn; [reflexivity|exact IH]. Qed.
Lemma firstn_mid {A} (pre : list A) rest : firstn (length pre) (pre ++ rest) = pre.
Proof. induction pre as [|x pre IH]; cbn; [destruct rest; reflexivity|rewrite IH; reflexivity]. Qed.
Lemma nth_error_mid {A} (pre : list A) c post : nth_error (pre ++ c :: post) (length pre) = Some c.
Proof. induction pre as [|x pre IH]; cbn; [reflexivity|exact IH]. Qed.
Lemma set_rd_mid (pre : store) c post v :
  set_rd (pre ++ c :: post) (length pre) v = pre ++ {| raw := raw c; rd := Some v |} :: post.
Proof. unfold set_rd. rewrite nth_error_mid, firstn_mid, skipn_S_mid. reflexivity. Qed.

(* main engine lemma: running the loop over fresh candles after a canonical prefix yields the canonical store *)
Lemma calc_range_fresh (HC : Causal) : forall new ds,
  calc_range (canon ds ++ map fresh new) (length ds) (length new) = canon (ds ++ new).
Proof.
  induction new as [|d new IH]; intros ds; cbn [map length calc_range].
  - rewrite !app_nil_r. reflexivity.
  - pose proof (canon_length ds) as Hlen. rewrite <- Hlen.
    rewrite nth_error_mid. cbn [fresh rd]. rewrite set_rd_mid. cbn [raw fresh].
    rewrite Hlen.
    unfold fresh at 1. rewrite HC.
    replace (canon ds ++ {| raw := d; rd := Some (calc (canon ds ++ [fresh d]) (Z.of_nat (length ds))) |} :: map fresh new)
      with (canon (ds ++ [d]) ++ map fresh new) by (rewrite canon_snoc, <- app_assoc; reflexivity).
    replace (S (length ds)) with (length (ds ++ [d])) by (rewrite app_length; cbn; lia).
    rewrite IH, <- app_assoc. reflexivity.
Qed.

Theorem batch_is_canon (HC : Causal) ds : calculate (map fresh ds) = canon ds.
Proof.
  unfold calculate. destruct ds as [|d ds]; [reflexivity|].
  assert (F : find_calc_index (map fresh (d :: ds)) = O) by reflexivity.
  rewrite F, Nat.sub_0_r, map_length.
  exact (calc_range_fresh HC (d :: ds) []).
Qed.

(* incremental: calculate on (canonical prefix ++ fresh chunk) — the state after append — gives the canonical whole *)
Lemma last_with_key_all_some : forall (st : store) i, st <> [] -> (forall c, In c st -> rd c <> None) ->
  last_with_key st i = Some (i + length st - 1)%nat.
Proof.
  induction st as [|c st IH]; intros i Hne Hall; [congruence|]. cbn [last_with_key length].
  destruct st as [|c' st'].
  - cbn. destruct (rd c) eqn:E; [f_equal; lia|]. exfalso. apply (Hall c); [left; reflexivity|exact E].
  - rewrite IH; [f_equal; cbn [length]; lia|congruence|]. intros x Hx. apply Hall. right. exact Hx.
Qed.
Lemma last_with_key_fresh_tail : forall (a : store) new i,
  last_with_key (a ++ map fresh new) i = last_with_key a i.
Proof.
  induction a as [|c a IH]; intros new i; cbn [app last_with_key].
  - revert i. induction new as [|d new IHn]; intros i; cbn; [reflexivity|]. rewrite IHn. reflexivity.
  - rewrite IH. reflexivity.
Qed.
Lemma canon_has_key ds : forall c, In c (canon ds) -> rd c <> None.
Proof.
  induction ds as [|d ds IH] using rev_ind; intros c Hc; [destruct Hc|].
  rewrite canon_snoc in Hc. apply in_app_or in Hc. destruct Hc as [Hc|[<-|[]]]; [apply IH; exact Hc|cbn; congruence].
Qed.

Lemma canon_acc_prefix : forall todo done, exists tl, canon_acc done todo = done ++ tl.
Proof.
  induction todo as [|d todo IH]; intros done; cbn [canon_acc]; [exists []; rewrite app_nil_r; reflexivity|].
  destruct (IH (done ++ [{| raw := d; rd := Some (calc (done ++ [fresh d]) (Z.of_nat (length done))) |}])) as [tl E].
  rewrite E, <- app_assoc. eexists; reflexivity.
Qed.

(* re-running the loop over an already canonical stretch changes nothing, then continues canonically *)
Lemma calc_range_canon (HC : Causal) : forall ds2 ds1 new,
  calc_range (canon (ds1 ++ ds2) ++ map fresh new) (length ds1) (length ds2 + length new) = canon (ds1 ++ ds2 ++ new).
Proof.
  induction ds2 as [|d ds2 IH]; intros ds1 new.
  - rewrite app_nil_r. cbn [length app Nat.add]. apply calc_range_fresh; exact HC.
  - cbn [length Nat.add calc_range].
    set (cdd := {| raw := d; rd := Some (calc (canon ds1 ++ [fresh d]) (Z.of_nat (length ds1))) |}).
    assert (E : exists tl, canon (ds1 ++ d :: ds2) = canon ds1 ++ cdd :: tl).
    { unfold canon at 1. rewrite canon_acc_app. cbn [canon_acc]. fold (canon ds1). rewrite canon_length. fold cdd.
      destruct (canon_acc_prefix ds2 (canon ds1 ++ [cdd])) as [tl Etl]. exists tl. rewrite Etl, <- app_assoc. reflexivity. }
    destruct E as [tl E]. rewrite E, <- app_assoc. cbn [app].
    pose proof (canon_length ds1) as Hlen. rewrite <- Hlen. rewrite nth_error_mid.
    assert (Tail : calc_range (canon ds1 ++ cdd :: tl ++ map fresh new) (S (length ds1)) (length ds2 + length new)
                   = canon (ds1 ++ (d :: ds2) ++ new)).
    { replace (canon ds1 ++ cdd :: tl ++ map fresh new) with (canon ((ds1 ++ [d]) ++ ds2) ++ map fresh new)
        by (rewrite <- app_assoc; cbn [app]; rewrite E, <- app_assoc; reflexivity).
      replace (S (length ds1)) with (length (ds1 ++ [d])) by (rewrite app_length; cbn; lia).
      rewrite IH, <- app_assoc. reflexivity. }
    destruct (rd cdd) as [[v|]|] eqn:Er.
    + rewrite Hlen. exact Tail.
    + rewrite set_rd_mid. rewrite Hlen.
      assert (Ec : calc (canon ds1 ++ [fresh d]) (Z.of_nat (length ds1)) = None)
        by (subst cdd; cbn [rd] in Er; congruence).
      assert (Hcalc : calc (canon ds1 ++ cdd :: tl ++ map fresh new) (Z.of_nat (length ds1)) = None)
        by (unfold cdd; rewrite HC; exact Ec).
      rewrite Hcalc.
      replace {| raw := raw cdd; rd := Some None |} with cdd by (subst cdd; cbn [raw]; rewrite Ec; reflexivity).
      exact Tail.
    + subst cdd. cbn [rd] in Er. discriminate.
Qed.

Theorem append_is_canon (HC : Causal) ds new :
  calculate (canon ds ++ map fresh new) = canon (ds ++ new).
Proof.
  unfold calculate.
  set (s0 := find_calc_index (canon ds ++ map fresh new)).
  assert (Hs : (s0 <= length ds)%nat).
  { subst s0. pose proof (canon_has_key ds) as HK. pose proof (canon_length ds) as HL.
    destruct (canon ds) as [|c0 rest] eqn:E.
    - cbn [app]. destruct new; cbn; lia.
    - cbn [app find_calc_index]. destruct (rd c0) eqn:E0; [|lia].
      rewrite last_with_key_fresh_tail. destruct rest as [|c1 rest']; [cbn; lia|].
      rewrite last_with_key_all_some; [cbn [length] in *; lia|congruence|].
      intros x Hx. apply HK. right. exact Hx. }
  clearbody s0.
  rewrite app_length, map_length, canon_length.
  assert (L1 : length (firstn s0 ds) = s0) by (rewrite firstn_length; lia).
  pose proof (firstn_skipn s0 ds) as Hds.
  remember (firstn s0 ds) as a. remember (skipn s0 ds) as b. clear Heqa Heqb. subst ds s0.
  rewrite app_length.
  replace (length a + length b + length new - length a)%nat with (length b + length new)%nat by lia.
  rewrite calc_range_canon by exact HC. rewrite app_assoc. reflexivity.
Qed.

(* schedule independence: any chunking gives the canonical store *)
Fixpoint run_chunks (st : store) (chunks : list (list D)) : store :=
  match chunks with [] => st | ch :: rest => run_chunks (calculate (st ++ map fresh ch)) rest end.
Theorem schedule_independent (HC : Causal) : forall chunks ds,
  run_chunks (canon ds) chunks = canon (ds ++ concat chunks).
Proof.
  induction chunks as [|ch chunks IH]; intros ds; cbn [run_chunks concat]; [rewrite app_nil_r; reflexivity|].
  rewrite append_is_canon by exact HC. rewrite IH, <- app_assoc. reflexivity.
Qed.
End Engine.
