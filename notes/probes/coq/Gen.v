From Coq Require Import ZArith List String Bool Lia.
Import ListNotations.
Local Open Scope Z_scope.

Record NumOps := {
  num : Type;
  nadd : num -> num -> num; nsub : num -> num -> num; nmul : num -> num -> num;
  ndiv : num -> num -> option num;            (* None = ZeroDivisionError *)
  nltb : num -> num -> bool; neqb : num -> num -> bool;
  nofZ : Z -> num;
  nround : Z -> num -> num;
  nsum : list num -> num
}.

Section Model.
Context (O : NumOps).
Notation num := (num O).
Inductive val := VNone | VNum (x : num) | VBool (b : bool) | VDict (d : list (string * val)).
Record candle := { ts : option Z; c_open : num; c_high : num; c_low : num; c_close : num; c_vol : num;
                   inds : list (string * val); subs : list (string * val) }.
Inductive res (A : Type) := Ok (a : A) | Err (e : string).
Arguments Ok {A}. Arguments Err {A}.
Definition bind {A B} (m : res A) (f : A -> res B) : res B := match m with Ok a => f a | Err e => Err e end.
Notation "x <- m ;; k" := (bind m (fun x => k)) (at level 61, m at next level, right associativity).

Fixpoint alist_get {A} (k : string) (l : list (string * A)) : option A :=
  match l with [] => None | (k', v) :: l' => if String.eqb k k' then Some v else alist_get k l' end.
Fixpoint alist_set {A} (k : string) (v : A) (l : list (string * A)) : list (string * A) :=
  match l with [] => [(k, v)] | (k', v') :: l' => if String.eqb k k' then (k, v) :: l' else (k', v') :: alist_set k v l' end.

(* Python list indexing: negative wraps, out of range = IndexError *)
Definition pyidx {A} (l : list A) (i : Z) : option A :=
  let n := Z.of_nat (List.length l) in
  if (0 <=? i) && (i <? n) then nth_error l (Z.to_nat i)
  else if (i <? 0) && (- n <=? i) then nth_error l (Z.to_nat (n + i)) else None.

Definition reading_by_candle (c : candle) (name : string) : val :=
  if String.eqb name "close" then VNum (c_close c) else
  if String.eqb name "high" then VNum (c_high c) else
  match alist_get name (inds c) with Some v => v | None =>
  match alist_get name (subs c) with Some v => v | None => VNone end end.

Definition reading (st : list candle) (name : string) (i : Z) : res val :=
  match pyidx st i with Some c => Ok (reading_by_candle c name) | None => Err "IndexError" end.
Definition is_none (v : val) := match v with VNone => true | _ => false end.
Definition valid_index (i n : Z) : bool := (i <? n) && (- n <=? i).
Definition reading_by_index st name i : val :=
  if valid_index i (Z.of_nat (List.length st)) then match pyidx st i with Some c => reading_by_candle c name | None => VNone end else VNone.
Definition reading_period (st : list candle) (period : Z) (name : string) (i : Z) : bool :=
  let p := period - 1 in
  if negb (valid_index i (Z.of_nat (List.length st))) then false else
  if i - p <? 0 then false else
  negb (is_none (reading_by_index st name (i - p))) && negb (is_none (reading_by_index st name (i - p / 2)))
  && negb (is_none (reading_by_index st name i)).
Definition as_num (v : val) : res num := match v with VNum x => Ok x | _ => Err "TypeError" end.

Definition prev_reading st name ai : res val := if (ai =? 0) then Ok VNone else reading st name (ai - 1).

Definition window_vals (st : list candle) name (lo hi : Z) : list val :=
  map (fun c => reading_by_candle c name) (firstn (Z.to_nat (hi - lo)) (skipn (Z.to_nat lo) st)).

(* EMA._calculate_reading *)
Definition calc_ema (self inp : string) (period : Z) (smoothing : num) (st : list candle) (ai : Z) : res val :=
  pv <- prev_reading st self ai ;;
  if negb (is_none pv) then
    alpha <- match ndiv O smoothing (nadd O (nofZ O period) (nofZ O 1)) with Some a => Ok a | None => Err "ZeroDivisionError" end ;;
    xv <- reading st inp ai ;; x <- as_num xv ;; p <- as_num pv ;;
    Ok (VNum (nadd O (nmul O alpha x) (nmul O p (nsub O (nofZ O 1) alpha))))
  else if reading_period st period inp ai then
    let vs := window_vals st inp (ai + 1 - period) (ai + 1) in
    let xs := flat_map (fun v => match v with VNum x => [x] | _ => [] end) vs in
    match ndiv O (nsum O xs) (nofZ O period) with Some a => Ok (VNum a) | None => Err "ZeroDivisionError" end
  else Ok VNone.

Definition set_ind (st : list candle) (i : nat) (name : string) (v : val) : list candle :=
  firstn i st ++ match nth_error st i with Some c => [{| ts := ts c; c_open := c_open c; c_high := c_high c; c_low := c_low c; c_close := c_close c; c_vol := c_vol c; inds := alist_set name v (inds c); subs := subs c |}] | None => [] end ++ skipn (S i) st.

Definition round_val (nd : Z) (v : val) : val := match v with VNum x => VNum (nround O nd x) | _ => v end.

Fixpoint calc_loop (calc : list candle -> Z -> res val) (name : string) (nd : Z) (todo : list nat) (st : list candle) : res (list candle) :=
  match todo with [] => Ok st | i :: rest =>
    match nth_error st i with
    | Some c => match alist_get name (inds c) with
                | Some v => if is_none v then v' <- calc st (Z.of_nat i) ;; calc_loop calc name nd rest (set_ind st i name (round_val nd v'))
                            else calc_loop calc name nd rest st
                | None => v' <- calc st (Z.of_nat i) ;; calc_loop calc name nd rest (set_ind st i name (round_val nd v')) end
    | None => Err "IndexError" end end.
End Model.
Arguments Ok {A}. Arguments Err {A}.
