From Coq Require Import ZArith List Bool Lia ZifyBool.
Require Import Engine.
Import ListNotations.
Local Open Scope Z_scope.

(* python list indexing with wrap-around *)
Definition pyget {A} (l : list A) (i : Z) : option A :=
  let n := Z.of_nat (length l) in
  if (0 <=? i) && (i <? n) then nth_error l (Z.to_nat i)
  else if (i <? 0) && (- n <=? i) then nth_error l (Z.to_nat (n + i)) else None.

Notation cdz := (cd Z Z).
Definition rdval (c : cdz) : option Z := match rd Z Z c with Some (Some v) => Some v | _ => None end.
Definition window (st : list cdz) (lo len : Z) : list Z :=
  map (raw Z Z) (firstn (Z.to_nat len) (skipn (Z.to_nat lo) st)).

(* SMA._calculate_reading, integer arithmetic stand-in for the numeric carrier *)
Definition sma_calc (p : Z) (st : list cdz) (i : Z) : option Z :=
  let prev := if i =? 0 then None else match pyget st (i - 1) with Some c => rdval c | None => None end in
  match prev with
  | Some r => match pyget st (i - p), pyget st i with       (* index - period: wraps if negative! *)
              | Some a, Some b => Some (r - (raw Z Z a - raw Z Z b) / p)
              | _, _ => None end
  | None => if i - (p - 1) <? 0 then None
            else Some (fold_right Z.add 0 (window st (i - (p - 1)) p) / p)
  end.

Section SMA.
Variable p : Z.
Hypothesis Hp : 2 <= p.
Notation canonS := (canon Z Z (sma_calc p)).

Lemma pyget_app_l {A} (a b : list A) j : 0 <= j < Z.of_nat (length a) -> pyget (a ++ b) j = pyget a j.
Proof.
  intros Hj. unfold pyget. rewrite app_length.
  replace ((0 <=? j) && (j <? Z.of_nat (length a + length b))) with true by lia.
  replace ((0 <=? j) && (j <? Z.of_nat (length a))) with true by lia.
  apply nth_error_app1. lia.
Qed.

(* invariant of canonical stores: no reading before the warm-up index *)
Lemma canon_warmup : forall ds k c, pyget (canonS ds) k = Some c -> 0 <= k < p - 1 -> rdval c = None.
Proof.
  induction ds as [|d ds IH] using rev_ind; intros k c Hk Hr.
  - exfalso. change (canonS []) with (@nil cdz) in Hk. unfold pyget in Hk. cbn [length] in Hk.
    destruct ((0 <=? k) && (k <? Z.of_nat 0)) eqn:B1; [lia|].
    destruct ((k <? 0) && (- Z.of_nat 0 <=? k)) eqn:B2; [lia|discriminate].
  - rewrite canon_snoc in Hk.
    destruct (Z.ltb_spec k (Z.of_nat (length ds))) as [Hlt|Hge].
    + rewrite pyget_app_l in Hk by (rewrite canon_length; lia). eapply IH; eauto.
    + assert (Hlen : length (canonS ds ++ [{| raw := d; rd := Some (sma_calc p (canonS ds ++ [fresh Z Z d]) (Z.of_nat (length ds))) |}]) = S (length ds))
        by (rewrite app_length, canon_length; cbn; lia).
      unfold pyget in Hk. rewrite Hlen in Hk.
      replace ((0 <=? k) && (k <? Z.of_nat (S (length ds)))) with true in Hk.
      2:{ (* k must be exactly length ds, otherwise out of range *)
          destruct ((0 <=? k) && (k <? Z.of_nat (S (length ds)))) eqn:B; [reflexivity|].
          replace ((k <? 0) && (- Z.of_nat (S (length ds)) <=? k)) with false in Hk by lia. discriminate. }
      assert (k = Z.of_nat (length ds)).
      { destruct (Z.eq_dec k (Z.of_nat (length ds))); [assumption|].
        rewrite nth_error_app2 in Hk by (rewrite canon_length; lia).
        rewrite canon_length in Hk. destruct (Z.to_nat k - length ds)%nat eqn:E; [lia|].
        cbn in Hk. destruct n0; discriminate. }
      subst k. rewrite Nat2Z.id in Hk.
      assert (Hn : forall (x : cdz), nth_error (canonS ds ++ [x]) (length ds) = Some x).
      { intros x. pose proof (nth_error_mid (canonS ds) x []) as Hm. rewrite canon_length in Hm. exact Hm. }
      rewrite Hn in Hk. injection Hk as <-. unfold rdval. cbn [rd].
      (* the reading written at this index is None: no previous reading, and index-(p-1) < 0 *)
      unfold sma_calc at 1.
      destruct (Z.of_nat (length ds) =? 0) eqn:E0.
      * replace (Z.of_nat (length ds) - (p - 1) <? 0) with true by lia. reflexivity.
      * destruct (pyget (canonS ds ++ [fresh Z Z d]) (Z.of_nat (length ds) - 1)) as [c'|] eqn:Ep.
        -- rewrite pyget_app_l in Ep by (rewrite canon_length; lia).
           pose proof (IH _ _ Ep ltac:(lia)) as Hnone. cbv beta iota zeta. rewrite Hnone.
           replace (Z.of_nat (length ds) - (p - 1) <? 0) with true by lia. reflexivity.
        -- replace (Z.of_nat (length ds) - (p - 1) <? 0) with true by lia. reflexivity.
Qed.

Lemma firstn_skipn_app_l {A} (x y : list A) lo len : (lo + len <= length x)%nat ->
  firstn len (skipn lo (x ++ y)) = firstn len (skipn lo x).
Proof.
  intros H. rewrite skipn_app, firstn_app.
  replace (len - length (skipn lo x))%nat with O by (rewrite skipn_length; lia).
  cbn. rewrite app_nil_r. reflexivity.
Qed.
Lemma window_raw (st : list cdz) lo len :
  window st lo len = firstn (Z.to_nat len) (skipn (Z.to_nat lo) (map (raw Z Z) st)).
Proof. unfold window. rewrite skipn_map, firstn_map. reflexivity. Qed.
Lemma pyget_last {A} (a : list A) c rest : pyget (a ++ c :: rest) (Z.of_nat (length a)) = Some c.
Proof.
  unfold pyget. rewrite app_length. cbn [length].
  replace ((0 <=? Z.of_nat (length a)) && (Z.of_nat (length a) <? Z.of_nat (length a + S (length rest)))) with true by lia.
  rewrite Nat2Z.id. apply nth_error_mid.
Qed.

Lemma sma_causal : Causal Z Z (sma_calc p).
Proof.
  intros ds d x rest. pose proof (canon_length Z Z (sma_calc p) ds) as HL.
  set (A := canonS ds) in *. set (n := Z.of_nat (length ds)).
  assert (HnA : n = Z.of_nat (length A)) by (subst n; rewrite HL; reflexivity).
  unfold sma_calc.
  (* previous reading: same on both sides *)
  assert (Hprev : (if n =? 0 then None else match pyget (A ++ {| raw := d; rd := x |} :: rest) (n - 1) with Some c => rdval c | None => None end)
                = (if n =? 0 then None else match pyget (A ++ [fresh Z Z d]) (n - 1) with Some c => rdval c | None => None end)).
  { destruct (n =? 0) eqn:E0; [reflexivity|]. rewrite !pyget_app_l by lia. reflexivity. }
  rewrite Hprev. clear Hprev.
  destruct (if n =? 0 then None else match pyget (A ++ [fresh Z Z d]) (n - 1) with Some c => rdval c | None => None end) as [r|] eqn:Eprev.
  - (* a previous reading exists, hence n-1 >= p-1 by the warm-up invariant, so n-p does not wrap *)
    assert (Hn : p <= n).
    { destruct (n =? 0) eqn:E0; [discriminate|].
      rewrite pyget_app_l in Eprev by lia.
      destruct (pyget A (n - 1)) as [c|] eqn:Ec; [|discriminate].
      destruct (Z_lt_ge_dec (n - 1) (p - 1)) as [Hlt|Hge]; [|lia].
      unfold A in Ec. rewrite (canon_warmup ds (n - 1) c Ec) in Eprev by lia. discriminate. }
    rewrite (pyget_app_l A (_ :: rest) (n - p)) by lia.
    rewrite (pyget_app_l A [_] (n - p)) by lia.
    rewrite HnA, !pyget_last. reflexivity.
  - destruct (n - (p - 1) <? 0) eqn:G; [reflexivity|].
    rewrite !window_raw, !map_app. cbn [map raw fresh].
    change (map (raw Z Z) A ++ d :: map (raw Z Z) rest) with (map (raw Z Z) A ++ [d] ++ map (raw Z Z) rest).
    rewrite app_assoc.
    rewrite firstn_skipn_app_l; [reflexivity|].
    rewrite app_length, map_length. cbn [length]. lia.
Qed.
End SMA.
Print Assumptions sma_causal.
