From Coq Require Import ZArith List Bool Lia ZifyBool.
Import ListNotations.
Local Open Scope Z_scope.

Section Collapse.
Variable P : Type.
Variable merge : P -> P -> P.
Record cd := { t : Z; p : P }.
Definition rdown (ts tf : Z) := ts / tf * tf.
Definition on_tf (ts tf : Z) := ts mod tf =? 0.
Definition label (ts tf : Z) := - ((- ts) / tf) * tf.

Fixpoint loop (tf start end_ : Z) (acc : list cd) (l : list cd) : option (list cd) :=
  match l with
  | [] => Some (rev acc)
  | c :: l' =>
    match acc with
    | [] => None
    | prev :: acc' =>
      let nxt := end_ + tf in
      if (start <? t c) && (t c <=? end_) && (t prev =? end_) then
        loop tf start end_ ({| t := t prev; p := merge (p prev) (p c) |} :: acc') l'
      else if (start <? t c) && (t c <=? end_) then
        loop tf start end_ ({| t := end_; p := p c |} :: acc) l'
      else if (start - tf <? t c) && (t c <=? start) && (t prev =? start) then
        loop tf start end_ ({| t := t prev; p := merge (p prev) (p c) |} :: acc') l'
      else if (end_ <? t c) && (t c <=? nxt) then
        loop tf (start + tf) (end_ + tf) ({| t := nxt; p := p c |} :: acc) l'
      else if (start <? t c) && on_tf (t c) tf then
        let s := rdown (t c) tf in loop tf s (s + tf) ({| t := s; p := p c |} :: acc) l'
      else if (nxt <? t c) then
        let s := rdown (t c) tf in loop tf s (s + tf) ({| t := s + tf; p := p c |} :: acc) l'
      else None
    end
  end.

Definition collapse (tf : Z) (l : list cd) : option (list cd) :=
  match l with
  | [] => Some []
  | c0 :: l' =>
    let s := rdown (t c0) tf in
    let c0' := if on_tf (t c0) tf then c0 else {| t := s + tf; p := p c0 |} in
    loop tf s (s + tf) [c0'] l'
  end.

(* specification: group by right-closed bucket, label = bucket end *)
Fixpoint resample_acc (tf : Z) (acc : list cd) (l : list cd) : list cd :=
  match l with
  | [] => rev acc
  | c :: l' =>
    match acc with
    | prev :: acc' =>
      if t prev =? label (t c) tf
      then resample_acc tf ({| t := t prev; p := merge (p prev) (p c) |} :: acc') l'
      else resample_acc tf ({| t := label (t c) tf; p := p c |} :: acc) l'
    | [] => resample_acc tf [{| t := label (t c) tf; p := p c |}] l'
    end
  end.
Definition resample tf l := resample_acc tf [] l.

Fixpoint sorted_from (r : Z) (l : list cd) : Prop :=
  match l with [] => True | c :: l' => r <= t c /\ sorted_from (t c) l' end.

Lemma label_spec ts tf : 0 < tf -> label ts tf mod tf = 0 /\ label ts tf - tf < ts <= label ts tf.
Proof.
  intros H. unfold label. split.
  - apply Z.mod_mul; lia.
  - pose proof (Z.div_mod (- ts) tf ltac:(lia)) as E.
    pose proof (Z.mod_pos_bound (- ts) tf H) as B. nia.
Qed.
Lemma label_unique ts tf L : 0 < tf -> L mod tf = 0 -> L - tf < ts <= L -> label ts tf = L.
Proof.
  intros H H1 H2. unfold label.
  apply Z.mod_divide in H1; [|lia]. destruct H1 as [k ->].
  assert (E : (- ts) / tf = - k).
  { symmetry. apply (Z.div_unique (- ts) tf (- k) (k * tf - ts)); nia. }
  rewrite E. lia.
Qed.
Lemma rdown_spec ts tf : 0 < tf -> (ts / tf * tf) mod tf = 0 /\ ts / tf * tf <= ts < ts / tf * tf + tf.
Proof.
  intros H. split; [apply Z.mod_mul; lia|].
  pose proof (Z.div_mod ts tf ltac:(lia)). pose proof (Z.mod_pos_bound ts tf H). nia.
Qed.

Lemma mod_add_tf x tf : 0 < tf -> x mod tf = 0 -> (x + tf) mod tf = 0.
Proof. intros H E. rewrite Z.add_mod, E, Z.mod_same, Z.add_0_l, Z.mod_0_l by lia. reflexivity. Qed.
Ltac side := first [ assumption | apply mod_add_tf; assumption | lia ].
(* loop invariant: L = label of last raw timestamp r; window is (L-tf,L] (end=L) or (L,L+tf] (start=L) *)
Lemma loop_ok tf (Htf : 0 < tf) : forall l start end_ prev acc' r,
  end_ = start + tf -> start mod tf = 0 ->
  t prev = label r tf -> (end_ = t prev \/ start = t prev) ->
  sorted_from r l ->
  loop tf start end_ (prev :: acc') l = Some (resample_acc tf (prev :: acc') l).
Proof.
  induction l as [|c l IH]; intros start end_ prev acc' r He Hs Hp Hw Hsort; [reflexivity|].
  destruct Hsort as [Hr Hsort].
  pose proof (label_spec r tf Htf) as [Lm Lr].
  pose proof (label_spec (t c) tf Htf) as [Cm Cr].
  pose proof (rdown_spec (t c) tf Htf) as [Dm Dr].
  assert (Em : end_ mod tf = 0) by (subst end_; apply mod_add_tf; assumption).
  assert (Pm : t prev mod tf = 0) by (rewrite Hp; exact Lm).
  pose proof (Z.div_mod (t c) tf ltac:(lia)) as DM.
  pose proof (Z.mod_pos_bound (t c) tf Htf) as DB.
  rewrite Hp in Hw.
  cbn [loop resample_acc].
  destruct ((start <? t c) && (t c <=? end_) && (t prev =? end_)) eqn:B1.
  { (* merge into current bucket *)
    assert (E : t prev = label (t c) tf) by (symmetry; apply label_unique; side).
    rewrite <- E, Z.eqb_refl. eapply IH with (r := t c); eauto; cbn [t]; side. }
  destruct ((start <? t c) && (t c <=? end_)) eqn:B2.
  { assert (E : label (t c) tf = end_) by (apply label_unique; side).
    assert (N : (t prev =? label (t c) tf) = false) by lia. rewrite N, E.
    eapply IH with (r := t c); eauto; cbn [t]; side. }
  destruct ((start - tf <? t c) && (t c <=? start) && (t prev =? start)) eqn:B3.
  { assert (E : t prev = label (t c) tf) by (symmetry; apply label_unique; side).
    rewrite <- E, Z.eqb_refl. eapply IH with (r := t c); eauto; cbn [t]; side. }
  destruct ((end_ <? t c) && (t c <=? end_ + tf)) eqn:B4.
  { assert (E : label (t c) tf = end_ + tf) by (apply label_unique; side).
    assert (N : (t prev =? label (t c) tf) = false) by lia. rewrite N, E.
    eapply IH with (r := t c); eauto; cbn [t]; side. }
  unfold on_tf, rdown.
  destruct ((start <? t c) && (t c mod tf =? 0)) eqn:B5.
  { assert (E : label (t c) tf = t c / tf * tf) by (apply label_unique; side).
    assert (N : (t prev =? label (t c) tf) = false) by lia. rewrite N, E.
    eapply IH with (r := t c); eauto; cbn [t]; side. }
  destruct (end_ + tf <? t c) eqn:B6.
  { assert (E : label (t c) tf = t c / tf * tf + tf) by (apply label_unique; side).
    assert (N : (t prev =? label (t c) tf) = false) by lia. rewrite N, E.
    eapply IH with (r := t c); eauto; cbn [t]; side. }
  exfalso. lia.
Qed.

Theorem collapse_is_resample tf l : 0 < tf ->
  match l with [] => True | c :: l' => sorted_from (t c) l' end ->
  collapse tf l = Some (resample tf l).
Proof.
  intros Htf Hs. destruct l as [|c0 l]; [reflexivity|].
  unfold collapse, resample. cbn [resample_acc]. unfold on_tf, rdown.
  pose proof (label_spec (t c0) tf Htf) as [Cm Cr].
  pose proof (rdown_spec (t c0) tf Htf) as [Dm Dr].
  pose proof (Z.div_mod (t c0) tf ltac:(lia)) as DM.
  pose proof (Z.mod_pos_bound (t c0) tf Htf) as DB.
  destruct (t c0 mod tf =? 0) eqn:B.
  - assert (E : label (t c0) tf = t c0) by (apply label_unique; side).
    rewrite E. destruct c0 as [t0 p0]; cbn [t p] in *.
    eapply loop_ok with (r := t0); eauto; cbn [t]; side.
  - assert (E : label (t c0) tf = t c0 / tf * tf + tf) by (apply label_unique; side).
    rewrite E. eapply loop_ok with (r := t c0); eauto; cbn [t]; side.
Qed.
End Collapse.
Print Assumptions collapse_is_resample.
