From Coq Require Import ZArith List String Bool Reals Lra Lia.
Require Import Gen.
Import ListNotations.
Local Open Scope R_scope.
Section RInst.
Variable rnd : Z -> R -> R.
Variable eps : R.
Hypothesis rnd_err : forall nd x, Rabs (rnd nd x - x) <= eps.
Definition Rltb (x y : R) : bool := if Rlt_dec x y then true else false.
Definition Reqb (x y : R) : bool := if Req_EM_T x y then true else false.
Definition ROps : NumOps := {|
  num := R; nadd := Rplus; nsub := Rminus; nmul := Rmult;
  ndiv := fun a b => if Req_EM_T b 0 then None else Some (a / b);
  nltb := Rltb; neqb := Reqb; nofZ := IZR; nround := rnd; nsum := fun l => fold_right Rplus 0 l |}.

(* one-step law of the EMA model in ideal arithmetic *)
Lemma ema_step_real self inp period st ai p x :
  (0 < period)%Z ->
  prev_reading ROps st self ai = Ok (VNum ROps p) ->
  reading ROps st inp ai = Ok (VNum ROps x) ->
  calc_ema ROps self inp period 2 st ai =
    Ok (VNum ROps ((2 / (IZR period + 1)) * x + p * (1 - 2 / (IZR period + 1)))).
Proof.
  intros Hp Hprev Hx. unfold calc_ema. rewrite Hprev. cbn [bind is_none negb].
  cbn [ndiv ROps nadd nofZ].
  destruct (Req_EM_T (IZR period + 1) 0) as [E|NE].
  - exfalso. assert (0 < IZR period) by (apply IZR_lt; assumption). lra.
  - cbn [bind]. rewrite Hx. cbn [bind as_num nmul nsub ROps]. reflexivity.
Qed.

Lemma stored_ema_close nd v : Rabs (match round_val ROps nd (VNum ROps v) with VNum _ r => r | _ => 0 end - v) <= eps.
Proof. cbn. apply rnd_err. Qed.
End RInst.
Print Assumptions ema_step_real.
