import sys, random
sys.path.insert(0,"/tmp/hx"); from common import *
rng=random.Random(7)
L=["From Coq Require Import ZArith List String Bool PrimFloat.","Require Import Rnd Gen InstF.","Import ListNotations.","Open Scope float_scope."]
cases=[]
for k in range(300):
    n=rng.randint(1,80); p=rng.randint(2,12)
    cs=gen_stream(rng,n)
    e=I.EMA(candles=mk(cs),period=p); e.calculate(); out=e.as_list()
    cl="["+";".join(f"mkc {i} ({float(c['open']).hex()}) ({float(c['high']).hex()}) ({float(c['low']).hex()}) ({float(c['close']).hex()}) ({float(c['volume']).hex()})" for i,c in enumerate(cs))+"]"
    ol="["+";".join("None" if v is None else f"Some ({float(v).hex()})" for v in out)+"]"
    cases.append(f"({p}%Z, {cl}, {ol})")
L.append("Definition cases := [" + ";\n".join(cases) + "].")
L.append('Definition ok (c : Z * list (candle FOps) * list (option float)) : bool := let \'(p, cs, exp) := c in match run_ema p cs with Ok got => (Nat.eqb (List.length got) (List.length exp)) && forallb (fun q => veqb (fst q) (snd q)) (combine got exp) | Err _ => false end.')
L.append("Eval vm_compute in (List.length (filter (fun c => negb (ok c)) cases), List.length cases).")
open("/tmp/hx/coq/T2.v","w").write("\n".join(L))
