From Coq Require Import ZArith List String Bool PrimFloat.
Require Import Rnd Gen.
Import ListNotations.
Definition FOps : NumOps := {|
  num := float; nadd := PrimFloat.add; nsub := PrimFloat.sub; nmul := PrimFloat.mul;
  ndiv := fun a b => if PrimFloat.eqb b 0%float then None else Some (PrimFloat.div a b);
  nltb := PrimFloat.ltb; neqb := PrimFloat.eqb; nofZ := of_Z_small; nround := fun nd x => py_round x nd; nsum := py_sum |}.
Definition mkc (t : Z) (o h l c v : float) : candle FOps :=
  Build_candle FOps (Some t) o h l c v [] []. (*  c_high := h; c_low := l; c_close := c; c_vol := v;  *)
Definition run_ema (period : Z) (cs : list (candle FOps)) : res (list (val FOps)) :=
  match calc_loop FOps (calc_ema FOps "EMA" "close" period 2%float) "EMA" 4 (seq 0 (List.length cs)) cs with
  | Ok st => Ok (map (fun c => reading_by_candle FOps c "EMA") st) | Err e => Err e end.
Definition veqb (a : val FOps) (b : option float) : bool :=
  match a, b with VNone _, None => true | VNum _ x, Some y => feqb x y | _, _ => false end.
