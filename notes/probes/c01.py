from common import *
import traceback
def run(name, cfgname, kw, seeds=range(8), n=60, first_choices=(0,1,2,7,30), **gen):
    fails = []
    for seed in seeds:
        rng = random.Random(seed)
        cs = gen_stream(rng, n, **gen)
        try:
            b = ALL[name](candles=mk(cs), **kw); b.calculate()
            bs = snap(b.candles)
        except Exception as e:
            fails.append((seed, "batch-exc", repr(e))); continue
        for first in first_choices:
            try:
                a = ALL[name](candles=mk(cs[:first]), **kw); a.calculate()
                prev = first
                for cut in chunks(rng, n, None) :
                    if cut <= prev: continue
                    a.append(mk(cs[prev:cut])); prev = cut
                as_ = snap(a.candles)
            except Exception as e:
                fails.append((seed, first, "inc-exc", repr(e))); continue
            if as_ != bs:
                # locate
                idx = next((i for i,(x,y) in enumerate(zip(as_,bs)) if x!=y), min(len(as_),len(bs)))
                fails.append((seed, first, "diff@%d len %d/%d"%(idx,len(as_),len(bs))))
    return fails

configs = {
  "base": ({}, {}),
  "T5": (dict(timeframe="T5"), {}),
  "T5jg": (dict(timeframe="T5"), dict(jitter=True, gaps=True)),
  "T5fill": (dict(timeframe="T5", timeframe_fill=True), dict(jitter=True, gaps=True)),
  "HA": (dict(candlestick_type="HA"), {}),
  "HA_T5": (dict(candlestick_type="HA", timeframe="T5"), dict(jitter=True)),
  "HA_T5fill": (dict(candlestick_type="HA", timeframe="T5", timeframe_fill=True), dict(jitter=True, gaps=True)),
}
import sys
for cname,(kw,gen) in configs.items():
    print("==", cname)
    for name in ALL:
        f = run(name, cname, kw, **gen)
        if f:
            print("  ", name, len(f), f[:3])
