from fixes import *
rng=random.Random(4); cs=gen_stream(rng,12); cs[-1]["volume"]=7
c=I.Counter(input_value="volume",count_value=0); o=I.OBV()
h=Hexital("x",mk(cs),[c,o,I.Amorph(analysis=movement.positive)]); h.calculate()
print(c.as_list()[-3:], c.has_reading, h.has_reading(c.name), h.reading(c.name))
print("positive", h.indicator("positive").as_list()[-3:], h.has_reading("positive"), h.indicator("positive").has_reading)
e=I.EMA(period=3,candles=mk(cs)); e.calculate(); print(e.has_reading, e.reading()); e.calculate_index(1); print("after calculate_index(1):", e.has_reading, e.reading(), e.as_list()[-1])
e=I.EMA(period=3,candles=[]); print("empty", e.has_reading, e.reading_count())
try: print(e.reading())
except Exception as ex: print("reading on empty EXC", repr(ex))
try: print(e.prev_reading())
except Exception as ex: print("prev_reading on empty EXC", repr(ex))
