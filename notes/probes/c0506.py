from fixes import *
from refs import *
def cmp(name, got, want, tol=2e-3):
    worst=0; first=None; pres=0
    for i,(g,w) in enumerate(zip(got,want)):
        if (g is None)!=(w is None):
            pres+=1
            if first is None: first=(i,g,w)
        elif g is not None:
            d=abs(g-w)
            if d>tol and first is None: first=(i,g,w)
            worst=max(worst,d)
    print(f"{name:14s} worst={worst:.6g} presence_mismatch={pres} first={first}")
rng=random.Random(11); cs=gen_stream(rng,90); C=[c["close"] for c in cs]; V=[c["volume"] for c in cs]
H=[c["high"] for c in cs]; L=[c["low"] for c in cs]; p=5
def run(ind): ind.calculate(); return ind
i=run(I.TR(candles=mk(cs))); cmp("TR",i.as_list(),tr(H,L,C))
i=run(I.ATR(candles=mk(cs),period=p)); cmp("ATR",i.as_list(),atr(H,L,C,p))
i=run(I.StandardDeviation(candles=mk(cs),period=p)); cmp("STDEV",i.as_list(),stdev(C,p))
i=run(I.BBANDS(candles=mk(cs),period=p)); s=sma(C,p); sd=stdev(C,p)
cmp("BBM",i.as_list("BBANDS_5.BBM"),[None if b is None else a for a,b in zip(s,sd)]); cmp("BBU",i.as_list("BBANDS_5.BBU"),[None if b is None else a+2*b for a,b in zip(s,sd)]); cmp("BBL",i.as_list("BBANDS_5.BBL"),[None if b is None else a-2*b for a,b in zip(s,sd)])
i=run(I.KC(candles=mk(cs),period=p)); e=ema(C,p); a=atr(H,L,C,p); nm=i.name
cmp("KC.band",i.as_list(nm+".band"),[None if y is None else x for x,y in zip(e,a)]); cmp("KC.upper",i.as_list(nm+".upper"),[None if y is None else x+2*y for x,y in zip(e,a)]); cmp("KC.lower",i.as_list(nm+".lower"),[None if y is None else x-2*y for x,y in zip(e,a)])
i=run(I.Donchian(candles=mk(cs),period=p))
cmp("DCU",i.as_list("DONCHIAN_5.DCU"),[None if k<p-1 else max(H[k-p+1:k+1]) for k in range(len(H))]); cmp("DCL",i.as_list("DONCHIAN_5.DCL"),[None if k<p-1 else min(L[k-p+1:k+1]) for k in range(len(H))])
i=run(I.HighestLowest(candles=mk(cs),period=p))
cmp("HL.high",i.as_list("HL_5.high"),[max(H[max(0,k-p):k+1]) for k in range(len(H))]); cmp("HL.low",i.as_list("HL_5.low"),[min(L[max(0,k-p):k+1]) for k in range(len(H))])
i=run(I.Supertrend(candles=mk(cs),period=p)); st=supertrend(H,L,C,p,3.0)
for j,f in enumerate(["trend","direction","long","short"]): cmp("ST."+f,i.as_list("Supertrend_5."+f),[r[j] for r in st])
i=run(I.RSI(candles=mk(cs),period=p)); cmp("RSI",i.as_list(),rsi(C,p))
i=run(I.ROC(candles=mk(cs),period=p)); cmp("ROC",i.as_list(),roc(C,p))
i=run(I.OBV(candles=mk(cs))); cmp("OBV",i.as_list(),obv(C,V))
i=run(I.VWAP(candles=mk(cs))); cmp("VWAP",i.as_list(),vwap(H,L,C,V))
i=run(I.MACD(candles=mk(cs),fast_period=3,slow_period=6,signal_period=4)); m,sg,hs=macd(C,3,6,4); nm=i.name
cmp("MACD",i.as_list(nm+".MACD"),m); cmp("signal",i.as_list(nm+".signal"),sg); cmp("hist",i.as_list(nm+".histogram"),hs)
i=run(I.STOCH(candles=mk(cs),period=p)); st,K,D=stoch(H,L,C,p,3,3); nm=i.name
cmp("stoch",i.as_list(nm+".stoch"),st); cmp("k",i.as_list(nm+".k"),K); cmp("d",i.as_list(nm+".d"),D)
i=run(I.TSI(candles=mk(cs),period=6)); cmp("TSI",i.as_list(),tsi(C,6,3))
i=run(I.AROON(candles=mk(cs),period=p)); u,d=aroon(H,L,p); cmp("AROONU",i.as_list("AROON_5.AROONU"),u); cmp("AROOND",i.as_list("AROON_5.AROOND"),d)
i=run(I.ADX(candles=mk(cs),period=p)); ax,dp,dn=adx(H,L,C,p,p); nm=i.name
cmp("ADX",i.as_list(nm+".ADX"),ax,0.05); cmp("DM_Plus",i.as_list(nm+".DM_Plus"),dp,0.05); cmp("DM_Neg",i.as_list(nm+".DM_Neg"),dn,0.05)
