from fixes import *
import os
if os.environ.get("FIXHA"): fix_ha()
def cand(cands): return [(c.timestamp,c.open,c.high,c.low,c.close,c.volume) for c in cands]
bad=[]
for seed in range(6):
  rng=random.Random(seed); n=50; cs=gen_stream(rng,n,jitter=True,gaps=rng.random()<0.5)
  for hkw in [{}, dict(timeframe="T5"), dict(timeframe_fill=True), dict(candlestick_type="HA"), dict(candles_lifespan=timedelta(minutes=25))]:
    names=rng.sample(list(ALL),4)
    if os.environ.get("NOAMORPHSET") : names=[x for x in names if x not in ("rising","highest","highestbar","doji","hammer")] or ["EMA"]
    tfs=[rng.choice([None,None,"T5","T10","T5"]) for _ in names]
    for form in ("obj","settings"):
      for first in (0, 20, n):
        try:
            members=[ALL[nm](**({"timeframe":tf} if tf else {})) for nm,tf in zip(names,tfs)]
            if form=="settings": members=[m.settings for m in members]
            h=Hexital("h",mk(cs[:first]),members,**hkw); h.calculate()
            prev=first
            for cut in chunks(rng,n):
                if cut<=prev: continue
                h.append(mk(cs[prev:cut])); prev=cut
        except Exception as e:
            bad.append((seed,hkw,names,tfs,form,first,"HEX EXC",repr(e)[:80])); continue
        raw_default = h.candles()
        for nm,tf in zip(names,tfs):
            eff=dict(hkw)
            if tf: eff["timeframe"]=tf
            try:
                s=ALL[nm](candles=mk(cs),**eff); s.calculate()
            except Exception as e:
                bad.append((seed,hkw,nm,tf,"SOLO EXC",repr(e)[:60])); continue
            hi=list(h.indicators.values())[list(zip(names,tfs)).index((nm,tf))] if len(h.indicators)==len(names) else None
            if hi is None: bad.append((seed,hkw,nm,tf,form,first,"dup-names")); continue
            if cand(hi.candles)!=cand(s.candles): bad.append((seed,hkw,nm,tf,form,first,"candles differ")); continue
            if hi.as_list()!=s.as_list(): bad.append((seed,hkw,nm,tf,form,first,"readings differ"))
import collections
print(len(bad)); 
import collections
c=collections.Counter((str(b[1]),b[-1] if isinstance(b[-1],str) and len(b[-1])<40 else b[-2]) for b in bad)
for k,v in c.most_common(20): print(k,v)
for b in bad[:6]: print(b)
