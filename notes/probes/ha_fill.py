from fixes import *
fix_ha()
rng = random.Random(0)
cs = gen_stream(rng, 40, jitter=True, gaps=True)
kw = dict(candlestick_type="HA", timeframe="T5", timeframe_fill=True)
b = I.HLA if False else None
b = I.HighLowAverage(candles=mk(cs), **kw); b.calculate()
a = I.HighLowAverage(candles=[], **kw)
for c in mk(cs): a.append(c)
for i,(x,y) in enumerate(zip(a.candles,b.candles)):
    flag = "" if (x.open,x.high,x.low,x.close,x.volume)==(y.open,y.high,y.low,y.close,y.volume) else "  <<<<"
    print(i, x.timestamp.time(), x.tag, (x.open,x.high,x.low,x.close,x.volume), (y.open,y.high,y.low,y.close,y.volume), x.clean_values.get('close'), y.clean_values.get('close'), flag)
