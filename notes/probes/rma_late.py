from fixes import *
rng=random.Random(3); cs=gen_stream(rng,30)
for late in (1,2,3,6,7):
    base=I.SMA(candles=mk(cs),period=late+1,fullname_override="BASE"); base.calculate()
    ind=I.RMA(candles=base.candles,period=5,input_value="BASE",fullname_override="X")
    try:
        ind.calculate(); print(late, ind.as_list()[:12])
    except Exception as e: print(late,"EXC",repr(e))
