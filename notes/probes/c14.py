from fixes import *
def full(ind): return [(copy.deepcopy(c.indicators), copy.deepcopy(c.sub_indicators)) for c in ind.candles]
rng=random.Random(2); cs=gen_stream(rng,50)
print("--- calculate idempotent / recalc / purge / calculate_index(+i,-i)")
for name in ALL:
    msgs=[]
    try:
        ind=ALL[name](candles=mk(cs)); ind.calculate(); s0=full(ind)
        ind.calculate(); 
        if full(ind)!=s0: msgs.append("calc-not-idem")
        ind.recalculate()
        if full(ind)!=s0: msgs.append("recalc-differs")
        ind.purge(); left=[(i,list(c.indicators),list(c.sub_indicators)) for i,c in enumerate(ind.candles) if c.indicators or c.sub_indicators]
        if left: msgs.append(f"purge-leaves {left[0]}")
        try:
            ind.calculate()
            if full(ind)!=s0: msgs.append("calc-after-purge-differs")
        except Exception as e: msgs.append(f"calc-after-purge EXC {type(e).__name__}")
        ind=ALL[name](candles=mk(cs)); ind.calculate(); s0=full(ind)
        for idx in (30, 49):
            ind.calculate_index(idx)
            if full(ind)!=s0: msgs.append(f"calcidx+{idx}-differs"); break
        ind=ALL[name](candles=mk(cs)); ind.calculate(); s0=full(ind)
        for idx in (-1, -20):
            ind.calculate_index(idx)
            s1=full(ind)
            if s1!=s0:
                d=[i for i,(a,b) in enumerate(zip(s0,s1)) if a!=b]
                msgs.append(f"calcidx{idx}-differs@{d[:3]}")
                ind.calculate()
                if full(ind)!=s0: msgs.append("  not-healed-by-calculate")
                break
    except Exception as e:
        msgs.append(f"EXC {type(e).__name__}: {e}")
    if msgs: print(f"{name:11s}", msgs)
