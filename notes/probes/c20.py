from fixes import *
rng=random.Random(4); cs=gen_stream(rng,30,flat=0.3); cs[-1]["volume"]=0; cs[-1]["close"]=cs[-2]["close"]
inds=[I.EMA(period=3), I.MACD(fast_period=2,slow_period=4,signal_period=2), I.Counter(input_value="volume",count_value=0), I.OBV(), I.EMA(period=3,timeframe="T5"), I.Supertrend(period=3)]
h=Hexital("x",mk(cs),inds); h.calculate()
n=len(h.candles())
for ind in inds:
    nm=ind.name; names=[nm]
    if isinstance(ind.reading(index=-1),dict): names+= [nm+"."+k for k in ind.reading(index=-1)]
    for name in names:
        lst=ind.as_list(name); L=len(ind.candles)
        msgs=[]
        if h.reading_as_list(name)!=lst: msgs.append("hexital.reading_as_list != as_list")
        for i in range(L):
            direct=ind.read_candle(ind.candles[i],name)
            if ind.reading(name,index=i)!=lst[i] or ind.reading(name,index=i-L)!=lst[i] or direct!=lst[i]: msgs.append(f"indicator.reading idx {i}"); break
        if ind.timeframe is None:
            for i in range(L):
                if h.reading(name,index=i)!=lst[i] or h.reading(name,index=i-L)!=lst[i]: msgs.append(f"hexital.reading idx {i}: {h.reading(name,index=i)} vs {lst[i]}"); break
        else:
            if h.reading(name)!=lst[-1]: msgs.append(f"hexital.reading(tf) latest {h.reading(name)} vs {lst[-1]}")
        if h.prev_reading(name)!=lst[-2] and ind.timeframe is None: msgs.append("hexital.prev_reading")
        want_has = lst[-1] is not None
        if name==nm and ind.has_reading!=want_has: msgs.append(f"ind.has_reading {ind.has_reading} vs {want_has}")
        if h.has_reading(name)!=want_has: msgs.append(f"hexital.has_reading {h.has_reading(name)} vs latest={lst[-1]!r}")
        trail=0
        for v in reversed(lst):
            if v is None: break
            trail+=1
        if ind.reading_count(name)!=trail: msgs.append(f"reading_count {ind.reading_count(name)} vs {trail}")
        if msgs: print(name,msgs)
print("done")
