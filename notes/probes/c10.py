from fixes import *
def S(rows, step=60):
    ts=T0; l=[]
    for (o,h,lo,c,v) in rows:
        l.append(dict(open=o,high=h,low=lo,close=c,volume=v,timestamp=ts)); ts+=timedelta(seconds=step)
    return l
rows=[(100.0+0.37*((i*7)%5-2),101.5,98.5,100.0+0.37*((i*7)%5-2)+0.11*((i*3)%7-3),10) for i in range(40)]
rows+= [(100.0,100.0,100.0,100.0,0)]*200
t=I.TSI(candles=mk(S(rows)),period=6); t.calculate()
vals=[v for v in t.as_list() if v is not None]
print("TSI min/max", min(vals), max(vals), "count outside", sum(1 for v in vals if abs(v)>100.0001))
print([ (i,v) for i,v in enumerate(t.as_list()) if v is not None and abs(v)>100][:5])
# tiny movements
rng=random.Random(1)
rows=[]; p=100.0
for i in range(300):
    c=round(p+rng.choice([-0.01,0,0,0,0.01]),2); rows.append((p,max(p,c),min(p,c),c,5)); p=c
t=I.TSI(candles=mk(S(rows)),period=6); t.calculate()
vals=[v for v in t.as_list() if v is not None]
print("TSI tiny", min(vals), max(vals), sum(1 for v in vals if abs(v)>100.0001), "None-after-start", sum(1 for v in t.as_list()[20:] if v is None))
r=I.RSI(candles=mk(S(rows)),period=5)
try:
    r.calculate(); vals=[v for v in r.as_list() if v is not None]; print("RSI", min(vals), max(vals))
except Exception as e: print("RSI EXC",repr(e))
