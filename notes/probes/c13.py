from fixes import *
rng=random.Random(4); cs=gen_stream(rng,40)
def solo(mkind):
    i=mkind(); h=Hexital("s",mk(cs),[i]); h.calculate(); return h.indicator(i.name).as_list()
def pair_test(label, mkA, mkB):
    a_solo=solo(mkA); b_solo=solo(mkB)
    msgs=[]
    for order in ("AB","BA"):
        A=mkA(); B=mkB()
        h=Hexital("p",mk(cs),[A,B] if order=="AB" else [B,A]); h.calculate()
        if h.indicator(B.name).as_list()!=b_solo: msgs.append(f"{order}: B differs with A present")
        if h.indicator(A.name).as_list()!=a_solo: msgs.append(f"{order}: A differs with B present")
        for op in ("purge","recalculate","remove"):
            A=mkA(); B=mkB()
            h=Hexital("p",mk(cs),[A,B] if order=="AB" else [B,A]); h.calculate()
            before=h.indicator(B.name).as_list()
            try:
                if op=="purge": h.purge(A.name)
                elif op=="recalculate": h.recalculate(A.name)
                else: h.remove_indicator(A.name)
                after=h.indicator(B.name).as_list()
                if after!=before: msgs.append(f"{order}: {op}(A) changed B")
                h.calculate()
                if h.indicator(B.name).as_list()!=b_solo: msgs.append(f"{order}: after {op}(A)+calculate B != solo")
            except Exception as e: msgs.append(f"{order}: {op}(A) EXC {type(e).__name__} {e}")
    print(label, sorted(set(msgs)))
pair_test("EMA_2 vs EMA_20 (substring)", lambda: I.EMA(period=2), lambda: I.EMA(period=20))
pair_test("EMA_5 vs SMA_5", lambda: I.EMA(period=5), lambda: I.SMA(period=5))
pair_test("ATR_5 vs TR", lambda: I.ATR(period=5), lambda: I.TR())
pair_test("TR vs ATR_5", lambda: I.TR(), lambda: I.ATR(period=5))
pair_test("BBANDS_5(high) vs SMA_5", lambda: I.BBANDS(period=5,input_value="high"), lambda: I.SMA(period=5))
pair_test("SMA_5 vs BBANDS_5(high)", lambda: I.SMA(period=5), lambda: I.BBANDS(period=5,input_value="high"))
pair_test("BBANDS_5 vs STDEV_5(high)", lambda: I.BBANDS(period=5), lambda: I.StandardDeviation(period=5,input_value="high"))
pair_test("KC_5 vs Supertrend_5 (both TR sub)", lambda: I.KC(period=5), lambda: I.Supertrend(period=5))
pair_test("ATR_5 vs ATR_7 (both TR sub)", lambda: I.ATR(period=5), lambda: I.ATR(period=7))
pair_test("ADX_5 vs ATR_5", lambda: I.ADX(period=5), lambda: I.ATR(period=5))
pair_test("RSI_5 vs OBV", lambda: I.RSI(period=5), lambda: I.OBV())
