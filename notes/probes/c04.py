from fixes import *
import statistics
def vals(ind, name=None): return ind.as_list(name)
def cmp(name, got, want, tol):
    worst=0; first=None; pres=0
    for i,(g,w) in enumerate(zip(got,want)):
        if (g is None)!=(w is None):
            pres+=1
            if first is None: first=(i,g,w)
        elif g is not None:
            d=abs(g-w)
            if d>tol and first is None: first=(i,g,w)
            worst=max(worst,d)
    print(f"{name:12s} worst={worst:.6g} presence_mismatch={pres} first={first}")
rng=random.Random(3); cs=gen_stream(rng,80); C=[c["close"] for c in cs]; V=[c["volume"] for c in cs]
H=[c["high"] for c in cs]; L=[c["low"] for c in cs]
p=5
def sma(x,p): return [None if i<p-1 or any(v is None for v in x[i-p+1:i+1]) else sum(x[i-p+1:i+1])/p for i in range(len(x))]
def wma(x,p):
    w=p*(p+1)/2
    return [None if i<p-1 or any(v is None for v in x[i-p+1:i+1]) else sum(x[i-k]*(p-k) for k in range(p))/w for i in range(len(x))]
def ema(x,p,a=None,seed="sma"):
    a = a if a is not None else 2/(p+1)
    out=[]; prev=None
    for i in range(len(x)):
        win=x[max(0,i-p+1):i+1]
        if prev is None:
            if i>=p-1 and all(v is not None for v in x[i-p+1:i+1]):
                if seed=="sma": prev=sum(x[i-p+1:i+1])/p
                else:
                    ws=[(1-a)**k for k in range(p)]
                    prev=sum(wk*x[i-k] for k,wk in enumerate(ws))/sum(ws)
        else:
            prev=a*x[i]+(1-a)*prev
        out.append(prev)
    return out
i=I.SMA(candles=mk(cs),period=p); i.calculate(); cmp("SMA",vals(i),sma(C,p),1e-3)
i=I.EMA(candles=mk(cs),period=p); i.calculate(); cmp("EMA",vals(i),ema(C,p),1e-3)
i=I.RMA(candles=mk(cs),period=p); i.calculate(); cmp("RMA",vals(i),ema(C,p,1/p,"decay"),1e-3)
i=I.WMA(candles=mk(cs),period=p); i.calculate(); cmp("WMA",vals(i),wma(C,p),1e-3)
i=I.VWMA(candles=mk(cs),period=p); i.calculate()
cmp("VWMA",vals(i),[None if k<p-1 else sum(C[j]*V[j] for j in range(k-p+1,k+1))/sum(V[k-p+1:k+1]) for k in range(len(C))],1e-3)
i=I.HMA(candles=mk(cs),period=9); i.calculate()
w9=wma(C,9); w4=wma(C,4); raw=[None if a is None or b is None else 2*b-a for a,b in zip(w9,w4)]
cmp("HMA",vals(i),wma(raw,3),1e-3)
# late-start inputs: feed EMA of SMA, RMA of SMA, SMA of EMA etc via Hexital
from hexital import Hexital
for cls,nm,ref in [(I.SMA,"SMA",lambda x:sma(x,p)),(I.EMA,"EMA",lambda x:ema(x,p)),(I.RMA,"RMA",lambda x:ema(x,p,1/p,"decay")),(I.WMA,"WMA",lambda x:wma(x,p)),(I.HMA,"HMA",None)]:
    base=I.SMA(candles=mk(cs),period=7,fullname_override="BASE"); base.calculate()
    x=[None if v is None else v for v in base.as_list()]
    ind=cls(candles=base.candles,period=p if nm!="HMA" else 9,input_value="BASE",fullname_override="X")
    try:
        ind.calculate()
    except Exception as e:
        print(nm,"late EXC",repr(e)); continue
    if nm=="HMA":
        w9=wma(x,9); w4=wma(x,4); raw=[None if a is None or b is None else 2*b-a for a,b in zip(w9,w4)]; want=wma(raw,3)
    else: want=ref(x)
    cmp(nm+"(late)",ind.as_list(),want,1e-3)
