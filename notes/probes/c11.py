from fixes import *
from hexital.core.candle_manager import CandleManager
import os
if os.environ.get("FIXHA"): fix_ha()
def ha_ref(rows):
    out=[]
    for i,(ts,o,h,l,c,v) in enumerate(rows):
        hc=(o+h+l+c)/4
        ho=(o+c)/2 if i==0 else (out[-1][1]+out[-1][4])/2
        out.append((ts,ho,max(ho,h,hc),min(ho,l,hc),hc,v))
    return out
bad=[]
for seed in range(10):
    rng=random.Random(seed); n=40; cs=gen_stream(rng,n,jitter=True,gaps=True)
    for tf in (None,"T5"):
        raw=CandleManager(mk(cs),timeframe=tf); rows=[(c.timestamp,c.open,c.high,c.low,c.close,c.volume) for c in raw.candles]
        want=ha_ref(rows)
        for first in (0,1,2,9,n):
            m=I.EMA(period=3,candles=mk(cs[:first]),timeframe=tf,candlestick_type="HA"); m.calculate(); prev=first
            for cut in chunks(rng,n):
                if cut<=prev: continue
                m.append(mk(cs[prev:cut])); prev=cut
            got=[(c.timestamp,c.open,c.high,c.low,c.close,c.volume) for c in m.candles]
            if got!=want: bad.append((seed,tf,first,"values", next(i for i,(a,b) in enumerate(zip(got,want)) if a!=b)))
            clean=[(c.clean_values.get("open"),c.clean_values.get("high"),c.clean_values.get("low"),c.clean_values.get("close"),c.clean_values.get("volume")) for c in m.candles]
            if clean!=[r[1:] for r in rows]: bad.append((seed,tf,first,"clean"))
            if not all(c.tag=="Heikin-Ashi" for c in m.candles): bad.append((seed,tf,first,"tag"))
print(len(bad),bad[:10])
