from fixes import *
bad=[]
lookback={"ADX":11,"AROON":6,"ATR":6,"BBANDS":6,"Counter":1,"Donchian":5,"EMA":5,"HL":6,"HLA":1,"HMA":12,"KC":6,"MACD":6,"OBV":2,"RMA":5,"ROC":6,"RSI":6,"SMA":6,"STDEV":6,"STDEVTHRES":6,"STOCH":9,"Supertrend":6,"TR":2,"TSI":9,"VWAP":1,"VWMA":5,"WMA":5,"doji":11,"hammer":11,"rising":4,"highest":4,"highestbar":4}
for seed in range(6):
    rng=random.Random(seed); n=70; cs=gen_stream(rng,n)
    for name in ALL:
        if name in("ADX","highestbar"): continue
        for life_c in (12, 20, 40):
            life=timedelta(minutes=life_c)
            for sched in ("single","chunks"):
                try:
                    t=ALL[name](candles=[],candles_lifespan=life); u=ALL[name](candles=[])
                    prev=0
                    cuts=list(range(1,n+1)) if sched=="single" else chunks(rng,n)
                    cuts=[c for c in cuts]
                    for cut in cuts:
                        t.append(mk(cs[prev:cut])); u.append(mk(cs[prev:cut])); prev=cut
                        # retained window check
                        newest=t.candles[-1].timestamp
                        want=[c["timestamp"] for c in cs[:cut] if c["timestamp"]>=newest-life]
                        if [c.timestamp for c in t.candles]!=want: bad.append((seed,name,life_c,sched,cut,"window")); break
                    k=len(t.candles)
                    if t.as_list()!=u.as_list()[-k:]: 
                        d=[i for i,(a,b) in enumerate(zip(t.as_list(),u.as_list()[-k:])) if a!=b]
                        bad.append((seed,name,life_c,sched,"readings",d[:3],k))
                except Exception as e: bad.append((seed,name,life_c,sched,"EXC",repr(e)[:80]))
import collections
c=collections.Counter((b[1],b[2],b[3],b[4] if isinstance(b[4],str) else "window") for b in bad)
for k,v in sorted(c.items()): print(k,v)
