from fixes import *
import sys
def count_work(fn):
    cnt=[0]
    def tr(frame,event,arg):
        if "hexital" in frame.f_code.co_filename:
            def loc(frame,event,arg):
                if event=="line": cnt[0]+=1
                return loc
            return loc
        return None
    sys.settrace(tr)
    try: fn()
    finally: sys.settrace(None)
    return cnt[0]
rng=random.Random(1); cs=gen_stream(rng,1300)
for cfg,kw in [("base",{}),("T5",dict(timeframe="T5")),("life",dict(candles_lifespan=timedelta(minutes=50)))]:
  print("==",cfg)
  for name in ALL:
    res=[]
    for n in (100,400,1200):
        ind=ALL[name](candles=mk(cs[:n]),**kw); ind.calculate()
        ind.append(mk(cs[n:n+1]))
        w=count_work(lambda: ind.append(mk(cs[n+1:n+2])))
        res.append(w)
    flag = "" if res[2] <= res[0]*1.2+20 else "  <<< grows"
    print(f"  {name:11s} {res}{flag}")
