from fixes import *
import traceback
rng=random.Random(4); cs=gen_stream(rng,30)
def state(ind):
    return (sorted(k for k in vars(ind)), snap(ind.candles), ind._active_index)
for name in ["EMA","MACD","ATR"]:
    ind=ALL[name](candles=mk(cs)); ind.calculate()
    for acc in ["repr","name","settings","has_reading","reading","prev_reading","as_list","reading_count","reading_period","candles_sum"]:
        s0=state(ind)
        try:
            if acc=="str": str(ind)
            elif acc=="repr": repr(ind)
            elif acc in ("name","settings","has_reading"): getattr(ind,acc)
            elif acc=="reading_period": ind.reading_period(3)
            elif acc=="candles_sum": ind.candles_sum(3)
            else: getattr(ind,acc)()
        except Exception as e: print(name,acc,"EXC",repr(e))
        try:
            s1=state(ind)
            if s1!=s0: print(name,acc,"CHANGED STATE", set(s0[0])^set(s1[0]))
        except Exception as e: print(name,acc,"state EXC",repr(e))
    try:
        ind.append(mk(gen_stream(random.Random(9),1,start=T0+timedelta(hours=3))));
        str(ind); print(name,"after str(): has candles attr:", hasattr(ind,"candles"), "name key added:", "name" in vars(ind))
    except Exception as e: print(name,"append after accessors EXC",repr(e))
# input encodings
ts=T0
d=dict(open=1.0,high=3.0,low=0.5,close=2.0,volume=10,timestamp=ts)
forms={"candle":lambda:Candle(**d),"dict":lambda:dict(d),"list_ts_first":lambda:[ts,1.0,3.0,0.5,2.0,10],"list_ts_last":lambda:[1.0,3.0,0.5,2.0,10,ts],
 "list_of_dict":lambda:[dict(d)],"list_of_list":lambda:[[ts,1.0,3.0,0.5,2.0,10]],"list_of_candle":lambda:[Candle(**d)]}
for fn,mkf in forms.items():
    h=Hexital("x",[],[I.EMA(period=2),I.EMA(period=2,timeframe="T5"),I.SMA(period=2,timeframe="T10")])
    arg=mkf(); keep=copy.deepcopy(arg)
    try:
        h.append(arg)
        res={k:[(c.timestamp,c.open,c.high,c.low,c.close,c.volume) for c in v] for k,v in h.get_candles().items()}
        mut = "" if (arg==keep) else " INPUT MUTATED"
        print(fn,res,mut)
    except Exception as e: print(fn,"EXC",repr(e), "" if arg==keep else " INPUT MUTATED")
