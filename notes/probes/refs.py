# Independent reference definitions (unrounded floats) — draft of the spec layer
import math
def sma(x,p): return [None if i<p-1 or any(v is None for v in x[i-p+1:i+1]) else sum(x[i-p+1:i+1])/p for i in range(len(x))]
def wma(x,p):
    w=p*(p+1)/2
    return [None if i<p-1 or any(v is None for v in x[i-p+1:i+1]) else sum(x[i-k]*(p-k) for k in range(p))/w for i in range(len(x))]
def ema(x,p,a=None,seed="sma"):
    a = a if a is not None else 2/(p+1)
    out=[]; prev=None
    for i in range(len(x)):
        if prev is None:
            if i>=p-1 and all(v is not None for v in x[i-p+1:i+1]):
                if seed=="sma": prev=sum(x[i-p+1:i+1])/p
                else:
                    ws=[(1-a)**k for k in range(p)]
                    prev=sum(wk*x[i-k] for k,wk in enumerate(ws))/sum(ws)
        else:
            prev=a*x[i]+(1-a)*prev
        out.append(prev)
    return out
def rma(x,p): return ema(x,p,1/p,"decay")
def tr(H,L,C): return [None]+[max(H[i]-L[i],abs(H[i]-C[i-1]),abs(L[i]-C[i-1])) for i in range(1,len(C))]
def wilder_mean_seed(x,p):
    out=[];prev=None
    for i in range(len(x)):
        if prev is None:
            if i>=p-1 and all(v is not None for v in x[i-p+1:i+1]): prev=sum(x[i-p+1:i+1])/p
        else: prev=(prev*(p-1)+x[i])/p
        out.append(prev)
    return out
def atr(H,L,C,p): return wilder_mean_seed(tr(H,L,C),p)
def stdev(x,p):
    out=[]
    for i in range(len(x)):
        if i<p or any(v is None for v in x[i-p+1:i+1]): out.append(None); continue   # impl warm-up: index>=p
        w=x[i-p+1:i+1]; m=sum(w)/p; out.append(math.sqrt(max(0.0,sum((v-m)**2 for v in w)/p)))
    return out
def rsi(x,p):
    out=[None]*len(x); g=l=None
    for i in range(len(x)):
        if g is None:
            if i>=p:
                ch=[x[j]-x[j-1] for j in range(i-p+1,i+1)]
                g=sum(c for c in ch if c>0)/p; l=sum(-c for c in ch if c<0)/p
        else:
            c=x[i]-x[i-1]
            g=(g*(p-1)+max(c,0))/p; l=(l*(p-1)+max(-c,0))/p
        if g is not None:
            out[i]=100.0 if l==0 else 100-100/(1+g/l)
    return out
def roc(x,p): return [None if i<p else (x[i]-x[i-p])/x[i-p]*100 for i in range(len(x))]
def obv(C,V):
    out=[V[0]]
    for i in range(1,len(C)):
        out.append(out[-1]+V[i] if C[i]>C[i-1] else out[-1]-V[i] if C[i]<C[i-1] else out[-1])
    return out
def vwap(H,L,C,V):
    pv=vol=0; out=[]
    for h,l,c,v in zip(H,L,C,V):
        pv+=v*(h+l+c)/3; vol+=v; out.append(pv/vol if vol else None)
    return out
def macd(x,f,s,sig):
    ef=ema(x,f); es=ema(x,s); m=[None if a is None or b is None else a-b for a,b in zip(ef,es)]
    sg=ema(m,sig); return m,sg,[None if a is None or b is None else a-b for a,b in zip(m,sg)]
def stoch(H,L,C,p,k,d):
    st=[None if i<p-1 else ((C[i]-min(L[i-p+1:i+1]))/(max(H[i-p+1:i+1])-min(L[i-p+1:i+1]))*100 if max(H[i-p+1:i+1])!=min(L[i-p+1:i+1]) else None) for i in range(len(C))]
    K=sma(st,k); D=sma(K,d); return st,K,D
def tsi(x,p,sp):
    m=[None]+[x[i]-x[i-1] for i in range(1,len(x))]; am=[None if v is None else abs(v) for v in m]
    a=ema(ema(m,p),sp); b=ema(ema(am,p),sp)
    return [None if u is None or v is None else (100*u/v if v else None) for u,v in zip(a,b)]
def aroon(H,L,p):
    up=[];dn=[]
    for i in range(len(H)):
        if i<p: up.append(None);dn.append(None);continue
        wh=H[i-p:i+1]; wl=L[i-p:i+1]
        bh=min(k for k in range(p+1) if wh[p-k]==max(wh)); bl=min(k for k in range(p+1) if wl[p-k]==min(wl))
        up.append(100*(p-bh)/p); dn.append(100*(p-bl)/p)
    return up,dn
def adx(H,L,C,p,ps):
    n=len(C); pos=[None]; neg=[None]
    for i in range(1,n):
        u=H[i]-H[i-1]; d=L[i-1]-L[i]
        pos.append(u if u>d and u>0 else 0.0); neg.append(d if d>u and d>0 else 0.0)
    a=atr(H,L,C,p); sp=rma(pos,p); sn=rma(neg,p)
    dip=[None if x is None or y is None else 100*y/x for x,y in zip(a,sp)]
    din=[None if x is None or y is None else 100*y/x for x,y in zip(a,sn)]
    dx=[None if x is None or y is None or x+y==0 else 100*abs(x-y)/(x+y) for x,y in zip(dip,din)]
    return rma(dx,ps),dip,din
def supertrend(H,L,C,p,mult):
    a=atr(H,L,C,p); out=[]; pu=pl=None; pdir=1
    for i in range(len(C)):
        if a[i] is None: out.append((None,1,None,None)); continue
        hl=(H[i]+L[i])/2; up=hl+mult*a[i]; lo=hl-mult*a[i]; d=1
        if pl is not None:
            if C[i]>pu: d=1
            elif C[i]<pl: d=-1
            else:
                d=pdir
                if d==1 and lo<pl: lo=pl
                if d==-1 and up>pu: up=pu
        pu,pl,pdir=up,lo,d
        out.append((lo if d==1 else up,d,lo if d==1 else None,up if d==-1 else None))
    return out
