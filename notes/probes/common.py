import os, sys, random, copy, math, itertools
from datetime import datetime, timedelta
sys.path.insert(0, os.environ.get("HEXREPO", "/repo"))
import hexital
from hexital import Candle, Hexital
from hexital import indicators as I
from hexital.indicators import INDICATOR_MAP
from hexital.analysis import MOVEMENT_MAP, PATTERN_MAP, movement, patterns

T0 = datetime(2023, 6, 1, 9, 0, 0)


def gen_stream(rng, n, step=60, jitter=False, gaps=False, start=T0, flat=0.0, intprice=False):
    out = []
    ts = start
    price = 100.0 + rng.random() * 50
    for k in range(n):
        if rng.random() < flat:
            o = h = l = c = round(price, 2)
            v = 0 if rng.random() < 0.5 else rng.randint(1, 500)
        else:
            o = round(price + rng.uniform(-1, 1), 2)
            c = round(o + rng.uniform(-2, 2), 2)
            h = round(max(o, c) + rng.uniform(0, 1.5), 2)
            l = round(min(o, c) - rng.uniform(0, 1.5), 2)
            v = rng.randint(0, 1000)
            price = c
        out.append(dict(open=o, high=h, low=l, close=c, volume=v, timestamp=ts))
        d = step
        if jitter:
            d = rng.choice([0, 1, step // 2, step, step, step, step * 2])
        if gaps and rng.random() < 0.15:
            d += step * rng.randint(2, 12)
        ts = ts + timedelta(seconds=d)
    return out


def mk(cs):
    return [Candle(**copy.deepcopy(c)) for c in cs]


def snap(cands):
    return [
        (c.timestamp, c.open, c.high, c.low, c.close, c.volume,
         copy.deepcopy(c.indicators), copy.deepcopy(c.sub_indicators))
        for c in cands
    ]


def chunks(rng, n, first=None):
    cuts = []
    i = 0 if first is None else first
    if first:
        cuts.append(first)
    while i < n:
        k = rng.choice([1, 1, 1, 2, 3, 5, 8])
        i = min(n, i + k)
        cuts.append(i)
    return cuts


ALL = {
    "ADX": lambda **k: I.ADX(period=5, **k),
    "AROON": lambda **k: I.AROON(period=5, **k),
    "ATR": lambda **k: I.ATR(period=5, **k),
    "BBANDS": lambda **k: I.BBANDS(period=5, **k),
    "Counter": lambda **k: I.Counter(input_value="volume", count_value=0, **k),
    "Donchian": lambda **k: I.Donchian(period=5, **k),
    "EMA": lambda **k: I.EMA(period=5, **k),
    "HL": lambda **k: I.HighestLowest(period=5, **k),
    "HLA": lambda **k: I.HighLowAverage(**k),
    "HMA": lambda **k: I.HMA(period=9, **k),
    "KC": lambda **k: I.KC(period=5, **k),
    "MACD": lambda **k: I.MACD(fast_period=3, slow_period=6, signal_period=4, **k),
    "OBV": lambda **k: I.OBV(**k),
    "RMA": lambda **k: I.RMA(period=5, **k),
    "ROC": lambda **k: I.ROC(period=5, **k),
    "RSI": lambda **k: I.RSI(period=5, **k),
    "SMA": lambda **k: I.SMA(period=5, **k),
    "STDEV": lambda **k: I.StandardDeviation(period=5, **k),
    "STDEVTHRES": lambda **k: I.StandardDeviationThreshold(period=5, **k),
    "STOCH": lambda **k: I.STOCH(period=5, **k),
    "Supertrend": lambda **k: I.Supertrend(period=5, **k),
    "TR": lambda **k: I.TR(**k),
    "TSI": lambda **k: I.TSI(period=6, **k),
    "VWAP": lambda **k: I.VWAP(**k),
    "VWMA": lambda **k: I.VWMA(period=5, **k),
    "WMA": lambda **k: I.WMA(period=5, **k),
    "doji": lambda **k: I.Amorph(analysis=patterns.doji, **k),
    "hammer": lambda **k: I.Amorph(analysis=patterns.hammer, **k),
    "rising": lambda **k: I.Amorph(analysis=movement.rising, indicator="close", length=3, **k),
    "highest": lambda **k: I.Amorph(analysis=movement.highest, indicator="high", length=3, **k),
    "highestbar": lambda **k: I.Amorph(analysis=movement.highestbar, indicator="high", length=4, **k),
}
