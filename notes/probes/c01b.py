from fixes import *
fix_ha()
import c01
