(* CPython 3.12 numeric semantics over Coq's primitive binary64 floats:
   round(x, n), builtin sum() (Neumaier compensated), int/float tower. *)
From Coq Require Import ZArith List PrimFloat Uint63 FloatOps SpecFloat Bool.
Import ListNotations.
Local Open Scope Z_scope.

(* exact value of a finite float as (sign, m, e) meaning (-1)^s * m * 2^e *)
Definition f2me (x : float) : option (bool * Z * Z) :=
  match Prim2SF x with
  | S754_zero s => Some (s, 0, 0)
  | S754_finite s m e => Some (s, Zpos m, e)
  | _ => None
  end.

(* exact for |n| < 2^53; the harness keeps integer inputs below that *)
Definition of_Z_small (n : Z) : float :=
  if n <? 0 then PrimFloat.opp (PrimFloat.of_uint63 (Uint63.of_Z (- n)))
  else PrimFloat.of_uint63 (Uint63.of_Z n).

(* round-half-even of the rational p/q, q > 0 *)
Definition rne_div (p q : Z) : Z :=
  let d := p / q in let r := p mod q in
  match Z.compare (2 * r) q with
  | Lt => d | Gt => d + 1 | Eq => if Z.even d then d else d + 1 end.

(* float.__round__(x, nd) for nd >= 0: the correctly rounded decimal string of x with
   nd digits, read back as a float = rne(x * 10^nd) / 10^nd with one correctly rounded
   division (numerator below 2^53 in the harness' value range). *)
Definition py_round (x : float) (nd : Z) : float :=
  match f2me x with
  | None => x
  | Some (s, m, e) =>
      if m =? 0 then x else
      let p10 := 10 ^ nd in
      let n := if 0 <=? e then m * 2 ^ e * p10 else rne_div (m * p10) (2 ^ (- e)) in
      let r := PrimFloat.div (of_Z_small n) (of_Z_small p10) in
      if s then PrimFloat.opp r else r
  end.

(* builtin sum() over floats in CPython 3.12: Neumaier compensated summation *)
Fixpoint neum (l : list float) (f c : float) : float :=
  match l with
  | [] => if PrimFloat.eqb c 0%float then f else PrimFloat.add f c
  | x :: l' =>
      let t := PrimFloat.add f x in
      let c' := if PrimFloat.leb (PrimFloat.abs x) (PrimFloat.abs f)
                then PrimFloat.add c (PrimFloat.add (PrimFloat.sub f t) x)
                else PrimFloat.add c (PrimFloat.add (PrimFloat.sub x t) f) in
      neum l' t c'
  end.

(* bit equality (distinguishes -0.0 from 0.0, all NaNs identified) *)
Definition feqb (a b : float) : bool :=
  match Prim2SF a, Prim2SF b with
  | S754_zero s, S754_zero t => Bool.eqb s t
  | S754_finite s m e, S754_finite t n f => Bool.eqb s t && Pos.eqb m n && Z.eqb e f
  | S754_infinity s, S754_infinity t => Bool.eqb s t
  | S754_nan, S754_nan => true
  | _, _ => false
  end.

Definition ffinite (a : float) : bool :=
  match Prim2SF a with S754_zero _ | S754_finite _ _ _ => true | _ => false end.

(* ---- the int/float tower ---- *)
Inductive pynum := PI (n : Z) | PF (x : float).

Definition to_f (a : pynum) : float := match a with PI n => of_Z_small n | PF x => x end.

Definition py_add (a b : pynum) : pynum :=
  match a, b with PI x, PI y => PI (x + y) | _, _ => PF (PrimFloat.add (to_f a) (to_f b)) end.
Definition py_sub (a b : pynum) : pynum :=
  match a, b with PI x, PI y => PI (x - y) | _, _ => PF (PrimFloat.sub (to_f a) (to_f b)) end.
Definition py_mul (a b : pynum) : pynum :=
  match a, b with PI x, PI y => PI (x * y) | _, _ => PF (PrimFloat.mul (to_f a) (to_f b)) end.
Definition py_is_zero (a : pynum) : bool :=
  match a with PI n => n =? 0 | PF x => PrimFloat.eqb x 0%float end.
(* int / int is the correctly rounded quotient; exact operands below 2^53 make
   float(a)/float(b) equal to it *)
Definition py_div (a b : pynum) : option pynum :=
  if py_is_zero b then None else Some (PF (PrimFloat.div (to_f a) (to_f b))).
Definition py_ltb (a b : pynum) : bool :=
  match a, b with PI x, PI y => x <? y | _, _ => PrimFloat.ltb (to_f a) (to_f b) end.
Definition py_leb (a b : pynum) : bool :=
  match a, b with PI x, PI y => x <=? y | _, _ => PrimFloat.leb (to_f a) (to_f b) end.
Definition py_eqb (a b : pynum) : bool :=
  match a, b with PI x, PI y => x =? y | _, _ => PrimFloat.eqb (to_f a) (to_f b) end.
Definition py_abs (a : pynum) : pynum :=
  match a with PI n => PI (Z.abs n) | PF x => PF (PrimFloat.abs x) end.
Definition py_roundv (nd : Z) (a : pynum) : pynum :=
  match a with PI n => PI n | PF x => PF (py_round x nd) end.
Definition py_sqrt (a : pynum) : option pynum :=
  let x := to_f a in
  if PrimFloat.ltb x 0%float then None else Some (PF (PrimFloat.sqrt x)).
Definition py_float (a : pynum) : pynum := PF (to_f a).
Definition py_finite (a : pynum) : bool := match a with PI _ => true | PF x => ffinite x end.

(* sum(): starts from int 0; ints are added exactly until the first float, then the
   float path (Neumaier) takes over with the running value converted to a double.
   In the float loop ints are added into the running double without compensation. *)
Fixpoint sum_float (l : list pynum) (f c : float) : float :=
  match l with
  | [] => if PrimFloat.eqb c 0%float || negb (ffinite c) then f else PrimFloat.add f c
  | PF x :: l' =>
      let t := PrimFloat.add f x in
      let c' := if PrimFloat.leb (PrimFloat.abs x) (PrimFloat.abs f)
                then PrimFloat.add c (PrimFloat.add (PrimFloat.sub f t) x)
                else PrimFloat.add c (PrimFloat.add (PrimFloat.sub x t) f) in
      sum_float l' t c'
  | PI n :: l' => sum_float l' (PrimFloat.add f (of_Z_small n)) c
  end.
Fixpoint sum_int (l : list pynum) (acc : Z) : pynum :=
  match l with
  | [] => PI acc
  | PI n :: l' => sum_int l' (acc + n)
  | PF x :: l' => PF (sum_float l' (PrimFloat.add (of_Z_small acc) x) 0%float)   (* int + float: plain add *)
  end.
Definition py_sum (l : list pynum) : pynum := sum_int l 0.

Definition pynum_eqb (a b : pynum) : bool :=
  match a, b with
  | PI x, PI y => x =? y
  | PF x, PF y => feqb x y
  | _, _ => false
  end.
