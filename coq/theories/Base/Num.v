(* The numeric interface the model is parametrised by.  One set of model definitions is
   instantiated with CPython's int/float tower over binary64 (Inst/FloatInst.v, runs under
   vm_compute, compared bit-for-bit with the implementation) and with the reals
   (Inst/RealInst.v, where the arithmetic theorems are proved). *)
From Coq Require Import ZArith List Bool.
Import ListNotations.

Record NumOps := {
  num : Type;
  nadd : num -> num -> num;
  nsub : num -> num -> num;
  nmul : num -> num -> num;
  ndiv : num -> num -> option num;        (* true division; None = ZeroDivisionError *)
  nltb : num -> num -> bool;
  nleb : num -> num -> bool;
  neqb : num -> num -> bool;
  nofZ : Z -> num;                        (* a Python int literal *)
  ndec : Z -> Z -> num;                   (* a Python float literal m * 10^-k, e.g. 0.1 = ndec 1 1, 100.0 = ndec 100 0 *)
  nround : Z -> num -> num;               (* utils.indexing.round_values on one number: floats only *)
  nsum : list num -> num;                 (* builtin sum() *)
  nsqrt : num -> option num;              (* math.sqrt; None = ValueError *)
  nabs : num -> num;
  nfloat : num -> num;                    (* float(x) *)
  npow : num -> Z -> num;                 (* x ** k, k a small non-negative int *)
  nfinite : num -> bool                   (* math.isfinite *)
}.

Section Derived.
Context (O : NumOps).
Notation num := (num O).
(* Python max(a, b): the first maximal element is kept *)
Definition nmax (a b : num) : num := if nltb O a b then b else a.
Definition nmin (a b : num) : num := if nltb O b a then b else a.
Definition nmax3 (a b c : num) : num := nmax (nmax a b) c.
Definition nmin3 (a b c : num) : num := nmin (nmin a b) c.
Definition ngtb (a b : num) : bool := nltb O b a.
Definition ngeb (a b : num) : bool := nleb O b a.
Definition ntruthy (a : num) : bool := negb (neqb O a (nofZ O 0)).
(* max(iterable) / min(iterable) over a non-empty list *)
Definition nmax_list (x : num) (l : list num) : num := fold_left nmax l x.
Definition nmin_list (x : num) (l : list num) : num := fold_left nmin l x.
End Derived.
