(* Prelude: result monad with Python exception kinds, association lists (insertion-ordered
   dicts), Python list indexing and slicing.  No proofs about the model live here. *)
From Coq Require Import ZArith List String Bool Lia.
Import ListNotations.
Local Open Scope Z_scope.

Inductive exn :=
| ZeroDivisionError | TypeError | ValueError | IndexError | KeyError | AttributeError
| InvalidCandleOrder | CandleAlreadyTagged | Diverges | OutOfFuel | OutOfModel.

Definition exn_code (e : exn) : Z :=
  match e with
  | ZeroDivisionError => 1 | TypeError => 2 | ValueError => 3 | IndexError => 4 | KeyError => 5
  | AttributeError => 6 | InvalidCandleOrder => 7 | CandleAlreadyTagged => 8 | Diverges => 9
  | OutOfFuel => 10 | OutOfModel => 11
  end.

Inductive res (A : Type) := Ok (a : A) | Err (e : exn).
Arguments Ok {A} a.
Arguments Err {A} e.

Definition bind {A B} (m : res A) (f : A -> res B) : res B :=
  match m with Ok a => f a | Err e => Err e end.
Notation "x <- m ;; k" := (bind m (fun x => k))
  (at level 61, m at next level, right associativity).
Notation "' pat <- m ;; k" := (bind m (fun x => match x with pat => k end))
  (at level 61, pat pattern, m at next level, right associativity).

Definition of_opt {A} (e : exn) (o : option A) : res A :=
  match o with Some a => Ok a | None => Err e end.

Fixpoint mapM {A B} (f : A -> res B) (l : list A) : res (list B) :=
  match l with
  | [] => Ok []
  | x :: l' => y <- f x ;; ys <- mapM f l' ;; Ok (y :: ys)
  end.

Fixpoint foldM {A S} (f : S -> A -> res S) (l : list A) (s : S) : res S :=
  match l with
  | [] => Ok s
  | x :: l' => s' <- f s x ;; foldM f l' s'
  end.

(* ---- association lists: Python dicts with insertion order ---- *)
Fixpoint alist_get {A} (k : string) (l : list (string * A)) : option A :=
  match l with
  | [] => None
  | (k', v) :: l' => if String.eqb k k' then Some v else alist_get k l'
  end.
Fixpoint alist_set {A} (k : string) (v : A) (l : list (string * A)) : list (string * A) :=
  match l with
  | [] => [(k, v)]
  | (k', v') :: l' => if String.eqb k k' then (k, v) :: l' else (k', v') :: alist_set k v l'
  end.
Fixpoint alist_del {A} (k : string) (l : list (string * A)) : list (string * A) :=
  match l with
  | [] => []
  | (k', v') :: l' => if String.eqb k k' then alist_del k l' else (k', v') :: alist_del k l'
  end.
Definition alist_mem {A} (k : string) (l : list (string * A)) : bool :=
  match alist_get k l with Some _ => true | None => false end.

(* ---- Python list indexing: negative wraps, out of range raises IndexError ---- *)
Definition zlen {A} (l : list A) : Z := Z.of_nat (List.length l).

Definition pyidx {A} (l : list A) (i : Z) : option A :=
  let n := zlen l in
  if (0 <=? i) && (i <? n) then nth_error l (Z.to_nat i)
  else if (i <? 0) && (- n <=? i) then nth_error l (Z.to_nat (n + i))
  else None.

(* clamp a slice bound as CPython's PySlice_AdjustIndices does (step 1) *)
Definition slice_bound (n i : Z) : Z :=
  if i <? 0 then Z.max 0 (n + i) else Z.min i n.

(* l[a:b] *)
Definition pyslice {A} (l : list A) (a b : Z) : list A :=
  let n := zlen l in
  let a' := slice_bound n a in
  let b' := slice_bound n b in
  if b' <=? a' then [] else firstn (Z.to_nat (b' - a')) (skipn (Z.to_nat a') l).

(* range(a, b) and range(a, b, -1) *)
Definition zrange (a b : Z) : list Z :=
  map (fun k => a + Z.of_nat k) (seq 0 (Z.to_nat (b - a))).
Definition zrange_down (a b : Z) : list Z :=   (* a, a-1, ..., b+1 *)
  map (fun k => a - Z.of_nat k) (seq 0 (Z.to_nat (a - b))).

(* hexital.utils.indexing *)
Definition valid_index (i n : Z) : bool := (i <? n) && (- n <=? i).
Definition absindex (i n : Z) : option Z :=
  if negb (valid_index i n) then None else if i <? 0 then Some (n + i) else Some i.

Definition list_set {A} (l : list A) (i : nat) (x : A) : list A :=
  match nth_error l i with
  | Some _ => firstn i l ++ x :: skipn (S i) l
  | None => l
  end.
