(* The recurrence ("step") form of a first set of indicators: what each stores from one
   candle to the next and how the next reading is obtained from that state and the newest
   input - with the rounding of every stored stage exactly where the code has it.  These
   are a second, index-free model of the same code (no candle list, no look-back by index):
   the arithmetic theorems (C04-C06, C09, C10) and the bounded-state statement (C07) are
   about them, and they are tied to the implementation by their own bit-exact
   correspondence (Run/Check.v: check_spec). *)
From Coq Require Import ZArith List String Bool.
From Hexital Require Import Base.Prelude Base.Num Model.Candle.
Import ListNotations.
Local Open Scope Z_scope.

Section Steppers.
Context (NO : NumOps).
Notation num := (num NO).
Notation val := (val NO).

(* one candle as the indicator sees it: OHLCV and the reading chosen as input_value *)
Record inp := { x_o : num; x_h : num; x_l : num; x_c : num; x_v : num; x_in : option num }.

Definition zn (z : Z) : num := nofZ NO z.
Definition fl (m k : Z) : num := ndec NO m k.
Definition divn (a b : num) : res num := of_opt ZeroDivisionError (ndiv NO a b).
Definition rnd (nd : Z) (x : num) : num := nround NO nd x.
Definition out (nd : Z) (x : num) : val := VNum (rnd nd x).

(* the last [w] inputs, newest first *)
Definition push (w : Z) (x : num) (buf : list num) : list num := firstn (Z.to_nat w) (x :: buf).
Definition full (w : Z) (buf : list num) : bool := Z.of_nat (List.length buf) =? w.

Inductive kind_s :=
| S_SMA (period : Z) | S_EMA (period : Z) (smoothing : num) | S_RMA (period : Z) | S_WMA (period : Z)
| S_TR | S_ATR (period : Z) | S_HLA
| S_RSI (period : Z) | S_ROC (period : Z) | S_OBV | S_VWAP.

(* the state every stepper keeps: previous stored reading, a bounded buffer of inputs,
   and up to four unrounded accumulators (managed data / previous close) *)
Record state := {
  s_prev : option num;          (* previous stored (rounded) reading *)
  s_buf : list num;             (* bounded window of inputs, newest first *)
  s_a : option num;             (* accumulator 1: prev close / avg gain / pv / previous helper reading *)
  s_b : option num;             (* accumulator 2: avg loss / vol *)
  s_started : bool              (* the input series has begun *)
}.
Definition init : state := {| s_prev := None; s_buf := []; s_a := None; s_b := None; s_started := false |}.

Definition indices (n : nat) : list Z := map Z.of_nat (seq 0 n).

(* SMA: seed = mean of the first full window, then r - (x[t-p] - x[t]) / p *)
Definition sma_step (p nd : Z) (s : state) (x : num) : res (val * state) :=
  let buf' := push p x (s_buf s) in
  match s_prev s with
  | Some pr =>
    old <- of_opt TypeError (nth_error (s_buf s) (Z.to_nat (p - 1))) ;;
    q <- divn (nsub NO old x) (zn p) ;;
    let r := rnd nd (nsub NO pr q) in
    Ok (VNum r, {| s_prev := Some r; s_buf := buf'; s_a := s_a s; s_b := s_b s; s_started := true |})
  | None =>
    if full p buf' then
      q <- divn (nsum NO (rev buf')) (zn p) ;;
      let r := rnd nd q in
      Ok (VNum r, {| s_prev := Some r; s_buf := buf'; s_a := s_a s; s_b := s_b s; s_started := true |})
    else Ok (VNone, {| s_prev := None; s_buf := buf'; s_a := s_a s; s_b := s_b s; s_started := true |})
  end.

Definition ema_step (p : Z) (smoothing : num) (nd : Z) (s : state) (x : num) : res (val * state) :=
  let buf' := push p x (s_buf s) in
  match s_prev s with
  | Some pr =>
    a0 <- divn smoothing (nadd NO (zn p) (fl 10 1)) ;;
    let alpha := nfloat NO a0 in
    let r := rnd nd (nfloat NO (nadd NO (nmul NO alpha x) (nmul NO pr (nsub NO (fl 10 1) alpha)))) in
    Ok (VNum r, {| s_prev := Some r; s_buf := buf'; s_a := s_a s; s_b := s_b s; s_started := true |})
  | None =>
    if full p buf' then
      q <- divn (nsum NO (rev buf')) (zn p) ;;
      let r := rnd nd (nfloat NO q) in
      Ok (VNum r, {| s_prev := Some r; s_buf := buf'; s_a := s_a s; s_b := s_b s; s_started := true |})
    else Ok (VNone, {| s_prev := None; s_buf := buf'; s_a := s_a s; s_b := s_b s; s_started := true |})
  end.

Definition rma_step (p nd : Z) (s : state) (x : num) : res (val * state) :=
  let buf' := push p x (s_buf s) in
  a0 <- divn (fl 10 1) (zn p) ;;
  let alpha := nfloat NO a0 in
  match s_prev s with
  | Some pr =>
    let r := rnd nd (nfloat NO (nadd NO (nmul NO alpha x) (nmul NO (nsub NO (fl 10 1) alpha) pr))) in
    Ok (VNum r, {| s_prev := Some r; s_buf := buf'; s_a := s_a s; s_b := s_b s; s_started := true |})
  | None =>
    if full p buf' then
      let base := nsub NO (zn 1) alpha in
      let pys := indices (List.length buf') in
      let values := nsum NO (map (fun pj => nmul NO (npow NO base (fst pj)) (snd pj)) (combine pys buf')) in
      let divide_by := nsum NO (map (fun py => npow NO base py) pys) in
      q <- divn values divide_by ;;
      let r := rnd nd q in
      Ok (VNum r, {| s_prev := Some r; s_buf := buf'; s_a := s_a s; s_b := s_b s; s_started := true |})
    else Ok (VNone, {| s_prev := None; s_buf := buf'; s_a := s_a s; s_b := s_b s; s_started := true |})
  end.

Definition wma_step (p nd : Z) (s : state) (x : num) : res (val * state) :=
  let buf' := push p x (s_buf s) in
  if full p buf' then
    let pys := indices (List.length buf') in
    let terms := map (fun pj => nmul NO (snd pj) (zn (p - fst pj))) (combine pys buf') in
    w <- divn (zn (p * (p + 1))) (zn 2) ;;
    q <- divn (nsum NO terms) w ;;
    let r := rnd nd q in
    Ok (VNum r, {| s_prev := Some r; s_buf := buf'; s_a := s_a s; s_b := s_b s; s_started := true |})
  else Ok (VNone, {| s_prev := None; s_buf := buf'; s_a := s_a s; s_b := s_b s; s_started := true |}).

(* true range of a candle given the previous close (unrounded) *)
Definition true_range (h l pc : num) : num :=
  nmax3 NO (nsub NO h l) (nabs NO (nsub NO h pc)) (nabs NO (nsub NO l pc)).

Definition tr_step (nd : Z) (s : state) (c : inp) : res (val * state) :=
  let s' r := {| s_prev := r; s_buf := []; s_a := Some (x_c c); s_b := None; s_started := true |} in
  match s_a s with
  | Some pc => let r := rnd nd (true_range (x_h c) (x_l c) pc) in Ok (VNum r, s' (Some r))
  | None => Ok (VNone, s' None)
  end.

(* ATR over its TR helper (stored with 4 decimals): Wilder smoothing seeded by the mean *)
Definition atr_step (p nd : Z) (s : state) (c : inp) : res (val * state) :=
  let mk r buf := {| s_prev := r; s_buf := buf; s_a := Some (x_c c); s_b := None; s_started := true |} in
  match s_a s with
  | None => Ok (VNone, mk None [])
  | Some pc =>
    let tr := rnd 4 (true_range (x_h c) (x_l c) pc) in
    let buf' := push p tr (s_buf s) in
    match s_prev s with
    | Some pr =>
      q <- divn (nadd NO (nmul NO pr (zn (p - 1))) tr) (zn p) ;;
      let r := rnd nd q in Ok (VNum r, mk (Some r) buf')
    | None =>
      if full p buf' then
        q <- divn (nsum NO (rev buf')) (zn p) ;;
        let r := rnd nd q in Ok (VNum r, mk (Some r) buf')
      else Ok (VNone, mk None buf')
    end
  end.

Definition hla_step (nd : Z) (s : state) (c : inp) : res (val * state) :=
  q <- divn (nadd NO (x_h c) (x_l c)) (zn 2) ;;
  Ok (out nd q, s).

(* RSI: Wilder averages of gains and losses (kept unrounded), 100 when there are no losses *)
Definition rsi_value (nd : Z) (g l : num) : res num :=
  if neqb NO l (zn 0) then Ok (rnd nd (fl 1000 1)) else
  rs <- divn g l ;;
  q <- divn (fl 1000 1) (nadd NO (fl 10 1) rs) ;;
  Ok (rnd nd (nsub NO (fl 1000 1) q)).

Definition rsi_step (p nd : Z) (s : state) (x : num) : res (val * state) :=
  (* s_buf: the last p+1 inputs, newest first; s_a / s_b: average gain / loss *)
  let buf' := push (p + 1) x (s_buf s) in
  match s_prev s, s_a s, s_b s, s_buf s with
  | Some _, Some g0, Some l0, px :: _ =>
    let change := nsub NO px x in
    let gain := if nltb NO change (zn 0) then nmul NO (zn (-1)) change else fl 0 1 in
    let loss := if nltb NO (zn 0) change then change else fl 0 1 in
    g <- divn (nadd NO (nmul NO g0 (zn (p - 1))) gain) (zn p) ;;
    l <- divn (nadd NO (nmul NO l0 (zn (p - 1))) loss) (zn p) ;;
    r <- rsi_value nd g l ;;
    Ok (VNum r, {| s_prev := Some r; s_buf := buf'; s_a := Some g; s_b := Some l; s_started := true |})
  | _, _, _, _ =>
    if full (p + 1) buf' then
      (* changes x[j] - x[j-1], oldest first *)
      let chron := rev buf' in
      let changes := map (fun ab => nsub NO (snd ab) (fst ab)) (combine chron (tl chron)) in
      g <- divn (nsum NO (filter (fun c => nltb NO (zn 0) c) changes)) (zn p) ;;
      l <- divn (nsum NO (map (nabs NO) (filter (fun c => nltb NO c (zn 0)) changes))) (zn p) ;;
      r <- rsi_value nd g l ;;
      Ok (VNum r, {| s_prev := Some r; s_buf := buf'; s_a := Some g; s_b := Some l; s_started := true |})
    else Ok (VNone, {| s_prev := None; s_buf := buf'; s_a := None; s_b := None; s_started := true |})
  end.

Definition roc_step (p nd : Z) (s : state) (x : num) : res (val * state) :=
  let buf' := push (p + 1) x (s_buf s) in
  if full (p + 1) buf' then
    nb <- of_opt TypeError (nth_error buf' (Z.to_nat p)) ;;
    q <- divn (nsub NO x nb) nb ;;
    let r := rnd nd (nmul NO q (zn 100)) in
    Ok (VNum r, {| s_prev := Some r; s_buf := buf'; s_a := None; s_b := None; s_started := true |})
  else Ok (VNone, {| s_prev := None; s_buf := buf'; s_a := None; s_b := None; s_started := true |}).

Definition obv_step (nd : Z) (s : state) (c : inp) : res (val * state) :=
  let mk r := {| s_prev := Some r; s_buf := []; s_a := Some (x_c c); s_b := None; s_started := true |} in
  match s_prev s, s_a s with
  | Some pr, Some pc =>
    let r := if neqb NO (x_c c) pc then pr
             else if nltb NO pc (x_c c) then rnd nd (nadd NO pr (x_v c))
             else rnd nd (nsub NO pr (x_v c)) in
    Ok (VNum r, mk r)
  | _, _ => let r := rnd nd (x_v c) in Ok (VNum r, mk r)
  end.

Definition vwap_step (nd : Z) (s : state) (c : inp) : res (val * state) :=
  tp <- divn (nadd NO (nadd NO (x_h c) (x_l c)) (x_c c)) (zn 3) ;;
  let ppv := match s_a s with Some a => a | None => zn 0 end in
  let pvol := match s_b s with Some b => b | None => zn 0 end in
  let pv := nadd NO ppv (nmul NO (x_v c) tp) in
  let vol := nadd NO pvol (x_v c) in
  r <- (if neqb NO vol (zn 0) then Ok pv else divn pv vol) ;;
  let r' := rnd nd r in
  Ok (VNum r', {| s_prev := Some r'; s_buf := []; s_a := Some pv; s_b := Some vol; s_started := true |}).

(* one step of any stepper; indicators with an input_value ignore candles before the
   input series starts (position independence) and are outside their domain if the
   series stops again *)
Definition step (k : kind_s) (nd : Z) (s : state) (c : inp) : res (val * state) :=
  let on_input (f : state -> num -> res (val * state)) :=
    match x_in c with
    | Some x => f s x
    | None => if s_started s then Err TypeError else Ok (VNone, s)
    end in
  match k with
  | S_SMA p => on_input (sma_step p nd)
  | S_EMA p sm => on_input (ema_step p sm nd)
  | S_RMA p => on_input (rma_step p nd)
  | S_WMA p => on_input (wma_step p nd)
  | S_RSI p => on_input (rsi_step p nd)
  | S_ROC p => on_input (roc_step p nd)
  | S_TR => tr_step nd s c
  | S_ATR p => atr_step p nd s c
  | S_HLA => hla_step nd s c
  | S_OBV => obv_step nd s c
  | S_VWAP => vwap_step nd s c
  end.

Fixpoint series_from (k : kind_s) (nd : Z) (s : state) (cs : list inp) : res (list val) :=
  match cs with
  | [] => Ok []
  | c :: cs' => '(v, s') <- step k nd s c ;; vs <- series_from k nd s' cs' ;; Ok (v :: vs)
  end.
Definition series (k : kind_s) (nd : Z) (cs : list inp) : res (list val) := series_from k nd init cs.

(* the window each stepper keeps *)
Definition window_of (k : kind_s) : Z :=
  match k with
  | S_SMA p | S_EMA p _ | S_RMA p | S_WMA p | S_ATR p => p
  | S_RSI p | S_ROC p => p + 1
  | _ => 0
  end.

End Steppers.

Arguments S_SMA {NO}. Arguments S_EMA {NO}. Arguments S_RMA {NO}. Arguments S_WMA {NO}. Arguments S_TR {NO}.
Arguments S_ATR {NO}. Arguments S_HLA {NO}. Arguments S_RSI {NO}. Arguments S_ROC {NO}. Arguments S_OBV {NO}.
Arguments S_VWAP {NO}.
