(* Proofs about Model/Candle.v: what a bucket folded with Candle.merge contains. *)
From Coq Require Import ZArith List String Bool Lia.
From Hexital Require Import Base.Prelude Base.Num Model.Manager Model.Candle.
Import ListNotations.

Section CandleProofs.
Context (O : NumOps).
Notation payload := (payload O).
Notation merge := (merge O).

Definition last_close (x : payload) (ys : list payload) : num O :=
  c_close O (cur O (last ys x)).

Lemma merge_clean a b : clean O (merge a b) = None.
Proof. reflexivity. Qed.

Lemma fold_merge_values : forall ys x, clean O x = None ->
  let r := fold_left merge ys x in
  c_open O (cur O r) = c_open O (cur O x) /\
  c_high O (cur O r) = fold_left (nmax O) (map (fun y => c_high O (cur O y)) ys) (c_high O (cur O x)) /\
  c_low O (cur O r) = fold_left (nmin O) (map (fun y => c_low O (cur O y)) ys) (c_low O (cur O x)) /\
  c_close O (cur O r) = last_close x ys /\
  c_vol O (cur O r) = fold_left (nadd O) (map (fun y => c_vol O (cur O y)) ys) (c_vol O (cur O x)) /\
  (ys <> [] -> inds O r = [] /\ subs O r = [] /\ tagged O r = false /\ clean O r = None).
Proof.
  induction ys as [|y ys IH]; intros x Hx; cbn zeta.
  - cbn [fold_left map]. unfold last_close. cbn [last]. repeat split; congruence.
  - cbn [fold_left map].
    specialize (IH (merge x y) (merge_clean x y)). cbn zeta in IH.
    destruct IH as (I1 & I2 & I3 & I4 & I5 & I6).
    assert (R : recovered O x = cur O x) by (unfold recovered; rewrite Hx; reflexivity).
    repeat split.
    + rewrite I1. cbn. rewrite R. reflexivity.
    + rewrite I2. cbn. rewrite R. reflexivity.
    + rewrite I3. cbn. rewrite R. reflexivity.
    + rewrite I4. unfold last_close. destruct ys as [|y' ys']; [reflexivity|]. 
      f_equal. f_equal. cbn [last]. 
      assert (G : forall (l : list payload) a b d, last (a :: l) b = last (a :: l) d).
      { induction l as [|z l IHl]; intros a b d; [reflexivity|]. cbn [last] in *. apply (IHl z). }
      apply G.
    + rewrite I5. cbn. rewrite R. reflexivity.
    + destruct ys as [|y' ys']; [reflexivity|apply I6; discriminate].
    + destruct ys as [|y' ys']; [reflexivity|apply I6; discriminate].
    + destruct ys as [|y' ys']; [reflexivity|apply I6; discriminate].
    + destruct ys as [|y' ys']; [reflexivity|apply I6; discriminate].
Qed.
End CandleProofs.
