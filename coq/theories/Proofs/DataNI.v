(* Non-interference for an indicator with one managed helper series (C13): calculate() on two
   stores that the indicator cannot tell apart - related candle by candle by a relation Rd that
   its reading function respects and its two writes preserve - gives related stores, or the same
   exception.  No canonical-store hypothesis: the loop itself (resume index, skip rule, both
   in-place writes) is shown to respect the relation, so the statement applies along any history
   in which other indicators decorate the candles on one side only. *)
From Coq Require Import ZArith List String Bool Lia ZifyBool.
From Hexital Require Import Base.Prelude Base.Num Model.Manager Model.Candle Model.Readings Model.Analysis
  Model.Engine Proofs.ListProofs Proofs.EngineProofs.
From Hexital Require Import Proofs.DataSlot.
Import ListNotations.
Local Open Scope Z_scope.

Section NI.
Context (NO : NumOps).
Notation val := (val NO).
Notation payload := (payload NO).
Notation cd := (cd payload).
Notation store := (store NO).
Variables I M : ind NO.
Hypothesis HIsubs : i_subs NO I = [].
Notation nmI := (i_name NO I).
Variable G : cd -> Prop.
Variable D : store -> cd -> res (val * option val).
Hypothesis Hshape : forall f (a : store) (c : cd) (rest : store), G c ->
  calc_reading NO (run NO (S f)) I (a ++ c :: rest) (zlen a) =
  (r <- D a c ;; Ok (fst r, a ++ slot NO M c (snd r) :: rest)).

Variable Rd : cd -> cd -> Prop.
Hypothesis HRd_G : forall c c0, Rd c c0 -> G c /\ G c0.
Hypothesis HRd_own : forall c c0, Rd c c0 -> alist_get nmI (own_dict NO I (p c)) = alist_get nmI (own_dict NO I (p c0)).
Hypothesis HRd_D : forall (a a0 : store) (d d0 : cd), Forall2 Rd a a0 -> Rd d d0 -> D a d = D a0 d0.
Hypothesis HRd_deco : forall c c0 w v, Rd c c0 -> Rd (setk NO I (slot NO M c w) v) (setk NO I (slot NO M c0 w) v).

Definition Rres (r1 r2 : res store) : Prop :=
  match r1, r2 with Ok a, Ok b => Forall2 Rd a b | Err e1, Err e2 => e1 = e2 | _, _ => False end.

Lemma F2_len (l1 l2 : store) : Forall2 Rd l1 l2 -> List.length l1 = List.length l2.
Proof. induction 1; cbn; congruence. Qed.
Lemma F2_zlen (l1 l2 : store) : Forall2 Rd l1 l2 -> zlen l1 = zlen l2.
Proof. intros H. unfold zlen. rewrite (F2_len _ _ H). reflexivity. Qed.
Lemma F2_nth (l1 l2 : store) : Forall2 Rd l1 l2 -> forall k,
  match nth_error l1 k, nth_error l2 k with Some c1, Some c2 => Rd c1 c2 | None, None => True | _, _ => False end.
Proof.
  induction 1 as [|c1 c2 l1 l2 Hc H IH]; intros k; [destruct k; exact Logic.I|].
  destruct k as [|k]; cbn; [exact Hc|apply IH].
Qed.

Notation loop f := (calc_loop NO (run NO (S (S f))) I).

(* the loop over non-negative in-range indices respects the relation *)
Lemma loop_rel f : forall (idxs : list Z) (st st0 : store), Forall2 Rd st st0 ->
  Forall (fun i => 0 <= i) idxs -> Rres (loop f idxs true st) (loop f idxs true st0).
Proof.
  induction idxs as [|i idxs IH]; intros st st0 HR Hpos; cbn [calc_loop]; [exact HR|].
  inversion Hpos as [|? ? Hi Hpos']; subst.
  unfold pyidx. rewrite <- (F2_zlen st st0 HR).
  destruct ((0 <=? i) && (i <? zlen st)) eqn:Hin.
  2:{ replace ((i <? 0) && (- zlen st <=? i)) with false by lia. cbn [bind]. reflexivity. }
  pose proof (F2_nth st st0 HR (Z.to_nat i)) as Hn.
  destruct (nth_error st (Z.to_nat i)) as [c|] eqn:E1, (nth_error st0 (Z.to_nat i)) as [c0|] eqn:E2; try contradiction; cbn [bind].
  2:{ reflexivity. }
  rewrite (HRd_own c c0 Hn).
  destruct (match alist_get nmI (own_dict NO I (p c0)) with Some v => negb (is_none NO v) | None => false end).
  - apply IH; assumption.
  - (* both sides compute the reading at index i = |a| *)
    destruct (nth_error_split st (Z.to_nat i) E1) as (a & rest & Est & La).
    destruct (nth_error_split st0 (Z.to_nat i) E2) as (a0 & rest0 & Est0 & La0).
    subst st st0.
    assert (Hz : i = zlen a) by (unfold zlen; lia). assert (Hz0 : i = zlen a0) by (unfold zlen; lia).
    assert (Hsplit : Forall2 Rd a a0 /\ Forall2 Rd rest rest0).
    { apply Forall2_app_inv_l in HR. destruct HR as (x & y & Hx & Hy & Exy).
      assert (Lx : List.length x = List.length a0).
      { rewrite <- (F2_len _ _ Hx). unfold zlen in *. lia. }
      assert (Ex : x = a0 /\ y = c0 :: rest0).
      { clear -Exy Lx. symmetry in Exy. revert a0 Exy Lx. induction x as [|h x IHx]; intros [|h0 a0'] Exy Lx; cbn in *; try discriminate.
        - split; [reflexivity|exact Exy].
        - inversion Exy as [[Eh Et]]. destruct (IHx a0' Et ltac:(lia)) as [-> ->]. split; reflexivity. }
      destruct Ex as [-> ->]. inversion Hy; subst. split; assumption. }
    destruct Hsplit as [Ha Hrest].
    rewrite !run_S. cbn [step].
    pose proof (Hshape f a c rest (proj1 (HRd_G c c0 Hn))) as S1. rewrite <- Hz in S1.
    pose proof (Hshape f a0 c0 rest0 (proj2 (HRd_G c c0 Hn))) as S0. rewrite <- Hz0 in S0.
    rewrite S1, S0. rewrite (HRd_D a a0 c c0 Ha Hn).
    destruct (D a0 c0) as [r|e]; cbn [bind]; [|reflexivity].
    pose proof (set_reading_mid NO I a rest (slot NO M c (snd r)) (round_val NO (i_round NO I) (fst r))) as W1. rewrite <- Hz in W1.
    pose proof (set_reading_mid NO I a0 rest0 (slot NO M c0 (snd r)) (round_val NO (i_round NO I) (fst r))) as W0. rewrite <- Hz0 in W0.
    rewrite W1, W0. cbn [bind].
    apply IH; [|assumption].
    apply Forall2_app; [exact Ha|]. constructor; [apply HRd_deco; exact Hn|exact Hrest].
Qed.

Lemma find_calc_index_rel (st st0 : store) : Forall2 Rd st st0 -> find_calc_index NO I st = find_calc_index NO I st0.
Proof.
  intros HR. destruct HR as [|c c0 l l0 Hc Hl]; [reflexivity|]. cbn [find_calc_index].
  unfold alist_mem. rewrite (HRd_own c c0 Hc).
  destruct (negb match alist_get nmI (own_dict NO I (p c0)) with Some _ => true | None => false end); [reflexivity|].
  assert (E : forall k, last_with_key NO I l k = last_with_key NO I l0 k).
  { clear -Hl HRd_own. induction Hl as [|x x0 l l0 Hx _ IH]; intros k; cbn [last_with_key]; [reflexivity|].
    rewrite IH. unfold alist_mem. rewrite (HRd_own x x0 Hx). reflexivity. }
  rewrite E. reflexivity.
Qed.

Lemma run_subs_nil' rec prior range st : run_subs NO rec prior I range st = Ok st.
Proof. unfold run_subs. rewrite HIsubs. reflexivity. Qed.

(* calculate() cannot tell the two stores apart *)
Theorem calculate_rel (st st0 : store) : Forall2 Rd st st0 -> Rres (calculate NO I st) (calculate NO I st0).
Proof.
  intros HR. unfold calculate. change FUEL with (S (S (S 13))). rewrite !run_S. cbn [step]. rewrite !run_subs_nil'. cbn [bind].
  rewrite (find_calc_index_rel st st0 HR), (F2_zlen st st0 HR).
  pose proof (loop_rel 13 (zrange (Z.of_nat (find_calc_index NO I st0)) (zlen st0)) st st0 HR) as HL.
  assert (Hpos : Forall (fun i => 0 <= i) (zrange (Z.of_nat (find_calc_index NO I st0)) (zlen st0))).
  { apply Forall_forall. intros x Hx. unfold zrange in Hx. apply in_map_iff in Hx. destruct Hx as (k & <- & _). lia. }
  specialize (HL Hpos).
  destruct (calc_loop NO (run NO 15) I _ true st) as [r|e], (calc_loop NO (run NO 15) I _ true st0) as [r0|e0]; cbn [Rres bind] in *; try contradiction.
  - rewrite !run_subs_nil'. cbn [bind]. exact HL.
  - exact HL.
Qed.

(* along any paired history: candles arrive on both sides (related), the indicator calculates on
   both, anything may happen to the candles on the left as long as the relation is kept *)
Inductive Paired : res store -> res store -> Prop :=
| P_init : Paired (Ok []) (Ok [])
| P_append st st0 new new0 : Paired (Ok st) (Ok st0) -> Forall2 Rd new new0 -> Paired (Ok (st ++ new)) (Ok (st0 ++ new0))
| P_calculate st st0 : Paired (Ok st) (Ok st0) -> Paired (calculate NO I st) (calculate NO I st0)
| P_other st st' st0 : Paired (Ok st) (Ok st0) -> (forall x, Forall2 Rd st x -> Forall2 Rd st' x) -> Paired (Ok st') (Ok st0).

Theorem paired_rel r r0 : Paired r r0 -> Rres r r0.
Proof.
  induction 1 as [|st st0 new new0 _ IH Hn|st st0 _ IH|st st' st0 _ IH Ho]; cbn [Rres] in *.
  - constructor.
  - apply Forall2_app; assumption.
  - apply calculate_rel. exact IH.
  - apply Ho. exact IH.
Qed.
End NI.
