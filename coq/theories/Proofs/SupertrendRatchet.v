(* C10: Supertrend's trailing bands ratchet.  While the close stays between the previous candle's stored bands
   and the previous direction was long (+1), the reading stays long and its trend (the lower band) is never
   below the previous candle's stored lower band; symmetrically for short (-1) and the upper band.
   Proved about the faithful _calculate_reading model over the reals, for any store and index. *)
From Coq Require Import ZArith List String Bool Reals Lra Lia.
From Hexital Require Import Base.Prelude Base.Num Model.Manager Model.Candle Model.Readings Model.Analysis
  Model.Engine Inst.RealInst.
Import ListNotations.
Local Open Scope Z_scope.
Local Open Scope string_scope.
Local Open Scope list_scope.

Section Ratchet.
Variable I : ind ROps.
Notation nm := (i_name ROps I).
Notation F := ROps.
Local Open Scope R_scope.

Lemma pyeq_1_1 : py_eq F (@VNum F (IZR 1)) (@VNum F (IZR 1)) = true.
Proof. cbn. unfold Reqb. destruct (Req_EM_T (IZR 1) (IZR 1)); [reflexivity|contradiction]. Qed.
Lemma pyeq_m1_1 : py_eq F (@VNum F (IZR (-1))) (@VNum F (IZR 1)) = false.
Proof. cbn. unfold Reqb. destruct (Req_EM_T (IZR (-1)) (IZR 1)) as [E|]; [apply eq_IZR in E; discriminate|reflexivity]. Qed.
Lemma pyeq_m1_m1 : py_eq F (@VNum F (IZR (-1))) (@VNum F (IZR (-1))) = true.
Proof. cbn. unfold Reqb. destruct (Req_EM_T (IZR (-1)) (IZR (-1))); [reflexivity|contradiction]. Qed.
Lemma pyeq_1_m1 : py_eq F (@VNum F (IZR 1)) (@VNum F (IZR (-1))) = false.
Proof. cbn. unfold Reqb. destruct (Req_EM_T (IZR 1) (IZR (-1))) as [E|]; [apply eq_IZR in E; discriminate|reflexivity]. Qed.

Definition warmup : val F :=
  VDict [("trend", VNone); ("direction", @VNum F (IZR 1)); ("long", VNone); ("short", VNone)].

Theorem supertrend_long_ratchets rec (period : Z) (mult : R) (st st' : store F) i v pl pu (pln pun cl : R) :
  i_kind F I = @K_SUPERTREND F period mult -> calc_reading F rec I st i = Ok (v, st') ->
  prev_reading F st (nm ++ "_data.lower") i = Ok pl -> is_none F pl = false -> as_num F pl = Ok pln ->
  prev_reading F st (nm ++ "_data.upper") i = Ok pu -> as_num F pu = Ok pun ->
  rnum F st "close" i = Ok cl ->
  prev_reading F st (nm ++ ".direction") i = Ok (@VNum F (IZR 1)) ->
  pln <= cl <= pun ->
  v = warmup \/
  exists lower : R, pln <= lower /\
    v = VDict [("trend", @VNum F lower); ("direction", @VNum F (IZR 1)); ("long", @VNum F lower); ("short", VNone)].
Proof.
  intros K H Hpl Hn Hpln Hpu Hpun Hcl Hdir [Hlo Hhi]. unfold calc_reading in H. rewrite K in H.
  destruct (reading F st (nm ++ "_atr") i) as [a|]; cbn [bind] in H; [|discriminate].
  destruct (negb (is_none F a)); [|left; unfold ret in H; cbn [zn nofZ F] in H; unfold warmup; congruence].
  destruct (as_num F a) as [an|]; cbn [bind] in H; [|discriminate].
  destruct (rnum F st (nm ++ "_HL") i) as [hl|]; cbn [bind] in H; [|discriminate].
  rewrite Hpl in H; cbn [bind] in H. rewrite Hn in H; cbn [negb] in H.
  rewrite Hcl, Hpu in H; cbn [bind] in H. rewrite Hpun in H; cbn [bind] in H.
  assert (E1 : nltb F pun cl = false) by (apply Rltb_false; exact Hhi).
  assert (E2 : nltb F cl pln = false) by (apply Rltb_false; exact Hlo).
  rewrite E1 in H. rewrite Hpln in H; cbn [bind] in H. rewrite E2 in H. rewrite Hdir in H; cbn [bind] in H.
  cbn [zn nofZ F] in H. rewrite pyeq_1_1, pyeq_1_m1 in H.
  right.
  match type of H with context [nltb F ?l0 pln] => destruct (nltb F l0 pln) eqn:EL; cbn [bind] in H end.
  - destruct (managed_set F rec I "ST_data" _ i st) as [st1|]; cbn [bind] in H; [|discriminate].
    unfold ret, vnum in H. cbn [zn nofZ F] in H. rewrite ?pyeq_1_1, ?pyeq_1_m1 in H. inversion H; subst v st'. exists pln. split; [lra|reflexivity].
  - match type of EL with nltb F ?l0 pln = false => set (l0v := l0) in * end.
    destruct (managed_set F rec I "ST_data" _ i st) as [st1|]; cbn [bind] in H; [|discriminate].
    unfold ret, vnum in H. cbn [zn nofZ F] in H. rewrite ?pyeq_1_1, ?pyeq_1_m1 in H. inversion H; subst v st'. exists l0v. split; [apply Rltb_false in EL; exact EL|reflexivity].
Qed.

Theorem supertrend_short_ratchets rec (period : Z) (mult : R) (st st' : store F) i v pl pu (pln pun cl : R) :
  i_kind F I = @K_SUPERTREND F period mult -> calc_reading F rec I st i = Ok (v, st') ->
  prev_reading F st (nm ++ "_data.lower") i = Ok pl -> is_none F pl = false -> as_num F pl = Ok pln ->
  prev_reading F st (nm ++ "_data.upper") i = Ok pu -> as_num F pu = Ok pun ->
  rnum F st "close" i = Ok cl ->
  prev_reading F st (nm ++ ".direction") i = Ok (@VNum F (IZR (-1))) ->
  pln <= cl <= pun ->
  v = warmup \/
  exists upper : R, upper <= pun /\
    v = VDict [("trend", @VNum F upper); ("direction", @VNum F (IZR (-1))); ("long", VNone); ("short", @VNum F upper)].
Proof.
  intros K H Hpl Hn Hpln Hpu Hpun Hcl Hdir [Hlo Hhi]. unfold calc_reading in H. rewrite K in H.
  destruct (reading F st (nm ++ "_atr") i) as [a|]; cbn [bind] in H; [|discriminate].
  destruct (negb (is_none F a)); [|left; unfold ret in H; cbn [zn nofZ F] in H; unfold warmup; congruence].
  destruct (as_num F a) as [an|]; cbn [bind] in H; [|discriminate].
  destruct (rnum F st (nm ++ "_HL") i) as [hl|]; cbn [bind] in H; [|discriminate].
  rewrite Hpl in H; cbn [bind] in H. rewrite Hn in H; cbn [negb] in H.
  rewrite Hcl, Hpu in H; cbn [bind] in H. rewrite Hpun in H; cbn [bind] in H.
  assert (E1 : nltb F pun cl = false) by (apply Rltb_false; exact Hhi).
  assert (E2 : nltb F cl pln = false) by (apply Rltb_false; exact Hlo).
  rewrite E1 in H. rewrite Hpln in H; cbn [bind] in H. rewrite E2 in H. rewrite Hdir in H; cbn [bind] in H.
  cbn [zn nofZ F] in H. rewrite pyeq_m1_1, pyeq_m1_m1 in H. cbn [bind] in H.
  right.
  match type of H with context [nltb F pun ?u0] => destruct (nltb F pun u0) eqn:EU; cbn [bind] in H end.
  - destruct (managed_set F rec I "ST_data" _ i st) as [st1|]; cbn [bind] in H; [|discriminate].
    unfold ret, vnum in H. cbn [zn nofZ F] in H. rewrite ?pyeq_m1_1, ?pyeq_m1_m1 in H. inversion H; subst v st'. exists pun. split; [lra|reflexivity].
  - match type of EU with nltb F pun ?u0 = false => set (u0v := u0) in * end.
    destruct (managed_set F rec I "ST_data" _ i st) as [st1|]; cbn [bind] in H; [|discriminate].
    unfold ret, vnum in H. cbn [zn nofZ F] in H. rewrite ?pyeq_m1_1, ?pyeq_m1_m1 in H. inversion H; subst v st'. exists u0v. split; [apply Rltb_false in EU; exact EU|reflexivity].
Qed.
End Ratchet.
