(* Schedule independence for a composite indicator: a parent whose _calculate_reading is
   pure, with one helper sub-indicator (a leaf, calculated before the parent) - the shape of
   ATR over its own TR series.  calculate() = the sub's calculate, then the parent's loop;
   under any append schedule the result is the parent's canonical readings over the sub's
   canonical readings of the whole stream. *)
From Coq Require Import ZArith List String Ascii Bool Lia ZifyBool.
From Hexital Require Import Base.Prelude Base.Num Model.Manager Model.Candle Model.Readings Model.Analysis
  Model.Engine Proofs.ListProofs Proofs.EngineProofs.
Import ListNotations.
Local Open Scope Z_scope.

Section OneSub.
Context (NO : NumOps).
Notation val := (val NO).
Notation cd := (cd (payload NO)).
Notation store := (store NO).
Variables P S : ind NO.
Hypothesis HPsubs : i_subs NO P = [S].
Hypothesis HPman : i_managed NO P = [].
Hypothesis HPtop : i_sub NO P = false.
Hypothesis HSleaf : i_subs NO S = [] /\ i_managed NO S = [].
Hypothesis HSsub : i_sub NO S = true.
Hypothesis HSprior : i_prior NO S = true.
Variable calcP calcS : store -> Z -> res val.
Hypothesis HpureP : forall rec st i, calc_reading NO rec P st i = (v <- calcP st i ;; Ok (v, st)).
Hypothesis HpureS : forall rec st i, calc_reading NO rec S st i = (v <- calcS st i ;; Ok (v, st)).
Hypothesis HCP : Causal NO P calcP.
Hypothesis HCS : Causal NO S calcS.

Notation setkP := (setk NO P).
Notation setkS := (setk NO S).
Notation freshP := (fresh NO P).
Notation freshS := (fresh NO S).

(* candles that differ only in the parent's slot *)
Definition decoP (c c0 : cd) : Prop := exists x : option val, c = slot NO P c0 x.
(* the sub's value does not depend on the parent's entries *)
Hypothesis Hindep : forall (a a0 : store) (d d0 : cd), Forall2 decoP a a0 -> decoP d d0 ->
  calcS (a ++ [d]) (zlen a) = calcS (a0 ++ [d0]) (zlen a0).

(* ---- the engine for this shape ---- *)
Lemma calculate_unfold st :
  calculate NO P st = (st1 <- leaf_calculate NO S calcS st ;; leaf_calculate NO P calcP st1).
Proof.
  unfold calculate. change FUEL with (Datatypes.S (Datatypes.S 14)). rewrite run_S. cbn [step].
  unfold run_subs at 1. rewrite HPsubs. cbn [foldM]. rewrite HSprior, HSsub. cbn [andb Bool.eqb].
  change 15%nat with (Datatypes.S (Datatypes.S 13)). rewrite (run_calculate_leaf NO S HSleaf calcS HpureS 13 st).
  destruct (leaf_calculate NO S calcS st) as [st1|e]; cbn [bind]; [|reflexivity].
  rewrite (calc_loop_leaf NO P calcP HpureP 14). fold (leaf_calculate NO P calcP st1).
  destruct (leaf_calculate NO P calcP st1) as [st2|e]; cbn [bind]; [|reflexivity].
  unfold run_subs. rewrite HPsubs. cbn [foldM]. rewrite HSprior, HSsub. cbn [andb Bool.eqb bind]. reflexivity.
Qed.

(* ---- the two slots live in different dictionaries ---- *)
Lemma setk_comm d v w : setkP (setkS d v) w = setkS (setkP d w) v.
Proof. unfold EngineProofs.setk, with_own_dict, EngineProofs.own, own_dict. cbn [t p]. rewrite HPtop, HSsub. reflexivity. Qed.
Lemma freshS_setkP d w : freshS (setkP d w) <-> freshS d.
Proof. unfold EngineProofs.fresh, EngineProofs.own, own_dict, EngineProofs.setk, with_own_dict. cbn [p]. rewrite HPtop, HSsub. cbn [subs]. reflexivity. Qed.
Lemma freshP_setkS d v : freshP (setkS d v) <-> freshP d.
Proof. unfold EngineProofs.fresh, EngineProofs.own, own_dict, EngineProofs.setk, with_own_dict. cbn [p]. rewrite HPtop, HSsub. cbn [inds]. reflexivity. Qed.
Lemma freshS_slotP d x : freshS (slot NO P d x) <-> freshS d.
Proof. destruct x; [apply freshS_setkP|reflexivity]. Qed.
Lemma slot_setkS d v x : slot NO P (setkS d v) x = setkS (slot NO P d x) v.
Proof. destruct x; [apply setk_comm|reflexivity]. Qed.

Lemma decoP_refl c : decoP c c. Proof. exists None. reflexivity. Qed.
Lemma decoP_refl_list (l : store) : Forall2 decoP l l.
Proof. induction l; constructor; [apply decoP_refl|assumption]. Qed.
Lemma decoP_len (a a0 : store) : Forall2 decoP a a0 -> zlen a = zlen a0.
Proof. intros H. unfold zlen. f_equal. induction H; cbn; congruence. Qed.

(* the shape of a canonical decoration *)
Lemma canon_acc_shape (J : ind NO) (calc : store -> Z -> res val) : forall todo a r, canon_acc NO J calc a todo = Ok r ->
  exists r', r = a ++ r' /\ Forall2 (fun c d => exists v, c = setk NO J d v) r' todo.
Proof.
  induction todo as [|d todo IH]; intros a r H; cbn [EngineProofs.canon_acc] in H.
  - inversion H; subst. exists []. split; [rewrite app_nil_r; reflexivity|constructor].
  - destruct (calc (a ++ [d]) (zlen a)) as [v|e]; cbn [bind] in H; [|discriminate].
    destruct (IH _ _ H) as (r' & Er & Hr). exists (setk NO J d (rnd_ NO J v) :: r'). split.
    + rewrite Er, <- app_assoc. reflexivity.
    + constructor; [eexists; reflexivity|exact Hr].
Qed.

(* A: a store that is canonical for the sub stays so when the parent writes on it *)
Lemma iscanon_deco : forall a0, IsCanon NO S calcS a0 -> forall a, Forall2 decoP a a0 -> IsCanon NO S calcS a.
Proof.
  induction 1 as [|a0 d v Ha0 IH Hd Ev]; intros a HD.
  - inversion HD; subst. constructor.
  - destruct (Forall2_app_inv_r _ _ HD) as (a' & l & Ha' & Hl & ->).
    inversion Hl as [|c ? l' ? Hc Hnil]; subst. inversion Hnil; subst.
    destruct Hc as [x ->]. rewrite slot_setkS.
    econstructor; [apply IH; exact Ha'|apply freshS_slotP; exact Hd|].
    rewrite (Hindep a' a0 (slot NO P d x) d Ha' (ex_intro _ x eq_refl)). exact Ev.
Qed.

(* B: running the sub over new candles behind a decorated prefix gives the same new part *)
Lemma canon_acc_deco : forall ys (a a0 : store), Forall2 decoP a a0 ->
  match canon_acc NO S calcS a ys, canon_acc NO S calcS a0 ys with
  | Ok r, Ok r0 => exists tl, r = a ++ tl /\ r0 = a0 ++ tl
  | Err e, Err e0 => e = e0
  | _, _ => False
  end.
Proof.
  induction ys as [|d ys IH]; intros a a0 HD; cbn [EngineProofs.canon_acc].
  - exists []. rewrite !app_nil_r. split; reflexivity.
  - rewrite (Hindep a a0 d d HD (decoP_refl d)).
    destruct (calcS (a0 ++ [d]) (zlen a0)) as [v|e]; cbn [bind]; [|reflexivity].
    specialize (IH (a ++ [setkS d (rnd_ NO S v)]) (a0 ++ [setkS d (rnd_ NO S v)])
                   (Forall2_app HD (Forall2_cons _ _ (decoP_refl _) (Forall2_nil _)))).
    destruct (canon_acc NO S calcS (a ++ [setkS d (rnd_ NO S v)]) ys) as [r|e],
             (canon_acc NO S calcS (a0 ++ [setkS d (rnd_ NO S v)]) ys) as [r0|e0]; try contradiction; [|exact IH].
    destruct IH as (tl & -> & ->). exists (setkS d (rnd_ NO S v) :: tl). rewrite <- !app_assoc. split; reflexivity.
Qed.

(* ---- the specification: parent's canonical readings over the sub's ---- *)
Definition spec2 (ds : list cd) : res store := a <- canon NO S calcS ds ;; canon NO P calcP a.

Lemma fresh_after_S (ds a : list cd) : Forall freshP ds -> canon NO S calcS ds = Ok a -> Forall freshP a.
Proof.
  intros Hf Ha. destruct (canon_acc_shape S calcS ds [] a Ha) as (r' & -> & Hr). cbn [app].
  clear Ha. induction Hr as [|c d r' ds' (v & ->) _ IH]; [constructor|].
  inversion Hf; subst. constructor; [apply freshP_setkS; assumption|apply IH; assumption].
Qed.

Theorem batch_is_spec (ds : list cd) : Forall freshP ds -> Forall freshS ds -> calculate NO P ds = spec2 ds.
Proof.
  intros HfP HfS. rewrite calculate_unfold. unfold spec2.
  rewrite (batch_is_canon NO S calcS HCS ds HfS).
  destruct (canon NO S calcS ds) as [a|e] eqn:Ea; cbn [bind]; [|reflexivity].
  apply (batch_is_canon NO P calcP HCP). exact (fresh_after_S ds a HfP Ea).
Qed.

Lemma deco_after_P (a0 st : store) : canon NO P calcP a0 = Ok st -> Forall2 decoP st a0.
Proof.
  intros H. destruct (canon_acc_shape P calcP a0 [] st H) as (r' & -> & Hr). cbn [app].
  clear H. induction Hr as [|c d r' ds' (v & ->) _ IH]; constructor; [exists (Some v); reflexivity|exact IH].
Qed.

Theorem append_is_spec (xs ys : list cd) (st : store) :
  Forall freshP (xs ++ ys) -> Forall freshS (xs ++ ys) -> spec2 xs = Ok st ->
  calculate NO P (st ++ ys) = spec2 (xs ++ ys).
Proof.
  intros HfP HfS Hst. apply Forall_app in HfP. destruct HfP as [HfPx HfPy]. apply Forall_app in HfS. destruct HfS as [HfSx HfSy].
  unfold spec2 in Hst. destruct (canon NO S calcS xs) as [a0|e] eqn:Ea0; cbn [bind] in Hst; [|discriminate].
  destruct (canon_acc_iscanon NO S calcS xs [] a0 (IC_nil NO S calcS) HfSx Ea0) as [HcS0 _].
  pose proof (deco_after_P a0 st Hst) as HD.
  assert (HcS : IsCanon NO S calcS st) by (eapply iscanon_deco; eassumption).
  pose proof (fresh_after_S xs a0 HfPx Ea0) as HfPa0.
  destruct (canon_acc_iscanon NO P calcP a0 [] st (IC_nil NO P calcP) HfPa0 Hst) as [HcP _].
  rewrite calculate_unfold. rewrite (append_is_canon NO S calcS HCS st ys HcS HfSy).
  unfold spec2, EngineProofs.canon. rewrite canon_acc_app. fold (canon NO S calcS xs). rewrite Ea0. cbn [bind].
  pose proof (canon_acc_deco ys st a0 HD) as HB.
  destruct (canon_acc NO S calcS st ys) as [r|e], (canon_acc NO S calcS a0 ys) as [r0|e0] eqn:Er0; try contradiction; cbn [bind].
  - destruct HB as (tl & -> & ->).
    assert (Hftl : Forall freshP tl).
    { destruct (canon_acc_shape S calcS ys a0 _ Er0) as (r' & E & Hr). apply app_inv_head in E. subst r'.
      clear -Hr HfPy HPtop HSsub. induction Hr as [|c d r' ds' (v & ->) _ IH]; [constructor|].
      inversion HfPy; subst. constructor; [apply freshP_setkS; assumption|apply IH; assumption]. }
    rewrite (append_is_canon NO P calcP HCP st tl HcP Hftl).
    rewrite canon_acc_app. unfold EngineProofs.canon in Hst. rewrite Hst. reflexivity.
  - subst. reflexivity.
Qed.

(* a successful run over a longer stream is successful over every prefix *)
Lemma spec2_prefix (a b : list cd) r : spec2 (a ++ b) = Ok r -> exists m, spec2 a = Ok m.
Proof.
  unfold spec2, EngineProofs.canon. rewrite canon_acc_app.
  destruct (canon_acc NO S calcS [] a) as [a1|e]; cbn [bind]; [|discriminate].
  destruct (canon_acc NO S calcS a1 b) as [a2|e] eqn:E2; cbn [bind]; [|discriminate].
  destruct (canon_acc_shape S calcS _ _ _ E2) as (tl & -> & _). rewrite canon_acc_app.
  destruct (canon_acc NO P calcP [] a1) as [m|e]; cbn [bind]; [|discriminate]. intros _. exists m. reflexivity.
Qed.

(* calling calculate() again changes nothing *)
Theorem composite_calculate_idempotent (xs : list cd) (st : store) :
  Forall freshP xs -> Forall freshS xs -> calculate NO P xs = Ok st -> calculate NO P st = Ok st.
Proof.
  intros HfP HfS H. rewrite (batch_is_spec xs HfP HfS) in H.
  pose proof (append_is_spec xs [] st) as A. rewrite !app_nil_r in A. rewrite A by assumption. exact H.
Qed.

(* no look-ahead for the composite: the result over a longer stream extends the result over a prefix *)
Theorem spec2_prefix_stable (a b : list cd) r : spec2 (a ++ b) = Ok r ->
  exists mid tl, spec2 a = Ok mid /\ r = mid ++ tl.
Proof.
  unfold spec2, EngineProofs.canon. rewrite canon_acc_app.
  destruct (canon_acc NO S calcS [] a) as [a1|e]; cbn [bind]; [|discriminate].
  destruct (canon_acc NO S calcS a1 b) as [a2|e] eqn:E2; cbn [bind]; [|discriminate].
  destruct (canon_acc_shape S calcS _ _ _ E2) as (tl1 & -> & _). rewrite canon_acc_app.
  destruct (canon_acc NO P calcP [] a1) as [m|e]; cbn [bind]; [|discriminate]. intros H.
  destruct (canon_acc_shape P calcP _ _ _ H) as (tl & -> & _). exists m, tl. split; reflexivity.
Qed.
Theorem composite_batch_is_causal (ds more : list cd) r :
  Forall freshP (ds ++ more) -> Forall freshS (ds ++ more) -> calculate NO P (ds ++ more) = Ok r ->
  exists mid tl, calculate NO P ds = Ok mid /\ r = mid ++ tl.
Proof.
  intros HfP HfS H. rewrite (batch_is_spec _ HfP HfS) in H.
  destruct (spec2_prefix_stable ds more r H) as (mid & tl & Hm & Hr). exists mid, tl. split; [|exact Hr].
  apply Forall_app in HfP. apply Forall_app in HfS. rewrite (batch_is_spec ds); tauto.
Qed.

(* any split of a stream into append chunks: whenever one calculate() over the whole stream
   succeeds, the chunked run ends in exactly its result.  (When the batch raises, the chunked run
   raises as well but possibly another exception: the batch lets the helper run over the
   whole stream before the parent starts.) *)
Theorem composite_schedule_independent : forall (chunks : list (list cd)) (xs : list cd) (st r : store),
  Forall freshP xs -> Forall freshS xs -> Forall (Forall freshP) chunks -> Forall (Forall freshS) chunks ->
  spec2 xs = Ok st -> spec2 (xs ++ List.concat chunks) = Ok r ->
  engine_chunks NO P st chunks = Ok r.
Proof.
  induction chunks as [|ch chunks IH]; intros xs st r HPx HSx HPc HSc Hst Hr; cbn [EngineProofs.engine_chunks List.concat] in *.
  - rewrite app_nil_r in Hr. congruence.
  - inversion HPc as [|? ? HPch HPc']; subst. inversion HSc as [|? ? HSch HSc']; subst.
    assert (HfP : Forall freshP (xs ++ ch)) by (apply Forall_app; split; assumption).
    assert (HfS : Forall freshS (xs ++ ch)) by (apply Forall_app; split; assumption).
    rewrite (append_is_spec xs ch st HfP HfS Hst). rewrite app_assoc in Hr.
    destruct (spec2_prefix _ _ _ Hr) as (st' & E). rewrite E. cbn [bind].
    apply (IH (xs ++ ch) st' r HfP HfS HPc' HSc' E Hr).
Qed.

Theorem composite_incremental_equals_batch (chunks : list (list cd)) (r : store) :
  Forall (Forall freshP) chunks -> Forall (Forall freshS) chunks ->
  calculate NO P (List.concat chunks) = Ok r -> engine_chunks NO P [] chunks = Ok r.
Proof.
  intros HP HS Hr.
  assert (HfP : Forall freshP (List.concat chunks)) by (apply Forall_concat; exact HP).
  assert (HfS : Forall freshS (List.concat chunks)) by (apply Forall_concat; exact HS).
  rewrite (batch_is_spec _ HfP HfS) in Hr.
  apply (composite_schedule_independent chunks [] [] r); try assumption; try constructor.
Qed.
End OneSub.
