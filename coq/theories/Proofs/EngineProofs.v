(* The engine theorem for leaf indicators (no sub- or managed indicators): the faithful
   calculate() loop of Model/Engine.v - resume index, skip-if-present, in-place set_reading -
   computes the canonical causal semantics [canon], in one batch and under any sequence of
   appends alike, provided the indicator's _calculate_reading is causal (its value at index i
   ignores every candle after i and the current content of its own slot). *)
From Coq Require Import ZArith List String Bool Lia ZifyBool.
From Hexital Require Import Base.Prelude Base.Num Model.Manager Model.Candle Model.Readings Model.Analysis
  Model.Engine Proofs.ListProofs.
Import ListNotations.
Local Open Scope Z_scope.

Section Leaf.
Context (NO : NumOps).
Notation val := (val NO).
Notation payload := (payload NO).
Notation cd := (cd payload).
Notation store := (store NO).

Variable I : ind NO.
Hypothesis Hleaf : i_subs NO I = [] /\ i_managed NO I = [].
Variable calc : store -> Z -> res val.
Hypothesis Hpure : forall rec st i, calc_reading NO rec I st i = (v <- calc st i ;; Ok (v, st)).

Notation nm := (i_name NO I).
Definition own (c : cd) : list (string * val) := own_dict NO I (p c).
Definition setk (c : cd) (v : val) : cd := {| t := t c; p := with_own_dict NO I (p c) (alist_set nm v (own c)) |}.
Definition fresh (c : cd) : Prop := alist_get nm (own c) = None.
Definition rnd_ (v : val) : val := round_val NO (i_round NO I) v.

(* the loop of calculate() for a leaf *)
Fixpoint leaf_loop (idxs : list Z) (st : store) : res store :=
  match idxs with
  | [] => Ok st
  | i :: rest =>
    match pyidx st i with
    | None => Err IndexError
    | Some c =>
      if match alist_get nm (own c) with Some v => negb (is_none NO v) | None => false end
      then leaf_loop rest st
      else v <- calc st i ;; st' <- set_reading NO st I (rnd_ v) i ;; leaf_loop rest st'
    end
  end.
Definition leaf_calculate (st : store) : res store :=
  leaf_loop (zrange (Z.of_nat (find_calc_index NO I st)) (zlen st)) st.

Lemma run_subs_nil rec prior range st : run_subs NO rec prior I range st = Ok st.
Proof. unfold run_subs. destruct Hleaf as [-> _]. reflexivity. Qed.

Lemma run_S f req J st : run NO (S f) req J st = step NO (run NO f) req J st.
Proof. reflexivity. Qed.

Lemma calc_loop_leaf f : forall idxs st,
  calc_loop NO (run NO (S f)) I idxs true st = leaf_loop idxs st.
Proof.
  induction idxs as [|i idxs IH]; intros st; [reflexivity|]. cbn [calc_loop leaf_loop].
  destruct (pyidx st i) as [c|]; cbn [bind]; [|reflexivity].
  fold (own c).
  destruct (match alist_get nm (own c) with Some v => negb (is_none NO v) | None => false end); [apply IH|].
  rewrite run_S. cbn [step]. rewrite Hpure. destruct (calc st i) as [v|e]; cbn [bind]; [|reflexivity].
  unfold rnd_. destruct (set_reading NO st I (round_val NO (i_round NO I) v) i); cbn [bind]; [apply IH|reflexivity].
Qed.

Theorem run_calculate_leaf f st :
  run NO (S (S f)) (RCalculate NO) I st = (st' <- leaf_calculate st ;; Ok (VNone, st')).
Proof.
  rewrite run_S. cbn [step]. rewrite !run_subs_nil. cbn [bind].
  rewrite calc_loop_leaf. unfold leaf_calculate.
  destruct (leaf_loop _ st); cbn [bind]; [rewrite run_subs_nil|]; reflexivity.
Qed.

Theorem calculate_is_leaf st : calculate NO I st = leaf_calculate st.
Proof.
  unfold calculate. change FUEL with (S (S 14)). rewrite run_calculate_leaf.
  destruct (leaf_calculate st); reflexivity.
Qed.


(* ---------------------------------------------------------------- list plumbing *)
Lemma pyidx_mid (a b : store) c : pyidx (a ++ c :: b) (zlen a) = Some c.
Proof.
  assert (L : zlen (a ++ c :: b) = zlen a + 1 + zlen b).
  { rewrite zlen_app. unfold zlen. cbn [List.length]. lia. }
  pose proof (zlen_nonneg a). pose proof (zlen_nonneg b).
  rewrite pyidx_nonneg by lia.
  unfold zlen. rewrite Nat2Z.id. rewrite nth_error_app2 by lia. rewrite Nat.sub_diag. reflexivity.
Qed.

Lemma set_reading_mid (a b : store) c v : set_reading NO (a ++ c :: b) I v (zlen a) = Ok (a ++ setk c v :: b).
Proof.
  unfold set_reading, nat_index. pose proof (zlen_nonneg a). pose proof (zlen_nonneg b).
  assert (L : zlen (a ++ c :: b) = zlen a + 1 + zlen b).
  { rewrite zlen_app. unfold zlen. cbn [List.length]. lia. }
  assert (E : (0 <=? zlen a) && (zlen a <? zlen (a ++ c :: b)) = true) by lia.
  rewrite E. replace (Z.to_nat (zlen a)) with (List.length a) by (unfold zlen; lia).
  rewrite nth_error_app2 by lia. rewrite Nat.sub_diag. cbn [nth_error].
  unfold list_set. rewrite nth_error_app2 by lia. rewrite Nat.sub_diag. cbn [nth_error].
  f_equal. rewrite firstn_app, Nat.sub_diag, firstn_all. cbn [firstn]. rewrite app_nil_r.
  f_equal. f_equal. replace (S (List.length a)) with (List.length a + 1)%nat by lia.
  rewrite skipn_app. rewrite skipn_all2 by lia. cbn [app].
  replace (List.length a + 1 - List.length a)%nat with 1%nat by lia. reflexivity.
Qed.

Lemma zrange_cons a b : a < b -> zrange a b = a :: zrange (a + 1) b.
Proof.
  intros H. unfold zrange. replace (Z.to_nat (b - a)) with (S (Z.to_nat (b - (a + 1)))) by lia.
  cbn [seq map]. f_equal; [lia|]. rewrite <- seq_shift, map_map. apply map_ext. intros k. lia.
Qed.
Lemma zrange_nil a b : b <= a -> zrange a b = [].
Proof. intros H. unfold zrange. replace (Z.to_nat (b - a)) with 0%nat by lia. reflexivity. Qed.
Lemma map_seq_shift {B} : forall s n (g : nat -> B), map g (seq s n) = map (fun k => g (s + k)%nat) (seq 0 n).
Proof.
  induction s as [|s IH]; intros n g; [reflexivity|].
  rewrite <- seq_shift, map_map. rewrite (IH n (fun x => g (S x))). apply map_ext. intros k. reflexivity.
Qed.
Lemma zrange_split a m b : a <= m <= b -> zrange a b = zrange a m ++ zrange m b.
Proof.
  intros H. unfold zrange. replace (Z.to_nat (b - a)) with (Z.to_nat (m - a) + Z.to_nat (b - m))%nat by lia.
  rewrite seq_app, map_app. f_equal. cbn [Nat.add]. rewrite map_seq_shift. apply map_ext. intros k. lia.
Qed.


(* ---------------------------------------------------------------- canonical semantics *)
(* reading i is _calculate_reading on the store cut after candle i, over canonical
   earlier candles - defined from the faithful calc itself, no idealisation *)
Fixpoint canon_acc (done : store) (todo : list cd) : res store :=
  match todo with
  | [] => Ok done
  | d :: todo' => v <- calc (done ++ [d]) (zlen done) ;; canon_acc (done ++ [setk d (rnd_ v)]) todo'
  end.
Definition canon (ds : list cd) : res store := canon_acc [] ds.

(* the own slot of a candle: absent, or holding any value *)
Definition slot (d : cd) (x : option val) : cd := match x with None => d | Some v => setk d v end.

(* canonical stores: built candle by candle, each reading computed on the store cut after it *)
Inductive IsCanon : store -> Prop :=
| IC_nil : IsCanon []
| IC_snoc a d v : IsCanon a -> fresh d -> calc (a ++ [d]) (zlen a) = Ok v -> IsCanon (a ++ [setk d (rnd_ v)]).

(* the per-indicator obligation: on a canonical prefix, the value computed at the next index
   ignores every later candle and the current content of its own slot *)
Definition Causal : Prop := forall (a : store) (d : cd) (x : option val) (rest : store),
  IsCanon a -> fresh d -> calc (a ++ slot d x :: rest) (zlen a) = calc (a ++ [d]) (zlen a).
Hypothesis HC : Causal.

Lemma zlen_snoc (a : store) c : zlen (a ++ [c]) = zlen a + 1.
Proof. rewrite zlen_app. reflexivity. Qed.

Lemma leaf_loop_app : forall l1 l2 st, leaf_loop (l1 ++ l2) st = (st' <- leaf_loop l1 st ;; leaf_loop l2 st').
Proof.
  induction l1 as [|i l1 IH]; intros l2 st; [reflexivity|]. cbn [app leaf_loop].
  destruct (pyidx st i); [|reflexivity].
  destruct (match alist_get nm (own c) with Some v => negb (is_none NO v) | None => false end); [apply IH|].
  destruct (calc st i); cbn [bind]; [|reflexivity].
  destruct (set_reading NO st I (rnd_ a) i); cbn [bind]; [apply IH|reflexivity].
Qed.

(* running the loop over fresh candles behind any prefix produces the canonical store *)
Lemma loop_fresh : forall (new : list cd) (a : store), IsCanon a -> Forall fresh new ->
  leaf_loop (zrange (zlen a) (zlen a + zlen new)) (a ++ new) = canon_acc a new.
Proof.
  induction new as [|d new IH]; intros a Ha Hf.
  - rewrite zrange_nil by (cbn; lia). rewrite app_nil_r. reflexivity.
  - inversion Hf as [|? ? Hd Hf']; subst.
    assert (L : zlen (d :: new) = 1 + zlen new) by (unfold zlen; cbn [List.length]; lia).
    pose proof (zlen_nonneg new).
    rewrite zrange_cons by lia. cbn [leaf_loop canon_acc]. rewrite pyidx_mid.
    unfold fresh in Hd. rewrite Hd.
    pose proof (HC a d None new Ha Hd) as Hc0. cbn [slot] in Hc0. rewrite Hc0.
    destruct (calc (a ++ [d]) (zlen a)) as [v|e] eqn:Ev; cbn [bind]; [|reflexivity].
    rewrite set_reading_mid. cbn [bind].
    replace (a ++ setk d (rnd_ v) :: new) with ((a ++ [setk d (rnd_ v)]) ++ new) by (rewrite <- app_assoc; reflexivity).
    rewrite <- IH; [|econstructor; eassumption|assumption]. rewrite zlen_snoc. f_equal. f_equal. lia.
Qed.

Lemma find_calc_index_fresh (ds : list cd) : Forall fresh ds -> find_calc_index NO I ds = 0%nat.
Proof.
  intros H. destruct ds as [|d ds]; [reflexivity|]. inversion H as [|? ? Hd _]; subst.
  cbn [find_calc_index]. unfold alist_mem. unfold fresh, own in Hd. rewrite Hd. reflexivity.
Qed.

(* one calculate() over a whole stream *)
Theorem batch_is_canon (ds : list cd) : Forall fresh ds -> leaf_calculate ds = canon ds.
Proof.
  intros H. unfold leaf_calculate, canon. rewrite find_calc_index_fresh by assumption.
  exact (loop_fresh ds [] IC_nil H).
Qed.

(* ---- canonical stores ---- *)

Lemma canon_acc_iscanon : forall todo a r, IsCanon a -> Forall fresh todo -> canon_acc a todo = Ok r ->
  IsCanon r /\ exists tl, r = a ++ tl.
Proof.
  induction todo as [|d todo IH]; intros a r Ha Hf H; cbn [canon_acc] in H.
  - inversion H; subst. split; [exact Ha|exists []; rewrite app_nil_r; reflexivity].
  - inversion Hf as [|? ? Hd Hf']; subst.
    destruct (calc (a ++ [d]) (zlen a)) as [v|e] eqn:Ev; cbn [bind] in H; [|discriminate].
    destruct (IH _ _ (IC_snoc a d v Ha Hd Ev) Hf' H) as [Hr [tl Etl]].
    split; [exact Hr|]. exists (setk d (rnd_ v) :: tl). rewrite Etl, <- app_assoc. reflexivity.
Qed.

Lemma canon_acc_app : forall x y a, canon_acc a (x ++ y) = (mid <- canon_acc a x ;; canon_acc mid y).
Proof.
  induction x as [|d x IH]; intros y a; [reflexivity|]. cbn [app canon_acc].
  destruct (calc (a ++ [d]) (zlen a)); cbn [bind]; [apply IH|reflexivity].
Qed.

Lemma app_inj_tail_len {A} (a a' : list A) x y : a ++ [x] = a' ++ [y] -> a = a' /\ x = y.
Proof. apply app_inj_tail. Qed.

(* a prefix of a canonical store is canonical *)
Lemma iscanon_prefix : forall r, IsCanon r -> forall a b, r = a ++ b -> IsCanon a.
Proof.
  induction 1 as [|a0 d v Ha IH Hd Ev]; intros a b E.
  - destruct a; [constructor|discriminate].
  - destruct b as [|y b] using rev_ind.
    + rewrite app_nil_r in E. subst a. econstructor; eassumption.
    + clear IHb. rewrite app_assoc in E. apply app_inj_tail in E. destruct E as [E _]. eapply IH. exact E.
Qed.

Lemma iscanon_last a c : IsCanon (a ++ [c]) ->
  exists d v, fresh d /\ calc (a ++ [d]) (zlen a) = Ok v /\ c = setk d (rnd_ v).
Proof.
  intros H. inversion H as [E|a0 d v Ha Hd Ev E]; [destruct a; discriminate|].
  apply app_inj_tail in E. destruct E as [-> <-]. eauto.
Qed.

Lemma alist_set_idem {A} k (v : A) l : alist_set k v (alist_set k v l) = alist_set k v l.
Proof.
  induction l as [|[k' v'] l IH]; cbn; [rewrite String.eqb_refl; reflexivity|].
  destruct (String.eqb k k') eqn:E; cbn; rewrite ?String.eqb_refl, ?E; [reflexivity|rewrite IH; reflexivity].
Qed.
Lemma own_setk d v : own (setk d v) = alist_set nm v (own d).
Proof. unfold setk. unfold own, own_dict, with_own_dict. cbn [p]. destruct (i_sub NO I); reflexivity. Qed.
Lemma setk_idem d v : setk (setk d v) v = setk d v.
Proof.
  unfold setk at 1. rewrite own_setk, alist_set_idem. unfold setk. unfold with_own_dict, own, own_dict. cbn [t p].
  destruct (i_sub NO I); cbn [cur clean tagged inds subs]; reflexivity.
Qed.
Lemma rnd_none v : is_none NO (rnd_ v) = is_none NO v.
Proof. unfold rnd_, round_val. destruct v; reflexivity. Qed.

(* re-running the loop over an already canonical stretch changes nothing *)
Lemma loop_canon : forall (m a tail : store), IsCanon (a ++ m) ->
  leaf_loop (zrange (zlen a) (zlen a + zlen m)) (a ++ m ++ tail) = Ok (a ++ m ++ tail).
Proof.
  induction m as [|c m IH]; intros a tail Hc.
  - rewrite zrange_nil by (cbn; lia). reflexivity.
  - assert (L : zlen (c :: m) = 1 + zlen m) by (unfold zlen; cbn [List.length]; lia).
    pose proof (zlen_nonneg m).
    rewrite zrange_cons by lia. cbn [leaf_loop app]. rewrite pyidx_mid.
    assert (Hac : IsCanon (a ++ [c])).
    { eapply iscanon_prefix; [exact Hc|]. instantiate (1 := m). rewrite <- app_assoc. reflexivity. }
    destruct (iscanon_last a c Hac) as (d & v & Hd & Ev & Ec).
    assert (Next : leaf_loop (zrange (zlen a + 1) (zlen a + zlen (c :: m))) (a ++ c :: m ++ tail) = Ok (a ++ c :: m ++ tail)).
    { replace (a ++ c :: m ++ tail) with ((a ++ [c]) ++ m ++ tail) by (rewrite <- app_assoc; reflexivity).
      replace (zlen a + 1) with (zlen (a ++ [c])) by (rewrite zlen_snoc; lia).
      replace (zlen a + zlen (c :: m)) with (zlen (a ++ [c]) + zlen m) by (rewrite zlen_snoc; lia).
      apply IH. rewrite <- app_assoc. exact Hc. }
    rewrite Ec at 1. rewrite own_setk, alist_get_set_same.
    destruct (negb (is_none NO (rnd_ v))) eqn:Nn; [exact Next|].
    (* the stored reading is None: it is recomputed, to the same value *)
    assert (Ha : IsCanon a) by (eapply iscanon_prefix; [exact Hc|reflexivity]).
    pose proof (HC a d (Some (rnd_ v)) (m ++ tail) Ha Hd) as Hc1. cbn [slot] in Hc1. rewrite <- Ec in Hc1.
    rewrite Hc1. rewrite Ev. cbn [bind].
    rewrite set_reading_mid. cbn [bind]. rewrite Ec. rewrite setk_idem. rewrite <- Ec. exact Next.
Qed.


Lemma iscanon_has_key cs : IsCanon cs -> Forall (fun c => alist_mem nm (own c) = true) cs.
Proof.
  induction 1 as [|a d v Ha IH Hd Ev]; [constructor|]. apply Forall_app. split; [exact IH|].
  constructor; [|constructor]. unfold alist_mem. rewrite own_setk, alist_get_set_same. reflexivity.
Qed.

Lemma last_with_key_fresh_tail : forall (l : store) (new : list cd) i, Forall fresh new ->
  last_with_key NO I (l ++ new) i = last_with_key NO I l i.
Proof.
  induction l as [|c l IH]; intros new i Hf; cbn [app last_with_key].
  - revert i. induction Hf as [|d new Hd Hf IHf]; intros i; cbn [last_with_key]; [reflexivity|].
    rewrite IHf. unfold alist_mem. unfold fresh, own in Hd. rewrite Hd. reflexivity.
  - rewrite IH by assumption. reflexivity.
Qed.
Lemma last_with_key_bound : forall (l : store) i j, last_with_key NO I l i = Some j -> (i <= j < i + List.length l)%nat.
Proof.
  induction l as [|c l IH]; intros i j H; cbn [last_with_key] in H; [discriminate|].
  destruct (last_with_key NO I l (S i)) as [k|] eqn:E.
  - inversion H; subst. apply IH in E. cbn [List.length]. lia.
  - destruct (alist_mem nm (own_dict NO I (p c))); [|discriminate]. inversion H; subst. cbn [List.length]. lia.
Qed.

Lemma find_calc_index_canon cs new : IsCanon cs -> Forall fresh new ->
  (find_calc_index NO I (cs ++ new) <= List.length cs)%nat.
Proof.
  intros Hc Hf. destruct cs as [|c0 r].
  - cbn [app List.length]. rewrite find_calc_index_fresh by assumption. lia.
  - cbn [app find_calc_index]. destruct (negb (alist_mem nm (own_dict NO I (p c0)))); [lia|].
    rewrite last_with_key_fresh_tail by assumption.
    destruct (last_with_key NO I r 1) as [j|] eqn:E; [|lia].
    apply last_with_key_bound in E. cbn [List.length]. lia.
Qed.

(* calculate() after an append: canonical prefix, fresh candles behind it *)
Lemma append_aux (a m : store) (new : list cd) : IsCanon (a ++ m) -> Forall fresh new ->
  leaf_loop (zrange (zlen a) (zlen (a ++ m) + zlen new)) ((a ++ m) ++ new) = canon_acc (a ++ m) new.
Proof.
  intros Hc Hf. pose proof (zlen_nonneg a). pose proof (zlen_nonneg m). pose proof (zlen_nonneg new).
  rewrite (zrange_split (zlen a) (zlen (a ++ m))) by (rewrite zlen_app; lia).
  rewrite leaf_loop_app.
  assert (E1 : leaf_loop (zrange (zlen a) (zlen (a ++ m))) ((a ++ m) ++ new) = Ok ((a ++ m) ++ new)).
  { rewrite zlen_app. rewrite <- !app_assoc. apply loop_canon. exact Hc. }
  rewrite E1. cbn [bind]. apply loop_fresh; assumption.
Qed.

Theorem append_is_canon (cs : store) (new : list cd) : IsCanon cs -> Forall fresh new ->
  leaf_calculate (cs ++ new) = canon_acc cs new.
Proof.
  intros Hc Hf. unfold leaf_calculate.
  pose proof (find_calc_index_canon cs new Hc Hf) as Hs.
  set (s := find_calc_index NO I (cs ++ new)) in *. clearbody s.
  assert (L1 : List.length (firstn s cs) = s) by (rewrite firstn_length; lia).
  pose proof (firstn_skipn s cs) as Hcs.
  remember (firstn s cs) as a. remember (skipn s cs) as m. clear Heqa Heqm. subst cs.
  replace (Z.of_nat s) with (zlen a) by (unfold zlen; lia).
  rewrite (zlen_app (a ++ m) new). apply append_aux; assumption.
Qed.

(* any split of a stream into append chunks ends in the canonical store of the whole stream *)
Fixpoint run_chunks (st : store) (chunks : list (list cd)) : res store :=
  match chunks with
  | [] => Ok st
  | ch :: rest => st' <- leaf_calculate (st ++ ch) ;; run_chunks st' rest
  end.

Theorem schedule_independent : forall (chunks : list (list cd)) (cs : store), IsCanon cs ->
  Forall (Forall fresh) chunks -> run_chunks cs chunks = canon_acc cs (List.concat chunks).
Proof.
  induction chunks as [|ch chunks IH]; intros cs Hc Hf; [reflexivity|].
  inversion Hf as [|? ? Hch Hf']; subst. cbn [run_chunks List.concat].
  rewrite append_is_canon by assumption. rewrite canon_acc_app.
  destruct (canon_acc cs ch) as [mid|e] eqn:E; cbn [bind]; [|reflexivity].
  apply IH; [|exact Hf']. eapply canon_acc_iscanon; eassumption.
Qed.

Corollary incremental_equals_batch (chunks : list (list cd)) :
  Forall (Forall fresh) chunks -> run_chunks [] chunks = leaf_calculate (List.concat chunks).
Proof.
  intros Hf. rewrite schedule_independent by (try constructor; assumption).
  rewrite batch_is_canon; [reflexivity|].
  clear -Hf. induction Hf as [|ch chunks Hch Hf IH]; cbn [List.concat]; [constructor|apply Forall_app; split; assumption].
Qed.

(* no repainting: the canonical store of a longer stream extends that of the shorter one *)
Theorem prefix_stable (ds more : list cd) r : Forall fresh (ds ++ more) -> canon (ds ++ more) = Ok r ->
  exists mid tl, canon ds = Ok mid /\ r = mid ++ tl.
Proof.
  intros Hf H. unfold canon in *. rewrite canon_acc_app in H.
  destruct (canon_acc [] ds) as [mid|e] eqn:E; cbn [bind] in H; [|discriminate].
  apply Forall_app in Hf. destruct Hf as [Hd Hm].
  assert (Hmid : IsCanon mid) by (eapply canon_acc_iscanon; [constructor|exact Hd|exact E]).
  destruct (canon_acc_iscanon more mid r Hmid Hm H) as [_ [tl Etl]].
  exists mid, tl. split; [reflexivity|exact Etl].
Qed.

(* the same statements about the real engine entry point *)
Fixpoint engine_chunks (st : store) (chunks : list (list cd)) : res store :=
  match chunks with
  | [] => Ok st
  | ch :: rest => st' <- calculate NO I (st ++ ch) ;; engine_chunks st' rest
  end.
Lemma engine_chunks_leaf : forall chunks st, engine_chunks st chunks = run_chunks st chunks.
Proof.
  induction chunks as [|ch chunks IH]; intros st; [reflexivity|]. cbn [engine_chunks run_chunks].
  rewrite calculate_is_leaf. destruct (leaf_calculate (st ++ ch)); cbn [bind]; [apply IH|reflexivity].
Qed.
Theorem engine_incremental_equals_batch (chunks : list (list cd)) :
  Forall (Forall fresh) chunks -> engine_chunks [] chunks = calculate NO I (List.concat chunks).
Proof. intros H. rewrite engine_chunks_leaf, calculate_is_leaf. apply incremental_equals_batch. exact H. Qed.

Theorem engine_batch_is_canon (ds : list cd) : Forall fresh ds -> calculate NO I ds = canon ds.
Proof. intros H. rewrite calculate_is_leaf. apply batch_is_canon. exact H. Qed.

(* calling calculate() again changes nothing *)
Theorem calculate_idempotent (cs : store) : IsCanon cs -> leaf_calculate cs = Ok cs.
Proof.
  intros Hc. pose proof (append_is_canon cs [] Hc (Forall_nil _)) as H.
  rewrite app_nil_r in H. exact H.
Qed.

Theorem engine_calculate_idempotent (ds : list cd) st : Forall fresh ds ->
  calculate NO I ds = Ok st -> calculate NO I st = Ok st.
Proof.
  intros Hf H. rewrite engine_batch_is_canon in H by assumption. rewrite calculate_is_leaf.
  apply calculate_idempotent. eapply canon_acc_iscanon; [constructor|exact Hf|exact H].
Qed.

End Leaf.
