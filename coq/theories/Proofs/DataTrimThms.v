(* C15 clause 2 at the level of a whole calculate() for VWAP, StandardDeviation and RSI. *)
From Coq Require Import ZArith List String Ascii Bool Lia.
From Hexital Require Import Base.Prelude Base.Num Model.Manager Model.Candle Model.Readings Model.Analysis
  Model.Engine Proofs.ListProofs Proofs.EngineProofs Proofs.CausalProofs Proofs.TrimRun.
From Hexital Require Import Proofs.DataSlot Proofs.DataInst Proofs.DataThms Proofs.DataTrim Proofs.DataTrimInst.
Import ListNotations.
Local Open Scope string_scope.
Local Open Scope list_scope.
Local Open Scope Z_scope.

Section Thms.
Context (NO : NumOps).
Notation cd := (cd (payload NO)).
Notation store := (store NO).

(* how many retained candles the class needs behind a new one *)
Definition lookback_data (I : ind NO) : Z :=
  match i_kind NO I with
  | K_VWAP => 1
  | K_STDEV p _ => p
  | K_RSI p _ => p
  | _ => 0
  end.

Theorem data_calculate_after_trim (I : ind NO) (key : string) : data_node NO I key -> data_kind NO I key ->
  forall (pre S0 new : store),
  Forall (has_key NO I) pre -> Forall (has_key NO I) S0 -> (2 <= List.length S0)%nat -> lookback_data I <= zlen S0 ->
  Forall (fresh_data NO I) new ->
  calculate NO I ((pre ++ S0) ++ new) = (r <- calculate NO I (S0 ++ new) ;; Ok (pre ++ r)).
Proof.
  intros (Hs & Hm & Ht & Hd & Ha) Hk pre S0 new Hpre HS HL HW Hf. unfold lookback_data in HW.
  destruct Hk as [[K Hkey]|[(period & input & K & Hkey & Hp & HiI & HiM)|(period & input & K & Hkey & Hp & HiI & HiM)]]; rewrite K in HW.
  - eapply (calculate_after_trimD NO I (dataM NO I) Hs (G NO I) (vwapD NO I)) with (W := 1); try eassumption.
    + intros f a c rest Hg. eapply vwap_shape; first [eassumption | split; assumption].
    + intros p0 a c Hw. apply vwapD_loc. exact Hw.
  - eapply (calculate_after_trimD NO I (dataM NO I) Hs (G NO I) (stdevD NO I period input)) with (W := period); try eassumption.
    + intros f a c rest Hg. eapply stdev_shape; first [eassumption | split; assumption].
    + intros p0 a c Hw. apply stdevD_loc; assumption.
  - eapply (calculate_after_trimD NO I (dataM NO I) Hs (G NO I) (rsiD NO I period input)) with (W := period); try eassumption.
    + intros f a c rest Hg. eapply rsi_shape; first [eassumption | split; assumption].
    + intros p0 a c Hw. apply rsiD_loc; assumption.
Qed.
End Thms.
