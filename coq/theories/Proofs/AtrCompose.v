(* ATR over its own true-range series: the composite theorem instantiated.
   P = a top-level ATR(period), S = its helper TR series "<name>_TR". *)
From Coq Require Import ZArith List String Ascii Bool Lia ZifyBool.
From Hexital Require Import Base.Prelude Base.Num Model.Manager Model.Candle Model.Readings Model.Analysis
  Model.Engine Proofs.ListProofs Proofs.EngineProofs Proofs.AnalysisProofs Proofs.CausalProofs Proofs.SimProofs Proofs.CompositeProofs.

Import ListNotations.
Local Open Scope Z_scope.

Section ATR.
Context (NO : NumOps).
Notation val := (val NO).
Notation cd := (cd (payload NO)).
Notation store := (store NO).
Variable period : Z.
Variable name : string.
Variable rnd : Z.
Hypothesis Hperiod : 1 <= period.
Hypothesis Hnodot : has_dot name = false.

Definition Pa : ind NO := top NO (K_ATR period) name rnd.
Definition Sb : ind NO := sub_ NO K_TR (name ++ "_TR") true [] [].

Lemma Pa_subs : i_subs NO Pa = [Sb]. Proof. reflexivity. Qed.
Lemma Pa_man : i_managed NO Pa = []. Proof. reflexivity. Qed.

(* the helper's name is not the parent's *)
Lemma append_neq (s t : string) : t <> EmptyString -> (s ++ t)%string <> s.
Proof.
  intros Ht E. assert (L : String.length (s ++ t) = String.length s) by (rewrite E; reflexivity).
  assert (La : forall a b, String.length (a ++ b) = (String.length a + String.length b)%nat).
  { induction a; intros b; cbn; [reflexivity|rewrite IHa; reflexivity]. }
  rewrite La in L. destruct t; [congruence|cbn in L; lia].
Qed.
Lemma has_dot_app (s t : string) : has_dot (s ++ t) = has_dot s || has_dot t.
Proof. induction s as [|c s IH]; cbn; [reflexivity|]. rewrite IH. destruct (Ascii.eqb c "."%char); reflexivity. Qed.
Lemma tr_name_stable : stable NO Pa (name ++ "_TR").
Proof.
  apply stable_root. unfold root. rewrite split_dot_nodot by (rewrite has_dot_app, Hnodot; reflexivity).
  cbn [fst]. change (i_name NO Pa) with name. apply append_neq. discriminate.
Qed.

(* the parent's reading function is pure and causal *)
Lemma atr_pure rec st i : calc_reading NO rec Pa st i = (v <- pure_calc NO Pa st i ;; Ok (v, st)).
Proof.
  unfold pure_calc, calc_reading. change (i_kind NO Pa) with (@K_ATR NO period). change (i_name NO Pa) with name.
  destruct (prev_exists NO st name i) as [[|]|]; cbn [bind]; try reflexivity.
  - destruct (prev_reading NO st name i); cbn [bind]; [|reflexivity].
    destruct (as_num NO _); cbn [bind]; [|reflexivity].
    destruct (rnum NO st _ i); cbn [bind]; [|reflexivity]. destruct (divn NO _ _); reflexivity.
  - destruct (rperiod NO st period _ i) as [[|]|]; cbn [bind]; try reflexivity.
    destruct (csum NO st period _ i); cbn [bind]; [|reflexivity].
    destruct (as_num NO _); cbn [bind]; [|reflexivity]. destruct (divn NO _ _); reflexivity.
Qed.
Lemma atr_causal : Causal NO Pa (pure_calc NO Pa).
Proof.
  intros a d x rest _ Hd. unfold pure_calc, calc_reading. change (i_kind NO Pa) with (@K_ATR NO period). change (i_name NO Pa) with name.
  rewrite (prev_exists_slot_mid NO Pa), !(prev_reading_slot_mid NO Pa).
  rewrite (rnum_stable_mid NO Pa a rest d x _ tr_name_stable).
  rewrite (rperiod_mid NO Pa a rest d x _ period tr_name_stable Hperiod).
  destruct (prev_exists NO (a ++ [d]) name (zlen a)) as [[|]|]; cbn [bind]; try reflexivity.
  - destruct (prev_reading NO (a ++ [d]) name (zlen a)); cbn [bind]; [|reflexivity].
    destruct (as_num NO _); cbn [bind]; [|reflexivity].
    destruct (rnum NO (a ++ [d]) _ (zlen a)); cbn [bind]; [|reflexivity]. destruct (divn NO _ _); reflexivity.
  - destruct (rperiod NO (a ++ [d]) period _ (zlen a)) as [[|]|] eqn:Rp; cbn [bind]; try reflexivity.
    apply rperiod_true_bound in Rp.
    rewrite (csum_mid NO Pa a rest d x _ period tr_name_stable Hperiod Rp).
    destruct (csum NO (a ++ [d]) period _ (zlen a)); cbn [bind]; [|reflexivity].
    destruct (as_num NO _); cbn [bind]; [|reflexivity]. destruct (divn NO _ _); reflexivity.
Qed.

(* the helper does not see the parent's entries: it reads high, low, close only *)
Lemma deco_sim (c c0 : cd) : decoP NO Pa c c0 -> sim NO (reads NO K_TR (name ++ "_TR")) c c0.
Proof.
  intros [x ->]. split.
  - destruct x; [|reflexivity]. cbn [slot]. unfold setk, with_own_dict. cbn [p]. reflexivity.
  - intros n Hn. cbn [reads In] in Hn. destruct Hn as [<-|[<-|[<-|[]]]].
    + apply (stable_high NO Pa).
    + apply (stable_low NO Pa).
    + apply (stable_close NO Pa).
Qed.
Lemma tr_indep (a a0 : store) (d d0 : cd) : Forall2 (decoP NO Pa) a a0 -> decoP NO Pa d d0 ->
  pure_calc NO Sb (a ++ [d]) (zlen a) = pure_calc NO Sb (a0 ++ [d0]) (zlen a0).
Proof.
  intros HD Hd. rewrite (decoP_len NO Pa a a0 HD). apply reads_only; [reflexivity|].
  apply Forall2_app; [|constructor; [apply deco_sim; exact Hd|constructor]].
  clear -HD Hnodot. induction HD; constructor; [apply deco_sim; assumption|assumption].
Qed.

(* any split of a stream into append chunks ends in exactly the store one calculate() over the
   whole stream gives, whenever that calculate() succeeds *)
Theorem atr_incremental_equals_batch (chunks : list (list cd)) (r : store) :
  Forall (Forall (fresh NO Pa)) chunks -> Forall (Forall (fresh NO Sb)) chunks ->
  calculate NO Pa (List.concat chunks) = Ok r -> engine_chunks NO Pa [] chunks = Ok r.
Proof.
  intros HP HS Hr.
  eapply (composite_incremental_equals_batch NO Pa Sb) with (calcP := pure_calc NO Pa) (calcS := pure_calc NO Sb); try eassumption.
  all: try reflexivity.
  all: try (split; reflexivity).
  - exact atr_pure.
  - exact (tr_pure NO Sb eq_refl).
  - exact atr_causal.
  - exact (tr_causal NO Sb eq_refl).
  - exact tr_indep.
Qed.

Theorem atr_batch_is_causal (ds more : list cd) (r : store) :
  Forall (fresh NO Pa) (ds ++ more) -> Forall (fresh NO Sb) (ds ++ more) -> calculate NO Pa (ds ++ more) = Ok r ->
  exists mid tl, calculate NO Pa ds = Ok mid /\ r = mid ++ tl.
Proof.
  intros HP HS Hr.
  eapply (composite_batch_is_causal NO Pa Sb) with (calcP := pure_calc NO Pa) (calcS := pure_calc NO Sb); try eassumption.
  all: try reflexivity.
  all: try (split; reflexivity).
  - exact atr_pure.
  - exact (tr_pure NO Sb eq_refl).
  - exact atr_causal.
  - exact (tr_causal NO Sb eq_refl).
Qed.

Theorem atr_calculate_idempotent (xs : list cd) (st : store) :
  Forall (fresh NO Pa) xs -> Forall (fresh NO Sb) xs -> calculate NO Pa xs = Ok st -> calculate NO Pa st = Ok st.
Proof.
  intros HP HS Hr.
  eapply (composite_calculate_idempotent NO Pa Sb) with (calcP := pure_calc NO Pa) (calcS := pure_calc NO Sb); try eassumption.
  all: try reflexivity.
  all: try (split; reflexivity).
  - exact atr_pure.
  - exact (tr_pure NO Sb eq_refl).
  - exact atr_causal.
  - exact (tr_causal NO Sb eq_refl).
  - exact tr_indep.
Qed.
End ATR.
