(* Locality of the three reading functions: with W candles of history behind the candle, a
   trimmed prefix is not looked at (VWAP: 1 candle; StandardDeviation and RSI: `period` candles). *)
From Coq Require Import ZArith List String Ascii Bool Lia ZifyBool.
From Hexital Require Import Base.Prelude Base.Num Model.Manager Model.Candle Model.Readings Model.Analysis
  Model.Engine Proofs.ListProofs Proofs.EngineProofs Proofs.AnalysisProofs Proofs.CausalProofs Proofs.CausalMore
  Proofs.TrimProofs Proofs.TrimRun.
From Hexital Require Import Proofs.DataSlot Proofs.DataInst Proofs.DataTrim.
Import ListNotations.
Local Open Scope string_scope.
Local Open Scope list_scope.
Local Open Scope Z_scope.

Section Loc.
Context (NO : NumOps).
Notation val := (val NO).
Notation cd := (cd (payload NO)).
Notation store := (store NO).
Variable I : ind NO.
Notation nm := (i_name NO I).

Ltac zl := rewrite ?zlen_app; repeat match goal with |- context [zlen [?c]] => change (zlen [c]) with 1 end;
  repeat match goal with |- context [zlen ?l] => lazymatch goal with H : 0 <= zlen l |- _ => fail | _ => pose proof (zlen_nonneg l) end end; lia.

Lemma rnum_here (pre a : store) (c : cd) n :
  rnum NO ((pre ++ a) ++ [c]) n (zlen (pre ++ a)) = rnum NO (a ++ [c]) n (zlen a).
Proof. rewrite <- app_assoc. rewrite (rnum_skip NO pre (a ++ [c])) by zl. f_equal. zl. Qed.
Lemma reading_here (pre a : store) (c : cd) n :
  reading NO ((pre ++ a) ++ [c]) n (zlen (pre ++ a)) = reading NO (a ++ [c]) n (zlen a).
Proof. rewrite <- app_assoc. rewrite (reading_skip NO pre (a ++ [c])) by zl. f_equal. zl. Qed.
Lemma prev_reading_here (pre a : store) (c : cd) n : 1 <= zlen a ->
  prev_reading NO ((pre ++ a) ++ [c]) n (zlen (pre ++ a)) = prev_reading NO (a ++ [c]) n (zlen a).
Proof. intros Ha. rewrite <- app_assoc. rewrite (prev_reading_skip NO pre (a ++ [c])) by zl. f_equal. zl. Qed.
Lemma prev_exists_here (pre a : store) (c : cd) n : 1 <= zlen a ->
  prev_exists NO ((pre ++ a) ++ [c]) n (zlen (pre ++ a)) = prev_exists NO (a ++ [c]) n (zlen a).
Proof. intros Ha. unfold prev_exists. rewrite prev_reading_here by exact Ha. reflexivity. Qed.
Lemma rperiod_here (pre a : store) (c : cd) n p0 : 1 <= p0 -> p0 - 1 <= zlen a ->
  rperiod NO ((pre ++ a) ++ [c]) p0 n (zlen (pre ++ a)) = rperiod NO (a ++ [c]) p0 n (zlen a).
Proof. intros Hp Ha. rewrite <- app_assoc. rewrite (rperiod_skip NO pre (a ++ [c])) by zl. f_equal. zl. Qed.
Lemma rnum_back_here (pre a : store) (c : cd) n j : 0 <= j <= zlen a ->
  rnum NO ((pre ++ a) ++ [c]) n (zlen (pre ++ a) - j) = rnum NO (a ++ [c]) n (zlen a - j).
Proof. intros Hj. rewrite <- app_assoc. rewrite (rnum_skip NO pre (a ++ [c])) by zl. f_equal. zl. Qed.

Lemma vwapD_loc (pre a : store) (c : cd) : 1 <= zlen a -> vwapD NO I (pre ++ a) c = vwapD NO I a c.
Proof.
  intros Ha. unfold vwapD.
  apply bind_ext; [apply rnum_here|intros h]. apply bind_ext; [apply rnum_here|intros l]. apply bind_ext; [apply rnum_here|intros cl].
  apply bind_ext; [reflexivity|intros tp]. apply bind_ext; [apply prev_exists_here; exact Ha|intros pe].
  apply bind_ext; [|intros pp; apply bind_ext; [apply rnum_here|intros vv; reflexivity]].
  destruct pe; [|reflexivity].
  apply bind_ext; [apply prev_reading_here; exact Ha|intros x]. apply bind_ext; [reflexivity|intros xn].
  apply bind_ext; [apply prev_reading_here; exact Ha|intros y]. reflexivity.
Qed.

Lemma stdevD_loc (period : Z) (input : string) (pre a : store) (c : cd) : 1 <= period -> period <= zlen a ->
  stdevD NO I period input (pre ++ a) c = stdevD NO I period input a c.
Proof.
  intros Hp Ha. unfold stdevD.
  apply bind_ext; [apply reading_here|intros xv]. destruct (is_none NO xv); [reflexivity|].
  apply bind_ext; [reflexivity|intros x].
  apply bind_ext; [apply rperiod_here; lia|intros rp].
  apply bind_ext; [destruct rp; [apply rnum_back_here; pose proof (zlen_nonneg a); lia|reflexivity]|intros removed].
  apply bind_ext; [apply prev_reading_here; lia|intros pm]. apply bind_ext; [reflexivity|intros om].
  apply bind_ext; [reflexivity|intros dd]. apply bind_ext; [apply prev_reading_here; lia|intros pvv]. reflexivity.
Qed.

Lemma rsiD_loc (period : Z) (input : string) (pre a : store) (c : cd) : 1 <= period -> period <= zlen a ->
  rsiD NO I period input (pre ++ a) c = rsiD NO I period input a c.
Proof.
  intros Hp Ha. unfold rsiD, rsiW.
  apply bind_ext.
  - apply bind_ext; [apply prev_exists_here; lia|intros pe]. destruct pe.
    + apply bind_ext; [apply prev_reading_here; lia|intros pv]. apply bind_ext; [reflexivity|intros px].
      apply bind_ext; [apply rnum_here|intros x].
      apply bind_ext; [apply prev_reading_here; lia|intros pg]. apply bind_ext; [reflexivity|intros pgn].
      apply bind_ext; [apply prev_reading_here; lia|intros pl]. reflexivity.
    + apply bind_ext; [apply rperiod_here; lia|intros rp]. destruct rp; [|reflexivity].
      apply bind_ext; [|intros ch; reflexivity].
      rewrite (zlen_app pre a).
      replace (zrange (zlen pre + zlen a - (period - 1)) (zlen pre + zlen a + 1))
        with (map (fun j => zlen pre + j) (zrange (zlen a - (period - 1)) (zlen a + 1))).
      2:{ replace (zlen pre + zlen a - (period - 1)) with (zlen pre + (zlen a - (period - 1))) by lia.
          replace (zlen pre + zlen a + 1) with (zlen pre + (zlen a + 1)) by lia. symmetry. apply zrange_shift_up. }
      rewrite <- app_assoc.
      generalize (in_zrange (zlen a - (period - 1)) (zlen a + 1)).
      generalize (zrange (zlen a - (period - 1)) (zlen a + 1)). intros l Hl.
      induction l as [|j l IHl]; cbn [map mapM]; [reflexivity|].
      assert (Hj : zlen a - (period - 1) <= j < zlen a + 1) by (apply Hl; left; reflexivity).
      pose proof (zlen_nonneg pre).
      rewrite (rnum_skip NO pre (a ++ [c]) input (zlen pre + j)) by lia.
      rewrite (rnum_skip NO pre (a ++ [c]) input (zlen pre + j - 1)) by lia.
      replace (zlen pre + j - zlen pre) with j by lia. replace (zlen pre + j - 1 - zlen pre) with (j - 1) by lia.
      rewrite IHl by (intros y Hy; apply Hl; right; exact Hy). reflexivity.
  - intros w. destruct w as [[g l]|]; [reflexivity|].
    apply bind_ext; [apply reading_here|intros dv]. destruct (truthy NO dv); [|reflexivity].
    apply bind_ext; [apply rnum_here|intros g]. apply bind_ext; [apply rnum_here|intros l]. reflexivity.
Qed.
End Loc.
