(* C15, second clause, at the level of whole runs: an indicator without helper series whose
   earlier candles were trimmed away computes, on the retained candles and on everything
   appended later, exactly the readings (or the exception) of the same run without trimming -
   as long as the class's look-back (plus the candle the resume index re-visits) is retained.
   No canonicity is needed: the loop of calculate() on the retained list mirrors the loop on the
   untrimmed list index by index, because every reading function looks back a bounded number of
   candles (trim_invariant). *)
From Coq Require Import ZArith List String Bool Lia ZifyBool.
From Hexital Require Import Base.Prelude Base.Num Model.Manager Model.Candle Model.Readings Model.Analysis Model.Engine
  Proofs.ListProofs Proofs.EngineProofs Proofs.CausalProofs Proofs.TrimProofs.
From Hexital Require Import Proofs.TrimWin.
Import ListNotations.
Local Open Scope Z_scope.

Section TrimRun.
Context (NO : NumOps).
Notation val := (val NO).
Notation payload := (payload NO).
Notation cd := (cd payload).
Notation store := (store NO).
Variable I : ind NO.
Variable W : Z.
Notation calc := (pure_calc NO I).
(* the reading function looks back at most W candles *)
Hypothesis HW0 : 0 <= W.
Hypothesis Hloc : forall (pre st : store) i, zlen pre + W <= i < zlen (pre ++ st) ->
  calc (pre ++ st) i = calc st (i - zlen pre).
Notation nm := (i_name NO I).
Notation leaf_loop := (leaf_loop NO I calc).
Notation leaf_calculate := (leaf_calculate NO I calc).
Definition has_key (c : cd) : Prop := alist_mem nm (own_dict NO I (p c)) = true.

Lemma W_nonneg : 0 <= W. Proof. exact HW0. Qed.

Lemma set_reading_skip (pre st : store) v i : zlen pre <= i ->
  set_reading NO (pre ++ st) I v i = (st' <- set_reading NO st I v (i - zlen pre) ;; Ok (pre ++ st')).
Proof.
  intros Hi. pose proof (zlen_nonneg pre) as Hk. pose proof (zlen_nonneg st) as Hs.
  unfold set_reading, nat_index. rewrite zlen_app.
  assert (E1 : (0 <=? i) = true) by lia. assert (E2 : (0 <=? i - zlen pre) = true) by lia. rewrite E1, E2. cbn [andb].
  destruct (i <? zlen pre + zlen st) eqn:B.
  - assert (B' : (i - zlen pre <? zlen st) = true) by lia. rewrite B'.
    assert (EN : Z.to_nat i = (List.length pre + Z.to_nat (i - zlen pre))%nat) by (unfold zlen in *; lia).
    rewrite EN. rewrite nth_error_app2 by lia. replace (List.length pre + Z.to_nat (i - zlen pre) - List.length pre)%nat with (Z.to_nat (i - zlen pre)) by lia.
    destruct (nth_error st (Z.to_nat (i - zlen pre))) as [c|] eqn:En; cbn [bind]; [|reflexivity]. f_equal.
    unfold list_set. rewrite nth_error_app2 by lia.
    replace (List.length pre + Z.to_nat (i - zlen pre) - List.length pre)%nat with (Z.to_nat (i - zlen pre)) by lia. rewrite En.
    rewrite firstn_app, firstn_all2 by lia.
    replace (List.length pre + Z.to_nat (i - zlen pre) - List.length pre)%nat with (Z.to_nat (i - zlen pre)) by lia.
    rewrite <- app_assoc. f_equal. f_equal. f_equal.
    replace (S (List.length pre + Z.to_nat (i - zlen pre))) with (List.length pre + S (Z.to_nat (i - zlen pre)))%nat by lia.
    rewrite skipn_app. rewrite skipn_all2 by lia. cbn [app].
    replace (List.length pre + S (Z.to_nat (i - zlen pre)) - List.length pre)%nat with (S (Z.to_nat (i - zlen pre))) by lia. reflexivity.
  - assert (B' : (i - zlen pre <? zlen st) = false) by lia. rewrite B'.
    assert (N1 : (i <? 0) = false) by lia. assert (N2 : (i - zlen pre <? 0) = false) by lia. rewrite N1, N2. reflexivity.
Qed.

Lemma set_reading_zlen (st st' : store) v i : set_reading NO st I v i = Ok st' -> zlen st' = zlen st.
Proof.
  unfold set_reading. destruct (nat_index NO st i) as [k|]; [|discriminate]. destruct (nth_error st k) as [c|] eqn:E; [|discriminate].
  intros H. inversion H; subst. unfold zlen. f_equal. unfold list_set. rewrite E.
  assert (Hk : (k < List.length st)%nat) by (apply nth_error_Some; congruence).
  rewrite app_length, firstn_length. cbn [List.length]. rewrite skipn_length. lia.
Qed.

(* the loop on the retained list mirrors the loop on the whole list *)
Lemma leaf_loop_skip (pre : store) : forall (idxs : list Z) (st : store),
  Forall (fun i => W <= i < zlen st) idxs ->
  leaf_loop (map (fun i => zlen pre + i) idxs) (pre ++ st) = (st' <- leaf_loop idxs st ;; Ok (pre ++ st')).
Proof.
  induction idxs as [|i idxs IH]; intros st Hi; cbn [map EngineProofs.leaf_loop]; [reflexivity|].
  inversion Hi as [|? ? Hi1 Hi2]; subst. pose proof (zlen_nonneg pre) as Hk. pose proof W_nonneg as HWn.
  rewrite (pyidx_skip NO pre st) by lia. replace (zlen pre + i - zlen pre) with i by lia.
  destruct (pyidx st i) as [c|]; [|reflexivity].
  destruct (match alist_get nm (own NO I c) with Some v => negb (is_none NO v) | None => false end).
  - apply IH. exact Hi2.
  - rewrite (Hloc pre st (zlen pre + i)) by (rewrite zlen_app; lia).
    replace (zlen pre + i - zlen pre) with i by lia.
    destruct (calc st i) as [v|e]; cbn [bind]; [|reflexivity].
    rewrite set_reading_skip by lia. replace (zlen pre + i - zlen pre) with i by lia.
    destruct (set_reading NO st I (rnd_ NO I v) i) as [st1|e] eqn:Es; cbn [bind]; [|reflexivity].
    apply IH. rewrite (set_reading_zlen _ _ _ _ Es). exact Hi2.
Qed.

(* the resume index of the whole list is the resume index of the retained list, shifted *)
Lemma last_with_key_shift : forall (l : store) i k, last_with_key NO I l (k + i) = option_map (fun j => (k + j)%nat) (last_with_key NO I l i).
Proof.
  induction l as [|c l IH]; intros i k; cbn [last_with_key option_map]; [reflexivity|].
  replace (S (k + i)) with (k + S i)%nat by lia. rewrite IH.
  destruct (last_with_key NO I l (S i)); cbn [option_map]; [reflexivity|].
  destruct (alist_mem nm (own_dict NO I (p c))); reflexivity.
Qed.
Lemma last_with_key_app_some : forall (pre st : store) i j, last_with_key NO I st (i + List.length pre) = Some j ->
  last_with_key NO I (pre ++ st) i = Some j.
Proof.
  induction pre as [|c pre IH]; intros st i j H; cbn [app last_with_key List.length] in *.
  - replace (i + 0)%nat with i in H by lia. exact H.
  - rewrite (IH st (S i) j); [reflexivity|]. replace (S i + List.length pre)%nat with (i + S (List.length pre))%nat by lia. exact H.
Qed.

Definition two_keyed (st : store) : Prop :=
  match st with c0 :: c1 :: _ => has_key c0 /\ has_key c1 | _ => False end.

Lemma find_calc_index_shift (pre st : store) : Forall has_key pre -> two_keyed st ->
  find_calc_index NO I (pre ++ st) = (List.length pre + find_calc_index NO I st)%nat.
Proof.
  intros Hpre Hst. destruct st as [|c0 [|c1 st']]; try contradiction. destruct Hst as [Hc0 Hc1]. unfold has_key in Hc0, Hc1.
  destruct pre as [|p0 pre']; [reflexivity|]. inversion Hpre as [|? ? Hp0 Hpre']; subst. unfold has_key in Hp0.
  cbn [app find_calc_index]. rewrite Hp0, Hc0. cbn [negb].
  (* the last candle with the key lies in c1 :: st' *)
  assert (E : exists j, last_with_key NO I (c1 :: st') 1 = Some j).
  { cbn [last_with_key]. destruct (last_with_key NO I st' 2); [eexists; reflexivity|]. rewrite Hc1. eexists; reflexivity. }
  destruct E as (j & Ej). rewrite Ej.
  pose proof (last_with_key_shift (c1 :: st') 1 (S (List.length pre'))) as Hs. rewrite Ej in Hs. cbn [option_map] in Hs.
  assert (Hs' : last_with_key NO I (c0 :: c1 :: st') (1 + List.length pre') = Some (S (List.length pre') + j)%nat).
  { cbn [last_with_key]. replace (S (1 + List.length pre')) with (S (List.length pre') + 1)%nat by lia.
    change (last_with_key NO I (c1 :: st') (S (List.length pre') + 1)) with (last_with_key NO I (c1 :: st') (S (List.length pre') + 1)).
    cbn [last_with_key] in Hs. rewrite Hs. reflexivity. }
  rewrite (last_with_key_app_some pre' (c0 :: c1 :: st') 1 _ Hs'). cbn [List.length]. lia.
Qed.

Lemma zrange_shift_up a b k : zrange (k + a) (k + b) = map (fun i => k + i) (zrange a b).
Proof. unfold zrange. rewrite map_map. replace (k + b - (k + a)) with (b - a) by lia. apply map_ext. intros x. lia. Qed.

Lemma zrange_bounds a b : Forall (fun i => a <= i < b) (zrange a b).
Proof. unfold zrange. apply Forall_forall. intros x Hx. apply in_map_iff in Hx. destruct Hx as (j & <- & Hj). apply in_seq in Hj. lia. Qed.

(* the theorem: [pre] was trimmed away, [st] is what the manager holds now (retained candles,
   possibly followed by new ones) *)
Theorem trimmed_run (pre st : store) :
  Forall has_key pre -> two_keyed st ->
  W <= Z.of_nat (find_calc_index NO I st) ->
  leaf_calculate (pre ++ st) = (st' <- leaf_calculate st ;; Ok (pre ++ st')).
Proof.
  intros Hpre Hst HWs. unfold EngineProofs.leaf_calculate.
  rewrite (find_calc_index_shift pre st Hpre Hst). rewrite zlen_app.
  replace (Z.of_nat (List.length pre + find_calc_index NO I st)) with (zlen pre + Z.of_nat (find_calc_index NO I st)) by (unfold zlen; lia).
  rewrite zrange_shift_up. apply leaf_loop_skip.
  eapply Forall_impl; [|apply zrange_bounds]. intros i Hi. cbn beta in Hi. lia.
Qed.


(* in the shape the manager produces: retained calculated candles followed by new raw ones *)
Lemma last_with_key_all : forall (l : store) i, Forall has_key l -> l <> [] ->
  last_with_key NO I l i = Some (i + List.length l - 1)%nat.
Proof.
  induction l as [|c l IH]; intros i Hl Hne; [congruence|]. inversion Hl as [|? ? Hc Hl']; subst. unfold has_key in Hc.
  cbn [last_with_key List.length]. destruct l as [|c' l'].
  - cbn [last_with_key List.length]. rewrite Hc. f_equal. lia.
  - rewrite (IH (S i) Hl'); [|discriminate]. f_equal. cbn [List.length]. lia.
Qed.

Lemma find_calc_index_keyed (S new : store) : Forall has_key S -> (2 <= List.length S)%nat -> Forall (fresh NO I) new ->
  find_calc_index NO I (S ++ new) = List.length S.
Proof.
  intros HS HL Hf. destruct S as [|c0 [|c1 S']]; cbn [List.length] in HL; try lia.
  inversion HS as [|? ? Hc0 HS']; subst. unfold has_key in Hc0.
  cbn [app find_calc_index]. rewrite Hc0. cbn [negb].
  change (c1 :: S' ++ new) with ((c1 :: S') ++ new). rewrite (last_with_key_fresh_tail NO I (c1 :: S') new 1 Hf).
  rewrite (last_with_key_all (c1 :: S') 1 HS'); [|discriminate]. cbn [List.length]. lia.
Qed.

Hypothesis Hleaf : i_subs NO I = [] /\ i_managed NO I = [].
Hypothesis Hpure : forall rec st i, calc_reading NO rec I st i = (v <- calc st i ;; Ok (v, st)).

Theorem calculate_after_trim (pre S new : store) :
  Forall has_key pre -> Forall has_key S -> (2 <= List.length S)%nat -> W <= zlen S -> Forall (fresh NO I) new ->
  calculate NO I ((pre ++ S) ++ new) = (r <- calculate NO I (S ++ new) ;; Ok (pre ++ r)).
Proof.
  intros Hpre HS HL HWS Hf. rewrite !(calculate_is_leaf NO I Hleaf calc Hpure). rewrite <- app_assoc.
  apply trimmed_run; [exact Hpre| |].
  - destruct S as [|c0 [|c1 S']]; cbn [List.length] in HL; try lia. cbn [app two_keyed].
    inversion HS as [|? ? H0 HS']; subst. inversion HS' as [|? ? H1 _]; subst. split; assumption.
  - rewrite (find_calc_index_keyed S new HS HL Hf). unfold zlen in HWS. exact HWS.
Qed.

End TrimRun.

(* the two families of classes for which the locality hypothesis is proved *)
Section TrimRunKinds.
Context (NO : NumOps).
Variable I : ind NO.
Hypothesis Hleaf : i_subs NO I = [] /\ i_managed NO I = [].
Hypothesis Hpure : forall rec st i, calc_reading NO rec I st i = (v <- pure_calc NO I st i ;; Ok (v, st)).

Theorem calculate_after_trim_rec (W : Z) (pre S new : store NO) :
  lookback NO (i_kind NO I) = Some W -> period_ok NO (i_kind NO I) ->
  Forall (has_key NO I) pre -> Forall (has_key NO I) S -> (2 <= List.length S)%nat -> W <= zlen S -> Forall (fresh NO I) new ->
  calculate NO I ((pre ++ S) ++ new) = (r <- calculate NO I (S ++ new) ;; Ok (pre ++ r)).
Proof.
  intros HW Hp. apply (calculate_after_trim NO I W).
  - destruct (i_kind NO I); cbn [lookback period_ok] in HW, Hp; inversion HW; subst; lia.
  - intros p0 st i Hi. exact (trim_invariant NO I p0 st i W HW Hp Hi).
  - exact Hleaf.
  - exact Hpure.
Qed.

Theorem calculate_after_trim_win (W : Z) (pre S new : store NO) :
  lookback_win NO (i_kind NO I) = Some W -> period_ok_win NO (i_kind NO I) ->
  Forall (has_key NO I) pre -> Forall (has_key NO I) S -> (2 <= List.length S)%nat -> W <= zlen S -> Forall (fresh NO I) new ->
  calculate NO I ((pre ++ S) ++ new) = (r <- calculate NO I (S ++ new) ;; Ok (pre ++ r)).
Proof.
  intros HW Hp. apply (calculate_after_trim NO I W).
  - destruct (i_kind NO I); cbn [lookback_win period_ok_win] in HW, Hp; inversion HW; subst; lia.
  - intros p0 st i Hi. exact (trim_invariant_win NO I p0 st i W HW Hp Hi).
  - exact Hleaf.
  - exact Hpure.
Qed.
End TrimRunKinds.
