(* Engine theorems for the indicators with one managed helper series (VWAP, StandardDeviation, RSI):
   Proofs/DataSlot.v instantiated with the obligations of Proofs/DataInst.v. *)
From Coq Require Import ZArith List String Ascii Bool Lia.
From Hexital Require Import Base.Prelude Base.Num Model.Manager Model.Candle Model.Readings Model.Analysis
  Model.Engine Proofs.ListProofs Proofs.EngineProofs Proofs.CausalProofs Proofs.CollapseProofs Proofs.ComposeProofs.
From Hexital Require Import Proofs.CausalMore.
From Hexital Require Import Proofs.DataSlot Proofs.DataInst.
Import ListNotations.
Local Open Scope string_scope.
Local Open Scope list_scope.
Local Open Scope Z_scope.

Section Thms.
Context (NO : NumOps).
Notation cd := (cd (payload NO)).
Notation store := (store NO).

(* the shape of the indicator node: no sub-indicators, one managed helper "<name>_data", readings
   in candle.indicators, and a helper name that is an ordinary dictionary key *)
Definition data_node (I : ind NO) (key : string) : Prop :=
  i_subs NO I = [] /\ i_managed NO I = [(key, dataM NO I)] /\ i_sub NO I = false /\
  has_dot (i_name NO I ++ "_data")%string = false /\ (forall q, candle_attr NO q (i_name NO I ++ "_data")%string = None).

Definition data_kind (I : ind NO) (key : string) : Prop :=
  (i_kind NO I = K_VWAP /\ key = "VWAP_data") \/
  (exists period input, i_kind NO I = K_STDEV period input /\ key = "STDEV_data" /\ 1 <= period /\
     stable NO I input /\ stable NO (dataM NO I) input) \/
  (exists period input, i_kind NO I = K_RSI period input /\ key = "RSI_data" /\ 1 <= period /\
     stable NO I input /\ stable NO (dataM NO I) input).

(* a candle that carries neither the indicator's reading nor its helper's, and no top-level entry
   under the helper's name: any raw candle, and any candle decorated by unrelated indicators *)
Definition fresh_data (I : ind NO) (c : cd) : Prop := freshD NO I (dataM NO I) (G NO I) c.

Lemma obligations (I : ind NO) (key : string) : data_node I key -> data_kind I key ->
  exists D : store -> cd -> res (val NO * option (val NO)),
    (forall f a c rest, IsCanonD NO I (dataM NO I) (G NO I) D a -> G NO I c ->
       calc_reading NO (run NO (S f)) I (a ++ c :: rest) (zlen a) =
       (r <- D a c ;; Ok (fst r, a ++ slot NO (dataM NO I) c (snd r) :: rest))) /\
    (forall a d r, IsCanonD NO I (dataM NO I) (G NO I) D a -> fresh_data I d -> D a d = Ok r ->
       D a (deco NO I (dataM NO I) d r) = Ok r).
Proof.
  intros (Hs & Hm & Ht & Hd & Ha) Hk. destruct Hk as [[K Hkey]|[(period & input & K & Hkey & Hp & HiI & HiM)|(period & input & K & Hkey & Hp & HiI & HiM)]].
  - exists (vwapD NO I). split.
    + intros f a c rest _ Hg. eapply vwap_shape; first [eassumption | split; assumption].
    + intros a d r _ _ Er. unfold deco. rewrite vwapD_deco; first [exact Er | assumption | split; assumption].
  - exists (stdevD NO I period input). split.
    + intros f a c rest _ Hg. eapply stdev_shape; first [eassumption | split; assumption].
    + intros a d r _ _ Er. unfold deco. rewrite (stdevD_deco NO I (conj Hd Ha) period input Hp HiI HiM). exact Er.
  - exists (rsiD NO I period input). split.
    + intros f a c rest _ Hg. eapply rsi_shape; first [eassumption | split; assumption].
    + intros a d r _ (_ & HfM & Hg) Er. unfold deco. eapply rsi_recomp; first [eassumption | split; assumption].
Qed.

Section WithNode.
Variables (I : ind NO) (key : string).
Hypothesis Hnode : data_node I key.
Hypothesis Hkind : data_kind I key.

Let Hs : i_subs NO I = [] := proj1 Hnode.
Let Hn : i_name NO I <> i_name NO (dataM NO I) := Hname NO I.
Let Hg : forall d w v, G NO I d -> G NO I (setk NO I (slot NO (dataM NO I) d w) v) :=
  G_pres NO I.

(* C01: any split of a stream into append chunks = one calculate() over the whole stream *)
Theorem data_incremental_equals_batch (chunks : list (list cd)) :
  Forall (Forall (fresh_data I)) chunks -> engine_chunks NO I [] chunks = calculate NO I (List.concat chunks).
Proof.
  destruct (obligations I key Hnode Hkind) as (D & Hshape & Hrec).
  eapply incremental_equals_batchD with (D := D) (G := G NO I) (M := dataM NO I); eassumption.
Qed.

(* C02: one calculate() over a longer stream extends the result over the shorter one *)
Theorem data_batch_is_causal (ds more : list cd) r : Forall (fresh_data I) (ds ++ more) ->
  calculate NO I (ds ++ more) = Ok r -> exists mid tl, calculate NO I ds = Ok mid /\ r = mid ++ tl.
Proof.
  destruct (obligations I key Hnode Hkind) as (D & Hshape & Hrec).
  eapply batch_is_causalD with (D := D) (G := G NO I) (M := dataM NO I); eassumption.
Qed.

(* C02: appending never changes an already calculated candle *)
Theorem data_append_keeps_prefix (ds new : list cd) st r : Forall (fresh_data I) ds -> Forall (fresh_data I) new ->
  calculate NO I ds = Ok st -> calculate NO I (st ++ new) = Ok r -> exists tl, r = st ++ tl.
Proof.
  destruct (obligations I key Hnode Hkind) as (D & Hshape & Hrec).
  eapply append_keeps_prefixD with (D := D) (G := G NO I) (M := dataM NO I); eassumption.
Qed.

(* C14: calling calculate() again changes nothing *)
Theorem data_calculate_idempotent (ds : list cd) st : Forall (fresh_data I) ds ->
  calculate NO I ds = Ok st -> calculate NO I st = Ok st.
Proof.
  destruct (obligations I key Hnode Hkind) as (D & Hshape & Hrec).
  eapply calculate_idempotentD with (D := D) (G := G NO I) (M := dataM NO I); eassumption.
Qed.

(* C14: recalculate() - purge() then calculate() - reproduces exactly the store it replaced,
   readings and helper series alike *)
Theorem data_recalculate_reproduces (ds : list cd) st : Forall (fresh_data I) ds ->
  calculate NO I ds = Ok st -> calculate NO I (purge NO I st) = Ok st.
Proof.
  destruct (obligations I key Hnode Hkind) as (D & Hshape & Hrec). intros Hf H.
  assert (Hc : IsCanonD NO I (dataM NO I) (G NO I) D st).
  { rewrite (batch_is_canonD NO I (dataM NO I) Hs (G NO I) D Hshape ds Hf) in H.
    eapply canonD_acc_iscanon; [constructor|exact Hf|exact H]. }
  assert (Hm : i_managed NO I = [(key, dataM NO I)]) by exact (proj1 (proj2 Hnode)).
  assert (Ht : i_sub NO I = false) by exact (proj1 (proj2 (proj2 Hnode))).
  assert (Hml : i_subs NO (dataM NO I) = [] /\ i_managed NO (dataM NO I) = []) by (split; reflexivity).
  assert (Hms : i_sub NO (dataM NO I) = true) by reflexivity.
  eapply recalculate_reproducesD with (D := D) (G := G NO I) (M := dataM NO I) (key := key); eassumption.
Qed.

(* C14: recomputing an index that already holds a reading, addressed from either end, leaves the
   store as it is *)
Theorem data_calc_index_reproduces (ds : list cd) st (i : Z) : Forall (fresh_data I) ds ->
  calculate NO I ds = Ok st -> - zlen st <= i < zlen st -> calculate_index NO I i None st = Ok st.
Proof.
  destruct (obligations I key Hnode Hkind) as (D & Hshape & Hrec). intros Hf H Hi.
  assert (Hc : IsCanonD NO I (dataM NO I) (G NO I) D st).
  { rewrite (batch_is_canonD NO I (dataM NO I) Hs (G NO I) D Hshape ds Hf) in H.
    eapply canonD_acc_iscanon; [constructor|exact Hf|exact H]. }
  eapply calc_index_reproducesD with (D := D) (G := G NO I) (M := dataM NO I); try eassumption;
    [exact (proj1 (proj2 (proj2 Hnode)))|reflexivity].
Qed.

(* operation programs on one such indicator; calculate_index is taken right after a calculate()
   (every reading and every predecessor is then computed - the property's proviso) *)
Inductive data_reach : store -> list cd -> Prop :=
| DR_init : data_reach [] []
| DR_append st ds new st' : data_reach st ds -> Forall (fresh_data I) new -> calculate NO I (st ++ new) = Ok st' -> data_reach st' (ds ++ new)
| DR_calculate st ds st' : data_reach st ds -> calculate NO I st = Ok st' -> data_reach st' ds
| DR_purge st ds : data_reach st ds -> data_reach (purge NO I st) ds
| DR_recalculate st ds st' : data_reach st ds -> calculate NO I (purge NO I st) = Ok st' -> data_reach st' ds
| DR_calc_index st0 ds st i st' : data_reach st0 ds -> calculate NO I st0 = Ok st -> - zlen st <= i < zlen st ->
    calculate_index NO I i None st = Ok st' -> data_reach st' ds.

(* after any such program, calculate() gives exactly what one calculate() over all the candles
   appended so far gives - the same store, or the same exception *)
Theorem data_programs_converge st ds : data_reach st ds -> calculate NO I st = calculate NO I ds.
Proof.
  destruct (obligations I key Hnode Hkind) as (D & Hshape & Hrec). intros HR.
  assert (Hm : i_managed NO I = [(key, dataM NO I)]) by exact (proj1 (proj2 Hnode)).
  assert (Ht : i_sub NO I = false) by exact (proj1 (proj2 (proj2 Hnode))).
  assert (Hml : i_subs NO (dataM NO I) = [] /\ i_managed NO (dataM NO I) = []) by (split; reflexivity).
  assert (Hms : i_sub NO (dataM NO I) = true) by reflexivity.
  eapply programs_convergeD with (D := D) (G := G NO I) (M := dataM NO I) (key := key); try eassumption.
  induction HR as [|st ds new st' _ IH Hnew H|st ds st' _ IH H|st ds _ IH|st ds st' _ IH H|st0 ds st i st' _ IH H0 Hi H].
  - constructor.
  - eapply RD_append; eassumption.
  - eapply RD_calculate; eassumption.
  - apply RD_purge. exact IH.
  - eapply RD_recalculate; eassumption.
  - eapply RD_calc_index; [eapply RD_calculate; [exact IH|exact H0]| |exact Hi|exact H].
    assert (HJ : JD NO I (dataM NO I) (G NO I) D st0 ds).
    { eapply reachD_JD with (key := key); eassumption. }
    destruct HJ as [Hf [E|[Hc0 _]]].
    + subst st0. rewrite (batch_is_canonD NO I (dataM NO I) Hs (G NO I) D Hshape ds Hf) in H0.
      eapply canonD_acc_iscanon; [constructor|exact Hf|exact H0].
    + assert (E : calculate NO I st0 = Ok st0).
      { eapply calculate_canonD with (D := D) (G := G NO I) (M := dataM NO I); eassumption. }
      rewrite E in H0. inversion H0; subst. exact Hc0.
Qed.

(* C07: after k candles are appended to a calculated indicator with two or more candles of
   history, calculate() - which is the instrumented loop - makes exactly k _calculate_reading
   invocations, whatever the length of the history *)
Theorem data_one_reading_per_appended_candle (ds new : list cd) st r : Forall (fresh_data I) ds ->
  calculate NO I ds = Ok st -> (2 <= List.length st)%nat -> Forall (fresh_data I) new ->
  calculate NO I (st ++ new) = Ok r ->
  loop_steps NO I 13 (zrange (Z.of_nat (find_calc_index NO I (st ++ new))) (zlen (st ++ new))) (st ++ new) = Ok (List.length new, r) /\
  calculate NO I (st ++ new) =
    ('(_, r') <- loop_steps NO I 13 (zrange (Z.of_nat (find_calc_index NO I (st ++ new))) (zlen (st ++ new))) (st ++ new) ;; Ok r').
Proof.
  destruct (obligations I key Hnode Hkind) as (D & Hshape & Hrec). intros Hf H Hl Hnew Hr.
  assert (Hc : IsCanonD NO I (dataM NO I) (G NO I) D st).
  { rewrite (batch_is_canonD NO I (dataM NO I) Hs (G NO I) D Hshape ds Hf) in H.
    eapply canonD_acc_iscanon; [constructor|exact Hf|exact H]. }
  split.
  - eapply append_stepsD with (D := D) (G := G NO I) (M := dataM NO I); eassumption.
  - eapply calculate_is_loop_steps; eassumption.
Qed.

(* C01 on a collapsing timeframe: the indicator's candles are the collapse of a raw stream.  After
   the stream so far (xs) its store is Dst - the canonical decoration of resample tf xs; appending
   ys re-collapses Dst ++ ys (calculated buckets followed by raw candles, what CandleManager.append
   does) and calculates: the result is the batch result over the resampled whole stream (a bucket
   that takes in a candle is rebuilt by merge, which resets readings and helper entries) *)
Theorem data_append_on_timeframe (tf : Z) (xs ys : list cd) (Dst : store) :
  0 < tf -> sorted (payload NO) (xs ++ ys) -> Forall (fresh_data I) (xs ++ ys) ->
  calculate NO I (resample (payload NO) (Candle.merge NO) tf xs) = Ok Dst ->
  exists Mst, collapse (payload NO) (Candle.merge NO) tf (Dst ++ ys) = Ok Mst /\
              calculate NO I Mst = calculate NO I (resample (payload NO) (Candle.merge NO) tf (xs ++ ys)).
Proof.
  destruct (obligations I key Hnode Hkind) as (D & Hshape & Hrec). intros Htf Hsrt Hf HD.
  assert (Hgm : forall ts a b, G NO I {| t := ts; p := Candle.merge NO a b |}) by (intros; apply G_merged).
  assert (Hgt : forall ts (c : cd), G NO I c -> G NO I {| t := ts; p := p c |}) by (intros ts c H; exact H).
  assert (FR : forall zs, Forall (fresh_data I) zs -> Forall (fresh_data I) (resample (payload NO) (Candle.merge NO) tf zs)).
  { intros zs Hz. unfold resample. eapply resample_acc_freshD with (G := G NO I) (M := dataM NO I); try eassumption; constructor. }
  pose proof Hf as Hf2. apply Forall_app in Hf2. destruct Hf2 as [Hfx Hfy].
  rewrite (batch_is_canonD NO I (dataM NO I) Hs (G NO I) D Hshape _ (FR xs Hfx)) in HD.
  rewrite (batch_is_canonD NO I (dataM NO I) Hs (G NO I) D Hshape _ (FR (xs ++ ys) Hf)).
  eapply append_on_timeframeD with (D := D) (G := G NO I) (M := dataM NO I); eassumption.
Qed.

(* C02 on a collapsing timeframe: every bucket but the last (still open) one keeps its readings *)
Theorem data_closed_buckets_final (tf : Z) (xs ys : list cd) (Dst D' : store) :
  0 < tf -> Forall (fresh_data I) (xs ++ ys) ->
  calculate NO I (resample (payload NO) (Candle.merge NO) tf xs) = Ok Dst ->
  calculate NO I (resample (payload NO) (Candle.merge NO) tf (xs ++ ys)) = Ok D' ->
  exists tl, D' = removelast Dst ++ tl.
Proof.
  destruct (obligations I key Hnode Hkind) as (D & Hshape & Hrec). intros Htf Hf HD HD'.
  assert (Hgm : forall ts a b, G NO I {| t := ts; p := Candle.merge NO a b |}) by (intros; apply G_merged).
  assert (Hgt : forall ts (c : cd), G NO I c -> G NO I {| t := ts; p := p c |}) by (intros ts c H; exact H).
  assert (FR : forall zs, Forall (fresh_data I) zs -> Forall (fresh_data I) (resample (payload NO) (Candle.merge NO) tf zs)).
  { intros zs Hz. unfold resample. eapply resample_acc_freshD with (G := G NO I) (M := dataM NO I); try eassumption; constructor. }
  pose proof Hf as Hf2. apply Forall_app in Hf2. destruct Hf2 as [Hfx Hfy].
  rewrite (batch_is_canonD NO I (dataM NO I) Hs (G NO I) D Hshape _ (FR xs Hfx)) in HD.
  rewrite (batch_is_canonD NO I (dataM NO I) Hs (G NO I) D Hshape _ (FR (xs ++ ys) Hf)) in HD'.
  eapply closed_buckets_finalD with (D := D) (M := dataM NO I) (tf := tf) (xs := xs) (ys := ys); eassumption.
Qed.
End WithNode.

(* the top-level indicators built by the model's constructor have this shape *)
Lemma top_vwap_node name rnd : has_dot name = false -> (forall q, candle_attr NO q (name ++ "_data")%string = None) ->
  data_node (top NO K_VWAP name rnd) "VWAP_data".
Proof. intros Hd Ha. repeat split; try reflexivity; [cbn [top children i_name]; rewrite has_dot_app, Hd; reflexivity|exact Ha]. Qed.
Lemma top_stdev_node period input name rnd : has_dot name = false -> (forall q, candle_attr NO q (name ++ "_data")%string = None) ->
  data_node (top NO (K_STDEV period input) name rnd) "STDEV_data".
Proof. intros Hd Ha. repeat split; try reflexivity; [cbn [top children i_name]; rewrite has_dot_app, Hd; reflexivity|exact Ha]. Qed.
Lemma top_rsi_node period input name rnd : has_dot name = false -> (forall q, candle_attr NO q (name ++ "_data")%string = None) ->
  data_node (top NO (K_RSI period input) name rnd) "RSI_data".
Proof. intros Hd Ha. repeat split; try reflexivity; [cbn [top children i_name]; rewrite has_dot_app, Hd; reflexivity|exact Ha]. Qed.

End Thms.
