(* Candle management never looks at readings: collapse, gap filling, Heikin-Ashi conversion
   and trimming of two candle lists that agree on timestamps, values, clean values and tags
   give lists that agree again (and raise alike).  Stated first for the abstract manager of
   Model/Manager.v and any relation on payloads that merge and the fill constructor respect. *)
From Coq Require Import ZArith List Bool Lia.
From Hexital Require Import Base.Prelude Base.Num Model.Manager Model.Candle.
Import ListNotations.
Local Open Scope Z_scope.

Section Generic.
Variable P : Type.
Variable merge : P -> P -> P.
Variable fillp : P -> P.
Variable RP : P -> P -> Prop.
Hypothesis merge_rel : forall a a' b b', RP a a' -> RP b b' -> RP (merge a b) (merge a' b').
Hypothesis fillp_rel : forall a a', RP a a' -> RP (fillp a) (fillp a').
Notation cd := (cd P).

Definition RC (c c' : cd) : Prop := t c = t c' /\ RP (p c) (p c').
Definition RL : list cd -> list cd -> Prop := Forall2 RC.
Definition RR (r r' : res (list cd)) : Prop :=
  match r, r' with Ok l, Ok l' => RL l l' | Err e, Err e' => e = e' | _, _ => False end.

Lemma RL_rev l l' : RL l l' -> RL (rev l) (rev l').
Proof.
  intros H; induction H as [|x y l l' Hxy H IH]; cbn [rev]; [constructor|].
  apply Forall2_app; [exact IH|constructor; [exact Hxy|constructor]].
Qed.

Lemma RL_length l l' : RL l l' -> List.length l = List.length l'.
Proof. intros H; induction H; cbn [List.length]; congruence. Qed.

Lemma collapse_loop_rel tf : forall l l' start end_ acc acc', RL l l' -> RL acc acc' ->
  RR (collapse_loop P merge tf start end_ acc l) (collapse_loop P merge tf start end_ acc' l').
Proof.
  intros l l' start end_ acc acc' Hl; revert start end_ acc acc'.
  induction Hl as [|c c' l l' Hc Hl IH]; intros start end_ acc acc' Ha; cbn [collapse_loop].
  - apply RL_rev. exact Ha.
  - destruct Ha as [|pr pr' acc acc' Hp Ha]; [reflexivity|].
    destruct Hc as [Ht Hpc]. destruct Hp as [Htp Hpp]. rewrite <- Ht, <- Htp.
    assert (HM : RC {| t := t pr; p := merge (p pr) (p c) |} {| t := t pr; p := merge (p pr') (p c') |})
      by (split; cbn [t p]; [reflexivity|apply merge_rel; assumption]).
    assert (HK : forall ts, RC {| t := ts; p := p c |} {| t := ts; p := p c' |})
      by (intros ts; split; cbn [t p]; [reflexivity|exact Hpc]).
    assert (HA : RL (pr :: acc) (pr' :: acc')) by (constructor; [split; assumption|exact Ha]).
    destruct ((start <? t c) && (t c <=? end_) && (t pr =? end_)).
    { apply IH. constructor; [exact HM|exact Ha]. }
    destruct ((start <? t c) && (t c <=? end_)).
    { apply IH. constructor; [apply HK|exact HA]. }
    destruct ((start - tf <? t c) && (t c <=? start) && (t pr =? start)).
    { apply IH. constructor; [exact HM|exact Ha]. }
    destruct ((end_ <? t c) && (t c <=? end_ + tf)).
    { apply IH. constructor; [apply HK|exact HA]. }
    destruct ((start <? t c) && on_tf (t c) tf).
    { apply IH. constructor; [apply HK|exact HA]. }
    destruct (end_ + tf <? t c).
    { apply IH. constructor; [apply HK|exact HA]. }
    reflexivity.
Qed.

Lemma collapse_rel tf l l' : RL l l' -> RR (collapse P merge tf l) (collapse P merge tf l').
Proof.
  intros H. destruct H as [|c c' l l' Hc H]; cbn [collapse]; [constructor|].
  destruct Hc as [Ht Hp]. rewrite <- Ht. apply collapse_loop_rel; [exact H|].
  constructor; [|constructor]. destruct (on_tf (t c) tf); split; cbn [t p]; assumption || reflexivity.
Qed.

Lemma fill_run_rel tf : forall n pr pr', RC pr pr' -> RL (fill_run P fillp n tf pr) (fill_run P fillp n tf pr').
Proof.
  induction n as [|n IH]; intros pr pr' [Ht Hp]; cbn [fill_run]; [constructor|].
  assert (RC {| t := t pr + tf; p := fillp (p pr) |} {| t := t pr' + tf; p := fillp (p pr') |}).
  { split; cbn [t p]; [congruence|apply fillp_rel; exact Hp]. }
  constructor; [assumption|]. apply IH. assumption.
Qed.

Lemma fill_from_rel tf : forall l l' pr pr', RL l l' -> RC pr pr' ->
  RR (fill_from P fillp tf pr l) (fill_from P fillp tf pr' l').
Proof.
  intros l l' pr pr' Hl; revert pr pr'. induction Hl as [|c c' l l' Hc Hl IH]; intros pr pr' Hp; cbn [fill_from]; [constructor|].
  pose proof Hc as [Ht _]. pose proof Hp as [Htp _]. rewrite <- Ht, <- Htp.
  destruct ((t pr <? t c) && ((t c - t pr) mod tf =? 0)); [|reflexivity].
  specialize (IH c c' Hc).
  destruct (fill_from P fillp tf c l) as [r|e], (fill_from P fillp tf c' l') as [r'|e']; cbn [RR bind] in *; try contradiction; [|exact IH].
  apply Forall2_app; [apply fill_run_rel; exact Hp|]. constructor; assumption.
Qed.

Lemma fill_rel tf l l' : RL l l' -> RR (fill P fillp tf l) (fill P fillp tf l').
Proof.
  intros H. destruct H as [|c c' l l' Hc H]; cbn [fill]; [constructor|].
  pose proof (fill_from_rel tf l l' c c' H Hc) as HF.
  destruct (fill_from P fillp tf c l) as [r|e], (fill_from P fillp tf c' l') as [r'|e']; cbn [RR bind] in *; try contradiction; [|exact HF].
  constructor; assumption.
Qed.

Lemma collapse_candles_rel tfo fo l l' : RL l l' ->
  RR (collapse_candles P merge fillp tfo fo l) (collapse_candles P merge fillp tfo fo l').
Proof.
  intros H. unfold collapse_candles. destruct tfo as [tf|]; [|exact H].
  pose proof (collapse_rel tf l l' H) as HC.
  destruct (collapse P merge tf l) as [r|e], (collapse P merge tf l') as [r'|e']; cbn [RR bind] in *; try contradiction; [|exact HC].
  destruct fo; [apply fill_rel; exact HC|exact HC].
Qed.

Lemma drop_older_rel b : forall l l', RL l l' -> RL (drop_older P b l) (drop_older P b l').
Proof.
  intros l l' H; induction H as [|c c' l l' Hc H IH]; cbn [drop_older]; [constructor|].
  pose proof Hc as [Ht _]. rewrite <- Ht. destruct (t c <? b); [exact IH|constructor; assumption].
Qed.

Lemma trim_rel ls l l' : RL l l' -> RL (trim P ls l) (trim P ls l').
Proof.
  intros H. unfold trim. destruct ls as [ls|]; [|exact H].
  pose proof (RL_rev l l' H) as HR. destruct HR as [|x y r r' [Ht _] _]; [exact H|].
  rewrite <- Ht. apply drop_older_rel. exact H.
Qed.

End Generic.

(* ---- the concrete payload: any reflexive relation that implies agreement on the values, clean
   values and tag (the readings are then free to differ in whatever way the relation allows) ---- *)
Section Concrete.
Context (NO : NumOps).
Notation payload := (payload NO).
Notation cd := (cd payload).

Definition same_data (a b : payload) : Prop :=
  cur NO a = cur NO b /\ clean NO a = clean NO b /\ tagged NO a = tagged NO b.

Lemma same_data_refl a : same_data a a.
Proof. repeat split. Qed.
Lemma recovered_same a b : same_data a b -> recovered NO a = recovered NO b.
Proof. intros (A & B & C). unfold recovered. rewrite A, B. reflexivity. Qed.

Section Rel.
Variable RP : payload -> payload -> Prop.
Hypothesis RP_data : forall a b, RP a b -> same_data a b.
Hypothesis RP_refl : forall a, RP a a.
Notation QL := (RL payload RP).
Notation QR := (RR payload RP).

Lemma QL_refl (l : list cd) : QL l l.
Proof. induction l; constructor; [split; [reflexivity|apply RP_refl]|assumption]. Qed.

Lemma merge_rel_gen a a' b b' : RP a a' -> RP b b' -> RP (merge NO a b) (merge NO a' b').
Proof.
  intros Ha Hb. apply RP_data in Ha. apply RP_data in Hb. destruct Hb as (Hb & _).
  unfold merge. rewrite (recovered_same _ _ Ha), Hb. apply RP_refl.
Qed.
Lemma fillp_rel_gen a a' : RP a a' -> RP (fillp NO a) (fillp NO a').
Proof. intros Ha. apply RP_data in Ha. unfold fillp. rewrite (recovered_same _ _ Ha). apply RP_refl. Qed.

Lemma last_tagged_rel : forall (l l' : list cd) i, QL l l' -> last_tagged NO l i = last_tagged NO l' i.
Proof.
  intros l l' i H; revert i. induction H as [|c c' l l' [_ Hc] H IH]; intros i; cbn [last_tagged]; [reflexivity|].
  apply RP_data in Hc. destruct Hc as (_ & _ & Hc). rewrite IH, Hc. reflexivity.
Qed.
Lemma find_conv_index_rel (l l' : list cd) : QL l l' -> find_conv_index NO l = find_conv_index NO l'.
Proof.
  intros H. unfold find_conv_index. pose proof (last_tagged_rel l l' 0%nat H) as HL.
  destruct H as [|c c' l l' [_ Hc] H]; [reflexivity|]. apply RP_data in Hc. destruct Hc as (_ & _ & Hc). rewrite Hc, HL. reflexivity.
Qed.

Lemma convert_from_rel : forall (todo todo' done done' : list cd), QL todo todo' -> QL done done' ->
  QL (convert_from NO done todo) (convert_from NO done' todo').
Proof.
  intros todo todo' done done' H; revert done done'.
  induction H as [|c c' l l' [Ht Hc] H IH]; intros done done' Hd; cbn [convert_from].
  - apply RL_rev. exact Hd.
  - apply IH. constructor; [|exact Hd]. split; cbn [t p]; [exact Ht|].
    apply RP_data in Hc. destruct Hc as (Hc & _).
    assert (E : option_map (cur NO) match done with [] => None | d :: _ => Some (p d) end =
                option_map (cur NO) match done' with [] => None | d :: _ => Some (p d) end).
    { destruct Hd as [|d d' ? ? [_ Hdd] _]; cbn [option_map]; [reflexivity|]. apply RP_data in Hdd. destruct Hdd as (Hdc & _). congruence. }
    unfold convert_one. rewrite Hc, E. apply RP_refl.
Qed.

Lemma QL_firstn k : forall (l l' : list cd), QL l l' -> QL (firstn k l) (firstn k l').
Proof. induction k as [|k IH]; intros l l' H; cbn [firstn]; [constructor|]. destruct H; [constructor|constructor; [assumption|apply IH; assumption]]. Qed.
Lemma QL_skipn k : forall (l l' : list cd), QL l l' -> QL (skipn k l) (skipn k l').
Proof. induction k as [|k IH]; intros l l' H; cbn [skipn]; [exact H|]. destruct H; [constructor|apply IH; assumption]. Qed.

Lemma convert_rel (l l' : list cd) : QL l l' -> QL (convert NO l) (convert NO l').
Proof.
  intros H. unfold convert. rewrite <- (find_conv_index_rel l l' H).
  apply convert_from_rel; [apply QL_skipn; exact H|apply RL_rev, QL_firstn; exact H].
Qed.

(* the whole _tasks pipeline, and append *)
Theorem tasks_rel cfg (l l' : list cd) : QL l l' -> QR (tasks NO cfg l) (tasks NO cfg l').
Proof.
  intros H. unfold tasks.
  pose proof (collapse_candles_rel payload (merge NO) (fillp NO) RP merge_rel_gen fillp_rel_gen (tf cfg) (fillon cfg) l l' H) as HC.
  destruct (collapse_candles payload (merge NO) (fillp NO) (tf cfg) (fillon cfg) l) as [r|e],
           (collapse_candles payload (merge NO) (fillp NO) (tf cfg) (fillon cfg) l') as [r'|e']; cbn [RR bind] in *; try contradiction; [|exact HC].
  apply trim_rel. destruct (ha cfg); [apply convert_rel; exact HC|exact HC].
Qed.

Theorem mgr_append_rel cfg (st st' new : list cd) : QL st st' -> QR (mgr_append NO cfg st new) (mgr_append NO cfg st' new).
Proof.
  intros H. unfold mgr_append. destruct new as [|n new]; [exact H|].
  apply tasks_rel. apply Forall2_app; [exact H|apply QL_refl].
Qed.
End Rel.

(* the instance used for the candles themselves: agreement on everything but the readings *)
Notation DL := (RL payload same_data).
Notation DR := (RR payload same_data).
Lemma DL_refl (l : list cd) : DL l l.
Proof. apply QL_refl. exact same_data_refl. Qed.
Theorem tasks_same cfg (l l' : list cd) : DL l l' -> DR (tasks NO cfg l) (tasks NO cfg l').
Proof. apply tasks_rel; [auto|exact same_data_refl]. Qed.
Theorem mgr_append_same cfg (st st' new : list cd) : DL st st' -> DR (mgr_append NO cfg st new) (mgr_append NO cfg st' new).
Proof. apply mgr_append_rel; [auto|exact same_data_refl]. Qed.

End Concrete.
