(* The engine theorem for indicators that keep their state in one managed helper series
   ("<name>_data": RSI, VWAP, StandardDeviation): _calculate_reading computes a value and, on
   the way, writes the helper's slot of the same candle through Managed.set_reading.  The
   faithful calculate() loop - resume index, skip-if-present, two in-place writes per candle -
   computes the canonical semantics [canonD] (candle i is decorated from the canonical prefix
   and its own raw content), in one batch and under any sequence of appends alike.

   The per-indicator obligation is a *shape* equation: on a store  a ++ c :: rest  the reading
   at index |a| is a function D of the prefix and of the candle, the only effect is the helper
   slot of c, and nothing behind c is looked at.  Re-computation of a stored None reading must
   reproduce it (Hrecomp). *)
From Coq Require Import ZArith List String Bool Lia ZifyBool.
From Hexital Require Import Base.Prelude Base.Num Model.Manager Model.Candle Model.Readings Model.Analysis
  Model.Engine Proofs.ListProofs Proofs.EngineProofs.
Import ListNotations.
Local Open Scope Z_scope.

Section DataSlot.
Context (NO : NumOps).
Notation val := (val NO).
Notation payload := (payload NO).
Notation cd := (cd payload).
Notation store := (store NO).

Variables I M : ind NO.
Hypothesis HIsubs : i_subs NO I = [].
Hypothesis Hname : i_name NO I <> i_name NO M.

Notation nmI := (i_name NO I).
Notation nmM := (i_name NO M).
Notation setkI := (setk NO I).
Notation setkM := (setk NO M).
Notation slotM := (slot NO M).
Notation freshI := (fresh NO I).
Notation freshM := (fresh NO M).
Notation rndI := (rnd_ NO I).

(* a side condition on candles kept by both writes (e.g. "no top-level entry is called like the helper") *)
Variable G : cd -> Prop.
Hypothesis HG : forall d w v, G d -> G (setkI (slotM d w) v).

Definition freshD (c : cd) : Prop := freshI c /\ freshM c /\ G c.

Variable D : store -> cd -> res (val * option val).

Definition deco (d : cd) (r : val * option val) : cd := setkI (slotM d (snd r)) (rndI (fst r)).

Fixpoint canonD_acc (done : store) (todo : list cd) : res store :=
  match todo with
  | [] => Ok done
  | d :: todo' => r <- D done d ;; canonD_acc (done ++ [deco d r]) todo'
  end.
Definition canonD (ds : list cd) : res store := canonD_acc [] ds.

Inductive IsCanonD : store -> Prop :=
| ICD_nil : IsCanonD []
| ICD_snoc a d r : IsCanonD a -> freshD d -> D a d = Ok r -> IsCanonD (a ++ [deco d r]).

Hypothesis Hshape : forall f (a : store) (c : cd) (rest : store), IsCanonD a -> G c ->
  calc_reading NO (run NO (S f)) I (a ++ c :: rest) (zlen a) =
  (r <- D a c ;; Ok (fst r, a ++ slotM c (snd r) :: rest)).
Hypothesis Hrecomp : forall (a : store) (d : cd) r, IsCanonD a -> freshD d -> D a d = Ok r ->
  is_none NO (rndI (fst r)) = true -> D a (deco d r) = Ok r.

(* ---------------------------------------------------------------- slots *)
Lemma getM_setkI d v : alist_get nmM (own NO M (setkI d v)) = alist_get nmM (own NO M d).
Proof.
  unfold EngineProofs.setk, EngineProofs.own, own_dict, with_own_dict. cbn [p].
  destruct (i_sub NO I), (i_sub NO M); cbn [inds subs]; try reflexivity;
    apply alist_get_set_other; exact Hname.
Qed.
Lemma getI_setkM d v : alist_get nmI (own NO I (setkM d v)) = alist_get nmI (own NO I d).
Proof.
  unfold EngineProofs.setk, EngineProofs.own, own_dict, with_own_dict. cbn [p].
  destruct (i_sub NO I), (i_sub NO M); cbn [inds subs]; try reflexivity;
    apply alist_get_set_other; intros E; apply Hname; symmetry; exact E.
Qed.
Lemma getI_slotM d w : alist_get nmI (own NO I (slotM d w)) = alist_get nmI (own NO I d).
Proof. destruct w; [apply getI_setkM|reflexivity]. Qed.

Lemma alist_set_same_get {A} k (v : A) l : alist_get k l = Some v -> alist_set k v l = l.
Proof.
  induction l as [|[k' v'] l IH]; cbn; [discriminate|].
  destruct (String.eqb k k') eqn:E; [intros H; inversion H; subst; apply String.eqb_eq in E; subst; reflexivity|].
  intros H. rewrite IH by exact H. reflexivity.
Qed.
Lemma setk_same (J : ind NO) (c : cd) v : alist_get (i_name NO J) (own NO J c) = Some v -> setk NO J c v = c.
Proof.
  intros H. unfold EngineProofs.setk. rewrite (alist_set_same_get _ _ _ H).
  unfold EngineProofs.own, own_dict, with_own_dict. destruct c as [tc q]. cbn [t p]. f_equal.
  destruct q; destruct (i_sub NO J); reflexivity.
Qed.
Lemma slotM_deco d r : slotM (deco d r) (snd r) = deco d r.
Proof.
  unfold deco. destruct (snd r) as [w|]; cbn [EngineProofs.slot]; [|reflexivity].
  apply setk_same. rewrite getM_setkI. rewrite own_setk. apply alist_get_set_same.
Qed.
Lemma getI_deco d r : alist_get nmI (own NO I (deco d r)) = Some (rndI (fst r)).
Proof. unfold deco. rewrite own_setk. apply alist_get_set_same. Qed.
Lemma G_deco d r : G d -> G (deco d r).
Proof. intros H. apply HG. exact H. Qed.

(* ---------------------------------------------------------------- the loop *)
Notation loop f := (calc_loop NO (run NO (S (S f))) I).

Lemma loop_app f : forall l1 l2 st, loop f (l1 ++ l2) true st = (st' <- loop f l1 true st ;; loop f l2 true st').
Proof.
  induction l1 as [|i l1 IH]; intros l2 st; [reflexivity|]. cbn [app calc_loop].
  destruct (pyidx st i) as [c|]; cbn [bind]; [|reflexivity].
  destruct (match alist_get nmI (own_dict NO I (p c)) with Some v => negb (is_none NO v) | None => false end); [apply IH|].
  destruct (run NO (S (S f)) (RReading NO i) I st) as [[v st1]|]; cbn [bind]; [|reflexivity].
  destruct (set_reading NO st1 I _ i); cbn [bind]; [apply IH|reflexivity].
Qed.

Lemma zlen_cons {A} (x : A) l : zlen (x :: l) = 1 + zlen l.
Proof. unfold zlen. cbn [List.length]. lia. Qed.

(* one not-yet-present candle *)
Lemma loop_step f (a : store) (c : cd) (rest : store) idxs : IsCanonD a -> G c ->
  match alist_get nmI (own_dict NO I (p c)) with Some v => negb (is_none NO v) | None => false end = false ->
  loop f (zlen a :: idxs) true (a ++ c :: rest) =
  (r <- D a c ;; loop f idxs true (a ++ setkI (slotM c (snd r)) (rndI (fst r)) :: rest)).
Proof.
  intros Ha Hg Hp. cbn [calc_loop]. rewrite (pyidx_mid NO a rest c). cbn [bind]. rewrite Hp.
  rewrite run_S. cbn [step]. rewrite (Hshape f a c rest Ha Hg).
  destruct (D a c) as [r|e]; cbn [bind]; [|reflexivity].
  rewrite (set_reading_mid NO I a rest (slotM c (snd r))). cbn [bind]. reflexivity.
Qed.

Lemma loop_fresh f : forall (new : list cd) (a : store), IsCanonD a -> Forall freshD new ->
  loop f (zrange (zlen a) (zlen a + zlen new)) true (a ++ new) = canonD_acc a new.
Proof.
  induction new as [|d new IH]; intros a Ha Hf.
  - rewrite zrange_nil by (cbn; lia). rewrite app_nil_r. reflexivity.
  - inversion Hf as [|? ? Hd Hf']; subst. destruct Hd as (HdI & HdM & Hg).
    pose proof (zlen_nonneg new). rewrite zlen_cons.
    rewrite zrange_cons by lia. rewrite (loop_step f a d new _ Ha Hg).
    2:{ unfold EngineProofs.fresh, EngineProofs.own in HdI. rewrite HdI. reflexivity. }
    cbn [canonD_acc]. destruct (D a d) as [r|e] eqn:Er; cbn [bind]; [|reflexivity].
    fold (deco d r).
    replace (a ++ deco d r :: new) with ((a ++ [deco d r]) ++ new) by (rewrite <- app_assoc; reflexivity).
    rewrite <- IH; [|econstructor; [exact Ha|repeat split; assumption|exact Er]|assumption].
    rewrite zlen_snoc. f_equal. f_equal. lia.
Qed.

Lemma iscanonD_prefix : forall r, IsCanonD r -> forall a b, r = a ++ b -> IsCanonD a.
Proof.
  induction 1 as [|a0 d r0 Ha IH Hd Ev]; intros a b E.
  - destruct a; [constructor|discriminate].
  - destruct b as [|y b _] using rev_ind.
    + rewrite app_nil_r in E. subst a. econstructor; eassumption.
    + rewrite app_assoc in E. apply app_inj_tail in E. destruct E as [E _]. eapply IH. exact E.
Qed.
Lemma iscanonD_last a c : IsCanonD (a ++ [c]) -> exists d r, freshD d /\ D a d = Ok r /\ c = deco d r.
Proof.
  intros H. inversion H as [E|a0 d r Ha Hd Ev E]; [destruct a; discriminate|].
  apply app_inj_tail in E. destruct E as [-> <-]. eauto.
Qed.

(* re-running the loop over an already canonical stretch changes nothing *)
Lemma loop_canon f : forall (m a tail : store), IsCanonD (a ++ m) ->
  loop f (zrange (zlen a) (zlen a + zlen m)) true (a ++ m ++ tail) = Ok (a ++ m ++ tail).
Proof.
  induction m as [|c m IH]; intros a tail Hc.
  - rewrite zrange_nil by (cbn; lia). reflexivity.
  - pose proof (zlen_nonneg m). rewrite zlen_cons.
    rewrite zrange_cons by lia. cbn [app].
    assert (Hac : IsCanonD (a ++ [c])).
    { eapply iscanonD_prefix; [exact Hc|]. instantiate (1 := m). rewrite <- app_assoc. reflexivity. }
    assert (Ha : IsCanonD a) by (eapply iscanonD_prefix; [exact Hc|reflexivity]).
    destruct (iscanonD_last a c Hac) as (d & r & Hd & Er & Ec).
    assert (Next : loop f (zrange (zlen a + 1) (zlen a + (1 + zlen m))) true (a ++ c :: m ++ tail) = Ok (a ++ c :: m ++ tail)).
    { replace (a ++ c :: m ++ tail) with ((a ++ [c]) ++ m ++ tail) by (rewrite <- app_assoc; reflexivity).
      replace (zlen a + 1) with (zlen (a ++ [c])) by (rewrite zlen_snoc; lia).
      replace (zlen a + (1 + zlen m)) with (zlen (a ++ [c]) + zlen m) by (rewrite zlen_snoc; lia).
      apply IH. rewrite <- app_assoc. exact Hc. }
    destruct (negb (is_none NO (rndI (fst r)))) eqn:Nn.
    + (* present: skipped *)
      cbn [calc_loop]. rewrite (pyidx_mid NO a (m ++ tail) c). cbn [bind].
      fold (EngineProofs.own NO I c). rewrite Ec at 1. rewrite getI_deco, Nn. exact Next.
    + (* a stored None is recomputed, to the same candle *)
      assert (Hg : G c) by (rewrite Ec; apply G_deco; apply Hd).
      rewrite (loop_step f a c (m ++ tail) _ Ha Hg).
      2:{ fold (EngineProofs.own NO I c). rewrite Ec. rewrite getI_deco, Nn. reflexivity. }
      assert (Nn' : is_none NO (rndI (fst r)) = true) by (destruct (is_none NO (rndI (fst r))); [reflexivity|discriminate]).
      rewrite Ec at 1. rewrite (Hrecomp a d r Ha Hd Er Nn'). cbn [bind].
      rewrite Ec. rewrite slotM_deco. unfold deco at 1. rewrite setk_idem. fold (deco d r). rewrite <- Ec. exact Next.
Qed.

Lemma iscanonD_has_key cs : IsCanonD cs -> Forall (fun c => alist_mem nmI (own NO I c) = true) cs.
Proof.
  induction 1 as [|a d r Ha IH Hd Ev]; [constructor|]. apply Forall_app. split; [exact IH|].
  constructor; [|constructor]. unfold alist_mem. rewrite getI_deco. reflexivity.
Qed.

Lemma find_calc_index_le (cs : store) (new : list cd) : Forall freshI new ->
  (find_calc_index NO I (cs ++ new) <= List.length cs)%nat.
Proof.
  intros Hf. destruct cs as [|c0 r].
  - cbn [app List.length]. rewrite (find_calc_index_fresh NO I) by assumption. lia.
  - cbn [app find_calc_index]. destruct (negb (alist_mem nmI (own_dict NO I (p c0)))); [lia|].
    rewrite (last_with_key_fresh_tail NO I) by assumption.
    destruct (last_with_key NO I r 1) as [j|] eqn:E; [|lia].
    apply (last_with_key_bound NO I) in E. cbn [List.length]. lia.
Qed.

(* ---------------------------------------------------------------- calculate() *)
Lemma run_subs_nil rec prior range st : run_subs NO rec prior I range st = Ok st.
Proof. unfold run_subs. rewrite HIsubs. reflexivity. Qed.

Lemma calculate_is_loop st :
  calculate NO I st = calc_loop NO (run NO 15) I (zrange (Z.of_nat (find_calc_index NO I st)) (zlen st)) true st.
Proof.
  unfold calculate. change FUEL with (S 15). rewrite run_S. cbn [step]. rewrite !run_subs_nil. cbn [bind].
  destruct (calc_loop NO (run NO 15) I _ true st) as [st2|e]; cbn [bind]; [rewrite run_subs_nil|]; reflexivity.
Qed.

Lemma freshD_I new : Forall freshD new -> Forall freshI new.
Proof. intros H. eapply Forall_impl; [|exact H]. intros c Hc. apply Hc. Qed.

Theorem batch_is_canonD (ds : list cd) : Forall freshD ds -> calculate NO I ds = canonD ds.
Proof.
  intros H. rewrite calculate_is_loop. rewrite (find_calc_index_fresh NO I) by (apply freshD_I; exact H).
  change 15%nat with (S (S 13)). exact (loop_fresh 13 ds [] ICD_nil H).
Qed.

Theorem append_is_canonD (cs : store) (new : list cd) : IsCanonD cs -> Forall freshD new ->
  calculate NO I (cs ++ new) = canonD_acc cs new.
Proof.
  intros Hc Hf. rewrite calculate_is_loop.
  pose proof (find_calc_index_le cs new (freshD_I new Hf)) as Hs.
  set (s := find_calc_index NO I (cs ++ new)) in *. clearbody s.
  assert (L1 : List.length (firstn s cs) = s) by (rewrite firstn_length; lia).
  pose proof (firstn_skipn s cs) as Hcs.
  remember (firstn s cs) as a. remember (skipn s cs) as m. clear Heqa Heqm. subst cs.
  replace (Z.of_nat s) with (zlen a) by (unfold zlen; lia).
  pose proof (zlen_nonneg a). pose proof (zlen_nonneg m). pose proof (zlen_nonneg new).
  rewrite (zlen_app (a ++ m) new).
  rewrite (zrange_split (zlen a) (zlen (a ++ m))) by (rewrite zlen_app; lia).
  change 15%nat with (S (S 13)). rewrite loop_app.
  assert (E1 : loop 13 (zrange (zlen a) (zlen (a ++ m))) true ((a ++ m) ++ new) = Ok ((a ++ m) ++ new)).
  { rewrite zlen_app. rewrite <- !app_assoc. apply loop_canon. exact Hc. }
  rewrite E1. cbn [bind]. apply loop_fresh; assumption.
Qed.

Lemma canonD_acc_iscanon : forall todo a r, IsCanonD a -> Forall freshD todo -> canonD_acc a todo = Ok r ->
  IsCanonD r /\ exists tl, r = a ++ tl.
Proof.
  induction todo as [|d todo IH]; intros a r Ha Hf H; cbn [canonD_acc] in H.
  - inversion H; subst. split; [exact Ha|exists []; rewrite app_nil_r; reflexivity].
  - inversion Hf as [|? ? Hd Hf']; subst.
    destruct (D a d) as [r0|e] eqn:Ev; cbn [bind] in H; [|discriminate].
    destruct (IH _ _ (ICD_snoc a d r0 Ha Hd Ev) Hf' H) as [Hr [tl Etl]].
    split; [exact Hr|]. exists (deco d r0 :: tl). rewrite Etl, <- app_assoc. reflexivity.
Qed.
Lemma canonD_acc_app : forall x y a, canonD_acc a (x ++ y) = (mid <- canonD_acc a x ;; canonD_acc mid y).
Proof.
  induction x as [|d x IH]; intros y a; [reflexivity|]. cbn [app canonD_acc].
  destruct (D a d); cbn [bind]; [apply IH|reflexivity].
Qed.

(* any split of a stream into append chunks ends in the canonical store of the whole stream *)
Theorem schedule_independentD : forall (chunks : list (list cd)) (cs : store), IsCanonD cs ->
  Forall (Forall freshD) chunks -> engine_chunks NO I cs chunks = canonD_acc cs (List.concat chunks).
Proof.
  induction chunks as [|ch chunks IH]; intros cs Hc Hf; [reflexivity|].
  inversion Hf as [|? ? Hch Hf']; subst. cbn [EngineProofs.engine_chunks List.concat].
  rewrite append_is_canonD by assumption. rewrite canonD_acc_app.
  destruct (canonD_acc cs ch) as [mid|e] eqn:E; cbn [bind]; [|reflexivity].
  apply IH; [|exact Hf']. eapply canonD_acc_iscanon; eassumption.
Qed.

Theorem incremental_equals_batchD (chunks : list (list cd)) :
  Forall (Forall freshD) chunks -> engine_chunks NO I [] chunks = calculate NO I (List.concat chunks).
Proof.
  intros Hf. rewrite schedule_independentD by (try constructor; assumption).
  rewrite batch_is_canonD; [reflexivity|]. apply Forall_concat. exact Hf.
Qed.

(* no repainting: the result over a longer stream extends the result over a prefix *)
Theorem batch_is_causalD (ds more : list cd) r : Forall freshD (ds ++ more) -> calculate NO I (ds ++ more) = Ok r ->
  exists mid tl, calculate NO I ds = Ok mid /\ r = mid ++ tl.
Proof.
  intros Hf H. rewrite batch_is_canonD in H by exact Hf. apply Forall_app in Hf. destruct Hf as [Hd Hm].
  unfold canonD in H. rewrite canonD_acc_app in H.
  destruct (canonD_acc [] ds) as [mid|e] eqn:E; cbn [bind] in H; [|discriminate].
  assert (Hmid : IsCanonD mid) by (eapply canonD_acc_iscanon; [constructor|exact Hd|exact E]).
  destruct (canonD_acc_iscanon more mid r Hmid Hm H) as [_ [tl Etl]].
  exists mid, tl. split; [|exact Etl]. rewrite batch_is_canonD by exact Hd. exact E.
Qed.

(* appending never changes a calculated candle *)
Theorem append_keeps_prefixD (ds new : list cd) st r : Forall freshD ds -> Forall freshD new ->
  calculate NO I ds = Ok st -> calculate NO I (st ++ new) = Ok r -> exists tl, r = st ++ tl.
Proof.
  intros Hd Hn Hst Hr. rewrite batch_is_canonD in Hst by exact Hd.
  assert (Hc : IsCanonD st) by (eapply canonD_acc_iscanon; [constructor|exact Hd|exact Hst]).
  rewrite append_is_canonD in Hr by assumption.
  destruct (canonD_acc_iscanon new st r Hc Hn Hr) as [_ Htl]. exact Htl.
Qed.

(* calling calculate() again changes nothing *)
Theorem calculate_idempotentD (ds : list cd) st : Forall freshD ds ->
  calculate NO I ds = Ok st -> calculate NO I st = Ok st.
Proof.
  intros Hf H. rewrite batch_is_canonD in H by exact Hf.
  assert (Hc : IsCanonD st) by (eapply canonD_acc_iscanon; [constructor|exact Hf|exact H]).
  pose proof (append_is_canonD st [] Hc (Forall_nil _)) as A. rewrite app_nil_r in A. exact A.
Qed.

End DataSlot.
