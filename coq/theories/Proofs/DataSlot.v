(* The engine theorem for indicators that keep their state in one managed helper series
   ("<name>_data": RSI, VWAP, StandardDeviation): _calculate_reading computes a value and, on
   the way, writes the helper's slot of the same candle through Managed.set_reading.  The
   faithful calculate() loop - resume index, skip-if-present, two in-place writes per candle -
   computes the canonical semantics [canonD] (candle i is decorated from the canonical prefix
   and its own raw content), in one batch and under any sequence of appends alike.

   The per-indicator obligation is a *shape* equation: on a store  a ++ c :: rest  the reading
   at index |a| is a function D of the prefix and of the candle, the only effect is the helper
   slot of c, and nothing behind c is looked at.  Re-computing the reading of a calculated candle
   must reproduce it (Hrecomp). *)
From Coq Require Import ZArith List String Bool Lia ZifyBool.
From Hexital Require Import Base.Prelude Base.Num Model.Manager Model.Candle Model.Readings Model.Analysis
  Model.Engine Proofs.ListProofs Proofs.EngineProofs Proofs.MaintProofs Proofs.CollapseProofs Proofs.ComposeProofs.
Import ListNotations.
Local Open Scope Z_scope.

Section DataSlot.
Context (NO : NumOps).
Notation val := (val NO).
Notation payload := (payload NO).
Notation cd := (cd payload).
Notation store := (store NO).

Variables I M : ind NO.
Hypothesis HIsubs : i_subs NO I = [].
Hypothesis Hname : i_name NO I <> i_name NO M.

Notation nmI := (i_name NO I).
Notation nmM := (i_name NO M).
Notation setkI := (setk NO I).
Notation setkM := (setk NO M).
Notation slotM := (slot NO M).
Notation freshI := (fresh NO I).
Notation freshM := (fresh NO M).
Notation rndI := (rnd_ NO I).

(* a side condition on candles kept by both writes (e.g. "no top-level entry is called like the helper") *)
Variable G : cd -> Prop.
Hypothesis HG : forall d w v, G d -> G (setkI (slotM d w) v).

Definition freshD (c : cd) : Prop := freshI c /\ freshM c /\ G c.

Variable D : store -> cd -> res (val * option val).

Definition deco (d : cd) (r : val * option val) : cd := setkI (slotM d (snd r)) (rndI (fst r)).

Fixpoint canonD_acc (done : store) (todo : list cd) : res store :=
  match todo with
  | [] => Ok done
  | d :: todo' => r <- D done d ;; canonD_acc (done ++ [deco d r]) todo'
  end.
Definition canonD (ds : list cd) : res store := canonD_acc [] ds.

Inductive IsCanonD : store -> Prop :=
| ICD_nil : IsCanonD []
| ICD_snoc a d r : IsCanonD a -> freshD d -> D a d = Ok r -> IsCanonD (a ++ [deco d r]).

Hypothesis Hshape : forall f (a : store) (c : cd) (rest : store), IsCanonD a -> G c ->
  calc_reading NO (run NO (S f)) I (a ++ c :: rest) (zlen a) =
  (r <- D a c ;; Ok (fst r, a ++ slotM c (snd r) :: rest)).
Hypothesis Hrecomp : forall (a : store) (d : cd) r, IsCanonD a -> freshD d -> D a d = Ok r -> D a (deco d r) = Ok r.

(* ---------------------------------------------------------------- slots *)
Lemma getM_setkI d v : alist_get nmM (own NO M (setkI d v)) = alist_get nmM (own NO M d).
Proof.
  unfold EngineProofs.setk, EngineProofs.own, own_dict, with_own_dict. cbn [p].
  destruct (i_sub NO I), (i_sub NO M); cbn [inds subs]; try reflexivity;
    apply alist_get_set_other; exact Hname.
Qed.
Lemma getI_setkM d v : alist_get nmI (own NO I (setkM d v)) = alist_get nmI (own NO I d).
Proof.
  unfold EngineProofs.setk, EngineProofs.own, own_dict, with_own_dict. cbn [p].
  destruct (i_sub NO I), (i_sub NO M); cbn [inds subs]; try reflexivity;
    apply alist_get_set_other; intros E; apply Hname; symmetry; exact E.
Qed.
Lemma getI_slotM d w : alist_get nmI (own NO I (slotM d w)) = alist_get nmI (own NO I d).
Proof. destruct w; [apply getI_setkM|reflexivity]. Qed.

Lemma alist_set_same_get {A} k (v : A) l : alist_get k l = Some v -> alist_set k v l = l.
Proof.
  induction l as [|[k' v'] l IH]; cbn; [discriminate|].
  destruct (String.eqb k k') eqn:E; [intros H; inversion H; subst; apply String.eqb_eq in E; subst; reflexivity|].
  intros H. rewrite IH by exact H. reflexivity.
Qed.
Lemma setk_same (J : ind NO) (c : cd) v : alist_get (i_name NO J) (own NO J c) = Some v -> setk NO J c v = c.
Proof.
  intros H. unfold EngineProofs.setk. rewrite (alist_set_same_get _ _ _ H).
  unfold EngineProofs.own, own_dict, with_own_dict. destruct c as [tc q]. cbn [t p]. f_equal.
  destruct q; destruct (i_sub NO J); reflexivity.
Qed.
Lemma slotM_deco d r : slotM (deco d r) (snd r) = deco d r.
Proof.
  unfold deco. destruct (snd r) as [w|]; cbn [EngineProofs.slot]; [|reflexivity].
  apply setk_same. rewrite getM_setkI. rewrite own_setk. apply alist_get_set_same.
Qed.
Lemma getI_deco d r : alist_get nmI (own NO I (deco d r)) = Some (rndI (fst r)).
Proof. unfold deco. rewrite own_setk. apply alist_get_set_same. Qed.
Lemma G_deco d r : G d -> G (deco d r).
Proof. intros H. apply HG. exact H. Qed.

(* ---------------------------------------------------------------- the loop *)
Notation loop f := (calc_loop NO (run NO (S (S f))) I).

Lemma loop_app f : forall l1 l2 st, loop f (l1 ++ l2) true st = (st' <- loop f l1 true st ;; loop f l2 true st').
Proof.
  induction l1 as [|i l1 IH]; intros l2 st; [reflexivity|]. cbn [app calc_loop].
  destruct (pyidx st i) as [c|]; cbn [bind]; [|reflexivity].
  destruct (match alist_get nmI (own_dict NO I (p c)) with Some v => negb (is_none NO v) | None => false end); [apply IH|].
  destruct (run NO (S (S f)) (RReading NO i) I st) as [[v st1]|]; cbn [bind]; [|reflexivity].
  destruct (set_reading NO st1 I _ i); cbn [bind]; [apply IH|reflexivity].
Qed.

Lemma zlen_cons {A} (x : A) l : zlen (x :: l) = 1 + zlen l.
Proof. unfold zlen. cbn [List.length]. lia. Qed.

(* one not-yet-present candle *)
Lemma loop_step f (a : store) (c : cd) (rest : store) idxs : IsCanonD a -> G c ->
  match alist_get nmI (own_dict NO I (p c)) with Some v => negb (is_none NO v) | None => false end = false ->
  loop f (zlen a :: idxs) true (a ++ c :: rest) =
  (r <- D a c ;; loop f idxs true (a ++ setkI (slotM c (snd r)) (rndI (fst r)) :: rest)).
Proof.
  intros Ha Hg Hp. cbn [calc_loop]. rewrite (pyidx_mid NO a rest c). cbn [bind]. rewrite Hp.
  rewrite run_S. cbn [step]. rewrite (Hshape f a c rest Ha Hg).
  destruct (D a c) as [r|e]; cbn [bind]; [|reflexivity].
  rewrite (set_reading_mid NO I a rest (slotM c (snd r))). cbn [bind]. reflexivity.
Qed.

Lemma loop_fresh f : forall (new : list cd) (a : store), IsCanonD a -> Forall freshD new ->
  loop f (zrange (zlen a) (zlen a + zlen new)) true (a ++ new) = canonD_acc a new.
Proof.
  induction new as [|d new IH]; intros a Ha Hf.
  - rewrite zrange_nil by (cbn; lia). rewrite app_nil_r. reflexivity.
  - inversion Hf as [|? ? Hd Hf']; subst. destruct Hd as (HdI & HdM & Hg).
    pose proof (zlen_nonneg new). rewrite zlen_cons.
    rewrite zrange_cons by lia. rewrite (loop_step f a d new _ Ha Hg).
    2:{ unfold EngineProofs.fresh, EngineProofs.own in HdI. rewrite HdI. reflexivity. }
    cbn [canonD_acc]. destruct (D a d) as [r|e] eqn:Er; cbn [bind]; [|reflexivity].
    fold (deco d r).
    replace (a ++ deco d r :: new) with ((a ++ [deco d r]) ++ new) by (rewrite <- app_assoc; reflexivity).
    rewrite <- IH; [|econstructor; [exact Ha|repeat split; assumption|exact Er]|assumption].
    rewrite zlen_snoc. f_equal. f_equal. lia.
Qed.

Lemma iscanonD_prefix : forall r, IsCanonD r -> forall a b, r = a ++ b -> IsCanonD a.
Proof.
  induction 1 as [|a0 d r0 Ha IH Hd Ev]; intros a b E.
  - destruct a; [constructor|discriminate].
  - destruct b as [|y b _] using rev_ind.
    + rewrite app_nil_r in E. subst a. econstructor; eassumption.
    + rewrite app_assoc in E. apply app_inj_tail in E. destruct E as [E _]. eapply IH. exact E.
Qed.
Lemma iscanonD_last a c : IsCanonD (a ++ [c]) -> exists d r, freshD d /\ D a d = Ok r /\ c = deco d r.
Proof.
  intros H. inversion H as [E|a0 d r Ha Hd Ev E]; [destruct a; discriminate|].
  apply app_inj_tail in E. destruct E as [-> <-]. eauto.
Qed.

(* re-running the loop over an already canonical stretch changes nothing *)
Lemma loop_canon f : forall (m a tail : store), IsCanonD (a ++ m) ->
  loop f (zrange (zlen a) (zlen a + zlen m)) true (a ++ m ++ tail) = Ok (a ++ m ++ tail).
Proof.
  induction m as [|c m IH]; intros a tail Hc.
  - rewrite zrange_nil by (cbn; lia). reflexivity.
  - pose proof (zlen_nonneg m). rewrite zlen_cons.
    rewrite zrange_cons by lia. cbn [app].
    assert (Hac : IsCanonD (a ++ [c])).
    { eapply iscanonD_prefix; [exact Hc|]. instantiate (1 := m). rewrite <- app_assoc. reflexivity. }
    assert (Ha : IsCanonD a) by (eapply iscanonD_prefix; [exact Hc|reflexivity]).
    destruct (iscanonD_last a c Hac) as (d & r & Hd & Er & Ec).
    assert (Next : loop f (zrange (zlen a + 1) (zlen a + (1 + zlen m))) true (a ++ c :: m ++ tail) = Ok (a ++ c :: m ++ tail)).
    { replace (a ++ c :: m ++ tail) with ((a ++ [c]) ++ m ++ tail) by (rewrite <- app_assoc; reflexivity).
      replace (zlen a + 1) with (zlen (a ++ [c])) by (rewrite zlen_snoc; lia).
      replace (zlen a + (1 + zlen m)) with (zlen (a ++ [c]) + zlen m) by (rewrite zlen_snoc; lia).
      apply IH. rewrite <- app_assoc. exact Hc. }
    destruct (negb (is_none NO (rndI (fst r)))) eqn:Nn.
    + (* present: skipped *)
      cbn [calc_loop]. rewrite (pyidx_mid NO a (m ++ tail) c). cbn [bind].
      fold (EngineProofs.own NO I c). rewrite Ec at 1. rewrite getI_deco, Nn. exact Next.
    + (* a stored None is recomputed, to the same candle *)
      assert (Hg : G c) by (rewrite Ec; apply G_deco; apply Hd).
      rewrite (loop_step f a c (m ++ tail) _ Ha Hg).
      2:{ fold (EngineProofs.own NO I c). rewrite Ec. rewrite getI_deco, Nn. reflexivity. }
      rewrite Ec at 1. rewrite (Hrecomp a d r Ha Hd Er). cbn [bind].
      rewrite Ec. rewrite slotM_deco. unfold deco at 1. rewrite setk_idem. fold (deco d r). rewrite <- Ec. exact Next.
Qed.

Lemma iscanonD_has_key cs : IsCanonD cs -> Forall (fun c => alist_mem nmI (own NO I c) = true) cs.
Proof.
  induction 1 as [|a d r Ha IH Hd Ev]; [constructor|]. apply Forall_app. split; [exact IH|].
  constructor; [|constructor]. unfold alist_mem. rewrite getI_deco. reflexivity.
Qed.

Lemma find_calc_index_le (cs : store) (new : list cd) : Forall freshI new ->
  (find_calc_index NO I (cs ++ new) <= List.length cs)%nat.
Proof.
  intros Hf. destruct cs as [|c0 r].
  - cbn [app List.length]. rewrite (find_calc_index_fresh NO I) by assumption. lia.
  - cbn [app find_calc_index]. destruct (negb (alist_mem nmI (own_dict NO I (p c0)))); [lia|].
    rewrite (last_with_key_fresh_tail NO I) by assumption.
    destruct (last_with_key NO I r 1) as [j|] eqn:E; [|lia].
    apply (last_with_key_bound NO I) in E. cbn [List.length]. lia.
Qed.

(* ---------------------------------------------------------------- calculate() *)
Lemma run_subs_nil rec prior range st : run_subs NO rec prior I range st = Ok st.
Proof. unfold run_subs. rewrite HIsubs. reflexivity. Qed.

Lemma calculate_is_loop st :
  calculate NO I st = calc_loop NO (run NO 15) I (zrange (Z.of_nat (find_calc_index NO I st)) (zlen st)) true st.
Proof.
  unfold calculate. change FUEL with (S 15). rewrite run_S. cbn [step]. rewrite !run_subs_nil. cbn [bind].
  destruct (calc_loop NO (run NO 15) I _ true st) as [st2|e]; cbn [bind]; [rewrite run_subs_nil|]; reflexivity.
Qed.

Lemma freshD_I new : Forall freshD new -> Forall freshI new.
Proof. intros H. eapply Forall_impl; [|exact H]. intros c Hc. apply Hc. Qed.

Theorem batch_is_canonD (ds : list cd) : Forall freshD ds -> calculate NO I ds = canonD ds.
Proof.
  intros H. rewrite calculate_is_loop. rewrite (find_calc_index_fresh NO I) by (apply freshD_I; exact H).
  change 15%nat with (S (S 13)). exact (loop_fresh 13 ds [] ICD_nil H).
Qed.

Lemma loop_after_append f (cs : store) (new : list cd) : IsCanonD cs -> Forall freshD new ->
  loop f (zrange (Z.of_nat (find_calc_index NO I (cs ++ new))) (zlen (cs ++ new))) true (cs ++ new) = canonD_acc cs new.
Proof.
  intros Hc Hf.
  pose proof (find_calc_index_le cs new (freshD_I new Hf)) as Hs.
  set (s := find_calc_index NO I (cs ++ new)) in *. clearbody s.
  assert (L1 : List.length (firstn s cs) = s) by (rewrite firstn_length; lia).
  pose proof (firstn_skipn s cs) as Hcs.
  remember (firstn s cs) as a. remember (skipn s cs) as m. clear Heqa Heqm. subst cs.
  replace (Z.of_nat s) with (zlen a) by (unfold zlen; lia).
  pose proof (zlen_nonneg a). pose proof (zlen_nonneg m). pose proof (zlen_nonneg new).
  rewrite (zlen_app (a ++ m) new).
  rewrite (zrange_split (zlen a) (zlen (a ++ m))) by (rewrite zlen_app; lia).
  rewrite loop_app.
  assert (E1 : loop f (zrange (zlen a) (zlen (a ++ m))) true ((a ++ m) ++ new) = Ok ((a ++ m) ++ new)).
  { rewrite zlen_app. rewrite <- !app_assoc. apply loop_canon. exact Hc. }
  rewrite E1. cbn [bind]. apply loop_fresh; assumption.
Qed.

Theorem append_is_canonD (cs : store) (new : list cd) : IsCanonD cs -> Forall freshD new ->
  calculate NO I (cs ++ new) = canonD_acc cs new.
Proof.
  intros Hc Hf. rewrite calculate_is_loop. change 15%nat with (S (S 13)). apply loop_after_append; assumption.
Qed.

(* the same at the recursive entry point, with any fuel left (an indicator that is itself a helper
   of another one is calculated through it) *)
Lemma run_calculateD f st :
  run NO (S (S (S f))) (RCalculate NO) I st =
  (st' <- loop f (zrange (Z.of_nat (find_calc_index NO I st)) (zlen st)) true st ;; Ok (VNone, st')).
Proof.
  rewrite run_S. cbn [step]. rewrite !run_subs_nil. cbn [bind].
  destruct (calc_loop NO (run NO (S (S f))) I _ true st) as [st2|e]; cbn [bind]; [rewrite run_subs_nil|]; reflexivity.
Qed.
Theorem append_runD f (cs : store) (new : list cd) : IsCanonD cs -> Forall freshD new ->
  run NO (S (S (S f))) (RCalculate NO) I (cs ++ new) = (r <- canonD_acc cs new ;; Ok (VNone, r)).
Proof. intros Hc Hf. rewrite run_calculateD. rewrite loop_after_append by assumption. reflexivity. Qed.


Lemma canonD_acc_iscanon : forall todo a r, IsCanonD a -> Forall freshD todo -> canonD_acc a todo = Ok r ->
  IsCanonD r /\ exists tl, r = a ++ tl.
Proof.
  induction todo as [|d todo IH]; intros a r Ha Hf H; cbn [canonD_acc] in H.
  - inversion H; subst. split; [exact Ha|exists []; rewrite app_nil_r; reflexivity].
  - inversion Hf as [|? ? Hd Hf']; subst.
    destruct (D a d) as [r0|e] eqn:Ev; cbn [bind] in H; [|discriminate].
    destruct (IH _ _ (ICD_snoc a d r0 Ha Hd Ev) Hf' H) as [Hr [tl Etl]].
    split; [exact Hr|]. exists (deco d r0 :: tl). rewrite Etl, <- app_assoc. reflexivity.
Qed.
Lemma canonD_acc_app : forall x y a, canonD_acc a (x ++ y) = (mid <- canonD_acc a x ;; canonD_acc mid y).
Proof.
  induction x as [|d x IH]; intros y a; [reflexivity|]. cbn [app canonD_acc].
  destruct (D a d); cbn [bind]; [apply IH|reflexivity].
Qed.

(* any split of a stream into append chunks ends in the canonical store of the whole stream *)
Theorem schedule_independentD : forall (chunks : list (list cd)) (cs : store), IsCanonD cs ->
  Forall (Forall freshD) chunks -> engine_chunks NO I cs chunks = canonD_acc cs (List.concat chunks).
Proof.
  induction chunks as [|ch chunks IH]; intros cs Hc Hf; [reflexivity|].
  inversion Hf as [|? ? Hch Hf']; subst. cbn [EngineProofs.engine_chunks List.concat].
  rewrite append_is_canonD by assumption. rewrite canonD_acc_app.
  destruct (canonD_acc cs ch) as [mid|e] eqn:E; cbn [bind]; [|reflexivity].
  apply IH; [|exact Hf']. eapply canonD_acc_iscanon; eassumption.
Qed.

Theorem incremental_equals_batchD (chunks : list (list cd)) :
  Forall (Forall freshD) chunks -> engine_chunks NO I [] chunks = calculate NO I (List.concat chunks).
Proof.
  intros Hf. rewrite schedule_independentD by (try constructor; assumption).
  rewrite batch_is_canonD; [reflexivity|]. apply Forall_concat. exact Hf.
Qed.

(* no repainting: the result over a longer stream extends the result over a prefix *)
Theorem batch_is_causalD (ds more : list cd) r : Forall freshD (ds ++ more) -> calculate NO I (ds ++ more) = Ok r ->
  exists mid tl, calculate NO I ds = Ok mid /\ r = mid ++ tl.
Proof.
  intros Hf H. rewrite batch_is_canonD in H by exact Hf. apply Forall_app in Hf. destruct Hf as [Hd Hm].
  unfold canonD in H. rewrite canonD_acc_app in H.
  destruct (canonD_acc [] ds) as [mid|e] eqn:E; cbn [bind] in H; [|discriminate].
  assert (Hmid : IsCanonD mid) by (eapply canonD_acc_iscanon; [constructor|exact Hd|exact E]).
  destruct (canonD_acc_iscanon more mid r Hmid Hm H) as [_ [tl Etl]].
  exists mid, tl. split; [|exact Etl]. rewrite batch_is_canonD by exact Hd. exact E.
Qed.

(* appending never changes a calculated candle *)
Theorem append_keeps_prefixD (ds new : list cd) st r : Forall freshD ds -> Forall freshD new ->
  calculate NO I ds = Ok st -> calculate NO I (st ++ new) = Ok r -> exists tl, r = st ++ tl.
Proof.
  intros Hd Hn Hst Hr. rewrite batch_is_canonD in Hst by exact Hd.
  assert (Hc : IsCanonD st) by (eapply canonD_acc_iscanon; [constructor|exact Hd|exact Hst]).
  rewrite append_is_canonD in Hr by assumption.
  destruct (canonD_acc_iscanon new st r Hc Hn Hr) as [_ Htl]. exact Htl.
Qed.

(* calling calculate() again changes nothing *)
Theorem calculate_idempotentD (ds : list cd) st : Forall freshD ds ->
  calculate NO I ds = Ok st -> calculate NO I st = Ok st.
Proof.
  intros Hf H. rewrite batch_is_canonD in H by exact Hf.
  assert (Hc : IsCanonD st) by (eapply canonD_acc_iscanon; [constructor|exact Hf|exact H]).
  pose proof (append_is_canonD st [] Hc (Forall_nil _)) as A. rewrite app_nil_r in A. exact A.
Qed.

(* ---------------------------------------------------------------- collapsing timeframe *)
(* the indicator's candles are the collapse of a raw stream: after the stream so far (xs) the
   store is the canonical decoration of resample tf xs; an append re-collapses the decorated
   buckets followed by the new raw candles and calculates *)
Notation mrg := (Candle.merge NO).
Notation resample := (Manager.resample payload mrg).
Notation resample_acc := (Manager.resample_acc payload mrg).
Notation collapse := (Manager.collapse payload mrg).
Notation alike := (alike payload mrg).
Hypothesis HGm : forall ts a b, G {| t := ts; p := mrg a b |}.
Hypothesis HGt : forall ts (c : cd), G c -> G {| t := ts; p := p c |}.

Lemma relabel_freshD ts (c : cd) : freshD c -> freshD {| t := ts; p := p c |}.
Proof. intros (H1 & H2 & H3). repeat split; [exact H1|exact H2|apply HGt; exact H3]. Qed.

Lemma merged_freshD ts a b : freshD {| t := ts; p := mrg a b |}.
Proof. repeat split; [apply (merged_fresh NO I)|apply (merged_fresh NO M)|apply HGm]. Qed.

Lemma deco_alike d r : alike (deco d r) d.
Proof.
  unfold deco. destruct (setk_alike NO I (slotM d (snd r)) (rndI (fst r))) as [E1 E2].
  assert (A : alike (slotM d (snd r)) d).
  { destruct (snd r) as [w|]; cbn [EngineProofs.slot]; [apply (setk_alike NO M)|split; [reflexivity|intros q; reflexivity]]. }
  destruct A as [A1 A2]. split; [congruence|]. intros q. rewrite E2. apply A2.
Qed.

Lemma resample_acc_freshD tf : forall l acc, Forall freshD acc -> Forall freshD l -> Forall freshD (resample_acc tf acc l).
Proof.
  induction l as [|c l IH]; intros acc Ha Hl; cbn [Manager.resample_acc].
  - apply Forall_rev. exact Ha.
  - inversion Hl as [|? ? Hc Hl']; subst. destruct acc as [|prev acc'].
    + apply IH; [constructor; [apply relabel_freshD; exact Hc|constructor]|exact Hl'].
    + inversion Ha as [|? ? Hp Ha']; subst. destruct (t prev =? label (t c) tf); apply IH; try assumption.
      * constructor; [apply merged_freshD|exact Ha'].
      * constructor; [apply relabel_freshD; exact Hc|exact Ha].
Qed.

Lemma canonD_acc_alike : forall todo a r, canonD_acc a todo = Ok r -> exists r', r = a ++ r' /\ Forall2 alike r' todo.
Proof.
  induction todo as [|d todo IH]; intros a r H; cbn [canonD_acc] in H.
  - inversion H; subst. exists []. split; [rewrite app_nil_r; reflexivity|constructor].
  - destruct (D a d) as [r0|e]; cbn [bind] in H; [|discriminate].
    destruct (IH _ _ H) as (r' & Er & Hr). exists (deco d r0 :: r'). split.
    + rewrite Er, <- app_assoc. reflexivity.
    + constructor; [apply deco_alike|exact Hr].
Qed.

Definition state_afterD (tf : Z) (xs : list cd) (Dst : store) : Prop := canonD (resample tf xs) = Ok Dst.

Theorem append_on_timeframeD (tf : Z) (xs ys : list cd) (Dst : store) :
  0 < tf -> sorted payload (xs ++ ys) -> Forall freshD (xs ++ ys) -> state_afterD tf xs Dst ->
  exists Mst, collapse tf (Dst ++ ys) = Ok Mst /\ calculate NO I Mst = canonD (resample tf (xs ++ ys)).
Proof.
  intros Htf Hs Hf HD. unfold state_afterD in HD.
  apply Forall_app in Hf. destruct Hf as [Hfx Hfy].
  set (R := resample tf xs) in *.
  assert (HfR : Forall freshD R) by (apply resample_acc_freshD; [constructor|exact Hfx]).
  destruct (canonD_acc_alike R [] Dst HD) as (D' & ED & HA). cbn [app] in ED. subst D'.
  pose proof (alike_map_t NO Dst R HA) as Et.
  assert (Hsx : sorted payload xs).
  { destruct xs as [|x0 xs']; [exact Logic.I|]. cbn [app sorted] in Hs.
    destruct (sorted_from_app_inv payload xs' (t x0) ys Hs) as [A _]. exact A. }
  assert (Hlx : lsorted payload tf xs) by (apply sorted_lsorted; assumption).
  destruct (resample_shape payload mrg tf xs Htf Hlx) as [GR SR]. fold R in GR, SR.
  assert (GD : on_grid payload tf Dst) by (eapply on_grid_t; [symmetry; exact Et|exact GR]).
  assert (SD : strictly_inc payload Dst) by (eapply strictly_inc_t; [symmetry; exact Et|exact SR]).
  assert (HcD : IsCanonD Dst) by (eapply canonD_acc_iscanon; [constructor|exact HfR|exact HD]).
  assert (LS : lsorted payload tf (Dst ++ ys)).
  { eapply lsorted_t; [|apply (lsorted_resample_app payload mrg tf xs ys Htf Hs)].
    fold R. rewrite !map_app, Et. reflexivity. }
  exists (resample tf (Dst ++ ys)). split; [apply collapse_lsorted; assumption|].
  assert (E1 : resample tf (Dst ++ ys) = resample_acc tf (rev Dst) ys).
  { unfold Manager.resample. rewrite resample_acc_app. rewrite (resample_acc_id payload mrg tf Htf Dst []); [reflexivity|exact GD|exact SD]. }
  assert (E2 : resample tf (xs ++ ys) = resample_acc tf (rev R) ys).
  { unfold Manager.resample. rewrite resample_acc_app. reflexivity. }
  rewrite E1, E2.
  clearbody R. destruct (exists_last_or_nil R) as [ER|(Rinit & r & ER)]; subst R.
  - inversion HA; subst. cbn [rev]. fold (resample tf ys).
    apply batch_is_canonD. apply resample_acc_freshD; [constructor|exact Hfy].
  - destruct (Forall2_app_inv_r _ _ HA) as (Dinit & Dl & HAi & HAl & EDl).
    destruct Dl as [|d Dl']; [inversion HAl|].
    assert (Hdr : alike d r) by (inversion HAl; assumption).
    assert (Dl' = []) by (inversion HAl as [|? ? ? ? _ Hnil]; inversion Hnil; reflexivity). subst Dl' Dst. clear HAl.
    rewrite !rev_unit. rewrite (resample_acc_head payload mrg tf ys d (rev Dinit)).
    rewrite (resample_acc_head payload mrg tf ys r (rev Rinit)). rewrite !rev_involutive.
    unfold canonD in HD. rewrite canonD_acc_app in HD.
    destruct (canonD_acc [] Rinit) as [mid|e] eqn:Emid; cbn [bind] in HD; [|discriminate].
    cbn [canonD_acc] in HD.
    destruct (D mid r) as [r0|e] eqn:Ev; cbn [bind] in HD; [|discriminate].
    inversion HD as [HDeq]. apply app_inj_tail in HDeq. destruct HDeq as [Hmid Hd]. subst mid.
    apply Forall_app in HfR. destruct HfR as [HfRi HfRl]. assert (Hfr : freshD r) by (inversion HfRl; assumption).
    assert (HcDi : IsCanonD Dinit) by (eapply canonD_acc_iscanon; [constructor|exact HfRi|exact Emid]).
    destruct (resample_acc_alike payload mrg tf d r ys Hdr) as [(tl & T1 & T2)|(T1 & c & l' & El & Ht & T3)].
    + rewrite T1, T2.
      assert (Hftl : Forall freshD tl).
      { assert (Hall : Forall freshD (resample_acc tf [r] ys)) by (apply resample_acc_freshD; [constructor; [exact Hfr|constructor]|exact Hfy]).
        rewrite T2 in Hall. inversion Hall; assumption. }
      replace (Dinit ++ d :: tl) with ((Dinit ++ [d]) ++ tl) by (rewrite <- app_assoc; reflexivity).
      replace (Rinit ++ r :: tl) with ((Rinit ++ [r]) ++ tl) by (rewrite <- app_assoc; reflexivity).
      rewrite append_is_canonD by assumption.
      unfold canonD. rewrite canonD_acc_app. rewrite canonD_acc_app. rewrite Emid. cbn [bind canonD_acc].
      rewrite Ev. cbn [bind]. rewrite Hd. reflexivity.
    + rewrite <- T1.
      assert (HfF : Forall freshD (resample_acc tf [d] ys)).
      { rewrite T3. subst ys. inversion Hfy; subst. apply resample_acc_freshD; [constructor; [apply merged_freshD|constructor]|assumption]. }
      rewrite append_is_canonD by assumption.
      unfold canonD. rewrite canonD_acc_app. rewrite Emid. reflexivity.
Qed.

(* no repainting on a collapsing timeframe: every bucket but the last (still open) one of
   the state after xs is, with its readings and helper entries, a bucket of the state after xs ++ ys *)
Theorem closed_buckets_finalD (tf : Z) (xs ys : list cd) (Dst D' : store) :
  0 < tf -> state_afterD tf xs Dst -> state_afterD tf (xs ++ ys) D' ->
  exists tl, D' = removelast Dst ++ tl.
Proof.
  intros Htf HD HD'. unfold state_afterD in *.
  assert (E2 : resample tf (xs ++ ys) = resample_acc tf (rev (resample tf xs)) ys).
  { unfold Manager.resample. rewrite resample_acc_app. reflexivity. }
  rewrite E2 in HD'. clear E2.
  destruct (exists_last_or_nil (resample tf xs)) as [ER|(Rinit & r & ER)]; rewrite ER in *.
  - inversion HD; subst Dst. exists D'. reflexivity.
  - rewrite rev_unit in HD'. rewrite (resample_acc_head payload mrg tf ys r (rev Rinit)) in HD'. rewrite rev_involutive in HD'.
    unfold canonD in HD, HD'. rewrite canonD_acc_app in HD, HD'.
    destruct (canonD_acc [] Rinit) as [mid|e] eqn:Emid; cbn [bind] in HD, HD'; [|discriminate].
    destruct (canonD_acc_alike _ _ _ HD) as (l1 & E1 & A1).
    destruct (canonD_acc_alike _ _ _ HD') as (l2 & E2 & _).
    inversion A1 as [|? ? ? ? _ A1']; subst. inversion A1'; subst.
    exists l2. rewrite removelast_last. reflexivity.
Qed.

(* ---------------------------------------------------------------- work per append (C07) *)
(* the loop of calculate() instrumented with a counter of _calculate_reading invocations *)
Fixpoint loop_steps (f : nat) (idxs : list Z) (st : store) : res (nat * store) :=
  match idxs with
  | [] => Ok (0%nat, st)
  | i :: rest =>
    match pyidx st i with
    | None => Err IndexError
    | Some c =>
      if match alist_get nmI (own_dict NO I (p c)) with Some v => negb (is_none NO v) | None => false end
      then loop_steps f rest st
      else '(v, st1) <- run NO (S (S f)) (RReading NO i) I st ;;
           st2 <- set_reading NO st1 I (round_val NO (i_round NO I) v) i ;;
           '(n, r) <- loop_steps f rest st2 ;; Ok (S n, r)
    end
  end.

Lemma loop_steps_loop f : forall idxs st, loop f idxs true st = ('(_, r) <- loop_steps f idxs st ;; Ok r).
Proof.
  induction idxs as [|i idxs IH]; intros st; cbn [calc_loop loop_steps]; [reflexivity|].
  destruct (pyidx st i) as [c|]; cbn [bind]; [|reflexivity].
  destruct (match alist_get nmI (own_dict NO I (p c)) with Some v => negb (is_none NO v) | None => false end); [apply IH|].
  destruct (run NO (S (S f)) (RReading NO i) I st) as [[v st1]|]; cbn [bind]; [|reflexivity].
  destruct (set_reading NO st1 I (round_val NO (i_round NO I) v) i) as [st2|]; cbn [bind]; [|reflexivity].
  rewrite IH. destruct (loop_steps f idxs st2) as [[n r]|]; reflexivity.
Qed.

Lemma steps_freshD f : forall (new : list cd) (a : store) r, IsCanonD a -> Forall freshD new ->
  canonD_acc a new = Ok r ->
  loop_steps f (zrange (zlen a) (zlen a + zlen new)) (a ++ new) = Ok (List.length new, r).
Proof.
  induction new as [|d new IH]; intros a r Ha Hf Hr.
  - rewrite zrange_nil by (cbn; lia). rewrite app_nil_r. cbn in Hr. inversion Hr. reflexivity.
  - inversion Hf as [|? ? Hd Hf']; subst. destruct Hd as (HdI & HdM & Hg).
    pose proof (zlen_nonneg new). rewrite zlen_cons.
    rewrite zrange_cons by lia. cbn [loop_steps]. rewrite (pyidx_mid NO a new d).
    unfold EngineProofs.fresh, EngineProofs.own in HdI. rewrite HdI.
    rewrite run_S. cbn [step]. rewrite (Hshape f a d new Ha Hg).
    cbn [canonD_acc] in Hr.
    destruct (D a d) as [r0|e] eqn:Er; cbn [bind] in *; [|discriminate].
    rewrite (set_reading_mid NO I a new (slotM d (snd r0))). cbn [bind]. fold (rndI (fst r0)). fold (deco d r0).
    replace (a ++ deco d r0 :: new) with ((a ++ [deco d r0]) ++ new) by (rewrite <- app_assoc; reflexivity).
    replace (zlen a + 1) with (zlen (a ++ [deco d r0])) by (rewrite zlen_snoc; reflexivity).
    replace (zlen a + (1 + zlen new)) with (zlen (a ++ [deco d r0]) + zlen new) by (rewrite zlen_snoc; lia).
    rewrite (IH _ r); [reflexivity|econstructor; [exact Ha|repeat split; assumption|exact Er]|assumption|exact Hr].
Qed.

(* with two or more calculated candles the resume index is the end of the history *)
Lemma find_calc_index_endD (cs : store) (new : list cd) : IsCanonD cs -> (2 <= List.length cs)%nat -> Forall freshD new ->
  find_calc_index NO I (cs ++ new) = List.length cs.
Proof.
  intros Hc Hl Hf. pose proof (iscanonD_has_key cs Hc) as Hk. pose proof (freshD_I new Hf) as HfI.
  destruct cs as [|c0 r]; [cbn in Hl; lia|]. cbn [app find_calc_index].
  inversion Hk as [|? ? Hk0 Hkr]; subst. unfold EngineProofs.own in Hk0. rewrite Hk0. cbn [negb].
  rewrite (last_with_key_fresh_tail NO I) by assumption.
  assert (Hgen : forall (l : store) i, l <> [] -> Forall (fun c => alist_mem nmI (own NO I c) = true) l ->
                 last_with_key NO I l i = Some (i + List.length l - 1)%nat).
  { induction l as [|c l IH]; intros i Hne Hk'; [congruence|].
    inversion Hk' as [|? ? Hc0 Hk'']; subst. cbn [last_with_key List.length].
    destruct l as [|c' l'].
    - cbn. unfold EngineProofs.own in Hc0. rewrite Hc0. f_equal. lia.
    - rewrite (IH (S i)) by (try discriminate; assumption). f_equal. cbn [List.length]. lia. }
  assert (Hr : r <> []) by (destruct r; [cbn in Hl; lia|discriminate]).
  rewrite (Hgen r 1%nat Hr Hkr). cbn [List.length]. lia.
Qed.

(* after k candles are appended to a calculated indicator, calculate() makes exactly k
   _calculate_reading invocations, whatever the length of the history *)
Theorem append_stepsD (cs : store) (new : list cd) (r : store) : IsCanonD cs -> (2 <= List.length cs)%nat ->
  Forall freshD new -> calculate NO I (cs ++ new) = Ok r ->
  loop_steps 13 (zrange (Z.of_nat (find_calc_index NO I (cs ++ new))) (zlen (cs ++ new))) (cs ++ new) = Ok (List.length new, r).
Proof.
  intros Hc Hl Hf Hr. rewrite (append_is_canonD cs new Hc Hf) in Hr.
  rewrite (find_calc_index_endD cs new Hc Hl Hf). rewrite zlen_app. fold (zlen cs).
  apply steps_freshD; assumption.
Qed.
Theorem calculate_is_loop_steps st :
  calculate NO I st = ('(_, r) <- loop_steps 13 (zrange (Z.of_nat (find_calc_index NO I st)) (zlen st)) st ;; Ok r).
Proof. rewrite calculate_is_loop. change 15%nat with (S (S 13)). apply loop_steps_loop. Qed.

(* ---------------------------------------------------------------- maintenance (C14) *)
Variable key : string.
Hypothesis HIman : i_managed NO I = [(key, M)].
Hypothesis HMleaf : i_subs NO M = [] /\ i_managed NO M = [].
Hypothesis HItop : i_sub NO I = false.
Hypothesis HMsub : i_sub NO M = true.

Lemma tree_names_data : tree_names NO FUEL I = [(false, nmI); (true, nmM)].
Proof.
  change FUEL with (S (S 14)). cbn [tree_names]. rewrite HIsubs, HIman. destruct HMleaf as [Es Em].
  cbn [flat_map map snd app tree_names]. rewrite Es, Em, HItop, HMsub. reflexivity.
Qed.

Lemma purge_deco d r : freshD d ->
  {| t := t (deco d r); p := purge_payload NO (tree_names NO FUEL I) (p (deco d r)) |} = d.
Proof.
  intros (HfI & HfM & _). rewrite tree_names_data.
  unfold EngineProofs.fresh, EngineProofs.own, own_dict in HfI, HfM. rewrite HItop in HfI. rewrite HMsub in HfM.
  unfold deco, purge_payload, EngineProofs.setk, with_own_dict, EngineProofs.own, own_dict. rewrite HItop. cbn [t p fold_left fst snd inds subs cur clean tagged].
  destruct d as [ts q]. destruct q as [cu cl tg ii ss]. cbn [t p Candle.inds Candle.subs Candle.cur Candle.clean Candle.tagged] in *.
  destruct (snd r) as [w|]; cbn [EngineProofs.slot]; unfold EngineProofs.setk, with_own_dict, EngineProofs.own, own_dict; rewrite ?HMsub;
    cbn [t p Candle.inds Candle.subs Candle.cur Candle.clean Candle.tagged].
  - rewrite (alist_del_set_fresh nmI _ ii HfI), (alist_del_set_fresh nmM _ ss HfM). reflexivity.
  - rewrite (alist_del_set_fresh nmI _ ii HfI), (alist_del_absent nmM ss HfM). reflexivity.
Qed.

Lemma purge_freshD_cd d : freshD d -> {| t := t d; p := purge_payload NO (tree_names NO FUEL I) (p d) |} = d.
Proof.
  intros (HfI & HfM & _). rewrite tree_names_data.
  unfold EngineProofs.fresh, EngineProofs.own, own_dict in HfI, HfM. rewrite HItop in HfI. rewrite HMsub in HfM.
  unfold purge_payload. cbn [fold_left fst snd]. destruct d as [ts q]. destruct q as [cu cl tg ii ss].
  cbn [t p Candle.inds Candle.subs Candle.cur Candle.clean Candle.tagged] in *.
  rewrite (alist_del_absent nmI ii HfI), (alist_del_absent nmM ss HfM). reflexivity.
Qed.
Lemma purge_freshD (ds : list cd) : Forall freshD ds -> purge NO I ds = ds.
Proof.
  induction 1 as [|d ds Hd _ IH]; [reflexivity|]. unfold purge, purge_names in *. cbn [map].
  rewrite (purge_freshD_cd d Hd). f_equal. exact IH.
Qed.

(* a canonical store is the canonical decoration of its purged candles, which are fresh *)
Lemma iscanonD_purge a : IsCanonD a -> Forall freshD (purge NO I a) /\ canonD (purge NO I a) = Ok a.
Proof.
  induction 1 as [|a d r Ha [IHf IHc] Hd Ev].
  - split; [constructor|reflexivity].
  - unfold purge, purge_names in *. rewrite map_app. cbn [map]. rewrite (purge_deco d r Hd). split.
    + apply Forall_app. split; [exact IHf|constructor; [exact Hd|constructor]].
    + unfold canonD in *. rewrite canonD_acc_app, IHc. cbn [bind canonD_acc]. rewrite Ev. reflexivity.
Qed.

(* recalculate() = purge() then calculate(): reproduces exactly the store it replaced *)
Theorem recalculate_reproducesD (st : store) : IsCanonD st -> calculate NO I (purge NO I st) = Ok st.
Proof.
  intros Hc. destruct (iscanonD_purge st Hc) as [Hf Hcan]. rewrite batch_is_canonD by exact Hf. exact Hcan.
Qed.

(* recomputing an index that already holds a reading, addressed from either end *)
Theorem calc_index_reproducesD (st : store) (i : Z) : IsCanonD st -> - zlen st <= i < zlen st ->
  calculate_index NO I i None st = Ok st.
Proof.
  intros Hc Hi. unfold calculate_index. change FUEL with (S (S (S 13))). rewrite run_S. cbn [step].
  rewrite !run_subs_nil. cbn [bind].
  set (s := if i <? 0 then i + zlen st else i).
  assert (Hs : 0 <= s < zlen st) by (unfold s; destruct (i <? 0) eqn:E; lia).
  rewrite (zrange_cons s (s + 1)) by lia. rewrite zrange_nil by lia. cbn [calc_loop bind].
  destruct (nth_error st (Z.to_nat s)) as [c|] eqn:En; [|apply nth_error_None in En; unfold zlen in *; lia].
  destruct (split_at NO st (Z.to_nat s) c En) as (a & rest & E & L).
  assert (Hz : s = zlen a) by (unfold zlen; lia). rewrite Hz. subst st.
  assert (Hac : IsCanonD (a ++ [c])).
  { eapply iscanonD_prefix; [exact Hc|]. instantiate (1 := rest). rewrite <- app_assoc. reflexivity. }
  assert (Ha : IsCanonD a) by (eapply iscanonD_prefix; [exact Hc|reflexivity]).
  destruct (iscanonD_last a c Hac) as (d & r & Hd & Er & Ec).
  assert (Hg : G c) by (rewrite Ec; apply G_deco; apply Hd).
  rewrite run_S. cbn [step]. rewrite (Hshape 13 a c rest Ha Hg).
  rewrite Ec at 1. rewrite (Hrecomp a d r Ha Hd Er). cbn [bind].
  rewrite Ec, slotM_deco. rewrite (set_reading_mid NO I a rest (deco d r)). cbn [bind].
  unfold deco at 1. rewrite setk_idem. fold (deco d r). rewrite run_subs_nil. reflexivity.
Qed.

Lemma canonD_acc_purge : forall todo a r, Forall freshD todo -> canonD_acc a todo = Ok r ->
  purge NO I r = purge NO I a ++ todo.
Proof.
  induction todo as [|d todo IH]; intros a r Hf H; cbn [canonD_acc] in H.
  - inversion H; subst. rewrite app_nil_r. reflexivity.
  - inversion Hf as [|? ? Hd Hf']; subst.
    destruct (D a d) as [r0|e]; cbn [bind] in H; [|discriminate].
    rewrite (IH _ _ Hf' H). rewrite (purge_app NO I). rewrite <- app_assoc. f_equal.
    unfold purge, purge_names. cbn [map]. rewrite (purge_deco d r0 Hd). reflexivity.
Qed.

(* the states a program of append / calculate / purge / recalculate / calculate_index (on a
   computed index of a fully calculated store) can reach, with the candles appended so far *)
Inductive ReachD : store -> list cd -> Prop :=
| RD_init : ReachD [] []
| RD_append st ds new st' : ReachD st ds -> Forall freshD new -> calculate NO I (st ++ new) = Ok st' -> ReachD st' (ds ++ new)
| RD_calculate st ds st' : ReachD st ds -> calculate NO I st = Ok st' -> ReachD st' ds
| RD_purge st ds : ReachD st ds -> ReachD (purge NO I st) ds
| RD_recalculate st ds st' : ReachD st ds -> calculate NO I (purge NO I st) = Ok st' -> ReachD st' ds
| RD_calc_index st ds i st' : ReachD st ds -> IsCanonD st -> - zlen st <= i < zlen st ->
    calculate_index NO I i None st = Ok st' -> ReachD st' ds.

Definition JD (st : store) (ds : list cd) : Prop :=
  Forall freshD ds /\ (st = ds \/ (IsCanonD st /\ canonD ds = Ok st)).

Lemma calculate_canonD st : IsCanonD st -> calculate NO I st = Ok st.
Proof. intros Hc. pose proof (append_is_canonD st [] Hc (Forall_nil _)) as A. rewrite app_nil_r in A. exact A. Qed.

Lemma JD_calculate st ds st' : JD st ds -> calculate NO I st = Ok st' -> JD st' ds.
Proof.
  intros [Hf [->|[Hc Hcan]]] H; split; try exact Hf; right.
  - rewrite batch_is_canonD in H by exact Hf.
    split; [eapply canonD_acc_iscanon; [constructor|exact Hf|exact H]|exact H].
  - rewrite (calculate_canonD st Hc) in H. inversion H; subst. split; assumption.
Qed.
Lemma JD_purge st ds : JD st ds -> JD (purge NO I st) ds.
Proof.
  intros [Hf [->|[Hc Hcan]]]; split; try exact Hf; left.
  - apply purge_freshD. exact Hf.
  - unfold canonD in Hcan. rewrite (canonD_acc_purge ds [] st Hf Hcan). reflexivity.
Qed.

Theorem reachD_JD st ds : ReachD st ds -> JD st ds.
Proof.
  induction 1 as [|st ds new st' _ IH Hn H|st ds st' _ IH H|st ds _ IH|st ds st' _ IH H|st ds i st' _ IH Hc Hi H].
  - split; [constructor|left; reflexivity].
  - destruct IH as [Hf [->|[Hc Hcan]]]; (split; [apply Forall_app; split; assumption|right]).
    + assert (Hall : Forall freshD (ds ++ new)) by (apply Forall_app; split; assumption).
      rewrite batch_is_canonD in H by exact Hall.
      split; [eapply canonD_acc_iscanon; [constructor|exact Hall|exact H]|exact H].
    + rewrite (append_is_canonD st new Hc Hn) in H.
      split; [eapply canonD_acc_iscanon; [exact Hc|exact Hn|exact H]|].
      unfold canonD in *. rewrite canonD_acc_app, Hcan. exact H.
  - eapply JD_calculate; eassumption.
  - apply JD_purge. exact IH.
  - eapply JD_calculate; [apply JD_purge; exact IH|exact H].
  - rewrite (calc_index_reproducesD st i Hc Hi) in H. inversion H; subst. exact IH.
Qed.

(* after any program, calculate() gives exactly what one calculate() over all the candles
   appended so far gives - the same store, or the same exception *)
Theorem programs_convergeD st ds : ReachD st ds -> calculate NO I st = calculate NO I ds.
Proof.
  intros HR. destruct (reachD_JD st ds HR) as [Hf [->|[Hc Hcan]]]; [reflexivity|].
  rewrite (batch_is_canonD ds Hf), Hcan. apply calculate_canonD. exact Hc.
Qed.

End DataSlot.
