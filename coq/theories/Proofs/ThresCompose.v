(* StandardDeviationThreshold over its StandardDeviation helper (which keeps its running mean and
   variance in "<helper>_data"): Proofs/CompositeData.v instantiated.
   P = a top-level STDEVTHRES, S = its helper "<name>_stdev", M = the helper's data series. *)
From Coq Require Import ZArith List String Ascii Bool Lia ZifyBool.
From Hexital Require Import Base.Prelude Base.Num Model.Manager Model.Candle Model.Readings Model.Analysis
  Model.Engine Proofs.ListProofs Proofs.EngineProofs Proofs.AnalysisProofs Proofs.CausalProofs Proofs.SimProofs Proofs.CompositeProofs.
From Hexital Require Import Proofs.DataSlot Proofs.DataInst Proofs.CompositeData.
Import ListNotations.
Local Open Scope string_scope.
Local Open Scope list_scope.
Local Open Scope Z_scope.

Section THRES.
Context (NO : NumOps).
Notation val := (val NO).
Notation cd := (cd (payload NO)).
Notation store := (store NO).
Variable period : Z.
Variable mult : num NO.
Variable input : string.
Variable name : string.
Variable rnd : Z.
Hypothesis Hperiod : 1 <= period.
Hypothesis Hnodot : has_dot name = false.

Definition Pt : ind NO := top NO (K_STDEVTHRES period mult input) name rnd.
Definition sdn : string := (name ++ "_stdev")%string.
Definition St : ind NO :=
  sub_ NO (K_STDEV period input) sdn true [] [("STDEV_data", sub_ NO K_MANAGED (sdn ++ "_data")%string true [] [])].
Notation Mt := (dataM NO St).

Lemma Pt_subs : i_subs NO Pt = [St]. Proof. reflexivity. Qed.
Lemma Pt_man : i_managed NO Pt = []. Proof. reflexivity. Qed.
Lemma St_man : i_managed NO St = [("STDEV_data", Mt)]. Proof. reflexivity. Qed.

(* the three series have different, dot-free names *)
Lemma name_neq_sdn : name <> sdn. Proof. apply append_neq_self. discriminate. Qed.
Lemma name_neq_data : name <> (sdn ++ "_data")%string.
Proof. unfold sdn. rewrite <- append_assoc3. apply append_neq_self. discriminate. Qed.
Lemma sdn_nodot : has_dot sdn = false. Proof. unfold sdn. rewrite has_dot_app, Hnodot. reflexivity. Qed.
Lemma data_nodot : has_dot (sdn ++ "_data")%string = false. Proof. rewrite has_dot_app, sdn_nodot. reflexivity. Qed.

Hypothesis Hattr : forall q, candle_attr NO q (sdn ++ "_data")%string = None.
(* the input is none of the three series *)
Hypothesis HinP : stable NO Pt input.
Hypothesis HinS : stable NO St input.
Hypothesis HinM : stable NO Mt input.

Lemma sdn_stable : stable NO Pt sdn.
Proof.
  apply stable_root. unfold root. rewrite split_dot_nodot by exact sdn_nodot. cbn [fst].
  change (i_name NO Pt) with name. intros E. apply name_neq_sdn. symmetry. exact E.
Qed.
Lemma data_field_stable k : has_dot k = false -> stable NO Pt ((sdn ++ "_data") ++ String "."%char k)%string.
Proof.
  intros Hk. apply stable_root. unfold root. rewrite (split_dot_app (sdn ++ "_data")%string k data_nodot). cbn [fst].
  change (i_name NO Pt) with name. intros E. apply name_neq_data. symmetry. exact E.
Qed.

(* ---- the parent's reading function is pure and causal ---- *)
Lemma thres_pure rec st i : calc_reading NO rec Pt st i = (v <- pure_calc NO Pt st i ;; Ok (v, st)).
Proof.
  unfold pure_calc, calc_reading. change (i_kind NO Pt) with (@K_STDEVTHRES NO period mult input). change (i_name NO Pt) with name.
  destruct (reading NO st (name ++ "_stdev") i) as [sd|]; cbn [bind]; [|reflexivity].
  destruct (is_none NO sd); [reflexivity|].
  destruct (as_num NO sd); cbn [bind]; [|reflexivity].
  destruct (rnum NO st input i); cbn [bind]; [|reflexivity].
  destruct (prev_reading NO st input i); cbn [bind]; [|reflexivity].
  destruct (as_num NO _); reflexivity.
Qed.
Lemma thres_causal : Causal NO Pt (pure_calc NO Pt).
Proof.
  intros a d x rest _ Hd. unfold pure_calc, calc_reading. change (i_kind NO Pt) with (@K_STDEVTHRES NO period mult input). change (i_name NO Pt) with name.
  fold sdn. rewrite (reading_stable_mid NO Pt a rest d x sdn sdn_stable).
  rewrite (rnum_stable_mid NO Pt a rest d x input HinP).
  rewrite (prev_reading_slot_mid NO Pt).
  destruct (reading NO (a ++ [d]) sdn (zlen a)) as [sd|]; cbn [bind]; [|reflexivity].
  destruct (is_none NO sd); [reflexivity|].
  destruct (as_num NO sd); cbn [bind]; [|reflexivity].
  destruct (rnum NO (a ++ [d]) input (zlen a)); cbn [bind]; [|reflexivity].
  destruct (prev_reading NO (a ++ [d]) input (zlen a)); cbn [bind]; [|reflexivity].
  destruct (as_num NO _); reflexivity.
Qed.

(* ---- the side condition and the parent's entry ---- *)
Lemma G_slotP d x : G NO St (slot NO Pt d x) <-> G NO St d.
Proof.
  destruct x as [v|]; cbn [slot]; [|reflexivity]. unfold G, setk, with_own_dict, own, own_dict. cbn [p i_sub Pt top children inds i_name St sub_].
  rewrite alist_get_set_other by exact name_neq_data. reflexivity.
Qed.

(* ---- the helper does not see the parent's entries ---- *)
Definition rnames : list string :=
  [input; ((sdn ++ "_data") ++ ".mean")%string; ((sdn ++ "_data") ++ ".variance")%string].
Lemma deco_sim (c c0 : cd) : decoP NO Pt c c0 -> sim NO rnames c c0.
Proof.
  intros [x ->]. split.
  - destruct x; [|reflexivity]. cbn [slot]. unfold setk, with_own_dict. cbn [p]. reflexivity.
  - intros n Hn. cbn [rnames In] in Hn. destruct Hn as [<-|[<-|[<-|[]]]].
    + apply HinP.
    + apply (data_field_stable "mean"). reflexivity.
    + apply (data_field_stable "variance"). reflexivity.
Qed.
Lemma deco_sim_list (a a0 : store) : Forall2 (decoP NO Pt) a a0 -> Forall2 (sim NO rnames) a a0.
Proof. induction 1; constructor; [apply deco_sim; assumption|assumption]. Qed.

Lemma stdev_indep (a a0 : store) (d d0 : cd) : Forall2 (decoP NO Pt) a a0 -> decoP NO Pt d d0 ->
  stdevD NO St period input a d = stdevD NO St period input a0 d0.
Proof.
  intros HD Hd. unfold stdevD. rewrite (decoP_len NO Pt a a0 HD).
  assert (Hs : Forall2 (sim NO rnames) (a ++ [d]) (a0 ++ [d0])).
  { apply Forall2_app; [apply deco_sim_list; exact HD|constructor; [apply deco_sim; exact Hd|constructor]]. }
  change (i_name NO St) with sdn.
  change (sdn ++ "_data.mean")%string with (sdn ++ ("_data" ++ ".mean"))%string.
  change (sdn ++ "_data.variance")%string with (sdn ++ ("_data" ++ ".variance"))%string.
  rewrite (append_assoc3 sdn "_data" ".mean"), (append_assoc3 sdn "_data" ".variance").
  apply bind_ext; [apply (reading_sim NO rnames _ _ Hs); left; reflexivity|intros xv].
  destruct (is_none NO xv); [reflexivity|].
  apply bind_ext; [reflexivity|intros x].
  apply bind_ext; [apply (rperiod_sim NO rnames _ _ Hs); left; reflexivity|intros rp].
  apply bind_ext; [destruct rp; [apply (rnum_sim NO rnames _ _ Hs); left; reflexivity|reflexivity]|intros removed].
  apply bind_ext; [apply (prev_reading_sim NO rnames _ _ Hs); right; left; reflexivity|intros pm].
  apply bind_ext; [reflexivity|intros om]. apply bind_ext; [reflexivity|intros dd].
  apply bind_ext; [apply (prev_reading_sim NO rnames _ _ Hs); right; right; left; reflexivity|intros pvv].
  reflexivity.
Qed.

Definition fresh_thres (c : cd) : Prop := fresh NO Pt c /\ freshD NO St Mt (G NO St) c.

Section Apply.
Let HplainM : has_dot (i_name NO St ++ "_data")%string = false /\ (forall q, candle_attr NO q (i_name NO St ++ "_data")%string = None) :=
  conj data_nodot Hattr.
Let HnameSM : i_name NO St <> i_name NO Mt := Hname NO St.
Let HGs : forall d w v, G NO St d -> G NO St (setk NO St (slot NO Mt d w) v) := G_pres NO St.
Let Hshape : forall f (a : store) (c : cd) (rest : store), IsCanonD NO St Mt (G NO St) (stdevD NO St period input) a -> G NO St c ->
  calc_reading NO (run NO (S f)) St (a ++ c :: rest) (zlen a) =
  (r <- stdevD NO St period input a c ;; Ok (fst r, a ++ slot NO Mt c (snd r) :: rest)).
Proof. intros f a c rest _ Hg. eapply stdev_shape; first [eassumption | reflexivity | exact St_man | exact HplainM]. Qed.
Let Hrecomp : forall (a : store) (d : cd) r, IsCanonD NO St Mt (G NO St) (stdevD NO St period input) a ->
  freshD NO St Mt (G NO St) d -> stdevD NO St period input a d = Ok r ->
  stdevD NO St period input a (deco NO St Mt d r) = Ok r.
Proof. intros a d r _ _ Er. unfold deco. rewrite (stdevD_deco NO St HplainM period input Hperiod HinS HinM). exact Er. Qed.

(* any split of a stream into append chunks ends in exactly the store one calculate() over the
   whole stream gives, whenever that calculate() succeeds *)
Theorem thres_incremental_equals_batch (chunks : list (list cd)) (r : store) :
  Forall (Forall fresh_thres) chunks -> calculate NO Pt (List.concat chunks) = Ok r -> engine_chunks NO Pt [] chunks = Ok r.
Proof.
  intros HF Hr.
  assert (HP : Forall (Forall (fresh NO Pt)) chunks).
  { eapply Forall_impl; [|exact HF]. intros ch Hch. eapply Forall_impl; [|exact Hch]. intros c Hc. apply Hc. }
  assert (HS : Forall (Forall (freshD NO St Mt (G NO St))) chunks).
  { eapply Forall_impl; [|exact HF]. intros ch Hch. eapply Forall_impl; [|exact Hch]. intros c Hc. apply Hc. }
  eapply (composite_incremental_equals_batch NO Pt St Mt) with (calcP := pure_calc NO Pt) (D := stdevD NO St period input) (G := G NO St);
    first [eassumption | reflexivity | exact thres_pure | exact thres_causal | exact G_slotP | exact stdev_indep].
Qed.

Theorem thres_batch_is_causal (ds more : list cd) (r : store) :
  Forall fresh_thres (ds ++ more) -> calculate NO Pt (ds ++ more) = Ok r ->
  exists mid tl, calculate NO Pt ds = Ok mid /\ r = mid ++ tl.
Proof.
  intros HF Hr.
  assert (HP : Forall (fresh NO Pt) (ds ++ more)) by (eapply Forall_impl; [|exact HF]; intros c Hc; apply Hc).
  assert (HS : Forall (freshD NO St Mt (G NO St)) (ds ++ more)) by (eapply Forall_impl; [|exact HF]; intros c Hc; apply Hc).
  eapply (composite_batch_is_causal NO Pt St Mt) with (calcP := pure_calc NO Pt) (D := stdevD NO St period input) (G := G NO St);
    first [eassumption | reflexivity | exact thres_pure | exact thres_causal | exact G_slotP | exact stdev_indep].
Qed.

Theorem thres_calculate_idempotent (xs : list cd) (st : store) :
  Forall fresh_thres xs -> calculate NO Pt xs = Ok st -> calculate NO Pt st = Ok st.
Proof.
  intros HF Hr.
  assert (HP : Forall (fresh NO Pt) xs) by (eapply Forall_impl; [|exact HF]; intros c Hc; apply Hc).
  assert (HS : Forall (freshD NO St Mt (G NO St)) xs) by (eapply Forall_impl; [|exact HF]; intros c Hc; apply Hc).
  eapply (composite_calculate_idempotent NO Pt St Mt) with (calcP := pure_calc NO Pt) (D := stdevD NO St period input) (G := G NO St);
    first [eassumption | reflexivity | exact thres_pure | exact thres_causal | exact G_slotP | exact stdev_indep].
Qed.
End Apply.
End THRES.
