(* C10: the Donchian channel encloses the candle's own high and low.  About the faithful
   _calculate_reading model over the reals, for the candle at index |a| of any store a ++ c :: rest. *)
From Coq Require Import ZArith List String Bool Reals Lra Lia ZifyBool.
From Hexital Require Import Base.Prelude Base.Num Model.Manager Model.Candle Model.Readings Model.Analysis
  Model.Engine Inst.RealInst Proofs.ListProofs Proofs.ExtremeProofs Proofs.StructProofs.
Import ListNotations.
Local Open Scope Z_scope.

Notation F := ROps.

Lemma pyslice_upto (a rest : store F) (c : cd (payload F)) lo : 0 <= lo <= zlen a ->
  pyslice (a ++ c :: rest) lo (zlen a + 1) = skipn (Z.to_nat lo) a ++ [c].
Proof.
  intros Hlo. pose proof (zlen_nonneg a). pose proof (zlen_nonneg rest).
  assert (L1 : zlen (a ++ c :: rest) = zlen a + 1 + zlen rest).
  { rewrite zlen_app. unfold zlen. cbn [List.length]. lia. }
  unfold pyslice. rewrite L1. unfold slice_bound.
  assert (E1 : (lo <? 0) = false) by lia. assert (E2 : (zlen a + 1 <? 0) = false) by lia. rewrite E1, E2.
  replace (Z.min lo (zlen a + 1 + zlen rest)) with lo by lia.
  replace (Z.min (zlen a + 1) (zlen a + 1 + zlen rest)) with (zlen a + 1) by lia.
  assert (B : (zlen a + 1 <=? lo) = false) by lia. rewrite B.
  rewrite skipn_app. replace (Z.to_nat lo - List.length a)%nat with 0%nat by (unfold zlen in *; lia).
  cbn [skipn]. rewrite firstn_app. rewrite skipn_length.
  replace (Z.to_nat (zlen a + 1 - lo) - (List.length a - Z.to_nat lo))%nat with 1%nat by (unfold zlen in *; lia).
  rewrite firstn_all2 by (rewrite skipn_length; unfold zlen in *; lia). reflexivity.
Qed.

Lemma mapM_snoc {A B} (f : A -> res B) : forall (l : list A) (x : A) vs, mapM f (l ++ [x]) = Ok vs ->
  exists vs0 y, mapM f l = Ok vs0 /\ f x = Ok y /\ vs = vs0 ++ [y].
Proof.
  induction l as [|z l IH]; intros x vs H; cbn [app mapM] in H.
  - destruct (f x) as [y|]; cbn [bind] in H; [|discriminate]. inversion H; subst. exists [], y. repeat split.
  - destruct (f z) as [w|] eqn:Ez; cbn [bind] in H; [|discriminate].
    destruct (mapM f (l ++ [x])) as [vs'|] eqn:E; cbn [bind] in H; [|discriminate]. inversion H; subst.
    destruct (IH x vs' E) as (vs0 & y & E0 & Ey & ->). exists (w :: vs0), y. cbn [mapM]. rewrite Ez, E0. cbn [bind]. repeat split; assumption.
Qed.

(* the candle's own number-like reading is among the clean readings of a window that includes it *)
Lemma own_reading_in_window (a rest : store F) (c : cd (payload F)) (name : string) (length : Z) (x : R) rs :
  0 <= length -> reading_by_candle F (p c) name = Ok (@VNum F x) ->
  clean_readings F (a ++ c :: rest) name length (zlen a) true = Ok rs -> In (@VNum F x) rs.
Proof.
  intros Hl Hx H. unfold clean_readings in H. pose proof (zlen_nonneg a).
  set (lo := if zlen a - length <? 0 then 0 else zlen a - length) in *.
  assert (Hlo : 0 <= lo <= zlen a) by (unfold lo; destruct (zlen a - length <? 0) eqn:E; lia).
  rewrite (pyslice_upto a rest c lo Hlo) in H.
  destruct (mapM (fun c0 => reading_by_candle F (p c0) name) (skipn (Z.to_nat lo) a ++ [c])) as [vs|] eqn:E; cbn [bind] in H; [|discriminate].
  destruct (mapM_snoc _ _ _ _ E) as (vs0 & y & _ & Ey & ->). rewrite Hx in Ey. inversion Ey; subst y.
  inversion H; subst rs. rewrite rev_app_distr. cbn [rev app filter]. unfold is_numlike. cbn [numlike]. left. reflexivity.
Qed.

Section Donchian.
Variable I : ind F.

Theorem donchian_encloses_candle rec (period : Z) (a rest : store F) (c : cd (payload F)) st' l u ln un dm :
  i_kind F I = K_DONCHIAN period -> 1 <= period ->
  calc_reading F rec I (a ++ c :: rest) (zlen a) = Ok (VDict [("DCL"%string, l); ("DCM"%string, dm); ("DCU"%string, u)], st') ->
  as_num F l = Ok ln -> as_num F u = Ok un -> l <> VBool false -> u <> VBool false ->
  (ln <= c_low F (cur F (p c)) /\ c_high F (cur F (p c)) <= un)%R.
Proof.
  intros K Hp H El Eu Hlf Huf. unfold calc_reading in H. rewrite K in H.
  destruct (prev_reading F (a ++ c :: rest) (i_name F I ++ ".DCU") (zlen a)) as [pd|]; cbn [bind] in H; [|discriminate].
  destruct (if negb (is_none F pd) then Ok true else rperiod F (a ++ c :: rest) period "high" (zlen a)) as [[|]|]; cbn [bind] in H;
    try discriminate.
  2:{ unfold ret in H. inversion H; subst. cbn in El. discriminate. }
  destruct (mv_highest F (a ++ c :: rest) "high" (period - 1) (zlen a)) as [u'|] eqn:EH; cbn [bind] in H; [|discriminate].
  destruct (mv_lowest F (a ++ c :: rest) "low" (period - 1) (zlen a)) as [l'|] eqn:EL; cbn [bind] in H; [|discriminate].
  destruct (as_num F u') as [un'|] eqn:EU'; cbn [bind] in H; [|discriminate].
  destruct (as_num F l') as [ln'|] eqn:EL'; cbn [bind] in H; [|discriminate].
  destruct (divn F _ _) as [m|]; cbn [bind] in H; [|discriminate].
  unfold ret in H. inversion H; subst l' u'. clear H.
  assert (Hun : u <> VNone) by (intros ->; cbn in Eu; discriminate).
  assert (Hln : l <> VNone) by (intros ->; cbn in El; discriminate).
  pose proof (zlen_nonneg a). pose proof (zlen_nonneg rest).
  assert (A : absindex (zlen a) (zlen (a ++ c :: rest)) = Some (zlen a)).
  { assert (L1 : zlen (a ++ c :: rest) = zlen a + 1 + zlen rest) by (rewrite zlen_app; unfold zlen; cbn [List.length]; lia).
    apply absindex_some. lia. }
  destruct (highest_is_window_max _ _ _ _ _ EH Hun Huf) as (i & rs & Ai & Crs & _ & Hb).
  rewrite A in Ai. inversion Ai; subst i.
  destruct (lowest_is_window_min _ _ _ _ _ EL Hln Hlf) as (i2 & rs2 & Ai2 & Crs2 & _ & Hb2).
  rewrite A in Ai2. inversion Ai2; subst i2.
  assert (Hh : In (@VNum F (c_high F (cur F (p c)))) rs).
  { apply (own_reading_in_window a rest c "high" (period - 1) _ rs); [lia|reflexivity|exact Crs]. }
  assert (Hlw : In (@VNum F (c_low F (cur F (p c)))) rs2).
  { apply (own_reading_in_window a rest c "low" (period - 1) _ rs2); [lia|reflexivity|exact Crs2]. }
  specialize (Hb _ Hh). specialize (Hb2 _ Hlw).
  assert (Nu : num_of F u = un). { unfold num_of. unfold as_num in Eu. destruct (numlike F u); inversion Eu; reflexivity. }
  assert (Nl : num_of F l = ln). { unfold num_of. unfold as_num in El. destruct (numlike F l); inversion El; reflexivity. }
  rewrite Nu in Hb. rewrite Nl in Hb2. cbn [num_of numlike] in Hb, Hb2. split; assumption.
Qed.
End Donchian.
