(* Discharged obligations of the engine theorem for the window indicators (Donchian, HL,
   AROON: through C16's truncation theorem for the movement functions they call) and VWMA. *)
From Coq Require Import ZArith List String Ascii Bool Lia ZifyBool.
From Hexital Require Import Base.Prelude Base.Num Model.Manager Model.Candle Model.Readings Model.Analysis
  Model.Engine Proofs.ListProofs Proofs.EngineProofs Proofs.AnalysisProofs Proofs.CausalProofs Proofs.CausalMore.
Import ListNotations.
Local Open Scope Z_scope.

Section Win.
Context (NO : NumOps).
Notation val := (val NO).
Notation payload := (payload NO).
Notation cd := (cd payload).
Notation store := (store NO).
Variable I : ind NO.
Notation nm := (i_name NO I).
Notation stable := (stable NO I).
Notation pure_calc := (pure_calc NO I).

Lemma slot_cur' d x : cur NO (p (slot NO I d x)) = cur NO (p d).
Proof. destruct x; [|reflexivity]. cbn [slot]. unfold setk, with_own_dict. cbn [p]. destruct (i_sub NO I); reflexivity. Qed.
Lemma sim_refl' names (l : store) : Forall2 (sim NO names) l l.
Proof. induction l; constructor; [split; reflexivity|assumption]. Qed.

(* any analysis function evaluated at index |a|: later candles and the own slot do not matter *)
Lemma afun_mid (f : afun) (a rest : store) d x : wf_afun f = true -> (forall n, In n (names_of f) -> stable n) ->
  run_afun NO f (a ++ slot NO I d x :: rest) (Some (zlen a)) = run_afun NO f (a ++ [d]) (Some (zlen a)).
Proof.
  intros Hwf Hst. pose proof (zlen_nonneg a). pose proof (zlen_nonneg rest).
  assert (Hi : 0 <= zlen a < zlen (a ++ slot NO I d x :: rest)).
  { rewrite zlen_app. unfold zlen. cbn [List.length]. lia. }
  rewrite <- (truncation NO (a ++ slot NO I d x :: rest) (zlen a) Hi f Hwf).
  replace (firstn (Z.to_nat (zlen a + 1)) (a ++ slot NO I d x :: rest)) with (a ++ [slot NO I d x]).
  2:{ replace (Z.to_nat (zlen a + 1)) with (List.length a + 1)%nat by (unfold zlen; lia).
      rewrite firstn_app. replace (List.length a + 1 - List.length a)%nat with 1%nat by lia.
      rewrite firstn_all2 by lia. reflexivity. }
  apply (run_afun_sim NO (names_of f)); [|apply incl_refl].
  apply Forall2_app; [apply sim_refl'|]. constructor; [|constructor].
  split; [apply slot_cur'|]. intros n Hn. apply (Hst n Hn).
Qed.

Lemma st_high n : In n ["high"%string] -> stable n.
Proof. intros [<-|[]]. apply stable_high. Qed.
Lemma st_low n : In n ["low"%string] -> stable n.
Proof. intros [<-|[]]. apply stable_low. Qed.

Ltac finish_proj :=
  repeat match goal with
  | |- context [bind (rnum NO ?s ?n ?i) _] => destruct (rnum NO s n i); cbn [bind]
  | |- context [bind (as_num NO ?v) _] => destruct (as_num NO v); cbn [bind]
  | |- context [bind (divn NO ?a ?b) _] => destruct (divn NO a b); cbn [bind]
  | |- context [bind (reading NO ?s ?n ?i) _] => destruct (reading NO s n i); cbn [bind]
  | |- context [bind (prev_reading NO ?s ?n ?i) _] => destruct (prev_reading NO s n i); cbn [bind]
  | |- context [bind (prev_exists NO ?s ?n ?i) _] => destruct (prev_exists NO s n i) as [[|]|]; cbn [bind]
  | |- context [bind (rperiod NO ?s ?p ?n ?i) _] => destruct (rperiod NO s p n i) as [[|]|]; cbn [bind]
  | |- context [bind (csum NO ?s ?p ?n ?i) _] => destruct (csum NO s p n i); cbn [bind]
  | |- context [bind (mapM ?f ?l) _] => destruct (mapM f l); cbn [bind]
  | |- context [bind (mv_highest NO ?s ?n ?l ?i) _] => destruct (mv_highest NO s n l i); cbn [bind]
  | |- context [bind (mv_lowest NO ?s ?n ?l ?i) _] => destruct (mv_lowest NO s n l i); cbn [bind]
  | |- context [bind (mv_highestbar NO ?s ?n ?l ?i) _] => destruct (mv_highestbar NO s n l i); cbn [bind]
  | |- context [bind (mv_lowestbar NO ?s ?n ?l ?i) _] => destruct (mv_lowestbar NO s n l i); cbn [bind]
  | |- context [if ?b then _ else _] => destruct b
  end; try reflexivity.

Section HL.
Variable period : Z.
Hypothesis K : i_kind NO I = K_HL period.
Lemma hl_pure rec st i : calc_reading NO rec I st i = (v <- pure_calc st i ;; Ok (v, st)).
Proof. unfold CausalProofs.pure_calc, calc_reading. rewrite K. finish_proj. Qed.
Lemma hl_causal : Causal NO I pure_calc.
Proof.
  intros a d x rest _ Hd. unfold CausalProofs.pure_calc, calc_reading. rewrite K.
  pose proof (afun_mid (A_lowest "low"%string period) a rest d x eq_refl st_low) as E1.
  pose proof (afun_mid (A_highest "high"%string period) a rest d x eq_refl st_high) as E2.
  cbn [run_afun] in E1, E2. rewrite E1, E2. finish_proj.
Qed.
End HL.

Section DONCHIAN.
Variable period : Z.
Hypothesis K : i_kind NO I = K_DONCHIAN period.
Hypothesis Hperiod : 1 <= period.
Lemma donchian_pure rec st i : calc_reading NO rec I st i = (v <- pure_calc st i ;; Ok (v, st)).
Proof. unfold CausalProofs.pure_calc, calc_reading. rewrite K. finish_proj. Qed.
Lemma donchian_causal : Causal NO I pure_calc.
Proof.
  intros a d x rest _ Hd. unfold CausalProofs.pure_calc, calc_reading. rewrite K.
  rewrite !prev_reading_slot_mid. rewrite (rperiod_mid NO I a rest d x "high"%string period (stable_high NO I) Hperiod).
  pose proof (afun_mid (A_lowest "low"%string (period - 1)) a rest d x eq_refl st_low) as E1.
  pose proof (afun_mid (A_highest "high"%string (period - 1)) a rest d x eq_refl st_high) as E2.
  cbn [run_afun] in E1, E2. rewrite E1, E2. finish_proj.
Qed.
End DONCHIAN.

Section AROON.
Variable period : Z.
Hypothesis K : i_kind NO I = K_AROON period.
Hypothesis Hperiod : 0 <= period.
Lemma aroon_pure rec st i : calc_reading NO rec I st i = (v <- pure_calc st i ;; Ok (v, st)).
Proof. unfold CausalProofs.pure_calc, calc_reading. rewrite K. finish_proj. Qed.
Lemma aroon_causal : Causal NO I pure_calc.
Proof.
  intros a d x rest _ Hd. unfold CausalProofs.pure_calc, calc_reading. rewrite K.
  rewrite (rperiod_mid NO I a rest d x "high"%string (period + 1) (stable_high NO I) ltac:(lia)).
  pose proof (afun_mid (A_lowestbar "low"%string (period + 1)) a rest d x eq_refl st_low) as E1.
  pose proof (afun_mid (A_highestbar "high"%string (period + 1)) a rest d x eq_refl st_high) as E2.
  cbn [run_afun] in E1, E2. rewrite E1, E2. finish_proj.
Qed.
End AROON.
Section VWMA.
Variable period : Z.
Hypothesis K : i_kind NO I = K_VWMA period.
Hypothesis Hperiod : 1 <= period.
Hypothesis Htop : i_sub NO I = false.
Hypothesis Hplain : has_dot nm = false /\ forall q, candle_attr NO q nm = None.
Lemma vwma_pure rec st i : calc_reading NO rec I st i = (v <- pure_calc st i ;; Ok (v, st)).
Proof.
  unfold CausalProofs.pure_calc, calc_reading. rewrite K.
  destruct (prev_exists NO st nm i) as [[|]|]; cbn [bind]; try reflexivity.
  - destruct (mapM _ _); cbn [bind]; [|reflexivity].
    destruct (csum NO st period "volume"%string i); cbn [bind]; [|reflexivity].
    destruct (py_eq NO _ _); finish_proj.
  - destruct (rperiod NO st period "close"%string i) as [[|]|]; cbn [bind]; try reflexivity.
    destruct (mapM _ _); cbn [bind]; [|reflexivity].
    destruct (csum NO st period "volume"%string i); cbn [bind]; [|reflexivity].
    destruct (py_eq NO _ _); finish_proj.
Qed.
Lemma vwma_warm (a : store) d v : pure_calc (a ++ [d]) (zlen a) = Ok v -> is_none NO v = false ->
  prev_exists NO (a ++ [d]) nm (zlen a) = Ok true \/ period - 1 <= zlen a.
Proof.
  intros Ev Hn. unfold CausalProofs.pure_calc, calc_reading in Ev. rewrite K in Ev.
  destruct (prev_exists NO (a ++ [d]) nm (zlen a)) as [[|]|] eqn:Pe; cbn [bind] in Ev; try discriminate; [left; reflexivity|].
  right. destruct (rperiod NO (a ++ [d]) period "close"%string (zlen a)) as [[|]|] eqn:Rp; cbn [bind] in Ev; try discriminate.
  - apply rperiod_true_bound in Rp. lia.
  - unfold ret in Ev. inversion Ev; subst v. discriminate.
Qed.
Lemma vwma_terms (a rest : store) d x : 0 <= zlen a - (period - 1) ->
  forall j : Z, In j (zrange (zlen a - (period - 1)) (zlen a + 1)) ->
  (c <- rnum NO (a ++ slot NO I d x :: rest) "close"%string j ;; v <- rnum NO (a ++ slot NO I d x :: rest) "volume"%string j ;; Ok (nmul NO c v)) =
  (c <- rnum NO (a ++ [d]) "close"%string j ;; v <- rnum NO (a ++ [d]) "volume"%string j ;; Ok (nmul NO c v)).
Proof.
  intros Hb j Hin. unfold zrange in Hin. apply in_map_iff in Hin. destruct Hin as (k & <- & Hk). apply in_seq in Hk.
  rewrite !(rnum_mid_le NO I a rest d x) by (try apply stable_close; try apply stable_volume; lia). reflexivity.
Qed.
Lemma vwma_causal : Causal NO I pure_calc.
Proof.
  intros a d x rest Ha Hd. unfold CausalProofs.pure_calc, calc_reading. rewrite K.
  rewrite prev_exists_slot_mid.
  rewrite (rperiod_mid NO I a rest d x "close"%string period (stable_close NO I) Hperiod).
  pose proof (zlen_nonneg a).
  assert (Go : forall (Hb : 0 <= zlen a - (period - 1)),
    (x0 <- (terms <- mapM (fun j => c <- rnum NO (a ++ slot NO I d x :: rest) "close"%string j ;; v <- rnum NO (a ++ slot NO I d x :: rest) "volume"%string j ;; Ok (nmul NO c v))
                      (zrange (zlen a - (period - 1)) (zlen a + 1)) ;;
            vv <- csum NO (a ++ slot NO I d x :: rest) period "volume"%string (zlen a) ;;
            (if py_eq NO vv (VNum (zn NO 0))
             then cv <- csum NO (a ++ slot NO I d x :: rest) period "close"%string (zlen a) ;; c <- as_num NO cv ;; q <- divn NO c (zn NO period) ;; ret NO (vnum NO q) (a ++ slot NO I d x :: rest)
             else v <- as_num NO vv ;; q <- divn NO (nsum NO terms) v ;; ret NO (vnum NO q) (a ++ slot NO I d x :: rest))) ;;
     (let (v, _) := x0 in Ok v)) =
    (x0 <- (terms <- mapM (fun j => c <- rnum NO (a ++ [d]) "close"%string j ;; v <- rnum NO (a ++ [d]) "volume"%string j ;; Ok (nmul NO c v))
                      (zrange (zlen a - (period - 1)) (zlen a + 1)) ;;
            vv <- csum NO (a ++ [d]) period "volume"%string (zlen a) ;;
            (if py_eq NO vv (VNum (zn NO 0))
             then cv <- csum NO (a ++ [d]) period "close"%string (zlen a) ;; c <- as_num NO cv ;; q <- divn NO c (zn NO period) ;; ret NO (vnum NO q) (a ++ [d])
             else v <- as_num NO vv ;; q <- divn NO (nsum NO terms) v ;; ret NO (vnum NO q) (a ++ [d]))) ;;
     (let (v, _) := x0 in Ok v))).
  { intros Hb. rewrite (mapM_ext _ _ _ (vwma_terms a rest d x Hb)).
    rewrite (csum_mid NO I a rest d x "volume"%string period (stable_volume NO I) Hperiod Hb).
    rewrite (csum_mid NO I a rest d x "close"%string period (stable_close NO I) Hperiod Hb).
    destruct (mapM _ _); cbn [bind]; [|reflexivity].
    destruct (csum NO (a ++ [d]) period "volume"%string (zlen a)); cbn [bind]; [|reflexivity].
    destruct (py_eq NO _ _); finish_proj. }
  destruct (prev_exists NO (a ++ [d]) nm (zlen a)) as [[|]|] eqn:Pe; cbn [bind]; try reflexivity.
  - pose proof (prev_true_bound NO I (period - 1) Htop Hplain vwma_warm a d Ha Pe). apply Go. lia.
  - destruct (rperiod NO (a ++ [d]) period "close"%string (zlen a)) as [[|]|] eqn:Rp; cbn [bind]; try reflexivity.
    apply rperiod_true_bound in Rp. apply Go. exact Rp.
Qed.
End VWMA.
End Win.
