(* The frame property of the indicator engine: whatever an indicator tree does - calculate,
   calculate_index, a managed set_reading, any _calculate_reading - it leaves the number of
   candles, their timestamps, OHLCV, clean values and tags alone and only writes entries
   named in its own tree, into the dictionary each node owns. *)
From Coq Require Import ZArith List String Bool Lia.
From Hexital Require Import Base.Prelude Base.Num Model.Manager Model.Candle Model.Readings Model.Analysis
  Model.Engine Proofs.ListProofs Proofs.AccessProofs.
Import ListNotations.
Local Open Scope Z_scope.

Section Frame.
Context (NO : NumOps).
Notation val := (val NO).
Notation payload := (payload NO).
Notation cd := (cd payload).
Notation store := (store NO).
Notation ind := (ind NO).

Definition same_but (names : list (bool * string)) (c c' : cd) : Prop :=
  t c' = t c /\ cur NO (p c') = cur NO (p c) /\ clean NO (p c') = clean NO (p c) /\
  tagged NO (p c') = tagged NO (p c) /\
  forall sub nm, ~ In (sub, nm) names -> lookup_own NO sub (p c') nm = lookup_own NO sub (p c) nm.

Definition frame (names : list (bool * string)) (st st' : store) : Prop := Forall2 (same_but names) st st'.

Lemma same_but_refl names c : same_but names c c.
Proof. repeat split. Qed.
Lemma frame_refl names st : frame names st st.
Proof. induction st; constructor; [apply same_but_refl|assumption]. Qed.
Lemma same_but_trans names a b c : same_but names a b -> same_but names b c -> same_but names a c.
Proof.
  intros (A1 & A2 & A3 & A4 & A5) (B1 & B2 & B3 & B4 & B5). repeat split; try congruence.
  intros sub nm H. rewrite B5, A5 by assumption. reflexivity.
Qed.
Lemma frame_trans names a b c : frame names a b -> frame names b c -> frame names a c.
Proof.
  intros H. revert c. induction H as [|x y l l' Hxy H IH]; intros c Hc; inversion Hc; subst; constructor.
  - eapply same_but_trans; eassumption.
  - apply IH. assumption.
Qed.
Lemma same_but_mono names names' c c' : incl names names' -> same_but names c c' -> same_but names' c c'.
Proof.
  intros Hi (A1 & A2 & A3 & A4 & A5). repeat split; try assumption.
  intros sub nm H. apply A5. intros Hin. apply H. apply Hi. exact Hin.
Qed.
Lemma frame_mono names names' st st' : incl names names' -> frame names st st' -> frame names' st st'.
Proof. intros Hi H. induction H; constructor; [eapply same_but_mono; eassumption|assumption]. Qed.
Lemma frame_length names st st' : frame names st st' -> List.length st' = List.length st.
Proof. intros H. induction H; cbn; congruence. Qed.

(* replacing one candle by a candle that is same_but *)
Lemma frame_list_set names : forall (st : store) k c c', nth_error st k = Some c -> same_but names c c' ->
  frame names st (list_set st k c').
Proof.
  intros st k c c' Hk Hs. unfold list_set. rewrite Hk.
  revert k Hk. induction st as [|x st IH]; intros k Hk; [destruct k; discriminate|].
  destruct k as [|k]; cbn in *.
  - inversion Hk; subst. constructor; [exact Hs|apply frame_refl].
  - constructor; [apply same_but_refl|apply IH; exact Hk].
Qed.

Lemma set_reading_frame (st st' : store) (I : ind) v i :
  set_reading NO st I v i = Ok st' -> frame [(i_sub NO I, i_name NO I)] st st'.
Proof.
  unfold set_reading. destruct (nat_index NO st i) as [k|]; [|discriminate].
  destruct (nth_error st k) as [c|] eqn:Hk; [|discriminate]. intros H. inversion H; subst st'. clear H.
  eapply frame_list_set; [exact Hk|].
  unfold same_but, with_own_dict, own_dict, lookup_own. cbn [t p].
  destruct (i_sub NO I) eqn:Es; cbn [cur clean tagged inds subs]; repeat split.
  - intros sub nm Hn. destruct sub; [|reflexivity].
    apply alist_get_set_other. intros E. apply Hn. left. rewrite E. reflexivity.
  - intros sub nm Hn. destruct sub; [reflexivity|].
    apply alist_get_set_other. intros E. apply Hn. left. rewrite E. reflexivity.
Qed.

Lemma set_ind_direct_frame (st st' : store) name v i :
  set_ind_direct NO st name v i = Ok st' -> frame [(false, name)] st st'.
Proof.
  unfold set_ind_direct. destruct (nat_index NO st i) as [k|]; [|discriminate].
  destruct (nth_error st k) as [c|] eqn:Hk; [|discriminate]. intros H. inversion H; subst st'. clear H.
  eapply frame_list_set; [exact Hk|].
  unfold same_but, lookup_own. cbn [t p cur clean tagged inds subs]. repeat split.
  intros sub nm Hn. destruct sub; [reflexivity|].
  apply alist_get_set_other. intros E. apply Hn. left. rewrite E. reflexivity.
Qed.


(* MACD writes its temporary reading straight into candle.indicators: that is its own
   dictionary only for a top-level node, which is how every shipped tree uses it *)
Fixpoint wf_tree (fuel : nat) (I : ind) : Prop :=
  match fuel with
  | O => True
  | S f => (match i_kind NO I with K_MACD _ _ _ _ => i_sub NO I = false | _ => True end) /\
           Forall (wf_tree f) (i_subs NO I) /\ Forall (fun km => wf_tree f (snd km)) (i_managed NO I)
  end.

Section Step.
Variable f : nat.
Variable rec : request NO -> ind -> store -> res (val * store).
Hypothesis Hrec : forall req J st v st', wf_tree f J -> rec req J st = Ok (v, st') -> frame (tree_names NO f J) st st'.

Variable I : ind.
Hypothesis Hwf : wf_tree (S f) I.
Let NAMES := tree_names NO (S f) I.

Lemma own_in_names : incl [(i_sub NO I, i_name NO I)] NAMES.
Proof. intros x [<-|[]]. left. reflexivity. Qed.
Lemma sub_in_names s : In s (i_subs NO I) -> incl (tree_names NO f s) NAMES.
Proof.
  intros Hs x Hx. right. apply in_or_app. left. apply in_flat_map. exists s. split; assumption.
Qed.
Lemma managed_in_names k m : alist_get k (i_managed NO I) = Some m -> incl (tree_names NO f m) NAMES /\ wf_tree f m.
Proof.
  destruct Hwf as (_ & _ & Hm). intros Hk.
  assert (Hin : In (k, m) (i_managed NO I)).
  { clear Hm. induction (i_managed NO I) as [|[k' m'] l IH]; cbn in Hk; [discriminate|].
    destruct (String.eqb k k') eqn:E; [inversion Hk; apply String.eqb_eq in E; subst; left; reflexivity|right; apply IH; exact Hk]. }
  split.
  - intros x Hx. right. apply in_or_app. right. apply in_flat_map. exists (k, m). split; assumption.
  - rewrite Forall_forall in Hm. apply (Hm (k, m) Hin).
Qed.

Lemma run_subs_frame prior range : forall st st', run_subs NO rec prior I range st = Ok st' -> frame NAMES st st'.
Proof.
  unfold run_subs. destruct Hwf as (_ & Hs & _).
  assert (G : forall subs, incl subs (i_subs NO I) -> forall st st',
    foldM (fun st' s => if Bool.eqb (i_prior NO s && i_sub NO s) prior then
        match range with
        | Some (a, b) => if negb (a =? 0) && negb (b =? 0)
                         then '(_, st'') <- rec (RCalcIndex NO a (Some b)) s st' ;; Ok st''
                         else '(_, st'') <- rec (RCalculate NO) s st' ;; Ok st''
        | None => '(_, st'') <- rec (RCalculate NO) s st' ;; Ok st''
        end else Ok st') subs st = Ok st' -> frame NAMES st st').
  { induction subs as [|s subs IH]; intros Hi st st' H; cbn [foldM] in H; [inversion H; apply frame_refl|].
    assert (Hin : In s (i_subs NO I)) by (apply Hi; left; reflexivity).
    assert (Hw : wf_tree f s) by (rewrite Forall_forall in Hs; apply Hs; exact Hin).
    assert (R : forall req a b w, rec req s a = Ok (w, b) -> frame NAMES a b).
    { intros req a b w Hr. eapply frame_mono; [apply sub_in_names; exact Hin|]. eapply Hrec; eassumption. }
    match type of H with bind ?m _ = _ => destruct m as [mid|e] eqn:Em; cbn [bind] in H; [|discriminate] end.
    eapply frame_trans; [|apply IH; [intros x Hx; apply Hi; right; exact Hx|exact H]].
    destruct (Bool.eqb (i_prior NO s && i_sub NO s) prior); [|inversion Em; apply frame_refl].
    destruct range as [[a b]|].
    - destruct (negb (a =? 0) && negb (b =? 0)).
      + destruct (rec (RCalcIndex NO a (Some b)) s st) as [[w x]|] eqn:Er; cbn [bind] in Em; [|discriminate].
        inversion Em; subst. eapply R; exact Er.
      + destruct (rec (RCalculate NO) s st) as [[w x]|] eqn:Er; cbn [bind] in Em; [|discriminate].
        inversion Em; subst. eapply R; exact Er.
    - destruct (rec (RCalculate NO) s st) as [[w x]|] eqn:Er; cbn [bind] in Em; [|discriminate].
      inversion Em; subst. eapply R; exact Er. }
  intros st st' H. apply (G (i_subs NO I)); [apply incl_refl|exact H].
Qed.

Lemma managed_set_frame key v i st st' : managed_set NO rec I key v i st = Ok st' -> frame NAMES st st'.
Proof.
  unfold managed_set, find_managed. destruct (alist_get key (i_managed NO I)) as [m|] eqn:Ek; cbn [of_opt bind]; [|discriminate].
  destruct (rec (RSetReading NO v i) m st) as [[w x]|] eqn:Er; cbn [bind]; [|discriminate].
  intros H. inversion H; subst. destruct (managed_in_names key m Ek) as [Hi Hw].
  eapply frame_mono; [exact Hi|]. eapply Hrec; eassumption.
Qed.
Lemma managed_calc_index_frame key i st st' : managed_calc_index NO rec I key i st = Ok st' -> frame NAMES st st'.
Proof.
  unfold managed_calc_index, find_managed. destruct (alist_get key (i_managed NO I)) as [m|] eqn:Ek; cbn [of_opt bind]; [|discriminate].
  destruct (rec (RCalcIndex NO i None) m st) as [[w x]|] eqn:Er; cbn [bind]; [|discriminate].
  intros H. inversion H; subst. destruct (managed_in_names key m Ek) as [Hi Hw].
  eapply frame_mono; [exact Hi|]. eapply Hrec; eassumption.
Qed.
Lemma set_reading_frame' st st' v i : set_reading NO st I v i = Ok st' -> frame NAMES st st'.
Proof. intros H. eapply frame_mono; [apply own_in_names|]. eapply set_reading_frame. exact H. Qed.


(* every _calculate_reading only changes the store through managed set_reading /
   calculate_index calls and (MACD) one direct write under its own name *)
Ltac frame_step :=
  match goal with
  | H : Err _ = Ok _ |- _ => discriminate H
  | H : ret _ _ _ = Ok _ |- _ => unfold ret in H
  | H : Ok (_, _) = Ok (_, _) |- _ => inversion H; subst; clear H
  | H : Ok _ = Ok _ |- _ => inversion H; subst; clear H
  | H : bind ?m _ = Ok _ |- _ =>
      let E := fresh "E" in destruct m eqn:E; cbn [bind] in H; [|discriminate H]
  | H : (if ?b then _ else _) = Ok _ |- _ =>
      match type of H with context [rec] => idtac | context [set_ind_direct] => idtac | context [@ret] => idtac end;
      let B := fresh "B" in destruct b eqn:B
  | H : match ?x with _ => _ end = Ok _ |- _ =>
      match type of H with context [rec] => idtac | context [set_ind_direct] => idtac | context [@ret] => idtac end;
      let X := fresh "X" in destruct x eqn:X
  end.
Ltac frame_facts :=
  repeat match goal with
  | H : managed_set _ _ _ _ _ _ ?a = Ok ?b |- _ => apply managed_set_frame in H
  | H : managed_calc_index _ _ _ _ _ ?a = Ok ?b |- _ => apply managed_calc_index_frame in H
  end.
Ltac frame_close := frame_facts; eauto 8 using frame_refl, frame_trans.

Lemma calc_reading_frame st i v st' : calc_reading NO rec I st i = Ok (v, st') -> frame NAMES st st'.
Proof.
  intros H. unfold calc_reading in H.
  destruct (i_kind NO I) eqn:K;
    repeat frame_step;
    try solve [frame_close].
  (* MACD: the direct write goes to candle.indicators under the node's own name *)
  match goal with E : set_ind_direct _ _ _ _ _ = Ok _ |- _ => apply set_ind_direct_frame in E; rename E into Ed end.
  assert (Hs : i_sub NO I = false) by (destruct Hwf as (Hm & _); rewrite K in Hm; exact Hm).
  assert (Hd : frame NAMES st a2).
  { eapply frame_mono; [|exact Ed]. intros x [<-|[]]. left. rewrite Hs. reflexivity. }
  frame_close.
Qed.

Lemma calc_loop_frame : forall idxs skip st st',
  (forall i a v b, rec (RReading NO i) I a = Ok (v, b) -> frame NAMES a b) ->
  calc_loop NO rec I idxs skip st = Ok st' -> frame NAMES st st'.
Proof.
  induction idxs as [|i idxs IH]; intros skip st st' HR H; cbn [calc_loop] in H; [inversion H; apply frame_refl|].
  match type of H with bind ?m _ = _ => destruct m as [present|e] eqn:Ep; cbn [bind] in H; [|discriminate] end.
  destruct present; [eapply IH; eassumption|].
  destruct (rec (RReading NO i) I st) as [[v st1]|] eqn:Er; cbn [bind] in H; [|discriminate].
  destruct (set_reading NO st1 I (round_val NO (i_round NO I) v) i) as [st2|] eqn:Es; cbn [bind] in H; [|discriminate].
  eapply frame_trans; [eapply HR; exact Er|].
  eapply frame_trans; [eapply set_reading_frame'; exact Es|].
  eapply IH; eassumption.
Qed.
End Step.

(* more fuel only adds names, and a tree well-formed at some depth is well-formed below *)
Lemma tree_names_mono : forall f (I : ind), incl (tree_names NO f I) (tree_names NO (S f) I).
Proof.
  induction f as [|f IH]; intros I x Hx; [destruct Hx|].
  cbn [tree_names] in *. destruct Hx as [<-|Hx]; [left; reflexivity|right].
  apply in_app_or in Hx. apply in_or_app. destruct Hx as [Hx|Hx]; [left|right].
  - apply in_flat_map in Hx. destruct Hx as (s & Hs & Hx). apply in_flat_map. exists s. split; [exact Hs|apply IH; exact Hx].
  - apply in_flat_map in Hx. destruct Hx as (s & Hs & Hx). apply in_flat_map. exists s. split; [exact Hs|apply IH; exact Hx].
Qed.
Lemma wf_tree_lower : forall f (I : ind), wf_tree (S f) I -> wf_tree f I.
Proof.
  induction f as [|f IH]; intros I H; [exact Logic.I|].
  destruct H as (Hm & Hs & Hg). split; [exact Hm|]. split.
  - rewrite Forall_forall in *. intros x Hx. apply IH. apply Hs. exact Hx.
  - rewrite Forall_forall in *. intros x Hx. apply IH. apply Hg. exact Hx.
Qed.

(* the engine as a whole *)
Theorem run_frame : forall fuel req (I : ind) st v st',
  wf_tree fuel I -> run NO fuel req I st = Ok (v, st') -> frame (tree_names NO fuel I) st st'.
Proof.
  induction fuel as [|f IH]; intros req I st v st' Hwf H; [discriminate|].
  cbn [run] in H.
  assert (HR : forall i a w b, run NO f (RReading NO i) I a = Ok (w, b) -> frame (tree_names NO (S f) I) a b).
  { intros i a w b Hr. eapply frame_mono; [apply tree_names_mono|]. eapply IH; [apply wf_tree_lower; exact Hwf|exact Hr]. }
  destruct req as [| s0 e0 | i | w i]; cbn [step] in H.
  - repeat match type of H with bind ?m _ = _ => let E := fresh "E" in destruct m eqn:E; cbn [bind] in H; [|discriminate] end.
    inversion H; subst.
    eapply frame_trans; [eapply (run_subs_frame f); eassumption|].
    eapply frame_trans; [|eapply (run_subs_frame f); eassumption].
    eapply (calc_loop_frame f); eassumption.
  - repeat match type of H with bind ?m _ = _ => let E := fresh "E" in destruct m eqn:E; cbn [bind] in H; [|discriminate] end.
    inversion H; subst.
    eapply frame_trans; [eapply (run_subs_frame f); eassumption|].
    eapply frame_trans; [|eapply (run_subs_frame f); eassumption].
    eapply (calc_loop_frame f); eassumption.
  - eapply (calc_reading_frame f); eassumption.
  - repeat match type of H with bind ?m _ = _ => let E := fresh "E" in destruct m eqn:E; cbn [bind] in H; [|discriminate] end.
    inversion H; subst.
    eapply frame_trans; [eapply (run_subs_frame f); eassumption|].
    eapply frame_trans; [|eapply (run_subs_frame f); eassumption].
    eapply (set_reading_frame' f); eassumption.
Qed.

(* every tree built by [top] from a shipped kind is well formed (decided by computation) *)
Fixpoint wf_treeb (fuel : nat) (I : ind) : bool :=
  match fuel with
  | O => true
  | S f => (match i_kind NO I with K_MACD _ _ _ _ => negb (i_sub NO I) | _ => true end) &&
           forallb (wf_treeb f) (i_subs NO I) && forallb (fun km => wf_treeb f (snd km)) (i_managed NO I)
  end.
Lemma wf_treeb_sound : forall fuel I, wf_treeb fuel I = true -> wf_tree fuel I.
Proof.
  induction fuel as [|f IH]; intros I H; [exact Logic.I|].
  cbn [wf_treeb] in H. apply andb_prop in H. destruct H as [H H3]. apply andb_prop in H. destruct H as [H1 H2].
  split; [|split].
  - destruct (i_kind NO I); try exact Logic.I. destruct (i_sub NO I); [discriminate|reflexivity].
  - rewrite Forall_forall. rewrite forallb_forall in H2. intros x Hx. apply IH. apply H2. exact Hx.
  - rewrite Forall_forall. rewrite forallb_forall in H3. intros x Hx. apply IH. apply H3. exact Hx.
Qed.
Lemma wf_top (k : kind NO) name rnd : wf_tree FUEL (top NO k name rnd).
Proof. apply wf_treeb_sound. destruct k; reflexivity. Qed.

(* Corollary for the public operations on a shipped indicator *)
Theorem calculate_frame (k : kind NO) name rnd st st' :
  calculate NO (top NO k name rnd) st = Ok st' -> frame (tree_names NO FUEL (top NO k name rnd)) st st'.
Proof.
  unfold calculate. destruct (run NO FUEL (RCalculate NO) (top NO k name rnd) st) as [[v x]|] eqn:E; cbn [bind]; [|discriminate].
  intros H. inversion H; subst. eapply run_frame; [apply wf_top|exact E].
Qed.
Theorem calculate_index_frame (k : kind NO) name rnd s e st st' :
  calculate_index NO (top NO k name rnd) s e st = Ok st' -> frame (tree_names NO FUEL (top NO k name rnd)) st st'.
Proof.
  unfold calculate_index. destruct (run NO FUEL (RCalcIndex NO s e) (top NO k name rnd) st) as [[v x]|] eqn:E; cbn [bind]; [|discriminate].
  intros H. inversion H; subst. eapply run_frame; [apply wf_top|exact E].
Qed.

End Frame.
