(* Proofs/DataNI.v instantiated for VWAP, StandardDeviation and RSI (top-level indicators):
   the relation "same timestamp, same OHLCV, same readings under the names the class looks at,
   same own reading, same helper entry, no top-level entry under the helper's name". *)
From Coq Require Import ZArith List String Ascii Bool Lia ZifyBool.
From Hexital Require Import Base.Prelude Base.Num Model.Manager Model.Candle Model.Readings Model.Analysis
  Model.Engine Proofs.ListProofs Proofs.EngineProofs Proofs.AnalysisProofs Proofs.CausalProofs Proofs.CausalMore
  Proofs.SimProofs Proofs.NonInterference.
From Hexital Require Import Proofs.DataSlot Proofs.DataInst Proofs.DataNI.
Import ListNotations.
Local Open Scope string_scope.
Local Open Scope list_scope.
Local Open Scope Z_scope.

Section Inst.
Context (NO : NumOps).
Notation val := (val NO).
Notation payload := (payload NO).
Notation cd := (cd payload).
Notation store := (store NO).
Variable I : ind NO.
Notation nm := (i_name NO I).
Notation M := (dataM NO I).
Notation nmM := (nm ++ "_data")%string.
Hypothesis Htop : i_sub NO I = false.
Hypothesis HplainM : has_dot nmM = false /\ forall q, candle_attr NO q nmM = None.
Variable N : list string.

Definition Rd (c c0 : cd) : Prop :=
  t c = t c0 /\ sim NO N c c0 /\
  alist_get nm (inds NO (p c)) = alist_get nm (inds NO (p c0)) /\
  alist_get nmM (subs NO (p c)) = alist_get nmM (subs NO (p c0)) /\
  G NO I c /\ G NO I c0.

Lemma Rd_refl c : G NO I c -> Rd c c.
Proof. intros Hg. repeat split; assumption. Qed.

Lemma Rd_G c c0 : Rd c c0 -> G NO I c /\ G NO I c0.
Proof. intros (_ & _ & _ & _ & H1 & H2). split; assumption. Qed.
Lemma Rd_own c c0 : Rd c c0 -> alist_get nm (own_dict NO I (p c)) = alist_get nm (own_dict NO I (p c0)).
Proof. intros (_ & _ & H & _). unfold own_dict. rewrite Htop. exact H. Qed.

(* writing the same helper entry on both sides keeps every reading equal *)
Lemma rbc_setkM_cong (c c0 : cd) w n : G NO I c -> G NO I c0 -> cur NO (p c) = cur NO (p c0) ->
  reading_by_candle NO (p c) n = reading_by_candle NO (p c0) n ->
  reading_by_candle NO (p (setk NO M c w)) n = reading_by_candle NO (p (setk NO M c0 w)) n.
Proof.
  intros Hg Hg0 Hc Hr. destruct (string_dec (root n) nmM) as [E|Ne].
  - unfold G in Hg, Hg0. unfold reading_by_candle, root in *. destruct (has_dot n) eqn:Hd.
    + destruct (split_dot n) as [r [b|]] eqn:Es; cbn [fst] in E; [|reflexivity].
      destruct (has_dot b); [reflexivity|]. unfold nested_lookup. subst r.
      unfold setk, with_own_dict, own, own_dict. cbn [p i_sub dataM sub_ inds subs i_name].
      rewrite Hg, Hg0. rewrite !alist_get_set_same. reflexivity.
    + rewrite (split_dot_nodot n Hd) in E. cbn [fst] in E. subst n.
      destruct HplainM as [_ Ha]. rewrite !Ha.
      unfold setk, with_own_dict, own, own_dict. cbn [p i_sub dataM sub_ inds subs i_name].
      rewrite Hg, Hg0. rewrite !alist_get_set_same. reflexivity.
  - pose proof (rbc_slot NO M c (Some w) n Ne) as E1. pose proof (rbc_slot NO M c0 (Some w) n Ne) as E2.
    cbn [slot] in E1, E2. rewrite E1, E2. exact Hr.
Qed.

Lemma cur_slotM (c : cd) w : cur NO (p (slot NO M c w)) = cur NO (p c).
Proof. destruct w; reflexivity. Qed.

Lemma Rd_deco c c0 w v : Rd c c0 -> Rd (setk NO I (slot NO M c w) v) (setk NO I (slot NO M c0 w) v).
Proof.
  intros (Ht & (Hc & Hr) & Ho & Hm & Hg & Hg0).
  assert (HgM : G NO I (slot NO M c w)) by (destruct w; [|exact Hg]; unfold G, setk, with_own_dict; cbn [slot p i_sub dataM sub_ inds]; exact Hg).
  assert (HgM0 : G NO I (slot NO M c0 w)) by (destruct w; [|exact Hg0]; unfold G, setk, with_own_dict; cbn [slot p i_sub dataM sub_ inds]; exact Hg0).
  split; [destruct w; exact Ht|]. split; [split|].
  - rewrite !(cur_setk NO I Htop), !cur_slotM. exact Hc.
  - intros n Hn. apply (rbc_setk_cong NO I Htop); [rewrite !cur_slotM; exact Hc|].
    destruct w as [w|]; cbn [slot]; [apply rbc_setkM_cong; try assumption; apply Hr; exact Hn|apply Hr; exact Hn].
  - split; [|split; [|split]].
    + rewrite !(inds_setk NO I Htop), !alist_get_set_same. reflexivity.
    + rewrite !(subs_setk NO I Htop).
      destruct w as [w|]; cbn [slot]; [|exact Hm].
      unfold setk, with_own_dict, own, own_dict. cbn [p i_sub dataM sub_ subs i_name]. rewrite !alist_get_set_same. reflexivity.
    + apply (G_pres NO I); exact Hg.
    + apply (G_pres NO I); exact Hg0.
Qed.

Lemma Rd_sim (l l0 : store) : Forall2 Rd l l0 -> Forall2 (sim NO N) l l0.
Proof. induction 1 as [|c c0 l l0 (_ & H & _) _ IH]; constructor; assumption. Qed.
Lemma Rd_zlen (l l0 : store) : Forall2 Rd l l0 -> zlen l = zlen l0.
Proof. intros H. apply (sim_len NO N). apply Rd_sim. exact H. Qed.

(* ---- the reading functions respect the relation ---- *)
Section STDEV.
Variables (period : Z) (input : string).
Hypothesis HN : In input N /\ In (nmM ++ ".mean")%string N /\ In (nmM ++ ".variance")%string N.
Lemma stdevD_rel (a a0 : store) (d d0 : cd) : Forall2 Rd a a0 -> Rd d d0 ->
  stdevD NO I period input a d = stdevD NO I period input a0 d0.
Proof.
  intros HD Hd. destruct HN as (N1 & N2 & N3). unfold stdevD. rewrite (Rd_zlen a a0 HD).
  assert (Hs : Forall2 (sim NO N) (a ++ [d]) (a0 ++ [d0])).
  { apply Forall2_app; [apply Rd_sim; exact HD|constructor; [apply Hd|constructor]]. }
  change (nm ++ "_data.mean")%string with (nm ++ ("_data" ++ ".mean"))%string.
  change (nm ++ "_data.variance")%string with (nm ++ ("_data" ++ ".variance"))%string.
  rewrite (append_assoc3 nm "_data" ".mean"), (append_assoc3 nm "_data" ".variance").
  apply bind_ext; [apply (reading_sim NO N _ _ Hs); exact N1|intros xv].
  destruct (is_none NO xv); [reflexivity|].
  apply bind_ext; [reflexivity|intros x].
  apply bind_ext; [apply (rperiod_sim NO N _ _ Hs); exact N1|intros rp].
  apply bind_ext; [destruct rp; [apply (rnum_sim NO N _ _ Hs); exact N1|reflexivity]|intros removed].
  apply bind_ext; [apply (prev_reading_sim NO N _ _ Hs); exact N2|intros pm].
  apply bind_ext; [reflexivity|intros om]. apply bind_ext; [reflexivity|intros dd].
  apply bind_ext; [apply (prev_reading_sim NO N _ _ Hs); exact N3|intros pvv].
  reflexivity.
Qed.
End STDEV.

Section VWAP.
Hypothesis HN : In "high" N /\ In "low" N /\ In "close" N /\ In "volume" N /\
  In (nmM ++ ".pv")%string N /\ In (nmM ++ ".vol")%string N.
Lemma vwapD_rel (a a0 : store) (d d0 : cd) : Forall2 Rd a a0 -> Rd d d0 -> vwapD NO I a d = vwapD NO I a0 d0.
Proof.
  intros HD Hd. destruct HN as (N1 & N2 & N3 & N4 & N5 & N6). unfold vwapD. rewrite (Rd_zlen a a0 HD).
  assert (Hs : Forall2 (sim NO N) (a ++ [d]) (a0 ++ [d0])).
  { apply Forall2_app; [apply Rd_sim; exact HD|constructor; [apply Hd|constructor]]. }
  change (nm ++ "_data.pv")%string with (nm ++ ("_data" ++ ".pv"))%string.
  change (nm ++ "_data.vol")%string with (nm ++ ("_data" ++ ".vol"))%string.
  rewrite (append_assoc3 nm "_data" ".pv"), (append_assoc3 nm "_data" ".vol").
  apply bind_ext; [apply (rnum_sim NO N _ _ Hs); exact N1|intros h].
  apply bind_ext; [apply (rnum_sim NO N _ _ Hs); exact N2|intros l].
  apply bind_ext; [apply (rnum_sim NO N _ _ Hs); exact N3|intros cl].
  apply bind_ext; [reflexivity|intros tp].
  apply bind_ext; [apply (prev_exists_sim NO N _ _ Hs); exact N5|intros pe].
  apply bind_ext; [|intros pp; apply bind_ext; [apply (rnum_sim NO N _ _ Hs); exact N4|intros vv; reflexivity]].
  destruct pe; [|reflexivity].
  apply bind_ext; [apply (prev_reading_sim NO N _ _ Hs); exact N5|intros x]. apply bind_ext; [reflexivity|intros xn].
  apply bind_ext; [apply (prev_reading_sim NO N _ _ Hs); exact N6|intros y]. reflexivity.
Qed.
End VWAP.

Section RSI.
Variables (period : Z) (input : string).
Hypothesis HN : In nm N /\ In input N /\ In nmM N /\ In (nmM ++ ".gain")%string N /\ In (nmM ++ ".loss")%string N.
Lemma rsiD_rel (a a0 : store) (d d0 : cd) : Forall2 Rd a a0 -> Rd d d0 ->
  rsiD NO I period input a d = rsiD NO I period input a0 d0.
Proof.
  intros HD Hd. destruct HN as (N1 & N2 & N3 & N4 & N5). unfold rsiD, rsiW. rewrite (Rd_zlen a a0 HD).
  assert (Hs : Forall2 (sim NO N) (a ++ [d]) (a0 ++ [d0])).
  { apply Forall2_app; [apply Rd_sim; exact HD|constructor; [apply Hd|constructor]]. }
  change (nm ++ "_data.gain")%string with (nm ++ ("_data" ++ ".gain"))%string.
  change (nm ++ "_data.loss")%string with (nm ++ ("_data" ++ ".loss"))%string.
  rewrite (append_assoc3 nm "_data" ".gain"), (append_assoc3 nm "_data" ".loss").
  apply bind_ext.
  - apply bind_ext; [apply (prev_exists_sim NO N _ _ Hs); exact N1|intros pe]. destruct pe.
    + apply bind_ext; [apply (prev_reading_sim NO N _ _ Hs); exact N2|intros pv]. apply bind_ext; [reflexivity|intros px].
      apply bind_ext; [apply (rnum_sim NO N _ _ Hs); exact N2|intros x].
      apply bind_ext; [apply (prev_reading_sim NO N _ _ Hs); exact N4|intros pg]. apply bind_ext; [reflexivity|intros pgn].
      apply bind_ext; [apply (prev_reading_sim NO N _ _ Hs); exact N5|intros pl]. reflexivity.
    + apply bind_ext; [apply (rperiod_sim NO N _ _ Hs); exact N2|intros rp]. destruct rp; [|reflexivity].
      apply bind_ext; [|intros ch; reflexivity].
      apply mapM_ext. intros j _. rewrite !(rnum_sim NO N _ _ Hs) by exact N2. reflexivity.
  - intros w. destruct w as [[g l]|]; [reflexivity|].
    apply bind_ext; [apply (reading_sim NO N _ _ Hs); exact N3|intros dv].
    destruct (truthy NO dv); [|reflexivity].
    apply bind_ext; [apply (rnum_sim NO N _ _ Hs); exact N4|intros g].
    apply bind_ext; [apply (rnum_sim NO N _ _ Hs); exact N5|intros l]. reflexivity.
Qed.
End RSI.
End Inst.
