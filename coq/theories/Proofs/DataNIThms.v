(* C13 for the indicators with one managed helper series: what B = VWAP / StandardDeviation / RSI
   computes does not depend on anything else the candles carry. *)
From Coq Require Import ZArith List String Ascii Bool Lia.
From Hexital Require Import Base.Prelude Base.Num Model.Manager Model.Candle Model.Readings Model.Analysis
  Model.Engine Proofs.ListProofs Proofs.EngineProofs Proofs.AnalysisProofs Proofs.CausalProofs.
From Hexital Require Import Proofs.DataSlot Proofs.DataInst Proofs.DataThms Proofs.DataNI Proofs.DataNIInst.
Import ListNotations.
Local Open Scope string_scope.
Local Open Scope list_scope.
Local Open Scope Z_scope.

Section Thms.
Context (NO : NumOps).
Notation cd := (cd (payload NO)).
Notation store := (store NO).

(* the names whose readings the class looks at (besides the candle's OHLCV) *)
Definition reads_data (I : ind NO) : list string :=
  let nm := i_name NO I in
  let dm := (nm ++ "_data")%string in
  match i_kind NO I with
  | K_VWAP => ["high"; "low"; "close"; "volume"; (dm ++ ".pv")%string; (dm ++ ".vol")%string]
  | K_STDEV _ input => [input; (dm ++ ".mean")%string; (dm ++ ".variance")%string]
  | K_RSI _ input => [nm; input; dm; (dm ++ ".gain")%string; (dm ++ ".loss")%string]
  | _ => []
  end.

(* two candles B cannot tell apart: same timestamp, OHLCV, readings under the names B looks at,
   same entry of B and of its helper, and no top-level entry under the helper's name *)
Definition same_for (I : ind NO) : cd -> cd -> Prop := Rd NO I (reads_data I).

Definition related (I : ind NO) (r1 r2 : res store) : Prop := Rres NO (same_for I) r1 r2.

Theorem data_calculate_cannot_tell (I : ind NO) (key : string) : data_node NO I key -> data_kind NO I key ->
  forall st st0 : store, Forall2 (same_for I) st st0 -> related I (calculate NO I st) (calculate NO I st0).
Proof.
  intros (Hs & Hm & Ht & Hd & Ha) Hk st st0 HR.
  destruct Hk as [[K Hkey]|[(period & input & K & Hkey & Hp & HiI & HiM)|(period & input & K & Hkey & Hp & HiI & HiM)]].
  - eapply (calculate_rel NO I (dataM NO I) Hs (G NO I) (vwapD NO I)) with (Rd := same_for I); try exact HR.
    + intros f a c rest Hg. eapply vwap_shape; first [eassumption | split; assumption].
    + apply Rd_G.
    + apply Rd_own. exact Ht.
    + intros a a0 d d0 H1 H2. unfold same_for in *. eapply vwapD_rel; try eassumption.
      unfold reads_data. rewrite K. cbn [In]. tauto.
    + intros c c0 w v H. apply Rd_deco; [exact Ht|split; assumption|exact H].
  - eapply (calculate_rel NO I (dataM NO I) Hs (G NO I) (stdevD NO I period input)) with (Rd := same_for I); try exact HR.
    + intros f a c rest Hg. eapply stdev_shape; first [eassumption | split; assumption].
    + apply Rd_G.
    + apply Rd_own. exact Ht.
    + intros a a0 d d0 H1 H2. unfold same_for in *. eapply stdevD_rel; try eassumption.
      unfold reads_data. rewrite K. cbn [In]. tauto.
    + intros c c0 w v H. apply Rd_deco; [exact Ht|split; assumption|exact H].
  - eapply (calculate_rel NO I (dataM NO I) Hs (G NO I) (rsiD NO I period input)) with (Rd := same_for I); try exact HR.
    + intros f a c rest Hg. eapply rsi_shape; first [eassumption | split; assumption].
    + apply Rd_G.
    + apply Rd_own. exact Ht.
    + intros a a0 d d0 H1 H2. unfold same_for in *. eapply rsiD_rel; try eassumption.
      unfold reads_data. rewrite K. cbn [In]. tauto.
    + intros c c0 w v H. apply Rd_deco; [exact Ht|split; assumption|exact H].
Qed.

(* paired histories: the same candles arrive on both sides (possibly already decorated by other
   indicators on one side), B calculates on both, and on the left anything else may happen to the
   candles between B's steps as long as it keeps what B looks at (the frame theorem gives exactly
   that for every other indicator whose tree names are none of reads_data B, B's name and its
   helper's) *)
Inductive paired (I : ind NO) : res store -> res store -> Prop :=
| PD_init : paired I (Ok []) (Ok [])
| PD_append st st0 new new0 : paired I (Ok st) (Ok st0) -> Forall2 (same_for I) new new0 ->
    paired I (Ok (st ++ new)) (Ok (st0 ++ new0))
| PD_calculate st st0 : paired I (Ok st) (Ok st0) -> paired I (calculate NO I st) (calculate NO I st0)
| PD_other st st' st0 : paired I (Ok st) (Ok st0) ->
    (forall x, Forall2 (same_for I) st x -> Forall2 (same_for I) st' x) -> paired I (Ok st') (Ok st0).

Theorem data_noninterference (I : ind NO) (key : string) : data_node NO I key -> data_kind NO I key ->
  forall r r0, paired I r r0 -> related I r r0.
Proof.
  intros Hn Hk r r0 HP.
  induction HP as [|st st0 new new0 _ IH Hnew|st st0 _ IH|st st' st0 _ IH Ho]; cbn [related Rres] in *.
  - constructor.
  - apply Forall2_app; assumption.
  - eapply data_calculate_cannot_tell; eassumption.
  - apply Ho. exact IH.
Qed.

(* what "related" means for B's observable output: the same readings, candle by candle *)
Lemma related_same_readings (I : ind NO) (st st0 : store) : i_sub NO I = false -> Forall2 (same_for I) st st0 ->
  map (fun c => (t c, cur NO (p c), alist_get (i_name NO I) (inds NO (p c)))) st =
  map (fun c => (t c, cur NO (p c), alist_get (i_name NO I) (inds NO (p c)))) st0.
Proof.
  intros Ht H. induction H as [|c c0 l l0 (E1 & (E2 & _) & E3 & _) _ IH]; [reflexivity|].
  cbn [map]. rewrite IH, E1, E2, E3. reflexivity.
Qed.
End Thms.
