(* Lemmas about Python indexing (pyidx, absindex, pyslice) and association lists. *)
From Coq Require Import ZArith List String Bool Lia ZifyBool.
From Hexital Require Import Base.Prelude.
Import ListNotations.
Local Open Scope Z_scope.

Lemma zlen_nonneg {A} (l : list A) : 0 <= zlen l.
Proof. unfold zlen. lia. Qed.
Lemma zlen_app {A} (a b : list A) : zlen (a ++ b) = zlen a + zlen b.
Proof. unfold zlen. rewrite app_length. lia. Qed.
Lemma zlen_firstn {A} (l : list A) (k : nat) : zlen (firstn k l) = Z.min (Z.of_nat k) (zlen l).
Proof. unfold zlen. rewrite firstn_length. lia. Qed.

(* a non-negative in-range index and its negative twin address the same element *)
Lemma pyidx_neg {A} (l : list A) (i : Z) : 0 <= i < zlen l -> pyidx l (i - zlen l) = pyidx l i.
Proof.
  intros H. unfold pyidx.
  assert (E1 : (0 <=? i) && (i <? zlen l) = true) by lia.
  assert (E2 : (0 <=? i - zlen l) && (i - zlen l <? zlen l) = false) by lia.
  assert (E3 : (i - zlen l <? 0) && (- zlen l <=? i - zlen l) = true) by lia.
  rewrite E1, E2, E3. f_equal. lia.
Qed.

Lemma pyidx_nonneg {A} (l : list A) (i : Z) : 0 <= i < zlen l -> pyidx l i = nth_error l (Z.to_nat i).
Proof. intros H. unfold pyidx. assert (E : (0 <=? i) && (i <? zlen l) = true) by lia. rewrite E. reflexivity. Qed.

Lemma pyidx_some {A} (l : list A) (i : Z) : 0 <= i < zlen l -> exists x, pyidx l i = Some x.
Proof.
  intros H. rewrite pyidx_nonneg by assumption.
  destruct (nth_error l (Z.to_nat i)) eqn:E; [eexists; reflexivity|].
  apply nth_error_None in E. unfold zlen in H. lia.
Qed.

(* truncating the list after index i does not change what a non-negative index <= i sees *)
Lemma nth_error_firstn_lt {A} : forall (l : list A) (k j : nat), (j < k)%nat -> nth_error (firstn k l) j = nth_error l j.
Proof.
  induction l as [|x l IH]; intros k j H; [destruct k; destruct j; reflexivity|].
  destruct k as [|k]; [lia|]. destruct j as [|j]; [reflexivity|]. cbn. apply IH. lia.
Qed.

Lemma pyidx_firstn {A} (l : list A) (i j : Z) : 0 <= j <= i -> i < zlen l ->
  pyidx (firstn (Z.to_nat (i + 1)) l) j = pyidx l j.
Proof.
  intros Hj Hi.
  assert (L : zlen (firstn (Z.to_nat (i + 1)) l) = i + 1) by (rewrite zlen_firstn; lia).
  rewrite !pyidx_nonneg by lia.
  apply nth_error_firstn_lt. lia.
Qed.

Lemma absindex_some (i n : Z) : 0 <= i < n -> absindex i n = Some i.
Proof. intros H. unfold absindex, valid_index. assert (E : (i <? n) && (- n <=? i) = true) by lia. rewrite E. cbn. assert (E2 : (i <? 0) = false) by lia. rewrite E2. reflexivity. Qed.
Lemma absindex_neg (i n : Z) : 0 <= i < n -> absindex (i - n) n = Some i.
Proof.
  intros H. unfold absindex, valid_index.
  assert (E : (i - n <? n) && (- n <=? i - n) = true) by lia. rewrite E. cbn.
  assert (E2 : (i - n <? 0) = true) by lia. rewrite E2. f_equal. lia.
Qed.
Lemma absindex_last (n : Z) : 0 < n -> absindex (-1) n = Some (n - 1).
Proof. intros H. replace (-1) with ((n - 1) - n) by lia. apply absindex_neg. lia. Qed.

(* association lists *)
Lemma alist_get_set_same {A} k (v : A) l : alist_get k (alist_set k v l) = Some v.
Proof.
  induction l as [|[k' v'] l IH]; cbn; [rewrite String.eqb_refl; reflexivity|].
  destruct (String.eqb k k') eqn:E; cbn; rewrite ?String.eqb_refl, ?E; [reflexivity|exact IH].
Qed.
Lemma alist_get_set_other {A} k k' (v : A) l : k <> k' -> alist_get k' (alist_set k v l) = alist_get k' l.
Proof.
  intros N. induction l as [|[k0 v0] l IH]; cbn.
  - destruct (String.eqb k' k) eqn:E; [apply String.eqb_eq in E; congruence|reflexivity].
  - destruct (String.eqb k k0) eqn:E; cbn.
    + apply String.eqb_eq in E. subst k0.
      destruct (String.eqb k' k) eqn:E2; [apply String.eqb_eq in E2; congruence|reflexivity].
    + destruct (String.eqb k' k0); [reflexivity|exact IH].
Qed.
Lemma alist_get_del_same {A} k (l : list (string * A)) : alist_get k (alist_del k l) = None.
Proof.
  induction l as [|[k' v'] l IH]; cbn; [reflexivity|].
  destruct (String.eqb k k') eqn:E; cbn; [exact IH|rewrite E; exact IH].
Qed.
Lemma alist_get_del_other {A} k k' (l : list (string * A)) : k <> k' -> alist_get k' (alist_del k l) = alist_get k' l.
Proof.
  intros N. induction l as [|[k0 v0] l IH]; cbn; [reflexivity|].
  destruct (String.eqb k k0) eqn:E; cbn.
  - apply String.eqb_eq in E. subst k0.
    destruct (String.eqb k' k) eqn:E2; [apply String.eqb_eq in E2; congruence|exact IH].
  - destruct (String.eqb k' k0); [reflexivity|exact IH].
Qed.
