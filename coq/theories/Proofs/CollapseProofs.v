(* Proofs about Model/Manager.v: the seven-branch collapse loop is right-closed,
   right-labelled resampling; re-collapsing; shape of the output. *)
From Coq Require Import ZArith List Bool Lia ZifyBool.
From Hexital Require Import Base.Prelude Model.Manager.
Import ListNotations.
Local Open Scope Z_scope.

Section CollapseProofs.
Variable P : Type.
Variable merge : P -> P -> P.
Notation cd := (cd P).
Notation collapse := (collapse P merge).
Notation collapse_loop := (collapse_loop P merge).
Notation resample := (resample P merge).
Notation resample_acc := (resample_acc P merge).

Lemma label_spec ts tf : 0 < tf -> label ts tf mod tf = 0 /\ label ts tf - tf < ts <= label ts tf.
Proof.
  intros H. unfold label. split.
  - apply Z.mod_mul; lia.
  - pose proof (Z.div_mod (- ts) tf ltac:(lia)) as E.
    pose proof (Z.mod_pos_bound (- ts) tf H) as B. nia.
Qed.
Lemma label_unique ts tf L : 0 < tf -> L mod tf = 0 -> L - tf < ts <= L -> label ts tf = L.
Proof.
  intros H H1 H2. unfold label.
  apply Z.mod_divide in H1; [|lia]. destruct H1 as [k ->].
  assert (E : (- ts) / tf = - k).
  { symmetry. apply (Z.div_unique (- ts) tf (- k) (k * tf - ts)); nia. }
  rewrite E. lia.
Qed.
Lemma label_on_grid ts tf : 0 < tf -> ts mod tf = 0 -> label ts tf = ts.
Proof. intros H E. apply label_unique; [assumption|assumption|lia]. Qed.
Lemma label_idem ts tf : 0 < tf -> label (label ts tf) tf = label ts tf.
Proof. intros H. apply label_on_grid; [assumption|apply label_spec; assumption]. Qed.
Lemma grid_step a b tf : 0 < tf -> a mod tf = 0 -> b mod tf = 0 -> a < b -> a + tf <= b.
Proof.
  intros H Ha Hb Hlt. apply Z.mod_divide in Ha; [|lia]. apply Z.mod_divide in Hb; [|lia].
  destruct Ha as [x ->]. destruct Hb as [y ->].
  assert (x < y) by (apply (Z.mul_lt_mono_pos_r tf); assumption).
  assert (E : (x + 1) * tf <= y * tf) by (apply Z.mul_le_mono_nonneg_r; lia). lia.
Qed.
Lemma label_mono a b tf : 0 < tf -> a <= b -> label a tf <= label b tf.
Proof.
  intros H Hab.
  pose proof (label_spec a tf H) as [Am Ar]. pose proof (label_spec b tf H) as [Bm Br].
  destruct (Z_lt_le_dec (label b tf) (label a tf)) as [Hlt|Hle]; [|exact Hle].
  pose proof (grid_step _ _ tf H Bm Am Hlt). lia.
Qed.
Lemma rdown_spec ts tf : 0 < tf -> (ts / tf * tf) mod tf = 0 /\ ts / tf * tf <= ts < ts / tf * tf + tf.
Proof.
  intros H. split; [apply Z.mod_mul; lia|].
  pose proof (Z.div_mod ts tf ltac:(lia)). pose proof (Z.mod_pos_bound ts tf H). nia.
Qed.
Lemma mod_add_tf x tf : 0 < tf -> x mod tf = 0 -> (x + tf) mod tf = 0.
Proof. intros H E. rewrite Z.add_mod, E, Z.mod_same, Z.add_0_l, Z.mod_0_l by lia. reflexivity. Qed.

Ltac side := first [ assumption | apply mod_add_tf; assumption | lia ].

(* Loop invariant.  L = t prev is on the grid; the window is (L-tf, L] (end_ = L) or
   (L, L+tf] (start = L); the remaining candles have non-decreasing labels >= L. *)
Lemma loop_ok tf (Htf : 0 < tf) : forall l start end_ prev acc',
  end_ = start + tf -> start mod tf = 0 -> t prev mod tf = 0 ->
  (end_ = t prev \/ start = t prev) ->
  lsorted_from P tf (t prev) l ->
  collapse_loop tf start end_ (prev :: acc') l = Ok (resample_acc tf (prev :: acc') l).
Proof.
  induction l as [|c l IH]; intros start end_ prev acc' He Hs Pm Hw Hsort; [reflexivity|].
  destruct Hsort as [Hr Hsort].
  pose proof (label_spec (t c) tf Htf) as [Cm Cr].
  pose proof (rdown_spec (t c) tf Htf) as [Dm Dr].
  assert (Em : end_ mod tf = 0) by (subst end_; apply mod_add_tf; assumption).
  pose proof (Z.div_mod (t c) tf ltac:(lia)) as DM.
  pose proof (Z.mod_pos_bound (t c) tf Htf) as DB.
  assert (Hstep : t prev = label (t c) tf \/ t prev + tf <= label (t c) tf).
  { destruct (Z.eq_dec (t prev) (label (t c) tf)); [left; assumption|right].
    apply grid_step; side. }
  cbn [Manager.collapse_loop Manager.resample_acc].
  destruct ((start <? t c) && (t c <=? end_) && (t prev =? end_)) eqn:B1.
  { assert (E : t prev = label (t c) tf) by (symmetry; apply label_unique; side).
    rewrite <- E, Z.eqb_refl. apply IH; cbn [t]; try side. rewrite E. exact Hsort. }
  destruct ((start <? t c) && (t c <=? end_)) eqn:B2.
  { assert (E : label (t c) tf = end_) by (apply label_unique; side).
    assert (N : (t prev =? label (t c) tf) = false) by lia. rewrite N, E.
    apply IH; cbn [t]; try side. rewrite <- E. exact Hsort. }
  destruct ((start - tf <? t c) && (t c <=? start) && (t prev =? start)) eqn:B3.
  { assert (E : t prev = label (t c) tf) by (symmetry; apply label_unique; side).
    rewrite <- E, Z.eqb_refl. apply IH; cbn [t]; try side. rewrite E. exact Hsort. }
  destruct ((end_ <? t c) && (t c <=? end_ + tf)) eqn:B4.
  { assert (E : label (t c) tf = end_ + tf) by (apply label_unique; side).
    assert (N : (t prev =? label (t c) tf) = false) by lia. rewrite N, E.
    apply IH; cbn [t]; try side. rewrite <- E. exact Hsort. }
  unfold on_tf, rdown.
  destruct ((start <? t c) && (t c mod tf =? 0)) eqn:B5.
  { assert (E : label (t c) tf = t c / tf * tf) by (apply label_unique; side).
    assert (N : (t prev =? label (t c) tf) = false) by lia. rewrite N, E.
    apply IH; cbn [t]; try side. rewrite <- E. exact Hsort. }
  destruct (end_ + tf <? t c) eqn:B6.
  { assert (E : label (t c) tf = t c / tf * tf + tf) by (apply label_unique; side).
    assert (N : (t prev =? label (t c) tf) = false) by lia. rewrite N, E.
    apply IH; cbn [t]; try side. rewrite <- E. exact Hsort. }
  exfalso. lia.
Qed.

Theorem collapse_lsorted tf l : 0 < tf -> lsorted P tf l -> collapse tf l = Ok (resample tf l).
Proof.
  intros Htf Hs. destruct l as [|c0 l]; [reflexivity|].
  unfold Manager.collapse, Manager.resample. cbn [Manager.resample_acc]. unfold on_tf, rdown.
  pose proof (label_spec (t c0) tf Htf) as [Cm Cr].
  pose proof (rdown_spec (t c0) tf Htf) as [Dm Dr].
  pose proof (Z.div_mod (t c0) tf ltac:(lia)) as DM.
  pose proof (Z.mod_pos_bound (t c0) tf Htf) as DB.
  cbn [lsorted] in Hs.
  destruct (t c0 mod tf =? 0) eqn:B.
  - assert (E : label (t c0) tf = t c0) by (apply label_unique; side).
    rewrite E in *. destruct c0 as [t0 p0]; cbn [t p] in *.
    apply loop_ok; cbn [t]; try side.
  - assert (E : label (t c0) tf = t c0 / tf * tf + tf) by (apply label_unique; side).
    rewrite E in *. apply loop_ok; cbn [t]; try side.
Qed.

Lemma sorted_from_lsorted tf (Htf : 0 < tf) : forall l r,
  sorted_from P r l -> lsorted_from P tf (label r tf) l.
Proof.
  induction l as [|c l IH]; intros r H; [exact I|]. destruct H as [H1 H2].
  split; [apply label_mono; assumption|apply IH; assumption].
Qed.
Lemma sorted_lsorted tf l : 0 < tf -> sorted P l -> lsorted P tf l.
Proof. intros Htf H. destruct l as [|c l]; [exact I|]. apply sorted_from_lsorted; assumption. Qed.

Theorem collapse_is_resample tf l : 0 < tf -> sorted P l -> collapse tf l = Ok (resample tf l).
Proof. intros Htf H. apply collapse_lsorted; [assumption|apply sorted_lsorted; assumption]. Qed.

(* ---- resample is a left fold ---- *)
Lemma resample_acc_app tf : forall a acc b,
  resample_acc tf acc (a ++ b) = resample_acc tf (rev (resample_acc tf acc a)) b.
Proof.
  induction a as [|c a IH]; intros acc b; cbn [app Manager.resample_acc].
  - rewrite rev_involutive. reflexivity.
  - destruct acc as [|prev acc']; [apply IH|]. destruct (t prev =? label (t c) tf); apply IH.
Qed.

(* shape of the accumulator: strictly decreasing grid labels from the head *)
Fixpoint desc_grid (tf : Z) (acc : list cd) : Prop :=
  match acc with
  | [] => True
  | c :: acc' => t c mod tf = 0 /\ match acc' with [] => True | c' :: _ => t c' < t c end /\ desc_grid tf acc'
  end.
Definition head_le (acc : list cd) (L : Z) : Prop :=
  match acc with [] => True | c :: _ => t c <= L end.

Lemma resample_acc_shape tf (Htf : 0 < tf) : forall l acc,
  desc_grid tf acc -> lsorted_from P tf (match acc with [] => match l with [] => 0 | c :: _ => label (t c) tf end | c :: _ => t c end) l ->
  desc_grid tf (rev (resample_acc tf acc l)).
Proof.
  induction l as [|c l IH]; intros acc Hd Hs; cbn [Manager.resample_acc].
  - rewrite rev_involutive. exact Hd.
  - pose proof (label_spec (t c) tf Htf) as [Cm _].
    destruct acc as [|prev acc'].
    + apply IH; cbn [desc_grid t]; [tauto|]. destruct Hs as [_ Hs]. exact Hs.
    + destruct Hs as [H1 H2]. destruct Hd as [Pm [Hlt Hd]].
      destruct (t prev =? label (t c) tf) eqn:E.
      * apply IH; cbn [desc_grid t]; [tauto|]. assert (t prev = label (t c) tf) by lia.
        rewrite H. exact H2.
      * apply IH; cbn [desc_grid t]; [|exact H2]. repeat split; try assumption; lia.
Qed.

Fixpoint strictly_inc_from (r : Z) (l : list cd) : Prop :=
  match l with [] => True | c :: l' => r < t c /\ strictly_inc_from (t c) l' end.
Definition strictly_inc (l : list cd) : Prop :=
  match l with [] => True | c :: l' => strictly_inc_from (t c) l' end.
Definition on_grid (tf : Z) (l : list cd) : Prop := Forall (fun c => t c mod tf = 0) l.

Lemma desc_grid_rev_inc tf : forall acc,
  desc_grid tf acc -> on_grid tf (rev acc) /\ strictly_inc (rev acc) /\
  (forall c, hd_error acc = Some c -> exists pre, rev acc = pre ++ [c]).
Proof.
  induction acc as [|c acc IH]; intros H; cbn [rev].
  - repeat split; [constructor|intros c Hc; discriminate].
  - destruct H as [Cm [Hlt Hd]]. destruct (IH Hd) as [G [S _]].
    repeat split.
    + apply Forall_app. split; [exact G|repeat constructor; exact Cm].
    + clear IH G. destruct acc as [|c' acc']; [exact I|]. cbn [rev] in *.
      (* strictly_inc (rev acc' ++ [c'] ++ [c]) *)
      revert S Hlt. generalize (rev acc') as pre. intros pre. rewrite <- app_assoc. cbn [app].
      destruct pre as [|x pre]; cbn; [tauto|].
      revert x. induction pre as [|y pre IHp]; intros x; cbn; [tauto|]. intros [H1 H2] H3. split; [exact H1|]. apply IHp; assumption.
    + intros c0 Hc. inversion Hc; subst. eexists; reflexivity.
Qed.

Theorem resample_shape tf l : 0 < tf -> lsorted P tf l ->
  on_grid tf (resample tf l) /\ strictly_inc (resample tf l).
Proof.
  intros Htf Hs. unfold Manager.resample.
  assert (D : desc_grid tf (rev (resample_acc tf [] l))).
  { apply resample_acc_shape; [assumption|exact I|]. destruct l as [|c l]; [exact I|].
    cbn [lsorted] in Hs. split; [lia|exact Hs]. }
  apply desc_grid_rev_inc in D. rewrite rev_involutive in D. tauto.
Qed.

(* resampling something already resampled (strictly increasing, on the grid) is the identity *)
Lemma resample_acc_id tf (Htf : 0 < tf) : forall l acc,
  on_grid tf l -> (match acc with [] => strictly_inc l | c :: _ => strictly_inc_from (t c) l end) ->
  resample_acc tf acc l = rev acc ++ l.
Proof.
  induction l as [|c l IH]; intros acc G S; cbn [Manager.resample_acc].
  - rewrite app_nil_r. reflexivity.
  - inversion G as [|? ? Cm G']; subst.
    rewrite (label_on_grid (t c) tf Htf Cm).
    destruct acc as [|prev acc'].
    + rewrite IH; [|assumption|exact S]. destruct c; reflexivity.
    + destruct S as [S1 S2]. assert (N : (t prev =? t c) = false) by lia. rewrite N.
      rewrite IH; [|assumption|exact S2]. cbn [rev]. rewrite <- app_assoc. destruct c; reflexivity.
Qed.

Theorem resample_idem tf l : 0 < tf -> lsorted P tf l -> resample tf (resample tf l) = resample tf l.
Proof.
  intros Htf Hs. destruct (resample_shape tf l Htf Hs) as [G S].
  unfold Manager.resample at 1. rewrite resample_acc_id; [reflexivity|assumption|assumption|exact S].
Qed.

Theorem resample_resample_app tf xs ys : 0 < tf -> lsorted P tf xs ->
  resample tf (resample tf xs ++ ys) = resample tf (xs ++ ys).
Proof.
  intros Htf Hs. unfold Manager.resample at 1 3.
  rewrite !resample_acc_app. fold (resample tf xs). fold (resample tf (resample tf xs)).
  rewrite resample_idem by assumption. reflexivity.
Qed.

End CollapseProofs.

Section CollapseMore.
Variable P : Type.
Variable merge : P -> P -> P.
Notation cd := (cd P).
Notation collapse := (collapse P merge).
Notation resample := (resample P merge).
Notation resample_acc := (resample_acc P merge).

(* the last output candle is labelled with the label of the last input candle *)
Lemma resample_acc_last tf : forall l acc c,
  exists pre c', resample_acc tf acc (l ++ [c]) = pre ++ [c'] /\ t c' = label (t c) tf.
Proof.
  induction l as [|x l IH]; intros acc c.
  - cbn [app Manager.resample_acc]. destruct acc as [|prev acc'].
    + exists [], {| t := label (t c) tf; p := p c |}. split; reflexivity.
    + destruct (t prev =? label (t c) tf) eqn:E; cbn [rev].
      * eexists _, _. split; [reflexivity|]. cbn [t]. lia.
      * eexists _, _. split; [reflexivity|]. reflexivity.
  - cbn [app Manager.resample_acc]. destruct acc as [|prev acc']; [apply IH|].
    destruct (t prev =? label (t x) tf); apply IH.
Qed.

Lemma lsorted_from_app tf : forall a L b,
  lsorted_from P tf L a ->
  lsorted_from P tf (match rev a with [] => L | c :: _ => label (t c) tf end) b ->
  lsorted_from P tf L (a ++ b).
Proof.
  induction a as [|x a IH]; intros L b Ha Hb; [exact Hb|].
  destruct Ha as [H1 H2]. cbn [app lsorted_from]. split; [exact H1|].
  apply IH; [exact H2|]. cbn [rev] in Hb.
  destruct (rev a) as [|y r] eqn:E; cbn [app] in Hb; exact Hb.
Qed.

Lemma grid_inc_lsorted tf (Htf : 0 < tf) : forall l L,
  on_grid P tf l -> (match l with [] => True | c :: _ => L <= t c end) ->
  (match l with [] => True | c :: l' => strictly_inc_from P (t c) l' end) ->
  lsorted_from P tf L l.
Proof.
  induction l as [|c l IH]; intros L G HL S; [exact I|].
  inversion G as [|? ? Cm G']; subst.
  cbn [lsorted_from]. rewrite (label_on_grid (t c) tf Htf Cm). split; [exact HL|].
  apply IH; [exact G'| |].
  - destruct l as [|c' l']; [exact I|]. destruct S as [S1 _]. lia.
  - destruct l as [|c' l']; [exact I|]. destruct S as [_ S2]. exact S2.
Qed.

Lemma sorted_from_app_inv : forall (a : list cd) r b,
  sorted_from P r (a ++ b) ->
  sorted_from P r a /\ sorted_from P (match rev a with [] => r | c :: _ => t c end) b.
Proof.
  induction a as [|x a IH]; intros r b H; [split; [exact I|exact H]|].
  destruct H as [H1 H2]. destruct (IH _ _ H2) as [Ha Hb]. split; [split; assumption|].
  cbn [rev]. destruct (rev a) as [|y q]; exact Hb.
Qed.

Lemma lsorted_resample_app tf xs ys : 0 < tf -> sorted P (xs ++ ys) ->
  lsorted P tf (resample tf xs ++ ys).
Proof.
  intros Htf Hs. destruct xs as [|x0 xs].
  { cbn [app] in *. apply sorted_lsorted; assumption. }
  assert (Hx : sorted P (x0 :: xs) /\ sorted_from P (match rev (x0 :: xs) with [] => t x0 | c :: _ => t c end) ys).
  { cbn [app sorted] in Hs. destruct (sorted_from_app_inv xs (t x0) ys Hs) as [A B]. split; [exact A|].
    cbn [rev]. destruct (rev xs) as [|y q] eqn:E; cbn [app]; exact B. }
  destruct Hx as [Hx Hy].
  pose proof (sorted_lsorted P tf _ Htf Hx) as Hlx.
  destruct (resample_shape P merge tf _ Htf Hlx) as [G S].
  (* last candle of the resampled prefix *)
  destruct (@exists_last _ (x0 :: xs) ltac:(discriminate)) as [pre [cl Ecl]].
  destruct (resample_acc_last tf pre [] cl) as [rpre [rc [Er Et]]].
  unfold Manager.resample in *. rewrite Ecl in *. rewrite Er in *.
  assert (Hlast : sorted_from P (t cl) ys).
  { rewrite rev_unit in Hy. exact Hy. }
  unfold lsorted.
  assert (Hall : forall L, (match rpre ++ [rc] with [] => True | c :: _ => L <= t c end) ->
                 lsorted_from P tf L ((rpre ++ [rc]) ++ ys)).
  { intros L HL. apply lsorted_from_app.
    - apply grid_inc_lsorted; [assumption|assumption|exact HL|].
      destruct (rpre ++ [rc]) as [|c0 r0]; [exact I|exact S].
    - rewrite rev_unit. rewrite Et. rewrite label_idem by assumption.
      apply sorted_from_lsorted; assumption. }
  destruct (rpre ++ [rc]) as [|c0 r0] eqn:E0.
  { destruct rpre; discriminate. }
  cbn [app]. specialize (Hall (t c0) ltac:(lia)). cbn [app lsorted_from] in Hall.
  destruct Hall as [_ Hall]. exact Hall.
Qed.

Theorem recollapse tf xs ys : 0 < tf -> sorted P (xs ++ ys) ->
  collapse tf (resample tf xs ++ ys) = Ok (resample tf (xs ++ ys)).
Proof.
  intros Htf Hs.
  rewrite collapse_lsorted; [|assumption|apply lsorted_resample_app; assumption].
  f_equal. apply resample_resample_app; [assumption|].
  destruct xs as [|x0 xs]; [exact I|]. apply sorted_lsorted; [assumption|].
  cbn [app sorted] in Hs. destruct (sorted_from_app_inv xs (t x0) ys Hs) as [A _]. exact A.
Qed.

Theorem collapse_error_only_unsorted tf l e : 0 < tf -> collapse tf l = Err e -> ~ lsorted P tf l.
Proof. intros Htf H Hs. rewrite collapse_lsorted in H by assumption. discriminate. Qed.

(* conservation of any additive measure of the payload (e.g. volume) *)
Section Measure.
Variable M : Type.
Variable madd : M -> M -> M.
Variable f : P -> M.
Hypothesis madd_assoc : forall a b c, madd (madd a b) c = madd a (madd b c).
Hypothesis f_merge : forall a b, f (merge a b) = madd (f a) (f b).
Definition total (l : list cd) (m0 : M) : M := fold_left (fun m c => madd m (f (p c))) l m0.

Lemma total_app a b m0 : total (a ++ b) m0 = total b (total a m0).
Proof. unfold total. apply fold_left_app. Qed.

Lemma total_cons c l m0 : total (c :: l) m0 = total l (madd m0 (f (p c))).
Proof. reflexivity. Qed.

Lemma resample_acc_total tf : forall l acc m0,
  total (resample_acc tf acc l) m0 = total (rev acc ++ l) m0.
Proof.
  induction l as [|c l IH]; intros acc m0; cbn [Manager.resample_acc].
  - rewrite app_nil_r. reflexivity.
  - destruct acc as [|prev acc'].
    + rewrite IH. reflexivity.
    + destruct (t prev =? label (t c) tf).
      * rewrite IH. cbn [rev]. rewrite <- !app_assoc. rewrite !total_app. cbn [app].
        rewrite !total_cons. cbn [p]. rewrite f_merge. change (total [] ?x) with x. rewrite madd_assoc. reflexivity.
      * rewrite IH. cbn [rev]. rewrite <- !app_assoc. rewrite !total_app. cbn [app].
        rewrite !total_cons. reflexivity.
Qed.

Theorem resample_total tf l m0 : total (resample tf l) m0 = total l m0.
Proof. unfold Manager.resample. rewrite resample_acc_total. reflexivity. Qed.
End Measure.

End CollapseMore.
