(* Collapse + fill under appends (C12, "the outcome is the same for every append schedule"):
   collapsing and filling a raw stream, appending more raw candles to the filled series and
   running collapse + fill again gives exactly collapse + fill of the whole raw stream. *)
From Coq Require Import ZArith List Bool Lia ZifyBool.
From Hexital Require Import Base.Prelude Model.Manager Proofs.CollapseProofs Proofs.FillProofs Proofs.ComposeProofs.
Import ListNotations.
Local Open Scope Z_scope.

Section FillCompose.
Variable P : Type.
Variable merge : P -> P -> P.
Variable fillp : P -> P.
Notation cd := (cd P).
Notation fill := (fill P fillp).
Notation fill_from := (fill_from P fillp).
Notation fill_run := (fill_run P fillp).
Notation resample := (resample P merge).
Notation resample_acc := (resample_acc P merge).
Notation collapse := (collapse P merge).

(* filling is local: what is inserted in front of a candle depends on its predecessor only *)
Lemma fill_from_app tf : forall a prev c b,
  fill_from tf prev (a ++ c :: b) = (ra <- fill_from tf prev (a ++ [c]) ;; rb <- fill_from tf c b ;; Ok (ra ++ rb)).
Proof.
  induction a as [|x a IH]; intros prev c b; cbn [app Manager.fill_from].
  - destruct ((t prev <? t c) && ((t c - t prev) mod tf =? 0)); [|reflexivity].
    destruct (fill_from tf c b) as [rb|e]; cbn [bind]; [|reflexivity]. rewrite <- app_assoc. reflexivity.
  - destruct ((t prev <? t x) && ((t x - t prev) mod tf =? 0)); [|reflexivity].
    rewrite IH. destruct (fill_from tf x (a ++ [c])) as [ra|e]; cbn [bind]; [|reflexivity].
    destruct (fill_from tf c b) as [rb|e]; cbn [bind]; [|reflexivity]. rewrite <- app_assoc. reflexivity.
Qed.

Lemma fill_from_contiguous tf (Htf : 0 < tf) : forall l prev, contiguous_from P tf (t prev) l -> fill_from tf prev l = Ok l.
Proof.
  induction l as [|c l IH]; intros prev H; [reflexivity|]. destruct H as [Hc Hl]. cbn [Manager.fill_from].
  assert (B : (t prev <? t c) && ((t c - t prev) mod tf =? 0) = true).
  { replace (t c - t prev) with tf by lia. rewrite Z_mod_same_full. lia. }
  rewrite B. rewrite (IH c Hl). cbn [bind]. replace ((t c - t prev) / tf - 1) with 0 by (replace (t c - t prev) with tf by lia; rewrite Z_div_same_full; lia).
  reflexivity.
Qed.

(* the last candle may be swapped for one with the same timestamp *)
Lemma fill_from_snoc_t tf : forall a prev c c', t c = t c' ->
  match fill_from tf prev (a ++ [c]), fill_from tf prev (a ++ [c']) with
  | Ok o1, Ok o2 => exists G, o1 = G ++ [c] /\ o2 = G ++ [c']
  | Err e1, Err e2 => e1 = e2
  | _, _ => False
  end.
Proof.
  induction a as [|x a IH]; intros prev c c' Ht; cbn [app Manager.fill_from].
  - rewrite <- Ht. destruct ((t prev <? t c) && ((t c - t prev) mod tf =? 0)); [|reflexivity]. cbn [bind].
    eexists. split; reflexivity.
  - destruct ((t prev <? t x) && ((t x - t prev) mod tf =? 0)); [|reflexivity].
    specialize (IH x c c' Ht). destruct (fill_from tf x (a ++ [c])) as [o1|e1], (fill_from tf x (a ++ [c'])) as [o2|e2];
      cbn [bind]; try contradiction; [|exact IH].
    destruct IH as (G & -> & ->). eexists (_ ++ x :: G). split; rewrite <- app_assoc; reflexivity.
Qed.

Lemma contiguous_app tf : forall a r b, contiguous_from P tf r (a ++ b) ->
  contiguous_from P tf r a /\ contiguous_from P tf (match rev a with [] => r | c :: _ => t c end) b.
Proof.
  induction a as [|x a IH]; intros r b H; [split; [exact I|exact H]|].
  destruct H as [H1 H2]. destruct (IH _ _ H2) as [Ha Hb]. split; [split; assumption|].
  cbn [rev]. destruct (rev a) as [|y q]; exact Hb.
Qed.
Lemma contiguous_swap_last tf : forall a r c c', t c = t c' -> contiguous_from P tf r (a ++ [c]) -> contiguous_from P tf r (a ++ [c']).
Proof.
  induction a as [|x a IH]; intros r c c' Ht H; cbn [app contiguous_from] in *.
  - rewrite <- Ht. exact H.
  - destruct H as [H1 H2]. split; [exact H1|]. eapply IH; eassumption.
Qed.
Lemma contiguous_grid_inc tf (Htf : 0 < tf) : forall l r, r mod tf = 0 -> contiguous_from P tf r l ->
  on_grid P tf l /\ strictly_inc_from P r l.
Proof.
  induction l as [|c l IH]; intros r Hr H; [split; [constructor|exact I]|].
  destruct H as [Hc Hl]. assert (Cm : t c mod tf = 0) by (rewrite Hc; apply mod_add_tf; assumption).
  destruct (IH (t c) Cm Hl) as [G S]. split; [constructor; assumption|]. split; [lia|exact S].
Qed.

Lemma lsorted_from_app_inv tf : forall (a : list cd) L b, lsorted_from P tf L (a ++ b) ->
  lsorted_from P tf (match rev a with [] => L | c :: _ => label (t c) tf end) b.
Proof.
  induction a as [|x a IH]; intros L b H; [exact H|]. destruct H as [_ H2]. specialize (IH _ _ H2).
  cbn [rev]. destruct (rev a) as [|y q]; exact IH.
Qed.

(* head of a resampling that starts behind an accumulated bucket *)
Lemma resample_acc_head_t tf : forall l (h : cd), exists h' tl, resample_acc tf [h] l = h' :: tl /\ t h' = t h.
Proof.
  induction l as [|c l IH]; intros h; cbn [Manager.resample_acc rev app]; [eexists _, _; split; reflexivity|].
  destruct (t h =? label (t c) tf).
  - destruct (IH {| t := t h; p := merge (p h) (p c) |}) as (h' & tl & E & T). eexists _, _. split; [exact E|exact T].
  - rewrite (resample_acc_head P merge tf l _ [h]). cbn [rev app]. eexists _, _. split; reflexivity.
Qed.

Definition cf (tf : Z) (l : list cd) : res (list cd) := out <- collapse tf l ;; fill tf out.

Theorem collapse_fill_incremental (tf : Z) (xs ys D : list cd) :
  0 < tf -> sorted P (xs ++ ys) -> cf tf xs = Ok D -> cf tf (D ++ ys) = cf tf (xs ++ ys).
Proof.
  intros Htf Hs HD. unfold cf in *.
  assert (Hsx : sorted P xs).
  { destruct xs as [|x0 xs']; [exact I|]. cbn [app sorted] in Hs.
    destruct (sorted_from_app_inv P xs' (t x0) ys Hs) as [A _]. exact A. }
  rewrite (collapse_is_resample P merge tf xs Htf Hsx) in HD. cbn [bind] in HD.
  rewrite (collapse_is_resample P merge tf (xs ++ ys) Htf Hs). cbn [bind].
  pose proof (lsorted_resample_app P merge tf xs ys Htf Hs) as LRS.
  assert (Hlx : lsorted P tf xs) by (apply sorted_lsorted; assumption).
  destruct (resample_shape P merge tf xs Htf Hlx) as [GR SR].
  assert (E2 : resample tf (xs ++ ys) = resample_acc tf (rev (resample tf xs)) ys).
  { unfold Manager.resample. rewrite resample_acc_app. reflexivity. }
  rewrite E2. clear E2.
  set (R := resample tf xs) in *. clearbody R.
  destruct R as [|r0 Rrest].
  - (* nothing before *)
    cbn in HD. assert (D = []) by congruence. subst D. cbn [app rev].
    rewrite (collapse_lsorted P merge tf ys Htf LRS). reflexivity.
  - cbn [Manager.fill] in HD.
    destruct (exists_last_or_nil Rrest) as [ER|(Rmid & r & ER)]; subst Rrest.
    + (* a single bucket: nothing to fill, the state is the resampled prefix itself *)
      cbn [Manager.fill_from bind] in HD. assert (D = [r0]) by congruence. subst D.
      rewrite (collapse_lsorted P merge tf ([r0] ++ ys) Htf LRS). cbn [bind]. f_equal.
      unfold Manager.resample. rewrite resample_acc_app. rewrite (resample_acc_id P merge tf Htf [r0] []); [reflexivity|exact GR|exact SR].
    + destruct (fill_from tf r0 (Rmid ++ [r])) as [o1|e] eqn:EF; cbn [bind] in HD; [|discriminate].
      assert (ED : D = r0 :: o1) by congruence. subst D. clear HD.
      pose proof (fill_from_snoc_t tf Rmid r0 r r eq_refl) as HS. rewrite EF in HS. destruct HS as (G & EG & _). subst o1.
      pose proof (filled_contiguous P fillp tf r0 _ _ (fill_from_filled P fillp tf Htf _ _ _ EF)) as HC.
      inversion GR as [|? ? R0m GRr]; subst.
      destruct (contiguous_grid_inc tf Htf (G ++ [r]) (t r0) R0m HC) as [GG SG].
      (* the filled series followed by the new candles is label-sorted *)
      assert (LS : lsorted P tf ((r0 :: G ++ [r]) ++ ys)).
      { cbn [app lsorted]. rewrite (label_on_grid (t r0) tf Htf R0m). rewrite <- app_assoc.
        replace (G ++ [r] ++ ys) with ((G ++ [r]) ++ ys) by (rewrite <- app_assoc; reflexivity).
        apply lsorted_from_app.
        - apply grid_inc_lsorted; [assumption|exact GG| |].
          + destruct (G ++ [r]) as [|c0 l0]; [exact I|]. destruct SG as [S1 _]. lia.
          + destruct (G ++ [r]) as [|c0 l0]; [exact I|]. destruct SG as [_ S2]. exact S2.
        - rewrite rev_unit. cbn [app lsorted] in LRS.
          pose proof (lsorted_from_app_inv tf (Rmid ++ [r]) (label (t r0) tf) ys) as Hinv.
          rewrite rev_unit in Hinv. apply Hinv. rewrite <- app_assoc in LRS. rewrite <- app_assoc. exact LRS. }
      rewrite (collapse_lsorted P merge tf _ Htf LS). cbn [bind].
      assert (GD : on_grid P tf (r0 :: G ++ [r])) by (constructor; assumption).
      assert (SD : strictly_inc P (r0 :: G ++ [r])) by exact SG.
      assert (E1 : resample tf ((r0 :: G ++ [r]) ++ ys) = (r0 :: G) ++ resample_acc tf [r] ys).
      { unfold Manager.resample. rewrite resample_acc_app. rewrite (resample_acc_id P merge tf Htf _ []); [|exact GD|exact SD].
        cbn [rev app]. rewrite rev_unit. cbn [app].
        rewrite (resample_acc_head P merge tf ys r (rev G ++ [r0])). rewrite rev_app_distr, rev_involutive. reflexivity. }
      rewrite E1.
      cbn [rev]. rewrite rev_unit. cbn [app].
      rewrite (resample_acc_head P merge tf ys r (rev Rmid ++ [r0])). rewrite rev_app_distr, rev_involutive. cbn [rev app].
      destruct (resample_acc_head_t tf ys r) as (h & T & ET & Hth). rewrite ET.
      cbn [app Manager.fill]. rewrite (fill_from_app tf G r0 h T), (fill_from_app tf Rmid r0 h T).
      (* in front of h: the same inserted candles on both sides *)
      assert (Hc : contiguous_from P tf (t r0) (G ++ [h])) by (eapply contiguous_swap_last; [symmetry; exact Hth|exact HC]).
      rewrite (fill_from_contiguous tf Htf (G ++ [h]) r0 Hc). cbn [bind].
      pose proof (fill_from_snoc_t tf Rmid r0 r h (eq_sym Hth)) as HS. rewrite EF in HS.
      destruct (fill_from tf r0 (Rmid ++ [h])) as [o2|e2]; [|contradiction].
      destruct HS as (G' & EG1 & EG2). apply app_inj_tail in EG1. destruct EG1 as [<- _]. subst o2. cbn [bind].
      reflexivity.
Qed.
End FillCompose.

From Hexital Require Import Base.Num Model.Candle.
Section FillManager.
Context (NO : NumOps).
Notation cd := (cd (payload NO)).
Definition tf_fill_cfg (tf : Z) : mcfg := {| tf := Some tf; fillon := true; ha := false; lifespan := None |}.
Lemma tasks_cf tf l : tasks NO (tf_fill_cfg tf) l = cf (payload NO) (Candle.merge NO) (fillp NO) tf l.
Proof.
  unfold tasks, cf, tf_fill_cfg, collapse_candles. cbn [Candle.tf fillon ha lifespan].
  destruct (collapse (payload NO) (Candle.merge NO) tf l) as [o|e]; cbn [bind]; [|reflexivity].
  destruct (fill (payload NO) (fillp NO) tf o); reflexivity.
Qed.
Theorem manager_fill_incremental (tf : Z) (xs ys D : list cd) :
  0 < tf -> sorted (payload NO) (xs ++ ys) ->
  tasks NO (tf_fill_cfg tf) xs = Ok D -> mgr_append NO (tf_fill_cfg tf) D ys = tasks NO (tf_fill_cfg tf) (xs ++ ys).
Proof.
  intros Htf Hs HD. unfold mgr_append. destruct ys as [|y ys'].
  - rewrite app_nil_r. symmetry. exact HD.
  - rewrite !tasks_cf in *. apply collapse_fill_incremental; assumption.
Qed.
End FillManager.
