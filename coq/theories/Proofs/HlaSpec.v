(* C05: the High-Low average is the rounded midpoint of the candle's high and low, and lies between them. *)
From Coq Require Import ZArith List String Bool Reals Lra Lia.
From Flocq Require Import Core.
From Hexital Require Import Base.Prelude Base.Num Model.Candle Inst.RealInst Spec.Steppers Proofs.SpecReal.
Import ListNotations.
Local Open Scope R_scope.

Theorem hla_is_rounded_midpoint (nd : Z) (s : state RO) (c : inp RO) :
  hla_step RO nd s c = Ok (@VNum RO (rnd10 nd ((x_h RO c + x_l RO c) / 2)), s) /\
  Rabs (rnd10 nd ((x_h RO c + x_l RO c) / 2) - (x_h RO c + x_l RO c) / 2) <= eps nd.
Proof.
  split.
  - unfold hla_step. unfold zn; cbn [nofZ RO nadd]. replace (IZR 2) with 2 by reflexivity. rewrite divn_ok by lra. reflexivity.
  - apply rnd10_error.
Qed.

Theorem hla_between_low_and_high (nd : Z) (s : state RO) (c : inp RO) :
  generic_format radix10 (FIX_exp (- nd)) (x_l RO c) -> generic_format radix10 (FIX_exp (- nd)) (x_h RO c) ->
  x_l RO c <= x_h RO c ->
  exists r, hla_step RO nd s c = Ok (@VNum RO r, s) /\ x_l RO c <= r <= x_h RO c.
Proof.
  intros Hl Hh Hle. destruct (hla_is_rounded_midpoint nd s c) as [E _]. eexists. split; [exact E|].
  apply rnd10_between; try assumption. lra.
Qed.
