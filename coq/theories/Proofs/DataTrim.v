(* Lifespan, clause 2 (C15) for an indicator with one managed helper series: with [pre] trimmed
   away, S the retained calculated candles and [new] the raw candles just appended, calculate()
   on S ++ new computes exactly what it computes on (pre ++ S) ++ new - provided the reading
   function is local: with W candles of history behind the candle it looks no further back. *)
From Coq Require Import ZArith List String Bool Lia ZifyBool.
From Hexital Require Import Base.Prelude Base.Num Model.Manager Model.Candle Model.Readings Model.Analysis
  Model.Engine Proofs.ListProofs Proofs.EngineProofs Proofs.TrimProofs Proofs.TrimRun.
From Hexital Require Import Proofs.DataSlot.
Import ListNotations.
Local Open Scope Z_scope.

Section Trim.
Context (NO : NumOps).
Notation val := (val NO).
Notation cd := (cd (payload NO)).
Notation store := (store NO).
Variables I M : ind NO.
Hypothesis HIsubs : i_subs NO I = [].
Notation nmI := (i_name NO I).
Variable G : cd -> Prop.
Variable D : store -> cd -> res (val * option val).
Hypothesis Hshape : forall f (a : store) (c : cd) (rest : store), G c ->
  calc_reading NO (run NO (S f)) I (a ++ c :: rest) (zlen a) =
  (r <- D a c ;; Ok (fst r, a ++ slot NO M c (snd r) :: rest)).
Variable W : Z.
Hypothesis Hloc : forall (pre a : store) (c : cd), W <= zlen a -> D (pre ++ a) c = D a c.

Notation accD := (canonD_acc NO I M D).
Notation decoD := (deco NO I M).
Notation freshD := (freshD NO I M G).
Notation loop f := (calc_loop NO (run NO (S (S f))) I).

(* the loop over fresh candles behind ANY store (nothing is assumed about how its readings were obtained) *)
Lemma loop_any f : forall (new : list cd) (a : store), Forall freshD new ->
  loop f (zrange (zlen a) (zlen a + zlen new)) true (a ++ new) = accD a new.
Proof.
  induction new as [|d new IH]; intros a Hf.
  - rewrite zrange_nil by (cbn; lia). rewrite app_nil_r. reflexivity.
  - inversion Hf as [|? ? Hd Hf']; subst. destruct Hd as (HdI & HdM & Hg).
    pose proof (zlen_nonneg new). rewrite (zlen_cons d new).
    rewrite zrange_cons by lia. cbn [calc_loop]. rewrite (pyidx_mid NO a new d). cbn [bind].
    unfold fresh, own in HdI. rewrite HdI.
    rewrite run_S. cbn [step]. rewrite (Hshape f a d new Hg). cbn [canonD_acc].
    destruct (D a d) as [r|e]; cbn [bind]; [|reflexivity].
    rewrite (set_reading_mid NO I a new (slot NO M d (snd r))). cbn [bind].
    fold (rnd_ NO I (fst r)). fold (decoD d r).
    replace (a ++ decoD d r :: new) with ((a ++ [decoD d r]) ++ new) by (rewrite <- app_assoc; reflexivity).
    rewrite <- IH by assumption. rewrite zlen_snoc. f_equal. f_equal. lia.
Qed.

(* with W candles of history the trimmed prefix does not matter to the decoration of new candles *)
Lemma acc_skip (pre : store) : forall (new : list cd) (a : store), W <= zlen a ->
  accD (pre ++ a) new = (r <- accD a new ;; Ok (pre ++ r)).
Proof.
  induction new as [|d new IH]; intros a Ha; cbn [canonD_acc bind]; [reflexivity|].
  rewrite (Hloc pre a d Ha). destruct (D a d) as [r|e]; cbn [bind]; [|reflexivity].
  rewrite <- app_assoc. apply IH. rewrite zlen_snoc. lia.
Qed.

Lemma run_subs_nil'' rec prior range st : run_subs NO rec prior I range st = Ok st.
Proof. unfold run_subs. rewrite HIsubs. reflexivity. Qed.

Lemma calculate_keyed (S0 new : store) : Forall (has_key NO I) S0 -> (2 <= List.length S0)%nat -> Forall freshD new ->
  calculate NO I (S0 ++ new) = accD S0 new.
Proof.
  intros HS HL Hf.
  assert (HfI : Forall (fresh NO I) new) by (eapply Forall_impl; [|exact Hf]; intros c Hc; apply Hc).
  unfold calculate. change FUEL with (S (S (S 13))). rewrite run_S. cbn [step]. rewrite !run_subs_nil''. cbn [bind].
  rewrite (find_calc_index_keyed NO I S0 new HS HL HfI). rewrite zlen_app. fold (zlen S0).
  rewrite (loop_any 13 new S0 Hf).
  destruct (accD S0 new) as [r|e]; cbn [bind]; [rewrite run_subs_nil''|]; reflexivity.
Qed.

Theorem calculate_after_trimD (pre S0 new : store) :
  Forall (has_key NO I) pre -> Forall (has_key NO I) S0 -> (2 <= List.length S0)%nat -> W <= zlen S0 -> Forall freshD new ->
  calculate NO I ((pre ++ S0) ++ new) = (r <- calculate NO I (S0 ++ new) ;; Ok (pre ++ r)).
Proof.
  intros Hpre HS HL HW Hf.
  rewrite (calculate_keyed S0 new HS HL Hf).
  rewrite (calculate_keyed (pre ++ S0) new); [| |rewrite app_length; lia|exact Hf].
  - apply acc_skip. exact HW.
  - apply Forall_app. split; assumption.
Qed.
End Trim.
