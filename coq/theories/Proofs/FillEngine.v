(* Engine + collapsing timeframe + gap filling under appends (C01, "with or without gap
   filling"): an indicator without helper series on a timeframe with timeframe_fill, fed any
   sorted raw stream in any two parts, ends with the candles and readings of the batch run. *)
From Coq Require Import ZArith List Bool Lia ZifyBool.
From Hexital Require Import Base.Prelude Model.Manager Proofs.CollapseProofs Proofs.FillProofs Proofs.ComposeProofs Proofs.FillCompose.
Import ListNotations.
Local Open Scope Z_scope.

Section FillDec.
Variable P : Type.
Variable merge : P -> P -> P.
Variable fillp : P -> P.
Notation cd := (cd P).
Notation fill := (fill P fillp).
Notation fill_from := (fill_from P fillp).
Notation fill_run := (fill_run P fillp).
Notation resample := (resample P merge).
Notation resample_acc := (resample_acc P merge).
Notation collapse := (collapse P merge).
Notation cf := (cf P merge fillp).
Notation alike := (alike P merge).

(* a stored candle and the raw bucket it decorates: same timestamp, merges and fills alike *)
Definition dec (a b : cd) : Prop := alike a b /\ fillp (p a) = fillp (p b).

Lemma dec_map_t (l1 l2 : list cd) : Forall2 dec l1 l2 -> map (@t _) l1 = map (@t _) l2.
Proof. induction 1 as [|a b l1 l2 [[Ht _] _] _ IH]; cbn [map]; congruence. Qed.

Lemma fill_run_dec tf : forall n (a b : cd), t a = t b -> fillp (p a) = fillp (p b) -> fill_run n tf a = fill_run n tf b.
Proof. intros n a b Ht Hf. destruct n as [|n]; cbn [Manager.fill_run]; [reflexivity|]. rewrite Ht, Hf. reflexivity. Qed.

Lemma fill_from_dec tf (a b : cd) l : t a = t b -> fillp (p a) = fillp (p b) -> fill_from tf a l = fill_from tf b l.
Proof.
  intros Ht Hf. destruct l as [|c l]; cbn [Manager.fill_from]; [reflexivity|]. rewrite Ht.
  rewrite (fill_run_dec tf _ a b Ht Hf). reflexivity.
Qed.

(* the shape of a collapsed and filled series, and of what an append then collapses *)
Lemma cf_shape tf xs ys F : 0 < tf -> sorted P (xs ++ ys) -> cf tf xs = Ok F ->
  on_grid P tf F /\ strictly_inc P F /\
  (match F with [] => True | f0 :: F' => contiguous_from P tf (t f0) F' end) /\
  lsorted P tf (F ++ ys).
Proof.
  intros Htf Hs HD. unfold FillCompose.cf in HD.
  assert (Hsx : sorted P xs).
  { destruct xs as [|x0 xs']; [exact I|]. cbn [app sorted] in Hs.
    destruct (sorted_from_app_inv P xs' (t x0) ys Hs) as [A _]. exact A. }
  rewrite (collapse_is_resample P merge tf xs Htf Hsx) in HD. cbn [bind] in HD.
  pose proof (lsorted_resample_app P merge tf xs ys Htf Hs) as LRS.
  assert (Hlx : lsorted P tf xs) by (apply sorted_lsorted; assumption).
  destruct (resample_shape P merge tf xs Htf Hlx) as [GR SR].
  set (R := resample tf xs) in *. clearbody R.
  destruct R as [|r0 Rrest].
  - cbn in HD. assert (F = []) by congruence. subst F. repeat split; [constructor|exact LRS].
  - cbn [Manager.fill] in HD.
    destruct (exists_last_or_nil Rrest) as [ER|(Rmid & r & ER)]; subst Rrest.
    + cbn [Manager.fill_from bind] in HD. assert (F = [r0]) by congruence. subst F. repeat split; [exact GR|exact LRS].
    + destruct (fill_from tf r0 (Rmid ++ [r])) as [o1|e] eqn:EF; cbn [bind] in HD; [|discriminate].
      assert (ED : F = r0 :: o1) by congruence. subst F. clear HD.
      pose proof (fill_from_snoc_t P fillp tf Rmid r0 r r eq_refl) as HS. rewrite EF in HS. destruct HS as (G & EG & _). subst o1.
      pose proof (filled_contiguous P fillp tf r0 _ _ (fill_from_filled P fillp tf Htf _ _ _ EF)) as HC.
      inversion GR as [|? ? R0m GRr]; subst.
      destruct (contiguous_grid_inc P tf Htf (G ++ [r]) (t r0) R0m HC) as [GG SG].
      split; [constructor; assumption|]. split; [exact SG|]. split; [exact HC|].
      cbn [app lsorted]. rewrite (label_on_grid (t r0) tf Htf R0m). rewrite <- app_assoc.
      replace (G ++ [r] ++ ys) with ((G ++ [r]) ++ ys) by (rewrite <- app_assoc; reflexivity).
      apply lsorted_from_app.
      * apply grid_inc_lsorted; [assumption|exact GG| |].
        -- destruct (G ++ [r]) as [|c0 l0]; [exact I|]. destruct SG as [S1 _]. lia.
        -- destruct (G ++ [r]) as [|c0 l0]; [exact I|]. destruct SG as [_ S2]. exact S2.
      * rewrite rev_unit. cbn [app lsorted] in LRS.
        pose proof (lsorted_from_app_inv P tf (Rmid ++ [r]) (label (t r0) tf) ys) as Hinv.
        rewrite rev_unit in Hinv. apply Hinv. rewrite <- app_assoc in LRS. rewrite <- app_assoc. exact LRS.
Qed.

(* facts that depend on timestamps only *)
Lemma on_grid_t' tf (l1 l2 : list cd) : map (@t _) l1 = map (@t _) l2 -> on_grid P tf l1 -> on_grid P tf l2.
Proof.
  revert l2; induction l1 as [|a l1 IH]; intros [|b l2] E H; try discriminate; [constructor|].
  cbn [map] in E. injection E as E1 E2. inversion H; subst. constructor; [congruence|apply IH; assumption].
Qed.
Lemma strictly_inc_from_t' : forall (l1 l2 : list cd) r, map (@t _) l1 = map (@t _) l2 -> strictly_inc_from P r l1 -> strictly_inc_from P r l2.
Proof.
  induction l1 as [|a l1 IH]; intros [|b l2] r E H; try discriminate; [exact I|].
  cbn [map] in E. injection E as E1 E2. destruct H as [H1 H2]. split; [lia|]. rewrite <- E1. apply IH; assumption.
Qed.
Lemma strictly_inc_t' (l1 l2 : list cd) : map (@t _) l1 = map (@t _) l2 -> strictly_inc P l1 -> strictly_inc P l2.
Proof.
  destruct l1 as [|a l1], l2 as [|b l2]; intros E H; try discriminate; [exact I|].
  cbn [map] in E. injection E as E1 E2. cbn [strictly_inc] in *. rewrite <- E1. eapply strictly_inc_from_t'; eassumption.
Qed.
Lemma lsorted_from_t' tf : forall (l1 l2 : list cd) L, map (@t _) l1 = map (@t _) l2 -> lsorted_from P tf L l1 -> lsorted_from P tf L l2.
Proof.
  induction l1 as [|a l1 IH]; intros [|b l2] L E H; try discriminate; [exact I|].
  cbn [map] in E. injection E as E1 E2. destruct H as [H1 H2]. cbn [lsorted_from]. rewrite <- E1. split; [exact H1|apply IH; assumption].
Qed.
Lemma lsorted_t' tf (l1 l2 : list cd) : map (@t _) l1 = map (@t _) l2 -> lsorted P tf l1 -> lsorted P tf l2.
Proof.
  destruct l1 as [|a l1], l2 as [|b l2]; intros E H; try discriminate; [exact I|].
  cbn [map] in E. injection E as E1 E2. cbn [lsorted] in *. rewrite <- E1. eapply lsorted_from_t'; eassumption.
Qed.
Lemma contiguous_t' tf : forall (l1 l2 : list cd) r, map (@t _) l1 = map (@t _) l2 -> contiguous_from P tf r l1 -> contiguous_from P tf r l2.
Proof.
  induction l1 as [|a l1 IH]; intros [|b l2] r E H; try discriminate; [exact I|].
  cbn [map] in E. injection E as E1 E2. destruct H as [H1 H2]. cbn [contiguous_from]. rewrite <- E1. split; [exact H1|apply IH; assumption].
Qed.

Definition chain (tf : Z) (l : list cd) : Prop := match l with [] => True | x0 :: r => contiguous_from P tf (t x0) r end.
Lemma chain_t tf (l1 l2 : list cd) : map (@t _) l1 = map (@t _) l2 -> chain tf l1 -> chain tf l2.
Proof.
  destruct l1 as [|a l1], l2 as [|b l2]; intros E H; try discriminate; [exact I|].
  cbn [map] in E. injection E as E1 E2. cbn [chain] in *. rewrite <- E1. eapply contiguous_t'; eassumption.
Qed.

(* filling a series whose first part (up to and including c) is already contiguous *)
Lemma fill_split tf (Htf : 0 < tf) A c B : chain tf (A ++ [c]) ->
  fill tf (A ++ c :: B) = (rb <- fill_from tf c B ;; Ok (A ++ c :: rb)).
Proof.
  intros H. destruct A as [|a0 A']; cbn [app Manager.fill].
  - reflexivity.
  - cbn [app chain] in H. rewrite (fill_from_app P fillp tf A' a0 c B).
    rewrite (fill_from_contiguous P fillp tf Htf (A' ++ [c]) a0 H). cbn [bind].
    destruct (fill_from tf c B) as [rb|e]; cbn [bind]; [|reflexivity]. rewrite <- app_assoc. reflexivity.
Qed.

Lemma chain_swap_last tf A c c' : t c = t c' -> chain tf (A ++ [c]) -> chain tf (A ++ [c']).
Proof.
  intros Ht H. eapply chain_t; [|exact H]. rewrite !map_app. cbn [map]. rewrite Ht. reflexivity.
Qed.

Lemma cf_dec tf (Htf : 0 < tf) (D F ys : list cd) :
  on_grid P tf F -> strictly_inc P F -> chain tf F -> lsorted P tf (F ++ ys) -> Forall2 dec D F ->
  match cf tf (F ++ ys) with
  | Ok G => exists K K0 T restD restF, D = K ++ restD /\ F = K0 ++ restF /\ Forall2 dec K K0 /\
                                       G = K0 ++ T /\ cf tf (D ++ ys) = Ok (K ++ T) /\
                                       ((restD = [] /\ restF = []) \/ exists d f, restD = [d] /\ restF = [f])
  | Err e => cf tf (D ++ ys) = Err e
  end.
Proof.
  intros GF SF CF LF HA. pose proof (dec_map_t D F HA) as Et.
  assert (GD : on_grid P tf D) by (eapply on_grid_t'; [symmetry; exact Et|exact GF]).
  assert (SD : strictly_inc P D) by (eapply strictly_inc_t'; [symmetry; exact Et|exact SF]).
  assert (CD : chain tf D) by (eapply chain_t; [symmetry; exact Et|exact CF]).
  assert (LD : lsorted P tf (D ++ ys)) by (eapply lsorted_t'; [|exact LF]; rewrite !map_app, Et; reflexivity).
  unfold FillCompose.cf. rewrite (collapse_lsorted P merge tf (F ++ ys) Htf LF), (collapse_lsorted P merge tf (D ++ ys) Htf LD). cbn [bind].
  assert (EF : resample tf (F ++ ys) = resample_acc tf (rev F) ys).
  { unfold Manager.resample. rewrite resample_acc_app. rewrite (resample_acc_id P merge tf Htf F []); [reflexivity|exact GF|exact SF]. }
  assert (ED : resample tf (D ++ ys) = resample_acc tf (rev D) ys).
  { unfold Manager.resample. rewrite resample_acc_app. rewrite (resample_acc_id P merge tf Htf D []); [reflexivity|exact GD|exact SD]. }
  rewrite EF, ED. clear EF ED.
  destruct (exists_last_or_nil F) as [EF|(Finit & f & EF)]; subst F.
  - inversion HA; subst. cbn [rev]. destruct (fill tf (resample_acc tf [] ys)) as [G|e]; [|reflexivity].
    exists [], [], G, [], []. split; [reflexivity|]. split; [reflexivity|]. split; [constructor|]. split; [reflexivity|]. split; [reflexivity|left; split; reflexivity].
  - destruct (Forall2_app_inv_r _ _ HA) as (Dinit & Dl & HAi & HAl & EDl).
    destruct Dl as [|d Dl']; [inversion HAl|].
    assert (Hdf : dec d f) by (inversion HAl; assumption).
    assert (Dl' = []) by (inversion HAl as [|? ? ? ? _ Hnil]; inversion Hnil; reflexivity). subst Dl' D. clear HAl.
    rewrite !rev_unit. rewrite (resample_acc_head P merge tf ys d (rev Dinit)), (resample_acc_head P merge tf ys f (rev Finit)).
    rewrite !rev_involutive. destruct Hdf as [Hal Hfp]. pose proof Hal as [Htdf _].
    destruct (resample_acc_alike P merge tf d f ys Hal) as [(tl & T1 & T2)|(T1 & _)].
    + (* the last bucket is closed *)
      rewrite T1, T2. rewrite (fill_split tf Htf Finit f tl CF), (fill_split tf Htf Dinit d tl CD).
      rewrite (fill_from_dec tf d f tl Htdf Hfp).
      destruct (fill_from tf f tl) as [rb|e]; cbn [bind]; [|reflexivity].
      exists (Dinit ++ [d]), (Finit ++ [f]), rb, [], []. rewrite !app_nil_r.
      split; [reflexivity|]. split; [reflexivity|]. split; [apply Forall2_app; [exact HAi|constructor; [split; assumption|constructor]]|].
      split; [rewrite <- app_assoc; reflexivity|]. split; [rewrite <- app_assoc; reflexivity|left; split; reflexivity].
    + (* the last bucket takes in new candles *)
      rewrite T1. destruct (resample_acc_head_t P merge tf ys f) as (h & tl & ET & Hth). rewrite ET.
      assert (CFh : chain tf (Finit ++ [h])) by (eapply chain_swap_last; [symmetry; exact Hth|exact CF]).
      assert (CDh : chain tf (Dinit ++ [h])) by (eapply chain_swap_last; [|exact CD]; congruence).
      rewrite (fill_split tf Htf Finit h tl CFh), (fill_split tf Htf Dinit h tl CDh).
      destruct (fill_from tf h tl) as [rb|e]; cbn [bind]; [|reflexivity].
      exists Dinit, Finit, (h :: rb), [d], [f]. split; [reflexivity|]. split; [reflexivity|]. split; [exact HAi|]. split; [reflexivity|]. split; [reflexivity|right; exists d, f; split; reflexivity].
Qed.

(* the two lemmas together: what an append does to a decorated collapsed-and-filled series *)
Theorem cf_structure tf xs ys F D : 0 < tf -> sorted P (xs ++ ys) -> cf tf xs = Ok F -> Forall2 dec D F ->
  match cf tf (xs ++ ys) with
  | Ok G => exists K K0 T restD restF, D = K ++ restD /\ F = K0 ++ restF /\ Forall2 dec K K0 /\
                                       G = K0 ++ T /\ cf tf (D ++ ys) = Ok (K ++ T) /\
                                       ((restD = [] /\ restF = []) \/ exists d f, restD = [d] /\ restF = [f])
  | Err e => cf tf (D ++ ys) = Err e
  end.
Proof.
  intros Htf Hs HF HA. destruct (cf_shape tf xs ys F Htf Hs HF) as (GF & SF & CF & LF).
  rewrite <- (collapse_fill_incremental P merge fillp tf xs ys F Htf Hs HF).
  apply cf_dec; assumption.
Qed.
End FillDec.

From Coq Require Import String.
From Hexital Require Import Base.Num Model.Candle Model.Readings Model.Analysis Model.Engine
  Proofs.ListProofs Proofs.EngineProofs.

Section EngineFill.
Context (NO : NumOps).
Notation val := (val NO).
Notation payload := (payload NO).
Notation cd := (cd payload).
Notation store := (store NO).
Notation mrg := (Candle.merge NO).
Notation cf := (cf payload mrg (fillp NO)).

Variable I : ind NO.
Hypothesis Hleaf : i_subs NO I = [] /\ i_managed NO I = [].
Variable calc : store -> Z -> res val.
Hypothesis Hpure : forall rec st i, calc_reading NO rec I st i = (v <- calc st i ;; Ok (v, st)).
Hypothesis HC : Causal NO I calc.
Notation fresh := (fresh NO I).
Notation canon := (canon NO I calc).
Notation canon_acc := (canon_acc NO I calc).
Notation IsCanon := (IsCanon NO I calc).
Notation setk := (setk NO I).
Notation dec := (dec payload mrg (fillp NO)).

Lemma F2_len {A B} (R : A -> B -> Prop) : forall l1 l2, Forall2 R l1 l2 -> List.length l1 = List.length l2.
Proof. induction 1; cbn [List.length]; congruence. Qed.

Lemma setk_dec d v : dec (setk d v) d.
Proof.
  split; [apply setk_alike|]. unfold EngineProofs.setk, with_own_dict, fillp, recovered. cbn [p].
  destruct (i_sub NO I); reflexivity.
Qed.

Lemma canon_acc_dec : forall todo a r, canon_acc a todo = Ok r -> exists r', r = a ++ r' /\ Forall2 dec r' todo.
Proof.
  induction todo as [|d todo IH]; intros a r H; cbn [EngineProofs.canon_acc] in H.
  - inversion H; subst. exists []. split; [rewrite app_nil_r; reflexivity|constructor].
  - destruct (calc (a ++ [d]) (zlen a)) as [v|e]; cbn [bind] in H; [|discriminate].
    destruct (IH _ _ H) as (r' & Er & Hr). exists (setk d (rnd_ NO I v) :: r'). split.
    + rewrite Er, <- app_assoc. reflexivity.
    + constructor; [apply setk_dec|exact Hr].
Qed.

(* collapse + fill of fresh candles gives fresh candles *)
Lemma fillp_fresh ts q : fresh {| t := ts; p := fillp NO q |}.
Proof. unfold EngineProofs.fresh, own, own_dict, fillp, raw_payload. cbn [p inds subs]. destruct (i_sub NO I); reflexivity. Qed.
Lemma fill_run_fresh tf : forall n prev, Forall fresh (fill_run payload (fillp NO) n tf prev).
Proof. induction n as [|n IH]; intros prev; cbn [Manager.fill_run]; constructor; [apply fillp_fresh|apply IH]. Qed.
Lemma fill_from_fresh tf : forall l prev out, Forall fresh l -> fill_from payload (fillp NO) tf prev l = Ok out -> Forall fresh out.
Proof.
  induction l as [|c l IH]; intros prev out Hl H; cbn [Manager.fill_from] in H.
  - inversion H; constructor.
  - inversion Hl as [|? ? Hc Hl']; subst.
    destruct ((t prev <? t c) && ((t c - t prev) mod tf =? 0)); [|discriminate].
    destruct (fill_from payload (fillp NO) tf c l) as [rest|] eqn:E; cbn [bind] in H; [|discriminate]. inversion H; subst.
    apply Forall_app. split; [apply fill_run_fresh|]. constructor; [exact Hc|eapply IH; eassumption].
Qed.
Lemma cf_fresh tf l out : 0 < tf -> sorted payload l -> Forall fresh l -> cf tf l = Ok out -> Forall fresh out.
Proof.
  intros Htf Hs Hf H. unfold FillCompose.cf in H. rewrite (collapse_is_resample payload mrg tf l Htf Hs) in H. cbn [bind] in H.
  assert (HR : Forall fresh (resample payload mrg tf l)) by (apply resample_acc_fresh; [constructor|exact Hf]).
  destruct (resample payload mrg tf l) as [|c0 R]; cbn [Manager.fill] in H; [inversion H; constructor|].
  inversion HR as [|? ? H0 HR']; subst.
  destruct (fill_from payload (fillp NO) tf c0 R) as [rest|] eqn:E; cbn [bind] in H; [|discriminate]. inversion H; subst.
  constructor; [exact H0|eapply fill_from_fresh; eassumption].
Qed.

(* the state an indicator on a filled collapsing timeframe is in after its stream so far was xs *)
Definition state_after_fill (tf : Z) (xs : list cd) (D : store) : Prop :=
  exists F, cf tf xs = Ok F /\ canon F = Ok D.

Theorem append_on_filled_timeframe (tf : Z) (xs ys : list cd) (D : store) :
  0 < tf -> sorted payload (xs ++ ys) -> Forall fresh (xs ++ ys) -> state_after_fill tf xs D ->
  match cf tf (xs ++ ys) with
  | Ok G => exists M, cf tf (D ++ ys) = Ok M /\ calculate NO I M = canon G
  | Err e => cf tf (D ++ ys) = Err e
  end.
Proof.
  intros Htf Hs Hf (F & HF & HD).
  assert (Hsx : sorted payload xs).
  { destruct xs as [|x0 xs']; [exact Logic.I|]. cbn [app sorted] in Hs.
    destruct (sorted_from_app_inv payload xs' (t x0) ys Hs) as [A _]. exact A. }
  pose proof Hf as Hf'. apply Forall_app in Hf'. destruct Hf' as [Hfx Hfy].
  destruct (canon_acc_dec F [] D HD) as (D' & ED & HA). cbn [app] in ED. subst D'.
  pose proof (cf_structure payload mrg (fillp NO) tf xs ys F D Htf Hs HF HA) as HS.
  destruct (cf tf (xs ++ ys)) as [G|e] eqn:EG; [|exact HS].
  destruct HS as (K & K0 & T & restD & restF & ED & EF & HK & EGs & EM & _).
  exists (K ++ T). split; [exact EM|].
  rewrite (calculate_is_leaf NO I Hleaf calc Hpure).
  assert (HfG : Forall fresh G) by (eapply cf_fresh; [exact Htf|exact Hs|exact Hf|exact EG]).
  rewrite EGs in HfG. apply Forall_app in HfG. destruct HfG as [HfK0 HfT].
  (* canon of the kept buckets is the kept part of D *)
  unfold EngineProofs.canon in HD. rewrite EF, canon_acc_app in HD.
  destruct (EngineProofs.canon_acc NO I calc [] K0) as [mid|e] eqn:Emid; cbn [bind] in HD; [|discriminate].
  destruct (canon_acc_dec K0 [] mid Emid) as (m' & Em & HAm). cbn [app] in Em. subst m'.
  destruct (canon_acc_dec restF mid D HD) as (r' & Er & _).
  assert (EK : mid = K).
  { assert (L1 : List.length mid = List.length K) by (rewrite (F2_len _ _ _ HAm), (F2_len _ _ _ HK); reflexivity).
    rewrite ED in Er. clear -Er L1. revert K Er L1. induction mid as [|a mid IH]; intros [|b K] Er L1; try discriminate; [reflexivity|].
    cbn [app] in Er. injection Er as E1 E2. f_equal; [congruence|]. apply IH; [exact E2|cbn in L1; lia]. }
  subst mid.
  assert (HcK : IsCanon K) by (eapply canon_acc_iscanon; [constructor|exact HfK0|exact Emid]).
  rewrite (append_is_canon NO I calc HC K T HcK HfT).
  rewrite EGs. unfold EngineProofs.canon. rewrite canon_acc_app, Emid. reflexivity.
Qed.

End EngineFill.

Section FillFinal.
Context (NO : NumOps).
Notation val := (val NO).
Notation payload := (payload NO).
Notation cd := (cd payload).
Notation store := (store NO).
Notation mrg := (Candle.merge NO).
Notation cf := (cf payload mrg (fillp NO)).
Variable I : ind NO.
Variable calc : store -> Z -> res val.
Notation canon := (canon NO I calc).
Notation dec := (dec payload mrg (fillp NO)).

(* no repainting on a filled collapsing timeframe: every candle but the last of the state
   after xs - closed buckets and the fill candles between them, with their readings - is a
   candle of the state after xs ++ ys *)
Theorem filled_closed_buckets_final (tf : Z) (xs ys : list cd) (D D' : store) :
  0 < tf -> sorted payload (xs ++ ys) ->
  state_after_fill NO I calc tf xs D -> state_after_fill NO I calc tf (xs ++ ys) D' ->
  exists tl, D' = removelast D ++ tl.
Proof.
  intros Htf Hs (F & HF & HD) (G & HG & HD').
  destruct (canon_acc_dec NO I calc F [] D HD) as (D0 & ED & HA). cbn [app] in ED. subst D0.
  pose proof (cf_structure payload mrg (fillp NO) tf xs ys F D Htf Hs HF HA) as HS. rewrite HG in HS.
  destruct HS as (K & K0 & T & restD & restF & EDk & EFk & HK & EGs & _ & Hrest).
  (* canon of the kept raw buckets is the kept part of D, and the first part of D' *)
  unfold EngineProofs.canon in HD, HD'. rewrite EFk, canon_acc_app in HD. rewrite EGs, canon_acc_app in HD'.
  destruct (EngineProofs.canon_acc NO I calc [] K0) as [mid|e] eqn:Emid; cbn [bind] in HD, HD'; [|discriminate].
  destruct (canon_acc_dec NO I calc K0 [] mid Emid) as (m' & Em & HAm). cbn [app] in Em. subst m'.
  destruct (canon_acc_dec NO I calc restF mid D HD) as (r1 & Er1 & _).
  destruct (canon_acc_dec NO I calc T mid D' HD') as (r2 & Er2 & _).
  assert (EK : mid = K).
  { assert (L1 : List.length mid = List.length K) by (rewrite (F2_len _ _ _ HAm), (F2_len _ _ _ HK); reflexivity).
    rewrite EDk in Er1. clear -Er1 L1. revert K Er1 L1. induction mid as [|a mid IH]; intros [|b K] Er L1; try discriminate; [reflexivity|].
    cbn [app] in Er. injection Er as E1 E2. f_equal; [congruence|]. apply IH; [exact E2|cbn in L1; lia]. }
  subst mid. rewrite EDk, Er2. destruct Hrest as [[-> ->]|(d & f & -> & ->)].
  - rewrite app_nil_r. destruct (exists_last_or_nil K) as [->|(Ki & k & ->)].
    + exists r2. reflexivity.
    + rewrite removelast_last. exists (k :: r2). rewrite <- app_assoc. reflexivity.
  - rewrite removelast_last. exists r2. reflexivity.
Qed.
End FillFinal.
