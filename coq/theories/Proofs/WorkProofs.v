(* Work per append in the engine model (C07, leaf indicators): the number of
   _calculate_reading invocations calculate() makes after appending k candles to a calculated
   indicator (two or more candles of history) is exactly k, whatever the length of the history.
   [leaf_steps] is the loop of calculate() instrumented with a counter; it returns the same
   store as the loop itself. *)
From Coq Require Import ZArith List String Bool Lia ZifyBool.
From Hexital Require Import Base.Prelude Base.Num Model.Manager Model.Candle Model.Readings Model.Engine
  Proofs.ListProofs Proofs.EngineProofs.
Import ListNotations.
Local Open Scope Z_scope.

Section Work.
Context (NO : NumOps).
Notation val := (val NO).
Notation cd := (cd (payload NO)).
Notation store := (store NO).
Variable I : ind NO.
Variable calc : store -> Z -> res val.
Hypothesis HC : Causal NO I calc.
Notation nm := (i_name NO I).
Notation own := (own NO I).
Notation setk := (setk NO I).
Notation fresh := (fresh NO I).
Notation rnd_ := (rnd_ NO I).
Notation IsCanon := (IsCanon NO I calc).
Notation leaf_loop := (leaf_loop NO I calc).
Notation canon_acc := (canon_acc NO I calc).

Fixpoint leaf_steps (idxs : list Z) (st : store) : res (nat * store) :=
  match idxs with
  | [] => Ok (0%nat, st)
  | i :: rest =>
    match pyidx st i with
    | None => Err IndexError
    | Some c =>
      if match alist_get nm (own c) with Some v => negb (is_none NO v) | None => false end
      then leaf_steps rest st
      else v <- calc st i ;; st' <- set_reading NO st I (rnd_ v) i ;;
           '(n, r) <- leaf_steps rest st' ;; Ok (S n, r)
    end
  end.

(* the instrumented loop computes what the loop computes *)
Lemma leaf_steps_loop : forall idxs st, leaf_loop idxs st = ('(_, r) <- leaf_steps idxs st ;; Ok r).
Proof.
  induction idxs as [|i idxs IH]; intros st; cbn [EngineProofs.leaf_loop leaf_steps]; [reflexivity|].
  destruct (pyidx st i) as [c|]; [|reflexivity].
  destruct (match alist_get nm (own c) with Some v => negb (is_none NO v) | None => false end); [apply IH|].
  destruct (calc st i) as [v|]; cbn [bind]; [|reflexivity].
  destruct (set_reading NO st I (rnd_ v) i) as [st'|]; cbn [bind]; [|reflexivity].
  rewrite IH. destruct (leaf_steps idxs st') as [[n r]|]; reflexivity.
Qed.

(* over fresh candles behind a canonical prefix: one invocation per candle *)
Lemma steps_fresh : forall (new : list cd) (a : store) r, IsCanon a -> Forall fresh new ->
  canon_acc a new = Ok r ->
  leaf_steps (zrange (zlen a) (zlen a + zlen new)) (a ++ new) = Ok (List.length new, r).
Proof.
  induction new as [|d new IH]; intros a r Ha Hf Hr.
  - rewrite zrange_nil by (cbn; lia). rewrite app_nil_r. cbn in Hr. inversion Hr. reflexivity.
  - inversion Hf as [|? ? Hd Hf']; subst.
    assert (L : zlen (d :: new) = 1 + zlen new) by (unfold zlen; cbn [List.length]; lia).
    pose proof (zlen_nonneg new).
    rewrite zrange_cons by lia. cbn [leaf_steps]. rewrite (pyidx_mid NO).
    unfold EngineProofs.fresh in Hd. rewrite Hd.
    pose proof (HC a d None new Ha Hd) as Hc0. cbn [slot] in Hc0. rewrite Hc0.
    cbn [EngineProofs.canon_acc] in Hr.
    destruct (calc (a ++ [d]) (zlen a)) as [v|e] eqn:Ev; cbn [bind] in *; [|discriminate].
    rewrite (set_reading_mid NO I). cbn [bind].
    replace (a ++ setk d (rnd_ v) :: new) with ((a ++ [setk d (rnd_ v)]) ++ new) by (rewrite <- app_assoc; reflexivity).
    replace (zlen a + 1) with (zlen (a ++ [setk d (rnd_ v)])) by (rewrite zlen_app; reflexivity).
    replace (zlen a + zlen (d :: new)) with (zlen (a ++ [setk d (rnd_ v)]) + zlen new) by (rewrite zlen_app; change (zlen [setk d (rnd_ v)]) with 1; lia).
    rewrite (IH _ r); [reflexivity|econstructor; eassumption|assumption|exact Hr].
Qed.

(* with two or more calculated candles the resume index is the end of the history *)
Lemma find_calc_index_end (cs : store) (new : list cd) : IsCanon cs -> (2 <= List.length cs)%nat -> Forall fresh new ->
  find_calc_index NO I (cs ++ new) = List.length cs.
Proof.
  intros Hc Hl Hf. pose proof (iscanon_has_key NO I calc cs Hc) as Hk.
  destruct cs as [|c0 r]; [cbn in Hl; lia|]. cbn [app find_calc_index].
  inversion Hk as [|? ? Hk0 Hkr]; subst. unfold EngineProofs.own in Hk0. rewrite Hk0. cbn [negb].
  rewrite (last_with_key_fresh_tail NO I) by assumption.
  assert (Hgen : forall (l : store) i, l <> [] -> Forall (fun c => alist_mem nm (own c) = true) l ->
                 last_with_key NO I l i = Some (i + List.length l - 1)%nat).
  { induction l as [|c l IH]; intros i Hne Hk'; [congruence|].
    inversion Hk' as [|? ? Hc0 Hk'']; subst. cbn [last_with_key List.length].
    destruct l as [|c' l'].
    - cbn. unfold EngineProofs.own in Hc0. rewrite Hc0. f_equal. lia.
    - rewrite (IH (S i)) by (try discriminate; assumption). f_equal. cbn [List.length]. lia. }
  assert (Hr : r <> []) by (destruct r; [cbn in Hl; lia|discriminate]).
  rewrite (Hgen r 1%nat Hr Hkr). cbn [List.length]. lia.
Qed.

Theorem append_steps (cs : store) (new : list cd) (r : store) : IsCanon cs -> (2 <= List.length cs)%nat -> Forall fresh new ->
  leaf_calculate NO I calc (cs ++ new) = Ok r ->
  leaf_steps (zrange (Z.of_nat (find_calc_index NO I (cs ++ new))) (zlen (cs ++ new))) (cs ++ new) = Ok (List.length new, r).
Proof.
  intros Hc Hl Hf Hr. rewrite (append_is_canon NO I calc HC cs new Hc Hf) in Hr.
  rewrite (find_calc_index_end cs new Hc Hl Hf). rewrite zlen_app. fold (zlen cs).
  apply steps_fresh; assumption.
Qed.
End Work.
