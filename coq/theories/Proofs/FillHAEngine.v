(* Engine + collapsing timeframe + gap filling + Heikin-Ashi under appends (C01 with every
   manager option but the lifespan): an indicator without helper series whose candles are the
   converted, filled collapse of a raw stream, fed that stream in any two parts, ends with the
   candles and readings of the batch run. *)
From Coq Require Import ZArith List String Bool Lia ZifyBool.
From Hexital Require Import Base.Prelude Base.Num Model.Manager Model.Candle Model.Readings Model.Analysis Model.Engine
  Proofs.ListProofs Proofs.CollapseProofs Proofs.FillProofs Proofs.HAProofs Proofs.EngineProofs Proofs.ComposeProofs
  Proofs.PipelineProofs Proofs.ComposeHA Proofs.FillCompose.
From Hexital Require Import Proofs.FillEngine Proofs.FillHA.
Import ListNotations.
Local Open Scope Z_scope.

Section FillHAEngine.
Context (NO : NumOps).
Notation val := (val NO).
Notation payload := (payload NO).
Notation cd := (cd payload).
Notation store := (store NO).
Notation mrg := (Candle.merge NO).
Notation cf := (cf payload mrg (fillp NO)).
Notation convert := (Candle.convert NO).
Notation convert_from := (Candle.convert_from NO).
Notation dec := (dec payload mrg (fillp NO)).
Notation pristine := (pristine NO).
Notation all_raw := (all_raw NO).
Notation all_tagged := (all_tagged NO).

Variable I : ind NO.
Hypothesis Hleaf : i_subs NO I = [] /\ i_managed NO I = [].
Variable calc : store -> Z -> res val.
Hypothesis Hpure : forall rec st i, calc_reading NO rec I st i = (v <- calc st i ;; Ok (v, st)).
Hypothesis HC : Causal NO I calc.
Notation fresh := (fresh NO I).
Notation canon := (canon NO I calc).
Notation canon_acc := (canon_acc NO I calc).

Lemma dec_trans (a b c : cd) : dec a b -> dec b c -> dec a c.
Proof.
  intros [[T1 M1] F1] [[T2 M2] F2]. split; [split; [congruence|intros q; rewrite M1; apply M2]|congruence].
Qed.
Lemma dec_trans_list : forall (l1 l2 l3 : list cd), Forall2 dec l1 l2 -> Forall2 dec l2 l3 -> Forall2 dec l1 l3.
Proof.
  induction l1 as [|a l1 IH]; intros l2 l3 H1 H2; inversion H1; subst; inversion H2; subst; constructor.
  - eapply dec_trans; eassumption.
  - eapply IH; eassumption.
Qed.

Lemma app_eq_len {A} : forall (a a' b b' : list A), a ++ b = a' ++ b' -> List.length a = List.length a' -> a = a' /\ b = b'.
Proof.
  induction a as [|x a IH]; intros [|y a'] b b' E L; try discriminate; [split; [reflexivity|exact E]|].
  cbn [app] in E. injection E as E1 E2. cbn in L. destruct (IH a' b b' E2) as [Ha Hb]; [lia|]. subst. split; reflexivity.
Qed.

Lemma F2_app_l {A B} (R : A -> B -> Prop) : forall (l1 l1' : list A) (l2 : list B), Forall2 R (l1 ++ l1') l2 ->
  exists m m', l2 = m ++ m' /\ Forall2 R l1 m /\ Forall2 R l1' m'.
Proof. intros l1 l1' l2 H. apply Forall2_app_inv_l in H. destruct H as (m & m' & H1 & H2 & E). exists m, m'. auto. Qed.

Lemma converted_fresh : forall todo done, Forall fresh (rev done) -> Forall fresh (convert_from done todo).
Proof.
  induction todo as [|c todo IH]; intros done Hd; cbn [Candle.convert_from]; [exact Hd|].
  apply IH. cbn [rev]. apply Forall_app. split; [exact Hd|]. constructor; [|constructor].
  unfold EngineProofs.fresh, EngineProofs.own, own_dict, convert_one. cbn [p inds subs]. destruct (i_sub NO I); reflexivity.
Qed.

Theorem append_on_filled_converted_timeframe (tf : Z) (xs ys : list cd) (D : store) :
  0 < tf -> sorted payload (xs ++ ys) -> pristine (xs ++ ys) ->
  (exists F, cf tf xs = Ok F /\ canon (convert F) = Ok D) ->
  match cf tf (xs ++ ys) with
  | Ok G => exists M, pipe3 NO tf (D ++ ys) = Ok M /\ calculate NO I M = canon (convert G)
  | Err e => pipe3 NO tf (D ++ ys) = Err e
  end.
Proof.
  intros Htf Hs Hp (F & HF & HD). unfold pipe3.
  assert (Hsx : sorted payload xs).
  { destruct xs as [|x0 xs']; [exact Logic.I|]. cbn [app sorted] in Hs.
    destruct (sorted_from_app_inv payload xs' (t x0) ys Hs) as [A _]. exact A. }
  pose proof Hp as Hp'. apply Forall_app in Hp'. destruct Hp' as [Hpx Hpy].
  assert (HpF : pristine F) by (eapply cf_pristine; [exact Htf|exact Hsx|exact Hpx|exact HF]).
  assert (HrF : all_raw F) by (apply pristine_raw; exact HpF).
  rewrite (convert_raw NO F HrF) in HD.
  destruct (convert_from_dec NO F [] HpF) as (C & EC & HCF). cbn [rev app] in EC.
  destruct (convert_from_spec NO F []) as (C' & EC' & _ & _ & HtC & _). cbn [rev app] in EC'. rewrite EC in EC'. subst C'.
  rewrite EC in HD.
  destruct (canon_acc_dec NO I calc C [] D HD) as (D' & ED & HDC). cbn [app] in ED. subst D'.
  destruct (canon_acc_decorated NO I calc C [] D HD) as (D' & ED & HdD). cbn [app] in ED. subst D'.
  assert (HA : Forall2 dec D F) by (eapply dec_trans_list; eassumption).
  assert (HtD : all_tagged D) by (eapply decorated_tagged; eassumption).
  pose proof (cf_structure payload mrg (fillp NO) tf xs ys F D Htf Hs HF HA) as HS.
  destruct (cf tf (xs ++ ys)) as [G|e] eqn:EG; [|rewrite HS; reflexivity].
  destruct HS as (K & K0 & T & restD & restF & EDk & EFk & HK & EGs & EM & _).
  rewrite EM. cbn [bind]. eexists. split; [reflexivity|].
  assert (HpG : pristine G) by (eapply cf_pristine; [exact Htf|exact Hs|exact Hp|exact EG]).
  rewrite EGs in HpG. apply Forall_app in HpG. destruct HpG as [HpK0 HpT].
  assert (HrT : all_raw T) by (apply pristine_raw; exact HpT).
  (* CK: the conversion of the kept raw buckets, a prefix of C; K decorates it *)
  set (CK := convert_from [] K0).
  assert (ECK : exists restC, C = CK ++ restC).
  { rewrite <- EC, EFk, convert_from_app. fold CK.
    destruct (convert_from_spec NO restF (rev CK)) as (o & Eo & _). rewrite Eo, rev_involutive. exists o. reflexivity. }
  destruct ECK as (restC & ECK).
  assert (LCK : List.length CK = List.length K).
  { unfold CK. rewrite convert_from_length. cbn [List.length]. rewrite (F2_len _ _ _ HK). reflexivity. }
  rewrite ECK, EDk in HdD. destruct (F2_app_l _ _ _ _ HdD) as (m & m' & Em & HdK & _).
  destruct (app_eq_len _ _ _ _ Em) as [Em1 _]; [rewrite <- (F2_len _ _ _ HdK); exact LCK|]. subst m.
  assert (HtK : all_tagged K). { rewrite EDk in HtD. apply Forall_app in HtD. apply HtD. }
  (* canon of the kept converted buckets is the kept part of D *)
  rewrite ECK in HD. unfold EngineProofs.canon in HD. rewrite canon_acc_app in HD.
  destruct (EngineProofs.canon_acc NO I calc [] CK) as [mid|e] eqn:Emid; cbn [bind] in HD; [|discriminate].
  destruct (canon_acc_dec NO I calc CK [] mid Emid) as (m2 & Em2 & HAm). cbn [app] in Em2. subst m2.
  destruct (canon_acc_dec NO I calc restC mid D HD) as (r' & Er & _).
  assert (EK : mid = K).
  { rewrite EDk in Er. destruct (app_eq_len _ _ _ _ Er) as [E1 _]; [|symmetry; exact E1].
    rewrite <- LCK. symmetry. apply (F2_len _ _ _ HAm). }
  subst mid.
  (* both conversions continue alike behind the kept buckets *)
  assert (Hh : head_cur NO (rev K) = head_cur NO (rev CK)).
  { clear -HdK. destruct (exists_last_or_nil K) as [->|(Ki & k & ->)].
    - inversion HdK; subst. reflexivity.
    - destruct (Forall2_app_inv_l _ _ HdK) as (Ci & Cl & HCi & HCl & ->). inversion HCl as [|? c ? ? (_ & Hc & _) Hn]; subst. inversion Hn; subst.
      rewrite !rev_unit. cbn. congruence. }
  destruct (convert_from_head NO I T (rev K) (rev CK) Hh) as (out & Eo1 & Eo2 & Hfo & _). rewrite !rev_involutive in Eo1, Eo2.
  assert (E1 : convert (K ++ T) = K ++ out).
  { destruct K as [|k0 K'].
    - cbn [app] in *. rewrite (convert_raw NO T HrT). exact Eo1.
    - unfold Candle.convert. rewrite find_conv_index_tagged_then_raw; [|discriminate|exact HtK|exact HrT].
      rewrite firstn_len_app, skipn_len_app. exact Eo1. }
  assert (E2 : convert (K0 ++ T) = CK ++ out).
  { rewrite (convert_raw NO (K0 ++ T)) by (apply Forall_app; split; [apply pristine_raw; exact HpK0|exact HrT]).
    rewrite convert_from_app. fold CK. exact Eo2. }
  rewrite E1, EGs, E2.
  apply (engine_over NO I Hleaf calc Hpure HC CK K out); [|exact Emid].
  apply Forall_app. split; [apply converted_fresh; constructor|exact Hfo].
Qed.

End FillHAEngine.
