(* TSI (C10): the true strength index is 100 * EMA(EMA(m)) / EMA(EMA(|m|)).  The ratio lies in
   [-100, 100] because an EMA of a series dominated by another (|x1| <= x2) stays dominated -
   at the seed, at every recurrence step, and through the rounding of every stored stage
   (rounding is odd and monotone). *)
From Coq Require Import ZArith List String Bool Reals Lra Lia.
From Flocq Require Import Core.
From Hexital Require Import Base.Prelude Base.Num Model.Candle Inst.RealInst Spec.Steppers Proofs.SpecReal.
Import ListNotations.
Local Open Scope R_scope.
Notation RO := ROps.

Lemma rnd10_abs_le nd x y : Rabs x <= y -> Rabs (rnd10 nd x) <= rnd10 nd y.
Proof.
  intros H. apply Rabs_le. assert (H1 : - y <= x <= y) by (apply Rabs_le_inv; exact H).
  split.
  - rewrite <- rnd10_opp. apply rnd10_mono. lra.
  - apply rnd10_mono. lra.
Qed.

(* one recurrence step: dominated inputs and previous readings give dominated readings *)
Theorem ema_step_dominated (p : Z) (sm : R) (nd : Z) (s1 s2 : state RO) (x1 x2 p1 p2 : R) :
  (0 < p)%Z -> 0 < sm <= IZR p + 1 -> s_prev RO s1 = Some p1 -> s_prev RO s2 = Some p2 ->
  Rabs x1 <= x2 -> Rabs p1 <= p2 ->
  exists r1 r2 s1' s2', ema_step RO p sm nd s1 x1 = Ok (VNum r1, s1') /\ ema_step RO p sm nd s2 x2 = Ok (VNum r2, s2') /\
    Rabs r1 <= r2.
Proof.
  intros Hp Hsm H1 H2 Hx Hpr. pose proof (IZR_pos p Hp) as Hp'.
  unfold ema_step. rewrite H1, H2. unfold zn; cbn [nofZ RO]; rewrite fl_one. cbn [nadd RO]. rewrite divn_ok by lra.
  cbn [bind nfloat RO nmul nsub nadd].
  eexists _, _, _, _. split; [reflexivity|]. split; [reflexivity|]. unfold rnd; cbn [nround RO].
  set (a := sm / (IZR p + 1)).
  assert (Ha : 0 < a <= 1).
  { unfold a. split; [apply Rdiv_lt_0_compat; lra|]. apply (Rmult_le_reg_r (IZR p + 1)); [lra|].
    unfold Rdiv. rewrite Rmult_assoc, Rinv_l by lra. lra. }
  apply rnd10_abs_le.
  apply Rabs_le. apply Rabs_le_inv in Hx. apply Rabs_le_inv in Hpr. split; nra.
Qed.

Lemma F2_rev {A B} (R : A -> B -> Prop) : forall l1 l2, Forall2 R l1 l2 -> Forall2 R (rev l1) (rev l2).
Proof. induction 1; cbn [rev]; [constructor|]. apply Forall2_app; [assumption|constructor; [assumption|constructor]]. Qed.

(* the seed: the mean of a window dominated pointwise is dominated *)
Lemma sum_dominated : forall (l1 l2 : list R) (a1 a2 : R), Forall2 (fun u v => Rabs u <= v) l1 l2 -> Rabs a1 <= a2 ->
  Rabs (fold_left Rplus l1 a1) <= fold_left Rplus l2 a2.
Proof.
  induction l1 as [|u l1 IH]; intros l2 a1 a2 HF Ha; inversion HF; subst; cbn [fold_left]; [exact Ha|].
  apply IH; [assumption|]. apply Rle_trans with (Rabs a1 + Rabs u); [apply Rabs_triang|lra].
Qed.
Theorem ema_seed_dominated (p : Z) (sm : R) (nd : Z) (s1 s2 : state RO) (x1 x2 : R) :
  (0 < p)%Z -> s_prev RO s1 = None -> s_prev RO s2 = None ->
  full RO p (push RO p x1 (s_buf RO s1)) = true -> full RO p (push RO p x2 (s_buf RO s2)) = true ->
  Forall2 (fun u v => Rabs u <= v) (push RO p x1 (s_buf RO s1)) (push RO p x2 (s_buf RO s2)) ->
  exists r1 r2 s1' s2', ema_step RO p sm nd s1 x1 = Ok (VNum r1, s1') /\ ema_step RO p sm nd s2 x2 = Ok (VNum r2, s2') /\
    Rabs r1 <= r2.
Proof.
  intros Hp H1 H2 F1 F2 HD. pose proof (IZR_pos p Hp) as Hp'.
  unfold ema_step. rewrite H1, H2, F1, F2. unfold zn; cbn [nofZ RO]. rewrite !divn_ok by lra. cbn [bind nsum RO nfloat].
  eexists _, _, _, _. split; [reflexivity|]. split; [reflexivity|]. unfold rnd; cbn [nround RO].
  apply rnd10_abs_le.
  assert (HS : Rabs (fold_left Rplus (rev (push RO p x1 (s_buf RO s1))) 0) <= fold_left Rplus (rev (push RO p x2 (s_buf RO s2))) 0).
  { apply sum_dominated; [|rewrite Rabs_R0; lra]. apply F2_rev. exact HD. }
  unfold Rdiv. rewrite Rabs_mult. rewrite (Rabs_right (/ IZR p)) by (apply Rle_ge, Rlt_le, Rinv_0_lt_compat; exact Hp').
  apply Rmult_le_compat_r; [apply Rlt_le, Rinv_0_lt_compat; exact Hp'|exact HS].
Qed.

(* the index itself *)
Theorem tsi_ratio_range (s a : R) : Rabs s <= a -> 0 < a -> -100 <= 100 * (s / a) <= 100.
Proof.
  intros Hs Ha. apply Rabs_le_inv in Hs.
  assert (Q : -1 <= s / a <= 1).
  { split.
    - apply (Rmult_le_reg_r a); [exact Ha|]. unfold Rdiv. rewrite Rmult_assoc, Rinv_l by lra. lra.
    - apply (Rmult_le_reg_r a); [exact Ha|]. unfold Rdiv. rewrite Rmult_assoc, Rinv_l by lra. lra. }
  lra.
Qed.
