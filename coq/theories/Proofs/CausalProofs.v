(* The per-indicator obligations of the engine theorem (purity and causality of
   _calculate_reading), discharged for leaf indicators. *)
From Coq Require Import ZArith List String Ascii Bool Lia ZifyBool.
From Hexital Require Import Base.Prelude Base.Num Model.Manager Model.Candle Model.Readings Model.Analysis
  Model.Engine Proofs.ListProofs Proofs.EngineProofs Proofs.AnalysisProofs.
Import ListNotations.
Local Open Scope Z_scope.

Section Causality.
Context (NO : NumOps).
Notation val := (val NO).
Notation payload := (payload NO).
Notation cd := (cd payload).
Notation store := (store NO).

(* the reading function of a node, with the recursive entry point stubbed out: leaves never call it *)
Definition no_rec : request NO -> ind NO -> store -> res (val * store) := fun _ _ _ => Err OutOfFuel.
Definition pure_calc (I : ind NO) (st : store) (i : Z) : res val :=
  '(v, _) <- calc_reading NO no_rec I st i ;; Ok v.

Variable I : ind NO.
Notation nm := (i_name NO I).

(* ---- how the accessors see the store  a ++ c :: rest  at index |a| ---- *)
Lemma reading_mid (a rest : store) c name : reading NO (a ++ c :: rest) name (zlen a) = reading_by_candle NO (p c) name.
Proof. unfold reading. rewrite (pyidx_mid NO a rest c). reflexivity. Qed.

Lemma pyidx_app_l (a b : store) j : 0 <= j < zlen a -> pyidx (a ++ b) j = pyidx a j.
Proof.
  intros H. pose proof (zlen_nonneg b). rewrite !pyidx_nonneg by (rewrite ?zlen_app; lia).
  apply nth_error_app1. unfold zlen in H. lia.
Qed.
Lemma reading_app_l (a b : store) name j : 0 <= j < zlen a -> reading NO (a ++ b) name j = reading NO a name j.
Proof. intros H. unfold reading. rewrite pyidx_app_l by assumption. reflexivity. Qed.

Lemma prev_reading_mid (a rest : store) c name :
  prev_reading NO (a ++ c :: rest) name (zlen a) = prev_reading NO (a ++ [c]) name (zlen a).
Proof.
  unfold prev_reading. destruct (a ++ c :: rest) eqn:E1; [destruct a; discriminate|].
  destruct (a ++ [c]) eqn:E2; [destruct a; discriminate|]. rewrite <- E1, <- E2.
  destruct (zlen a =? 0) eqn:Z0; [reflexivity|].
  pose proof (zlen_nonneg a). rewrite !reading_app_l by lia. reflexivity.
Qed.

(* the root of a name: what is looked up in the dictionaries *)
Definition root (name : string) : string := fst (split_dot name).

Lemma with_own_other (d : cd) (v : val) k : k <> nm ->
  alist_get k (inds NO (p (setk NO I d v))) = alist_get k (inds NO (p d)) /\
  alist_get k (subs NO (p (setk NO I d v))) = alist_get k (subs NO (p d)).
Proof.
  intros Hk. unfold setk, with_own_dict, own, own_dict. cbn [p].
  destruct (i_sub NO I); cbn [inds subs]; split; try reflexivity;
    apply alist_get_set_other; intros E; apply Hk; symmetry; exact E.
Qed.

Lemma split_dot_nodot name : has_dot name = false -> split_dot name = (name, None).
Proof.
  induction name as [|ch name IH]; cbn; [reflexivity|]. destruct (Ascii.eqb ch "."%char); [discriminate|].
  cbn. intros H. rewrite IH by exact H. reflexivity.
Qed.

Lemma rbc_slot (d : cd) (x : option val) name : root name <> nm ->
  reading_by_candle NO (p (slot NO I d x)) name = reading_by_candle NO (p d) name.
Proof.
  intros Hr. destruct x as [v|]; [|reflexivity]. cbn [slot].
  unfold reading_by_candle, root in *.
  destruct (has_dot name) eqn:Hd.
  - destruct (split_dot name) as [r [b|]] eqn:Es; cbn [fst] in Hr; [|reflexivity].
    destruct (has_dot b); [reflexivity|]. unfold nested_lookup.
    destruct (with_own_other d v r Hr) as [E1 E2]. rewrite E1, E2. reflexivity.
  - rewrite (split_dot_nodot name Hd) in Hr. cbn [fst] in Hr.
    assert (Ec : candle_attr NO (p (setk NO I d v)) name = candle_attr NO (p d) name).
    { unfold candle_attr, setk, with_own_dict. cbn [p]. destruct (i_sub NO I); reflexivity. }
    rewrite Ec. destruct (candle_attr NO (p d) name); [reflexivity|].
    destruct (with_own_other d v name Hr) as [E1 E2]. rewrite E1, E2. reflexivity.
Qed.

Lemma reading_slot_mid (a rest : store) d x name : root name <> nm ->
  reading NO (a ++ slot NO I d x :: rest) name (zlen a) = reading NO (a ++ [d]) name (zlen a).
Proof. intros H. rewrite !reading_mid. apply rbc_slot. exact H. Qed.


(* names whose lookup does not depend on the content of the own slot *)
Definition stable (name : string) : Prop :=
  forall (d : cd) (x : option val), reading_by_candle NO (p (slot NO I d x)) name = reading_by_candle NO (p d) name.

Lemma stable_attr name : has_dot name = false -> (forall q, candle_attr NO q name <> None) -> stable name.
Proof.
  intros Hd Ha d x. destruct x as [v|]; [|reflexivity]. cbn [slot]. unfold reading_by_candle. rewrite Hd.
  assert (Ec : candle_attr NO (p (setk NO I d v)) name = candle_attr NO (p d) name).
  { unfold candle_attr, setk, with_own_dict. cbn [p]. destruct (i_sub NO I); reflexivity. }
  rewrite Ec. destruct (candle_attr NO (p d) name) eqn:E; [reflexivity|]. exfalso. apply (Ha (p d)). exact E.
Qed.
Lemma stable_root name : root name <> nm -> stable name.
Proof. intros H d x. apply rbc_slot. exact H. Qed.

Lemma stable_high : stable "high". Proof. apply stable_attr; [reflexivity|intros q; discriminate]. Qed.
Lemma stable_low : stable "low". Proof. apply stable_attr; [reflexivity|intros q; discriminate]. Qed.
Lemma stable_close : stable "close". Proof. apply stable_attr; [reflexivity|intros q; discriminate]. Qed.
Lemma stable_open : stable "open". Proof. apply stable_attr; [reflexivity|intros q; discriminate]. Qed.
Lemma stable_volume : stable "volume". Proof. apply stable_attr; [reflexivity|intros q; discriminate]. Qed.

Lemma reading_stable_mid (a rest : store) d x name : stable name ->
  reading NO (a ++ slot NO I d x :: rest) name (zlen a) = reading NO (a ++ [d]) name (zlen a).
Proof. intros H. rewrite !reading_mid. apply H. Qed.
Lemma rnum_stable_mid (a rest : store) d x name : stable name ->
  rnum NO (a ++ slot NO I d x :: rest) name (zlen a) = rnum NO (a ++ [d]) name (zlen a).
Proof. intros H. unfold rnum. rewrite reading_stable_mid by assumption. reflexivity. Qed.

(* reading_by_index at any index up to |a| *)
Lemma rbi_mid_le (a rest : store) d x name j : stable name -> 0 <= j <= zlen a ->
  reading_by_index NO (a ++ slot NO I d x :: rest) name j = reading_by_index NO (a ++ [d]) name j.
Proof.
  intros Hs Hj. pose proof (zlen_nonneg a). pose proof (zlen_nonneg rest).
  assert (L1 : zlen (a ++ slot NO I d x :: rest) = zlen a + 1 + zlen rest).
  { rewrite zlen_app. unfold zlen. cbn [List.length]. lia. }
  assert (L2 : zlen (a ++ [d]) = zlen a + 1) by (rewrite zlen_app; reflexivity).
  unfold reading_by_index. rewrite L1, L2.
  assert (V1 : valid_index j (zlen a + 1 + zlen rest) = true) by (unfold valid_index; lia).
  assert (V2 : valid_index j (zlen a + 1) = true) by (unfold valid_index; lia).
  rewrite V1, V2. cbn [negb].
  destruct (Z.eq_dec j (zlen a)) as [->|Hne].
  - rewrite (pyidx_mid NO a rest (slot NO I d x)). rewrite (pyidx_mid NO a [] d). apply Hs.
  - rewrite !pyidx_app_l by lia. reflexivity.
Qed.

Lemma rperiod_mid (a rest : store) d x name period : stable name -> 1 <= period ->
  rperiod NO (a ++ slot NO I d x :: rest) period name (zlen a) = rperiod NO (a ++ [d]) period name (zlen a).
Proof.
  intros Hs Hp. pose proof (zlen_nonneg a). pose proof (zlen_nonneg rest).
  unfold rperiod, reading_period.
  assert (L1 : zlen (a ++ slot NO I d x :: rest) = zlen a + 1 + zlen rest).
  { rewrite zlen_app. unfold zlen. cbn [List.length]. lia. }
  assert (L2 : zlen (a ++ [d]) = zlen a + 1) by (rewrite zlen_app; reflexivity).
  rewrite L1, L2.
  assert (V1 : valid_index (zlen a) (zlen a + 1 + zlen rest) = true) by (unfold valid_index; lia).
  assert (V2 : valid_index (zlen a) (zlen a + 1) = true) by (unfold valid_index; lia).
  rewrite V1, V2.
  destruct (zlen a - (period - 1) <? 0) eqn:B; [reflexivity|].
  assert (Q : 0 <= Z.quot (period - 1) 2 <= period - 1).
  { split; [apply Z.quot_pos; lia|]. apply Z.quot_le_upper_bound; lia. }
  rewrite !(rbi_mid_le a rest d x name) by (try assumption; lia). reflexivity.
Qed.

Lemma prev_reading_slot_mid (a rest : store) d x name :
  prev_reading NO (a ++ slot NO I d x :: rest) name (zlen a) = prev_reading NO (a ++ [d]) name (zlen a).
Proof.
  unfold prev_reading. destruct (a ++ slot NO I d x :: rest) eqn:E1; [destruct a; discriminate|].
  destruct (a ++ [d]) eqn:E2; [destruct a; discriminate|]. rewrite <- E1, <- E2.
  destruct (zlen a =? 0) eqn:Z0; [reflexivity|]. pose proof (zlen_nonneg a). rewrite !reading_app_l by lia. reflexivity.
Qed.
Lemma prev_exists_slot_mid (a rest : store) d x name :
  prev_exists NO (a ++ slot NO I d x :: rest) name (zlen a) = prev_exists NO (a ++ [d]) name (zlen a).
Proof. unfold prev_exists. rewrite prev_reading_slot_mid. reflexivity. Qed.

Lemma rperiod_true_bound (st : store) period name i : rperiod NO st period name i = Ok true -> 0 <= i - (period - 1).
Proof.
  unfold rperiod, reading_period. destruct (valid_index i (zlen st)); [|discriminate].
  destruct (i - (period - 1) <? 0) eqn:B; [discriminate|]. intros _. lia.
Qed.

(* candles_sum over a window that lies inside [0, |a|] *)
Lemma pyslice_mid_le (a rest : store) (c c' : cd) lo : 0 <= lo <= zlen a + 1 ->
  (forall f : cd -> res val, f c = f c' ->
     mapM f (pyslice (a ++ c :: rest) lo (zlen a + 1)) = mapM f (pyslice (a ++ [c']) lo (zlen a + 1))).
Proof.
  intros Hlo. pose proof (zlen_nonneg a). pose proof (zlen_nonneg rest).
  assert (L1 : zlen (a ++ c :: rest) = zlen a + 1 + zlen rest).
  { rewrite zlen_app. unfold zlen. cbn [List.length]. lia. }
  assert (L2 : zlen (a ++ [c']) = zlen a + 1) by (rewrite zlen_app; reflexivity).
  unfold pyslice. rewrite L1, L2. unfold slice_bound.
  assert (E1 : (lo <? 0) = false) by lia. assert (E2 : (zlen a + 1 <? 0) = false) by lia. rewrite E1, E2.
  replace (Z.min lo (zlen a + 1 + zlen rest)) with lo by lia.
  replace (Z.min (zlen a + 1) (zlen a + 1 + zlen rest)) with (zlen a + 1) by lia.
  replace (Z.min lo (zlen a + 1)) with lo by lia. replace (Z.min (zlen a + 1) (zlen a + 1)) with (zlen a + 1) by lia.
  destruct (zlen a + 1 <=? lo) eqn:B; [intros; reflexivity|].
  (* the slice is (skipn lo a) ++ [c] on both sides *)
  assert (S1 : firstn (Z.to_nat (zlen a + 1 - lo)) (skipn (Z.to_nat lo) (a ++ c :: rest)) = skipn (Z.to_nat lo) a ++ [c]).
  { rewrite skipn_app. replace (Z.to_nat lo - List.length a)%nat with 0%nat by (unfold zlen in *; lia).
    cbn [skipn]. rewrite firstn_app. rewrite skipn_length.
    replace (Z.to_nat (zlen a + 1 - lo) - (List.length a - Z.to_nat lo))%nat with 1%nat by (unfold zlen in *; lia).
    rewrite firstn_all2 by (rewrite skipn_length; unfold zlen in *; lia). reflexivity. }
  assert (S2 : firstn (Z.to_nat (zlen a + 1 - lo)) (skipn (Z.to_nat lo) (a ++ [c'])) = skipn (Z.to_nat lo) a ++ [c']).
  { rewrite skipn_app. replace (Z.to_nat lo - List.length a)%nat with 0%nat by (unfold zlen in *; lia).
    cbn [skipn]. rewrite firstn_all2; [reflexivity|]. rewrite app_length, skipn_length. cbn [List.length]. unfold zlen in *. lia. }
  rewrite S1, S2.
  intros f Hf. generalize (skipn (Z.to_nat lo) a). induction l as [|y l IHl]; cbn [app mapM].
  - rewrite Hf. reflexivity.
  - destruct (f y); cbn [bind]; [rewrite IHl|]; reflexivity.
Qed.

Lemma csum_mid (a rest : store) d x name period : stable name -> 1 <= period -> 0 <= zlen a - (period - 1) ->
  csum NO (a ++ slot NO I d x :: rest) period name (zlen a) = csum NO (a ++ [d]) period name (zlen a).
Proof.
  intros Hs Hp Hb. pose proof (zlen_nonneg a). pose proof (zlen_nonneg rest).
  unfold csum, candles_sum.
  assert (L1 : zlen (a ++ slot NO I d x :: rest) = zlen a + 1 + zlen rest).
  { rewrite zlen_app. unfold zlen. cbn [List.length]. lia. }
  assert (L2 : zlen (a ++ [d]) = zlen a + 1) by (rewrite zlen_app; reflexivity).
  rewrite L1, L2.
  rewrite (absindex_some (zlen a) (zlen a + 1 + zlen rest)) by lia.
  rewrite (absindex_some (zlen a) (zlen a + 1)) by lia.
  destruct (zlen a =? 0); [reflexivity|].
  assert (B1 : (zlen a + 1 + zlen rest <? period) = false) by lia.
  assert (B2 : (zlen a + 1 <? period) = false) by lia. rewrite B1, B2.
  pose proof (pyslice_mid_le a rest (slot NO I d x) d (zlen a + 1 - period) ltac:(lia)) as Hm.
  rewrite (Hm (fun c => reading_by_candle NO (p c) name) (Hs d x)). reflexivity.
Qed.

(* both sides only differ in the store they pass through, which pure_calc projects away *)
Ltac finish_proj :=
  repeat match goal with
  | |- context [bind (rnum NO ?s ?n ?i) _] => destruct (rnum NO s n i); cbn [bind]
  | |- context [bind (as_num NO ?v) _] => destruct (as_num NO v); cbn [bind]
  | |- context [bind (divn NO ?a ?b) _] => destruct (divn NO a b); cbn [bind]
  | |- context [bind (reading NO ?s ?n ?i) _] => destruct (reading NO s n i); cbn [bind]
  | |- context [bind (prev_reading NO ?s ?n ?i) _] => destruct (prev_reading NO s n i); cbn [bind]
  | |- context [bind (prev_exists NO ?s ?n ?i) _] => destruct (prev_exists NO s n i) as [[|]|]; cbn [bind]
  | |- context [bind (rperiod NO ?s ?p ?n ?i) _] => destruct (rperiod NO s p n i) as [[|]|]; cbn [bind]
  | |- context [bind (csum NO ?s ?p ?n ?i) _] => destruct (csum NO s p n i); cbn [bind]
  | |- context [if ?b then _ else _] => destruct b
  end; try reflexivity.

(* ---------------------------------------------------------------- HLA *)
Section HLA.
Hypothesis K : i_kind NO I = K_HLA.
Lemma hla_pure rec st i : calc_reading NO rec I st i = (v <- pure_calc I st i ;; Ok (v, st)).
Proof.
  unfold pure_calc, calc_reading. rewrite K.
  destruct (rnum NO st "high" i); cbn [bind]; [|reflexivity].
  destruct (rnum NO st "low" i); cbn [bind]; [|reflexivity].
  destruct (divn NO _ _); reflexivity.
Qed.
Lemma hla_causal : Causal NO I (pure_calc I).
Proof.
  intros a d x rest _ Hd. unfold pure_calc, calc_reading. rewrite K.
  rewrite (rnum_stable_mid a rest d x "high" stable_high), (rnum_stable_mid a rest d x "low" stable_low). finish_proj.
Qed.
End HLA.

(* ---------------------------------------------------------------- TR *)
Section TR.
Hypothesis K : i_kind NO I = K_TR.
Lemma tr_pure rec st i : calc_reading NO rec I st i = (v <- pure_calc I st i ;; Ok (v, st)).
Proof.
  unfold pure_calc, calc_reading. rewrite K.
  destruct (reading NO st "high" i); cbn [bind]; [|reflexivity].
  destruct (reading NO st "low" i); cbn [bind]; [|reflexivity].
  destruct (rperiod NO st 2 "close" i) as [[|]|]; cbn [bind]; try reflexivity.
  destruct (as_num NO a); cbn [bind]; [|reflexivity].
  destruct (as_num NO a0); cbn [bind]; [|reflexivity].
  destruct (prev_reading NO st "close" i); cbn [bind]; [|reflexivity].
  destruct (as_num NO a3); reflexivity.
Qed.
Lemma tr_causal : Causal NO I (pure_calc I).
Proof.
  intros a d x rest _ Hd. unfold pure_calc, calc_reading. rewrite K.
  rewrite (reading_stable_mid a rest d x "high" stable_high), (reading_stable_mid a rest d x "low" stable_low).
  rewrite (rperiod_mid a rest d x "close" 2 stable_close) by lia.
  rewrite (prev_reading_mid a rest (slot NO I d x) "close").
  assert (E : prev_reading NO (a ++ [slot NO I d x]) "close" (zlen a) = prev_reading NO (a ++ [d]) "close" (zlen a)).
  { unfold prev_reading. destruct (a ++ [slot NO I d x]) eqn:E1; [destruct a; discriminate|].
    destruct (a ++ [d]) eqn:E2; [destruct a; discriminate|]. rewrite <- E1, <- E2.
    destruct (zlen a =? 0) eqn:Z0; [reflexivity|]. pose proof (zlen_nonneg a). rewrite !reading_app_l by lia. reflexivity. }
  rewrite E. finish_proj.
Qed.
End TR.


(* ---------------------------------------------------------------- OBV *)
Section OBV.
Hypothesis K : i_kind NO I = K_OBV.
Lemma obv_pure rec st i : calc_reading NO rec I st i = (v <- pure_calc I st i ;; Ok (v, st)).
Proof.
  unfold pure_calc, calc_reading. rewrite K.
  destruct (prev_exists NO st nm i) as [[|]|]; cbn [bind]; try reflexivity.
  - destruct (prev_reading NO st nm i); cbn [bind]; [|reflexivity].
    destruct (as_num NO a); cbn [bind]; [|reflexivity].
    destruct (rnum NO st "close" i); cbn [bind]; [|reflexivity].
    destruct (prev_reading NO st "close" i); cbn [bind]; [|reflexivity].
    destruct (as_num NO a2); cbn [bind]; [|reflexivity].
    destruct (rnum NO st "volume" i); cbn [bind]; [|reflexivity].
    destruct (neqb NO a1 a3); [reflexivity|]. destruct (nltb NO a3 a1); reflexivity.
  - destruct (reading NO st "volume" i); reflexivity.
Qed.
Lemma obv_causal : Causal NO I (pure_calc I).
Proof.
  intros a d x rest _ Hd. unfold pure_calc, calc_reading. rewrite K.
  rewrite prev_exists_slot_mid, !prev_reading_slot_mid.
  rewrite (rnum_stable_mid a rest d x "close" stable_close), (rnum_stable_mid a rest d x "volume" stable_volume).
  rewrite (reading_stable_mid a rest d x "volume" stable_volume). finish_proj.
Qed.
End OBV.

(* ---------------------------------------------------------------- EMA *)
Section EMA.
Variable period : Z.
Variable input : string.
Variable smoothing : num NO.
Hypothesis K : i_kind NO I = K_EMA period input smoothing.
Hypothesis Hperiod : 1 <= period.
Hypothesis Hinput : stable input.
Lemma ema_pure rec st i : calc_reading NO rec I st i = (v <- pure_calc I st i ;; Ok (v, st)).
Proof.
  unfold pure_calc, calc_reading. rewrite K.
  destruct (prev_exists NO st nm i) as [[|]|]; cbn [bind]; try reflexivity.
  - destruct (divn NO smoothing _); cbn [bind]; [|reflexivity].
    destruct (prev_reading NO st nm i); cbn [bind]; [|reflexivity].
    destruct (as_num NO a0); cbn [bind]; [|reflexivity].
    destruct (rnum NO st input i); reflexivity.
  - destruct (rperiod NO st period input i) as [[|]|]; cbn [bind]; try reflexivity.
    destruct (csum NO st period input i); cbn [bind]; [|reflexivity].
    destruct (as_num NO a); cbn [bind]; [|reflexivity].
    destruct (divn NO a0 _); reflexivity.
Qed.
Lemma ema_causal : Causal NO I (pure_calc I).
Proof.
  intros a d x rest _ Hd. unfold pure_calc, calc_reading. rewrite K.
  rewrite prev_exists_slot_mid, !prev_reading_slot_mid.
  rewrite (rnum_stable_mid a rest d x input Hinput).
  rewrite (rperiod_mid a rest d x input period Hinput Hperiod).
  destruct (prev_exists NO (a ++ [d]) nm (zlen a)) as [[|]|]; cbn [bind]; try reflexivity.
  - finish_proj.
  - destruct (rperiod NO (a ++ [d]) period input (zlen a)) as [[|]|] eqn:Rp; cbn [bind]; try reflexivity.
    apply rperiod_true_bound in Rp.
    rewrite (csum_mid a rest d x input period Hinput Hperiod Rp). finish_proj.
Qed.
End EMA.


(* ---------------------------------------------------------------- Amorph (pattern / movement wrappers) *)
Section AMORPH.
Variable f : afun.
Hypothesis K : i_kind NO I = K_AMORPH f.
Hypothesis Hwf : wf_afun f = true.
Hypothesis Hst : forall n, In n (names_of f) -> stable n.

Lemma amorph_pure rec st i : calc_reading NO rec I st i = (v <- pure_calc I st i ;; Ok (v, st)).
Proof.
  unfold pure_calc, calc_reading. rewrite K. destruct (run_afun NO f st (Some i)); reflexivity.
Qed.

Lemma slot_cur d x : cur NO (p (slot NO I d x)) = cur NO (p d).
Proof. destruct x; [|reflexivity]. cbn [slot]. unfold setk, with_own_dict. cbn [p]. destruct (i_sub NO I); reflexivity. Qed.

Lemma sim_refl names (l : store) : Forall2 (sim NO names) l l.
Proof. induction l; constructor; [split; reflexivity|assumption]. Qed.

Lemma amorph_causal : Causal NO I (pure_calc I).
Proof.
  intros a d x rest _ Hd. unfold pure_calc, calc_reading. rewrite K.
  assert (E : run_afun NO f (a ++ slot NO I d x :: rest) (Some (zlen a)) = run_afun NO f (a ++ [d]) (Some (zlen a))).
  { pose proof (zlen_nonneg a). pose proof (zlen_nonneg rest).
    assert (Hi : 0 <= zlen a < zlen (a ++ slot NO I d x :: rest)).
    { rewrite zlen_app. unfold zlen. cbn [List.length]. lia. }
    rewrite <- (truncation NO (a ++ slot NO I d x :: rest) (zlen a) Hi f Hwf).
    replace (firstn (Z.to_nat (zlen a + 1)) (a ++ slot NO I d x :: rest)) with (a ++ [slot NO I d x]).
    2:{ replace (Z.to_nat (zlen a + 1)) with (List.length a + 1)%nat by (unfold zlen; lia).
        rewrite firstn_app. replace (List.length a + 1 - List.length a)%nat with 1%nat by lia.
        rewrite firstn_all2 by lia. reflexivity. }
    apply (run_afun_sim NO (names_of f)); [|apply incl_refl].
    apply Forall2_app; [apply sim_refl|]. constructor; [|constructor].
    split; [apply slot_cur|]. intros n Hn. apply (Hst n Hn). }
  rewrite E. destruct (run_afun NO f (a ++ [d]) (Some (zlen a))); reflexivity.
Qed.
End AMORPH.


(* ---------------------------------------------------------------- SMA *)
(* SMA reads input[index - period] as soon as it has a previous reading.  That index is only
   non-negative - i.e. the look-back only stays inside the list instead of wrapping around to
   the newest candles - because on a canonical store a reading exists from index period-1 on.
   The invariant is proved by induction over the canonical store. *)
Section SMA.
Variable period : Z.
Variable input : string.
Hypothesis K : i_kind NO I = K_SMA period input.
Hypothesis Hperiod : 1 <= period.
Hypothesis Hinput : stable input.
Hypothesis Htop : i_sub NO I = false.
Hypothesis Hplain : has_dot nm = false /\ forall q, candle_attr NO q nm = None.

Lemma sma_pure rec st i : calc_reading NO rec I st i = (v <- pure_calc I st i ;; Ok (v, st)).
Proof.
  unfold pure_calc, calc_reading. rewrite K.
  destruct (prev_exists NO st nm i) as [[|]|]; cbn [bind]; try reflexivity.
  - destruct (prev_reading NO st nm i); cbn [bind]; [|reflexivity].
    destruct (as_num NO a); cbn [bind]; [|reflexivity].
    destruct (rnum NO st input (i - period)); cbn [bind]; [|reflexivity].
    destruct (rnum NO st input i); cbn [bind]; [|reflexivity].
    destruct (divn NO _ _); reflexivity.
  - destruct (rperiod NO st period input i) as [[|]|]; cbn [bind]; try reflexivity.
    destruct (csum NO st period input i); cbn [bind]; [|reflexivity].
    destruct (as_num NO a); cbn [bind]; [|reflexivity].
    destruct (divn NO a0 _); reflexivity.
Qed.

Lemma rbc_setk_own d w : reading_by_candle NO (p (setk NO I d w)) nm = Ok w.
Proof.
  destruct Hplain as [Hd Ha]. unfold reading_by_candle. rewrite Hd, Ha.
  unfold setk, with_own_dict, own, own_dict. cbn [p]. rewrite Htop. cbn [inds].
  rewrite alist_get_set_same. reflexivity.
Qed.

Definition Inv (a : store) : Prop :=
  forall j c v, nth_error a j = Some c -> reading_by_candle NO (p c) nm = Ok v -> is_none NO v = false ->
  period - 1 <= Z.of_nat j.

Lemma reading_last (a : store) j c name : nth_error a j = Some c ->
  reading NO a name (Z.of_nat j) = reading_by_candle NO (p c) name.
Proof.
  intros H. unfold reading. assert (Hj : (j < List.length a)%nat) by (apply nth_error_Some; congruence).
  rewrite pyidx_nonneg by (unfold zlen; lia). rewrite Nat2Z.id, H. reflexivity.
Qed.

Lemma sma_inv a : IsCanon NO I (pure_calc I) a -> Inv a.
Proof.
  induction 1 as [|a d v Ha IH Hd Ev]; intros j c w Hj Hr Hn; [destruct j; discriminate|].
  destruct (Nat.lt_ge_cases j (List.length a)) as [Hlt|Hge].
  - rewrite nth_error_app1 in Hj by assumption. eapply IH; eassumption.
  - rewrite nth_error_app2 in Hj by assumption.
    destruct (j - List.length a)%nat as [|k] eqn:Ek; [|destruct k; discriminate]. cbn in Hj. inversion Hj; subst c.
    assert (j = List.length a) by lia. subst j.
    rewrite rbc_setk_own in Hr. inversion Hr; subst w. rewrite rnd_none in Hn.
    (* the fresh reading v is not None: either a previous reading existed or the window is full *)
    unfold pure_calc, calc_reading in Ev. rewrite K in Ev. fold (zlen a).
    destruct (prev_exists NO (a ++ [d]) nm (zlen a)) as [[|]|] eqn:Pe; cbn [bind] in Ev; try discriminate.
    + (* previous reading exists: by the invariant it sits at an index >= period-1 *)
      unfold prev_exists, prev_reading in Pe.
      destruct (a ++ [d]) eqn:E0; [destruct a; discriminate|]. rewrite <- E0 in Pe. clear E0.
      destruct (zlen a =? 0) eqn:Z0; [cbn in Pe; discriminate|].
      pose proof (zlen_nonneg a). rewrite reading_app_l in Pe by lia.
      destruct (reading NO a nm (zlen a - 1)) as [pv|] eqn:Er; cbn [bind] in Pe; [|discriminate].
      inversion Pe as [Hpv]. apply negb_true_iff in Hpv.
      assert (Hk : exists k ck, nth_error a k = Some ck /\ Z.of_nat k = zlen a - 1).
      { exists (List.length a - 1)%nat. destruct (nth_error a (List.length a - 1)) eqn:En.
        - eexists; split; [reflexivity|unfold zlen in *; lia].
        - apply nth_error_None in En. unfold zlen in *. lia. }
      destruct Hk as (k & ck & Hck & Hkz). rewrite <- Hkz in Er. rewrite (reading_last a k ck nm Hck) in Er.
      pose proof (IH k ck pv Hck Er Hpv). unfold zlen in *. lia.
    + destruct (rperiod NO (a ++ [d]) period input (zlen a)) as [[|]|] eqn:Rp; cbn [bind] in Ev; try discriminate.
      * apply rperiod_true_bound in Rp. unfold zlen in *. lia.
      * unfold ret in Ev. inversion Ev; subst v. discriminate.
Qed.

Lemma sma_causal : Causal NO I (pure_calc I).
Proof.
  intros a d x rest Ha Hd. unfold pure_calc, calc_reading. rewrite K.
  rewrite prev_exists_slot_mid, !prev_reading_slot_mid.
  rewrite (rnum_stable_mid a rest d x input Hinput).
  rewrite (rperiod_mid a rest d x input period Hinput Hperiod).
  destruct (prev_exists NO (a ++ [d]) nm (zlen a)) as [[|]|] eqn:Pe; cbn [bind]; try reflexivity.
  - (* a previous reading exists, so zlen a >= period and index zlen a - period lies inside a *)
    assert (Hb : 0 <= zlen a - period < zlen a).
    { pose proof (sma_inv a Ha) as Hinv.
      unfold prev_exists, prev_reading in Pe.
      destruct (a ++ [d]) eqn:E0; [destruct a; discriminate|]. rewrite <- E0 in Pe. clear E0.
      destruct (zlen a =? 0) eqn:Z0; [cbn in Pe; discriminate|].
      pose proof (zlen_nonneg a). rewrite reading_app_l in Pe by lia.
      destruct (reading NO a nm (zlen a - 1)) as [pv|] eqn:Er; cbn [bind] in Pe; [|discriminate].
      inversion Pe as [Hpv]. apply negb_true_iff in Hpv.
      assert (Hk : exists k ck, nth_error a k = Some ck /\ Z.of_nat k = zlen a - 1).
      { exists (List.length a - 1)%nat. destruct (nth_error a (List.length a - 1)) eqn:En.
        - eexists; split; [reflexivity|unfold zlen in *; lia].
        - apply nth_error_None in En. unfold zlen in *. lia. }
      destruct Hk as (k & ck & Hck & Hkz). rewrite <- Hkz in Er. rewrite (reading_last a k ck nm Hck) in Er.
      pose proof (Hinv k ck pv Hck Er Hpv). lia. }
    assert (E : rnum NO (a ++ slot NO I d x :: rest) input (zlen a - period) = rnum NO (a ++ [d]) input (zlen a - period)).
    { unfold rnum. rewrite !reading_app_l by lia. reflexivity. }
    rewrite E. finish_proj.
  - destruct (rperiod NO (a ++ [d]) period input (zlen a)) as [[|]|] eqn:Rp; cbn [bind]; try reflexivity.
    apply rperiod_true_bound in Rp.
    rewrite (csum_mid a rest d x input period Hinput Hperiod Rp). finish_proj.
Qed.
End SMA.

End Causality.
