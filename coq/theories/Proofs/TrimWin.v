(* Look-back locality for the window indicators HL, Donchian and AROON: the value computed at
   index i of (pre ++ suf) is the value at index i - |pre| of suf when the window is retained. *)
From Coq Require Import ZArith List String Bool Lia ZifyBool.
From Hexital Require Import Base.Prelude Base.Num Model.Manager Model.Candle Model.Readings Model.Analysis Model.Engine
  Proofs.ListProofs Proofs.EngineProofs Proofs.CausalProofs Proofs.TrimProofs.
Import ListNotations.
Local Open Scope string_scope.
Local Open Scope Z_scope.

Section TrimWin.
Context (NO : NumOps).
Notation cd := (cd (payload NO)).
Notation store := (store NO).
Variables pre suf : store.
Notation k := (zlen pre).
Notation st := (pre ++ suf)%list.

Lemma absindex_skip i : k <= i < zlen st -> absindex i (zlen st) = Some i /\ absindex (i - k) (zlen suf) = Some (i - k).
Proof.
  intros Hi. pose proof (zlen_nonneg pre). rewrite zlen_app in *. unfold absindex, valid_index.
  assert (E1 : (i <? k + zlen suf) && (- (k + zlen suf) <=? i) = true) by lia.
  assert (E2 : (i - k <? zlen suf) && (- zlen suf <=? i - k) = true) by lia.
  rewrite E1, E2. cbn [negb]. assert (N1 : (i <? 0) = false) by lia. assert (N2 : (i - k <? 0) = false) by lia. rewrite N1, N2. split; reflexivity.
Qed.

Lemma clean_readings_skip name len i incl : 0 <= len -> k <= i - len -> i < zlen st ->
  clean_readings NO st name len i incl = clean_readings NO suf name len (i - k) incl.
Proof.
  intros Hl Hi Hn. pose proof (zlen_nonneg pre). unfold clean_readings.
  assert (B1 : (i - len <? 0) = false) by lia. assert (B2 : (i - k - len <? 0) = false) by lia. rewrite B1, B2.
  rewrite (pyslice_skip NO pre suf) by (destruct incl; lia).
  replace (i - len - k) with (i - k - len) by lia.
  replace ((if incl then i + 1 else i) - k) with (if incl then i - k + 1 else i - k) by (destruct incl; lia). reflexivity.
Qed.

Lemma high_low_est_skip lowest name len i : 0 <= len -> k <= i - len -> i < zlen st ->
  high_low_est NO lowest st name len i = high_low_est NO lowest suf name len (i - k).
Proof.
  intros Hl Hi Hn. pose proof (zlen_nonneg pre). pose proof (zlen_nonneg suf). unfold high_low_est.
  destruct (absindex_skip i) as [E1 E2]; [lia|]. rewrite E1, E2.
  assert (Z1 : (zlen st =? 0) = false) by (rewrite zlen_app in *; lia).
  assert (Z2 : (zlen suf =? 0) = false) by (rewrite zlen_app in *; lia). rewrite Z1, Z2.
  rewrite clean_readings_skip by assumption. reflexivity.
Qed.

Lemma bar_loop_skip lowest name : forall (idxs : list Z) kk best dist, Forall (fun j => k <= j) idxs ->
  bar_loop NO lowest st name idxs kk best dist = bar_loop NO lowest suf name (map (fun j => j - k) idxs) kk best dist.
Proof.
  induction idxs as [|j idxs IH]; intros kk best dist Hj; cbn [bar_loop map]; [reflexivity|].
  inversion Hj as [|? ? Hj1 Hj2]; subst. rewrite (rbi_skip NO pre suf) by exact Hj1.
  destruct (reading_by_index NO suf name (j - k)) as [c|]; cbn [bind]; [|reflexivity].
  destruct (is_none NO c); [apply IH; exact Hj2|].
  destruct best as [b0|].
  - destruct (if lowest then val_gt NO b0 c else val_lt NO b0 c) as [b|]; cbn [bind]; [|reflexivity].
    destruct b; apply IH; exact Hj2.
  - destruct (if lowest then val_gt NO c c else val_lt NO c c); cbn [bind]; [apply IH; exact Hj2|reflexivity].
Qed.

Lemma high_low_bar_skip lowest name len i : 1 <= len -> k <= i - len + 1 -> len <= i - k + 1 -> i < zlen st ->
  high_low_bar NO lowest st name len i = high_low_bar NO lowest suf name len (i - k).
Proof.
  intros Hl Hi Hi2 Hn. pose proof (zlen_nonneg pre). unfold high_low_bar.
  destruct (absindex_skip i) as [E1 E2]; [lia|]. rewrite E1, E2.
  rewrite bar_loop_skip.
  - replace (map (fun j => j - k) (zrange_down i (Z.max (i - len) (-1)))) with (zrange_down (i - k) (Z.max (i - k - len) (-1))); [reflexivity|].
    unfold zrange_down. rewrite map_map.
    replace (Z.to_nat (i - k - Z.max (i - k - len) (-1))) with (Z.to_nat (i - Z.max (i - len) (-1))) by lia.
    apply map_ext. intros x. lia.
  - unfold zrange_down. apply Forall_forall. intros x Hx. apply in_map_iff in Hx. destruct Hx as (j & <- & Hj). apply in_seq in Hj. lia.
Qed.

End TrimWin.

Section TrimWinKinds.
Context (NO : NumOps).
Notation cd := (cd (payload NO)).
Notation store := (store NO).

Definition lookback_win (kd : kind NO) : option Z :=
  match kd with
  | K_HL p | K_AROON p => Some p
  | K_DONCHIAN p => Some (p - 1)
  | _ => None
  end.
Definition period_ok_win (kd : kind NO) : Prop :=
  match kd with
  | K_HL p | K_AROON p => 1 <= p
  | K_DONCHIAN p => 2 <= p
  | _ => True
  end.

Ltac finw :=
  repeat match goal with
  | |- context [bind (as_num NO ?v) _] => destruct (as_num NO v); cbn [bind]
  | |- context [bind (divn NO ?a ?b) _] => destruct (divn NO a b); cbn [bind]
  | |- context [bind (prev_reading NO ?s ?n ?i) _] => destruct (prev_reading NO s n i); cbn [bind]
  | |- context [bind (rperiod NO ?s ?p ?n ?i) _] => destruct (rperiod NO s p n i) as [[|]|]; cbn [bind]
  | |- context [bind (high_low_est NO ?a ?s ?n ?l ?i) _] => destruct (high_low_est NO a s n l i); cbn [bind]
  | |- context [bind (high_low_bar NO ?a ?s ?n ?l ?i) _] => destruct (high_low_bar NO a s n l i); cbn [bind]
  | |- context [if ?b then _ else _] => destruct b
  end; try reflexivity.

Theorem trim_invariant_win (I : ind NO) (pre suf : store) (i W : Z) :
  lookback_win (i_kind NO I) = Some W -> period_ok_win (i_kind NO I) ->
  zlen pre + W <= i < zlen (pre ++ suf)%list ->
  pure_calc NO I (pre ++ suf)%list i = pure_calc NO I suf (i - zlen pre).
Proof.
  intros HW Hp Hi. pose proof (zlen_nonneg pre) as Hk. unfold pure_calc, calc_reading.
  destruct (i_kind NO I) eqn:K; cbn [lookback_win period_ok_win] in HW, Hp; inversion HW; subst W; clear HW.
  - (* Donchian *)
    rewrite (prev_reading_skip NO pre suf) by lia.
    rewrite (rperiod_skip NO pre suf) by lia.
    unfold mv_highest, mv_lowest. rewrite !(high_low_est_skip NO pre suf) by lia. finw.
  - (* HL *)
    unfold mv_highest, mv_lowest. rewrite !(high_low_est_skip NO pre suf) by lia. finw.
  - (* AROON *)
    rewrite (rperiod_skip NO pre suf) by lia.
    unfold mv_highestbar, mv_lowestbar. rewrite !(high_low_bar_skip NO pre suf) by lia. finw.
Qed.
End TrimWinKinds.
