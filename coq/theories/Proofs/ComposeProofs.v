(* Composition of the manager (collapsing timeframe) with the leaf engine theorem:
   appending to an indicator on a collapsing timeframe - re-collapse of (calculated candles ++
   new raw candles), then calculate() - yields the canonical store of the resampled whole
   stream, whatever the chunking.  Generic in the payload-level facts it needs. *)
From Coq Require Import ZArith List Bool Lia ZifyBool.
From Hexital Require Import Base.Prelude Model.Manager Proofs.CollapseProofs.
Import ListNotations.
Local Open Scope Z_scope.

Section Decorated.
Variable P : Type.
Variable merge : P -> P -> P.
Notation cd := (cd P).
Notation resample_acc := (resample_acc P merge).
Notation resample := (resample P merge).

(* only the head of the accumulator is ever touched *)
Lemma resample_acc_head tf : forall l h acc', resample_acc tf (h :: acc') l = rev acc' ++ resample_acc tf [h] l.
Proof.
  induction l as [|c l IH]; intros h acc'; cbn [Manager.resample_acc rev app]; [reflexivity|].
  destruct (t h =? label (t c) tf).
  - rewrite (IH _ acc'). rewrite (IH _ []). reflexivity.
  - rewrite (IH _ (h :: acc')). rewrite (IH _ [h]). cbn [rev app]. rewrite <- app_assoc. reflexivity.
Qed.

(* two candles with the same timestamp that merge alike *)
Definition alike (a b : cd) : Prop := t a = t b /\ forall q, merge (p a) q = merge (p b) q.

(* resampling behind a head [h] and behind an alike head [h0]: either the first new candle
   merges into the head - then both results coincide - or the head survives unchanged *)
Lemma resample_acc_alike tf (h h0 : cd) (l : list cd) : alike h h0 ->
  (exists tl, resample_acc tf [h] l = h :: tl /\ resample_acc tf [h0] l = h0 :: tl) \/
  (resample_acc tf [h] l = resample_acc tf [h0] l /\
   exists c l', l = c :: l' /\ t h = label (t c) tf /\
     resample_acc tf [h] l = resample_acc tf [{| t := t h; p := merge (p h) (p c) |}] l').
Proof.
  intros [Ht Hm]. destruct l as [|c l']; cbn [Manager.resample_acc rev].
  - left. exists []. split; reflexivity.
  - rewrite <- Ht. destruct (t h =? label (t c) tf) eqn:E.
    + right. rewrite <- (Hm (p c)). split; [reflexivity|]. exists c, l'.
      split; [reflexivity|]. split; [lia|reflexivity].
    + left. rewrite (resample_acc_head tf l' _ [h]). rewrite (resample_acc_head tf l' _ [h0]). cbn [rev app].
      eexists. split; reflexivity.
Qed.
End Decorated.

From Coq Require Import String.
From Hexital Require Import Base.Num Model.Candle Model.Readings Model.Analysis Model.Engine
  Proofs.ListProofs Proofs.EngineProofs.

Section Compose.
Context (NO : NumOps).
Notation val := (val NO).
Notation payload := (payload NO).
Notation cd := (cd payload).
Notation store := (store NO).
Notation mrg := (Candle.merge NO).
Notation resample := (Manager.resample payload mrg).
Notation resample_acc := (Manager.resample_acc payload mrg).
Notation collapse := (Manager.collapse payload mrg).

Variable I : ind NO.
Hypothesis Hleaf : i_subs NO I = [] /\ i_managed NO I = [].
Variable calc : store -> Z -> res val.
Hypothesis Hpure : forall rec st i, calc_reading NO rec I st i = (v <- calc st i ;; Ok (v, st)).
Hypothesis HC : Causal NO I calc.
Notation fresh := (fresh NO I).
Notation canon := (canon NO I calc).
Notation canon_acc := (canon_acc NO I calc).
Notation IsCanon := (IsCanon NO I calc).
Notation setk := (setk NO I).
Notation alike := (alike payload mrg).

(* facts about Candle.merge and the own slot *)
Lemma merged_fresh ts a b : fresh {| t := ts; p := mrg a b |}.
Proof. unfold EngineProofs.fresh, own, own_dict, Candle.merge, raw_payload. cbn [p inds subs]. destruct (i_sub NO I); reflexivity. Qed.
Lemma relabel_fresh ts (c : cd) : fresh c -> fresh {| t := ts; p := p c |}.
Proof. intros H. exact H. Qed.
Lemma setk_alike d v : alike (setk d v) d.
Proof.
  split; [reflexivity|]. intros q. unfold EngineProofs.setk, with_own_dict, Candle.merge, recovered. cbn [p].
  destruct (i_sub NO I); reflexivity.
Qed.

Lemma resample_acc_fresh tf : forall l acc, Forall fresh acc -> Forall fresh l -> Forall fresh (resample_acc tf acc l).
Proof.
  induction l as [|c l IH]; intros acc Ha Hl; cbn [Manager.resample_acc].
  - apply Forall_rev. exact Ha.
  - inversion Hl as [|? ? Hc Hl']; subst. destruct acc as [|prev acc'].
    + apply IH; [constructor; [exact Hc|constructor]|exact Hl'].
    + inversion Ha as [|? ? Hp Ha']; subst. destruct (t prev =? label (t c) tf); apply IH; try assumption.
      * constructor; [apply merged_fresh|exact Ha'].
      * constructor; [exact Hc|exact Ha].
Qed.

(* canon keeps timestamps and only decorates payloads *)
Lemma canon_acc_alike : forall todo a r, canon_acc a todo = Ok r -> exists r', r = a ++ r' /\ Forall2 alike r' todo.
Proof.
  induction todo as [|d todo IH]; intros a r H; cbn [EngineProofs.canon_acc] in H.
  - inversion H; subst. exists []. split; [rewrite app_nil_r; reflexivity|constructor].
  - destruct (calc (a ++ [d]) (zlen a)) as [v|e]; cbn [bind] in H; [|discriminate].
    destruct (IH _ _ H) as (r' & Er & Hr). exists (setk d (rnd_ NO I v) :: r'). split.
    + rewrite Er, <- app_assoc. reflexivity.
    + constructor; [apply setk_alike|exact Hr].
Qed.

Lemma alike_map_t (l1 l2 : list cd) : Forall2 alike l1 l2 -> map (@t _) l1 = map (@t _) l2.
Proof. induction 1 as [|a b l1 l2 [Ht _] H IH]; cbn; [reflexivity|]. rewrite Ht, IH. reflexivity. Qed.

(* label-sortedness, the grid and strict monotonicity only look at timestamps *)
Lemma lsorted_from_t tf : forall (l1 l2 : list cd) L, map (@t _) l1 = map (@t _) l2 ->
  lsorted_from payload tf L l1 -> lsorted_from payload tf L l2.
Proof.
  induction l1 as [|a l1 IH]; intros l2 L E H; destruct l2 as [|b l2]; try discriminate; [exact Logic.I|].
  cbn in E. inversion E as [[Et El]]. destruct H as [H1 H2]. cbn [lsorted_from]. rewrite <- Et. split; [exact H1|].
  apply (IH l2 _ El H2).
Qed.
Lemma lsorted_t tf (l1 l2 : list cd) : map (@t _) l1 = map (@t _) l2 -> lsorted payload tf l1 -> lsorted payload tf l2.
Proof.
  destruct l1 as [|a l1], l2 as [|b l2]; intros E H; try discriminate; [exact Logic.I|].
  cbn in E. inversion E as [[Et El]]. cbn [lsorted] in *. rewrite <- Et. eapply lsorted_from_t; eassumption.
Qed.
Lemma on_grid_t tf (l1 l2 : list cd) : map (@t _) l1 = map (@t _) l2 -> on_grid payload tf l1 -> on_grid payload tf l2.
Proof.
  revert l2. induction l1 as [|a l1 IH]; intros l2 E H; destruct l2 as [|b l2]; try discriminate; [constructor|].
  cbn in E. inversion E as [[Et El]]. inversion H; subst. constructor; [rewrite <- Et; assumption|apply IH; assumption].
Qed.
Lemma strictly_inc_from_t : forall (l1 l2 : list cd) r, map (@t _) l1 = map (@t _) l2 ->
  strictly_inc_from payload r l1 -> strictly_inc_from payload r l2.
Proof.
  induction l1 as [|a l1 IH]; intros l2 r E H; destruct l2 as [|b l2]; try discriminate; [exact Logic.I|].
  cbn in E. inversion E as [[Et El]]. destruct H as [H1 H2]. cbn [strictly_inc_from]. rewrite <- Et. split; [exact H1|].
  apply (IH l2 _ El H2).
Qed.
Lemma strictly_inc_t (l1 l2 : list cd) : map (@t _) l1 = map (@t _) l2 -> strictly_inc payload l1 -> strictly_inc payload l2.
Proof.
  destruct l1 as [|a l1], l2 as [|b l2]; intros E H; try discriminate; [exact Logic.I|].
  cbn in E. inversion E as [[Et El]]. cbn [strictly_inc] in *. rewrite <- Et. eapply strictly_inc_from_t; eassumption.
Qed.

Lemma exists_last_or_nil {A} (l : list A) : l = [] \/ exists init x, l = init ++ [x].
Proof. destruct l as [|a l]; [left; reflexivity|right]. destruct (@exists_last _ (a :: l) ltac:(discriminate)) as (i0 & x & E). eauto. Qed.

(* the state an indicator on a collapsing timeframe is in after its stream so far was xs *)
Definition state_after (tf : Z) (xs : list cd) (D : store) : Prop := canon (resample tf xs) = Ok D.

Theorem append_on_timeframe (tf : Z) (xs ys : list cd) (D : store) :
  0 < tf -> sorted payload (xs ++ ys) -> Forall fresh (xs ++ ys) -> state_after tf xs D ->
  exists M, collapse tf (D ++ ys) = Ok M /\ calculate NO I M = canon (resample tf (xs ++ ys)).
Proof.
  intros Htf Hs Hf HD. unfold state_after in HD.
  apply Forall_app in Hf. destruct Hf as [Hfx Hfy].
  set (R := resample tf xs) in *.
  assert (HfR : Forall fresh R) by (apply resample_acc_fresh; [constructor|exact Hfx]).
  destruct (canon_acc_alike R [] D HD) as (D' & ED & HA). cbn [app] in ED. subst D'.
  pose proof (alike_map_t D R HA) as Et.
  assert (Hsx : sorted payload xs).
  { destruct xs as [|x0 xs']; [exact Logic.I|]. cbn [app sorted] in Hs.
    destruct (sorted_from_app_inv payload xs' (t x0) ys Hs) as [A _]. exact A. }
  assert (Hlx : lsorted payload tf xs) by (apply sorted_lsorted; assumption).
  destruct (resample_shape payload mrg tf xs Htf Hlx) as [GR SR]. fold R in GR, SR.
  assert (GD : on_grid payload tf D) by (eapply on_grid_t; [symmetry; exact Et|exact GR]).
  assert (SD : strictly_inc payload D) by (eapply strictly_inc_t; [symmetry; exact Et|exact SR]).
  assert (HcD : IsCanon D) by (eapply canon_acc_iscanon; [constructor|exact HfR|exact HD]).
  (* the re-collapse is resampling *)
  assert (LS : lsorted payload tf (D ++ ys)).
  { eapply lsorted_t; [|apply (lsorted_resample_app payload mrg tf xs ys Htf Hs)].
    fold R. rewrite !map_app, Et. reflexivity. }
  exists (resample tf (D ++ ys)). split; [apply collapse_lsorted; assumption|].
  rewrite (calculate_is_leaf NO I Hleaf calc Hpure).
  (* both resamplings continue from the last bucket *)
  assert (E1 : resample tf (D ++ ys) = resample_acc tf (rev D) ys).
  { unfold Manager.resample. rewrite resample_acc_app. rewrite (resample_acc_id payload mrg tf Htf D []); [reflexivity|exact GD|exact SD]. }
  assert (E2 : resample tf (xs ++ ys) = resample_acc tf (rev R) ys).
  { unfold Manager.resample. rewrite resample_acc_app. reflexivity. }
  rewrite E1, E2.
  clearbody R. destruct (exists_last_or_nil R) as [ER|(Rinit & r & ER)]; subst R.
  - (* nothing before: plain batch *)
    inversion HA; subst. cbn [rev]. fold (resample tf ys).
    apply (batch_is_canon NO I calc HC). apply resample_acc_fresh; [constructor|exact Hfy].
  - destruct (Forall2_app_inv_r _ _ HA) as (Dinit & Dl & HAi & HAl & EDl).
    destruct Dl as [|d Dl']; [inversion HAl|].
    assert (Hdr : alike d r) by (inversion HAl; assumption).
    assert (Dl' = []) by (inversion HAl as [|? ? ? ? _ Hnil]; inversion Hnil; reflexivity). subst Dl' D. clear HAl.
    rewrite !rev_unit. rewrite (resample_acc_head payload mrg tf ys d (rev Dinit)).
    rewrite (resample_acc_head payload mrg tf ys r (rev Rinit)). rewrite !rev_involutive.
    (* canon of the first buckets is the first part of D *)
    unfold EngineProofs.canon in HD. rewrite canon_acc_app in HD.
    destruct (EngineProofs.canon_acc NO I calc [] Rinit) as [mid|e] eqn:Emid; cbn [bind] in HD; [|discriminate].
    cbn [EngineProofs.canon_acc] in HD.
    destruct (calc (mid ++ [r]) (zlen mid)) as [v|e] eqn:Ev; cbn [bind] in HD; [|discriminate].
    inversion HD as [HDeq]. apply app_inj_tail in HDeq. destruct HDeq as [Hmid Hd]. subst mid.
    apply Forall_app in HfR. destruct HfR as [HfRi HfRl]. assert (Hfr : fresh r) by (inversion HfRl; assumption).
    assert (HcDi : IsCanon Dinit) by (eapply canon_acc_iscanon; [constructor|exact HfRi|exact Emid]).
    destruct (resample_acc_alike payload mrg tf d r ys Hdr) as [(tl & T1 & T2)|(T1 & c & l' & El & Ht & T3)].
    + (* the last bucket is closed: it keeps its readings, new buckets follow *)
      rewrite T1, T2.
      assert (Hftl : Forall fresh tl).
      { assert (Hall : Forall fresh (resample_acc tf [r] ys)) by (apply resample_acc_fresh; [constructor; [exact Hfr|constructor]|exact Hfy]).
        rewrite T2 in Hall. inversion Hall; assumption. }
      replace (Dinit ++ d :: tl) with ((Dinit ++ [d]) ++ tl) by (rewrite <- app_assoc; reflexivity).
      replace (Rinit ++ r :: tl) with ((Rinit ++ [r]) ++ tl) by (rewrite <- app_assoc; reflexivity).
      rewrite (append_is_canon NO I calc HC) by assumption.
      unfold EngineProofs.canon. rewrite canon_acc_app. rewrite canon_acc_app. rewrite Emid. cbn [bind EngineProofs.canon_acc].
      rewrite Ev. cbn [bind]. rewrite Hd. reflexivity.
    + (* the last bucket takes in new candles: it is reset, hence fresh, and recomputed *)
      rewrite <- T1.
      assert (HfF : Forall fresh (resample_acc tf [d] ys)).
      { rewrite T3. subst ys. inversion Hfy; subst. apply resample_acc_fresh; [constructor; [apply merged_fresh|constructor]|assumption]. }
      rewrite (append_is_canon NO I calc HC) by assumption.
      unfold EngineProofs.canon. rewrite canon_acc_app. rewrite Emid. reflexivity.
Qed.

(* no repainting on a collapsing timeframe: every bucket but the last (still open) one of
   the state after xs is, with its readings, a bucket of the state after xs ++ ys *)
Theorem closed_buckets_final (tf : Z) (xs ys : list cd) (D D' : store) :
  0 < tf -> state_after tf xs D -> state_after tf (xs ++ ys) D' ->
  exists tl, D' = removelast D ++ tl.
Proof.
  intros Htf HD HD'. unfold state_after in *.
  assert (E2 : resample tf (xs ++ ys) = resample_acc tf (rev (resample tf xs)) ys).
  { unfold Manager.resample. rewrite resample_acc_app. reflexivity. }
  rewrite E2 in HD'. clear E2.
  destruct (exists_last_or_nil (resample tf xs)) as [ER|(Rinit & r & ER)]; rewrite ER in *.
  - inversion HD; subst D. exists D'. reflexivity.
  - rewrite rev_unit in HD'. rewrite (resample_acc_head payload mrg tf ys r (rev Rinit)) in HD'. rewrite rev_involutive in HD'.
    unfold EngineProofs.canon in HD, HD'. rewrite canon_acc_app in HD, HD'.
    destruct (EngineProofs.canon_acc NO I calc [] Rinit) as [mid|e] eqn:Emid; cbn [bind] in HD, HD'; [|discriminate].
    destruct (canon_acc_alike _ _ _ HD) as (l1 & E1 & A1).
    destruct (canon_acc_alike _ _ _ HD') as (l2 & E2 & _).
    inversion A1 as [|? ? ? ? _ A1']; subst. inversion A1'; subst.
    exists l2. rewrite removelast_last. reflexivity.
Qed.

End Compose.
