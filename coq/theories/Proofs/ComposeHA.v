(* Leaf indicator on a collapsing timeframe WITH Heikin-Ashi conversion, under appends:
   the manager re-collapses (calculated, converted buckets ++ raw new candles), converts from
   its resume index, and the indicator calculates; the result is the batch result over the
   whole raw stream. *)
From Coq Require Import ZArith List Bool Lia ZifyBool String.
From Hexital Require Import Base.Prelude Base.Num Model.Manager Model.Candle Model.Readings Model.Analysis Model.Engine
  Proofs.ListProofs Proofs.CollapseProofs Proofs.HAProofs Proofs.EngineProofs Proofs.ComposeProofs Proofs.PipelineProofs.

Import ListNotations.
Local Open Scope Z_scope.

Section ComposeHA.
Context (NO : NumOps).
Notation val := (val NO).
Notation payload := (payload NO).
Notation cd := (cd payload).
Notation store := (store NO).
Notation mrg := (Candle.merge NO).
Notation resample := (Manager.resample payload mrg).
Notation resample_acc := (Manager.resample_acc payload mrg).
Notation collapse := (Manager.collapse payload mrg).
Notation convert := (Candle.convert NO).
Notation convert_from := (Candle.convert_from NO).
Notation alike := (alike payload mrg).
Notation all_raw := (all_raw NO).
Notation all_tagged := (all_tagged NO).
Notation pristine := (pristine NO).
Notation pipe := (pipe NO).

Variable I : ind NO.
Hypothesis Hleaf : i_subs NO I = [] /\ i_managed NO I = [].
Variable calc : store -> Z -> res val.
Hypothesis Hpure : forall rec st i, calc_reading NO rec I st i = (v <- calc st i ;; Ok (v, st)).
Hypothesis HC : Causal NO I calc.
Notation fresh := (fresh NO I).
Notation canon := (canon NO I calc).
Notation canon_acc := (canon_acc NO I calc).
Notation IsCanon := (IsCanon NO I calc).
Notation setk := (setk NO I).

(* engine over a pipeline: canonical prefix followed by fresh candles *)
Lemma engine_over (A0 A T : store) : Forall fresh (A0 ++ T) -> canon A0 = Ok A ->
  calculate NO I (A ++ T) = canon (A0 ++ T).
Proof.
  intros Hf HA. apply Forall_app in Hf. destruct Hf as [Hf0 HfT].
  assert (HcA : IsCanon A) by (eapply canon_acc_iscanon; [constructor|exact Hf0|exact HA]).
  rewrite (calculate_is_leaf NO I Hleaf calc Hpure). rewrite (append_is_canon NO I calc HC A T HcA HfT).
  unfold EngineProofs.canon in *. rewrite canon_acc_app, HA. reflexivity.
Qed.

Lemma Forall2_sing_r {A B} (R : A -> B -> Prop) (l : list A) (y : B) : Forall2 R l [y] -> exists x, l = [x] /\ R x y.
Proof. intros H. inversion H as [|x ? l' ? Hx Hn]; subst. inversion Hn; subst. exists x. split; [reflexivity|exact Hx]. Qed.

Lemma alike_trans (a b c : cd) : alike a b -> alike b c -> alike a c.
Proof. intros [T1 M1] [T2 M2]. split; [congruence|]. intros q. rewrite M1. apply M2. Qed.
Lemma Forall2_alike_trans : forall (l1 l2 l3 : list cd), Forall2 alike l1 l2 -> Forall2 alike l2 l3 -> Forall2 alike l1 l3.
Proof.
  induction l1 as [|a l1 IH]; intros l2 l3 H1 H2; inversion H1; subst; inversion H2; subst; constructor.
  - eapply alike_trans; eassumption.
  - eapply IH; eassumption.
Qed.

(* what the engine adds to a candle: the own slot only *)
Definition decorated (d c : cd) : Prop := t d = t c /\ cur NO (p d) = cur NO (p c) /\ tagged NO (p d) = tagged NO (p c).
Lemma setk_decorated d v : decorated (setk d v) d.
Proof. unfold decorated, EngineProofs.setk, with_own_dict. cbn [t p]. destruct (i_sub NO I); repeat split. Qed.
Lemma canon_acc_decorated : forall todo a r, canon_acc a todo = Ok r -> exists r', r = a ++ r' /\ Forall2 decorated r' todo.
Proof.
  induction todo as [|d todo IH]; intros a r H; cbn [EngineProofs.canon_acc] in H.
  - inversion H; subst. exists []. split; [rewrite app_nil_r; reflexivity|constructor].
  - destruct (calc (a ++ [d]) (zlen a)) as [v|e]; cbn [bind] in H; [|discriminate].
    destruct (IH _ _ H) as (r' & Er & Hr). exists (setk d (rnd_ NO I v) :: r'). split.
    + rewrite Er, <- app_assoc. reflexivity.
    + constructor; [apply setk_decorated|exact Hr].
Qed.
Lemma decorated_tagged (l1 l2 : list cd) : Forall2 decorated l1 l2 -> all_tagged l2 -> all_tagged l1.
Proof. induction 1 as [|a b l1 l2 (_ & _ & Hg) H IH]; intros Ht; [constructor|]. inversion Ht; subst. constructor; [congruence|apply IH; assumption]. Qed.

(* the continuation of a conversion depends on the converted prefix only through the
   values of its last candle *)
Definition head_cur (done : list cd) : option (ohlcv NO) := match done with [] => None | d :: _ => Some (cur NO (p d)) end.
Lemma convert_one_cur (p1 p2 : option payload) q : option_map (cur NO) p1 = option_map (cur NO) p2 ->
  convert_one NO p1 q = convert_one NO p2 q.
Proof. intros H. unfold convert_one. rewrite H. reflexivity. Qed.
Lemma convert_from_head : forall todo done done', head_cur done = head_cur done' ->
  exists out, convert_from done todo = rev done ++ out /\ convert_from done' todo = rev done' ++ out /\
              Forall fresh out /\ (forall x, In x out -> tagged NO (p x) = true).
Proof.
  induction todo as [|c todo IH]; intros done done' Hh; cbn [Candle.convert_from].
  - exists []. rewrite !app_nil_r. repeat split; [constructor|intros x []].
  - set (n1 := {| t := t c; p := convert_one NO (match done with [] => None | d :: _ => Some (p d) end) (p c) |}).
    set (n2 := {| t := t c; p := convert_one NO (match done' with [] => None | d :: _ => Some (p d) end) (p c) |}).
    assert (En : n1 = n2).
    { unfold n1, n2. f_equal. apply convert_one_cur. destruct done, done'; cbn in *; congruence. }
    destruct (IH (n1 :: done) (n2 :: done')) as (out & E1 & E2 & Hf & Ht); [rewrite En; reflexivity|].
    exists (n1 :: out). cbn [rev] in E1, E2. rewrite <- app_assoc in E1, E2. cbn [app] in E1, E2.
    split; [exact E1|]. split; [rewrite En; exact E2|]. split.
    + constructor; [|exact Hf]. unfold n1, EngineProofs.fresh, EngineProofs.own, own_dict, convert_one. cbn [p inds subs].
      destruct (i_sub NO I); reflexivity.
    + intros x [<-|Hx]; [reflexivity|apply Ht; exact Hx].
Qed.

Lemma rev_head_cur (l : list cd) (x y : cd) : cur NO (p x) = cur NO (p y) -> forall l', head_cur (rev (l ++ [x])) = head_cur (rev (l' ++ [y])).
Proof. intros H l'. rewrite !rev_unit. cbn. congruence. Qed.

Theorem append_on_timeframe_ha (tf : Z) (xs ys : list cd) (D : store) :
  0 < tf -> sorted payload (xs ++ ys) -> pristine (xs ++ ys) -> Forall fresh (xs ++ ys) ->
  canon (convert (resample tf xs)) = Ok D ->
  exists M, pipe tf (D ++ ys) = Ok M /\ calculate NO I M = canon (convert (resample tf (xs ++ ys))).
Proof.
  intros Htf Hs Hp Hf HD. unfold PipelineProofs.pipe.
  apply Forall_app in Hp. destruct Hp as [Hpx Hpy]. apply Forall_app in Hf. destruct Hf as [Hfx Hfy].
  assert (Hsx : sorted payload xs).
  { destruct xs as [|x0 xs']; [exact Logic.I|]. cbn [app sorted] in Hs.
    destruct (sorted_from_app_inv payload xs' (t x0) ys Hs) as [A _]. exact A. }
  set (R := resample tf xs) in *.
  assert (HpR : pristine R) by (apply resample_acc_pristine; [constructor|exact Hpx]).
  assert (HrR : all_raw R) by (apply pristine_raw; exact HpR).
  (* C = the converted buckets, D their decoration *)
  rewrite (convert_raw NO R HrR) in HD.
  destruct (convert_from_alike NO R [] HpR) as (C & EC & HAC). cbn [rev app] in EC.
  destruct (convert_from_spec NO R []) as (C' & EC' & _ & _ & HtC & _). cbn [rev app] in EC'. rewrite EC in EC'. subst C'.
  rewrite EC in HD.
  destruct (canon_acc_alike NO I calc C [] D HD) as (D' & ED & HAD). cbn [app] in ED. subst D'.
  destruct (canon_acc_decorated C [] D HD) as (D' & ED & HdD). cbn [app] in ED. subst D'.
  assert (HA : Forall2 alike D R) by (eapply Forall2_alike_trans; eassumption).
  assert (HtD : all_tagged D) by (eapply decorated_tagged; eassumption).
  pose proof (alike_map_t NO D R HA) as Et.
  assert (Hlx : lsorted payload tf xs) by (apply sorted_lsorted; assumption).
  destruct (resample_shape payload mrg tf xs Htf Hlx) as [GR SR]. fold R in GR, SR.
  assert (GD : on_grid payload tf D) by (eapply on_grid_t; [symmetry; exact Et|exact GR]).
  assert (SD : strictly_inc payload D) by (eapply strictly_inc_t; [symmetry; exact Et|exact SR]).
  assert (LS : lsorted payload tf (D ++ ys)).
  { eapply lsorted_t; [|apply (lsorted_resample_app payload mrg tf xs ys Htf Hs)].
    fold R. rewrite !map_app, Et. reflexivity. }
  rewrite (collapse_lsorted payload mrg tf (D ++ ys) Htf LS). cbn [bind].
  eexists. split; [reflexivity|].
  assert (E1 : resample tf (D ++ ys) = resample_acc tf (rev D) ys).
  { unfold Manager.resample. rewrite resample_acc_app. rewrite (resample_acc_id payload mrg tf Htf D []); [reflexivity|exact GD|exact SD]. }
  assert (E2 : resample tf (xs ++ ys) = resample_acc tf (rev R) ys).
  { unfold Manager.resample. rewrite resample_acc_app. reflexivity. }
  rewrite E1, E2.
  destruct (exists_last_or_nil R) as [ER|(Rinit & r & ER)].
  - (* nothing before *)
    rewrite ER in *. inversion HA; subst. cbn [rev]. fold (resample tf ys).
    assert (HpY : pristine (resample tf ys)) by (apply resample_acc_pristine; [constructor|exact Hpy]).
    rewrite (convert_raw NO _ (pristine_raw NO _ HpY)).
    destruct (convert_from_head (resample tf ys) [] [] eq_refl) as (out & Eo & _ & Hfo & _). cbn [rev app] in Eo. rewrite Eo.
    apply (engine_over [] [] out); [exact Hfo|reflexivity].
  - rewrite ER in HA, HAC. destruct (Forall2_app_inv_r _ _ HA) as (Dinit & Dl & HAi & HAl & EDl).
    destruct Dl as [|d Dl']; [inversion HAl|].
    assert (Hdr : alike d r) by (inversion HAl; assumption).
    assert (Dl' = []) by (inversion HAl as [|? ? ? ? _ Hnil]; inversion Hnil; reflexivity). subst Dl'. clear HAl.
    destruct (Forall2_app_inv_r _ _ HAC) as (Cinit & Cl & HACi & HACl & ECl).
    destruct Cl as [|c Cl']; [inversion HACl|].
    assert (Cl' = []) by (inversion HACl as [|? ? ? ? _ Hnil]; inversion Hnil; reflexivity). subst Cl'. clear HACl.
    (* the decoration respects the split *)
    rewrite EDl, ECl in HdD. destruct (Forall2_app_inv_r _ _ HdD) as (Di2 & Dl2 & HdDi & HdDl & E3).
    assert (Dl2 = [d] /\ Di2 = Dinit).
    { inversion HdDl as [|? ? ? ? _ Hnil]; subst. inversion Hnil; subst.
      apply app_inj_tail in E3. destruct E3 as [-> ->]. split; reflexivity. }
    destruct H as [-> ->]. assert (Hdc : decorated d c) by (inversion HdDl; assumption). clear HdDl E3.
    (* canon of the first converted buckets is the first part of D *)
    rewrite ECl, EDl in HD. unfold EngineProofs.canon in HD. rewrite canon_acc_app in HD.
    destruct (EngineProofs.canon_acc NO I calc [] Cinit) as [mid|e] eqn:Emid; cbn [bind] in HD; [|discriminate].
    cbn [EngineProofs.canon_acc] in HD.
    destruct (calc (mid ++ [c]) (zlen mid)) as [v|e] eqn:Ev; cbn [bind] in HD; [|discriminate].
    assert (HDeq : mid ++ [EngineProofs.setk NO I c (rnd_ NO I v)] = Dinit ++ [d]) by congruence.
    apply app_inj_tail in HDeq. destruct HDeq as [Hmid Hd]. subst mid.
    (* the converted prefix continues from Rinit *)
    assert (HpRi : pristine Rinit /\ pristine [r]) by (rewrite ER in HpR; apply Forall_app in HpR; exact HpR).
    destruct HpRi as [HpRi Hpr].
    assert (ECi : convert_from [] Rinit = Cinit /\ convert_from (rev Cinit) [r] = Cinit ++ [c]).
    { rewrite ER, convert_from_app in EC.
      destruct (convert_from_alike NO [r] (rev (convert_from [] Rinit)) Hpr) as (o1 & Eo & Ho). rewrite Eo, rev_involutive in EC.
      destruct (Forall2_sing_r _ _ _ Ho) as (o & Eo1 & _). rewrite Eo1 in *. rewrite ECl in EC.
      apply app_inj_tail in EC. destruct EC as [EC1 EC2]. split; [exact EC1|]. rewrite <- EC1. rewrite Eo, rev_involutive, EC2. reflexivity. }
    destruct ECi as [ECi ECr].
    rewrite EDl, ER. rewrite !rev_unit.
    rewrite (resample_acc_head payload mrg tf ys d (rev Dinit)), (resample_acc_head payload mrg tf ys r (rev Rinit)).
    rewrite !rev_involutive.
    assert (HM : pristine (resample_acc tf [r] ys)) by (apply resample_acc_pristine; assumption).
    assert (HfC : Forall fresh (Cinit ++ [c])).
    { destruct (convert_from_head R [] [] eq_refl) as (o & Eo & _ & Hfo & _). cbn [rev app] in Eo. rewrite EC in Eo. rewrite <- ECl, Eo. exact Hfo. }
    destruct (resample_acc_alike payload mrg tf d r ys Hdr) as [(tl & T1 & T2)|(T1 & _)].
    + (* the last bucket is closed *)
      rewrite T1, T2. rewrite T2 in HM. assert (Htl : pristine tl) by (inversion HM; assumption).
      replace (Dinit ++ d :: tl) with ((Dinit ++ [d]) ++ tl) by (rewrite <- app_assoc; reflexivity).
      replace (Rinit ++ r :: tl) with ((Rinit ++ [r]) ++ tl) by (rewrite <- app_assoc; reflexivity).
      (* left: tagged buckets then raw candles *)
      unfold Candle.convert at 1.
      rewrite find_conv_index_tagged_then_raw; [|intros Hn; destruct Dinit; discriminate|rewrite <- EDl; exact HtD|apply pristine_raw; exact Htl].
      rewrite firstn_len_app, skipn_len_app.
      (* right: all raw *)
      rewrite (convert_raw NO ((Rinit ++ [r]) ++ tl)) by (apply Forall_app; split; [rewrite <- ER; exact HrR|apply pristine_raw; exact Htl]).
      rewrite convert_from_app. rewrite <- ER, EC, ECl.
      destruct (convert_from_head tl (rev (Dinit ++ [d])) (rev (Cinit ++ [c]))) as (out & Eo1 & Eo2 & Hfo & _).
      { apply rev_head_cur. destruct Hdc as (_ & Hc & _). exact Hc. }
      rewrite Eo1, Eo2, !rev_involutive.
      apply (engine_over (Cinit ++ [c]) (Dinit ++ [d]) out).
      * apply Forall_app. split; [exact HfC|exact Hfo].
      * unfold EngineProofs.canon. rewrite canon_acc_app, Emid. cbn [bind EngineProofs.canon_acc]. rewrite Ev. cbn [bind]. rewrite Hd. reflexivity.
    + (* the last bucket takes in new candles *)
      rewrite T1.
      assert (HrM : all_raw (resample_acc tf [r] ys)) by (apply pristine_raw; exact HM).
      rewrite (convert_raw NO (Rinit ++ resample_acc tf [r] ys)) by (apply Forall_app; split; [apply pristine_raw; exact HpRi|exact HrM]).
      rewrite convert_from_app, ECi.
      assert (HfCi : Forall fresh Cinit) by (apply Forall_app in HfC; tauto).
      destruct (exists_last_or_nil Dinit) as [EDn|(Di' & dl & EDn)].
      * (* the only bucket *)
        rewrite EDn in HdDi. assert (ECn : Cinit = []) by (inversion HdDi; reflexivity).
        rewrite EDn, ECn. cbn [app rev].
        rewrite (convert_raw NO _ HrM).
        destruct (convert_from_head (resample_acc tf [r] ys) [] [] eq_refl) as (out & Eo & _ & Hfo & _). cbn [rev app] in Eo. rewrite Eo.
        apply (engine_over [] [] out); [exact Hfo|reflexivity].
      * assert (HtDi : all_tagged Dinit) by (rewrite EDl in HtD; apply Forall_app in HtD; tauto).
        unfold Candle.convert at 1.
        rewrite find_conv_index_tagged_then_raw; [|intros Hn; rewrite EDn in Hn; destruct Di'; discriminate|exact HtDi|exact HrM].
        rewrite firstn_len_app, skipn_len_app.
        assert (Hlast : exists Ci' cl, Cinit = Ci' ++ [cl] /\ decorated dl cl).
        { rewrite EDn in HdDi. destruct (Forall2_app_inv_l _ _ HdDi) as (q1 & q2 & _ & Hq2 & Eq).
          destruct q2 as [|cl q2']; [inversion Hq2|].
          assert (Eq2 : q2' = []) by (inversion Hq2 as [|? ? ? ? _ Hn]; inversion Hn; reflexivity).
          exists q1, cl. split; [rewrite Eq, Eq2; reflexivity|inversion Hq2; assumption]. }
        destruct Hlast as (Ci' & cl & ECn & Hdl).
        destruct (convert_from_head (resample_acc tf [r] ys) (rev Dinit) (rev Cinit)) as (out & Eo1 & Eo2 & Hfo & _).
        { rewrite EDn, ECn. apply rev_head_cur. destruct Hdl as (_ & Hc & _). exact Hc. }
        rewrite Eo1, Eo2, !rev_involutive.
        apply (engine_over Cinit Dinit out).
        -- apply Forall_app. split; [exact HfCi|exact Hfo].
        -- exact Emid.
Qed.
End ComposeHA.
