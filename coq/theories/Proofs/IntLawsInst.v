(* The integer laws used by the Counter theorem hold in all three instances. *)
From Coq Require Import ZArith List Bool Reals Lia Lra.
From Flocq Require Import Core.
From Hexital Require Import Base.Num Base.PyFloat Inst.ZInst Inst.RealInst Inst.FloatInst.
From Hexital Require Import Proofs.CounterProofs.
Local Open Scope Z_scope.

Lemma intlaws_Z : IntLaws ZOps.
Proof. split; intros; reflexivity. Qed.

Lemma intlaws_F tbl : IntLaws (FOps tbl).
Proof. split; intros; reflexivity. Qed.

Lemma intlaws_R : IntLaws ROps.
Proof.
  split.
  - intros a b. cbn. rewrite plus_IZR. reflexivity.
  - intros a b. cbn. unfold Reqb. destruct (Req_EM_T (IZR a) (IZR b)) as [E|N].
    + apply eq_IZR in E. subst. symmetry. apply Z.eqb_refl.
    + symmetry. apply Z.eqb_neq. intros ->. apply N. reflexivity.
  - intros nd a Hnd. cbn. apply rnd10_grid.
    (* an integer lies on the grid 10^-nd for nd >= 0 *)
    replace (IZR a) with (F2R (Float radix10 (a * 10 ^ nd) (- nd))).
    + apply generic_format_F2R. intros _. unfold cexp, FIX_exp. lia.
    + unfold F2R. cbn [Fnum Fexp]. rewrite mult_IZR. rewrite (IZR_Zpower radix10) by lia.
      rewrite Rmult_assoc, <- bpow_plus. replace (nd + - nd) with 0 by lia. cbn. lra.
Qed.
