(* Counter (C05): on every stream, reading j of a Counter is the length of the current run -
   the number of most recent candles carrying an input equal to the counted value, candles
   without an input neither extending nor breaking the run.  Proved for the faithful engine's
   canonical semantics (which C01's theorems identify with calculate() under any append
   schedule), for every NumOps whose integers behave as integers (IntLaws; shown for the
   CPython tower, the reals and Z). *)
From Coq Require Import ZArith List String Ascii Bool Lia ZifyBool.
From Hexital Require Import Base.Prelude Base.Num Model.Manager Model.Candle Model.Readings Model.Analysis
  Model.Engine Proofs.ListProofs Proofs.EngineProofs Proofs.AnalysisProofs Proofs.CausalProofs Proofs.CausalMore.
Import ListNotations.
Local Open Scope Z_scope.

Section CounterLaw.
Context (NO : NumOps).
Notation val := (val NO).
Notation payload := (payload NO).
Notation cd := (cd payload).
Notation store := (store NO).

Record IntLaws : Prop := {
  il_add : forall a b, nadd NO (nofZ NO a) (nofZ NO b) = nofZ NO (a + b);
  il_eqb : forall a b, neqb NO (nofZ NO a) (nofZ NO b) = (a =? b);
  il_round : forall nd a, 0 <= nd -> nround NO nd (nofZ NO a) = nofZ NO a
}.

Variable I : ind NO.
Notation nm := (i_name NO I).
Variable input : string.
Variable cv : val.
Hypothesis K : i_kind NO I = K_COUNTER input cv.
Hypothesis Htop : i_sub NO I = false.
Hypothesis Hplain : has_dot nm = false /\ forall q, candle_attr NO q nm = None.
Hypothesis L : IntLaws.
Hypothesis Hround : 0 <= i_round NO I.
Notation calc := (pure_calc NO I).
Notation setk := (setk NO I).
Notation zn := (zn NO).

Definition cnt_next (c : Z) (r : val) : Z :=
  if is_none NO r then c else if py_eq NO cv r then c + 1 else 0.
Fixpoint counts_from (c : Z) (rs : list val) : list Z :=
  match rs with [] => [] | r :: rs' => let c' := cnt_next c r in c' :: counts_from c' rs' end.
Definition deco (ds : list cd) (ks : list Z) : store :=
  map (fun dk => setk (fst dk) (VNum (zn (snd dk)))) (combine ds ks).

(* the declarative run length, newest candle first *)
Fixpoint run_length (newest_first : list val) : Z :=
  match newest_first with
  | [] => 0
  | r :: older => if is_none NO r then run_length older else if py_eq NO cv r then 1 + run_length older else 0
  end.

Definition PrevIs (a : store) (c : Z) : Prop :=
  forall d, exists x, prev_reading NO (a ++ [d]) nm (zlen a) = Ok x /\ (x = VNone /\ c = 0 \/ x = VNum (zn c)).

Lemma PrevIs_nil : PrevIs [] 0.
Proof. intros d. exists VNone. split; [reflexivity|left; split; reflexivity]. Qed.

Lemma PrevIs_snoc (a : store) d k : PrevIs (a ++ [setk d (VNum (zn k))]) k.
Proof.
  intros d'. exists (VNum (zn k)). split; [|right; reflexivity].
  unfold prev_reading. destruct ((a ++ [setk d (VNum (zn k))]) ++ [d']) eqn:E; [destruct a; discriminate|]. rewrite <- E. clear E.
  rewrite zlen_app. pose proof (zlen_nonneg a). change (zlen [setk d (VNum (zn k))]) with 1.
  replace (zlen a + 1 =? 0) with false by lia. replace (zlen a + 1 - 1) with (zlen a) by lia.
  rewrite <- app_assoc. cbn [app]. rewrite (reading_mid NO). apply (rbc_setk_own' NO I Htop Hplain).
Qed.

Lemma step_value (a : store) d r c : PrevIs a c -> reading_by_candle NO (p d) input = Ok r ->
  calc (a ++ [d]) (zlen a) = Ok (VNum (zn (cnt_next c r))).
Proof.
  intros Hp Hr. unfold CausalProofs.pure_calc, calc_reading. rewrite K.
  rewrite (reading_mid NO a [] d input), Hr. cbn [bind].
  destruct (Hp d) as (x & Ex & Hx). rewrite Ex. cbn [bind].
  assert (Hc : (if truthy NO x then x else VNum (zn 0)) = VNum (zn c)).
  { destruct Hx as [[Hx1 Hx2]|Hx]; subst; [reflexivity|]. cbn [truthy]. unfold ntruthy, Engine.zn. rewrite (il_eqb L).
    destruct (c =? 0) eqn:E; cbn [negb]; [|reflexivity]. f_equal. f_equal. lia. }
  rewrite Hc. unfold cnt_next. destruct (is_none NO r); [reflexivity|].
  destruct (py_eq NO cv r); [|reflexivity]. unfold as_num; cbn [numlike bind]. unfold ret, vnum, Engine.zn; cbn [bind]. rewrite (il_add L). reflexivity.
Qed.

Lemma counter_canon_acc : forall (ds : list cd) (rs : list val) (a : store) (c : Z), PrevIs a c ->
  Forall2 (fun d r => reading_by_candle NO (p d) input = Ok r) ds rs ->
  canon_acc NO I calc a ds = Ok (a ++ deco ds (counts_from c rs)).
Proof.
  induction ds as [|d ds IH]; intros rs a c Hp HF; inversion HF as [|? r ? rs' Hr HF']; subst.
  - cbn. rewrite app_nil_r. reflexivity.
  - cbn [EngineProofs.canon_acc counts_from]. rewrite (step_value a d r c Hp Hr). cbn [bind].
    unfold rnd_, round_val, Engine.zn. rewrite (il_round L _ _ Hround). fold (zn (cnt_next c r)).
    rewrite (IH rs' _ (cnt_next c r) (PrevIs_snoc a d _) HF').
    unfold deco. cbn [combine map fst snd]. rewrite <- app_assoc. reflexivity.
Qed.

(* reading j of the stream is the run length of the inputs up to j *)
Lemma counts_run : forall rs seen c, c = run_length seen ->
  counts_from c rs = map (fun j => run_length (rev (firstn (S j) rs) ++ seen)) (seq 0 (List.length rs)).
Proof.
  induction rs as [|r rs IH]; intros seen c Hc; [reflexivity|].
  cbn [counts_from List.length seq map firstn rev app]. f_equal.
  - subst c. unfold cnt_next. cbn [run_length]. destruct (is_none NO r); [reflexivity|]. destruct (py_eq NO cv r); lia.
  - rewrite (IH (r :: seen) (cnt_next c r)).
    + rewrite <- seq_shift, map_map. apply map_ext. intros j. cbn [firstn rev]. rewrite <- app_assoc. reflexivity.
    + subst c. unfold cnt_next. cbn [run_length]. destruct (is_none NO r); [reflexivity|]. destruct (py_eq NO cv r); lia.
Qed.

Theorem counter_is_run_length (ds : list cd) (rs : list val) :
  Forall2 (fun d r => reading_by_candle NO (p d) input = Ok r) ds rs ->
  canon NO I calc ds =
  Ok (deco ds (map (fun j => run_length (rev (firstn (S j) rs))) (seq 0 (List.length rs)))).
Proof.
  intros HF. unfold EngineProofs.canon. rewrite (counter_canon_acc ds rs [] 0 PrevIs_nil HF). cbn [app].
  rewrite (counts_run rs [] 0 eq_refl). f_equal. f_equal. apply map_ext. intros j. rewrite app_nil_r. reflexivity.
Qed.
End CounterLaw.
