(* Hexital.append delivers the same candles to every manager - whether or not an indicator is
   currently attached to it - and the member operations (calculate, purge, remove_indicator)
   never touch a manager's candle data or the set of managers (C19, third clause). *)
From Coq Require Import ZArith List String Bool Lia.
From Hexital Require Import Base.Prelude Base.Num Model.Manager Model.Candle Model.Readings Model.Engine
  Model.Hexital Proofs.ListProofs Proofs.FrameProofs Proofs.NonInterference.
Import ListNotations.
Local Open Scope Z_scope.

Section Deliver.
Context (NO : NumOps).
Notation cd := (cd (payload NO)).
Notation store := (store NO).
Notation hexital := (hexital NO).

(* same candles as far as timestamps, OHLCV, clean values and tags go (readings may differ) *)
Definition data_eq (st st' : store) : Prop :=
  Forall2 (fun c c' : cd => t c' = t c /\ cur NO (p c') = cur NO (p c) /\ clean NO (p c') = clean NO (p c) /\
                            tagged NO (p c') = tagged NO (p c)) st st'.

Lemma data_eq_refl st : data_eq st st.
Proof. induction st; constructor; auto. Qed.

Lemma data_eq_trans a b c : data_eq a b -> data_eq b c -> data_eq a c.
Proof.
  intros H; revert c; induction H as [|x y l l' Hxy H IH]; intros c Hc; inversion Hc; subst; constructor.
  - match goal with Hyz : _ /\ _ |- _ => destruct Hxy as (A1 & A2 & A3 & A4); destruct Hyz as (B1 & B2 & B3 & B4) end.
    repeat split; congruence.
  - apply IH; assumption.
Qed.

Lemma frame_data_eq names st st' : frame NO names st st' -> data_eq st st'.
Proof.
  intros H; induction H as [|c c' l l' Hc H IH]; constructor; [|exact IH].
  destruct Hc as (A & B & C & D & _). tauto.
Qed.

Lemma calculate_data_eq (J : ind NO) st st' : wf_tree NO FUEL J -> calculate NO J st = Ok st' -> data_eq st st'.
Proof.
  intros Hwf. unfold calculate.
  destruct (run NO FUEL (RCalculate NO) J st) as [[v x]|] eqn:E; cbn [bind]; [|discriminate].
  intros H. inversion H; subst. eapply frame_data_eq. eapply run_frame; [exact Hwf|exact E].
Qed.

Lemma calculate_index_data_eq (J : ind NO) s e st st' :
  wf_tree NO FUEL J -> calculate_index NO J s e st = Ok st' -> data_eq st st'.
Proof.
  intros Hwf. unfold calculate_index.
  destruct (run NO FUEL (RCalcIndex NO s e) J st) as [[v x]|] eqn:E; cbn [bind]; [|discriminate].
  intros H. inversion H; subst. eapply frame_data_eq. eapply run_frame; [exact Hwf|exact E].
Qed.

Lemma purge_data_eq (J : ind NO) st : data_eq st (purge NO J st).
Proof. eapply frame_data_eq. apply purge_frame. Qed.

(* the managers of a Hexital, related one by one: same key, same settings, related candles *)
Definition mgrs_rel (R : store -> store -> Prop) (l l' : list (string * (mcfg * store))) : Prop :=
  Forall2 (fun kv kv' => fst kv' = fst kv /\ fst (snd kv') = fst (snd kv) /\ R (snd (snd kv)) (snd (snd kv'))) l l'.

Lemma mgrs_rel_refl (R : store -> store -> Prop) l : (forall s, R s s) -> mgrs_rel R l l.
Proof. intros HR; induction l; constructor; auto. Qed.

Lemma mgrs_rel_trans (R : store -> store -> Prop) a b c : (forall x y z, R x y -> R y z -> R x z) ->
  mgrs_rel R a b -> mgrs_rel R b c -> mgrs_rel R a c.
Proof.
  intros HT H; revert c; induction H as [|x y l l' Hxy H IH]; intros c Hc; inversion Hc; subst; constructor.
  - match goal with Hyz : _ /\ _ /\ _ |- _ => destruct Hxy as (A1 & A2 & A3); destruct Hyz as (B1 & B2 & B3) end.
    repeat split; try congruence. eapply HT; eassumption.
  - apply IH; assumption.
Qed.

Lemma alist_set_rel (R : store -> store -> Prop) k cfg st st' (l : list (string * (mcfg * store))) :
  (forall s, R s s) -> alist_get k l = Some (cfg, st) -> R st st' -> mgrs_rel R l (alist_set k (cfg, st') l).
Proof.
  intros HR. induction l as [|[k' v'] l IH]; cbn [alist_get alist_set]; [discriminate|].
  destruct (String.eqb k k') eqn:E; intros Hg Hs.
  - apply String.eqb_eq in E. subst k'. inversion Hg; subst. constructor; [|apply mgrs_rel_refl; exact HR].
    cbn [fst snd]. auto.
  - constructor; [cbn [fst snd]; auto|]. apply IH; assumption.
Qed.

Lemma mgrs_rel_keys (R : store -> store -> Prop) l l' : mgrs_rel R l l' -> map fst l' = map fst l.
Proof. intros H; induction H as [|x y l l' (A & _) H IH]; cbn [map]; congruence. Qed.

(* a member operation that preserves R on the candles it is run on preserves it on every manager *)
Lemma on_members_rel (R : store -> store -> Prop) (f : ind NO -> store -> res store) name :
  (forall s, R s s) -> (forall x y z, R x y -> R y z -> R x z) ->
  forall (ms : list (member NO)) (h h' : hexital),
  (forall m st st', In m ms -> f (m_ind NO m) st = Ok st' -> R st st') ->
  foldM (fun h' m =>
           if sel NO name m then
             '(cfg, st) <- get_mgr NO h' (m_mgr NO m) ;;
             st' <- f (m_ind NO m) st ;;
             Ok {| h_mgrs := alist_set (m_mgr NO m) (cfg, st') (h_mgrs NO h'); h_members := h_members NO h' |}
           else Ok h') ms h = Ok h' ->
  mgrs_rel R (h_mgrs NO h) (h_mgrs NO h') /\ h_members NO h' = h_members NO h.
Proof.
  intros HR HT. induction ms as [|m ms IH]; intros h h' Hf H; cbn [foldM] in H.
  - inversion H; subst. split; [apply mgrs_rel_refl; exact HR|reflexivity].
  - destruct (sel NO name m).
    + unfold get_mgr in H. destruct (alist_get (m_mgr NO m) (h_mgrs NO h)) as [[cfg st]|] eqn:G; cbn [of_opt bind] in H; [|discriminate].
      destruct (f (m_ind NO m) st) as [st'|] eqn:F; cbn [bind] in H; [|discriminate].
      apply IH in H; [|intros; eapply Hf; [right; eassumption|eassumption]].
      destruct H as [H1 H2]. cbn [h_mgrs h_members] in *. split; [|exact H2].
      eapply mgrs_rel_trans; [exact HT| |exact H1].
      eapply alist_set_rel; [exact HR|exact G|]. eapply Hf; [left; reflexivity|exact F].
    + cbn [bind] in H. apply IH in H; [exact H|]. intros; eapply Hf; [right; eassumption|eassumption].
Qed.

Definition members_wf (h : hexital) : Prop := Forall (fun m => wf_tree NO FUEL (m_ind NO m)) (h_members NO h).

(* the per-manager appends of Hexital.append *)
Lemma mapM_append (new : list cd) : forall (l mgrs : list (string * (mcfg * store))),
  mapM (fun kv : string * (mcfg * store) =>
          let '(k, (cfg, st)) := kv in st' <- mgr_append NO cfg st new ;; Ok (k, (cfg, st'))) l = Ok mgrs ->
  Forall2 (fun kv kv' => fst kv' = fst kv /\ fst (snd kv') = fst (snd kv) /\
                         mgr_append NO (fst (snd kv)) (snd (snd kv)) new = Ok (snd (snd kv'))) l mgrs.
Proof.
  induction l as [|[k [cfg st]] l IH]; intros mgrs H; cbn [mapM] in H.
  - inversion H; constructor.
  - destruct (mgr_append NO cfg st new) as [st1|] eqn:E; cbn [bind] in H; [|discriminate].
    destruct (mapM _ l) as [ys|] eqn:M; cbn [bind] in H; [|discriminate].
    inversion H; subst. constructor; [cbn [fst snd]; auto|]. apply IH. reflexivity.
Qed.

(* Hexital.append: every manager - one with members or one whose members were all removed -
   holds, up to readings, exactly what its own append of the same candles gives *)
Theorem append_delivers_everywhere (h h' : hexital) (new : list cd) :
  members_wf h -> hx_append NO h new = Ok h' ->
  Forall2 (fun kv kv' => fst kv' = fst kv /\ fst (snd kv') = fst (snd kv) /\
                         exists st1, mgr_append NO (fst (snd kv)) (snd (snd kv)) new = Ok st1 /\
                                     data_eq st1 (snd (snd kv')))
          (h_mgrs NO h) (h_mgrs NO h') /\ h_members NO h' = h_members NO h.
Proof.
  intros Hwf. unfold hx_append.
  match goal with |- bind ?m _ = _ -> _ => destruct m as [mgrs|] eqn:M; cbn [bind]; [|discriminate] end.
  intros H. apply mapM_append in M. unfold hx_calculate, hx_on_members in H. cbn [h_members h_mgrs] in H.
  eapply (on_members_rel data_eq) in H; [|exact data_eq_refl|exact data_eq_trans|].
  - destruct H as [H1 H2]. cbn [h_mgrs h_members] in *. split; [|exact H2].
    clear -M H1. revert H1. generalize (h_mgrs NO h'). induction M as [|x y l l' (A & B & C) M IH]; intros l2 H1; inversion H1; subst; constructor.
    + match goal with Hyz : _ /\ _ /\ _ |- _ => destruct Hyz as (D & E & F) end.
      split; [exact (eq_trans D A)|]. split; [exact (eq_trans E B)|]. eexists. split; [exact C|exact F].
    + apply IH. assumption.
  - intros m st st' Hin Hc. unfold members_wf in Hwf. rewrite Forall_forall in Hwf. eapply calculate_data_eq; [apply Hwf; exact Hin|exact Hc].
Qed.

(* remove_indicator keeps every manager, with its candles; so does any calculate / purge /
   recalculate / calculate_index *)
Theorem member_ops_keep_managers (hcfg : mcfg) (h h' : hexital) (op : hop NO) :
  members_wf h ->
  match op with HAppend _ _ | HAdd _ _ _ => False | _ => True end ->
  hx_step NO hcfg h op = Ok h' ->
  mgrs_rel data_eq (h_mgrs NO h) (h_mgrs NO h').
Proof.
  intros Hwf Hop H. unfold members_wf in Hwf. rewrite Forall_forall in Hwf.
  assert (HC : forall name a b, hx_on_members NO (calculate NO) name a = Ok b -> h_members NO a = h_members NO h ->
                                mgrs_rel data_eq (h_mgrs NO a) (h_mgrs NO b)).
  { intros name a b Hc Hm. unfold hx_on_members in Hc. eapply (on_members_rel data_eq) in Hc; [apply Hc|exact data_eq_refl|exact data_eq_trans|].
    intros m st st' Hin Hcal. eapply calculate_data_eq; [apply Hwf; rewrite <- Hm; exact Hin|exact Hcal]. }
  assert (HP : forall name a b, hx_purge NO name a = Ok b ->
                                mgrs_rel data_eq (h_mgrs NO a) (h_mgrs NO b) /\ h_members NO b = h_members NO a).
  { intros name a b Hp. unfold hx_purge, hx_on_members in Hp. eapply (on_members_rel data_eq (fun J st => Ok (purge NO J st))) in Hp; [exact Hp|exact data_eq_refl|exact data_eq_trans|].
    intros m st st' _ Hq. inversion Hq; subst. apply purge_data_eq. }
  destruct op as [new|name|name|name|name index|name|J own]; cbn [hx_step] in H; try contradiction.
  - eapply HC; [exact H|reflexivity].
  - apply HP in H. apply H.
  - destruct (hx_purge NO name h) as [h1|] eqn:E; cbn [bind] in H; [|discriminate].
    apply HP in E. destruct E as [E1 E2]. eapply mgrs_rel_trans; [exact data_eq_trans|exact E1|]. eapply HC; [exact H|exact E2].
  - unfold hx_on_members in H. eapply (on_members_rel data_eq (fun J st => calculate_index NO J index None st)) in H; [apply H|exact data_eq_refl|exact data_eq_trans|].
    intros m st st' Hin Hcal. eapply calculate_index_data_eq; [apply Hwf; exact Hin|exact Hcal].
  - destruct (hx_purge NO (Some name) h) as [h1|] eqn:E; cbn [bind] in H; [|discriminate].
    apply HP in E. inversion H; subst. cbn [h_mgrs]. apply E.
Qed.

End Deliver.
