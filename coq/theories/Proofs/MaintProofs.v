(* Maintenance operations on a leaf indicator with a canonical store (C14):
   recalculate() - purge then calculate - reproduces exactly the store it replaced, and
   recomputing an index that already holds a reading (positive or negative index)
   reproduces that reading: the store is unchanged. *)
From Coq Require Import ZArith List String Bool Lia ZifyBool.
From Hexital Require Import Base.Prelude Base.Num Model.Manager Model.Candle Model.Readings Model.Engine
  Proofs.ListProofs Proofs.EngineProofs.
Import ListNotations.
Local Open Scope Z_scope.

Section Maint.
Context (NO : NumOps).
Notation val := (val NO).
Notation payload := (payload NO).
Notation cd := (cd payload).
Notation store := (store NO).
Variable I : ind NO.
Hypothesis Hleaf : i_subs NO I = [] /\ i_managed NO I = [].
Variable calc : store -> Z -> res val.
Hypothesis Hpure : forall rec st i, calc_reading NO rec I st i = (v <- calc st i ;; Ok (v, st)).
Hypothesis HC : Causal NO I calc.
Notation nm := (i_name NO I).
Notation own := (own NO I).
Notation setk := (setk NO I).
Notation fresh := (fresh NO I).
Notation rnd_ := (rnd_ NO I).
Notation IsCanon := (IsCanon NO I calc).
Notation canon := (canon NO I calc).
Notation canon_acc := (canon_acc NO I calc).

Lemma alist_del_set_fresh {A} k (v : A) l : alist_get k l = None -> alist_del k (alist_set k v l) = l.
Proof.
  induction l as [|[k' v'] l IH]; cbn; intros H; [rewrite String.eqb_refl; reflexivity|].
  destruct (String.eqb k k') eqn:E; [discriminate|]. cbn. rewrite E. rewrite IH by exact H. reflexivity.
Qed.

(* purge of a leaf: only the own entry goes *)
Lemma tree_names_leaf : tree_names NO FUEL I = [(i_sub NO I, nm)].
Proof. destruct Hleaf as [Hs Hm]. change FUEL with (S 15). cbn [tree_names]. rewrite Hs, Hm. reflexivity. Qed.

Lemma purge_setk_fresh d v : fresh d -> purge_payload NO (tree_names NO FUEL I) (p (setk d v)) = p d.
Proof.
  intros Hf. rewrite tree_names_leaf. unfold EngineProofs.fresh, EngineProofs.own, own_dict in Hf.
  unfold purge_payload, EngineProofs.setk, with_own_dict, EngineProofs.own, own_dict. cbn [p fold_left fst snd].
  destruct (p d) as [cu cl tg ii ss]. cbn [Candle.inds Candle.subs Candle.cur Candle.clean Candle.tagged] in *.
  destruct (i_sub NO I); cbn [Candle.inds Candle.subs Candle.cur Candle.clean Candle.tagged];
    rewrite alist_del_set_fresh by exact Hf; reflexivity.
Qed.

(* a canonical store is the canonical decoration of its purged candles, which are fresh *)
Lemma iscanon_purge a : IsCanon a -> Forall fresh (purge NO I a) /\ canon (purge NO I a) = Ok a.
Proof.
  induction 1 as [|a d v Ha [IHf IHc] Hd Ev].
  - split; [constructor|reflexivity].
  - unfold purge, purge_names in *. rewrite map_app. cbn [map].
    assert (E : {| t := t (setk d (rnd_ v)); p := purge_payload NO (tree_names NO FUEL I) (p (setk d (rnd_ v))) |} = d).
    { rewrite purge_setk_fresh by exact Hd. destruct d; reflexivity. }
    rewrite E. split.
    + apply Forall_app. split; [exact IHf|constructor; [exact Hd|constructor]].
    + unfold EngineProofs.canon in *. rewrite canon_acc_app, IHc. cbn [bind EngineProofs.canon_acc]. rewrite Ev. reflexivity.
Qed.

Theorem recalculate_reproduces (st : store) : IsCanon st -> calculate NO I (purge NO I st) = Ok st.
Proof.
  intros Hc. destruct (iscanon_purge st Hc) as [Hf Hcan].
  rewrite (engine_batch_is_canon NO I Hleaf calc Hpure HC) by exact Hf. exact Hcan.
Qed.

(* ---- recomputing a computed index ---- *)
Lemma split_at (st : store) (k : nat) c : nth_error st k = Some c ->
  exists a rest, st = a ++ c :: rest /\ List.length a = k.
Proof.
  intros H. apply nth_error_split in H. destruct H as (a & rest & E & L). eauto.
Qed.

Lemma setk_same d v : setk (setk d v) v = setk d v.
Proof. apply setk_idem. Qed.

Lemma recompute_at (a rest : store) c : IsCanon (a ++ c :: rest) ->
  (v <- calc (a ++ c :: rest) (zlen a) ;; set_reading NO (a ++ c :: rest) I (rnd_ v) (zlen a)) = Ok (a ++ c :: rest).
Proof.
  intros Hc.
  assert (Hac : IsCanon (a ++ [c])).
  { eapply iscanon_prefix; [exact Hc|]. instantiate (1 := rest). rewrite <- app_assoc. reflexivity. }
  destruct (iscanon_last NO I calc a c Hac) as (d & v & Hd & Ev & Ec).
  assert (Ha : IsCanon a) by (eapply iscanon_prefix; [exact Hc|reflexivity]).
  pose proof (HC a d (Some (rnd_ v)) rest Ha Hd) as Hcausal. cbn [slot] in Hcausal.
  rewrite Ec. rewrite Hcausal, Ev. cbn [bind].
  rewrite (set_reading_mid NO I a rest (setk d (rnd_ v)) (rnd_ v)). rewrite setk_idem. reflexivity.
Qed.

Theorem calc_index_reproduces (st : store) (i : Z) : IsCanon st -> - zlen st <= i < zlen st ->
  calculate_index NO I i None st = Ok st.
Proof.
  intros Hc Hi. unfold calculate_index. change FUEL with (S (S 14)). rewrite run_S. cbn [step].
  rewrite !(run_subs_nil NO I Hleaf). cbn [bind].
  set (s := if i <? 0 then i + zlen st else i).
  assert (Hs : 0 <= s < zlen st) by (unfold s; destruct (i <? 0) eqn:E; lia).
  rewrite (zrange_cons s (s + 1)) by lia. rewrite zrange_nil by lia. cbn [calc_loop bind].
  rewrite run_S. cbn [step]. rewrite Hpure.
  destruct (nth_error st (Z.to_nat s)) as [c|] eqn:En; [|apply nth_error_None in En; unfold zlen in *; lia].
  destruct (split_at st (Z.to_nat s) c En) as (a & rest & E & L).
  assert (Hz : s = zlen a) by (unfold zlen; lia). rewrite Hz. subst st.
  pose proof (recompute_at a rest c Hc) as R.
  destruct (calc (a ++ c :: rest) (zlen a)) as [v|e]; cbn [bind] in *; [|discriminate].
  unfold EngineProofs.rnd_ in R. rewrite R. cbn [bind]. rewrite (run_subs_nil NO I Hleaf). reflexivity.
Qed.

(* ---- operation programs on one leaf indicator (base timeframe) ---- *)
Lemma alist_del_absent {A} k (l : list (string * A)) : alist_get k l = None -> alist_del k l = l.
Proof.
  induction l as [|[k' v'] l IH]; cbn; intros H; [reflexivity|].
  destruct (String.eqb k k') eqn:E; [discriminate|]. rewrite IH by exact H. reflexivity.
Qed.
Lemma purge_fresh_cd d : fresh d -> {| t := t d; p := purge_payload NO (tree_names NO FUEL I) (p d) |} = d.
Proof.
  intros Hf. rewrite tree_names_leaf. unfold EngineProofs.fresh, EngineProofs.own, own_dict in Hf.
  unfold purge_payload. cbn [fold_left fst snd]. destruct d as [ts q]. destruct q as [cu cl tg ii ss].
  cbn [t p Candle.inds Candle.subs Candle.cur Candle.clean Candle.tagged] in *.
  destruct (i_sub NO I); rewrite alist_del_absent by exact Hf; reflexivity.
Qed.
Lemma purge_fresh (ds : list cd) : Forall fresh ds -> purge NO I ds = ds.
Proof.
  induction 1 as [|d ds Hd _ IH]; [reflexivity|]. unfold purge, purge_names in *. cbn [map].
  rewrite (purge_fresh_cd d Hd). f_equal. exact IH.
Qed.
Lemma purge_app (a b : store) : purge NO I (a ++ b) = purge NO I a ++ purge NO I b.
Proof. unfold purge, purge_names. apply map_app. Qed.

Lemma canon_acc_purge : forall todo a r, Forall fresh todo -> canon_acc a todo = Ok r ->
  purge NO I r = purge NO I a ++ todo.
Proof.
  induction todo as [|d todo IH]; intros a r Hf H; cbn [EngineProofs.canon_acc] in H.
  - inversion H; subst. rewrite app_nil_r. reflexivity.
  - inversion Hf as [|? ? Hd Hf']; subst.
    destruct (calc (a ++ [d]) (zlen a)) as [v|e]; cbn [bind] in H; [|discriminate].
    rewrite (IH _ _ Hf' H). rewrite purge_app. rewrite <- app_assoc. f_equal.
    unfold purge, purge_names. cbn [map]. rewrite purge_setk_fresh by exact Hd. destruct d; reflexivity.
Qed.

(* the states a program can reach, with the candles appended so far.  calculate_index is
   taken on a computed index of a fully calculated indicator (the property's proviso) *)
Inductive Reach : store -> list cd -> Prop :=
| R_init : Reach [] []
| R_append st ds new st' : Reach st ds -> Forall fresh new -> calculate NO I (st ++ new) = Ok st' -> Reach st' (ds ++ new)
| R_calculate st ds st' : Reach st ds -> calculate NO I st = Ok st' -> Reach st' ds
| R_purge st ds : Reach st ds -> Reach (purge NO I st) ds
| R_recalculate st ds st' : Reach st ds -> calculate NO I (purge NO I st) = Ok st' -> Reach st' ds
| R_calc_index st ds i st' : Reach st ds -> IsCanon st -> - zlen st <= i < zlen st ->
    calculate_index NO I i None st = Ok st' -> Reach st' ds.

Definition J (st : store) (ds : list cd) : Prop :=
  Forall fresh ds /\ (st = ds \/ (IsCanon st /\ canon ds = Ok st)).

Lemma J_calculate st ds st' : J st ds -> calculate NO I st = Ok st' -> J st' ds.
Proof.
  intros [Hf [->|[Hc Hcan]]] H; split; try exact Hf; right.
  - rewrite (engine_batch_is_canon NO I Hleaf calc Hpure HC) in H by exact Hf.
    split; [eapply canon_acc_iscanon; [constructor|exact Hf|exact H]|exact H].
  - rewrite (calculate_is_leaf NO I Hleaf calc Hpure) in H.
    rewrite (calculate_idempotent NO I calc HC st Hc) in H. inversion H; subst. split; assumption.
Qed.
Lemma J_purge st ds : J st ds -> J (purge NO I st) ds.
Proof.
  intros [Hf [->|[Hc Hcan]]]; split; try exact Hf; left.
  - apply purge_fresh. exact Hf.
  - unfold EngineProofs.canon in Hcan. rewrite (canon_acc_purge ds [] st Hf Hcan). reflexivity.
Qed.

Theorem reach_J st ds : Reach st ds -> J st ds.
Proof.
  induction 1 as [|st ds new st' _ IH Hn H|st ds st' _ IH H|st ds _ IH|st ds st' _ IH H|st ds i st' _ IH Hc Hi H].
  - split; [constructor|left; reflexivity].
  - destruct IH as [Hf [->|[Hc Hcan]]]; (split; [apply Forall_app; split; assumption|right]).
    + assert (Hall : Forall fresh (ds ++ new)) by (apply Forall_app; split; assumption).
      rewrite (engine_batch_is_canon NO I Hleaf calc Hpure HC) in H by exact Hall.
      split; [eapply canon_acc_iscanon; [constructor|exact Hall|exact H]|exact H].
    + rewrite (calculate_is_leaf NO I Hleaf calc Hpure) in H.
      rewrite (append_is_canon NO I calc HC st new Hc Hn) in H.
      split; [eapply canon_acc_iscanon; [exact Hc|exact Hn|exact H]|].
      unfold EngineProofs.canon in *. rewrite canon_acc_app, Hcan. exact H.
  - eapply J_calculate; eassumption.
  - apply J_purge. exact IH.
  - eapply J_calculate; [apply J_purge; exact IH|exact H].
  - rewrite (calc_index_reproduces st i Hc Hi) in H. inversion H; subst. exact IH.
Qed.

(* after any program, calculate() gives exactly what one calculate() over all the candles
   appended so far gives - the same store, or the same exception *)
Theorem programs_converge st ds : Reach st ds -> calculate NO I st = calculate NO I ds.
Proof.
  intros HR. destruct (reach_J st ds HR) as [Hf [->|[Hc Hcan]]]; [reflexivity|].
  rewrite (engine_batch_is_canon NO I Hleaf calc Hpure HC ds Hf), Hcan.
  rewrite (calculate_is_leaf NO I Hleaf calc Hpure). apply (calculate_idempotent NO I calc HC st Hc).
Qed.
End Maint.
