(* Collapse + lifespan under appends (C15): collapsing and trimming a raw stream, appending
   more raw candles to the retained buckets and running collapse + trim again gives exactly
   collapse + trim of the whole raw stream: the window is the same for every append schedule. *)
From Coq Require Import ZArith List Bool Lia ZifyBool.
From Hexital Require Import Base.Prelude Model.Manager Proofs.CollapseProofs Proofs.FillProofs Proofs.ComposeProofs Proofs.FillCompose.
Import ListNotations.
Local Open Scope Z_scope.

Section TrimCompose.
Variable P : Type.
Variable merge : P -> P -> P.
Notation cd := (cd P).
Notation resample := (resample P merge).
Notation resample_acc := (resample_acc P merge).
Notation collapse := (collapse P merge).

Lemma drop_older_split : forall (l : list cd) b, exists pre, l = pre ++ drop_older P b l /\ Forall (fun c => t c < b) pre.
Proof.
  induction l as [|c l IH]; intros b; cbn [drop_older]; [exists []; split; [reflexivity|constructor]|].
  destruct (t c <? b) eqn:B.
  - destruct (IH b) as (pre & E & F). exists (c :: pre). split; [cbn [app]; f_equal; exact E|constructor; [lia|exact F]].
  - exists []. split; [reflexivity|constructor].
Qed.
Lemma drop_older_app_pre : forall (pre x : list cd) b, Forall (fun c => t c < b) pre -> drop_older P b (pre ++ x) = drop_older P b x.
Proof.
  induction pre as [|c pre IH]; intros x b F; [reflexivity|]. inversion F; subst. cbn [app drop_older].
  assert (B : (t c <? b) = true) by lia. rewrite B. apply IH. assumption.
Qed.
Lemma Forall_lt_mono (pre : list cd) b b' : b <= b' -> Forall (fun c => t c < b) pre -> Forall (fun c => t c < b') pre.
Proof. intros H. apply Forall_impl. intros c Hc. lia. Qed.

Lemma strictly_inc_from_gt : forall (l : list cd) r c, strictly_inc_from P r l -> In c l -> r < t c.
Proof.
  induction l as [|x l IH]; intros r c S Hin; [destruct Hin|]. destruct S as [S1 S2].
  destruct Hin as [<-|Hin]; [exact S1|]. specialize (IH (t x) c S2 Hin). lia.
Qed.
Lemma strictly_inc_from_last : forall (l : list cd) r c d, strictly_inc_from P r l -> In c l -> t c <= t (List.last l d).
Proof.
  induction l as [|x l IH]; intros r c d S Hin; [destruct Hin|]. destruct S as [S1 S2].
  destruct l as [|y l'].
  - cbn. destruct Hin as [<-|[]]. lia.
  - change (List.last (x :: y :: l') d) with (List.last (y :: l') d).
    destruct Hin as [Hx|Hin]; [|apply (IH (t x) c d S2 Hin)]. subst c.
    assert (Hl : In (List.last (y :: l') d) (y :: l')).
    { clear. revert y. induction l' as [|z l IHl]; intros y; [left; reflexivity|]. right. apply IHl. }
    pose proof (strictly_inc_from_gt (y :: l') (t x) _ S2 Hl). lia.
Qed.
Lemma rev_head_last (l q : list cd) z d : rev l = z :: q -> List.last l d = z.
Proof. intros E. apply (f_equal (@rev _)) in E. rewrite rev_involutive in E. rewrite E. cbn [rev]. apply last_last. Qed.

Lemma lsorted_drop_prefix tf : forall (pre x : list cd), x <> [] -> lsorted P tf (pre ++ x) -> lsorted P tf x.
Proof.
  intros pre x Hx H. destruct pre as [|p0 pre]; [exact H|]. cbn [app lsorted] in H.
  pose proof (lsorted_from_app_inv P tf pre (label (t p0) tf) x H) as H'.
  destruct x as [|x0 x']; [congruence|]. cbn [lsorted]. destruct H' as [_ H']. exact H'.
Qed.

Definition ct (tf ls : Z) (l : list cd) : res (list cd) := c <- collapse tf l ;; Ok (trim P (Some ls) c).

Theorem collapse_trim_incremental (tf ls : Z) (xs ys D : list cd) :
  0 < tf -> 0 <= ls -> sorted P (xs ++ ys) -> ct tf ls xs = Ok D -> ct tf ls (D ++ ys) = ct tf ls (xs ++ ys).
Proof.
  intros Htf Hls Hs HD. unfold ct in *.
  assert (Hsx : sorted P xs).
  { destruct xs as [|x0 xs']; [exact I|]. cbn [app sorted] in Hs.
    destruct (sorted_from_app_inv P xs' (t x0) ys Hs) as [A _]. exact A. }
  rewrite (collapse_is_resample P merge tf xs Htf Hsx) in HD. cbn [bind] in HD.
  rewrite (collapse_is_resample P merge tf (xs ++ ys) Htf Hs). cbn [bind].
  pose proof (lsorted_resample_app P merge tf xs ys Htf Hs) as LRS.
  assert (Hlx : lsorted P tf xs) by (apply sorted_lsorted; assumption).
  destruct (resample_shape P merge tf xs Htf Hlx) as [GR SR].
  assert (E2 : resample tf (xs ++ ys) = resample_acc tf (rev (resample tf xs)) ys).
  { unfold Manager.resample. rewrite resample_acc_app. reflexivity. }
  rewrite E2. clear E2.
  set (R := resample tf xs) in *. clearbody R.
  destruct (exists_last_or_nil R) as [ER|(Rinit & r & ER)].
  - subst R. cbn in HD. assert (D = []) by congruence. subst D. cbn [app rev].
    rewrite (collapse_lsorted P merge tf ys Htf LRS). reflexivity.
  - (* the trim keeps a suffix S' ++ [r] of R *)
    assert (HsR : sorted P R).
    { destruct R as [|c0 R']; [exact I|]. cbn [sorted]. apply strictly_inc_from_sorted. exact SR. }
    destruct (trim_keeps_newest P ls R r Rinit Hls ER HsR) as (S' & ES).
    assert (ED : D = S' ++ [r]) by congruence. clear HD.
    unfold trim in ES. rewrite ER, rev_unit in ES. rewrite <- ER in ES.
    destruct (drop_older_split R (t r - ls)) as (Pre & EP & FP). rewrite ES in EP.
    (* R = Pre ++ S' ++ [r] *)
    assert (ERi : Rinit = Pre ++ S').
    { rewrite ER in EP. rewrite app_assoc in EP. apply app_inj_tail in EP. tauto. }
    (* the retained buckets followed by the new candles collapse to S' ++ (continuation from r) *)
    assert (LS : lsorted P tf ((S' ++ [r]) ++ ys)).
    { apply (lsorted_drop_prefix tf Pre); [destruct S'; discriminate|].
      replace (Pre ++ (S' ++ [r]) ++ ys) with (R ++ ys); [exact LRS|].
      rewrite ER, ERi. rewrite <- !app_assoc. reflexivity. }
    subst D. rewrite (collapse_lsorted P merge tf _ Htf LS). cbn [bind]. f_equal.
    assert (GS : on_grid P tf (S' ++ [r]) /\ strictly_inc P (S' ++ [r])).
    { rewrite ER, ERi in GR, SR. rewrite <- app_assoc in GR, SR. split.
      - apply Forall_app in GR. tauto.
      - clear -SR. induction Pre as [|p0 Pre IH]; [exact SR|]. apply IH. cbn [app strictly_inc] in SR.
        destruct (Pre ++ S' ++ [r]) as [|q0 q] eqn:E; [destruct Pre; [destruct S'|]; discriminate|]. destruct SR as [_ SR]. exact SR. }
    destruct GS as [GS SS].
    assert (E1 : resample tf ((S' ++ [r]) ++ ys) = S' ++ resample_acc tf [r] ys).
    { unfold Manager.resample. rewrite resample_acc_app. rewrite (resample_acc_id P merge tf Htf _ []); [|exact GS|exact SS].
      cbn [rev app]. rewrite rev_unit. rewrite (resample_acc_head P merge tf ys r (rev S')). rewrite rev_involutive. reflexivity. }
    rewrite E1. rewrite ER, rev_unit. rewrite (resample_acc_head P merge tf ys r (rev Rinit)). rewrite rev_involutive. rewrite ERi, <- app_assoc.
    (* the whole-stream result is Pre ++ X, X the chunked result before trimming *)
    set (X := S' ++ resample_acc tf [r] ys).
    destruct (resample_acc_head_t P merge tf ys r) as (h & T & ET & Hth).
    assert (HX : X <> []) by (unfold X; rewrite ET; destruct S'; discriminate).
    unfold trim. rewrite rev_app_distr.
    destruct (rev X) as [|z q] eqn:EX; [exfalso; apply HX; apply (f_equal (@rev _)) in EX; rewrite rev_involutive in EX; exact EX|].
    cbn [app]. rewrite drop_older_app_pre; [reflexivity|].
    (* every trimmed bucket is older than the new bound *)
    apply (Forall_lt_mono Pre (t r - ls)); [|exact FP].
    assert (SX : strictly_inc P X).
    { unfold X. rewrite <- E1. apply (resample_shape P merge tf _ Htf LS). }
    assert (Hin : In h X) by (unfold X; rewrite ET; apply in_or_app; right; left; reflexivity).
    pose proof (rev_head_last X q z h EX) as HL.
    destruct X as [|x0 X'] eqn:EXX; [congruence|]. cbn [strictly_inc] in SX.
    assert (Hle : t h <= t z).
    { rewrite <- HL. destruct Hin as [<-|Hin].
      - destruct X' as [|x1 X'']; [cbn; lia|].
        change (List.last (x0 :: x1 :: X'') x0) with (List.last (x1 :: X'') x0).
        assert (Hl : In (List.last (x1 :: X'') x0) (x1 :: X'')).
        { clear. revert x1. induction X'' as [|y l IHl]; intros x1; [left; reflexivity|]. right. apply IHl. }
        pose proof (strictly_inc_from_gt (x1 :: X'') (t x0) _ SX Hl). lia.
      - destruct X' as [|x1 X'']; [destruct Hin|].
        change (List.last (x0 :: x1 :: X'') h) with (List.last (x1 :: X'') h).
        apply (strictly_inc_from_last (x1 :: X'') (t x0) h h SX Hin). }
    lia.
Qed.
End TrimCompose.

From Hexital Require Import Base.Num Model.Candle.
Section TrimManager.
Context (NO : NumOps).
Notation cd := (cd (payload NO)).
Definition tf_life_cfg (tf ls : Z) : mcfg := {| tf := Some tf; fillon := false; ha := false; lifespan := Some ls |}.
Lemma tasks_ct tf ls l : tasks NO (tf_life_cfg tf ls) l = ct (payload NO) (Candle.merge NO) tf ls l.
Proof.
  unfold tasks, ct, tf_life_cfg, collapse_candles. cbn [Candle.tf fillon ha lifespan].
  destruct (collapse (payload NO) (Candle.merge NO) tf l); reflexivity.
Qed.
Theorem manager_lifespan_incremental (tf ls : Z) (xs ys D : list cd) :
  0 < tf -> 0 <= ls -> sorted (payload NO) (xs ++ ys) ->
  tasks NO (tf_life_cfg tf ls) xs = Ok D -> mgr_append NO (tf_life_cfg tf ls) D ys = tasks NO (tf_life_cfg tf ls) (xs ++ ys).
Proof.
  intros Htf Hls Hs HD. unfold mgr_append. destruct ys as [|y ys'].
  - rewrite app_nil_r. symmetry. exact HD.
  - rewrite !tasks_ct in *. apply collapse_trim_incremental; assumption.
Qed.
End TrimManager.
