(* C04: window averages lie within the range of the inputs they average (over the reals, with
   round-to-nearest-even on nd decimals): the seeds of SMA and EMA and every WMA reading stay
   inside any grid interval that contains the window. *)
From Coq Require Import ZArith List String Bool Reals Lra Lia.
From Flocq Require Import Core.
From Hexital Require Import Base.Prelude Base.Num Model.Candle Inst.RealInst Spec.Steppers Proofs.SpecReal Proofs.SpecMore.
Import ListNotations.
Local Open Scope R_scope.

Definition within (lo hi : R) (l : list R) : Prop := Forall (fun x => lo <= x <= hi) l.

Lemma sum_bounds lo hi : forall (l : list R) (acc : R), within lo hi l ->
  acc + IZR (Z.of_nat (List.length l)) * lo <= fold_left Rplus l acc <= acc + IZR (Z.of_nat (List.length l)) * hi.
Proof.
  induction l as [|x l IH]; intros acc H; cbn [fold_left List.length].
  - cbn. lra.
  - inversion H as [|? ? Hx Hl]; subst. specialize (IH (acc + x) Hl).
    rewrite Nat2Z.inj_succ, succ_IZR. lra.
Qed.

Lemma mean_within lo hi (l : list R) (p : Z) : (0 < p)%Z -> Z.of_nat (List.length l) = p -> within lo hi l ->
  lo <= fold_left Rplus l 0 / IZR p <= hi.
Proof.
  intros Hp Hl H. pose proof (sum_bounds lo hi l 0 H) as [B1 B2]. rewrite Hl in B1, B2.
  assert (Hp' : 0 < IZR p) by (apply IZR_lt; exact Hp).
  split.
  - apply (Rmult_le_reg_r (IZR p)); [exact Hp'|]. unfold Rdiv. rewrite Rmult_assoc, Rinv_l by lra. lra.
  - apply (Rmult_le_reg_r (IZR p)); [exact Hp'|]. unfold Rdiv. rewrite Rmult_assoc, Rinv_l by lra. lra.
Qed.

Lemma within_rev lo hi l : within lo hi l -> within lo hi (rev l).
Proof. unfold within. intros H. apply Forall_rev. exact H. Qed.

Lemma full_length p (buf : list R) : full RO p buf = true -> Z.of_nat (List.length buf) = p.
Proof. unfold full. intros H. apply Z.eqb_eq in H. exact H. Qed.

(* the first SMA / EMA reading - the rounded mean of the first full window - lies inside any
   grid interval that contains the window *)
Theorem sma_seed_within_range (p nd : Z) (s : state RO) (x lo hi : R) :
  (0 < p)%Z -> s_prev RO s = None -> full RO p (push RO p x (s_buf RO s)) = true ->
  generic_format radix10 (FIX_exp (- nd)) lo -> generic_format radix10 (FIX_exp (- nd)) hi ->
  within lo hi (push RO p x (s_buf RO s)) ->
  exists r s', sma_step RO p nd s x = Ok (VNum r, s') /\ lo <= r <= hi.
Proof.
  intros Hp Hs Hf Hlo Hhi Hw. pose proof (IZR_pos p Hp) as Hp'.
  unfold sma_step. rewrite Hs, Hf. unfold zn; cbn [nofZ RO]. rewrite divn_ok by lra. cbn [bind nsum RO].
  eexists _, _. split; [reflexivity|]. unfold rnd; cbn [nround RO]. apply rnd10_between; try assumption.
  apply mean_within; [exact Hp| |apply within_rev; exact Hw]. rewrite rev_length. apply full_length. exact Hf.
Qed.
Theorem ema_seed_within_range (p : Z) (sm : R) (nd : Z) (s : state RO) (x lo hi : R) :
  (0 < p)%Z -> s_prev RO s = None -> full RO p (push RO p x (s_buf RO s)) = true ->
  generic_format radix10 (FIX_exp (- nd)) lo -> generic_format radix10 (FIX_exp (- nd)) hi ->
  within lo hi (push RO p x (s_buf RO s)) ->
  exists r s', ema_step RO p sm nd s x = Ok (VNum r, s') /\ lo <= r <= hi.
Proof.
  intros Hp Hs Hf Hlo Hhi Hw. pose proof (IZR_pos p Hp) as Hp'.
  unfold ema_step. rewrite Hs, Hf. unfold zn; cbn [nofZ RO]. rewrite divn_ok by lra. cbn [bind nsum RO nfloat].
  eexists _, _. split; [reflexivity|]. unfold rnd; cbn [nround RO]. apply rnd10_between; try assumption.
  apply mean_within; [exact Hp| |apply within_rev; exact Hw]. rewrite rev_length. apply full_length. exact Hf.
Qed.

(* weighted sums with non-negative weights *)
Lemma wsum_bounds lo hi : forall (l : list (R * R)) (acc : R),
  Forall (fun xw => lo <= fst xw <= hi /\ 0 <= snd xw) l ->
  acc + lo * fold_left Rplus (map snd l) 0 <= fold_left Rplus (map (fun xw => fst xw * snd xw) l) acc
  <= acc + hi * fold_left Rplus (map snd l) 0.
Proof.
  assert (Shift : forall (l : list R) a, fold_left Rplus l a = a + fold_left Rplus l 0).
  { induction l as [|y l IH]; intros a; cbn [fold_left]; [lra|]. rewrite (IH (a + y)), (IH (0 + y)). lra. }
  induction l as [|[x w] l IH]; intros acc H; cbn [map fold_left fst snd].
  - cbn. lra.
  - inversion H as [|? ? [Hx Hw] Hl]; subst. cbn [fst snd] in *. specialize (IH (acc + x * w) Hl).
    rewrite (Shift (map snd l) (0 + w)). nra.
Qed.

Lemma fold_shift : forall (l : list R) a, fold_left Rplus l a = a + fold_left Rplus l 0.
Proof. induction l as [|y l IH]; intros a; cbn [fold_left]; [lra|]. rewrite (IH (a + y)), (IH (0 + y)). lra. Qed.

(* 2 * sum_{j < n} (p - j) = n * (2p - n + 1) *)
Lemma weights_sum (p : Z) : forall n : nat,
  2 * fold_left Rplus (map (fun j : Z => IZR (p - j)) (indices n)) 0 = IZR (Z.of_nat n) * (2 * IZR p - IZR (Z.of_nat n) + 1).
Proof.
  unfold indices. induction n as [|n IH].
  - cbn. lra.
  - rewrite seq_S, !map_app, fold_left_app. cbn [map fold_left plus].
    rewrite Nat2Z.inj_succ, succ_IZR, minus_IZR. lra.
Qed.

Lemma map_fst_combine {A B} : forall (l1 : list A) (l2 : list B), List.length l1 = List.length l2 ->
  map fst (combine l1 l2) = l1.
Proof. induction l1 as [|a l1 IH]; intros [|b l2] H; cbn in *; try discriminate; [reflexivity|]. rewrite IH by lia. reflexivity. Qed.
Lemma map_snd_combine {A B} : forall (l1 : list A) (l2 : list B), List.length l1 = List.length l2 ->
  map snd (combine l1 l2) = l2.
Proof. induction l1 as [|a l1 IH]; intros [|b l2] H; cbn in *; try discriminate; [reflexivity|]. rewrite IH by lia. reflexivity. Qed.
Lemma indices_length n : List.length (indices n) = n.
Proof. unfold indices. rewrite map_length, seq_length. reflexivity. Qed.
Lemma indices_bound n j : In j (indices n) -> (0 <= j < Z.of_nat n)%Z.
Proof. unfold indices. intros H. apply in_map_iff in H. destruct H as (k & <- & Hk). apply in_seq in Hk. lia. Qed.

(* every WMA reading lies inside any grid interval that contains its window *)
Theorem wma_within_range (p nd : Z) (s : state RO) (x lo hi : R) :
  (0 < p)%Z -> full RO p (push RO p x (s_buf RO s)) = true ->
  generic_format radix10 (FIX_exp (- nd)) lo -> generic_format radix10 (FIX_exp (- nd)) hi ->
  within lo hi (push RO p x (s_buf RO s)) ->
  exists r s', wma_step RO p nd s x = Ok (VNum r, s') /\ lo <= r <= hi.
Proof.
  intros Hp Hf Hlo Hhi Hw. destruct (wma_definition p nd s x Hp Hf) as (s' & E).
  eexists _, s'. split; [exact E|]. apply rnd10_between; try assumption.
  set (buf := push RO p x (s_buf RO s)) in *. pose proof (full_length p buf Hf) as Hl.
  set (n := List.length buf) in *.
  assert (Hn : Z.of_nat n = p) by exact Hl.
  set (l := map (fun pj : Z * R => (snd pj, IZR (p - fst pj))) (combine (indices n) buf)).
  assert (E1 : wma_weighted p buf = fold_left Rplus (map (fun xw => fst xw * snd xw) l) 0).
  { unfold wma_weighted, l. fold n. rewrite map_map. reflexivity. }
  assert (E2 : map snd l = map (fun j : Z => IZR (p - j)) (indices n)).
  { unfold l. rewrite map_map. cbn [snd].
    rewrite <- (map_fst_combine (indices n) buf) at 2 by (rewrite indices_length; reflexivity).
    rewrite map_map. reflexivity. }
  assert (HF : Forall (fun xw => lo <= fst xw <= hi /\ 0 <= snd xw) l).
  { unfold l. apply Forall_forall. intros xw Hin. apply in_map_iff in Hin. destruct Hin as ([j y] & <- & Hjy). cbn [fst snd].
    split.
    - unfold within in Hw. rewrite Forall_forall in Hw. apply Hw. eapply in_combine_r. exact Hjy.
    - apply in_combine_l in Hjy. apply indices_bound in Hjy. apply IZR_le. lia. }
  pose proof (wsum_bounds lo hi l 0 HF) as [B1 B2]. rewrite <- E1, E2 in B1, B2.
  pose proof (weights_sum p n) as WS. rewrite Hn in WS.
  assert (W : fold_left Rplus (map (fun j : Z => IZR (p - j)) (indices n)) 0 = IZR (p * (p + 1)) / 2).
  { rewrite mult_IZR, plus_IZR. lra. }
  rewrite W in B1, B2.
  assert (Hpos : 0 < IZR (p * (p + 1)) / 2).
  { assert (0 < IZR (p * (p + 1))) by (apply IZR_lt; nia). lra. }
  set (c := IZR (p * (p + 1)) / 2) in *. clearbody c.
  split.
  - apply (Rmult_le_reg_r c); [exact Hpos|]. unfold Rdiv. rewrite Rmult_assoc, Rinv_l by lra. lra.
  - apply (Rmult_le_reg_r c); [exact Hpos|]. unfold Rdiv. rewrite Rmult_assoc, Rinv_l by lra. lra.
Qed.
