(* highest / lowest (C05: Donchian and Highest/Lowest are window extremes): over the reals,
   the value returned is an element of the window of number-like readings and bounds every
   element of it. *)
From Coq Require Import ZArith List String Bool Reals Lra Lia.
From Hexital Require Import Base.Prelude Base.Num Model.Manager Model.Candle Model.Readings Model.Analysis Inst.RealInst.
Import ListNotations.
Local Open Scope R_scope.
Notation F := ROps.

Lemma vmax_fold : forall (rest : list (val F)) (r : val F),
  let m := fold_left (vmax F) rest r in
  In m (r :: rest) /\ forall y, In y (r :: rest) -> num_of F y <= num_of F m.
Proof.
  induction rest as [|z rest IH]; intros r; cbn [fold_left].
  - split; [left; reflexivity|]. intros y [<-|[]]. lra.
  - destruct (IH (vmax F r z)) as [Hin Hb]. cbn zeta in *.
    assert (Hm : (vmax F r z = r \/ vmax F r z = z) /\ num_of F r <= num_of F (vmax F r z) /\ num_of F z <= num_of F (vmax F r z)).
    { unfold vmax. cbn [nltb F]. unfold Rltb. destruct (Rlt_dec (num_of F r) (num_of F z)); split; try tauto; lra. }
    destruct Hm as (Hc & H1 & H2). split.
    + destruct Hin as [E|Hin]; [|right; right; exact Hin]. rewrite <- E. destruct Hc as [Hc|Hc]; rewrite Hc; [left|right; left]; reflexivity.
    + intros y [<-|[<-|Hy]].
      * apply Rle_trans with (num_of F (vmax F r z)); [exact H1|apply Hb; left; reflexivity].
      * apply Rle_trans with (num_of F (vmax F r z)); [exact H2|apply Hb; left; reflexivity].
      * apply Hb. right. exact Hy.
Qed.
Lemma vmin_fold : forall (rest : list (val F)) (r : val F),
  let m := fold_left (vmin F) rest r in
  In m (r :: rest) /\ forall y, In y (r :: rest) -> num_of F m <= num_of F y.
Proof.
  induction rest as [|z rest IH]; intros r; cbn [fold_left].
  - split; [left; reflexivity|]. intros y [<-|[]]. lra.
  - destruct (IH (vmin F r z)) as [Hin Hb]. cbn zeta in *.
    assert (Hm : (vmin F r z = r \/ vmin F r z = z) /\ num_of F (vmin F r z) <= num_of F r /\ num_of F (vmin F r z) <= num_of F z).
    { unfold vmin. cbn [nltb F]. unfold Rltb. destruct (Rlt_dec (num_of F z) (num_of F r)); split; try tauto; lra. }
    destruct Hm as (Hc & H1 & H2). split.
    + destruct Hin as [E|Hin]; [|right; right; exact Hin]. rewrite <- E. destruct Hc as [Hc|Hc]; rewrite Hc; [left|right; left]; reflexivity.
    + intros y [<-|[<-|Hy]].
      * apply Rle_trans with (num_of F (vmin F r z)); [apply Hb; left; reflexivity|exact H1].
      * apply Rle_trans with (num_of F (vmin F r z)); [apply Hb; left; reflexivity|exact H2].
      * apply Hb. right. exact Hy.
Qed.

(* highest / lowest return the extreme element of the window of number-like readings *)
Theorem highest_is_window_max (cs : list (cd (payload F))) (name : string) (length index : Z) (v : val F) :
  mv_highest F cs name length index = Ok v -> v <> VNone -> v <> VBool false ->
  exists i rs, absindex index (zlen cs) = Some i /\ clean_readings F cs name length i true = Ok rs /\
    In v rs /\ forall y, In y rs -> num_of F y <= num_of F v.
Proof.
  intros H Hn Hf. unfold mv_highest, high_low_est in H.
  destruct (absindex index (zlen cs)) as [i|] eqn:A; [|inversion H; subst; contradiction].
  destruct ((length <? 1)%Z || (zlen cs =? 0)%Z); [inversion H; subst; contradiction|].
  destruct (clean_readings F cs name length i true) as [rs|] eqn:C; cbn [bind] in H; [|discriminate].
  destruct rs as [|r rest]; [inversion H; subst; contradiction|].
  destruct (vmax_fold rest r) as [Hin Hb]. cbn zeta in *.
  exists i, (r :: rest). split; [reflexivity|]. split; [exact C|].
  destruct (fold_left (vmax F) rest r) as [| [|] | x | d] eqn:E; inversion H; subst v; try contradiction; split; assumption.
Qed.
Theorem lowest_is_window_min (cs : list (cd (payload F))) (name : string) (length index : Z) (v : val F) :
  mv_lowest F cs name length index = Ok v -> v <> VNone -> v <> VBool false ->
  exists i rs, absindex index (zlen cs) = Some i /\ clean_readings F cs name length i true = Ok rs /\
    In v rs /\ forall y, In y rs -> num_of F v <= num_of F y.
Proof.
  intros H Hn Hf. unfold mv_lowest, high_low_est in H.
  destruct (absindex index (zlen cs)) as [i|] eqn:A; [|inversion H; subst; contradiction].
  destruct ((length <? 1)%Z || (zlen cs =? 0)%Z); [inversion H; subst; contradiction|].
  destruct (clean_readings F cs name length i true) as [rs|] eqn:C; cbn [bind] in H; [|discriminate].
  destruct rs as [|r rest]; [inversion H; subst; contradiction|].
  destruct (vmin_fold rest r) as [Hin Hb]. cbn zeta in *.
  exists i, (r :: rest). split; [reflexivity|]. split; [exact C|].
  destruct (fold_left (vmin F) rest r) as [| [|] | x | d] eqn:E; inversion H; subst v; try contradiction; split; assumption.
Qed.
