(* Lifespan, clause 2 (C15): dropping the oldest candles does not change the value a leaf
   indicator computes at an index, as long as the candles it looks back at are retained.
   [pre] are the trimmed candles, [suf] the retained ones; index i of the full list is index
   i - |pre| of the retained list. *)
From Coq Require Import ZArith List String Ascii Bool Lia ZifyBool.
From Hexital Require Import Base.Prelude Base.Num Model.Manager Model.Candle Model.Readings Model.Analysis
  Model.Engine Proofs.ListProofs Proofs.EngineProofs Proofs.CausalProofs.
Import ListNotations.
Local Open Scope Z_scope.

Section Trim.
Context (NO : NumOps).
Notation val := (val NO).
Notation cd := (cd (payload NO)).
Notation store := (store NO).
Variables pre suf : store.
Notation k := (zlen pre).
Notation st := (pre ++ suf).

Lemma zlen_st : zlen st = k + zlen suf.
Proof. apply zlen_app. Qed.

Lemma pyidx_skip i : k <= i -> pyidx st i = pyidx suf (i - k).
Proof.
  intros Hi. pose proof (zlen_nonneg pre). pose proof (zlen_nonneg suf). unfold pyidx. rewrite zlen_st.
  assert (E1 : (0 <=? i) = true) by lia. assert (E2 : (0 <=? i - k) = true) by lia. rewrite E1, E2. cbn [andb].
  destruct (i <? k + zlen suf) eqn:B.
  - assert (B' : (i - k <? zlen suf) = true) by lia. rewrite B'.
    rewrite nth_error_app2 by (unfold zlen in *; lia). f_equal. unfold zlen in *. lia.
  - assert (B' : (i - k <? zlen suf) = false) by lia. rewrite B'.
    assert (N1 : (i <? 0) = false) by lia. assert (N2 : (i - k <? 0) = false) by lia. rewrite N1, N2. reflexivity.
Qed.
Lemma reading_skip n i : k <= i -> reading NO st n i = reading NO suf n (i - k).
Proof. intros Hi. unfold reading. rewrite pyidx_skip by exact Hi. reflexivity. Qed.
Lemma rnum_skip n i : k <= i -> rnum NO st n i = rnum NO suf n (i - k).
Proof. intros Hi. unfold rnum. rewrite reading_skip by exact Hi. reflexivity. Qed.
Lemma rbi_skip n i : k <= i -> reading_by_index NO st n i = reading_by_index NO suf n (i - k).
Proof.
  intros Hi. pose proof (zlen_nonneg pre). unfold reading_by_index. rewrite zlen_st.
  assert (V : valid_index i (k + zlen suf) = valid_index (i - k) (zlen suf)) by (unfold valid_index; lia).
  rewrite V. destruct (negb (valid_index (i - k) (zlen suf))); [reflexivity|]. rewrite pyidx_skip by exact Hi. reflexivity.
Qed.
Lemma suf_nonempty i : k <= i < zlen st -> suf <> [].
Proof. intros Hi Hn. rewrite Hn in Hi. rewrite app_nil_r in Hi. lia. Qed.

Lemma prev_reading_skip n i : k + 1 <= i < zlen st -> prev_reading NO st n i = prev_reading NO suf n (i - k).
Proof.
  intros Hi. pose proof (zlen_nonneg pre). pose proof (suf_nonempty i ltac:(lia)) as Hne. unfold prev_reading.
  destruct suf as [|s0 sr] eqn:Es; [congruence|]. rewrite <- Es.
  destruct st as [|x xs] eqn:E0; [destruct pre; subst; discriminate|]. rewrite <- E0.
  assert (N1 : (i =? 0) = false) by lia. assert (N2 : (i - k =? 0) = false) by lia. rewrite N1, N2.
  rewrite reading_skip by lia. f_equal. lia.
Qed.
Lemma prev_exists_skip n i : k + 1 <= i < zlen st -> prev_exists NO st n i = prev_exists NO suf n (i - k).
Proof. intros Hi. unfold prev_exists. rewrite prev_reading_skip by exact Hi. reflexivity. Qed.

Lemma rperiod_skip period n i : 1 <= period -> k <= i - (period - 1) ->
  rperiod NO st period n i = rperiod NO suf period n (i - k).
Proof.
  intros Hp Hi. pose proof (zlen_nonneg pre). unfold rperiod, reading_period. rewrite zlen_st.
  assert (V : valid_index i (k + zlen suf) = valid_index (i - k) (zlen suf)) by (unfold valid_index; lia).
  rewrite V. destruct (valid_index (i - k) (zlen suf)); [|reflexivity].
  assert (B1 : (i - (period - 1) <? 0) = false) by lia. assert (B2 : (i - k - (period - 1) <? 0) = false) by lia. rewrite B1, B2.
  assert (Q : 0 <= Z.quot (period - 1) 2 <= period - 1).
  { split; [apply Z.quot_pos; lia|]. apply Z.quot_le_upper_bound; lia. }
  rewrite !rbi_skip by lia.
  replace (i - (period - 1) - k) with (i - k - (period - 1)) by lia.
  replace (i - Z.quot (period - 1) 2 - k) with (i - k - Z.quot (period - 1) 2) by lia. reflexivity.
Qed.

Lemma pyslice_skip a b : k <= a -> a <= b -> pyslice st a b = pyslice suf (a - k) (b - k).
Proof.
  intros Ha Hb. pose proof (zlen_nonneg pre). pose proof (zlen_nonneg suf). unfold pyslice. rewrite zlen_st. unfold slice_bound.
  assert (E1 : (a <? 0) = false) by lia. assert (E2 : (b <? 0) = false) by lia.
  assert (E3 : (a - k <? 0) = false) by lia. assert (E4 : (b - k <? 0) = false) by lia. rewrite E1, E2, E3, E4.
  destruct (Z.min b (k + zlen suf) <=? Z.min a (k + zlen suf)) eqn:B.
  - assert (B' : (Z.min (b - k) (zlen suf) <=? Z.min (a - k) (zlen suf)) = true) by lia. rewrite B'. reflexivity.
  - assert (B' : (Z.min (b - k) (zlen suf) <=? Z.min (a - k) (zlen suf)) = false) by lia. rewrite B'.
    rewrite skipn_app. rewrite skipn_all2 by (unfold zlen in *; lia). cbn [app].
    f_equal; [lia|]. f_equal. unfold zlen in *. lia.
Qed.

Lemma csum_skip len n i : 2 <= len -> k <= i - (len - 1) -> i < zlen st ->
  csum NO st len n i = csum NO suf len n (i - k).
Proof.
  intros Hl Hi Hlt. pose proof (zlen_nonneg pre). pose proof (zlen_nonneg suf). unfold csum, candles_sum. rewrite zlen_st in *.
  rewrite (absindex_some i (k + zlen suf)) by lia. rewrite (absindex_some (i - k) (zlen suf)) by lia.
  assert (N1 : (i =? 0) = false) by lia. assert (N2 : (i - k =? 0) = false) by lia. rewrite N1, N2.
  assert (L1 : (k + zlen suf <? len) = false) by lia. assert (L2 : (zlen suf <? len) = false) by lia. rewrite L1, L2.
  rewrite pyslice_skip by lia. replace (i + 1 - len - k) with (i - k + 1 - len) by lia. replace (i + 1 - k) with (i - k + 1) by lia.
  reflexivity.
Qed.
End Trim.

Section TrimKinds.
Context (NO : NumOps).
Notation cd := (cd (payload NO)).
Notation store := (store NO).

(* how many candles before index i a class may look at (periods >= 2) *)
Definition lookback (kd : kind NO) : option Z :=
  match kd with
  | K_SMA p _ | K_ROC p _ => Some p
  | K_EMA p _ _ | K_RMA p _ | K_WMA p _ | K_VWMA p => Some (p - 1)
  | K_TR | K_OBV | K_COUNTER _ _ => Some 1
  | K_HLA => Some 0
  | _ => None
  end.
Definition period_ok (kd : kind NO) : Prop :=
  match kd with
  | K_SMA p _ | K_ROC p _ | K_EMA p _ _ | K_RMA p _ | K_WMA p _ | K_VWMA p => 2 <= p
  | _ => True
  end.

Lemma mapM_ext_in {A B} (f g : A -> res B) l : (forall x, In x l -> f x = g x) -> mapM f l = mapM g l.
Proof.
  induction l as [|y l IH]; intros H; cbn [mapM]; [reflexivity|].
  rewrite (H y (or_introl eq_refl)). rewrite IH; [reflexivity|]. intros x Hx. apply H. right. exact Hx.
Qed.
Lemma map_shift (l : list Z) d : forall {B} (g : Z -> res B), mapM (fun j => g (j - d)) l = mapM g (map (fun j => j - d) l).
Proof. intros B g. induction l as [|y l IH]; cbn [mapM map]; [reflexivity|]. rewrite IH. reflexivity. Qed.
Lemma zrange_shift a b d : map (fun j => j - d) (zrange a b) = zrange (a - d) (b - d).
Proof. unfold zrange. rewrite map_map. replace (b - d - (a - d)) with (b - a) by lia. apply map_ext. intros x. lia. Qed.
Lemma zrange_down_shift a b d : map (fun j => j - d) (zrange_down a b) = zrange_down (a - d) (b - d).
Proof. unfold zrange_down. rewrite map_map. replace (a - d - (b - d)) with (a - b) by lia. apply map_ext. intros x. lia. Qed.

Lemma mapM_down_skip (pre suf : store) (input : string) (i period : Z) (g : num NO -> Z -> res (num NO)) :
  zlen pre <= i - (period - 1) ->
  mapM (fun pj : Z * Z => x <- rnum NO (pre ++ suf) input (snd pj) ;; g x (fst pj))
       (combine (map Z.of_nat (seq 0 (List.length (zrange_down i (i - period))))) (zrange_down i (i - period))) =
  mapM (fun pj : Z * Z => x <- rnum NO suf input (snd pj) ;; g x (fst pj))
       (combine (map Z.of_nat (seq 0 (List.length (zrange_down (i - zlen pre) (i - zlen pre - period))))) (zrange_down (i - zlen pre) (i - zlen pre - period))).
Proof.
  intros Hi. replace (i - zlen pre - period) with (i - period - zlen pre) by lia.
  rewrite <- (zrange_down_shift i (i - period) (zlen pre)). rewrite map_length.
  generalize (map Z.of_nat (seq 0 (List.length (zrange_down i (i - period))))) as ws.
  assert (Hall : forall j, In j (zrange_down i (i - period)) -> zlen pre <= j).
  { intros j Hj. unfold zrange_down in Hj. apply in_map_iff in Hj. destruct Hj as (q & <- & Hq). apply in_seq in Hq. lia. }
  revert Hall. generalize (zrange_down i (i - period)) as js. induction js as [|j js IH]; intros Hall ws; destruct ws as [|w ws]; cbn [combine map mapM]; try reflexivity.
  cbn [fst snd]. rewrite (rnum_skip NO pre suf) by (apply Hall; left; reflexivity).
  rewrite IH by (intros q Hq; apply Hall; right; exact Hq). reflexivity.
Qed.
Lemma mapM_up2_skip (pre suf : store) (i period : Z) : zlen pre <= i - (period - 1) ->
  mapM (fun j => c <- rnum NO (pre ++ suf) "close" j ;; v <- rnum NO (pre ++ suf) "volume" j ;; Ok (nmul NO c v)) (zrange (i - (period - 1)) (i + 1)) =
  mapM (fun j => c <- rnum NO suf "close" j ;; v <- rnum NO suf "volume" j ;; Ok (nmul NO c v)) (zrange (i - zlen pre - (period - 1)) (i - zlen pre + 1)).
Proof.
  intros Hi. replace (i - zlen pre - (period - 1)) with (i - (period - 1) - zlen pre) by lia. replace (i - zlen pre + 1) with (i + 1 - zlen pre) by lia.
  rewrite <- (zrange_shift (i - (period - 1)) (i + 1) (zlen pre)).
  assert (Hall : forall j, In j (zrange (i - (period - 1)) (i + 1)) -> zlen pre <= j).
  { intros j Hj. unfold zrange in Hj. apply in_map_iff in Hj. destruct Hj as (q & <- & Hq). lia. }
  revert Hall. generalize (zrange (i - (period - 1)) (i + 1)) as js. induction js as [|j js IH]; intros Hall; cbn [map mapM]; [reflexivity|].
  rewrite !(rnum_skip NO pre suf) by (apply Hall; left; reflexivity).
  rewrite IH by (intros q Hq; apply Hall; right; exact Hq). reflexivity.
Qed.

Ltac fin :=
  repeat match goal with
  | |- context [bind (rnum NO ?s ?n ?i) _] => destruct (rnum NO s n i); cbn [bind]
  | |- context [bind (as_num NO ?v) _] => destruct (as_num NO v); cbn [bind]
  | |- context [bind (divn NO ?a ?b) _] => destruct (divn NO a b); cbn [bind]
  | |- context [bind (reading NO ?s ?n ?i) _] => destruct (reading NO s n i); cbn [bind]
  | |- context [bind (prev_reading NO ?s ?n ?i) _] => destruct (prev_reading NO s n i); cbn [bind]
  | |- context [bind (prev_exists NO ?s ?n ?i) _] => destruct (prev_exists NO s n i) as [[|]|]; cbn [bind]
  | |- context [bind (rperiod NO ?s ?p ?n ?i) _] => destruct (rperiod NO s p n i) as [[|]|]; cbn [bind]
  | |- context [bind (csum NO ?s ?p ?n ?i) _] => destruct (csum NO s p n i); cbn [bind]
  | |- context [bind (mapM ?f ?l) _] => destruct (mapM f l); cbn [bind]
  | |- context [if ?b then _ else _] => destruct b
  end; try reflexivity.

Theorem trim_invariant (I : ind NO) (pre suf : store) (i W : Z) :
  lookback (i_kind NO I) = Some W -> period_ok (i_kind NO I) ->
  zlen pre + W <= i < zlen (pre ++ suf) ->
  pure_calc NO I (pre ++ suf) i = pure_calc NO I suf (i - zlen pre).
Proof.
  intros HW Hp Hi. pose proof (zlen_nonneg pre) as Hk. unfold pure_calc, calc_reading.
  destruct (i_kind NO I) eqn:K; cbn [lookback period_ok] in HW, Hp; inversion HW; subst W; clear HW.
  all: try rewrite (prev_exists_skip NO pre suf) by lia.
  all: try rewrite !(prev_reading_skip NO pre suf) by lia.
  all: try rewrite !(reading_skip NO pre suf) by lia.
  - (* SMA *)
    rewrite !(rnum_skip NO pre suf) by lia. rewrite (rperiod_skip NO pre suf) by lia. rewrite (csum_skip NO pre suf) by lia.
    replace (i - period - zlen pre) with (i - zlen pre - period) by lia. fin.
  - (* EMA *)
    rewrite !(rnum_skip NO pre suf) by lia. rewrite (rperiod_skip NO pre suf) by lia. rewrite (csum_skip NO pre suf) by lia. fin.
  - (* RMA *)
    rewrite !(rnum_skip NO pre suf) by lia. rewrite (rperiod_skip NO pre suf) by lia.
    destruct (divn NO _ _) as [a0|]; cbn [bind]; [|reflexivity].
    rewrite (mapM_down_skip pre suf input i period (fun x w => Ok (nmul NO (npow NO (nsub NO (zn NO 1) (nfloat NO a0)) w) x))) by lia.
    assert (EL : List.length (zrange_down i (i - period)) = List.length (zrange_down (i - zlen pre) (i - zlen pre - period)))
      by (unfold zrange_down; rewrite !map_length, !seq_length; f_equal; lia).
    rewrite EL. fin.
  - (* WMA *)
    rewrite (rperiod_skip NO pre suf) by lia.
    rewrite (mapM_down_skip pre suf input i period (fun x w => Ok (nmul NO x (zn NO (period - w))))) by lia. fin.
  - (* VWMA *)
    rewrite (rperiod_skip NO pre suf) by lia. rewrite !(csum_skip NO pre suf) by lia.
    rewrite (mapM_up2_skip pre suf i period) by lia.
    destruct (prev_exists NO suf _ _) as [[|]|]; cbn [bind]; try reflexivity.
    + destruct (mapM _ _); cbn [bind]; [|reflexivity]. destruct (csum NO suf period "volume" _); cbn [bind]; [|reflexivity].
      destruct (py_eq NO _ _); fin.
    + destruct (rperiod NO suf _ _ _) as [[|]|]; cbn [bind]; try reflexivity.
      destruct (mapM _ _); cbn [bind]; [|reflexivity]. destruct (csum NO suf period "volume" _); cbn [bind]; [|reflexivity].
      destruct (py_eq NO _ _); fin.
  - (* TR *) rewrite (rperiod_skip NO pre suf) by lia. fin.
  - (* HLA *) rewrite !(rnum_skip NO pre suf) by lia. fin.
  - (* COUNTER *) fin. all: destruct (py_eq NO _ _); fin.
  - (* ROC *)
    rewrite !(rnum_skip NO pre suf) by lia. rewrite (rperiod_skip NO pre suf) by lia.
    replace (i - period - zlen pre) with (i - zlen pre - period) by lia. fin.
  - (* OBV *) rewrite !(rnum_skip NO pre suf) by lia. fin. all: destruct (neqb NO _ _); fin.
Qed.
End TrimKinds.
