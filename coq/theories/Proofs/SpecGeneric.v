(* Proofs about the recurrence specifications that hold for every NumOps instance:
   position independence, bounded state (constant work per candle), OBV's step law. *)
From Coq Require Import ZArith List String Bool Lia.
From Hexital Require Import Base.Prelude Base.Num Model.Candle Spec.Steppers.
Import ListNotations.
Local Open Scope Z_scope.

Section SpecGeneric.
Context (NO : NumOps).
Notation inp := (inp NO).
Notation state := (state NO).

Definition takes_input (k : kind_s NO) : bool :=
  match k with S_SMA _ | S_EMA _ _ | S_RMA _ | S_WMA _ | S_RSI _ | S_ROC _ => true | _ => false end.

(* candles on which the input series has not begun yet are skipped without a trace *)
Lemma step_no_input k nd (c : inp) : takes_input k = true -> x_in NO c = None ->
  step NO k nd (init NO) c = Ok (VNone, init NO).
Proof. intros Hk Hc. destruct k; try discriminate; cbn [step]; rewrite Hc; reflexivity. Qed.

Theorem position_independent k nd : takes_input k = true ->
  forall (pre cs : list inp), Forall (fun c => x_in NO c = None) pre ->
  series NO k nd (pre ++ cs) =
  (vs <- series NO k nd cs ;; Ok (map (fun _ => VNone) pre ++ vs)).
Proof.
  intros Hk pre cs Hpre. unfold series. induction Hpre as [|c pre Hc Hpre IH]; cbn [app map].
  - destruct (series_from NO k nd (init NO) cs); reflexivity.
  - cbn [series_from]. rewrite (step_no_input k nd c Hk Hc). cbn [bind]. rewrite IH.
    destruct (series_from NO k nd (init NO) cs); reflexivity.
Qed.

(* the state stays bounded: the buffer never holds more than the stepper's window *)
Lemma push_length w x (buf : list (num NO)) : 0 <= w -> Z.of_nat (List.length (push NO w x buf)) <= w.
Proof. intros Hw. unfold push. rewrite firstn_length. lia. Qed.

Ltac inv_step H :=
  repeat match type of H with
  | bind ?m _ = Ok _ => let E := fresh "E" in destruct m eqn:E; cbn [bind] in H; [|discriminate H]
  | (if ?b then _ else _) = Ok _ => let B := fresh "B" in destruct b eqn:B
  | match ?x with _ => _ end = Ok _ => let X := fresh "X" in destruct x eqn:X
  | Err _ = Ok _ => discriminate H
  end.

Theorem state_bounded k nd (s s' : state) (c : inp) v : 0 <= window_of NO k ->
  Z.of_nat (List.length (s_buf NO s)) <= window_of NO k ->
  step NO k nd s c = Ok (v, s') ->
  Z.of_nat (List.length (s_buf NO s')) <= window_of NO k.
Proof.
  intros Hw Hs H.
  destruct k; cbn [step window_of] in *;
    unfold sma_step, ema_step, rma_step, wma_step, rsi_step, roc_step, tr_step, atr_step, hla_step, obv_step, vwap_step in H;
    inv_step H; inversion H; subst; cbn [s_buf List.length]; try lia; try (apply push_length; lia); try assumption.
Qed.

(* OBV moves by 0 or by the candle's volume *)
Theorem obv_step_law nd (s s' : state) (c : inp) pr pc v :
  s_prev NO s = Some pr -> s_a NO s = Some pc ->
  step NO (S_OBV) nd s c = Ok (v, s') ->
  (neqb NO (x_c NO c) pc = true /\ v = VNum pr) \/
  (neqb NO (x_c NO c) pc = false /\ nltb NO pc (x_c NO c) = true /\ v = VNum (rnd NO nd (nadd NO pr (x_v NO c)))) \/
  (neqb NO (x_c NO c) pc = false /\ nltb NO pc (x_c NO c) = false /\ v = VNum (rnd NO nd (nsub NO pr (x_v NO c)))).
Proof.
  intros Hp Ha H. cbn [step] in H. unfold obv_step in H. rewrite Hp, Ha in H.
  destruct (neqb NO (x_c NO c) pc) eqn:E1; [left|right; destruct (nltb NO pc (x_c NO c)) eqn:E2; [left|right]];
    inversion H; subst; repeat split; reflexivity.
Qed.

End SpecGeneric.
