(* Candle geometry and predicate meaning over the reals (C17). *)
From Coq Require Import ZArith List String Bool Reals Lra.
From Hexital Require Import Base.Prelude Base.Num Model.Manager Model.Candle Model.Readings Model.Analysis
  Inst.RealInst.
Import ListNotations.
Local Open Scope R_scope.

Notation RO := ROps.

Definition wf_candle (x : ohlcv RO) : Prop :=
  c_low RO x <= c_open RO x <= c_high RO x /\ c_low RO x <= c_close RO x <= c_high RO x.

Theorem geometry (x : ohlcv RO) : wf_candle x ->
  c_realbody RO x = Rabs (c_open RO x - c_close RO x) /\
  c_shadow_upper RO x = c_high RO x - Rmax (c_open RO x) (c_close RO x) /\
  c_shadow_lower RO x = Rmin (c_open RO x) (c_close RO x) - c_low RO x /\
  c_high_low RO x = c_high RO x - c_low RO x /\
  (c_positive RO x = true <-> c_open RO x < c_close RO x) /\
  (c_negative RO x = true <-> c_close RO x < c_open RO x).
Proof.
  intros [[H1 H2] [H3 H4]].
  unfold c_realbody, c_shadow_upper, c_shadow_lower, c_high_low, c_positive, c_negative.
  cbn [nabs nsub nltb RO]. repeat split.
  - unfold Rltb. destruct (Rlt_dec (c_open RO x) (c_close RO x)) as [L|L].
    + rewrite Rmax_right by lra. rewrite Rabs_right by lra. reflexivity.
    + rewrite Rmax_left by lra. rewrite Rabs_right by lra. reflexivity.
  - unfold Rltb. destruct (Rlt_dec (c_open RO x) (c_close RO x)) as [L|L].
    + rewrite Rmin_left by lra. rewrite Rabs_left1 by lra. lra.
    + rewrite Rmin_right by lra. rewrite Rabs_left1 by lra. lra.
  - rewrite Rabs_right by lra. reflexivity.
  - apply Rltb_true.
  - apply Rltb_true.
  - apply Rltb_true.
  - apply Rltb_true.
Qed.

(* scaling all prices by k > 0 scales every length and keeps every comparison; shifting
   by d keeps every length *)
Definition scale (k : R) (x : ohlcv RO) : ohlcv RO :=
  Build_ohlcv RO (k * c_open RO x) (k * c_high RO x) (k * c_low RO x) (k * c_close RO x) (c_vol RO x).
Definition shift (d : R) (x : ohlcv RO) : ohlcv RO :=
  Build_ohlcv RO (c_open RO x + d) (c_high RO x + d) (c_low RO x + d) (c_close RO x + d) (c_vol RO x).

Lemma Rltb_scale k a b : 0 < k -> Rltb (k * a) (k * b) = Rltb a b.
Proof.
  intros Hk. unfold Rltb. destruct (Rlt_dec a b), (Rlt_dec (k * a) (k * b)); try reflexivity; exfalso.
  - apply n. apply Rmult_lt_compat_l; assumption.
  - apply n. apply (Rmult_lt_reg_l k); assumption.
Qed.
Lemma Rltb_shift d a b : Rltb (a + d) (b + d) = Rltb a b.
Proof. unfold Rltb. destruct (Rlt_dec a b), (Rlt_dec (a + d) (b + d)); try reflexivity; exfalso; lra. Qed.

Theorem geometry_scale (k : R) (x : ohlcv RO) : 0 < k ->
  c_realbody RO (scale k x) = k * c_realbody RO x /\
  c_shadow_upper RO (scale k x) = k * c_shadow_upper RO x /\
  c_shadow_lower RO (scale k x) = k * c_shadow_lower RO x /\
  c_high_low RO (scale k x) = k * c_high_low RO x /\
  c_positive RO (scale k x) = c_positive RO x /\ c_negative RO (scale k x) = c_negative RO x.
Proof.
  intros Hk. unfold c_realbody, c_shadow_upper, c_shadow_lower, c_high_low, c_positive, c_negative, scale.
  cbn [c_open c_high c_low c_close nabs nsub nltb RO]. rewrite !Rltb_scale by assumption.
  assert (A : forall a b, Rabs (k * a - k * b) = k * Rabs (a - b)).
  { intros a b. rewrite <- Rmult_minus_distr_l, Rabs_mult, (Rabs_right k) by lra. reflexivity. }
  repeat split; try apply A; destruct (Rltb (c_open RO x) (c_close RO x)); apply A.
Qed.

Theorem geometry_shift (d : R) (x : ohlcv RO) :
  c_realbody RO (shift d x) = c_realbody RO x /\
  c_shadow_upper RO (shift d x) = c_shadow_upper RO x /\
  c_shadow_lower RO (shift d x) = c_shadow_lower RO x /\
  c_high_low RO (shift d x) = c_high_low RO x /\
  c_positive RO (shift d x) = c_positive RO x /\ c_negative RO (shift d x) = c_negative RO x.
Proof.
  unfold c_realbody, c_shadow_upper, c_shadow_lower, c_high_low, c_positive, c_negative, shift.
  cbn [c_open c_high c_low c_close nabs nsub nltb RO]. rewrite !Rltb_shift.
  assert (A : forall a b, Rabs (a + d - (b + d)) = Rabs (a - b)) by (intros a b; f_equal; lra).
  repeat split; try apply A; destruct (Rltb (c_open RO x) (c_close RO x)); apply A.
Qed.
