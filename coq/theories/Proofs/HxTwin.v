(* End to end for a member without helper series (C08, C13): inside a Hexital - whatever other
   members are registered, on whatever timeframes, added or removed or recomputed at any time -
   the member B holds on its manager, candle by candle, the timestamps, values and readings of
   a standalone twin that is given the same candles (through a manager with the same settings)
   and the same calculate() calls. *)
From Coq Require Import ZArith List String Ascii Bool Lia.
From Hexital Require Import Base.Prelude Base.Num Model.Manager Model.Candle Model.Readings Model.Analysis
  Model.Engine Model.Hexital Proofs.ListProofs Proofs.FrameProofs Proofs.AnalysisProofs Proofs.CausalProofs
  Proofs.SimProofs Proofs.NonInterference Proofs.DeliverProofs Proofs.ParamProofs Proofs.HxSimProofs Proofs.SeedProofs
  Proofs.NonInterferenceTF.
Import ListNotations.
Local Open Scope string_scope.
Local Open Scope Z_scope.

Section HxTwin.
Context (NO : NumOps).
Notation payload := (payload NO).
Notation cd := (cd payload).
Notation store := (store NO).
Notation hexital := (hexital NO).
Notation member := (member NO).
Variable B : ind NO.
Hypothesis Hleaf : i_subs NO B = [] /\ i_managed NO B = [].
Hypothesis Htop : i_sub NO B = false.
Hypothesis Hk : leaf_kind NO (i_kind NO B) = true.
Hypothesis Hnodot : has_dot (i_name NO B) = false.
Variable others : list (bool * string).
Hypothesis Hforeign : foreign NO B others.
Variable key : string.          (* the manager B is attached to *)
Variable cfg : mcfg.            (* ... and its settings *)
Notation nmB := (i_name NO B).
Notation PairedM := (PairedM NO B others).

(* any other member: another name, a well-formed tree whose entries are all among [others] *)
Definition other_ok (m : member) : Prop :=
  i_name NO (m_ind NO m) <> nmB /\ wf_tree NO FUEL (m_ind NO m) /\ incl (tree_names NO FUEL (m_ind NO m)) others.
Definition mB : member := {| m_ind := B; m_mgr := key |}.

(* frame conditions of the member operations, for any well-formed tree *)
Lemma calculate_frame_wf (J : ind NO) st st' : wf_tree NO FUEL J -> calculate NO J st = Ok st' -> frame NO (tree_names NO FUEL J) st st'.
Proof.
  intros Hwf. unfold calculate. destruct (run NO FUEL (RCalculate NO) J st) as [[v x]|] eqn:E; cbn [bind]; [|discriminate].
  intros H. inversion H; subst. eapply run_frame; [exact Hwf|exact E].
Qed.
Lemma calculate_index_frame_wf (J : ind NO) s e st st' : wf_tree NO FUEL J -> calculate_index NO J s e st = Ok st' -> frame NO (tree_names NO FUEL J) st st'.
Proof.
  intros Hwf. unfold calculate_index. destruct (run NO FUEL (RCalcIndex NO s e) J st) as [[v x]|] eqn:E; cbn [bind]; [|discriminate].
  intros H. inversion H; subst. eapply run_frame; [exact Hwf|exact E].
Qed.

(* a member operation that satisfies the frame condition, run on a list of other members *)
Definition framed (f : ind NO -> store -> res store) : Prop :=
  forall J st st', wf_tree NO FUEL J -> f J st = Ok st' -> frame NO (tree_names NO FUEL J) st st'.

Notation step_fn f name := (fun (h' : hexital) (m : member) =>
           if sel NO name m then
             '(c, st) <- get_mgr NO h' (m_mgr NO m) ;;
             st' <- f (m_ind NO m) st ;;
             Ok {| h_mgrs := alist_set (m_mgr NO m) (c, st') (h_mgrs NO h'); h_members := h_members NO h' |}
           else Ok h').

Lemma fold_others f name (ms : list member) (h h' : hexital) s1 :
  framed f -> Forall other_ok ms -> foldM (step_fn f name) ms h = Ok h' ->
  alist_get key (h_mgrs NO h) = Some (cfg, s1) ->
  exists s1', alist_get key (h_mgrs NO h') = Some (cfg, s1') /\ frame NO others s1 s1' /\ h_members NO h' = h_members NO h.
Proof.
  intros Hf Hms H G.
  apply (on_members_rel NO (frame NO others) f name) in H.
  - destruct H as [HR HM]. pose proof (alist_get_rel NO (frame NO others) key _ _ HR) as HK. rewrite G in HK.
    destruct (alist_get key (h_mgrs NO h')) as [[c' s1']|]; [|contradiction]. destruct HK as [-> HK]. exists s1'. auto.
  - intros s. apply frame_refl.
  - intros x y z. apply frame_trans.
  - intros m st st' Hin Hm. rewrite Forall_forall in Hms. destruct (Hms m Hin) as (_ & Hwf & Hincl).
    eapply frame_mono; [exact Hincl|]. apply Hf; assumption.
Qed.


(* ---- the twin and the invariant ---- *)
Definition selB (name : option string) : bool := match name with None => true | Some n => String.eqb n nmB end.
Lemma sel_mB name : sel NO name mB = selB name.
Proof. destruct name; reflexivity. Qed.

Definition twin_step (st2 : store) (op : hop NO) : res store :=
  match op with
  | HAppend _ new => st' <- mgr_append NO cfg st2 new ;; calculate NO B st'
  | HCalculate _ name => if selB name then calculate NO B st2 else Ok st2
  | _ => Ok st2
  end.

(* operations aimed at B itself other than calculate() are not part of the statement: the
   twin would have to mirror them; everything may be done to the other members *)
Definition op_allowed (op : hop NO) : Prop :=
  match op with
  | HAppend _ _ | HCalculate _ _ => True
  | HPurge _ name | HRecalculate _ name | HCalcIndex _ name _ => selB name = false
  | HRemove _ n => String.eqb n nmB = false
  | HAdd _ J own => other_ok {| m_ind := J; m_mgr := key |}
  end.

Definition Inv (h : hexital) (st2 : store) : Prop :=
  (exists pre post, h_members NO h = (pre ++ mB :: post)%list /\ Forall other_ok pre /\ Forall other_ok post) /\
  (exists s1, alist_get key (h_mgrs NO h) = Some (cfg, s1) /\ PairedM s1 st2).

Lemma paired_other s1 s1' st2 : PairedM s1 st2 -> frame NO others s1 s1' -> PairedM s1' st2.
Proof. intros HP HF. eapply PM_other; eassumption. Qed.

(* a framed operation run over the members when B is not selected *)
Lemma fold_notB f name (pre post : list member) (h h' : hexital) s1 st2 :
  framed f -> selB name = false -> Forall other_ok pre -> Forall other_ok post ->
  foldM (step_fn f name) (pre ++ mB :: post) h = Ok h' ->
  alist_get key (h_mgrs NO h) = Some (cfg, s1) -> PairedM s1 st2 ->
  (exists s1', alist_get key (h_mgrs NO h') = Some (cfg, s1') /\ PairedM s1' st2) /\ h_members NO h' = h_members NO h.
Proof.
  intros Hf Hs Hpre Hpost H G HP. rewrite foldM_app in H.
  destruct (foldM (step_fn f name) pre h) as [h1|] eqn:E1; cbn [bind] in H; [|discriminate].
  destruct (fold_others f name pre h h1 s1 Hf Hpre E1 G) as (s1a & Ga & Fa & Ma).
  cbn [foldM] in H. rewrite sel_mB, Hs in H. cbn [bind] in H.
  destruct (fold_others f name post h1 h' s1a Hf Hpost H Ga) as (s1b & Gb & Fb & Mb).
  split; [exists s1b; split; [exact Gb|]|congruence].
  eapply paired_other; [|exact Fb]. eapply paired_other; [exact HP|exact Fa].
Qed.

Lemma alist_get_set_same' {A} k (v : A) l : alist_get k (alist_set k v l) = Some v.
Proof. induction l as [|[k' v'] l IH]; cbn [alist_set alist_get]; [rewrite String.eqb_refl; reflexivity|].
  destruct (String.eqb k k') eqn:E; cbn [alist_get]; [rewrite String.eqb_refl; reflexivity|rewrite E; exact IH]. Qed.

(* calculate() run over the members *)
Lemma fold_calculate name (pre post : list member) (h h' : hexital) s1 st2 :
  Forall other_ok pre -> Forall other_ok post ->
  foldM (step_fn (calculate NO) name) (pre ++ mB :: post) h = Ok h' ->
  alist_get key (h_mgrs NO h) = Some (cfg, s1) -> PairedM s1 st2 ->
  exists st2', (if selB name then calculate NO B st2 else Ok st2) = Ok st2' /\
    (exists s1', alist_get key (h_mgrs NO h') = Some (cfg, s1') /\ PairedM s1' st2') /\ h_members NO h' = h_members NO h.
Proof.
  intros Hpre Hpost H G HP.
  assert (Hf : framed (calculate NO)) by (intros J st st' Hwf Hc; apply calculate_frame_wf; assumption).
  destruct (selB name) eqn:Hs.
  2:{ exists st2. split; [reflexivity|]. exact (fold_notB (calculate NO) name pre post h h' s1 st2 Hf Hs Hpre Hpost H G HP). }
  rewrite foldM_app in H.
  destruct (foldM (step_fn (calculate NO) name) pre h) as [h1|] eqn:E1; cbn [bind] in H; [|discriminate].
  destruct (fold_others (calculate NO) name pre h h1 s1 Hf Hpre E1 G) as (s1a & Ga & Fa & Ma).
  cbn [foldM] in H. rewrite sel_mB, Hs in H. unfold get_mgr in H. cbn [mB m_mgr m_ind] in H. rewrite Ga in H. cbn [of_opt bind] in H.
  destruct (calculate NO B s1a) as [r1|] eqn:EB; cbn [bind] in H; [|discriminate].
  pose proof (paired_other _ _ _ HP Fa) as HPa.
  (* the twin calculates alike *)
  pose proof (calculate_agree NO B Hleaf Htop Hk s1a st2 (BL_agree NO B _ _ (pairedM_rel NO B Hleaf Htop Hk Hnodot others Hforeign _ _ HPa))) as HR.
  rewrite EB in HR. destruct (calculate NO B st2) as [r2|] eqn:E2; cbn [Rres] in HR; [|contradiction].
  exists r2. split; [reflexivity|].
  set (h2 := {| h_mgrs := alist_set key (cfg, r1) (h_mgrs NO h1); h_members := h_members NO h1 |}) in *.
  assert (G2 : alist_get key (h_mgrs NO h2) = Some (cfg, r1)) by (cbn [h2 h_mgrs]; apply alist_get_set_same').
  destruct (fold_others (calculate NO) name post h2 h' r1 Hf Hpost H G2) as (s1b & Gb & Fb & Mb).
  split; [exists s1b; split; [exact Gb|]|cbn [h2 h_members] in Mb; congruence].
  eapply paired_other; [|exact Fb]. eapply PM_B; eassumption.
Qed.


Lemma m_append_key (new : list cd) : forall (M M' : list (string * (mcfg * store))) s1,
  mapM (fun kv : string * (mcfg * store) =>
          let '(k, (c, st)) := kv in st' <- mgr_append NO c st new ;; Ok (k, (c, st'))) M = Ok M' ->
  alist_get key M = Some (cfg, s1) ->
  exists s1a, mgr_append NO cfg s1 new = Ok s1a /\ alist_get key M' = Some (cfg, s1a).
Proof.
  induction M as [|[k [c s]] M IH]; intros M' s1 H G; cbn [mapM alist_get] in *; [discriminate|].
  destruct (mgr_append NO c s new) as [sa|] eqn:E; cbn [bind] in H; [|discriminate].
  destruct (mapM _ M) as [M1|] eqn:EM; cbn [bind] in H; [|discriminate].
  inversion H; subst. cbn [alist_get]. destruct (String.eqb key k).
  - inversion G; subst. exists sa. auto.
  - eapply IH; [reflexivity|exact G].
Qed.

Lemma other_ok_mgr J k1 k2 : other_ok {| m_ind := J; m_mgr := k1 |} -> other_ok {| m_ind := J; m_mgr := k2 |}.
Proof. intros H. exact H. Qed.

Lemma filter_others n (l : list member) : Forall other_ok l ->
  Forall other_ok (filter (fun m => negb (String.eqb n (i_name NO (m_ind NO m)))) l).
Proof. intros H. rewrite Forall_forall in *. intros m Hm. apply filter_In in Hm. apply H. apply Hm. Qed.

Theorem hx_twin_step (hcfg : mcfg) (h h' : hexital) (st2 : store) (op : hop NO) :
  Inv h st2 -> op_allowed op -> hx_step NO hcfg h op = Ok h' ->
  exists st2', twin_step st2 op = Ok st2' /\ Inv h' st2'.
Proof.
  intros [(pre & post & EM & Hpre & Hpost) (s1 & G & HP)] Hop H.
  assert (Hpurge : framed (fun J st => Ok (purge NO J st))).
  { intros J st st' _ Hq. inversion Hq; subst. apply purge_frame. }
  assert (Hcalc : framed (calculate NO)) by (intros J st st' Hwf Hc; apply calculate_frame_wf; assumption).
  destruct op as [new|name|name|name|name index|n|J own]; cbn [hx_step op_allowed twin_step] in *.
  - (* append *)
    unfold hx_append in H.
    match type of H with bind ?m _ = _ => destruct m as [mgrs|] eqn:EMg; cbn [bind] in H; [|discriminate] end.
    destruct (m_append_key new _ _ s1 EMg G) as (s1a & Ea & Ga).
    pose proof (mgr_append_rel NO (RPB NO B) (RPB_data NO B) (RPB_refl NO B) cfg s1 st2 new
                  (pairedM_rel NO B Hleaf Htop Hk Hnodot others Hforeign _ _ HP)) as HR.
    rewrite Ea in HR. destruct (mgr_append NO cfg st2 new) as [st2a|] eqn:E2; cbn [RR] in HR; [|contradiction]. cbn [bind].
    assert (HPa : PairedM s1a st2a) by (eapply PM_append; eassumption).
    unfold hx_calculate, hx_on_members in H. cbn [h_members h_mgrs] in H. rewrite EM in H.
    destruct (fold_calculate None pre post _ h' s1a st2a Hpre Hpost H Ga HPa) as (st2' & Et & (s1' & G' & HP') & HM).
    cbn [selB] in Et. exists st2'. split; [exact Et|]. split; [|exists s1'; auto].
    exists pre, post. cbn [h_members] in HM. rewrite HM. auto.
  - (* calculate *)
    unfold hx_on_members in H. rewrite EM in H.
    destruct (fold_calculate name pre post h h' s1 st2 Hpre Hpost H G HP) as (st2' & Et & (s1' & G' & HP') & HM).
    exists st2'. split; [exact Et|]. split; [|exists s1'; auto]. exists pre, post. rewrite HM. auto.
  - (* purge *)
    unfold hx_purge, hx_on_members in H. rewrite EM in H.
    destruct (fold_notB (fun J st => Ok (purge NO J st)) name pre post h h' s1 st2 Hpurge Hop Hpre Hpost H G HP) as [(s1' & G' & HP') HM].
    exists st2. split; [reflexivity|]. split; [|exists s1'; auto]. exists pre, post. rewrite HM. auto.
  - (* recalculate *)
    destruct (hx_purge NO name h) as [h1|] eqn:E1; cbn [bind] in H; [|discriminate].
    unfold hx_purge, hx_on_members in E1. rewrite EM in E1.
    destruct (fold_notB (fun J st => Ok (purge NO J st)) name pre post h h1 s1 st2 Hpurge Hop Hpre Hpost E1 G HP) as [(s1a & Ga & HPa) HMa].
    unfold hx_on_members in H. rewrite HMa, EM in H.
    destruct (fold_notB (calculate NO) name pre post h1 h' s1a st2 Hcalc Hop Hpre Hpost H Ga HPa) as [(s1' & G' & HP') HM].
    exists st2. split; [reflexivity|]. split; [|exists s1'; auto]. exists pre, post. rewrite HM, HMa. auto.
  - (* calculate_index *)
    unfold hx_on_members in H. rewrite EM in H.
    assert (Hci : framed (fun J st => calculate_index NO J index None st)) by (intros J st st' Hwf Hc; eapply calculate_index_frame_wf; eassumption).
    destruct (fold_notB (fun J st => calculate_index NO J index None st) name pre post h h' s1 st2 Hci Hop Hpre Hpost H G HP) as [(s1' & G' & HP') HM].
    exists st2. split; [reflexivity|]. split; [|exists s1'; auto]. exists pre, post. rewrite HM. auto.
  - (* remove_indicator of another member *)
    destruct (hx_purge NO (Some n) h) as [h1|] eqn:E1; cbn [bind] in H; [|discriminate].
    unfold hx_purge, hx_on_members in E1. rewrite EM in E1.
    destruct (fold_notB (fun J st => Ok (purge NO J st)) (Some n) pre post h h1 s1 st2 Hpurge Hop Hpre Hpost E1 G HP) as [(s1a & Ga & HPa) HMa].
    inversion H; subst. cbn [h_mgrs h_members]. exists st2. split; [reflexivity|]. split; [|exists s1a; auto].
    rewrite HMa, EM, filter_app. cbn [filter mB m_ind]. rewrite Hop. cbn [negb].
    eexists _, _. split; [reflexivity|]. split; apply filter_others; assumption.
  - (* add_indicator of another member *)
    exists st2. split; [reflexivity|]. unfold hx_attach in H.
    assert (Hnew : forall k', other_ok {| m_ind := J; m_mgr := k' |}) by (intros k'; exact Hop).
    destruct own as [[key' tfs]|].
    + destruct (alist_get key' (h_mgrs NO h)) as [x|] eqn:Gk.
      * inversion H; subst. cbn [h_mgrs h_members]. split; [|exists s1; auto].
        exists pre, (post ++ [{| m_ind := J; m_mgr := key' |}])%list. rewrite EM, <- app_assoc. cbn [app].
        split; [reflexivity|]. split; [exact Hpre|apply Forall_app; split; [exact Hpost|constructor; [apply Hnew|constructor]]].
      * unfold get_mgr in H. destruct (alist_get "default" (h_mgrs NO h)) as [[dc ds]|]; cbn [of_opt bind] in H; [|discriminate].
        destruct (tasks NO _ _) as [stn|]; cbn [bind] in H; [|discriminate]. inversion H; subst. cbn [h_mgrs h_members].
        split; [|exists s1; split; [apply alist_get_app_some; exact G|exact HP]].
        exists pre, (post ++ [{| m_ind := J; m_mgr := key' |}])%list. rewrite EM, <- app_assoc. cbn [app].
        split; [reflexivity|]. split; [exact Hpre|apply Forall_app; split; [exact Hpost|constructor; [apply Hnew|constructor]]].
    + inversion H; subst. cbn [h_mgrs h_members]. split; [|exists s1; auto].
      exists pre, (post ++ [{| m_ind := J; m_mgr := "default" |}])%list. rewrite EM, <- app_assoc. cbn [app].
      split; [reflexivity|]. split; [exact Hpre|apply Forall_app; split; [exact Hpost|constructor; [apply Hnew|constructor]]].
Qed.


(* any program *)
Theorem hx_twin_program (hcfg : mcfg) : forall (ops : list (hop NO)) (h h' : hexital) (st2 : store),
  Inv h st2 -> Forall op_allowed ops -> foldM (hx_step NO hcfg) ops h = Ok h' ->
  exists st2', foldM twin_step ops st2 = Ok st2' /\ Inv h' st2'.
Proof.
  induction ops as [|op ops IH]; intros h h' st2 HI Hops H; cbn [foldM] in *.
  - inversion H; subst. exists st2. auto.
  - destruct (hx_step NO hcfg h op) as [h1|] eqn:E; cbn [bind] in H; [|discriminate].
    inversion Hops as [|? ? Hop Hops']; subst.
    destruct (hx_twin_step hcfg h h1 st2 op HI Hop E) as (st2a & Et & HIa). rewrite Et. cbn [bind].
    eapply IH; eassumption.
Qed.

(* a manager freshly built over some candles, on both sides *)
Lemma paired_start (xs : list cd) (s : store) : mgr_append NO cfg [] xs = Ok s -> PairedM s s.
Proof. intros H. eapply PM_append; [apply PM_init|exact H|exact H]. Qed.

(* the statement: B's candles and entries are the twin's *)
Theorem member_equals_twin (hcfg : mcfg) (ops : list (hop NO)) (h h' : hexital) (st2 : store) :
  Inv h st2 -> Forall op_allowed ops -> foldM (hx_step NO hcfg) ops h = Ok h' ->
  exists s1' st2', alist_get key (h_mgrs NO h') = Some (cfg, s1') /\ foldM twin_step ops st2 = Ok st2' /\
    map (fun c => (t c, cur NO (p c), alist_get nmB (inds NO (p c)))) s1' =
    map (fun c => (t c, cur NO (p c), alist_get nmB (inds NO (p c)))) st2'.
Proof.
  intros HI Hops H. destruct (hx_twin_program hcfg ops h h' st2 HI Hops H) as (st2' & Et & [_ (s1' & G' & HP')]).
  exists s1', st2'. split; [exact G'|]. split; [exact Et|].
  apply (noninterference_on_any_manager NO B Hleaf Htop Hk Hnodot others Hforeign s1' st2' HP').
Qed.

End HxTwin.

(* two Hexitals - different other members, different programs - that give B the same candles and
   the same calculate() calls leave B with the same candles and readings *)
Theorem member_agrees_across_hexitals (NO : NumOps) (B : ind NO)
  (Hleaf : i_subs NO B = [] /\ i_managed NO B = []) (Htop : i_sub NO B = false)
  (Hk : leaf_kind NO (i_kind NO B) = true) (Hnodot : has_dot (i_name NO B) = false)
  (others1 others2 : list (bool * string)) (key1 key2 : string) (cfg hcfg1 hcfg2 : mcfg)
  (ops1 ops2 : list (hop NO)) (h1 h1' h2 h2' : hexital NO) (twin : store NO) :
  foreign NO B others1 -> foreign NO B others2 ->
  Inv NO B others1 key1 cfg h1 twin -> Inv NO B others2 key2 cfg h2 twin ->
  Forall (op_allowed NO B others1 key1) ops1 -> Forall (op_allowed NO B others2 key2) ops2 ->
  foldM (hx_step NO hcfg1) ops1 h1 = Ok h1' -> foldM (hx_step NO hcfg2) ops2 h2 = Ok h2' ->
  foldM (twin_step NO B cfg) ops1 twin = foldM (twin_step NO B cfg) ops2 twin ->
  exists s1 s2, alist_get key1 (h_mgrs NO h1') = Some (cfg, s1) /\ alist_get key2 (h_mgrs NO h2') = Some (cfg, s2) /\
    map (fun c => (t c, cur NO (p c), alist_get (i_name NO B) (inds NO (p c)))) s1 =
    map (fun c => (t c, cur NO (p c), alist_get (i_name NO B) (inds NO (p c)))) s2.
Proof.
  intros Hf1 Hf2 HI1 HI2 Ho1 Ho2 H1 H2 Et.
  destruct (member_equals_twin NO B Hleaf Htop Hk Hnodot others1 Hf1 key1 cfg hcfg1 ops1 h1 h1' twin HI1 Ho1 H1) as (s1 & t1 & G1 & E1 & M1).
  destruct (member_equals_twin NO B Hleaf Htop Hk Hnodot others2 Hf2 key2 cfg hcfg2 ops2 h2 h2' twin HI2 Ho2 H2) as (s2 & t2 & G2 & E2 & M2).
  exists s1, s2. split; [exact G1|]. split; [exact G2|]. rewrite Et, E2 in E1. inversion E1; subst. congruence.
Qed.

Section Start.
Context (NO : NumOps).
Notation store := (store NO).
Notation hexital := (hexital NO).
Variable B : ind NO.
Variable others : list (bool * string).

(* any candle list is paired with itself: one append through the manager without options *)
Lemma paired_refl (s : store) : PairedM NO B others s s.
Proof.
  destruct s as [|c s']; [apply PM_init|].
  apply (PM_append NO B others {| tf := None; fillon := false; ha := false; lifespan := None |} [] [] (c :: s') (c :: s') (c :: s')); [apply PM_init| |]; reflexivity.
Qed.

(* registering B in a Hexital whose members so far are all "other" members establishes the
   invariant: B's manager - an existing one or the one created for its timeframe - is paired
   with itself, i.e. the twin starts from the candles that manager holds at that moment *)
Theorem inv_after_attach (hcfg : mcfg) (h h' : hexital) (own : option (string * Z)) :
  Forall (other_ok NO B others) (h_members NO h) ->
  (own = None -> exists c s, alist_get "default" (h_mgrs NO h) = Some (c, s)) ->
  hx_attach NO hcfg h B own = Ok h' ->
  exists key cfg s, alist_get key (h_mgrs NO h') = Some (cfg, s) /\ Inv NO B others key cfg h' s.
Proof.
  intros Hm Hd H. unfold hx_attach in H. destruct own as [[key tfs]|].
  - destruct (alist_get key (h_mgrs NO h)) as [[c s]|] eqn:G.
    + inversion H; subst. cbn [h_mgrs h_members]. exists key, c, s. split; [exact G|]. split.
      * exists (h_members NO h), []. auto.
      * exists s. split; [exact G|apply paired_refl].
    + unfold get_mgr in H. destruct (alist_get "default" (h_mgrs NO h)) as [[dc ds]|]; cbn [of_opt bind] in H; [|discriminate].
      destruct (tasks NO _ _) as [stn|]; cbn [bind] in H; [|discriminate]. inversion H; subst. cbn [h_mgrs h_members].
      eexists key, _, stn.
      assert (GK : alist_get key (h_mgrs NO h ++ [(key, ({| tf := Some tfs; fillon := fillon hcfg; ha := ha hcfg; lifespan := lifespan hcfg |}, stn))]) =
                   Some ({| tf := Some tfs; fillon := fillon hcfg; ha := ha hcfg; lifespan := lifespan hcfg |}, stn)).
      { clear -G. induction (h_mgrs NO h) as [|[k' v'] l IH]; cbn [app alist_get] in *; [rewrite String.eqb_refl; reflexivity|].
        destruct (String.eqb key k'); [discriminate|apply IH; exact G]. }
      split; [exact GK|]. split.
      * exists (h_members NO h), []. auto.
      * exists stn. split; [exact GK|apply paired_refl].
  - destruct (Hd eq_refl) as (c & s & G). inversion H; subst. cbn [h_mgrs h_members]. exists "default", c, s. split; [exact G|]. split.
    + exists (h_members NO h), []. auto.
    + exists s. split; [exact G|apply paired_refl].
Qed.
End Start.
