(* Stochastic (C10): the raw oscillator value of a reading lies in [0, 100] whenever the
   input at the candle lies between the candle's own low and high (close, open, high, low of
   a well-formed candle do). *)
From Coq Require Import ZArith List String Bool Reals Lra Lia.
From Hexital Require Import Base.Prelude Base.Num Model.Manager Model.Candle Model.Readings Model.Analysis
  Model.Engine Inst.RealInst Proofs.SpecReal.
Import ListNotations.
Local Open Scope string_scope.
Local Open Scope R_scope.
Notation F := ROps.

Lemma nmin_list_le : forall (l : list R) (x0 y : R), In y (x0 :: l) -> nmin_list F x0 l <= y.
Proof.
  induction l as [|z l IH]; intros x0 y Hy; unfold nmin_list in *; cbn [fold_left].
  - destruct Hy as [<-|[]]. lra.
  - assert (Hm : nmin F x0 z <= x0 /\ nmin F x0 z <= z).
    { unfold nmin. cbn [nltb F]. unfold Rltb. destruct (Rlt_dec z x0); lra. }
    destruct Hy as [<-|[<-|Hy]].
    + apply Rle_trans with (nmin F x0 z); [apply (IH (nmin F x0 z) (nmin F x0 z)); left; reflexivity|tauto].
    + apply Rle_trans with (nmin F x0 z); [apply (IH (nmin F x0 z) (nmin F x0 z)); left; reflexivity|tauto].
    + apply (IH (nmin F x0 z) y). right. exact Hy.
Qed.
Lemma nmax_list_ge : forall (l : list R) (x0 y : R), In y (x0 :: l) -> y <= nmax_list F x0 l.
Proof.
  induction l as [|z l IH]; intros x0 y Hy; unfold nmax_list in *; cbn [fold_left].
  - destruct Hy as [<-|[]]. lra.
  - assert (Hm : x0 <= nmax F x0 z /\ z <= nmax F x0 z).
    { unfold nmax. cbn [nltb F]. unfold Rltb. destruct (Rlt_dec x0 z); lra. }
    destruct Hy as [<-|[<-|Hy]].
    + apply Rle_trans with (nmax F x0 z); [tauto|apply (IH (nmax F x0 z) (nmax F x0 z)); left; reflexivity].
    + apply Rle_trans with (nmax F x0 z); [tauto|apply (IH (nmax F x0 z) (nmax F x0 z)); left; reflexivity].
    + apply (IH (nmax F x0 z) y). right. exact Hy.
Qed.

Lemma mapM_in {A B} (f : A -> res B) : forall (l : list A) (out : list B) a y,
  mapM f l = Ok out -> In a l -> f a = Ok y -> In y out.
Proof.
  induction l as [|x l IH]; intros out a y H Ha Hy; [destruct Ha|]. cbn [mapM] in H.
  destruct (f x) as [fx|] eqn:Ex; cbn [bind] in H; [|discriminate].
  destruct (mapM f l) as [r|] eqn:Er; cbn [bind] in H; [|discriminate]. inversion H; subst out.
  destruct Ha as [->|Ha]; [left; congruence|right; eapply IH; [reflexivity|exact Ha|exact Hy]].
Qed.
Lemma in_zrange_last (a i : Z) : (a <= i)%Z -> In i (zrange a (i + 1)).
Proof.
  intros H. unfold zrange. apply in_map_iff. exists (Z.to_nat (i - a)). split; [lia|]. apply in_seq. lia.
Qed.

Section Stoch.
Variable I : ind F.
Notation nm := (i_name F I).

Theorem stoch_range rec (period slow smoothk : Z) (input : string) (st st' : store F) i v (lw hg x : R) :
  (1 <= period)%Z -> i_kind F I = K_STOCH period slow smoothk input ->
  calc_reading F rec I st i = Ok (v, st') ->
  rnum F st "low" i = Ok lw -> rnum F st "high" i = Ok hg -> rnum F st input i = Ok x -> lw <= x <= hg ->
  v = VDict [("stoch", VNone); ("k", VNone); ("d", VNone)] \/
  exists (s : R) (k d : val F), v = VDict [("stoch", @VNum F s); ("k", k); ("d", d)] /\ 0 <= s <= 100.
Proof.
  intros Hp K H Hl Hh Hx Hb. unfold calc_reading in H. rewrite K in H.
  destruct (rperiod F st period input i) as [[|]|]; cbn [bind] in H; try discriminate; [|left; unfold ret in H; congruence].
  destruct (mapM (fun j => rnum F st "low" j) _) as [lows|] eqn:EL; cbn [bind] in H; [|discriminate].
  destruct (mapM (fun j => rnum F st "high" j) _) as [highs|] eqn:EH; cbn [bind] in H; [|discriminate].
  assert (Hin : In i (zrange (i - (period - 1)) (i + 1))) by (apply in_zrange_last; lia).
  pose proof (mapM_in _ _ _ i lw EL Hin Hl) as Il. pose proof (mapM_in _ _ _ i hg EH Hin Hh) as Ih.
  destruct lows as [|l0 lr]; [destruct Il|]. destruct highs as [|h0 hr]; [destruct Ih|].
  rewrite Hx in H. cbn [bind] in H.
  pose proof (nmin_list_le lr l0 lw Il) as Lo. pose proof (nmax_list_ge hr h0 hg Ih) as Hi.
  set (lowest := nmin_list F l0 lr) in *. set (highest := nmax_list F h0 hr) in *.
  match type of H with bind ?e _ = _ => destruct e as [stoch|] eqn:ES end; cbn [bind] in H; [|discriminate].
  assert (Hs : 0 <= stoch <= 100).
  { cbn [neqb F] in ES. unfold Reqb in ES. destruct (Req_EM_T highest lowest) as [E|N].
    - inversion ES. unfold fl. cbn [ndec F]. unfold powerRZ. simpl. lra.
    - unfold divn in ES. cbn [ndiv nsub F] in ES. destruct (Req_EM_T (highest - lowest) 0) as [E0|_]; [exfalso; apply N; lra|].
      cbn [of_opt bind] in ES. inversion ES. cbn [nmul zn nofZ F]. replace (IZR 100) with 100 by reflexivity.
      assert (Hd : 0 < highest - lowest) by lra.
      assert (Q : 0 <= (x - lowest) / (highest - lowest) <= 1).
      { split.
        - apply Rmult_le_pos; [lra|]. apply Rlt_le, Rinv_0_lt_compat; exact Hd.
        - apply (Rmult_le_reg_r (highest - lowest)); [exact Hd|]. unfold Rdiv. rewrite Rmult_assoc, Rinv_l by lra. lra. }
      lra. }
  destruct (managed_set F rec I "STOCH_data" _ i st) as [st1|]; cbn [bind] in H; [|discriminate].
  destruct (reading F st1 (nm ++ "_k") i) as [k|]; cbn [bind] in H; [|discriminate].
  destruct (managed_set F rec I "STOCH_data" _ i st1) as [st2|]; cbn [bind] in H; [|discriminate].
  destruct (managed_calc_index F rec I "STOCH_d" i st2) as [st3|]; cbn [bind] in H; [|discriminate].
  destruct (reading F st3 (nm ++ "_d") i) as [d|]; cbn [bind] in H; [|discriminate].
  right. unfold ret, vnum in H. inversion H; subst. exists stoch, k, d. split; [reflexivity|exact Hs].
Qed.
End Stoch.
