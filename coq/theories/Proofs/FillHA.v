(* The manager pipeline with a collapsing timeframe, gap filling AND Heikin-Ashi conversion,
   under appends (C11 composed with C12 and C03): collapse, fill and convert a raw stream,
   append more raw candles to the stored series and run the pipeline again - the result is
   exactly the pipeline over the whole raw stream. *)
From Coq Require Import ZArith List Bool Lia ZifyBool.
From Hexital Require Import Base.Prelude Base.Num Model.Manager Model.Candle
  Proofs.CollapseProofs Proofs.FillProofs Proofs.HAProofs Proofs.ComposeProofs Proofs.PipelineProofs
  Proofs.FillCompose Proofs.FillEngine.
Import ListNotations.
Local Open Scope Z_scope.

Section FillHA.
Context (NO : NumOps).
Notation payload := (payload NO).
Notation cd := (cd payload).
Notation mrg := (Candle.merge NO).
Notation cf := (cf payload mrg (fillp NO)).
Notation convert := (Candle.convert NO).
Notation convert_from := (Candle.convert_from NO).
Notation dec := (dec payload mrg (fillp NO)).
Notation pristine := (pristine NO).
Notation all_raw := (all_raw NO).

(* a converted candle merges and fills like its raw original *)
Lemma convert_from_dec : forall todo done, pristine todo ->
  exists out, convert_from done todo = rev done ++ out /\ Forall2 dec out todo.
Proof.
  induction todo as [|c todo IH]; intros done Hp; cbn [Candle.convert_from].
  - exists []. split; [rewrite app_nil_r; reflexivity|constructor].
  - inversion Hp as [|? ? [Hc _] Hp']; subst.
    destruct (IH ({| t := t c; p := convert_one NO (match done with [] => None | d :: _ => Some (p d) end) (p c) |} :: done) Hp')
      as (out & E & HA).
    eexists (_ :: out). split; [rewrite E; cbn [rev]; rewrite <- app_assoc; reflexivity|].
    constructor; [|exact HA]. split.
    + split; [reflexivity|]. intros q. cbn [p]. apply merge_converted. exact Hc.
    + cbn [p]. unfold fillp, recovered, convert_one. cbn [clean]. rewrite Hc. reflexivity.
Qed.

(* collapse + fill of pristine candles gives pristine candles *)
Lemma fill_run_pristine tf : forall n prev, pristine (fill_run payload (fillp NO) n tf prev).
Proof. induction n as [|n IH]; intros prev; cbn [Manager.fill_run]; constructor; [split; reflexivity|apply IH]. Qed.
Lemma fill_from_pristine tf : forall l prev out, pristine l -> fill_from payload (fillp NO) tf prev l = Ok out -> pristine out.
Proof.
  induction l as [|c l IH]; intros prev out Hl H; cbn [Manager.fill_from] in H.
  - inversion H; constructor.
  - inversion Hl as [|? ? Hc Hl']; subst.
    destruct ((t prev <? t c) && ((t c - t prev) mod tf =? 0)); [|discriminate].
    destruct (fill_from payload (fillp NO) tf c l) as [rest|] eqn:E; cbn [bind] in H; [|discriminate]. inversion H; subst.
    apply Forall_app. split; [apply fill_run_pristine|]. constructor; [exact Hc|eapply IH; eassumption].
Qed.
Lemma cf_pristine tf l out : 0 < tf -> sorted payload l -> pristine l -> cf tf l = Ok out -> pristine out.
Proof.
  intros Htf Hs Hf H. unfold FillCompose.cf in H. rewrite (collapse_is_resample payload mrg tf l Htf Hs) in H. cbn [bind] in H.
  assert (HR : pristine (resample payload mrg tf l)) by (apply resample_acc_pristine; [constructor|exact Hf]).
  destruct (resample payload mrg tf l) as [|c0 R]; cbn [Manager.fill] in H; [inversion H; constructor|].
  inversion HR as [|? ? H0 HR']; subst.
  destruct (fill_from payload (fillp NO) tf c0 R) as [rest|] eqn:E; cbn [bind] in H; [|discriminate]. inversion H; subst.
  constructor; [exact H0|eapply fill_from_pristine; eassumption].
Qed.

Definition pipe3 (tf : Z) (l : list cd) : res (list cd) := l1 <- cf tf l ;; Ok (convert l1).

Lemma F2_len' {A B} (R : A -> B -> Prop) : forall l1 l2, Forall2 R l1 l2 -> List.length l1 = List.length l2.
Proof. induction 1; cbn [List.length]; congruence. Qed.

Theorem pipeline3_incremental (tf : Z) (xs ys D : list cd) :
  0 < tf -> sorted payload (xs ++ ys) -> pristine (xs ++ ys) ->
  pipe3 tf xs = Ok D -> pipe3 tf (D ++ ys) = pipe3 tf (xs ++ ys).
Proof.
  intros Htf Hs Hp HD. unfold pipe3 in *.
  assert (Hsx : sorted payload xs).
  { destruct xs as [|x0 xs']; [exact Logic.I|]. cbn [app sorted] in Hs.
    destruct (sorted_from_app_inv payload xs' (t x0) ys Hs) as [A _]. exact A. }
  pose proof Hp as Hp'. apply Forall_app in Hp'. destruct Hp' as [Hpx Hpy].
  destruct (cf tf xs) as [F|] eqn:HF; cbn [bind] in HD; [|discriminate].
  assert (ED : convert F = D) by congruence. clear HD.
  assert (HpF : pristine F) by (eapply cf_pristine; [exact Htf|exact Hsx|exact Hpx|exact HF]).
  assert (HrF : all_raw F) by (apply pristine_raw; exact HpF).
  rewrite (convert_raw NO F HrF) in ED.
  destruct (convert_from_dec F [] HpF) as (out & Eout & HA). cbn [rev app] in Eout. rewrite Eout in ED. subst out.
  pose proof (cf_structure payload mrg (fillp NO) tf xs ys F D Htf Hs HF HA) as HS.
  destruct (cf tf (xs ++ ys)) as [G|e] eqn:EG; [|rewrite HS; reflexivity].
  destruct HS as (K & K0 & T & restD & restF & EDk & EFk & HK & EGs & EM & _).
  rewrite EM. cbn [bind]. f_equal.
  assert (HpG : pristine G) by (eapply cf_pristine; [exact Htf|exact Hs|exact Hp|exact EG]).
  rewrite EGs in HpG. apply Forall_app in HpG. destruct HpG as [HpK0 HpT].
  (* the kept part of D is the conversion of the kept raw buckets *)
  assert (EK : K = convert K0).
  { rewrite (convert_raw NO K0 (pristine_raw NO _ HpK0)).
    rewrite EFk in Eout. rewrite convert_from_app in Eout.
    destruct (convert_from_dec K0 [] HpK0) as (o1 & E1 & H1). cbn [rev app] in E1.
    assert (HprF : pristine restF) by (rewrite EFk in HpF; apply Forall_app in HpF; apply HpF).
    destruct (convert_from_dec restF (rev (convert_from [] K0)) HprF) as (o2 & E2 & _).
    rewrite E2, rev_involutive in Eout. rewrite E1 in Eout |- *. rewrite EDk in Eout.
    assert (L1 : List.length o1 = List.length K) by (rewrite (F2_len' _ _ _ H1), (F2_len' _ _ _ HK); reflexivity).
    clear -Eout L1. revert K Eout L1. induction o1 as [|a o1 IH]; intros [|b K] Eout L1; try discriminate; [reflexivity|].
    cbn [app] in Eout. injection Eout as E1 E2. f_equal; [congruence|]. apply IH; [exact E2|cbn in L1; lia]. }
  rewrite EK, EGs. apply convert_incremental; apply pristine_raw; assumption.
Qed.

(* the same statement on the manager's own entry points *)
Definition tf_fill_ha_cfg (tf : Z) : mcfg := {| tf := Some tf; fillon := true; ha := true; lifespan := None |}.
Lemma tasks_pipe3 tf l : tasks NO (tf_fill_ha_cfg tf) l = pipe3 tf l.
Proof.
  unfold tasks, pipe3, FillCompose.cf, tf_fill_ha_cfg, collapse_candles. cbn [Candle.tf fillon ha lifespan trim].
  destruct (collapse payload mrg tf l) as [o|e]; cbn [bind]; [|reflexivity].
  destruct (fill payload (fillp NO) tf o); reflexivity.
Qed.
Theorem manager_fill_ha_incremental (tf : Z) (xs ys D : list cd) :
  0 < tf -> sorted payload (xs ++ ys) -> pristine (xs ++ ys) ->
  tasks NO (tf_fill_ha_cfg tf) xs = Ok D -> mgr_append NO (tf_fill_ha_cfg tf) D ys = tasks NO (tf_fill_ha_cfg tf) (xs ++ ys).
Proof.
  intros Htf Hs Hp HD. unfold mgr_append. destruct ys as [|y ys'].
  - rewrite app_nil_r. symmetry. exact HD.
  - rewrite !tasks_pipe3 in *. apply pipeline3_incremental; assumption.
Qed.
End FillHA.
