(* What a leaf indicator's _calculate_reading can see: the candles' OHLCV and the readings
   it names (its inputs and its own previous readings).  Two stores that agree on those give
   the same value or the same exception (reads_only), for every indicator class without
   helper series.  This is the read half of non-interference (C13); the write half is the
   frame theorem. *)
From Coq Require Import ZArith List String Ascii Bool Lia ZifyBool.
From Hexital Require Import Base.Prelude Base.Num Model.Manager Model.Candle Model.Readings Model.Analysis
  Model.Engine Proofs.ListProofs Proofs.EngineProofs Proofs.AnalysisProofs Proofs.CausalProofs.
Import ListNotations.
Local Open Scope Z_scope.

Section SimEngine.
Context (NO : NumOps).
Notation val := (val NO).
Notation payload := (payload NO).
Notation cd := (cd payload).
Notation store := (store NO).
Variable names : list string.
Notation sim := (sim NO names).
Variables st1 st2 : store.
Hypothesis Hsim : Forall2 sim st1 st2.

Lemma reading_sim n i : In n names -> reading NO st1 n i = reading NO st2 n i.
Proof.
  intros Hn. unfold reading. pose proof (sim_pyidx NO names st1 st2 Hsim i) as H.
  destruct (pyidx st1 i), (pyidx st2 i); try contradiction; [|reflexivity]. apply H. exact Hn.
Qed.
Lemma rnum_sim n i : In n names -> rnum NO st1 n i = rnum NO st2 n i.
Proof. intros Hn. unfold rnum. rewrite reading_sim by exact Hn. reflexivity. Qed.
Lemma prev_reading_sim n i : In n names -> prev_reading NO st1 n i = prev_reading NO st2 n i.
Proof.
  intros Hn. unfold prev_reading. inversion Hsim as [|c1 c2 l1 l2 Hc Hl E1 E2]; [reflexivity|]. rewrite E1, E2.
  destruct (i =? 0); [reflexivity|]. apply reading_sim. exact Hn.
Qed.
Lemma prev_exists_sim n i : In n names -> prev_exists NO st1 n i = prev_exists NO st2 n i.
Proof. intros Hn. unfold prev_exists. rewrite prev_reading_sim by exact Hn. reflexivity. Qed.
Lemma rperiod_sim period n i : In n names -> rperiod NO st1 period n i = rperiod NO st2 period n i.
Proof.
  intros Hn. unfold rperiod, reading_period. rewrite <- (sim_len NO names st1 st2 Hsim).
  destruct (valid_index i (zlen st1)); [|reflexivity].
  destruct (i - (period - 1) <? 0); [reflexivity|].
  rewrite !(rbi_sim NO names st1 st2 Hsim n) by exact Hn. reflexivity.
Qed.
Lemma csum_sim length n i : In n names -> csum NO st1 length n i = csum NO st2 length n i.
Proof.
  intros Hn. unfold csum, candles_sum. rewrite <- (sim_len NO names st1 st2 Hsim).
  destruct (absindex i (zlen st1)) as [j|]; [|reflexivity]. destruct (j =? 0); [reflexivity|].
  rewrite (mapM_sim NO names _ _ n Hn (sim_pyslice NO names st1 st2 _ _ Hsim)). reflexivity.
Qed.
Lemma afun_sim f idx : incl (names_of f) names -> run_afun NO f st1 idx = run_afun NO f st2 idx.
Proof. intros H. apply (run_afun_sim NO names st1 st2 Hsim). exact H. Qed.
End SimEngine.

Section ReadsOnly.
Context (NO : NumOps).
Notation val := (val NO).
Notation payload := (payload NO).
Notation cd := (cd payload).
Notation store := (store NO).

(* the names a leaf class reads: its inputs and its own name (previous readings) *)
Definition reads (k : kind NO) (nm : string) : list string :=
  match k with
  | K_SMA _ input | K_EMA _ input _ | K_RMA _ input | K_WMA _ input | K_ROC _ input => [input; nm]
  | K_VWMA _ => ["close"%string; "volume"%string; nm]
  | K_TR => ["high"%string; "low"%string; "close"%string]
  | K_HLA => ["high"%string; "low"%string]
  | K_OBV => ["close"%string; "volume"%string; nm]
  | K_HL _ => ["high"%string; "low"%string]
  | K_DONCHIAN _ => ["high"%string; "low"%string; (nm ++ ".DCU")%string]
  | K_AROON _ => ["high"%string; "low"%string]
  | K_COUNTER input _ => [input; nm]
  | K_AMORPH f => names_of f
  | _ => []
  end.
Definition leaf_kind (k : kind NO) : bool :=
  match k with
  | K_SMA _ _ | K_EMA _ _ _ | K_RMA _ _ | K_WMA _ _ | K_ROC _ _ | K_VWMA _ | K_TR | K_HLA | K_OBV
  | K_HL _ | K_DONCHIAN _ | K_AROON _ | K_COUNTER _ _ | K_AMORPH _ => true
  | _ => false
  end.

Lemma mapM_ext' {A B} (f g : A -> res B) l : (forall x, f x = g x) -> mapM f l = mapM g l.
Proof. intros H. induction l as [|y l IH]; cbn [mapM]; [reflexivity|]. rewrite H, IH. reflexivity. Qed.

Ltac inl := cbn [In]; tauto.
Ltac fin :=
  repeat match goal with
  | |- context [bind (rnum NO ?s ?n ?i) _] => destruct (rnum NO s n i); cbn [bind]
  | |- context [bind (as_num NO ?v) _] => destruct (as_num NO v); cbn [bind]
  | |- context [bind (divn NO ?a ?b) _] => destruct (divn NO a b); cbn [bind]
  | |- context [bind (reading NO ?s ?n ?i) _] => destruct (reading NO s n i); cbn [bind]
  | |- context [bind (prev_reading NO ?s ?n ?i) _] => destruct (prev_reading NO s n i); cbn [bind]
  | |- context [bind (prev_exists NO ?s ?n ?i) _] => destruct (prev_exists NO s n i) as [[|]|]; cbn [bind]
  | |- context [bind (rperiod NO ?s ?p ?n ?i) _] => destruct (rperiod NO s p n i) as [[|]|]; cbn [bind]
  | |- context [bind (csum NO ?s ?p ?n ?i) _] => destruct (csum NO s p n i); cbn [bind]
  | |- context [bind (mapM ?f ?l) _] => destruct (mapM f l); cbn [bind]
  | |- context [bind (mv_highest NO ?s ?n ?l ?i) _] => destruct (mv_highest NO s n l i); cbn [bind]
  | |- context [bind (mv_lowest NO ?s ?n ?l ?i) _] => destruct (mv_lowest NO s n l i); cbn [bind]
  | |- context [bind (mv_highestbar NO ?s ?n ?l ?i) _] => destruct (mv_highestbar NO s n l i); cbn [bind]
  | |- context [bind (mv_lowestbar NO ?s ?n ?l ?i) _] => destruct (mv_lowestbar NO s n l i); cbn [bind]
  | |- context [bind (run_afun NO ?f ?s ?i) _] => destruct (run_afun NO f s i); cbn [bind]
  | |- context [bind (of_opt ?e ?o) _] => destruct (of_opt e o); cbn [bind]
  | |- context [if ?b then _ else _] => destruct b
  end; try reflexivity.

Theorem reads_only (I : ind NO) (st1 st2 : store) (i : Z) :
  leaf_kind (i_kind NO I) = true ->
  Forall2 (sim NO (reads (i_kind NO I) (i_name NO I))) st1 st2 ->
  pure_calc NO I st1 i = pure_calc NO I st2 i.
Proof.
  intros Hk Hs. unfold pure_calc, calc_reading.
  set (N := reads (i_kind NO I) (i_name NO I)) in *.
  destruct (i_kind NO I) eqn:K; try discriminate; cbn [reads] in N; subst N.
  all: repeat rewrite (prev_exists_sim NO _ _ _ Hs) by inl.
  all: repeat rewrite (prev_reading_sim NO _ _ _ Hs) by inl.
  all: repeat rewrite (rperiod_sim NO _ _ _ Hs) by inl.
  all: repeat rewrite (csum_sim NO _ _ _ Hs) by inl.
  all: repeat rewrite (reading_sim NO _ _ _ Hs) by inl.
  - (* SMA *) repeat rewrite (rnum_sim NO _ _ _ Hs) by inl. fin.
  - (* EMA *) repeat rewrite (rnum_sim NO _ _ _ Hs) by inl. fin.
  - (* RMA *) repeat rewrite (rnum_sim NO _ _ _ Hs) by inl.
    destruct (divn NO _ _) as [a0|]; cbn [bind]; [|reflexivity].
    rewrite (mapM_ext' (fun pj : Z * Z => x <- rnum NO st1 input (snd pj) ;; Ok (nmul NO (npow NO (nsub NO (zn NO 1) (nfloat NO a0)) (fst pj)) x))
                       (fun pj : Z * Z => x <- rnum NO st2 input (snd pj) ;; Ok (nmul NO (npow NO (nsub NO (zn NO 1) (nfloat NO a0)) (fst pj)) x))).
    + fin.
    + intros pj. rewrite (rnum_sim NO _ _ _ Hs) by inl. reflexivity.
  - (* WMA *) 
    rewrite (mapM_ext' (fun pj : Z * Z => x <- rnum NO st1 input (snd pj) ;; Ok (nmul NO x (zn NO (period - fst pj))))
                       (fun pj : Z * Z => x <- rnum NO st2 input (snd pj) ;; Ok (nmul NO x (zn NO (period - fst pj))))).
    + fin.
    + intros pj. rewrite (rnum_sim NO _ _ _ Hs) by inl. reflexivity.
  - (* VWMA *)
    rewrite (mapM_ext' (fun j => c <- rnum NO st1 "close" j ;; v <- rnum NO st1 "volume" j ;; Ok (nmul NO c v))
                       (fun j => c <- rnum NO st2 "close" j ;; v <- rnum NO st2 "volume" j ;; Ok (nmul NO c v))).
    + destruct (prev_exists NO st2 _ i) as [[|]|]; cbn [bind]; try reflexivity.
      * destruct (mapM _ _); cbn [bind]; [|reflexivity]. destruct (csum NO st2 period "volume" i); cbn [bind]; [|reflexivity].
        destruct (py_eq NO _ _); fin.
      * destruct (rperiod NO st2 period "close" i) as [[|]|]; cbn [bind]; try reflexivity.
        destruct (mapM _ _); cbn [bind]; [|reflexivity]. destruct (csum NO st2 period "volume" i); cbn [bind]; [|reflexivity].
        destruct (py_eq NO _ _); fin.
    + intros j. rewrite !(rnum_sim NO _ _ _ Hs) by inl. reflexivity.
  - (* TR *) fin.
  - (* DONCHIAN *)
    pose proof (afun_sim NO _ _ _ Hs (A_highest "high" (period - 1)) (Some i)) as E1.
    pose proof (afun_sim NO _ _ _ Hs (A_lowest "low" (period - 1)) (Some i)) as E2.
    cbn [run_afun names_of] in E1, E2. rewrite E1, E2 by (intros n [<-|[]]; inl). fin.
  - (* HL *)
    pose proof (afun_sim NO _ _ _ Hs (A_highest "high" period) (Some i)) as E1.
    pose proof (afun_sim NO _ _ _ Hs (A_lowest "low" period) (Some i)) as E2.
    cbn [run_afun names_of] in E1, E2. rewrite E1, E2 by (intros n [<-|[]]; inl). fin.
  - (* HLA *) repeat rewrite (rnum_sim NO _ _ _ Hs) by inl. fin.
  - (* COUNTER *) fin. all: destruct (py_eq NO _ _); fin.
  - (* ROC *) repeat rewrite (rnum_sim NO _ _ _ Hs) by inl. fin.
  - (* AROON *)
    pose proof (afun_sim NO _ _ _ Hs (A_highestbar "high" (period + 1)) (Some i)) as E1.
    pose proof (afun_sim NO _ _ _ Hs (A_lowestbar "low" (period + 1)) (Some i)) as E2.
    cbn [run_afun names_of] in E1, E2. rewrite E1, E2 by (intros n [<-|[]]; inl). fin.
  - (* OBV *) repeat rewrite (rnum_sim NO _ _ _ Hs) by inl. fin. all: destruct (neqb NO _ _); fin.
  - (* AMORPH *) rewrite (afun_sim NO _ _ _ Hs f (Some i)) by apply incl_refl. fin.
Qed.
End ReadsOnly.
