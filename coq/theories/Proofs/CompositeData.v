(* Schedule independence for a composite indicator whose one helper keeps its own state in a
   managed series: a parent with a pure reading function over a sub-indicator of the
   Proofs/DataSlot.v shape, calculated before the parent - StandardDeviationThreshold over its
   StandardDeviation helper (which in turn keeps mean and variance in "<helper>_data").
   calculate() = the helper's calculate (through the recursive entry point), then the parent's
   loop; under any append schedule the result is the parent's canonical readings over the
   helper's canonical decoration of the whole stream. *)
From Coq Require Import ZArith List String Ascii Bool Lia ZifyBool.
From Hexital Require Import Base.Prelude Base.Num Model.Manager Model.Candle Model.Readings Model.Analysis
  Model.Engine Proofs.ListProofs Proofs.EngineProofs Proofs.CompositeProofs.
From Hexital Require Import Proofs.DataSlot.
Import ListNotations.
Local Open Scope Z_scope.

Section OneDataSub.
Context (NO : NumOps).
Notation val := (val NO).
Notation cd := (cd (payload NO)).
Notation store := (store NO).
Variables P S M : ind NO.
Hypothesis HPsubs : i_subs NO P = [S].
Hypothesis HPman : i_managed NO P = [].
Hypothesis HPtop : i_sub NO P = false.
Hypothesis HSsubs : i_subs NO S = [].
Hypothesis HSsub : i_sub NO S = true.
Hypothesis HMsub : i_sub NO M = true.
Hypothesis HSprior : i_prior NO S = true.
Hypothesis HnameSM : i_name NO S <> i_name NO M.
Variable G : cd -> Prop.
Hypothesis HG : forall d w v, G d -> G (setk NO S (slot NO M d w) v).
Variable D : store -> cd -> res (val * option val).
Hypothesis Hshape : forall f (a : store) (c : cd) (rest : store), IsCanonD NO S M G D a -> G c ->
  calc_reading NO (run NO (Datatypes.S f)) S (a ++ c :: rest) (zlen a) =
  (r <- D a c ;; Ok (fst r, a ++ slot NO M c (snd r) :: rest)).
Hypothesis Hrecomp : forall (a : store) (d : cd) r, IsCanonD NO S M G D a -> freshD NO S M G d -> D a d = Ok r ->
  D a (deco NO S M d r) = Ok r.
Variable calcP : store -> Z -> res val.
Hypothesis HpureP : forall rec st i, calc_reading NO rec P st i = (v <- calcP st i ;; Ok (v, st)).
Hypothesis HCP : Causal NO P calcP.

Notation setkP := (setk NO P).
Notation freshP := (fresh NO P).
Notation freshS := (freshD NO S M G).
Notation decoS := (deco NO S M).
Notation IsCanonS := (IsCanonD NO S M G D).
Notation canonS_acc := (canonD_acc NO S M D).
Notation canonS := (canonD NO S M D).
Notation decoP := (decoP NO P).

(* the parent's entry does not matter to the side condition, nor to the helper's values *)
Hypothesis HGP : forall d x, G (slot NO P d x) <-> G d.
Hypothesis Hindep : forall (a a0 : store) (d d0 : cd), Forall2 decoP a a0 -> decoP d d0 -> D a d = D a0 d0.

(* ---- the engine for this shape ---- *)
Lemma calculate_unfold st :
  calculate NO P st = (r <- run NO 15 (RCalculate NO) S st ;; leaf_calculate NO P calcP (snd r)).
Proof.
  unfold calculate. change FUEL with (Datatypes.S 15). rewrite run_S. cbn [step].
  unfold run_subs at 1. rewrite HPsubs. cbn [foldM]. rewrite HSprior, HSsub. cbn [andb Bool.eqb].
  destruct (run NO 15 (RCalculate NO) S st) as [[v st1]|e]; cbn [bind snd]; [|reflexivity].
  change 15%nat with (Datatypes.S 14). rewrite (calc_loop_leaf NO P calcP HpureP 14). fold (leaf_calculate NO P calcP st1).
  destruct (leaf_calculate NO P calcP st1) as [st2|e]; cbn [bind]; [|reflexivity].
  unfold run_subs. rewrite HPsubs. cbn [foldM]. rewrite HSprior, HSsub. cbn [andb Bool.eqb bind]. reflexivity.
Qed.

Lemma sub_append (cs : store) (new : list cd) : IsCanonS cs -> Forall freshS new ->
  run NO 15 (RCalculate NO) S (cs ++ new) = (r <- canonS_acc cs new ;; Ok (VNone, r)).
Proof.
  intros Hc Hf. change 15%nat with (Datatypes.S (Datatypes.S (Datatypes.S 12))).
  apply (append_runD NO S M HSsubs HnameSM G HG D Hshape Hrecomp 12 cs new Hc Hf).
Qed.

(* ---- the slots live in different dictionaries ---- *)
Lemma slotP_decoS d r x : slot NO P (decoS d r) x = decoS (slot NO P d x) r.
Proof.
  unfold deco. destruct x as [v|]; cbn [slot]; [|reflexivity].
  unfold setk, with_own_dict, own, own_dict. rewrite HPtop, HSsub. cbn [t p inds subs cur clean tagged].
  destruct (snd r) as [w|]; cbn [slot]; unfold setk, with_own_dict, own, own_dict; rewrite ?HMsub; cbn [t p inds subs cur clean tagged]; reflexivity.
Qed.
Lemma freshP_decoS d r : freshP (decoS d r) <-> freshP d.
Proof.
  unfold deco, fresh, own, own_dict. rewrite HPtop. unfold setk, with_own_dict, own, own_dict. rewrite HSsub. cbn [p inds].
  destruct (snd r) as [w|]; cbn [slot]; unfold setk, with_own_dict, own, own_dict; rewrite ?HMsub; cbn [p inds]; reflexivity.
Qed.
Lemma freshS_slotP d x : freshS (slot NO P d x) <-> freshS d.
Proof.
  unfold freshD. rewrite HGP.
  assert (E1 : fresh NO S (slot NO P d x) <-> fresh NO S d).
  { destruct x as [v|]; cbn [slot]; [|reflexivity]. unfold fresh, own, own_dict, setk, with_own_dict. rewrite HPtop, HSsub. cbn [p subs]. reflexivity. }
  assert (E2 : fresh NO M (slot NO P d x) <-> fresh NO M d).
  { destruct x as [v|]; cbn [slot]; [|reflexivity]. unfold fresh, own, own_dict, setk, with_own_dict. rewrite HPtop, HMsub. cbn [p subs]. reflexivity. }
  rewrite E1, E2. reflexivity.
Qed.

Lemma decoP_refl_list (l : store) : Forall2 decoP l l.
Proof. induction l; constructor; [exists None; reflexivity|assumption]. Qed.

Lemma canonS_acc_shape : forall todo a r, canonS_acc a todo = Ok r ->
  exists r', r = a ++ r' /\ Forall2 (fun c d => exists r0, c = decoS d r0) r' todo.
Proof.
  induction todo as [|d todo IH]; intros a r H; cbn [canonD_acc] in H.
  - inversion H; subst. exists []. split; [rewrite app_nil_r; reflexivity|constructor].
  - destruct (D a d) as [r0|e]; cbn [bind] in H; [|discriminate].
    destruct (IH _ _ H) as (r' & Er & Hr). exists (decoS d r0 :: r'). split.
    + rewrite Er, <- app_assoc. reflexivity.
    + constructor; [eexists; reflexivity|exact Hr].
Qed.

(* A: a store that is canonical for the helper stays so when the parent writes on it *)
Lemma iscanonS_deco : forall a0, IsCanonS a0 -> forall a, Forall2 decoP a a0 -> IsCanonS a.
Proof.
  induction 1 as [|a0 d r Ha0 IH Hd Ev]; intros a HD.
  - inversion HD; subst. constructor.
  - destruct (Forall2_app_inv_r _ _ HD) as (a' & l & Ha' & Hl & ->).
    inversion Hl as [|c ? l' ? Hc Hnil]; subst. inversion Hnil; subst.
    destruct Hc as [x ->]. rewrite slotP_decoS.
    econstructor; [apply IH; exact Ha'|apply freshS_slotP; exact Hd|].
    rewrite (Hindep a' a0 (slot NO P d x) d Ha' (ex_intro _ x eq_refl)). exact Ev.
Qed.

(* B: running the helper over new candles behind a decorated prefix gives the same new part *)
Lemma canonS_acc_deco : forall ys (a a0 : store), Forall2 decoP a a0 ->
  match canonS_acc a ys, canonS_acc a0 ys with
  | Ok r, Ok r0 => exists tl, r = a ++ tl /\ r0 = a0 ++ tl
  | Err e, Err e0 => e = e0
  | _, _ => False
  end.
Proof.
  induction ys as [|d ys IH]; intros a a0 HD; cbn [canonD_acc].
  - exists []. rewrite !app_nil_r. split; reflexivity.
  - rewrite (Hindep a a0 d d HD (ex_intro _ None eq_refl)).
    destruct (D a0 d) as [r0|e]; cbn [bind]; [|reflexivity].
    specialize (IH (a ++ [decoS d r0]) (a0 ++ [decoS d r0])
                   (Forall2_app HD (Forall2_cons _ _ (ex_intro _ None eq_refl) (Forall2_nil _)))).
    destruct (canonS_acc (a ++ [decoS d r0]) ys) as [r|e], (canonS_acc (a0 ++ [decoS d r0]) ys) as [r1|e0]; try contradiction; [|exact IH].
    destruct IH as (tl & -> & ->). exists (decoS d r0 :: tl). rewrite <- !app_assoc. split; reflexivity.
Qed.

(* ---- the specification: parent's canonical readings over the helper's decoration ---- *)
Definition spec2 (ds : list cd) : res store := a <- canonS ds ;; canon NO P calcP a.

Lemma fresh_after_S : forall (ds : list cd) (a0 a : store), Forall freshP ds -> canonS_acc a0 ds = Ok a ->
  exists tl, a = a0 ++ tl /\ Forall freshP tl.
Proof.
  intros ds a0 a Hf Ha. destruct (canonS_acc_shape ds a0 a Ha) as (r' & -> & Hr). exists r'. split; [reflexivity|].
  clear Ha. induction Hr as [|c d r' ds' (r0 & ->) _ IH]; [constructor|].
  inversion Hf; subst. constructor; [apply freshP_decoS; assumption|apply IH; assumption].
Qed.

Theorem batch_is_spec (ds : list cd) : Forall freshP ds -> Forall freshS ds -> calculate NO P ds = spec2 ds.
Proof.
  intros HfP HfS. rewrite calculate_unfold. unfold spec2.
  pose proof (sub_append [] ds (ICD_nil NO S M G D) HfS) as E. cbn [app] in E. rewrite E. fold (canonS ds).
  destruct (canonS ds) as [a|e] eqn:Ea; cbn [bind snd]; [|reflexivity].
  apply (batch_is_canon NO P calcP HCP).
  destruct (fresh_after_S ds [] a HfP Ea) as (tl & -> & Htl). exact Htl.
Qed.

Lemma deco_after_P (a0 st : store) : canon NO P calcP a0 = Ok st -> Forall2 decoP st a0.
Proof.
  intros H. destruct (canon_acc_shape NO P calcP a0 [] st H) as (r' & -> & Hr). cbn [app].
  clear H. induction Hr as [|c d r' ds' (v & ->) _ IH]; constructor; [exists (Some v); reflexivity|exact IH].
Qed.

Theorem append_is_spec (xs ys : list cd) (st : store) :
  Forall freshP (xs ++ ys) -> Forall freshS (xs ++ ys) -> spec2 xs = Ok st ->
  calculate NO P (st ++ ys) = spec2 (xs ++ ys).
Proof.
  intros HfP HfS Hst. apply Forall_app in HfP. destruct HfP as [HfPx HfPy]. apply Forall_app in HfS. destruct HfS as [HfSx HfSy].
  unfold spec2 in Hst. destruct (canonS xs) as [a0|e] eqn:Ea0; cbn [bind] in Hst; [|discriminate].
  destruct (canonD_acc_iscanon NO S M G D xs [] a0 (ICD_nil NO S M G D) HfSx Ea0) as [HcS0 _].
  pose proof (deco_after_P a0 st Hst) as HD.
  assert (HcS : IsCanonS st) by (eapply iscanonS_deco; eassumption).
  destruct (fresh_after_S xs [] a0 HfPx Ea0) as (tl0 & Etl0 & HfPa0). cbn [app] in Etl0. subst tl0.
  destruct (canon_acc_iscanon NO P calcP a0 [] st (IC_nil NO P calcP) HfPa0 Hst) as [HcP _].
  rewrite calculate_unfold. rewrite (sub_append st ys HcS HfSy).
  unfold spec2, canonD. rewrite canonD_acc_app. fold (canonS xs). rewrite Ea0. cbn [bind].
  pose proof (canonS_acc_deco ys st a0 HD) as HB.
  destruct (canonS_acc st ys) as [r|e], (canonS_acc a0 ys) as [r0|e0] eqn:Er0; try contradiction; cbn [bind snd].
  - destruct HB as (tl & -> & ->).
    assert (Hftl : Forall freshP tl).
    { destruct (fresh_after_S ys a0 _ HfPy Er0) as (tl' & E & Htl'). apply app_inv_head in E. subst tl'. exact Htl'. }
    rewrite (append_is_canon NO P calcP HCP st tl HcP Hftl).
    unfold canon in *. rewrite canon_acc_app. rewrite Hst. reflexivity.
  - subst. reflexivity.
Qed.

(* a successful run over a longer stream is successful over every prefix, and extends it *)
Theorem spec2_prefix_stable (a b : list cd) r : spec2 (a ++ b) = Ok r ->
  exists mid tl, spec2 a = Ok mid /\ r = mid ++ tl.
Proof.
  unfold spec2, canonD, canon. rewrite canonD_acc_app.
  destruct (canonS_acc [] a) as [a1|e]; cbn [bind]; [|discriminate].
  destruct (canonS_acc a1 b) as [a2|e] eqn:E2; cbn [bind]; [|discriminate].
  destruct (canonS_acc_shape _ _ _ E2) as (tl1 & -> & _). rewrite canon_acc_app.
  destruct (canon_acc NO P calcP [] a1) as [m|e]; cbn [bind]; [|discriminate]. intros H.
  destruct (canon_acc_shape NO P calcP _ _ _ H) as (tl & -> & _). exists m, tl. split; reflexivity.
Qed.

Theorem composite_calculate_idempotent (xs : list cd) (st : store) :
  Forall freshP xs -> Forall freshS xs -> calculate NO P xs = Ok st -> calculate NO P st = Ok st.
Proof.
  intros HfP HfS H. rewrite (batch_is_spec xs HfP HfS) in H.
  pose proof (append_is_spec xs [] st) as A. rewrite !app_nil_r in A. rewrite A by assumption. exact H.
Qed.

Theorem composite_batch_is_causal (ds more : list cd) r :
  Forall freshP (ds ++ more) -> Forall freshS (ds ++ more) -> calculate NO P (ds ++ more) = Ok r ->
  exists mid tl, calculate NO P ds = Ok mid /\ r = mid ++ tl.
Proof.
  intros HfP HfS H. rewrite (batch_is_spec _ HfP HfS) in H.
  destruct (spec2_prefix_stable ds more r H) as (mid & tl & Hm & Hr). exists mid, tl. split; [|exact Hr].
  apply Forall_app in HfP. apply Forall_app in HfS. rewrite (batch_is_spec ds); tauto.
Qed.

(* any split of a stream into append chunks: whenever one calculate() over the whole stream
   succeeds, the chunked run ends in exactly its result *)
Theorem composite_schedule_independent : forall (chunks : list (list cd)) (xs : list cd) (st r : store),
  Forall freshP xs -> Forall freshS xs -> Forall (Forall freshP) chunks -> Forall (Forall freshS) chunks ->
  spec2 xs = Ok st -> spec2 (xs ++ List.concat chunks) = Ok r ->
  engine_chunks NO P st chunks = Ok r.
Proof.
  induction chunks as [|ch chunks IH]; intros xs st r HPx HSx HPc HSc Hst Hr; cbn [engine_chunks List.concat] in *.
  - rewrite app_nil_r in Hr. congruence.
  - inversion HPc as [|? ? HPch HPc']; subst. inversion HSc as [|? ? HSch HSc']; subst.
    assert (HfP : Forall freshP (xs ++ ch)) by (apply Forall_app; split; assumption).
    assert (HfS : Forall freshS (xs ++ ch)) by (apply Forall_app; split; assumption).
    rewrite (append_is_spec xs ch st HfP HfS Hst). rewrite app_assoc in Hr.
    destruct (spec2_prefix_stable _ _ _ Hr) as (st' & tl & E & _). rewrite E. cbn [bind].
    apply (IH (xs ++ ch) st' r HfP HfS HPc' HSc' E Hr).
Qed.

Theorem composite_incremental_equals_batch (chunks : list (list cd)) (r : store) :
  Forall (Forall freshP) chunks -> Forall (Forall freshS) chunks ->
  calculate NO P (List.concat chunks) = Ok r -> engine_chunks NO P [] chunks = Ok r.
Proof.
  intros HP HS Hr.
  assert (HfP : Forall freshP (List.concat chunks)) by (apply Forall_concat; exact HP).
  assert (HfS : Forall freshS (List.concat chunks)) by (apply Forall_concat; exact HS).
  rewrite (batch_is_spec _ HfP HfS) in Hr.
  apply (composite_schedule_independent chunks [] [] r); try assumption; try constructor.
Qed.
End OneDataSub.
