(* Proofs about hexital.analysis (Model/Analysis.v): index consistency and causality. *)
From Coq Require Import ZArith List String Bool Lia ZifyBool.
From Hexital Require Import Base.Prelude Base.Num Model.Manager Model.Candle Model.Readings Model.Analysis
  Proofs.ListProofs.
Import ListNotations.
Local Open Scope Z_scope.

Section AnalysisProofs.
Context (NO : NumOps).
Notation cd := (cd (payload NO)).
Notation rbi := (reading_by_index NO).

Lemma valid_index_neg i n : 0 <= i < n -> valid_index (i - n) n = true /\ valid_index i n = true.
Proof. intros H. unfold valid_index. split; lia. Qed.

Lemma rbi_neg (cs : list cd) name i : 0 <= i < zlen cs -> rbi cs name (i - zlen cs) = rbi cs name i.
Proof.
  intros H. unfold reading_by_index. destruct (valid_index_neg i (zlen cs) H) as [V1 V2].
  rewrite V1, V2. cbn [negb]. rewrite pyidx_neg by assumption. reflexivity.
Qed.

(* every function answers the same for an index and for its negative twin *)
Theorem negative_index_consistent (f : afun) (cs : list cd) (i : Z) : 0 <= i < zlen cs ->
  run_afun NO f cs (Some (i - zlen cs)) = run_afun NO f cs (Some i).
Proof.
  intros H. destruct (valid_index_neg i (zlen cs) H) as [V1 V2].
  pose proof (absindex_neg i (zlen cs) H) as A1. pose proof (absindex_some i (zlen cs) H) as A2.
  pose proof (pyidx_neg cs i H) as P.
  destruct f; cbn [run_afun];
    unfold mv_positive, mv_negative, mv_above, mv_below, above_b, below_b, mv_value_range, mv_rising, mv_falling,
      rise_fall, mv_mean_rising, mv_mean_falling, mean_rise_fall, mv_highest, mv_lowest, high_low_est,
      mv_highestbar, mv_lowestbar, high_low_bar, mv_cross, mv_crossover, mv_crossunder, cross_dir,
      pt_doji, pt_dojistar, pt_hammer, pt_inverted_hammer, pattern;
    rewrite ?V1, ?V2, ?A1, ?A2, ?P, ?(rbi_neg cs _ i H); reflexivity.
Qed.


(* ---------------------------------------------------------------- causality *)
(* names with at most one dot: reading_by_candle cannot raise on them *)
Definition good_name (name : string) : bool :=
  if has_dot name then match snd (split_dot name) with Some b => negb (has_dot b) | None => true end else true.

Lemma rbc_ok (q : payload NO) name : good_name name = true -> exists v, reading_by_candle NO q name = Ok v.
Proof.
  unfold good_name, reading_by_candle. destruct (has_dot name).
  - destruct (split_dot name) as [a [b|]]; cbn [snd]; intros H.
    + destruct (has_dot b); [discriminate|eexists; reflexivity].
    + eexists; reflexivity.
  - intros _. destruct (candle_attr NO q name); [eexists; reflexivity|].
    destruct (alist_get name (inds NO q)); [eexists; reflexivity|].
    destruct (alist_get name (subs NO q)); eexists; reflexivity.
Qed.

Section Truncate.
Variable cs : list cd.
Variable i : Z.
Hypothesis Hi : 0 <= i < zlen cs.
Let cs' := firstn (Z.to_nat (i + 1)) cs.

Lemma zlen_trunc : zlen cs' = i + 1.
Proof. unfold cs'. rewrite zlen_firstn. lia. Qed.

Lemma pyidx_trunc j : 0 <= j <= i -> pyidx cs' j = pyidx cs j.
Proof. intros H. unfold cs'. apply pyidx_firstn; lia. Qed.

Lemma rbi_trunc name j : 0 <= j <= i -> rbi cs' name j = rbi cs name j.
Proof.
  intros H. unfold reading_by_index. rewrite zlen_trunc.
  assert (V1 : valid_index j (i + 1) = true) by (unfold valid_index; lia).
  assert (V2 : valid_index j (zlen cs) = true) by (unfold valid_index; lia).
  rewrite V1, V2. cbn [negb]. rewrite pyidx_trunc by assumption. reflexivity.
Qed.

Lemma firstn_skipn_trunc {A} : forall (l : list A) a b k, (a + b <= k)%nat ->
  firstn b (skipn a (firstn k l)) = firstn b (skipn a l).
Proof.
  induction l as [|x l IH]; intros a b k H.
  - rewrite firstn_nil, !skipn_nil. reflexivity.
  - destruct k as [|k].
    + assert (a = 0%nat) by lia. assert (b = 0%nat) by lia. subst. reflexivity.
    + destruct a as [|a]; cbn [firstn skipn].
      * destruct b as [|b]; [reflexivity|]. cbn [firstn]. f_equal.
        rewrite firstn_firstn. f_equal. lia.
      * apply IH. lia.
Qed.

Lemma pyslice_trunc a b : 0 <= a -> 0 <= b <= i + 1 -> pyslice cs' a b = pyslice cs a b.
Proof.
  intros Ha Hb. unfold pyslice. rewrite zlen_trunc. unfold slice_bound.
  assert (E1 : (a <? 0) = false) by lia. assert (E2 : (b <? 0) = false) by lia. rewrite E1, E2.
  destruct (Z_le_gt_dec a (i + 1)) as [Ha'|Ha'].
  - replace (Z.min a (i + 1)) with a by lia. replace (Z.min b (i + 1)) with b by lia.
    replace (Z.min a (zlen cs)) with a by lia. replace (Z.min b (zlen cs)) with b by lia.
    destruct (b <=? a) eqn:B; [reflexivity|]. unfold cs'. apply firstn_skipn_trunc. lia.
  - replace (Z.min a (i + 1)) with (i + 1) by lia. replace (Z.min b (i + 1)) with b by lia.
    replace (Z.min b (zlen cs)) with b by lia.
    assert (B1 : (b <=? i + 1) = true) by lia. rewrite B1.
    assert (B2 : (b <=? Z.min a (zlen cs)) = true) by lia. rewrite B2. reflexivity.
Qed.

Lemma clean_readings_trunc name length j incl : 0 <= j <= i ->
  clean_readings NO cs' name length j incl = clean_readings NO cs name length j incl.
Proof.
  intros Hj. unfold clean_readings. rewrite pyslice_trunc; [reflexivity| |].
  - destruct (j - length <? 0) eqn:E; lia.
  - destruct incl; lia.
Qed.

Lemma exists_m_ext {A} (f g : A -> res bool) : forall l, (forall x, In x l -> f x = g x) -> exists_m f l = exists_m g l.
Proof.
  induction l as [|x l IH]; intros H; [reflexivity|]. cbn [exists_m].
  rewrite (H x (or_introl eq_refl)). destruct (g x) as [[|]|]; cbn [bind]; try reflexivity.
  apply IH. intros y Hy. apply H. right. exact Hy.
Qed.

Lemma in_zrange_down a b x : In x (zrange_down a b) -> b < x <= a.
Proof. unfold zrange_down. intros H. apply in_map_iff in H. destruct H as (k & <- & Hk). apply in_seq in Hk. lia. Qed.
Lemma in_zrange a b x : In x (zrange a b) -> a <= x < b.
Proof. unfold zrange. intros H. apply in_map_iff in H. destruct H as (k & <- & Hk). apply in_seq in Hk. lia. Qed.

Lemma bar_loop_trunc lowest name : forall idxs k best d,
  (forall j, In j idxs -> 0 <= j <= i) ->
  bar_loop NO lowest cs' name idxs k best d = bar_loop NO lowest cs name idxs k best d.
Proof.
  induction idxs as [|j idxs IH]; intros k best d H; [reflexivity|]. cbn [bar_loop].
  rewrite rbi_trunc by (apply H; left; reflexivity).
  assert (H' : forall j0, In j0 idxs -> 0 <= j0 <= i) by (intros j0 Hj0; apply H; right; exact Hj0).
  destruct (rbi cs name j) as [v|]; cbn [bind]; [|reflexivity].
  destruct (is_none NO v); [apply IH; exact H'|].
  destruct best as [b0|].
  - destruct (if lowest then val_gt NO b0 v else val_lt NO b0 v) as [[|]|]; cbn [bind]; try reflexivity; apply IH; exact H'.
  - destruct (if lowest then val_gt NO v v else val_lt NO v v); cbn [bind]; [apply IH; exact H'|reflexivity].
Qed.

Lemma above_b_trunc a b j : 0 <= j <= i -> above_b NO cs' a b j = above_b NO cs a b j.
Proof.
  intros Hj. unfold above_b. rewrite !rbi_trunc by assumption.
  assert (N1 : cs <> []) by (intros E; rewrite E in Hi; cbn in Hi; lia).
  assert (N2 : cs' <> []) by (intros E; pose proof zlen_trunc as Z; rewrite E in Z; cbn in Z; lia).
  destruct cs; [congruence|]. destruct cs'; [congruence|]. reflexivity.
Qed.
Lemma below_b_trunc a b j : 0 <= j <= i -> below_b NO cs' a b j = below_b NO cs a b j.
Proof.
  intros Hj. unfold below_b. rewrite !rbi_trunc by assumption.
  assert (N1 : cs <> []) by (intros E; rewrite E in Hi; cbn in Hi; lia).
  assert (N2 : cs' <> []) by (intros E; pose proof zlen_trunc as Z; rewrite E in Z; cbn in Z; lia).
  destruct cs; [congruence|]. destruct cs'; [congruence|]. reflexivity.
Qed.

Lemma geom_avg_trunc f length j : 0 <= j <= i -> geom_avg NO f cs' length j = geom_avg NO f cs length j.
Proof.
  intros Hj. unfold geom_avg. rewrite zlen_trunc.
  assert (B1 : (i + 1 <? j + 1) || (j + 1 <? 0) = false) by lia.
  assert (B2 : (zlen cs <? j + 1) || (j + 1 <? 0) = false) by lia.
  rewrite B1, B2. rewrite pyslice_trunc; [reflexivity| |lia].
  destruct (j + 1 - length <? 0) eqn:E; lia.
Qed.
Lemma at_index_trunc j : 0 <= j <= i -> at_index NO cs' j = at_index NO cs j.
Proof. intros Hj. unfold at_index. rewrite pyidx_trunc by assumption. reflexivity. Qed.

Lemma doji_at_trunc j : 0 <= j <= i -> doji_at NO cs' j = doji_at NO cs j.
Proof.
  intros Hj. unfold doji_at, candle_doji, high_low_pct. destruct (j <? 10); [reflexivity|].
  rewrite at_index_trunc, geom_avg_trunc by assumption. reflexivity.
Qed.
Lemma dojistar_at_trunc j : 0 <= j <= i -> dojistar_at NO cs' j = dojistar_at NO cs j.
Proof.
  intros Hj. unfold dojistar_at, candle_doji, candle_bodylong, high_low_pct, realbody_pct.
  destruct (j <? 10) eqn:B; [reflexivity|].
  rewrite !at_index_trunc, !geom_avg_trunc by lia. reflexivity.
Qed.
Lemma hammer_at_trunc j : 0 <= j <= i -> hammer_at NO cs' j = hammer_at NO cs j.
Proof.
  intros Hj. unfold hammer_at, candle_bodyshort, candle_shadow_veryshort, candle_near, high_low_pct, realbody_pct.
  destruct (j <? 10) eqn:B; [reflexivity|].
  rewrite !at_index_trunc, !geom_avg_trunc by lia. reflexivity.
Qed.
Lemma inverted_hammer_at_trunc j : 0 <= j <= i -> inverted_hammer_at NO cs' j = inverted_hammer_at NO cs j.
Proof.
  intros Hj. unfold inverted_hammer_at, candle_bodyshort, candle_shadow_veryshort, high_low_pct, realbody_pct.
  destruct (j <? 10) eqn:B; [reflexivity|].
  rewrite !at_index_trunc, !geom_avg_trunc by lia. reflexivity.
Qed.

Lemma pattern_trunc at_ lookback :
  (forall j, 0 <= j <= i -> at_ cs' j = at_ cs j) ->
  pattern NO at_ cs' lookback (Some i) = pattern NO at_ cs lookback (Some i).
Proof.
  intros H. unfold pattern. rewrite zlen_trunc.
  rewrite (absindex_some i (i + 1)) by lia. rewrite (absindex_some i (zlen cs)) by lia.
  destruct lookback as [lb|].
  - rewrite (exists_m_ext (at_ cs') (at_ cs)); [reflexivity|].
    intros x Hx. apply in_zrange in Hx. apply H. lia.
  - rewrite H by lia. reflexivity.
Qed.

Lemma rise_fall_trunc falling name length : good_name name = true ->
  rise_fall NO falling cs' name length i = rise_fall NO falling cs name length i.
Proof.
  intros Hg. unfold rise_fall. rewrite zlen_trunc.
  rewrite (absindex_some i (i + 1)) by lia. rewrite (absindex_some i (zlen cs)) by lia.
  destruct (length <? 1) eqn:L1; [reflexivity|]. cbn [orb].
  rewrite pyidx_trunc by lia. rewrite clean_readings_trunc by lia.
  destruct (zlen cs <? 2) eqn:L2.
  { assert (L3 : (i + 1 <? 2) = true) by lia. rewrite L3. reflexivity. }
  destruct (i + 1 <? 2) eqn:L3; [|reflexivity].
  (* i = 0 on a longer list: the untruncated call finds no earlier readings *)
  assert (i = 0) by lia. subst i.
  destruct (pyidx_some cs 0 Hi) as [c Hc]. rewrite Hc.
  destruct (rbc_ok (p c) name Hg) as [v Hv]. rewrite Hv. cbn [bind].
  destruct (is_none NO v || is_dict NO v); [reflexivity|].
  unfold clean_readings. assert (E : (0 - length <? 0) = true) by lia. rewrite E.
  unfold pyslice, slice_bound. cbn [Z.ltb]. 
  replace (Z.min 0 (zlen cs)) with 0 by lia. cbn. reflexivity.
Qed.
Lemma mean_rise_fall_trunc falling name length : good_name name = true ->
  mean_rise_fall NO falling cs' name length i = mean_rise_fall NO falling cs name length i.
Proof.
  intros Hg. unfold mean_rise_fall. rewrite zlen_trunc.
  rewrite (absindex_some i (i + 1)) by lia. rewrite (absindex_some i (zlen cs)) by lia.
  destruct (length <? 1) eqn:L1; [reflexivity|]. cbn [orb].
  rewrite pyidx_trunc by lia. rewrite clean_readings_trunc by lia.
  destruct (zlen cs <? 2) eqn:L2.
  { assert (L3 : (i + 1 <? 2) = true) by lia. rewrite L3. reflexivity. }
  destruct (i + 1 <? 2) eqn:L3; [|reflexivity].
  assert (i = 0) by lia. subst i.
  destruct (pyidx_some cs 0 Hi) as [c Hc]. rewrite Hc.
  destruct (rbc_ok (p c) name Hg) as [v Hv]. rewrite Hv. cbn [bind].
  destruct (is_none NO v || is_dict NO v); [reflexivity|].
  unfold clean_readings. assert (E : (0 - length <? 0) = true) by lia. rewrite E.
  unfold pyslice, slice_bound. cbn [Z.ltb].
  replace (Z.min 0 (zlen cs)) with 0 by lia. cbn. reflexivity.
Qed.

(* names used by a function *)
Definition wf_afun (f : afun) : bool :=
  match f with
  | A_above a b | A_below a b => good_name a && good_name b
  | A_value_range nm _ | A_rising nm _ | A_falling nm _ | A_mean_rising nm _ | A_mean_falling nm _
  | A_highest nm _ | A_lowest nm _ | A_highestbar nm _ | A_lowestbar nm _ => good_name nm
  | A_cross a b _ | A_crossover a b _ | A_crossunder a b _ => good_name a && good_name b
  | _ => true
  end.

(* evaluating at index i on the whole list = evaluating at index i on the list cut after i *)
Theorem truncation (f : afun) : wf_afun f = true ->
  run_afun NO f cs' (Some i) = run_afun NO f cs (Some i).
Proof.
  intros Hwf.
  pose proof zlen_trunc as ZL.
  pose proof (absindex_some i (i + 1) ltac:(lia)) as A1.
  pose proof (absindex_some i (zlen cs) Hi) as A2.
  assert (V1 : valid_index i (i + 1) = true) by (unfold valid_index; lia).
  assert (V2 : valid_index i (zlen cs) = true) by (unfold valid_index; lia).
  destruct f; cbn [run_afun wf_afun] in *.
  - unfold mv_positive. rewrite ZL, V1, V2. cbn [negb]. rewrite pyidx_trunc by lia. reflexivity.
  - unfold mv_negative. rewrite ZL, V1, V2. cbn [negb]. rewrite pyidx_trunc by lia. reflexivity.
  - unfold mv_above. rewrite above_b_trunc by lia. reflexivity.
  - unfold mv_below. rewrite below_b_trunc by lia. reflexivity.
  - unfold mv_value_range. rewrite ZL, A1, A2. rewrite clean_readings_trunc by lia. reflexivity.
  - (* rising *) apply rise_fall_trunc; assumption.
  - apply rise_fall_trunc; assumption.
  - apply mean_rise_fall_trunc; assumption.
  - apply mean_rise_fall_trunc; assumption.
  - unfold mv_highest, high_low_est. rewrite ZL, A1, A2.
    assert (Z1 : (i + 1 =? 0) = false) by lia. assert (Z2 : (zlen cs =? 0) = false) by lia. rewrite Z1, Z2.
    rewrite clean_readings_trunc by lia. reflexivity.
  - unfold mv_lowest, high_low_est. rewrite ZL, A1, A2.
    assert (Z1 : (i + 1 =? 0) = false) by lia. assert (Z2 : (zlen cs =? 0) = false) by lia. rewrite Z1, Z2.
    rewrite clean_readings_trunc by lia. reflexivity.
  - unfold mv_highestbar, high_low_bar. rewrite ZL, A1, A2. rewrite bar_loop_trunc; [reflexivity|].
    intros j Hj. apply in_zrange_down in Hj. lia.
  - unfold mv_lowestbar, high_low_bar. rewrite ZL, A1, A2. rewrite bar_loop_trunc; [reflexivity|].
    intros j Hj. apply in_zrange_down in Hj. lia.
  - unfold mv_cross. rewrite ZL, A1, A2.
    erewrite exists_m_ext; [reflexivity|]. intros x Hx. apply in_zrange_down in Hx. cbn beta.
    rewrite !rbi_trunc by lia. reflexivity.
  - unfold mv_crossover, cross_dir. rewrite ZL, A1, A2.
    erewrite exists_m_ext; [reflexivity|]. intros x Hx. apply in_zrange_down in Hx. cbn beta.
    rewrite above_b_trunc, below_b_trunc by lia. reflexivity.
  - unfold mv_crossunder, cross_dir. rewrite ZL, A1, A2.
    erewrite exists_m_ext; [reflexivity|]. intros x Hx. apply in_zrange_down in Hx. cbn beta.
    rewrite above_b_trunc, below_b_trunc by lia. reflexivity.
  - unfold pt_doji. apply pattern_trunc. intros j Hj. apply doji_at_trunc. exact Hj.
  - unfold pt_dojistar. apply pattern_trunc. intros j Hj. apply dojistar_at_trunc. exact Hj.
  - unfold pt_hammer. apply pattern_trunc. intros j Hj. apply hammer_at_trunc. exact Hj.
  - unfold pt_inverted_hammer. apply pattern_trunc. intros j Hj. apply inverted_hammer_at_trunc. exact Hj.
Qed.
End Truncate.

End AnalysisProofs.

Section Causal.
Context (NO : NumOps).
Notation cd := (cd (payload NO)).

Lemma default_index_is_minus_one (f : afun) (cs : list cd) : run_afun NO f cs None = run_afun NO f cs (Some (-1)).
Proof. destruct f; reflexivity. Qed.

(* the answer for candle i is the answer at the default (latest) position of the list cut
   after candle i: it cannot depend on later candles *)
Theorem causal (f : afun) (cs : list cd) (i : Z) : wf_afun f = true -> 0 <= i < zlen cs ->
  run_afun NO f cs (Some i) = run_afun NO f (firstn (Z.to_nat (i + 1)) cs) None.
Proof.
  intros Hwf Hi. rewrite default_index_is_minus_one.
  pose proof (zlen_trunc NO cs i Hi) as ZL.
  replace (-1) with (i - zlen (firstn (Z.to_nat (i + 1)) cs)) by lia.
  rewrite negative_index_consistent by lia.
  symmetry. apply truncation; assumption.
Qed.
End Causal.

Section Meaning.
Context (NO : NumOps).
Notation cd := (cd (payload NO)).

(* above / below: strict comparison of the two readings; a missing reading never makes
   the predicate true *)
Theorem above_below_meaning (cs : list cd) a b i r1 r2 : cs <> [] ->
  reading_by_index NO cs a i = Ok r1 -> reading_by_index NO cs b i = Ok r2 ->
  (is_none NO r1 || is_none NO r2 = true -> above_b NO cs a b i = Ok false /\ below_b NO cs a b i = Ok false) /\
  (forall x y, r1 = VNum x -> r2 = VNum y ->
     above_b NO cs a b i = Ok (nltb NO y x) /\ below_b NO cs a b i = Ok (nltb NO x y)).
Proof.
  intros Hne H1 H2. unfold above_b, below_b. destruct cs as [|c0 cs0]; [congruence|].
  rewrite H1, H2. cbn [bind]. split.
  - intros Hn. destruct r1, r2; cbn in *; try discriminate; split; reflexivity.
  - intros x y -> ->. cbn. split; reflexivity.
Qed.

(* crossover with length 1: above now and below one candle earlier (crossunder: mirrored) *)
Theorem cross_meaning (cs : list cd) a b i : 1 <= i < zlen cs ->
  mv_crossover NO cs a b 1 i =
    (x <- above_b NO cs a b i ;; if negb x then Ok (VBool false) else y <- below_b NO cs a b (i - 1) ;; Ok (VBool y)) /\
  mv_crossunder NO cs a b 1 i =
    (x <- below_b NO cs a b i ;; if negb x then Ok (VBool false) else y <- above_b NO cs a b (i - 1) ;; Ok (VBool y)).
Proof.
  intros Hi. unfold mv_crossover, mv_crossunder, cross_dir.
  rewrite (absindex_some i (zlen cs)) by lia.
  replace (Z.max (i - 1) 0) with (i - 1) by lia.
  unfold zrange_down. replace (Z.to_nat (i - (i - 1))) with 1%nat by lia. cbn [seq map exists_m].
  replace (i - Z.of_nat 0) with i by lia.
  split.
  - destruct (above_b NO cs a b i) as [[|]|]; cbn [bind negb]; try reflexivity.
    destruct (below_b NO cs a b (i - 1)) as [[|]|]; reflexivity.
  - destruct (below_b NO cs a b i) as [[|]|]; cbn [bind negb]; try reflexivity.
    destruct (above_b NO cs a b (i - 1)) as [[|]|]; reflexivity.
Qed.
End Meaning.

Lemma Forall2_len {A B} (R : A -> B -> Prop) : forall l1 l2, Forall2 R l1 l2 -> List.length l1 = List.length l2.
Proof. induction 1; cbn; congruence. Qed.

(* ---------------------------------------------------------------- congruence *)
(* An analysis function sees a candle only through its OHLCV and the readings it names:
   lists that agree on those give the same answer. *)
Section Sim.
Context (NO : NumOps).
Notation cd := (cd (payload NO)).
Notation rbi := (reading_by_index NO).

Definition names_of (f : afun) : list string :=
  match f with
  | A_above a b | A_below a b | A_cross a b _ | A_crossover a b _ | A_crossunder a b _ => [a; b]
  | A_value_range nm _ | A_rising nm _ | A_falling nm _ | A_mean_rising nm _ | A_mean_falling nm _
  | A_highest nm _ | A_lowest nm _ | A_highestbar nm _ | A_lowestbar nm _ => [nm]
  | _ => []
  end.

Variable names : list string.
Definition sim (c1 c2 : cd) : Prop :=
  cur NO (p c1) = cur NO (p c2) /\
  forall n, In n names -> reading_by_candle NO (p c1) n = reading_by_candle NO (p c2) n.

Lemma sim_len (cs1 cs2 : list cd) : Forall2 sim cs1 cs2 -> zlen cs1 = zlen cs2.
Proof. intros Hsim. unfold zlen. f_equal. eapply Forall2_len. exact Hsim. Qed.

Lemma sim_nth (cs1 cs2 : list cd) : Forall2 sim cs1 cs2 -> forall k, match nth_error cs1 k, nth_error cs2 k with
  | Some c1, Some c2 => sim c1 c2 | None, None => True | _, _ => False end.
Proof.
  induction 1 as [|c1 c2 l1 l2 Hc H IH]; intros k; [destruct k; exact I|].
  destruct k as [|k]; cbn; [exact Hc|apply IH].
Qed.
Lemma sim_pyidx (cs1 cs2 : list cd) (Hsim : Forall2 sim cs1 cs2) j : match pyidx cs1 j, pyidx cs2 j with
  | Some c1, Some c2 => sim c1 c2 | None, None => True | _, _ => False end.
Proof.
  unfold pyidx. rewrite <- (sim_len cs1 cs2 Hsim).
  destruct ((0 <=? j) && (j <? zlen cs1)); [apply sim_nth; exact Hsim|].
  destruct ((j <? 0) && (- zlen cs1 <=? j)); [apply sim_nth; exact Hsim|exact I].
Qed.

Lemma rbi_sim (cs1 cs2 : list cd) (Hsim : Forall2 sim cs1 cs2) n j : In n names -> rbi cs1 n j = rbi cs2 n j.
Proof.
  intros Hn. unfold reading_by_index. rewrite <- (sim_len cs1 cs2 Hsim). destruct (negb (valid_index j (zlen cs1))); [reflexivity|].
  pose proof (sim_pyidx cs1 cs2 Hsim j) as H. destruct (pyidx cs1 j), (pyidx cs2 j); try contradiction; [|reflexivity].
  apply H. exact Hn.
Qed.

Lemma sim_firstn (cs1 cs2 : list cd) : Forall2 sim cs1 cs2 -> forall k, Forall2 sim (firstn k cs1) (firstn k cs2).
Proof.
  induction 1 as [|c1 c2 l1 l2 Hc H IH]; intros k; [destruct k; constructor|].
  destruct k; cbn; [constructor|constructor; [exact Hc|apply IH]].
Qed.
Lemma sim_skipn (cs1 cs2 : list cd) : Forall2 sim cs1 cs2 -> forall k, Forall2 sim (skipn k cs1) (skipn k cs2).
Proof.
  induction 1 as [|c1 c2 l1 l2 Hc H IH]; intros k; [destruct k; constructor|].
  destruct k; cbn; [constructor; assumption|apply IH].
Qed.
End Sim.

Section Sim2.
Context (NO : NumOps).
Notation cd := (cd (payload NO)).
Variable names : list string.

Lemma sim_pyslice (cs1 cs2 : list cd) a b : Forall2 (sim NO names) cs1 cs2 ->
  Forall2 (sim NO names) (pyslice cs1 a b) (pyslice cs2 a b).
Proof.
  intros H. unfold pyslice. rewrite <- (sim_len NO names cs1 cs2 H).
  destruct (slice_bound (zlen cs1) b <=? slice_bound (zlen cs1) a); [constructor|].
  apply sim_firstn. apply sim_skipn. exact H.
Qed.

Lemma mapM_sim (l1 l2 : list cd) n : In n names -> Forall2 (sim NO names) l1 l2 ->
  mapM (fun c => reading_by_candle NO (p c) n) l1 = mapM (fun c => reading_by_candle NO (p c) n) l2.
Proof.
  intros Hn H. induction H as [|c1 c2 l1 l2 Hc H IH]; [reflexivity|]. cbn [mapM].
  destruct Hc as [_ Hc]. rewrite (Hc n Hn), IH. reflexivity.
Qed.
Lemma map_cur_sim (l1 l2 : list cd) (g : ohlcv NO -> num NO) : Forall2 (sim NO names) l1 l2 ->
  map (fun c => g (cur NO (p c))) l1 = map (fun c => g (cur NO (p c))) l2.
Proof.
  intros H. induction H as [|c1 c2 l1 l2 Hc H IH]; [reflexivity|]. cbn [map].
  destruct Hc as [Hc _]. rewrite Hc, IH. reflexivity.
Qed.

Variables cs1 cs2 : list cd.
Hypothesis Hsim : Forall2 (sim NO names) cs1 cs2.

Lemma clean_readings_sim n length j incl : In n names ->
  clean_readings NO cs1 n length j incl = clean_readings NO cs2 n length j incl.
Proof. intros Hn. unfold clean_readings. rewrite (mapM_sim _ _ n Hn (sim_pyslice cs1 cs2 _ _ Hsim)). reflexivity. Qed.

Lemma at_index_sim j : at_index NO cs1 j = at_index NO cs2 j.
Proof.
  unfold at_index. pose proof (sim_pyidx NO names cs1 cs2 Hsim j) as H.
  destruct (pyidx cs1 j), (pyidx cs2 j); try contradiction; [|reflexivity]. destruct H as [H _]. rewrite H. reflexivity.
Qed.
Lemma geom_avg_sim g length j : geom_avg NO g cs1 length j = geom_avg NO g cs2 length j.
Proof.
  unfold geom_avg. rewrite <- (sim_len NO names cs1 cs2 Hsim).
  destruct ((zlen cs1 <? j + 1) || (j + 1 <? 0)); [reflexivity|].
  rewrite (map_cur_sim _ _ g (sim_pyslice cs1 cs2 _ _ Hsim)). reflexivity.
Qed.

Lemma above_b_sim a b j : In a names -> In b names -> above_b NO cs1 a b j = above_b NO cs2 a b j.
Proof.
  intros Ha Hb. unfold above_b. rewrite (rbi_sim NO names cs1 cs2 Hsim a j Ha), (rbi_sim NO names cs1 cs2 Hsim b j Hb).
  inversion Hsim; reflexivity.
Qed.
Lemma below_b_sim a b j : In a names -> In b names -> below_b NO cs1 a b j = below_b NO cs2 a b j.
Proof.
  intros Ha Hb. unfold below_b. rewrite (rbi_sim NO names cs1 cs2 Hsim a j Ha), (rbi_sim NO names cs1 cs2 Hsim b j Hb).
  inversion Hsim; reflexivity.
Qed.

Lemma bar_loop_sim lowest n : In n names -> forall idxs k best d,
  bar_loop NO lowest cs1 n idxs k best d = bar_loop NO lowest cs2 n idxs k best d.
Proof.
  intros Hn. induction idxs as [|j idxs IH]; intros k best d; [reflexivity|]. cbn [bar_loop].
  rewrite (rbi_sim NO names cs1 cs2 Hsim n j Hn).
  destruct (reading_by_index NO cs2 n j) as [v|]; cbn [bind]; [|reflexivity].
  destruct (is_none NO v); [apply IH|]. destruct best as [b0|].
  - destruct (if lowest then val_gt NO b0 v else val_lt NO b0 v) as [[|]|]; cbn [bind]; try reflexivity; apply IH.
  - destruct (if lowest then val_gt NO v v else val_lt NO v v); cbn [bind]; [apply IH|reflexivity].
Qed.

Lemma pattern_sim at_ lookback index :
  (forall j, at_ cs1 j = at_ cs2 j) -> pattern NO at_ cs1 lookback index = pattern NO at_ cs2 lookback index.
Proof.
  intros H. unfold pattern. rewrite <- (sim_len NO names cs1 cs2 Hsim).
  destruct (absindex _ (zlen cs1)) as [i|]; [|reflexivity].
  destruct lookback as [lb|]; [|rewrite H; reflexivity].
  rewrite (exists_m_ext (at_ cs1) (at_ cs2)); [reflexivity|]. intros x _. apply H.
Qed.

Theorem run_afun_sim (f : afun) index : incl (names_of f) names ->
  run_afun NO f cs1 index = run_afun NO f cs2 index.
Proof.
  intros Hn. pose proof (sim_len NO names cs1 cs2 Hsim) as ZL.
  assert (IN : forall n, In n (names_of f) -> In n names) by (intros n H; apply Hn; exact H).
  destruct f; cbn [run_afun names_of] in *.
  - unfold mv_positive. rewrite <- ZL. destruct (negb (valid_index _ (zlen cs1))); [reflexivity|].
    pose proof (sim_pyidx NO names cs1 cs2 Hsim (match index with Some i => i | None => -1 end)) as H.
    destruct (pyidx cs1 _), (pyidx cs2 _); try contradiction; [|reflexivity]. destruct H as [H _]. rewrite H. reflexivity.
  - unfold mv_negative. rewrite <- ZL. destruct (negb (valid_index _ (zlen cs1))); [reflexivity|].
    pose proof (sim_pyidx NO names cs1 cs2 Hsim (match index with Some i => i | None => -1 end)) as H.
    destruct (pyidx cs1 _), (pyidx cs2 _); try contradiction; [|reflexivity]. destruct H as [H _]. rewrite H. reflexivity.
  - unfold mv_above. rewrite above_b_sim by (apply IN; cbn; tauto). reflexivity.
  - unfold mv_below. rewrite below_b_sim by (apply IN; cbn; tauto). reflexivity.
  - unfold mv_value_range. rewrite <- ZL. destruct (absindex _ (zlen cs1)); [|reflexivity].
    rewrite clean_readings_sim by (apply IN; cbn; tauto). reflexivity.
  - unfold mv_rising, rise_fall. rewrite <- ZL. destruct (absindex _ (zlen cs1)) as [i|]; [|reflexivity].
    destruct ((length <? 1) || (zlen cs1 <? 2)); [reflexivity|].
    pose proof (sim_pyidx NO names cs1 cs2 Hsim (match index with Some i0 => i0 | None => -1 end)) as H.
    destruct (pyidx cs1 _), (pyidx cs2 _); try contradiction; [|reflexivity]. destruct H as [_ H].
    rewrite (H name) by (apply IN; cbn; tauto). rewrite clean_readings_sim by (apply IN; cbn; tauto). reflexivity.
  - unfold mv_falling, rise_fall. rewrite <- ZL. destruct (absindex _ (zlen cs1)) as [i|]; [|reflexivity].
    destruct ((length <? 1) || (zlen cs1 <? 2)); [reflexivity|].
    pose proof (sim_pyidx NO names cs1 cs2 Hsim (match index with Some i0 => i0 | None => -1 end)) as H.
    destruct (pyidx cs1 _), (pyidx cs2 _); try contradiction; [|reflexivity]. destruct H as [_ H].
    rewrite (H name) by (apply IN; cbn; tauto). rewrite clean_readings_sim by (apply IN; cbn; tauto). reflexivity.
  - unfold mv_mean_rising, mean_rise_fall. rewrite <- ZL. destruct (absindex _ (zlen cs1)) as [i|]; [|reflexivity].
    destruct ((length <? 1) || (zlen cs1 <? 2)); [reflexivity|].
    pose proof (sim_pyidx NO names cs1 cs2 Hsim i) as H.
    destruct (pyidx cs1 i), (pyidx cs2 i); try contradiction; [|reflexivity]. destruct H as [_ H].
    rewrite (H name) by (apply IN; cbn; tauto). rewrite clean_readings_sim by (apply IN; cbn; tauto). reflexivity.
  - unfold mv_mean_falling, mean_rise_fall. rewrite <- ZL. destruct (absindex _ (zlen cs1)) as [i|]; [|reflexivity].
    destruct ((length <? 1) || (zlen cs1 <? 2)); [reflexivity|].
    pose proof (sim_pyidx NO names cs1 cs2 Hsim i) as H.
    destruct (pyidx cs1 i), (pyidx cs2 i); try contradiction; [|reflexivity]. destruct H as [_ H].
    rewrite (H name) by (apply IN; cbn; tauto). rewrite clean_readings_sim by (apply IN; cbn; tauto). reflexivity.
  - unfold mv_highest, high_low_est. rewrite <- ZL. destruct (absindex _ (zlen cs1)); [|reflexivity].
    destruct ((length <? 1) || (zlen cs1 =? 0)); [reflexivity|].
    rewrite clean_readings_sim by (apply IN; cbn; tauto). reflexivity.
  - unfold mv_lowest, high_low_est. rewrite <- ZL. destruct (absindex _ (zlen cs1)); [|reflexivity].
    destruct ((length <? 1) || (zlen cs1 =? 0)); [reflexivity|].
    rewrite clean_readings_sim by (apply IN; cbn; tauto). reflexivity.
  - unfold mv_highestbar, high_low_bar. rewrite <- ZL. destruct (absindex _ (zlen cs1)); [|reflexivity].
    rewrite bar_loop_sim by (apply IN; cbn; tauto). reflexivity.
  - unfold mv_lowestbar, high_low_bar. rewrite <- ZL. destruct (absindex _ (zlen cs1)); [|reflexivity].
    rewrite bar_loop_sim by (apply IN; cbn; tauto). reflexivity.
  - unfold mv_cross. rewrite <- ZL. destruct (absindex _ (zlen cs1)); [|reflexivity].
    erewrite exists_m_ext; [reflexivity|]. intros x _. cbn beta.
    rewrite !(rbi_sim NO names cs1 cs2 Hsim a) by (apply IN; cbn; tauto).
    rewrite !(rbi_sim NO names cs1 cs2 Hsim b) by (apply IN; cbn; tauto). reflexivity.
  - unfold mv_crossover, cross_dir. rewrite <- ZL. destruct (absindex _ (zlen cs1)); [|reflexivity].
    erewrite exists_m_ext; [reflexivity|]. intros x _. cbn beta.
    rewrite !above_b_sim, !below_b_sim by (apply IN; cbn; tauto). reflexivity.
  - unfold mv_crossunder, cross_dir. rewrite <- ZL. destruct (absindex _ (zlen cs1)); [|reflexivity].
    erewrite exists_m_ext; [reflexivity|]. intros x _. cbn beta.
    rewrite !above_b_sim, !below_b_sim by (apply IN; cbn; tauto). reflexivity.
  - unfold pt_doji. apply pattern_sim. intros j. unfold doji_at, candle_doji, high_low_pct.
    rewrite at_index_sim, geom_avg_sim. reflexivity.
  - unfold pt_dojistar. apply pattern_sim. intros j.
    unfold dojistar_at, candle_doji, candle_bodylong, high_low_pct, realbody_pct.
    rewrite !at_index_sim, !geom_avg_sim. reflexivity.
  - unfold pt_hammer. apply pattern_sim. intros j.
    unfold hammer_at, candle_bodyshort, candle_shadow_veryshort, candle_near, high_low_pct, realbody_pct.
    rewrite !at_index_sim, !geom_avg_sim. reflexivity.
  - unfold pt_inverted_hammer. apply pattern_sim. intros j.
    unfold inverted_hammer_at, candle_bodyshort, candle_shadow_veryshort, high_low_pct, realbody_pct.
    rewrite !at_index_sim, !geom_avg_sim. reflexivity.
Qed.
End Sim2.
