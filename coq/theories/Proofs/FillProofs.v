(* Proofs about fill_missing_candles and trim_candles (Model/Manager.v). *)
From Coq Require Import ZArith List Bool Lia ZifyBool.
From Hexital Require Import Base.Prelude Model.Manager Proofs.CollapseProofs.
Import ListNotations.
Local Open Scope Z_scope.

Section FillProofs.
Variable P : Type.
Variable fillp : P -> P.
Notation cd := (cd P).
Notation fill := (fill P fillp).
Notation fill_from := (fill_from P fillp).
Notation fill_run := (fill_run P fillp).

(* The relation the property text describes: [out] is [l] with, in every gap, candles one
   timeframe apart whose payload is built from the candle just before them. *)
Inductive Filled (tf : Z) : cd -> list cd -> list cd -> Prop :=
| Filled_nil prev : Filled tf prev [] []
| Filled_real prev c l out :
    t c = t prev + tf -> Filled tf c l out -> Filled tf prev (c :: l) (c :: out)
| Filled_gap prev c l out :
    t prev + tf < t c ->
    Filled tf {| t := t prev + tf; p := fillp (p prev) |} (c :: l) out ->
    Filled tf prev (c :: l) ({| t := t prev + tf; p := fillp (p prev) |} :: out).

Lemma fill_run_filled tf (Htf : 0 < tf) : forall n prev c l rest,
  t c = t prev + (Z.of_nat n + 1) * tf -> Filled tf c l rest ->
  Filled tf prev (c :: l) (fill_run n tf prev ++ c :: rest).
Proof.
  induction n as [|n IH]; intros prev c l rest Ht Hr; cbn [Manager.fill_run app].
  - apply Filled_real; [lia|exact Hr].
  - apply Filled_gap; [nia|]. apply IH; [cbn [t]; lia|exact Hr].
Qed.

Lemma fill_from_filled tf (Htf : 0 < tf) : forall l prev out,
  fill_from tf prev l = Ok out -> Filled tf prev l out.
Proof.
  induction l as [|c l IH]; intros prev out H; cbn [Manager.fill_from] in H.
  - inversion H. constructor.
  - destruct ((t prev <? t c) && ((t c - t prev) mod tf =? 0)) eqn:B; [|discriminate].
    destruct (fill_from tf c l) as [rest|e] eqn:E; cbn [bind] in H; [|discriminate].
    inversion H; subst out. clear H.
    assert (Hm : (t c - t prev) mod tf = 0) by lia.
    apply Z.mod_divide in Hm; [|lia]. destruct Hm as [k Hk].
    assert (Hk1 : 1 <= k) by nia.
    rewrite Hk, Z.div_mul by lia.
    apply fill_run_filled; [assumption| |apply IH; exact E].
    rewrite Z2Nat.id by lia. lia.
Qed.

(* fill succeeds on every strictly increasing list on the grid *)
Lemma fill_from_ok tf (Htf : 0 < tf) : forall l prev,
  t prev mod tf = 0 -> on_grid P tf l -> strictly_inc_from P (t prev) l ->
  exists out, fill_from tf prev l = Ok out.
Proof.
  induction l as [|c l IH]; intros prev Pm G S; [eexists; reflexivity|].
  inversion G as [|? ? Cm G']; subst. destruct S as [S1 S2].
  cbn [Manager.fill_from].
  assert (B : (t prev <? t c) && ((t c - t prev) mod tf =? 0) = true).
  { assert ((t c - t prev) mod tf = 0); [|lia].
    rewrite Zminus_mod, Cm, Pm. reflexivity. }
  rewrite B. destruct (IH c Cm G' S2) as [rest ->]. eexists; reflexivity.
Qed.

(* consequences of [Filled] *)
Fixpoint contiguous_from (tf r : Z) (l : list cd) : Prop :=
  match l with [] => True | c :: l' => t c = r + tf /\ contiguous_from tf (t c) l' end.

Lemma filled_contiguous tf prev l out : Filled tf prev l out -> contiguous_from tf (t prev) out.
Proof. induction 1; cbn [contiguous_from t]; auto. Qed.

(* the real candles are preserved, in order: dropping what was inserted gives back [l] *)
Fixpoint drop_inserted (orig out : list cd) : list cd :=
  match out with
  | [] => []
  | c :: out' =>
    match orig with
    | o :: orig' => if t c =? t o then c :: drop_inserted orig' out' else drop_inserted orig out'
    | [] => []
    end
  end.
Lemma filled_preserves tf prev l out : Filled tf prev l out -> drop_inserted l out = l.
Proof.
  induction 1; cbn [drop_inserted t]; [reflexivity| |].
  - rewrite Z.eqb_refl. f_equal. destruct l; [destruct out; reflexivity|exact IHFilled].
  - assert (N : (t prev + tf =? t c) = false) by lia. rewrite N. exact IHFilled.
Qed.

(* every candle of the output is an original one or a fill candle made from its predecessor *)
Fixpoint from_prev_or_orig (orig : list cd) (prev : cd) (out : list cd) : Prop :=
  match out with
  | [] => True
  | c :: out' => (In c orig \/ c = {| t := t prev + 0 + (t c - t prev); p := fillp (p prev) |}) /\
                 from_prev_or_orig orig c out'
  end.
Lemma filled_flat tf prev l out : Filled tf prev l out -> forall orig, incl l orig -> from_prev_or_orig orig prev out.
Proof.
  induction 1; intros orig Hi; cbn [from_prev_or_orig]; [exact I| |].
  - split; [left; apply Hi; left; reflexivity|]. apply IHFilled. intros x Hx. apply Hi. right. exact Hx.
  - split; [right; cbn [t]; f_equal; lia|]. apply IHFilled. exact Hi.
Qed.

Theorem fill_spec tf l out : 0 < tf -> fill tf l = Ok out ->
  match l, out with
  | [], [] => True
  | c0 :: l', c0' :: out' => c0' = c0 /\ Filled tf c0 l' out'
  | _, _ => False
  end.
Proof.
  intros Htf H. destruct l as [|c0 l']; cbn [Manager.fill] in H; [inversion H; exact I|].
  destruct (fill_from tf c0 l') as [rest|e] eqn:E; cbn [bind] in H; [|discriminate].
  inversion H. split; [reflexivity|apply fill_from_filled; assumption].
Qed.

Theorem fill_total tf l : 0 < tf -> on_grid P tf l -> strictly_inc P l -> exists out, fill tf l = Ok out.
Proof.
  intros Htf G S. destruct l as [|c0 l']; [eexists; reflexivity|].
  inversion G as [|? ? Cm G']; subst. cbn [Manager.fill].
  destruct (fill_from_ok tf Htf l' c0 Cm G' S) as [rest ->]. eexists; reflexivity.
Qed.

(* ---- trim ---- *)
Lemma drop_older_filter : forall (l : list cd) bound r,
  sorted_from P r l -> drop_older P bound l = filter (fun c => negb (t c <? bound)) l.
Proof.
  induction l as [|c l IH]; intros bound r H; [reflexivity|]. destruct H as [H1 H2].
  cbn [drop_older filter]. destruct (t c <? bound) eqn:B; cbn [negb].
  - apply (IH _ (t c)). exact H2.
  - f_equal. (* everything after is >= t c >= bound *)
    clear IH H1.
    assert (G : forall (l0 : list cd) r1, bound <= r1 -> sorted_from P r1 l0 -> l0 = filter (fun c => negb (t c <? bound)) l0).
    { induction l0 as [|x l0 IHl]; intros r1 Hb Hs; [reflexivity|]. destruct Hs as [Hs1 Hs2].
      cbn [filter]. assert (N : (t x <? bound) = false) by lia. rewrite N. cbn [negb]. f_equal.
      apply (IHl (t x)); [lia|exact Hs2]. }
    apply (G l (t c)); [lia|exact H2].
Qed.
End FillProofs.

Section TrimProofs.
Variable P : Type.
Notation cd := (cd P).

Lemma strictly_inc_from_sorted : forall (l : list cd) r, strictly_inc_from P r l -> sorted_from P r l.
Proof. induction l as [|c l IH]; intros r H; [exact I|]. destruct H as [H1 H2]. split; [lia|apply IH; exact H2]. Qed.

Lemma contiguous_sorted tf : 0 < tf -> forall (l : list cd) r, contiguous_from P tf r l -> sorted_from P r l.
Proof.
  intros Htf. induction l as [|x xs IH]; intros r F; [exact I|].
  destruct F as [F1 F2]. split; [lia|apply IH; exact F2].
Qed.

Definition newest (l : list cd) : option Z := match rev l with [] => None | c :: _ => Some (t c) end.

Theorem trim_is_filter (ls : Z) (l : list cd) : sorted P l ->
  trim P (Some ls) l =
  match newest l with
  | None => l
  | Some tn => filter (fun c => negb (t c <? tn - ls)) l
  end.
Proof.
  intros Hs. unfold trim, newest. destruct (rev l) as [|lastc r] eqn:E; [reflexivity|].
  destruct l as [|c0 l']; [discriminate|].
  apply (drop_older_filter P (c0 :: l') (t lastc - ls) (t c0)). split; [lia|exact Hs].
Qed.

(* nothing newer than the bound is ever dropped, nothing older is ever kept: the newest
   candle always survives when the lifespan is non-negative *)
Theorem trim_keeps_newest (ls : Z) (l : list cd) c pre : 0 <= ls -> l = pre ++ [c] -> sorted P l ->
  exists pre', trim P (Some ls) l = pre' ++ [c].
Proof.
  intros Hls El Hs. rewrite (trim_is_filter ls l Hs). unfold newest. rewrite El, rev_unit.
  rewrite filter_app. cbn [filter]. assert (N : (t c <? t c - ls) = false) by lia. rewrite N. cbn [negb].
  eexists; reflexivity.
Qed.
End TrimProofs.
