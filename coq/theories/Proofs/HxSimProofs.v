(* The candles of every timeframe of a Hexital evolve independently of its indicators: a
   Hexital and a bare dictionary of candle managers that is given the same appends (and creates
   a timeframe whenever the Hexital does) hold, manager by manager, the same candles up to
   readings - through any program of append / calculate / purge / recalculate /
   calculate_index / remove_indicator / add_indicator (C08, C19). *)
From Coq Require Import ZArith List String Bool Lia.
From Hexital Require Import Base.Prelude Base.Num Model.Manager Model.Candle Model.Readings Model.Engine
  Model.Hexital Proofs.ListProofs Proofs.FrameProofs Proofs.DeliverProofs Proofs.ParamProofs.
Import ListNotations.
Local Open Scope string_scope.
Local Open Scope Z_scope.

Section HxSim.
Context (NO : NumOps).
Notation payload := (payload NO).
Notation cd := (cd payload).
Notation store := (store NO).
Notation hexital := (hexital NO).
Notation mgrs := (list (string * (mcfg * store))).
Notation DL := (RL payload (same_data NO)).
Notation DR := (RR payload (same_data NO)).

Lemma same_data_sym a b : same_data NO a b -> same_data NO b a.
Proof. intros (A & B & C). repeat split; congruence. Qed.
Lemma same_data_trans a b c : same_data NO a b -> same_data NO b c -> same_data NO a c.
Proof. intros (A & B & C) (A' & B' & C'). repeat split; congruence. Qed.
Lemma DL_sym (l l' : store) : DL l l' -> DL l' l.
Proof. intros H; induction H as [|x y l l' [Ht Hp] H IH]; constructor; [split; [congruence|apply same_data_sym; exact Hp]|exact IH]. Qed.
Lemma DL_trans (a b c : store) : DL a b -> DL b c -> DL a c.
Proof.
  intros H; revert c; induction H as [|x y l l' [Ht Hp] H IH]; intros c Hc; inversion Hc as [|y' z ? ? [Ht' Hp'] Hc']; subst; constructor.
  - split; [congruence|eapply same_data_trans; eassumption].
  - apply IH; assumption.
Qed.
Lemma data_eq_DL (st st' : store) : data_eq NO st st' -> DL st st'.
Proof.
  intros H; induction H as [|c c' l l' (A & B & C & D) H IH]; constructor; [|exact IH].
  split; [congruence|]. repeat split; congruence.
Qed.

(* the bare managers *)
Definition m_append (M : mgrs) (new : list cd) : res mgrs :=
  mapM (fun kv : string * (mcfg * store) =>
          let '(k, (cfg, st)) := kv in st' <- mgr_append NO cfg st new ;; Ok (k, (cfg, st'))) M.
Definition m_attach (hcfg : mcfg) (M : mgrs) (own : option (string * Z)) : res mgrs :=
  match own with
  | None => Ok M
  | Some (key, tfs) =>
    match alist_get key M with
    | Some _ => Ok M
    | None =>
      '(_, dst) <- of_opt KeyError (alist_get "default" M) ;;
      let cfg' := {| tf := Some tfs; fillon := fillon hcfg; ha := ha hcfg; lifespan := lifespan hcfg |} in
      st <- tasks NO cfg' (map (clean_copy NO) dst) ;;
      Ok (M ++ [(key, (cfg', st))])%list
    end
  end.
Definition m_step (hcfg : mcfg) (M : mgrs) (op : hop NO) : res mgrs :=
  match op with
  | HAppend _ new => m_append M new
  | HAdd _ _ own => m_attach hcfg M own
  | _ => Ok M
  end.

Lemma mgrs_rel_sym (a b : mgrs) : mgrs_rel NO DL a b -> mgrs_rel NO DL b a.
Proof.
  intros H; induction H as [|x y l l' (A & B & C) H IH]; constructor; [|exact IH].
  repeat split; try congruence. apply DL_sym. exact C.
Qed.

Lemma alist_get_rel (R : store -> store -> Prop) k : forall (l l' : mgrs), mgrs_rel NO R l l' ->
  match alist_get k l, alist_get k l' with
  | Some (c, s), Some (c', s') => c' = c /\ R s s'
  | None, None => True
  | _, _ => False
  end.
Proof.
  intros l l' H; induction H as [|[k1 [c1 s1]] [k2 [c2 s2]] l l' (A & B & C) H IH]; cbn [alist_get]; [exact Logic.I|].
  cbn [fst snd] in A, B, C. subst k2. destruct (String.eqb k k1); [split; assumption|exact IH].
Qed.

Lemma clean_copy_same : forall (l l' : store), DL l l' -> map (clean_copy NO) l = map (clean_copy NO) l'.
Proof.
  intros l l' H; induction H as [|c c' l l' [Ht Hp] H IH]; cbn [map]; [reflexivity|]. rewrite IH. f_equal.
  unfold clean_copy. rewrite Ht, (recovered_same NO _ _ Hp). reflexivity.
Qed.

Lemma append_sim (new : list cd) : forall (A A' M : mgrs),
  Forall2 (fun kv kv' => fst kv' = fst kv /\ fst (snd kv') = fst (snd kv) /\
                         exists st1, mgr_append NO (fst (snd kv)) (snd (snd kv)) new = Ok st1 /\
                                     data_eq NO st1 (snd (snd kv'))) A A' ->
  mgrs_rel NO DL A M ->
  exists M', m_append M new = Ok M' /\ mgrs_rel NO DL A' M'.
Proof.
  intros A A' M H; revert M. induction H as [|[k [c s]] [k' [c' s']] l l' (E1 & E2 & st1 & Ea & Ed) H IH]; intros M HM; inversion HM as [|? [km [cm sm]] ? lm (F1 & F2 & F3) HM']; subst.
  - exists []. split; [reflexivity|constructor].
  - cbn [fst snd] in *. subst k' c' km cm.
    destruct (IH lm HM') as (M' & EM & RM).
    pose proof (mgr_append_same NO c s sm new F3) as HS. rewrite Ea in HS.
    destruct (mgr_append NO c sm new) as [sm1|] eqn:Em; cbn [RR] in HS; [|contradiction].
    exists ((k, (c, sm1)) :: M'). split.
    + unfold m_append in *. cbn [mapM]. rewrite Em. cbn [bind]. rewrite EM. reflexivity.
    + constructor; [|exact RM]. cbn [fst snd]. repeat split.
      eapply DL_trans; [apply DL_sym, data_eq_DL; exact Ed|exact HS].
Qed.

Definition op_wf (op : hop NO) : Prop := match op with HAdd _ J _ => wf_tree NO FUEL J | _ => True end.

Lemma attach_sim hcfg (h h' : hexital) J own (M : mgrs) :
  mgrs_rel NO DL (h_mgrs NO h) M -> hx_attach NO hcfg h J own = Ok h' ->
  (exists M', m_attach hcfg M own = Ok M' /\ mgrs_rel NO DL (h_mgrs NO h') M') /\
  h_members NO h' = (h_members NO h ++ [{| m_ind := J; m_mgr := match own with None => "default" | Some (key, _) => key end |}])%list.
Proof.
  intros HM H. unfold hx_attach in H. destruct own as [[key tfs]|].
  - pose proof (alist_get_rel DL key _ _ HM) as HK. unfold m_attach.
    destruct (alist_get key (h_mgrs NO h)) as [[c s]|] eqn:G, (alist_get key M) as [[c' s']|] eqn:G'; try contradiction.
    + inversion H; subst. cbn [h_mgrs h_members]. split; [exists M; split; [reflexivity|exact HM]|reflexivity].
    + unfold get_mgr in H. pose proof (alist_get_rel DL "default" _ _ HM) as HD.
      destruct (alist_get "default" (h_mgrs NO h)) as [[dc ds]|] eqn:D, (alist_get "default" M) as [[dc' ds']|] eqn:D'; try contradiction;
        cbn [of_opt bind] in *; [|discriminate].
      destruct HD as [_ HD]. rewrite <- (clean_copy_same _ _ HD).
      destruct (tasks NO _ (map (clean_copy NO) ds)) as [st|] eqn:T; cbn [bind] in *; [|discriminate].
      inversion H; subst. cbn [h_mgrs h_members]. split; [|reflexivity].
      eexists. split; [reflexivity|]. apply Forall2_app; [exact HM|]. constructor; [|constructor].
      cbn [fst snd]. repeat split. apply DL_refl.
  - inversion H; subst. cbn [h_mgrs h_members]. split; [exists M; split; [reflexivity|exact HM]|reflexivity].
Qed.

(* one operation *)
Theorem hx_step_sim (hcfg : mcfg) (h h' : hexital) (op : hop NO) (M : mgrs) :
  members_wf NO h -> op_wf op -> mgrs_rel NO DL (h_mgrs NO h) M -> hx_step NO hcfg h op = Ok h' ->
  (exists M', m_step hcfg M op = Ok M' /\ mgrs_rel NO DL (h_mgrs NO h') M') /\ members_wf NO h'.
Proof.
  intros Hwf Hop HM H.
  assert (KEEP : forall a b M0 : mgrs, mgrs_rel NO (data_eq NO) a b -> mgrs_rel NO DL a M0 -> mgrs_rel NO DL b M0).
  { intros a b M0 Hab; revert M0. induction Hab as [|x y l l' (A & B & C) Hab IH]; intros M0 HM0; inversion HM0 as [|? z ? lm (F1 & F2 & F3) HM']; subst; constructor.
    - repeat split; try congruence. eapply DL_trans; [apply DL_sym, data_eq_DL; exact C|exact F3].
    - apply IH. exact HM'. }
  destruct op as [new|name|name|name|name index|name|J own].
  - cbn [hx_step] in H. pose proof (append_delivers_everywhere NO h h' new Hwf H) as [HA HB].
    destruct (append_sim new _ _ M HA HM) as (M' & EM & RM).
    split; [exists M'; split; [exact EM|exact RM]|]. unfold members_wf in *. rewrite HB. exact Hwf.
  - split.
    + exists M. split; [reflexivity|]. eapply KEEP; [|exact HM]. eapply member_ops_keep_managers; [exact Hwf| |exact H]. exact Logic.I.
    + cbn [hx_step] in H. unfold hx_on_members in H.
      eapply (on_members_rel NO (fun _ _ => True)) in H; [|auto|auto|auto]. unfold members_wf in *. destruct H as [_ H]. rewrite H. exact Hwf.
  - split.
    + exists M. split; [reflexivity|]. eapply KEEP; [|exact HM]. eapply member_ops_keep_managers; [exact Hwf| |exact H]. exact Logic.I.
    + cbn [hx_step] in H. unfold hx_purge, hx_on_members in H.
      eapply (on_members_rel NO (fun _ _ => True) (fun J st => Ok (purge NO J st))) in H; [|auto|auto|auto]. unfold members_wf in *. destruct H as [_ H]. rewrite H. exact Hwf.
  - split.
    + exists M. split; [reflexivity|]. eapply KEEP; [|exact HM]. eapply member_ops_keep_managers; [exact Hwf| |exact H]. exact Logic.I.
    + cbn [hx_step] in H. destruct (hx_purge NO name h) as [h1|] eqn:E; cbn [bind] in H; [|discriminate].
      unfold hx_purge, hx_on_members in E.
      eapply (on_members_rel NO (fun _ _ => True) (fun J st => Ok (purge NO J st))) in E; [|auto|auto|auto].
      unfold hx_on_members in H. eapply (on_members_rel NO (fun _ _ => True)) in H; [|auto|auto|auto].
      unfold members_wf in *. destruct H as [_ H]. destruct E as [_ E]. rewrite H, E. exact Hwf.
  - split.
    + exists M. split; [reflexivity|]. eapply KEEP; [|exact HM]. eapply member_ops_keep_managers; [exact Hwf| |exact H]. exact Logic.I.
    + cbn [hx_step] in H. unfold hx_on_members in H.
      eapply (on_members_rel NO (fun _ _ => True) (fun J st => calculate_index NO J index None st)) in H; [|auto|auto|auto].
      unfold members_wf in *. destruct H as [_ H]. rewrite H. exact Hwf.
  - split.
    + exists M. split; [reflexivity|]. eapply KEEP; [|exact HM]. eapply member_ops_keep_managers; [exact Hwf| |exact H]. exact Logic.I.
    + cbn [hx_step] in H. destruct (hx_purge NO (Some name) h) as [h1|] eqn:E; cbn [bind] in H; [|discriminate].
      unfold hx_purge, hx_on_members in E.
      eapply (on_members_rel NO (fun _ _ => True) (fun J st => Ok (purge NO J st))) in E; [|auto|auto|auto].
      destruct E as [_ E]. inversion H; subst. unfold members_wf in *. cbn [h_members]. rewrite E.
      rewrite Forall_forall in *. intros m Hm. apply filter_In in Hm. apply Hwf. apply Hm.
  - cbn [hx_step] in H. destruct (attach_sim hcfg h h' J own M HM H) as [HS HB]. split; [exact HS|].
    unfold members_wf in *. rewrite HB. apply Forall_app. split; [exact Hwf|]. constructor; [exact Hop|constructor].
Qed.

(* any program *)
Theorem hx_program_sim (hcfg : mcfg) : forall (ops : list (hop NO)) (h h' : hexital) (M : mgrs),
  members_wf NO h -> Forall op_wf ops -> mgrs_rel NO DL (h_mgrs NO h) M ->
  foldM (hx_step NO hcfg) ops h = Ok h' ->
  exists M', foldM (m_step hcfg) ops M = Ok M' /\ mgrs_rel NO DL (h_mgrs NO h') M'.
Proof.
  induction ops as [|op ops IH]; intros h h' M Hwf Hops HM H; cbn [foldM] in *.
  - inversion H; subst. exists M. split; [reflexivity|exact HM].
  - destruct (hx_step NO hcfg h op) as [h1|] eqn:E; cbn [bind] in H; [|discriminate].
    inversion Hops as [|? ? Hop Hops']; subst.
    destruct (hx_step_sim hcfg h h1 op M Hwf Hop HM E) as [(M1 & EM & RM) Hwf1].
    rewrite EM. cbn [bind]. eapply IH; eassumption.
Qed.

End HxSim.
