From Coq Require Import ZArith List String Bool Lia.
From Hexital Require Import Base.Prelude Base.Num Model.Manager Model.Candle Model.Readings Model.Engine
  Model.Hexital Proofs.ListProofs Proofs.AccessProofs Proofs.FrameProofs.
Import ListNotations.
Local Open Scope Z_scope.

Section HexitalProofs.
Context (NO : NumOps).
Notation cd := (cd (payload NO)).

(* every equivalent encoding of a candle decodes to the same candle *)
Theorem decode_encodings o h l c v ts :
  let cnd := {| t := ts; p := raw_payload NO (Build_ohlcv NO o h l c v) |} in
  decode NO (RC_candle NO cnd) = Ok cnd /\
  decode NO (RC_dict NO o h l c v ts) = Ok cnd /\
  decode NO (RC_list NO [IT_num NO o; IT_num NO h; IT_num NO l; IT_num NO c; IT_num NO v; IT_ts NO ts]) = Ok cnd /\
  decode NO (RC_list NO [IT_ts NO ts; IT_num NO o; IT_num NO h; IT_num NO l; IT_num NO c; IT_num NO v]) = Ok cnd.
Proof. cbn zeta. repeat split. Qed.

(* a Hexital with one member on one manager behaves exactly like the standalone indicator *)
Theorem single_member_is_standalone (cfg : mcfg) (I : ind NO) (key : string) (st : store NO) (new : list cd) :
  let h := {| h_mgrs := [(key, (cfg, st))]; h_members := [{| m_ind := I; m_mgr := key |}] |} in
  match alone_append NO cfg I st new with
  | Ok st' => hx_append NO h new = Ok {| h_mgrs := [(key, (cfg, st'))]; h_members := h_members NO h |}
  | Err e => hx_append NO h new = Err e
  end.
Proof.
  cbn zeta. unfold alone_append, hx_append. cbn [h_mgrs h_members mapM].
  destruct (mgr_append NO cfg st new) as [st1|e]; cbn [bind]; [|reflexivity].
  unfold hx_calculate, hx_on_members, get_mgr. cbn [h_members foldM h_mgrs alist_get m_mgr m_ind sel].
  rewrite String.eqb_refl. cbn [of_opt bind].
  destruct (calculate NO I st1) as [st2|e]; cbn [bind]; [|reflexivity].
  cbn [alist_set h_mgrs h_members]. rewrite String.eqb_refl. reflexivity.
Qed.

End HexitalProofs.
