(* The obligations of Proofs/DataSlot.v discharged for the indicators that keep their running
   state in one managed helper series "<name>_data": VWAP (cumulative price*volume and volume),
   StandardDeviation (running mean and variance) and RSI (Wilder averages of gain and loss). *)
From Coq Require Import ZArith List String Ascii Bool Lia ZifyBool.
From Hexital Require Import Base.Prelude Base.Num Model.Manager Model.Candle Model.Readings Model.Analysis
  Model.Engine Proofs.ListProofs Proofs.EngineProofs Proofs.CausalProofs Proofs.CausalMore Proofs.AnalysisProofs.
From Hexital Require Import Proofs.DataSlot.
Import ListNotations.
Local Open Scope string_scope.
Local Open Scope list_scope.
Local Open Scope Z_scope.

(* ---------------------------------------------------------------- strings *)
Lemma append_assoc3 (s u v : string) : (s ++ (u ++ v) = (s ++ u) ++ v)%string.
Proof. induction s as [|ch s IH]; cbn; [reflexivity|rewrite IH; reflexivity]. Qed.
Lemma append_neq_self (s u : string) : u <> ""%string -> s <> (s ++ u)%string.
Proof.
  intros Hu. induction s as [|ch s IH]; cbn.
  - intros E. apply Hu. symmetry. exact E.
  - intros E. inversion E. apply IH. assumption.
Qed.
Lemma has_dot_app (s u : string) : has_dot (s ++ u)%string = has_dot s || has_dot u.
Proof. induction s as [|ch s IH]; cbn; [reflexivity|rewrite IH, orb_assoc; reflexivity]. Qed.
Lemma split_dot_app (s k : string) : has_dot s = false -> split_dot (s ++ String "."%char k)%string = (s, Some k).
Proof.
  induction s as [|ch s IH]; cbn; [reflexivity|].
  destruct (Ascii.eqb ch "."%char); [discriminate|]. cbn. intros H. rewrite IH by exact H. reflexivity.
Qed.

Section Data.
Context (NO : NumOps).
Notation val := (val NO).
Notation payload := (payload NO).
Notation cd := (cd payload).
Notation store := (store NO).

Variable I : ind NO.
Variable key : string.
Notation nm := (i_name NO I).
Definition dataM : ind NO := sub_ NO K_MANAGED (nm ++ "_data")%string true [] [].
Notation M := dataM.
Notation nmM := (nm ++ "_data")%string.

Hypothesis HIsubs : i_subs NO I = [].
Hypothesis HIman : i_managed NO I = [(key, M)].
Hypothesis HplainM : has_dot nmM = false /\ forall q, candle_attr NO q nmM = None.

Notation setkI := (setk NO I).
Notation setkM := (setk NO M).
Notation slotM := (slot NO M).

(* no top-level entry of the candle is called like the helper series *)
Definition G (c : cd) : Prop := alist_get nmM (inds NO (p c)) = None.

Lemma Hname : nm <> i_name NO M.
Proof. cbn. apply append_neq_self. discriminate. Qed.

Lemma G_pres d w v : G d -> G (setkI (slotM d w) v).
Proof.
  unfold G. intros H.
  assert (E : inds NO (p (slotM d w)) = inds NO (p d)) by (destruct w; reflexivity).
  unfold EngineProofs.setk, with_own_dict, EngineProofs.own, own_dict. cbn [p].
  destruct (i_sub NO I); cbn [inds]; [rewrite E; exact H|].
  rewrite alist_get_set_other by apply Hname. rewrite E. exact H.
Qed.

(* the helper's entry read back after both writes *)
Lemma rbc_data_after_I (c : cd) w v : G c -> reading_by_candle NO (p (setkI (setkM c w) v)) nmM = Ok w.
Proof.
  intros Hg. destruct HplainM as [Hd Ha]. unfold reading_by_candle. rewrite Hd, Ha.
  pose proof (G_pres c (Some w) v Hg) as Hg'. cbn [EngineProofs.slot] in Hg'. unfold G in Hg'. rewrite Hg'.
  unfold EngineProofs.setk, with_own_dict, EngineProofs.own, own_dict. cbn [p i_sub dataM sub_ inds subs i_name].
  destruct (i_sub NO I); cbn [subs].
  - rewrite alist_get_set_other by apply Hname. rewrite alist_get_set_same. reflexivity.
  - rewrite alist_get_set_same. reflexivity.
Qed.


Lemma G_merged ts a b : G {| t := ts; p := Candle.merge NO a b |}.
Proof. reflexivity. Qed.
Lemma G_relabel ts (c : cd) : G c -> G {| t := ts; p := p c |}.
Proof. intros H. exact H. Qed.

(* Managed.set_reading of the helper: one write into its slot of the candle *)
Lemma managed_set_mid f (a rest : store) (c : cd) w :
  managed_set NO (run NO (S f)) I key w (zlen a) (a ++ c :: rest) = Ok (a ++ setkM c w :: rest).
Proof.
  unfold managed_set, find_managed. rewrite HIman. cbn [alist_get]. rewrite String.eqb_refl. cbn [of_opt bind].
  rewrite run_S. cbn [step]. unfold run_subs. cbn [i_subs dataM sub_ foldM bind].
  rewrite (set_reading_mid NO M a rest c w). cbn [bind]. reflexivity.
Qed.

(* reading the helper back from the candle it was written to *)
Lemma rbc_data_whole (c : cd) w : G c -> reading_by_candle NO (p (setkM c w)) nmM = Ok w.
Proof.
  intros Hg. destruct HplainM as [Hd Ha]. unfold reading_by_candle. rewrite Hd, Ha.
  unfold EngineProofs.setk, with_own_dict, EngineProofs.own, own_dict. cbn [p i_sub dataM sub_ inds subs i_name].
  unfold G in Hg. rewrite Hg. rewrite alist_get_set_same. reflexivity.
Qed.
Lemma rbc_data_field (c : cd) kv k : G c -> has_dot k = false ->
  reading_by_candle NO (p (setkM c (VDict kv))) (nmM ++ String "."%char k)%string =
  Ok (match alist_get k kv with Some x => x | None => VNone end).
Proof.
  intros Hg Hk. destruct HplainM as [Hd Ha]. unfold reading_by_candle.
  rewrite has_dot_app. cbn [has_dot]. rewrite Ascii.eqb_refl, orb_true_r.
  rewrite (split_dot_app nmM k Hd). rewrite Hk. unfold nested_lookup.
  unfold EngineProofs.setk, with_own_dict, EngineProofs.own, own_dict. cbn [p i_sub dataM sub_ inds subs i_name].
  unfold G in Hg. rewrite Hg. rewrite alist_get_set_same. reflexivity.
Qed.

(* the candle at index |a| is looked at through the accessors only *)
Lemma rnum_mid (a rest : store) c name : rnum NO (a ++ c :: rest) name (zlen a) = rnum NO (a ++ [c]) name (zlen a).
Proof. unfold rnum. rewrite !reading_mid. reflexivity. Qed.
Lemma reading_mid1 (a rest : store) c name : reading NO (a ++ c :: rest) name (zlen a) = reading NO (a ++ [c]) name (zlen a).
Proof. rewrite !reading_mid. reflexivity. Qed.
Lemma prev_exists_mid (a rest : store) c name :
  prev_exists NO (a ++ c :: rest) name (zlen a) = prev_exists NO (a ++ [c]) name (zlen a).
Proof. unfold prev_exists. rewrite prev_reading_mid. reflexivity. Qed.
Lemma prev_reading_any (a : store) (c c' : cd) name :
  prev_reading NO (a ++ [c]) name (zlen a) = prev_reading NO (a ++ [c']) name (zlen a).
Proof.
  unfold prev_reading. destruct (a ++ [c]) eqn:E1; [destruct a; discriminate|].
  destruct (a ++ [c']) eqn:E2; [destruct a; discriminate|]. rewrite <- E1, <- E2.
  destruct (zlen a =? 0) eqn:Z0; [reflexivity|]. pose proof (zlen_nonneg a). rewrite !reading_app_l by lia. reflexivity.
Qed.
Lemma prev_exists_any (a : store) (c c' : cd) name :
  prev_exists NO (a ++ [c]) name (zlen a) = prev_exists NO (a ++ [c']) name (zlen a).
Proof. unfold prev_exists. rewrite (prev_reading_any a c c'). reflexivity. Qed.

(* decorating a candle with the two slots changes no attribute *)
Lemma cur_deco (d : cd) w v : cur NO (p (setkI (slotM d w) v)) = cur NO (p d).
Proof.
  unfold EngineProofs.setk, with_own_dict. cbn [p]. destruct (i_sub NO I); cbn [cur]; destruct w; reflexivity.
Qed.
Lemma attr_deco (d : cd) w v name : (forall q, candle_attr NO q name <> None) -> has_dot name = false ->
  reading_by_candle NO (p (setkI (slotM d w) v)) name = reading_by_candle NO (p d) name.
Proof.
  intros Ha Hd. unfold reading_by_candle. rewrite Hd.
  assert (E : candle_attr NO (p (setkI (slotM d w) v)) name = candle_attr NO (p d) name).
  { unfold candle_attr. rewrite cur_deco. reflexivity. }
  rewrite E. destruct (candle_attr NO (p d) name) eqn:E1; [reflexivity|]. exfalso. apply (Ha (p d)). exact E1.
Qed.

Lemma bind_ext {A B} (m1 m2 : res A) (f1 f2 : A -> res B) :
  m1 = m2 -> (forall x, f1 x = f2 x) -> bind m1 f1 = bind m2 f2.
Proof. intros -> H. destruct m2; cbn [bind]; [apply H|reflexivity]. Qed.
Lemma rnum_attr_deco (a : store) (d : cd) w v name : (forall q, candle_attr NO q name <> None) -> has_dot name = false ->
  rnum NO (a ++ [setkI (slotM d w) v]) name (zlen a) = rnum NO (a ++ [d]) name (zlen a).
Proof. intros Ha Hd. unfold rnum. rewrite !(reading_mid NO a []). rewrite attr_deco by assumption. reflexivity. Qed.
Ltac attr := apply rnum_attr_deco; [intros ?; discriminate|reflexivity].

Ltac norm a rest c :=
  rewrite ?(rnum_mid a rest c), ?(reading_mid1 a rest c), ?(prev_exists_mid a rest c), ?(prev_reading_mid NO a rest c).
Ltac step a rest c :=
  norm a rest c; cbn [bind fst snd];
  lazymatch goal with
  | |- bind (bind (if ?b then _ else _) _) _ = _ => destruct b; cbn [bind fst snd]
  | |- bind (if ?b then _ else _) _ = _ => destruct b; cbn [bind fst snd]
  | |- bind (bind (bind ?m _) _) _ = _ => destruct m; cbn [bind fst snd]; [|reflexivity]
  | |- bind (bind ?m _) _ = _ => destruct m; cbn [bind fst snd]; [|reflexivity]
  | |- bind ?m _ = _ => destruct m; cbn [bind fst snd]; [|reflexivity]
  end.

(* ================================================================ VWAP *)
Section VWAP.
Hypothesis K : i_kind NO I = K_VWAP.
Hypothesis Hkey : key = "VWAP_data".

Definition vwapD (a : store) (c : cd) : res (val * option val) :=
  let st := a ++ [c] in
  let i := zlen a in
  h <- rnum NO st "high" i ;; l <- rnum NO st "low" i ;; cl <- rnum NO st "close" i ;;
  tp <- divn NO (nadd NO (nadd NO h l) cl) (zn NO 3) ;;
  pe <- prev_exists NO st (nm ++ "_data.pv")%string i ;;
  pp <- (if pe then
           x <- prev_reading NO st (nm ++ "_data.pv")%string i ;; xn <- as_num NO x ;;
           y <- prev_reading NO st (nm ++ "_data.vol")%string i ;; yn <- as_num NO y ;; Ok (xn, yn)
         else Ok (zn NO 0, zn NO 0)) ;;
  v <- rnum NO st "volume" i ;;
  let pv' := nadd NO (fst pp) (nmul NO v tp) in
  let vol' := nadd NO (snd pp) v in
  let W := VDict [("pv", vnum NO pv'); ("vol", vnum NO vol')] in
  if py_eq NO (vnum NO vol') (VNum (zn NO 0)) then Ok (vnum NO pv', Some W)
  else q <- divn NO pv' vol' ;; Ok (vnum NO q, Some W).

Lemma vwap_shape f (a : store) (c : cd) (rest : store) : G c ->
  calc_reading NO (run NO (S f)) I (a ++ c :: rest) (zlen a) =
  (r <- vwapD a c ;; Ok (fst r, a ++ slotM c (snd r) :: rest)).
Proof.
  intros Hg. unfold calc_reading, vwapD. rewrite K.
  do 6 step a rest c.
  - (* a previous cumulative pair exists *)
    do 5 step a rest c.
    rewrite <- Hkey. rewrite managed_set_mid. cbn [bind].
    change (nm ++ "_data.vol")%string with (nm ++ ("_data" ++ ".vol"))%string; change (nm ++ "_data.pv")%string with (nm ++ ("_data" ++ ".pv"))%string;
    rewrite (append_assoc3 nm "_data" ".vol"), (append_assoc3 nm "_data" ".pv").
    rewrite !reading_mid. rewrite !rbc_data_field by (assumption || reflexivity).
    cbn [alist_get String.eqb Ascii.eqb Bool.eqb bind].
    unfold vnum. destruct (py_eq NO _ _); cbn [ret bind as_num numlike fst snd EngineProofs.slot]; [reflexivity|].
    destruct (divn NO _ _); reflexivity.
  - step a rest c.
    rewrite <- Hkey. rewrite managed_set_mid. cbn [bind].
    change (nm ++ "_data.vol")%string with (nm ++ ("_data" ++ ".vol"))%string; change (nm ++ "_data.pv")%string with (nm ++ ("_data" ++ ".pv"))%string;
    rewrite (append_assoc3 nm "_data" ".vol"), (append_assoc3 nm "_data" ".pv").
    rewrite !reading_mid. rewrite !rbc_data_field by (assumption || reflexivity).
    cbn [alist_get String.eqb Ascii.eqb Bool.eqb bind].
    unfold vnum. destruct (py_eq NO _ _); cbn [ret bind as_num numlike fst snd EngineProofs.slot]; [reflexivity|].
    destruct (divn NO _ _); reflexivity.
Qed.

Lemma vwapD_deco (a : store) (d : cd) w v : vwapD a (setkI (slotM d w) v) = vwapD a d.
Proof.
  unfold vwapD.
  apply bind_ext; [attr|intros h]. apply bind_ext; [attr|intros l]. apply bind_ext; [attr|intros cl].
  apply bind_ext; [reflexivity|intros tp]. apply bind_ext; [apply prev_exists_any|intros pe].
  apply bind_ext; [|intros pp; apply bind_ext; [attr|intros vv; reflexivity]].
  destruct pe; [|reflexivity].
  apply bind_ext; [apply prev_reading_any|intros x]. apply bind_ext; [reflexivity|intros xn].
  apply bind_ext; [apply prev_reading_any|intros y]. reflexivity.
Qed.
End VWAP.

(* ================================================================ StandardDeviation *)
Section STDEV.
Variable period : Z.
Variable input : string.
Hypothesis K : i_kind NO I = K_STDEV period input.
Hypothesis Hkey : key = "STDEV_data".
Hypothesis Hperiod : 1 <= period.
(* the input is not the indicator's own series nor its helper *)
Hypothesis HinI : stable NO I input.
Hypothesis HinM : stable NO M input.

Definition stdevD (a : store) (c : cd) : res (val * option val) :=
  let st := a ++ [c] in
  let i := zlen a in
  xv <- reading NO st input i ;;
  if is_none NO xv then Ok (VNone, None) else
  x <- as_num NO xv ;;
  rp <- rperiod NO st (period + 1) input i ;;
  removed <- (if rp then rnum NO st input (i - period) else Ok (zn NO 0)) ;;
  pm <- prev_reading NO st (nm ++ "_data.mean")%string i ;;
  old_mean <- (if is_none NO pm then Ok (zn NO 0) else as_num NO pm) ;;
  d <- divn NO (nsub NO x removed) (zn NO period) ;;
  let new_mean := nadd NO old_mean d in
  pvv <- prev_reading NO st (nm ++ "_data.variance")%string i ;;
  var0 <- (if is_none NO pvv then Ok (zn NO 0) else as_num NO pvv) ;;
  inc <- divn NO (nmul NO (nsub NO x removed)
                       (nsub NO (nadd NO (nsub NO x new_mean) removed) old_mean)) (zn NO period) ;;
  let variance := nadd NO var0 inc in
  let W := VDict [("mean", vnum NO new_mean); ("variance", vnum NO variance)] in
  if rp then r <- of_opt ValueError (nsqrt NO (nmax NO variance (fl NO 0 1))) ;; Ok (vnum NO r, Some W)
  else Ok (VNone, Some W).

Lemma rperiod_mid_any (a rest : store) (c : cd) name p0 : 1 <= p0 ->
  rperiod NO (a ++ c :: rest) p0 name (zlen a) = rperiod NO (a ++ [c]) p0 name (zlen a).
Proof.
  intros Hp. pose proof (zlen_nonneg a). pose proof (zlen_nonneg rest).
  unfold rperiod, reading_period.
  assert (L1 : zlen (a ++ c :: rest) = zlen a + 1 + zlen rest).
  { rewrite zlen_app. unfold zlen. cbn [List.length]. lia. }
  assert (L2 : zlen (a ++ [c]) = zlen a + 1) by (rewrite zlen_app; reflexivity).
  rewrite L1, L2.
  assert (V1 : valid_index (zlen a) (zlen a + 1 + zlen rest) = true) by (unfold valid_index; lia).
  assert (V2 : valid_index (zlen a) (zlen a + 1) = true) by (unfold valid_index; lia).
  rewrite V1, V2.
  destruct (zlen a - (p0 - 1) <? 0) eqn:B; [reflexivity|].
  assert (Q : 0 <= Z.quot (p0 - 1) 2 <= p0 - 1).
  { split; [apply Z.quot_pos; lia|]. apply Z.quot_le_upper_bound; lia. }
  assert (R : forall j, 0 <= j <= zlen a ->
     reading_by_index NO (a ++ c :: rest) name j = reading_by_index NO (a ++ [c]) name j).
  { intros j Hj. unfold reading_by_index. rewrite L1, L2.
    assert (W1 : valid_index j (zlen a + 1 + zlen rest) = true) by (unfold valid_index; lia).
    assert (W2 : valid_index j (zlen a + 1) = true) by (unfold valid_index; lia).
    rewrite W1, W2. cbn [negb].
    destruct (Z.eq_dec j (zlen a)) as [->|Hne].
    - rewrite (pyidx_mid NO a rest c), (pyidx_mid NO a [] c). reflexivity.
    - rewrite !pyidx_app_l by lia. reflexivity. }
  rewrite !R by lia. reflexivity.
Qed.

Lemma rnum_back (a rest : store) (c : cd) name j : 0 <= j < zlen a ->
  rnum NO (a ++ c :: rest) name j = rnum NO (a ++ [c]) name j.
Proof. intros H. unfold rnum. rewrite !reading_app_l by lia. reflexivity. Qed.

Lemma stdev_shape f (a : store) (c : cd) (rest : store) : G c ->
  calc_reading NO (run NO (S f)) I (a ++ c :: rest) (zlen a) =
  (r <- stdevD a c ;; Ok (fst r, a ++ slotM c (snd r) :: rest)).
Proof.
  intros Hg. unfold calc_reading, stdevD. rewrite K.
  norm a rest c.
  destruct (reading NO (a ++ [c]) input (zlen a)) as [xv|]; cbn [bind]; [|reflexivity].
  destruct (is_none NO xv); cbn [bind ret fst snd EngineProofs.slot]; [reflexivity|].
  destruct (as_num NO xv) as [x|]; cbn [bind]; [|reflexivity].
  fold (rperiod NO (a ++ c :: rest) (period + 1) input (zlen a)).
  rewrite (rperiod_mid_any a rest c input (period + 1)) by lia.
  destruct (rperiod NO (a ++ [c]) (period + 1) input (zlen a)) as [rp|] eqn:Rp; cbn [bind]; [|reflexivity].
  assert (Erem : (if rp then rnum NO (a ++ c :: rest) input (zlen a - period) else Ok (zn NO 0)) =
                 (if rp then rnum NO (a ++ [c]) input (zlen a - period) else Ok (zn NO 0))).
  { destruct rp; [|reflexivity]. apply rperiod_true_bound in Rp. apply rnum_back. lia. }
  rewrite Erem. destruct (if rp then rnum NO (a ++ [c]) input (zlen a - period) else Ok (zn NO 0)) as [removed|]; cbn [bind]; [|reflexivity].
  clear Erem Rp.
  repeat step a rest c.
  all: rewrite <- Hkey; rewrite managed_set_mid; cbn [bind].
  all: destruct rp; cbn [ret bind fst snd EngineProofs.slot]; [|reflexivity].
  all: destruct (of_opt ValueError _); reflexivity.
Qed.

Lemma stable_deco (d : cd) w v : reading_by_candle NO (p (setkI (slotM d w) v)) input = reading_by_candle NO (p d) input.
Proof.
  pose proof (HinI (slotM d w) (Some v)) as E1. cbn [EngineProofs.slot] in E1. rewrite E1. apply (HinM d w).
Qed.

Lemma stdevD_deco (a : store) (d : cd) w v : stdevD a (setkI (slotM d w) v) = stdevD a d.
Proof.
  unfold stdevD.
  assert (Erp : rperiod NO (a ++ [setkI (slotM d w) v]) (period + 1) input (zlen a) =
                rperiod NO (a ++ [d]) (period + 1) input (zlen a)).
  { pose proof (rperiod_mid NO I a [] (slotM d w) (Some v) input (period + 1) HinI ltac:(lia)) as E1.
    cbn [EngineProofs.slot] in E1. rewrite E1.
    exact (rperiod_mid NO M a [] d w input (period + 1) HinM ltac:(lia)). }
  apply bind_ext; [rewrite !(reading_mid NO a []); apply stable_deco|intros xv].
  destruct (is_none NO xv); [reflexivity|].
  apply bind_ext; [reflexivity|intros x].
  rewrite Erp. destruct (rperiod NO (a ++ [d]) (period + 1) input (zlen a)) as [rp|] eqn:Rp; cbn [bind]; [|reflexivity].
  apply bind_ext.
  { destruct rp; [|reflexivity]. apply rperiod_true_bound in Rp. unfold rnum. rewrite !reading_app_l by lia. reflexivity. }
  intros removed.
  apply bind_ext; [apply prev_reading_any|intros pm]. apply bind_ext; [reflexivity|intros om].
  apply bind_ext; [reflexivity|intros dd]. apply bind_ext; [apply prev_reading_any|intros pvv].
  reflexivity.
Qed.
End STDEV.

(* ================================================================ RSI *)
Section RSI.
Variable period : Z.
Variable input : string.
Hypothesis K : i_kind NO I = K_RSI period input.
Hypothesis Hkey : key = "RSI_data".
Hypothesis Hperiod : 1 <= period.
Hypothesis HinI : stable NO I input.
Hypothesis HinM : stable NO M input.

(* the Wilder averages written at this candle, if any *)
Definition rsiW (a : store) (c : cd) : res (option (num NO * num NO)) :=
  let st := a ++ [c] in
  let i := zlen a in
  pe <- prev_exists NO st nm i ;;
  if pe then
    pv <- prev_reading NO st input i ;; px <- as_num NO pv ;; x <- rnum NO st input i ;;
    let change := nsub NO px x in
    let gain := if nltb NO change (zn NO 0) then nmul NO (zn NO (-1)) change else fl NO 0 1 in
    let loss := if nltb NO (zn NO 0) change then change else fl NO 0 1 in
    pg <- prev_reading NO st (nm ++ "_data.gain")%string i ;; pgn <- as_num NO pg ;;
    pl <- prev_reading NO st (nm ++ "_data.loss")%string i ;; pln <- as_num NO pl ;;
    g <- divn NO (nadd NO (nmul NO pgn (zn NO (period - 1))) gain) (zn NO period) ;;
    l <- divn NO (nadd NO (nmul NO pln (zn NO (period - 1))) loss) (zn NO period) ;;
    Ok (Some (g, l))
  else
    rp <- rperiod NO st (period + 1) input i ;;
    if rp then
      changes <- mapM (fun j => x <- rnum NO st input j ;; y <- rnum NO st input (j - 1) ;; Ok (nsub NO x y))
                      (zrange (i - (period - 1)) (i + 1)) ;;
      g <- divn NO (nsum NO (filter (fun c => nltb NO (zn NO 0) c) changes)) (zn NO period) ;;
      l <- divn NO (nsum NO (map (nabs NO) (filter (fun c => nltb NO c (zn NO 0)) changes))) (zn NO period) ;;
      Ok (Some (g, l))
    else Ok None.

Definition rsiV (g l : num NO) : res val :=
  if neqb NO l (zn NO 0) then Ok (vnum NO (fl NO 1000 1)) else
  rs <- divn NO g l ;;
  q <- divn NO (fl NO 1000 1) (nadd NO (fl NO 10 1) rs) ;;
  Ok (vnum NO (nsub NO (fl NO 1000 1) q)).

Definition rsiD (a : store) (c : cd) : res (val * option val) :=
  w <- rsiW a c ;;
  match w with
  | Some (g, l) => v <- rsiV g l ;; Ok (v, Some (VDict [("gain", vnum NO g); ("loss", vnum NO l)]))
  | None =>
    dv <- reading NO (a ++ [c]) nmM (zlen a) ;;
    if truthy NO dv then
      g <- rnum NO (a ++ [c]) (nm ++ "_data.gain")%string (zlen a) ;;
      l <- rnum NO (a ++ [c]) (nm ++ "_data.loss")%string (zlen a) ;;
      v <- rsiV g l ;; Ok (v, None)
    else Ok (VNone, Some VNone)
  end.

(* the write of the averages, as the model performs it *)
Definition rsi_write f (st : store) (i : Z) : res store :=
  pe <- prev_exists NO st nm i ;;
  (if pe then
     pv <- prev_reading NO st input i ;; px <- as_num NO pv ;; x <- rnum NO st input i ;;
     let change := nsub NO px x in
     let gain := if nltb NO change (zn NO 0) then nmul NO (zn NO (-1)) change else fl NO 0 1 in
     let loss := if nltb NO (zn NO 0) change then change else fl NO 0 1 in
     pg <- prev_reading NO st (nm ++ "_data.gain")%string i ;; pgn <- as_num NO pg ;;
     pl <- prev_reading NO st (nm ++ "_data.loss")%string i ;; pln <- as_num NO pl ;;
     g <- divn NO (nadd NO (nmul NO pgn (zn NO (period - 1))) gain) (zn NO period) ;;
     l <- divn NO (nadd NO (nmul NO pln (zn NO (period - 1))) loss) (zn NO period) ;;
     managed_set NO (run NO (S f)) I "RSI_data" (VDict [("gain", vnum NO g); ("loss", vnum NO l)]) i st
   else
     rp <- rperiod NO st (period + 1) input i ;;
     if rp then
       changes <- mapM (fun j => a <- rnum NO st input j ;; b <- rnum NO st input (j - 1) ;; Ok (nsub NO a b))
                       (zrange (i - (period - 1)) (i + 1)) ;;
       g <- divn NO (nsum NO (filter (fun c => nltb NO (zn NO 0) c) changes)) (zn NO period) ;;
       l <- divn NO (nsum NO (map (nabs NO) (filter (fun c => nltb NO c (zn NO 0)) changes))) (zn NO period) ;;
       managed_set NO (run NO (S f)) I "RSI_data" (VDict [("gain", vnum NO g); ("loss", vnum NO l)]) i st
     else Ok st).

Lemma rsi_calc_unfold f st i :
  calc_reading NO (run NO (S f)) I st i =
  (st1 <- rsi_write f st i ;;
   dv <- reading NO st1 (nm ++ "_data")%string i ;;
   if truthy NO dv then
     g <- rnum NO st1 (nm ++ "_data.gain")%string i ;; l <- rnum NO st1 (nm ++ "_data.loss")%string i ;;
     if neqb NO l (zn NO 0) then ret NO (vnum NO (fl NO 1000 1)) st1 else
     rs <- divn NO g l ;;
     q <- divn NO (fl NO 1000 1) (nadd NO (fl NO 10 1) rs) ;;
     ret NO (vnum NO (nsub NO (fl NO 1000 1) q)) st1
   else
     st2 <- managed_set NO (run NO (S f)) I "RSI_data" VNone i st1 ;; ret NO VNone st2).
Proof. unfold calc_reading, rsi_write. rewrite K. destruct (prev_exists NO st nm i) as [[|]|]; reflexivity. Qed.

Lemma changes_mid (a rest : store) (c : cd) : 0 <= zlen a - period ->
  mapM (fun j => x <- rnum NO (a ++ c :: rest) input j ;; y <- rnum NO (a ++ c :: rest) input (j - 1) ;; Ok (nsub NO x y))
       (zrange (zlen a - (period - 1)) (zlen a + 1)) =
  mapM (fun j => x <- rnum NO (a ++ [c]) input j ;; y <- rnum NO (a ++ [c]) input (j - 1) ;; Ok (nsub NO x y))
       (zrange (zlen a - (period - 1)) (zlen a + 1)).
Proof.
  intros Hb. apply mapM_ext. intros j Hj. apply in_zrange in Hj.
  assert (E1 : rnum NO (a ++ c :: rest) input j = rnum NO (a ++ [c]) input j).
  { destruct (Z.eq_dec j (zlen a)) as [->|Hne]; [apply rnum_mid|apply rnum_back; lia]. }
  rewrite E1. rewrite (rnum_back a rest c input (j - 1)) by lia. reflexivity.
Qed.

(* the write stage on  a ++ c :: rest *)
Lemma rsi_write_mid f (a rest : store) (c : cd) :
  rsi_write f (a ++ c :: rest) (zlen a) =
  (w <- rsiW a c ;;
   match w with
   | Some (g, l) => Ok (a ++ setkM c (VDict [("gain", vnum NO g); ("loss", vnum NO l)]) :: rest)
   | None => Ok (a ++ c :: rest)
   end).
Proof.
  unfold rsi_write, rsiW.
  norm a rest c. destruct (prev_exists NO (a ++ [c]) nm (zlen a)) as [[|]|]; cbn [bind]; [| |reflexivity].
  - repeat step a rest c. rewrite <- Hkey. apply managed_set_mid.
  - rewrite (rperiod_mid_any a rest c input (period + 1)) by lia.
    destruct (rperiod NO (a ++ [c]) (period + 1) input (zlen a)) as [[|]|] eqn:Rp; cbn [bind]; try reflexivity.
    apply rperiod_true_bound in Rp. rewrite (changes_mid a rest c) by lia.
    destruct (mapM _ _) as [changes|]; cbn [bind]; [|reflexivity].
    destruct (divn NO _ _) as [g|]; cbn [bind]; [|reflexivity].
    destruct (divn NO _ _) as [l|]; cbn [bind]; [|reflexivity].
    rewrite <- Hkey. apply managed_set_mid.
Qed.

Lemma rsi_shape f (a : store) (c : cd) (rest : store) : G c ->
  calc_reading NO (run NO (S f)) I (a ++ c :: rest) (zlen a) =
  (r <- rsiD a c ;; Ok (fst r, a ++ slotM c (snd r) :: rest)).
Proof.
  intros Hg. rewrite rsi_calc_unfold, rsi_write_mid. unfold rsiD.
  destruct (rsiW a c) as [[[g l]|]|]; cbn [bind]; [| |reflexivity].
  - (* averages written: read back *)
    rewrite !reading_mid. rewrite rbc_data_whole by assumption. cbn [bind truthy].
    change (nm ++ "_data.gain")%string with (nm ++ ("_data" ++ ".gain"))%string.
    change (nm ++ "_data.loss")%string with (nm ++ ("_data" ++ ".loss"))%string.
    rewrite (append_assoc3 nm "_data" ".gain"), (append_assoc3 nm "_data" ".loss").
    unfold rnum. rewrite !reading_mid. rewrite !rbc_data_field by (assumption || reflexivity).
    cbn [alist_get String.eqb Ascii.eqb Bool.eqb bind as_num numlike vnum].
    unfold rsiV. destruct (neqb NO l (zn NO 0)); cbn [ret bind fst snd EngineProofs.slot]; [reflexivity|].
    destruct (divn NO g l); cbn [bind]; [|reflexivity]. destruct (divn NO _ _); reflexivity.
  - (* nothing written: whatever the helper slot holds *)
    rewrite (reading_mid1 a rest c). destruct (reading NO (a ++ [c]) nmM (zlen a)) as [dv|]; cbn [bind]; [|reflexivity].
    destruct (truthy NO dv).
    + rewrite !(rnum_mid a rest c).
      destruct (rnum NO (a ++ [c]) _ (zlen a)) as [g|]; cbn [bind]; [|reflexivity].
      destruct (rnum NO (a ++ [c]) _ (zlen a)) as [l|]; cbn [bind]; [|reflexivity].
      unfold rsiV. destruct (neqb NO l (zn NO 0)); cbn [ret bind fst snd EngineProofs.slot]; [reflexivity|].
      destruct (divn NO g l); cbn [bind]; [|reflexivity]. destruct (divn NO _ _); reflexivity.
    + rewrite <- Hkey. rewrite managed_set_mid. cbn [bind ret fst snd EngineProofs.slot]. reflexivity.
Qed.

Lemma stable_deco_rsi (d : cd) w v : reading_by_candle NO (p (setkI (slotM d w) v)) input = reading_by_candle NO (p d) input.
Proof.
  pose proof (HinI (slotM d w) (Some v)) as E1. cbn [EngineProofs.slot] in E1. rewrite E1. apply (HinM d w).
Qed.

Lemma rsiW_deco (a : store) (d : cd) w v : rsiW a (setkI (slotM d w) v) = rsiW a d.
Proof.
  unfold rsiW.
  apply bind_ext; [apply prev_exists_any|intros pe]. destruct pe.
  - apply bind_ext; [apply prev_reading_any|intros pv]. apply bind_ext; [reflexivity|intros px].
    apply bind_ext; [unfold rnum; rewrite !(reading_mid NO a []); rewrite stable_deco_rsi; reflexivity|intros x].
    apply bind_ext; [apply prev_reading_any|intros pg]. apply bind_ext; [reflexivity|intros pgn].
    apply bind_ext; [apply prev_reading_any|intros pl]. reflexivity.
  - assert (Erp : rperiod NO (a ++ [setkI (slotM d w) v]) (period + 1) input (zlen a) =
                  rperiod NO (a ++ [d]) (period + 1) input (zlen a)).
    { pose proof (rperiod_mid NO I a [] (slotM d w) (Some v) input (period + 1) HinI ltac:(lia)) as E1.
      cbn [EngineProofs.slot] in E1. rewrite E1.
      exact (rperiod_mid NO M a [] d w input (period + 1) HinM ltac:(lia)). }
    rewrite Erp. destruct (rperiod NO (a ++ [d]) (period + 1) input (zlen a)) as [[|]|] eqn:Rp; cbn [bind]; try reflexivity.
    apply rperiod_true_bound in Rp.
    apply bind_ext; [|intros ch; reflexivity].
    apply mapM_ext. intros j Hj. apply in_zrange in Hj.
    assert (E1 : forall k, zlen a - period <= k <= zlen a ->
       rnum NO (a ++ [setkI (slotM d w) v]) input k = rnum NO (a ++ [d]) input k).
    { intros k Hk. destruct (Z.eq_dec k (zlen a)) as [->|Hne].
      - unfold rnum. rewrite !(reading_mid NO a []). rewrite stable_deco_rsi. reflexivity.
      - unfold rnum. rewrite !reading_app_l by lia. reflexivity. }
    rewrite !E1 by lia. reflexivity.
Qed.

Lemma rsiV_num g l v : rsiV g l = Ok v -> exists x, v = VNum x.
Proof.
  unfold rsiV. destruct (neqb NO l (zn NO 0)); [intros H; inversion H; eexists; reflexivity|].
  destruct (divn NO g l); cbn [bind]; [|discriminate]. destruct (divn NO _ _); cbn [bind]; [|discriminate].
  intros H; inversion H; eexists; reflexivity.
Qed.

(* a fresh candle holds nothing under the helper's name *)
Lemma fresh_reads_none (a : store) (d : cd) : fresh NO M d -> G d -> reading NO (a ++ [d]) nmM (zlen a) = Ok VNone.
Proof.
  intros Hf Hg. rewrite (reading_mid NO a []). destruct HplainM as [Hd Ha]. unfold reading_by_candle. rewrite Hd, Ha.
  unfold G in Hg. rewrite Hg. unfold EngineProofs.fresh, EngineProofs.own, own_dict in Hf. cbn [i_sub dataM sub_ i_name] in Hf.
  rewrite Hf. reflexivity.
Qed.

Lemma rsi_recomp (a : store) (d : cd) r : fresh NO M d -> G d -> rsiD a d = Ok r ->
  rsiD a (setkI (slotM d (snd r)) (rnd_ NO I (fst r))) = Ok r.
Proof.
  intros Hf Hg Er. unfold rsiD in *. rewrite rsiW_deco.
  destruct (rsiW a d) as [[[g l]|]|]; cbn [bind] in *; [exact Er| |discriminate].
  rewrite (fresh_reads_none a d Hf Hg) in Er. cbn [bind truthy] in Er. inversion Er; subst r. cbn [fst snd EngineProofs.slot].
  rewrite (reading_mid NO a []).
  assert (E : reading_by_candle NO (p (setkI (setkM d VNone) (rnd_ NO I VNone))) nmM = Ok VNone) by (apply rbc_data_after_I; exact Hg).
  rewrite E. cbn [bind truthy]. reflexivity.
Qed.
End RSI.

End Data.
