(* STDEVTHRES (C05): the decision rule of the threshold flag, for the faithful
   _calculate_reading over the reals: False while the helper sigma has no reading, otherwise
   True exactly when |x_i - x_(i-1)| > multiplier * sigma_i (strictly). *)
From Coq Require Import ZArith List String Bool Reals Lra.
From Hexital Require Import Base.Prelude Base.Num Model.Manager Model.Candle Model.Readings Model.Analysis
  Model.Engine Inst.RealInst.
Import ListNotations.
Local Open Scope R_scope.

Section Thres.
Variable I : ind ROps.
Variables (period : Z) (mult : R) (input : string).
Hypothesis K : i_kind ROps I = @K_STDEVTHRES ROps period mult input.
Notation nm := (i_name ROps I).

Theorem thres_no_sigma rec (st : store ROps) i :
  reading ROps st (nm ++ "_stdev") i = Ok VNone ->
  calc_reading ROps rec I st i = Ok (VBool false, st).
Proof. intros H. unfold calc_reading. rewrite K, H. reflexivity. Qed.

Theorem thres_flag rec (st : store ROps) i (s x px : R) :
  reading ROps st (nm ++ "_stdev") i = Ok (@VNum ROps s) ->
  reading ROps st input i = Ok (@VNum ROps x) ->
  prev_reading ROps st input i = Ok (@VNum ROps px) ->
  exists b, calc_reading ROps rec I st i = Ok (VBool b, st) /\ (b = true <-> Rabs (x - px) > mult * s).
Proof.
  intros Hs Hx Hp. unfold calc_reading. rewrite K, Hs. cbn [is_none bind as_num numlike].
  unfold rnum. rewrite Hx, Hp. cbn [bind as_num numlike].
  eexists. split; [reflexivity|]. cbn [nltb nmul nabs nsub ROps].
  rewrite Rltb_true. rewrite (Rmult_comm s mult). split; intros H; lra.
Qed.
End Thres.
