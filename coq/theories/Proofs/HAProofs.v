(* Proofs about the Heikin-Ashi conversion (Model/Candle.v). *)
From Coq Require Import ZArith List Bool Lia.
From Hexital Require Import Base.Prelude Base.Num Model.Manager Model.Candle.
Import ListNotations.

Section HAProofs.
Context (NO : NumOps).
Notation payload := (payload NO).
Notation cd := (cd payload).
Notation convert := (convert NO).
Notation convert_from := (convert_from NO).
Notation convert_one := (convert_one NO).

Definition all_raw (l : list cd) : Prop := Forall (fun c => tagged NO (p c) = false) l.
Definition all_tagged (l : list cd) : Prop := Forall (fun c => tagged NO (p c) = true) l.

(* the recurrence of the property text, on values *)
Fixpoint ha_spec (prev : option (ohlcv NO)) (raws : list (ohlcv NO)) : list (ohlcv NO) :=
  match raws with
  | [] => []
  | x :: r => let y := ha_values NO prev x in y :: ha_spec (Some y) r
  end.

Definition values (l : list cd) : list (ohlcv NO) := map (fun c => cur NO (p c)) l.
Definition head_values (done : list cd) : option (ohlcv NO) :=
  match done with [] => None | d :: _ => Some (cur NO (p d)) end.

Lemma convert_from_app : forall a done b,
  convert_from done (a ++ b) = convert_from (rev (convert_from done a)) b.
Proof.
  induction a as [|c a IH]; intros done b; cbn [app Candle.convert_from].
  - rewrite rev_involutive. reflexivity.
  - apply IH.
Qed.

Lemma convert_from_spec : forall todo done,
  exists out, convert_from done todo = rev done ++ out /\
    values out = ha_spec (head_values done) (values todo) /\
    map (@t _) out = map (@t _) todo /\
    all_tagged out /\
    Forall2 (fun c o => clean NO (p o) = Some (cur NO (p c)) /\ inds NO (p o) = [] /\ subs NO (p o) = []) todo out.
Proof.
  induction todo as [|c todo IH]; intros done; cbn [Candle.convert_from].
  - exists []. rewrite app_nil_r. repeat split; constructor.
  - destruct (IH ({| t := t c; p := convert_one (match done with [] => None | d :: _ => Some (p d) end) (p c) |} :: done))
      as (out & E & V & T & G & C).
    eexists (_ :: out). split; [rewrite E; cbn [rev]; rewrite <- app_assoc; reflexivity|].
    repeat split.
    + cbn [values map ha_spec p]. f_equal.
      * unfold convert_one, head_values. cbn [cur]. destruct done; reflexivity.
      * fold (values out). fold (values todo). rewrite V. cbn [head_values p]. unfold convert_one, head_values. cbn [cur]. destruct done; reflexivity.
    + cbn [map t]. f_equal. exact T.
    + constructor; [reflexivity|exact G].
    + constructor; [repeat split|exact C].
Qed.

Lemma convert_from_length todo done : List.length (convert_from done todo) = (List.length done + List.length todo)%nat.
Proof.
  revert done; induction todo as [|c todo IH]; intros done; cbn [Candle.convert_from].
  - rewrite rev_length. cbn. lia.
  - rewrite IH. cbn [List.length]. lia.
Qed.

Lemma last_tagged_raw_tail : forall (a ys : list cd) i, all_raw ys ->
  last_tagged NO (a ++ ys) i = last_tagged NO a i.
Proof.
  induction a as [|c a IH]; intros ys i Hy; cbn [app Candle.last_tagged].
  - revert i. induction Hy as [|y ys Hy1 Hy2 IHy]; intros i; cbn [Candle.last_tagged]; [reflexivity|].
    rewrite IHy, Hy1. reflexivity.
  - rewrite IH by assumption. reflexivity.
Qed.
Lemma last_tagged_all : forall (a : list cd) i, a <> [] -> all_tagged a ->
  last_tagged NO a i = Some (i + List.length a - 1)%nat.
Proof.
  induction a as [|c a IH]; intros i Hne Ha; [congruence|]. inversion Ha as [|? ? Hc Ha']; subst.
  cbn [Candle.last_tagged List.length]. destruct a as [|c' a'].
  - cbn. rewrite Hc. f_equal. lia.
  - rewrite IH; [f_equal; cbn [List.length]; lia|congruence|assumption].
Qed.

Lemma find_conv_index_raw (l : list cd) : all_raw l -> find_conv_index NO l = 0%nat.
Proof. intros H. destruct l as [|c l]; [reflexivity|]. inversion H; subst. cbn. rewrite H2. reflexivity. Qed.

Lemma find_conv_index_tagged_then_raw (a ys : list cd) : a <> [] -> all_tagged a -> all_raw ys ->
  find_conv_index NO (a ++ ys) = List.length a.
Proof.
  intros Hne Ha Hy. destruct a as [|c a]; [congruence|]. inversion Ha as [|? ? Hc Ha']; subst.
  cbn [app Candle.find_conv_index]. rewrite Hc. cbn [negb].
  change (c :: a ++ ys) with ((c :: a) ++ ys).
  rewrite last_tagged_raw_tail by assumption. rewrite last_tagged_all; [|congruence|assumption].
  cbn [List.length]. lia.
Qed.

Lemma convert_raw l : all_raw l -> convert l = convert_from [] l.
Proof. intros H. unfold Candle.convert. rewrite find_conv_index_raw by assumption. reflexivity. Qed.

Lemma firstn_len_app {A} (a b : list A) : firstn (List.length a) (a ++ b) = a.
Proof. induction a; cbn; [destruct b; reflexivity|f_equal; assumption]. Qed.
Lemma skipn_len_app {A} (a b : list A) : skipn (List.length a) (a ++ b) = b.
Proof. induction a; cbn; [reflexivity|assumption]. Qed.

(* every candle is converted exactly once, and the recurrence continues across appends *)
Theorem convert_incremental xs ys : all_raw xs -> all_raw ys ->
  convert (convert xs ++ ys) = convert (xs ++ ys).
Proof.
  intros Hx Hy.
  assert (Hxy : all_raw (xs ++ ys)) by (apply Forall_app; split; assumption).
  rewrite (convert_raw (xs ++ ys) Hxy), convert_from_app, (convert_raw xs Hx).
  destruct xs as [|x xs'].
  - cbn [Candle.convert_from rev app]. apply convert_raw. assumption.
  - destruct (convert_from_spec (x :: xs') []) as (out & E & _ & _ & G & _). cbn [rev app] in E.
    unfold Candle.convert.
    rewrite find_conv_index_tagged_then_raw; [| |rewrite E; exact G|assumption].
    + rewrite firstn_len_app, skipn_len_app. reflexivity.
    + intros Hnil. pose proof (convert_from_length (x :: xs') []) as L. rewrite Hnil in L. cbn in L. lia.
Qed.

(* conversion of candle i depends on candles <= i only *)
Theorem convert_prefix_stable xs ys : all_raw xs -> all_raw ys ->
  exists tl, convert (xs ++ ys) = convert xs ++ tl.
Proof.
  intros Hx Hy.
  assert (Hxy : all_raw (xs ++ ys)) by (apply Forall_app; split; assumption).
  rewrite (convert_raw _ Hxy), (convert_raw _ Hx), convert_from_app.
  destruct (convert_from_spec ys (rev (convert_from [] xs))) as (out & E & _).
  rewrite E, rev_involutive. eexists; reflexivity.
Qed.

Theorem convert_batch_spec l : all_raw l ->
  values (convert l) = ha_spec None (values l) /\
  map (@t _) (convert l) = map (@t _) l /\
  all_tagged (convert l) /\
  Forall2 (fun c o => clean NO (p o) = Some (cur NO (p c)) /\ inds NO (p o) = [] /\ subs NO (p o) = []) l (convert l).
Proof.
  intros H. rewrite (convert_raw l H).
  destruct (convert_from_spec l []) as (out & E & V & T & G & C). cbn [rev app] in E. rewrite E. tauto.
Qed.

(* merging into a converted candle first recovers its raw values *)
Lemma merge_converted prev (q b : payload) : clean NO q = None ->
  merge NO (convert_one prev q) b = merge NO q b.
Proof. intros H. unfold merge, recovered. cbn [clean convert_one]. rewrite H. reflexivity. Qed.

End HAProofs.
