(* Non-interference for a top-level leaf indicator B (C13): B's readings are the same
   whether or not other indicators write on the same candles, under any interleaving of
   appends, B's calculate() and operations of the others - provided the others' entries are
   not among the names B reads (its inputs) or writes (its own name).  The others need only
   the frame theorem, which holds for all 27 classes and any tree. *)
From Coq Require Import ZArith List String Ascii Bool Lia ZifyBool.
From Hexital Require Import Base.Prelude Base.Num Model.Manager Model.Candle Model.Readings Model.Analysis
  Model.Engine Proofs.ListProofs Proofs.AccessProofs Proofs.FrameProofs Proofs.EngineProofs Proofs.AnalysisProofs
  Proofs.CausalProofs Proofs.CausalMore Proofs.CausalWin Proofs.SimProofs.

Import ListNotations.
Local Open Scope Z_scope.

Section NI.
Context (NO : NumOps).
Notation val := (val NO).
Notation payload := (payload NO).
Notation cd := (cd payload).
Notation store := (store NO).
Variable B : ind NO.
Hypothesis Hleaf : i_subs NO B = [] /\ i_managed NO B = [].
Hypothesis Htop : i_sub NO B = false.
Hypothesis Hk : leaf_kind NO (i_kind NO B) = true.
Notation nm := (i_name NO B).
Notation N := (reads NO (i_kind NO B) (i_name NO B)).
Notation setk := (setk NO B).

(* purity of every leaf class *)
Lemma leaf_pure rec st i : calc_reading NO rec B st i = (v <- pure_calc NO B st i ;; Ok (v, st)).
Proof.
  destruct (i_kind NO B) eqn:K; try discriminate.
  - eapply sma_pure; exact K.
  - eapply ema_pure; exact K.
  - eapply rma_pure; exact K.
  - eapply wma_pure; exact K.
  - eapply vwma_pure; exact K.
  - eapply tr_pure; exact K.
  - eapply donchian_pure; exact K.
  - eapply hl_pure; exact K.
  - eapply hla_pure; exact K.
  - eapply counter_pure; exact K.
  - eapply roc_pure; exact K.
  - eapply aroon_pure; exact K.
  - eapply obv_pure; exact K.
  - eapply amorph_pure; exact K.
Qed.

(* two candles that B cannot tell apart and on which B has written the same *)
Definition agree (c1 c2 : cd) : Prop :=
  t c1 = t c2 /\ sim NO N c1 c2 /\ alist_get nm (inds NO (p c1)) = alist_get nm (inds NO (p c2)).
Definition Rres (r1 r2 : res store) : Prop :=
  match r1, r2 with Ok a, Ok b => Forall2 agree a b | Err e1, Err e2 => e1 = e2 | _, _ => False end.

Lemma agree_refl c : agree c c.
Proof. repeat split. Qed.
Lemma agree_refl_list (l : store) : Forall2 agree l l.
Proof. induction l; constructor; [apply agree_refl|assumption]. Qed.
Lemma agree_sim (l1 l2 : store) : Forall2 agree l1 l2 -> Forall2 (sim NO N) l1 l2.
Proof. induction 1 as [|a b l1 l2 (_ & H & _) _ IH]; constructor; assumption. Qed.
Lemma agree_len (l1 l2 : store) : Forall2 agree l1 l2 -> List.length l1 = List.length l2.
Proof. induction 1; cbn; congruence. Qed.
Lemma agree_zlen (l1 l2 : store) : Forall2 agree l1 l2 -> zlen l1 = zlen l2.
Proof. intros H. unfold zlen. rewrite (agree_len _ _ H). reflexivity. Qed.

Lemma candle_attr_cur (q1 q2 : payload) n : cur NO q1 = cur NO q2 -> candle_attr NO q1 n = candle_attr NO q2 n.
Proof. intros H. unfold candle_attr. rewrite H. reflexivity. Qed.

Lemma inds_setk c v : inds NO (p (setk c v)) = alist_set nm v (inds NO (p c)).
Proof. unfold EngineProofs.setk, with_own_dict, EngineProofs.own, own_dict. cbn [p]. rewrite Htop. reflexivity. Qed.
Lemma subs_setk c v : subs NO (p (setk c v)) = subs NO (p c).
Proof. unfold EngineProofs.setk, with_own_dict. cbn [p]. rewrite Htop. reflexivity. Qed.
Lemma cur_setk c v : cur NO (p (setk c v)) = cur NO (p c).
Proof. unfold EngineProofs.setk, with_own_dict. cbn [p]. rewrite Htop. reflexivity. Qed.

(* writing the same value into B's slot on both sides keeps every reading equal *)
Lemma rbc_setk_cong (c1 c2 : cd) v n : cur NO (p c1) = cur NO (p c2) ->
  reading_by_candle NO (p c1) n = reading_by_candle NO (p c2) n ->
  reading_by_candle NO (p (setk c1 v)) n = reading_by_candle NO (p (setk c2 v)) n.
Proof.
  intros Hc Hr. destruct (string_dec (root n) nm) as [E|Ne].
  - unfold reading_by_candle, root in *. destruct (has_dot n) eqn:Hd.
    + destruct (split_dot n) as [r [b|]] eqn:Es; cbn [fst] in E; [|reflexivity].
      destruct (has_dot b); [reflexivity|]. unfold nested_lookup. rewrite !inds_setk. subst r.
      rewrite !alist_get_set_same. reflexivity.
    + rewrite (split_dot_nodot n Hd) in E. cbn [fst] in E. subst n.
      rewrite (candle_attr_cur (p (setk c1 v)) (p (setk c2 v))) by (rewrite !cur_setk; exact Hc).
      destruct (candle_attr NO (p (setk c2 v)) nm); [reflexivity|].
      rewrite !inds_setk, !alist_get_set_same. reflexivity.
  - pose proof (rbc_slot NO B c1 (Some v) n Ne) as E1. pose proof (rbc_slot NO B c2 (Some v) n Ne) as E2.
    cbn [slot] in E1, E2. rewrite E1, E2. exact Hr.
Qed.

Lemma agree_setk c1 c2 v : agree c1 c2 -> agree (setk c1 v) (setk c2 v).
Proof.
  intros (Ht & (Hc & Hr) & Ho). split; [exact Ht|]. split; [split|].
  - rewrite !cur_setk. exact Hc.
  - intros n Hn. apply rbc_setk_cong; [exact Hc|apply Hr; exact Hn].
  - rewrite !inds_setk, !alist_get_set_same. reflexivity.
Qed.

Lemma agree_nth (l1 l2 : store) : Forall2 agree l1 l2 -> forall k,
  match nth_error l1 k, nth_error l2 k with Some c1, Some c2 => agree c1 c2 | None, None => True | _, _ => False end.
Proof.
  induction 1 as [|c1 c2 l1 l2 Hc H IH]; intros k; [destruct k; exact Logic.I|].
  destruct k as [|k]; cbn; [exact Hc|apply IH].
Qed.
Lemma agree_pyidx (l1 l2 : store) (H : Forall2 agree l1 l2) j :
  match pyidx l1 j, pyidx l2 j with Some c1, Some c2 => agree c1 c2 | None, None => True | _, _ => False end.
Proof.
  unfold pyidx. rewrite <- (agree_zlen l1 l2 H).
  destruct ((0 <=? j) && (j <? zlen l1)); [apply agree_nth; exact H|].
  destruct ((j <? 0) && (- zlen l1 <=? j)); [apply agree_nth; exact H|exact Logic.I].
Qed.

Lemma F2_firstn {A} (R : A -> A -> Prop) : forall (l1 l2 : list A) k, Forall2 R l1 l2 -> Forall2 R (firstn k l1) (firstn k l2).
Proof. intros l1 l2 k H. revert k. induction H; intros k; destruct k; cbn; constructor; auto. Qed.
Lemma F2_skipn {A} (R : A -> A -> Prop) : forall (l1 l2 : list A) k, Forall2 R l1 l2 -> Forall2 R (skipn k l1) (skipn k l2).
Proof. intros l1 l2 k H. revert k. induction H; intros k; destruct k; cbn; try constructor; auto. Qed.

Lemma agree_list_set : forall (l1 l2 : store) k c1 c2, Forall2 agree l1 l2 -> agree c1 c2 ->
  Forall2 agree (list_set l1 k c1) (list_set l2 k c2).
Proof.
  intros l1 l2 k c1 c2 H Hc. unfold list_set.
  pose proof (agree_nth l1 l2 H k) as Hn.
  destruct (nth_error l1 k) eqn:E1, (nth_error l2 k) eqn:E2; try contradiction; [|exact H].
  apply Forall2_app; [apply F2_firstn; exact H|constructor; [exact Hc|apply F2_skipn; exact H]].
Qed.

Lemma set_reading_agree (l1 l2 : store) v i : Forall2 agree l1 l2 ->
  Rres (set_reading NO l1 B v i) (set_reading NO l2 B v i).
Proof.
  intros H. unfold set_reading, nat_index. rewrite <- (agree_zlen l1 l2 H).
  match goal with |- context [match ?e with Some _ => _ | None => Err IndexError end] => destruct e as [k|] eqn:Ek end; [|reflexivity].
  pose proof (agree_nth l1 l2 H k) as Hn.
  destruct (nth_error l1 k) as [c1|], (nth_error l2 k) as [c2|]; try contradiction; [|reflexivity].
  cbn [Rres]. apply agree_list_set; [exact H|]. apply (agree_setk c1 c2 v Hn).
Qed.

(* B's value at an index is the same on both sides *)
Lemma calc_agree (l1 l2 : store) i : Forall2 agree l1 l2 -> pure_calc NO B l1 i = pure_calc NO B l2 i.
Proof. intros H. apply reads_only; [exact Hk|apply agree_sim; exact H]. Qed.

Lemma Rres_bind (r1 r2 : res store) (k1 k2 : store -> res store) :
  Rres r1 r2 -> (forall a b, Forall2 agree a b -> Rres (k1 a) (k2 b)) -> Rres (bind r1 k1) (bind r2 k2).
Proof. destruct r1, r2; cbn; intros H Hk'; try contradiction; [apply Hk'; exact H|exact H]. Qed.

(* the loop of calculate() / calculate_index() *)
Lemma calc_loop_agree f skip : forall idxs (l1 l2 : store), Forall2 agree l1 l2 ->
  Rres (calc_loop NO (run NO (S f)) B idxs skip l1) (calc_loop NO (run NO (S f)) B idxs skip l2).
Proof.
  induction idxs as [|i idxs IH]; intros l1 l2 H; cbn [calc_loop]; [exact H|].
  set (P := fun l : store => if skip then match pyidx l i with
                             | Some c => Ok (match alist_get nm (own_dict NO B (p c)) with Some v => negb (is_none NO v) | None => false end)
                             | None => Err IndexError end else Ok false).
  change (Rres (present <- P l1 ;; if present then calc_loop NO (run NO (S f)) B idxs skip l1 else
                  '(v, st1) <- run NO (S f) (RReading NO i) B l1 ;; st2 <- set_reading NO st1 B (round_val NO (i_round NO B) v) i ;;
                  calc_loop NO (run NO (S f)) B idxs skip st2)
               (present <- P l2 ;; if present then calc_loop NO (run NO (S f)) B idxs skip l2 else
                  '(v, st1) <- run NO (S f) (RReading NO i) B l2 ;; st2 <- set_reading NO st1 B (round_val NO (i_round NO B) v) i ;;
                  calc_loop NO (run NO (S f)) B idxs skip st2)).
  assert (Hp : P l1 = P l2).
  { unfold P. destruct skip; [|reflexivity]. pose proof (agree_pyidx l1 l2 H i) as Hi.
    destruct (pyidx l1 i) as [c1|], (pyidx l2 i) as [c2|]; try contradiction; [|reflexivity].
    unfold own_dict. rewrite Htop. destruct Hi as (_ & _ & Ho). rewrite Ho. reflexivity. }
  rewrite Hp. destruct (P l2) as [[|]|e]; cbn [bind]; [apply IH; exact H| |reflexivity].
  rewrite !run_S. cbn [step]. rewrite !leaf_pure. rewrite (calc_agree l1 l2 i H).
  destruct (pure_calc NO B l2 i) as [v|e]; cbn [bind]; [|reflexivity].
  apply Rres_bind; [apply set_reading_agree; exact H|]. intros a b Hab. apply IH. exact Hab.
Qed.

Lemma last_with_key_agree : forall (l1 l2 : store) k, Forall2 agree l1 l2 -> last_with_key NO B l1 k = last_with_key NO B l2 k.
Proof.
  intros l1 l2 k H. revert k. induction H as [|c1 c2 l1 l2 (_ & _ & Ho) _ IH]; intros k; cbn [last_with_key]; [reflexivity|].
  rewrite IH. unfold alist_mem, own_dict. rewrite Htop, Ho. reflexivity.
Qed.
Lemma find_calc_index_agree (l1 l2 : store) : Forall2 agree l1 l2 -> find_calc_index NO B l1 = find_calc_index NO B l2.
Proof.
  intros H. inversion H as [|c1 c2 t1 t2 (_ & _ & Ho) Ht]; subst; [reflexivity|]. cbn [find_calc_index].
  unfold alist_mem, own_dict. rewrite Htop, Ho. rewrite (last_with_key_agree t1 t2 1 Ht). reflexivity.
Qed.

Theorem calculate_agree (l1 l2 : store) : Forall2 agree l1 l2 -> Rres (calculate NO B l1) (calculate NO B l2).
Proof.
  intros H. unfold calculate. change FUEL with (S (S 14)). rewrite !run_S. cbn [step].
  rewrite !(run_subs_nil NO B Hleaf). cbn [bind].
  rewrite (find_calc_index_agree l1 l2 H), (agree_zlen l1 l2 H).
  pose proof (calc_loop_agree 14 true (zrange (Z.of_nat (find_calc_index NO B l2)) (zlen l2)) l1 l2 H) as HL.
  destruct (calc_loop NO (run NO 15) B _ true l1) as [r1|e1], (calc_loop NO (run NO 15) B _ true l2) as [r2|e2];
    cbn [Rres bind] in *; try contradiction; [|exact HL].
  rewrite !(run_subs_nil NO B Hleaf). cbn [bind Rres]. exact HL.
Qed.

(* an operation that writes only entries B neither reads nor owns keeps the two sides in agreement *)
Definition foreign (names : list (bool * string)) : Prop :=
  forall n sub, In n (nm :: N) -> ~ In (sub, root n) names.

Lemma rbc_same_but names (c c' : cd) n : same_but NO names c c' -> (forall sub, ~ In (sub, root n) names) ->
  reading_by_candle NO (p c') n = reading_by_candle NO (p c) n.
Proof.
  intros (_ & Hc & _ & _ & Hl) Hn. pose proof (Hl false (root n) (Hn false)) as E1. pose proof (Hl true (root n) (Hn true)) as E2.
  unfold lookup_own in E1, E2. unfold reading_by_candle, root in *. destruct (has_dot n) eqn:Hd.
  - destruct (split_dot n) as [r [b|]] eqn:Es; cbn [fst] in *; [|reflexivity].
    destruct (has_dot b); [reflexivity|]. unfold nested_lookup. rewrite E1, E2. reflexivity.
  - rewrite (split_dot_nodot n Hd) in *. cbn [fst] in *.
    rewrite (candle_attr_cur (p c') (p c) n Hc). rewrite E1, E2. reflexivity.
Qed.

Hypothesis Hnodot : has_dot nm = false.

Lemma same_but_agree names (c c' : cd) : foreign names -> same_but NO names c c' -> agree c' c.
Proof.
  intros Hf Hs. pose proof Hs as (Ht & Hc & _ & _ & Hl). split; [exact Ht|]. split; [split; [exact Hc|]|].
  - intros n Hn. apply (rbc_same_but names c c' n Hs). intros sub. apply Hf. right. exact Hn.
  - assert (Hr : ~ In (false, nm) names).
    { pose proof (Hf nm false (or_introl eq_refl)) as H0. unfold root in H0. rewrite (split_dot_nodot nm Hnodot) in H0. exact H0. }
    pose proof (Hl false nm Hr) as E. unfold lookup_own in E. exact E.
Qed.
Lemma frame_agree names (st st' : store) : foreign names -> frame NO names st st' -> Forall2 agree st' st.
Proof. intros Hf H. induction H as [|c c' l l' Hc _ IH]; constructor; [eapply same_but_agree; eassumption|exact IH]. Qed.

Lemma agree_trans_l (a b c : cd) : agree a b -> agree b c -> agree a c.
Proof.
  intros (T1 & (C1 & R1) & O1) (T2 & (C2 & R2) & O2). split; [congruence|]. split; [split; [congruence|]|congruence].
  intros n Hn. rewrite (R1 n Hn). apply R2. exact Hn.
Qed.
Lemma agree_trans_list : forall (l1 l2 l3 : store), Forall2 agree l1 l2 -> Forall2 agree l2 l3 -> Forall2 agree l1 l3.
Proof.
  induction l1 as [|a l1 IH]; intros l2 l3 H1 H2; inversion H1; subst; inversion H2; subst; constructor.
  - eapply agree_trans_l; eassumption.
  - eapply IH; eassumption.
Qed.

(* paired histories: side 1 carries other indicators whose operations only write foreign
   entries, side 2 carries B alone; the same candles are appended to both *)
Variable others : list (bool * string).
Hypothesis Hforeign : foreign others.

Inductive Paired : store -> store -> Prop :=
| P_init : Paired [] []
| P_append s1 s2 new : Paired s1 s2 -> Paired (s1 ++ new) (s2 ++ new)
| P_B s1 s2 r1 r2 : Paired s1 s2 -> calculate NO B s1 = Ok r1 -> calculate NO B s2 = Ok r2 -> Paired r1 r2
| P_other s1 s2 s1' : Paired s1 s2 -> frame NO others s1 s1' -> Paired s1' s2.

Theorem paired_agree s1 s2 : Paired s1 s2 -> Forall2 agree s1 s2.
Proof.
  induction 1 as [|s1 s2 new _ IH|s1 s2 r1 r2 _ IH H1 H2|s1 s2 s1' _ IH Hfr].
  - constructor.
  - apply Forall2_app; [exact IH|apply agree_refl_list].
  - pose proof (calculate_agree s1 s2 IH) as HR. rewrite H1, H2 in HR. exact HR.
  - eapply agree_trans_list; [eapply frame_agree; [exact Hforeign|exact Hfr]|exact IH].
Qed.

Theorem noninterference s1 s2 : Paired s1 s2 ->
  map (fun c => alist_get nm (inds NO (p c))) s1 = map (fun c => alist_get nm (inds NO (p c))) s2 /\
  (forall e, calculate NO B s1 = Err e <-> calculate NO B s2 = Err e).
Proof.
  intros HP. pose proof (paired_agree s1 s2 HP) as HA. split.
  - clear HP. induction HA as [|c1 c2 l1 l2 Hc _ IH]; cbn [map]; [reflexivity|]. destruct Hc as (_ & _ & Ho). rewrite Ho, IH. reflexivity.
  - intros e. pose proof (calculate_agree s1 s2 HA) as HR.
    destruct (calculate NO B s1), (calculate NO B s2); cbn [Rres] in HR; try contradiction; split; intros H; try discriminate; congruence.
Qed.
End NI.

Section PurgeFrame.
Context (NO : NumOps).
(* purge (hence the first half of recalculate and of remove_indicator) satisfies the frame condition too *)
Lemma purge_frame (A : ind NO) (st : store NO) : frame NO (tree_names NO FUEL A) st (purge NO A st).
Proof.
  unfold purge, purge_names, frame. set (names := tree_names NO FUEL A). clearbody names.
  induction st as [|c st IH]; cbn [map]; constructor; [|exact IH].
  unfold same_but. cbn [t p]. unfold purge_payload at 1 2 3. cbn [cur clean tagged].
  repeat split. intros sub nm Hn. unfold lookup_own. destruct sub.
  - rewrite purge_payload_subs. apply fold_del_get_other. exact Hn.
  - rewrite purge_payload_inds. apply fold_del_get_other. exact Hn.
Qed.
End PurgeFrame.
