(* More definitions as theorems about the recurrence specifications over the reals (C06):
   VWAP is the cumulative volume-weighted typical price; ROC is the percentage change over
   `period` inputs. *)
From Coq Require Import ZArith List String Bool Reals Lra Lia.
From Flocq Require Import Core.
From Hexital Require Import Base.Prelude Base.Num Model.Candle Inst.RealInst Spec.Steppers Proofs.SpecReal.
Import ListNotations.
Local Open Scope R_scope.

Notation RO := ROps.

Definition typical (c : inp RO) : R := (x_h RO c + x_l RO c + x_c RO c) / 3.
Fixpoint sum_pv (cs : list (inp RO)) : R := match cs with [] => 0 | c :: r => x_v RO c * typical c + sum_pv r end.
Fixpoint sum_v (cs : list (inp RO)) : R := match cs with [] => 0 | c :: r => x_v RO c + sum_v r end.

(* the state after a stream holds the two cumulative sums *)
Definition vwap_state (s : state RO) (seen : list (inp RO)) : Prop :=
  (seen = [] /\ s_a RO s = None /\ s_b RO s = None) \/ (s_a RO s = Some (sum_pv seen) /\ s_b RO s = Some (sum_v seen)).

Lemma vwap_step_spec nd (s : state RO) (seen : list (inp RO)) (c : inp RO) :
  vwap_state s seen ->
  exists r s', vwap_step RO nd s c = Ok (VNum r, s') /\ vwap_state s' (c :: seen) /\
    (sum_v (c :: seen) <> 0 -> r = rnd10 nd (sum_pv (c :: seen) / sum_v (c :: seen))) /\
    (sum_v (c :: seen) = 0 -> r = rnd10 nd (sum_pv (c :: seen))).
Proof.
  intros Hs. unfold vwap_step. unfold zn; cbn [nofZ RO nadd]. rewrite divn_ok by lra. cbn [bind].
  assert (Ea : match s_a RO s with Some a => a | None => IZR 0 end = sum_pv seen).
  { destruct Hs as [(-> & -> & _)|(-> & _)]; reflexivity. }
  assert (Eb : match s_b RO s with Some b => b | None => IZR 0 end = sum_v seen).
  { destruct Hs as [(-> & _ & ->)|(_ & ->)]; reflexivity. }
  rewrite Ea, Eb. cbn [nmul RO neqb].
  replace ((x_h RO c + x_l RO c + x_c RO c) / IZR 3) with (typical c) by (unfold typical; reflexivity).
  unfold Reqb. destruct (Req_EM_T (sum_v seen + x_v RO c) (IZR 0)) as [E0|N0]; cbn [bind].
  - eexists _, _. split; [reflexivity|]. split; [right; cbn [s_a s_b sum_pv sum_v]; split; f_equal; lra|]. split.
    + intros Hn. exfalso. apply Hn. cbn [sum_v]. rewrite <- E0. simpl. lra.
    + intros _. unfold rnd; cbn [nround RO sum_pv]. f_equal. lra.
  - unfold divn. cbn [ndiv RO]. destruct (Req_EM_T (sum_v seen + x_v RO c) 0) as [E|_]; [exfalso; apply N0; rewrite E; reflexivity|].
    cbn [of_opt bind]. eexists _, _. split; [reflexivity|]. split; [right; cbn [s_a s_b sum_pv sum_v]; split; f_equal; lra|]. split.
    + intros _. unfold rnd; cbn [nround RO sum_pv sum_v]. f_equal. f_equal; lra.
    + intros Hz. exfalso. apply N0. cbn [sum_v] in Hz. simpl. lra.
Qed.

(* over a whole stream: reading j is the rounded ratio of the cumulative sums up to j *)
Theorem vwap_is_cumulative nd : forall (cs seen : list (inp RO)) (s : state RO), vwap_state s seen ->
  exists vs, series_from RO S_VWAP nd s cs = Ok vs /\
    Forall2 (fun (v : val RO) pre => exists r : R, v = @VNum RO r /\
               (sum_v pre <> 0 -> r = rnd10 nd (sum_pv pre / sum_v pre)) /\ (sum_v pre = 0 -> r = rnd10 nd (sum_pv pre)))
            vs (map (fun j => rev (firstn (S j) cs) ++ seen) (seq 0 (List.length cs))).
Proof.
  induction cs as [|c cs IH]; intros seen s Hs; cbn [series_from].
  - exists []. split; [reflexivity|constructor].
  - cbn [step]. destruct (vwap_step_spec nd s seen c Hs) as (r & s' & E & Hs' & H1 & H2). rewrite E. cbn [bind].
    destruct (IH (c :: seen) s' Hs') as (vs & Ev & HF). rewrite Ev. cbn [bind].
    exists (VNum r :: vs). split; [reflexivity|]. cbn [List.length seq map firstn rev app].
    constructor; [exists r; repeat split; assumption|].
    rewrite <- seq_shift, map_map.
    erewrite map_ext; [exact HF|]. intros j. cbn [firstn rev]. rewrite <- app_assoc. reflexivity.
Qed.

(* ROC: percentage change against the input `period` steps back *)
Theorem roc_definition (p nd : Z) (s : state RO) (x nb : R) :
  (0 <= p)%Z -> full RO (p + 1) (push RO (p + 1) x (s_buf RO s)) = true ->
  nth_error (push RO (p + 1) x (s_buf RO s)) (Z.to_nat p) = Some nb -> nb <> 0 ->
  exists s', roc_step RO p nd s x = Ok (@VNum RO (rnd10 nd ((x - nb) / nb * 100)), s').
Proof.
  intros Hp Hf Hn Hz. unfold roc_step. rewrite Hf, Hn. cbn [of_opt bind nsub RO]. rewrite divn_ok by exact Hz. cbn [bind].
  eexists. unfold rnd, zn; cbn [nround nmul nofZ RO]. replace (IZR 100) with 100 by reflexivity. reflexivity.
Qed.

(* WMA: the newest input weighs `period`, the oldest 1, divided by period (period + 1) / 2 *)
Definition wma_weighted (p : Z) (buf : list R) : R :=
  fold_left Rplus (map (fun pj : Z * R => snd pj * IZR (p - fst pj)) (combine (indices (List.length buf)) buf)) 0.
Theorem wma_definition (p nd : Z) (s : state RO) (x : R) :
  (0 < p)%Z -> full RO p (push RO p x (s_buf RO s)) = true ->
  exists s', wma_step RO p nd s x =
    Ok (@VNum RO (rnd10 nd (wma_weighted p (push RO p x (s_buf RO s)) / (IZR (p * (p + 1)) / 2))), s').
Proof.
  intros Hp Hf. unfold wma_step. rewrite Hf. unfold zn; cbn [nofZ RO].
  assert (H2 : IZR 2 <> 0) by (apply not_0_IZR; lia).
  rewrite divn_ok by exact H2. cbn [bind].
  assert (Hw : IZR (p * (p + 1)) / IZR 2 <> 0).
  { assert (0 < IZR (p * (p + 1))) by (apply IZR_lt; nia). replace (IZR 2) with 2 by reflexivity. lra. }
  rewrite divn_ok by exact Hw. cbn [bind]. eexists. unfold rnd; cbn [nround nsum nmul RO]. unfold wma_weighted.
  replace (IZR 2) with 2 by reflexivity. reflexivity.
Qed.
