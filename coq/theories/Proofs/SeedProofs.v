(* A Hexital without a timeframe and lifespan of its own (with or without Heikin-Ashi and the
   fill flag): its default manager keeps the whole raw stream recoverable, so a timeframe
   created later - at construction or by add_indicator after any number of appends - is seeded
   with exactly the raw stream so far, and from then on receives every chunk: each such manager
   holds, up to readings, the candles of a standalone CandleManager built over the stream as it
   was when the timeframe appeared and fed the later chunks (C08). *)
From Coq Require Import ZArith List String Bool Lia.
From Hexital Require Import Base.Prelude Base.Num Model.Manager Model.Candle Model.Readings Model.Engine
  Model.Hexital Proofs.ListProofs Proofs.HAProofs Proofs.FrameProofs Proofs.DeliverProofs Proofs.ParamProofs Proofs.HxSimProofs.
Import ListNotations.
Local Open Scope string_scope.
Local Open Scope Z_scope.

Section Seed.
Context (NO : NumOps).
Notation payload := (payload NO).
Notation cd := (cd payload).
Notation store := (store NO).
Notation mgrs := (list (string * (mcfg * store))).
Notation DL := (RL payload (same_data NO)).

Definition raw_cd (c : cd) : Prop := p c = raw_payload NO (cur NO (p c)).
Definition src (c x : cd) : Prop := t c = t x /\ recovered NO (p c) = cur NO (p x).
Definition plain (cfg : mcfg) : Prop := tf cfg = None /\ lifespan cfg = None.
Definition Inv (cfg : mcfg) (dst xs : list cd) : Prop :=
  Forall2 src dst xs /\ (ha cfg = true -> all_tagged NO dst).

Lemma raw_src x : raw_cd x -> src x x.
Proof. intros H. split; [reflexivity|]. unfold recovered. rewrite H. reflexivity. Qed.
Lemma raws_src l : Forall raw_cd l -> Forall2 src l l.
Proof. intros H; induction H; constructor; [apply raw_src; assumption|assumption]. Qed.
Lemma raw_all_raw l : Forall raw_cd l -> all_raw NO l.
Proof. intros H. unfold all_raw. rewrite Forall_forall in *. intros c Hc. rewrite (H c Hc). reflexivity. Qed.

Lemma clean_copy_src : forall dst xs, Forall2 src dst xs -> Forall raw_cd xs -> map (clean_copy NO) dst = xs.
Proof.
  intros dst xs H; induction H as [|c x l l' [Ht Hr] H IH]; intros Hx; cbn [map]; [reflexivity|].
  inversion Hx as [|? ? Hx1 Hx2]; subst. rewrite IH by assumption. f_equal.
  unfold clean_copy. destruct x as [tx px]. cbn [t p] in *. unfold raw_cd in Hx1. cbn [p] in Hx1.
  rewrite Ht, Hr, <- Hx1. reflexivity.
Qed.

Lemma conv_src todo done : exists out, convert_from NO done todo = (rev done ++ out)%list /\ Forall2 src out todo /\ all_tagged NO out.
Proof.
  destruct (convert_from_spec NO todo done) as (out & E & _ & T & G & C).
  exists out. split; [exact E|]. split; [|exact G]. clear E G.
  revert out T C. induction todo as [|c todo IH]; intros out T C; inversion C as [|? o ? out' (C1 & _) C']; subst; [constructor|].
  cbn [map] in T. injection T as T1 T2. constructor; [|apply IH; assumption].
  split; [exact T1|]. unfold recovered. rewrite C1. reflexivity.
Qed.

Lemma tasks_plain cfg st xs new : plain cfg -> Inv cfg st xs -> Forall raw_cd new ->
  exists st', tasks NO cfg (st ++ new) = Ok st' /\ Inv cfg st' (xs ++ new).
Proof.
  intros [Htf Hls] [Hs Ht] Hn. unfold tasks, collapse_candles. rewrite Htf, Hls. cbn [bind trim].
  destruct (ha cfg) eqn:Hha.
  - specialize (Ht eq_refl). pose proof (raw_all_raw new Hn) as Hraw.
    assert (E : exists out, convert NO (st ++ new) = (st ++ out)%list /\ Forall2 src out new /\ all_tagged NO out).
    { destruct st as [|c0 st0].
      - cbn [app]. rewrite convert_raw by assumption. destruct (conv_src new []) as (out & E & S & G). exists out. auto.
      - unfold convert. rewrite find_conv_index_tagged_then_raw; [|congruence|assumption|assumption].
        rewrite firstn_len_app, skipn_len_app. destruct (conv_src new (rev (c0 :: st0))) as (out & E & S & G).
        rewrite rev_involutive in E. exists out. auto. }
    destruct E as (out & E & S & G). rewrite E. eexists. split; [reflexivity|]. split.
    + apply Forall2_app; assumption.
    + intros _. apply Forall_app. split; assumption.
  - eexists. split; [reflexivity|]. split; [|intros HH; congruence]. apply Forall2_app; [exact Hs|apply raws_src; exact Hn].
Qed.

Lemma mgr_append_plain cfg st xs new : plain cfg -> Inv cfg st xs -> Forall raw_cd new ->
  exists st', mgr_append NO cfg st new = Ok st' /\ Inv cfg st' (xs ++ new).
Proof.
  intros Hp Hi Hn. unfold mgr_append. destruct new as [|n new].
  - exists st. rewrite app_nil_r. auto.
  - apply tasks_plain; assumption.
Qed.

Lemma Inv_nil cfg : Inv cfg [] [].
Proof. split; [constructor|intros _; constructor]. Qed.

(* ---- the bare managers of a plain Hexital along a program ---- *)
Definition is_own (cfg hcfg : mcfg) : Prop :=
  exists tfs, cfg = {| tf := Some tfs; fillon := fillon hcfg; ha := ha hcfg; lifespan := lifespan hcfg |}.

(* every manager other than the default one was built over a prefix of the stream and then fed
   the chunks that followed *)
Definition MInv (hcfg : mcfg) (M : mgrs) (stream : list cd) : Prop :=
  (exists dst, alist_get "default" M = Some (hcfg, dst) /\ Inv hcfg dst stream) /\
  Forall (fun kv : string * (mcfg * store) =>
            fst kv = "default" \/
            (is_own (fst (snd kv)) hcfg /\
             exists xs chunks, stream = (xs ++ List.concat chunks)%list /\ mgr_run NO (fst (snd kv)) xs chunks = Ok (snd (snd kv)))) M.

Lemma foldM_snoc {A S} (f : S -> A -> res S) l x s : foldM f (l ++ [x]) s = (s' <- foldM f l s ;; f s' x).
Proof.
  revert s; induction l as [|y l IH]; intros s; cbn [app foldM].
  - cbn [bind]. destruct (f s x); reflexivity.
  - destruct (f s y); cbn [bind]; [apply IH|reflexivity].
Qed.
Lemma concat_snoc {A} (l : list (list A)) x : List.concat (l ++ [x]) = (List.concat l ++ x)%list.
Proof. rewrite concat_app. cbn [List.concat]. rewrite app_nil_r. reflexivity. Qed.

Lemma m_append_inv hcfg : forall (M M' : mgrs) stream new,
  m_append NO M new = Ok M' ->
  Forall (fun kv : string * (mcfg * store) =>
            fst kv = "default" \/
            (is_own (fst (snd kv)) hcfg /\
             exists xs chunks, stream = (xs ++ List.concat chunks)%list /\ mgr_run NO (fst (snd kv)) xs chunks = Ok (snd (snd kv)))) M ->
  Forall (fun kv : string * (mcfg * store) =>
            fst kv = "default" \/
            (is_own (fst (snd kv)) hcfg /\
             exists xs chunks, (stream ++ new)%list = (xs ++ List.concat chunks)%list /\ mgr_run NO (fst (snd kv)) xs chunks = Ok (snd (snd kv)))) M'.
Proof.
  unfold m_append. induction M as [|[k [c s]] M IH]; intros M' stream new H HF; cbn [mapM] in H.
  - inversion H; constructor.
  - destruct (mgr_append NO c s new) as [s1|] eqn:E; cbn [bind] in H; [|discriminate].
    destruct (mapM _ M) as [M1|] eqn:EM; cbn [bind] in H; [|discriminate].
    inversion H; subst. inversion HF as [|? ? H1 H2]; subst. constructor; [|eapply IH; [exact EM|exact H2]].
    cbn [fst snd] in *. destruct H1 as [H1|(Ho & xs & chunks & Es & Er)]; [left; exact H1|right].
    split; [exact Ho|]. exists xs, (chunks ++ [new])%list. split.
    + rewrite concat_snoc, app_assoc, Es. reflexivity.
    + unfold mgr_run in *. destruct (tasks NO c xs) as [s0|]; cbn [bind] in *; [|discriminate].
      rewrite foldM_snoc, Er. cbn [bind]. exact E.
Qed.

Lemma m_append_default hcfg : forall (M M' : mgrs) dst new,
  m_append NO M new = Ok M' -> alist_get "default" M = Some (hcfg, dst) ->
  exists dst', mgr_append NO hcfg dst new = Ok dst' /\ alist_get "default" M' = Some (hcfg, dst').
Proof.
  unfold m_append. induction M as [|[k [c s]] M IH]; intros M' dst new H G; cbn [mapM alist_get] in *; [discriminate|].
  destruct (mgr_append NO c s new) as [s1|] eqn:E; cbn [bind] in H; [|discriminate].
  destruct (mapM _ M) as [M1|] eqn:EM; cbn [bind] in H; [|discriminate].
  inversion H; subst. cbn [alist_get]. destruct (String.eqb "default" k).
  - inversion G; subst. exists s1. auto.
  - eapply IH; [exact EM|exact G].
Qed.

Lemma alist_get_app_some {A} k (l l' : list (string * A)) v : alist_get k l = Some v -> alist_get k (l ++ l') = Some v.
Proof. induction l as [|[k' v'] l IH]; cbn [alist_get app]; [discriminate|]. destruct (String.eqb k k'); auto. Qed.

Theorem m_step_inv hcfg (M M' : mgrs) stream (op : hop NO) :
  plain hcfg -> Forall raw_cd stream -> MInv hcfg M stream ->
  match op with HAppend _ new => Forall raw_cd new | _ => True end ->
  m_step NO hcfg M op = Ok M' ->
  MInv hcfg M' (match op with HAppend _ new => stream ++ new | _ => stream end)%list.
Proof.
  intros Hp Hraw [(dst & G & Hi) HF] Hop H. destruct op as [new|name|name|name|name index|name|J own]; cbn [m_step] in H;
    try (inversion H; subst; split; [exists dst; auto|exact HF]).
  - destruct (m_append_default hcfg M M' dst new H G) as (dst' & Ea & G').
    destruct (mgr_append_plain hcfg dst stream new Hp Hi Hop) as (d2 & Ea2 & Hi2). rewrite Ea in Ea2. inversion Ea2; subst d2.
    split; [exists dst'; auto|]. eapply m_append_inv; eassumption.
  - unfold m_attach in H. destruct own as [[key tfs]|]; [|inversion H; subst; split; [exists dst; auto|exact HF]].
    destruct (alist_get key M) as [x|]; [inversion H; subst; split; [exists dst; auto|exact HF]|].
    rewrite G in H. cbn [of_opt bind] in H. destruct Hi as [Hs Ht].
    rewrite (clean_copy_src dst stream Hs Hraw) in H.
    destruct (tasks NO _ stream) as [st|] eqn:T; cbn [bind] in H; [|discriminate]. inversion H; subst.
    split; [exists dst; split; [apply alist_get_app_some; exact G|split; assumption]|].
    apply Forall_app. split; [exact HF|]. constructor; [|constructor]. right. cbn [fst snd].
    split; [exists tfs; reflexivity|]. exists stream, []. cbn [List.concat]. rewrite app_nil_r. split; [reflexivity|].
    unfold mgr_run. rewrite T. reflexivity.
Qed.


(* the candles a program appends *)
Definition appended (ops : list (hop NO)) : list cd :=
  List.concat (map (fun op : hop NO => match op with HAppend _ new => new | _ => [] end) ops).
Definition op_raw (op : hop NO) : Prop := match op with HAppend _ new => Forall raw_cd new | _ => True end.

Lemma m_program_inv hcfg : plain hcfg -> forall (ops : list (hop NO)) (M M' : mgrs) stream,
  Forall raw_cd stream -> MInv hcfg M stream -> Forall op_raw ops ->
  foldM (m_step NO hcfg) ops M = Ok M' -> MInv hcfg M' (stream ++ appended ops)%list.
Proof.
  intros Hp. induction ops as [|op ops IH]; intros M M' stream Hraw HI Hops H; cbn [foldM] in H.
  - inversion H; subst. unfold appended. cbn [map List.concat]. rewrite app_nil_r. exact HI.
  - destruct (m_step NO hcfg M op) as [M1|] eqn:E; cbn [bind] in H; [|discriminate].
    inversion Hops as [|? ? Hop Hops']; subst.
    pose proof (m_step_inv hcfg M M1 stream op Hp Hraw HI Hop E) as HI1.
    unfold appended. cbn [map List.concat]. fold (appended ops). rewrite app_assoc.
    destruct op as [new|name|name|name|name index|name|J own]; cbn [op_raw] in Hop;
      try (rewrite app_nil_r; eapply IH; eassumption).
    eapply IH; [apply Forall_app; split; assumption|exact HI1|exact Hops'|exact H].
Qed.

Lemma foldM_app {A S} (f : S -> A -> res S) l l' s : foldM f (l ++ l') s = (s1 <- foldM f l s ;; foldM f l' s1).
Proof. revert s; induction l as [|a l IH]; intros s; cbn [app foldM bind]; [reflexivity|]. destruct (f s a); cbn [bind]; auto. Qed.
Lemma foldM_map {A B S} (f : S -> B -> res S) (g : A -> B) l s : foldM f (map g l) s = foldM (fun s a => f s (g a)) l s.
Proof. revert s; induction l as [|a l IH]; intros s; cbn [map foldM]; [reflexivity|]. destruct (f s (g a)); cbn [bind]; auto. Qed.

(* The theorem.  A Hexital without timeframe and lifespan, built over raw candles [init] with
   any members, then driven by any program whose appends bring raw candles: every manager
   other than the default one has the settings Hexital gives a member timeframe and holds, up
   to readings, the candles of a standalone CandleManager with those settings that was built
   over a prefix of the stream (the stream as it was when the timeframe appeared) and then
   given, chunk by chunk, everything that followed. *)
Theorem hexital_timeframes_are_standalone_managers (hcfg : mcfg) (init : list cd)
        (members : list (ind NO * option (string * Z))) (ops : list (hop NO)) (h0 h' : hexital NO) :
  plain hcfg -> Forall raw_cd init -> Forall (fun m => wf_tree NO FUEL (fst m)) members ->
  Forall (op_wf NO) ops -> Forall op_raw ops ->
  hx_new NO hcfg init members = Ok h0 -> foldM (hx_step NO hcfg) ops h0 = Ok h' ->
  Forall (fun kv : string * (mcfg * store) =>
            fst kv = "default" \/
            (is_own (fst (snd kv)) hcfg /\
             exists xs chunks st, (init ++ appended ops)%list = (xs ++ List.concat chunks)%list /\
                                  mgr_run NO (fst (snd kv)) xs chunks = Ok st /\ DL (snd (snd kv)) st))
         (h_mgrs NO h').
Proof.
  intros Hp Hinit Hmem Hwf Hraw Hnew Hrun. unfold hx_new in Hnew.
  destruct (tasks NO hcfg init) as [st0|] eqn:T; cbn [bind] in Hnew; [|discriminate].
  set (adds := map (fun m : ind NO * option (string * Z) => HAdd NO (fst m) (snd m)) members).
  set (hinit := {| h_mgrs := [("default", (hcfg, st0))]; h_members := [] |} : hexital NO).
  assert (Hadds : foldM (hx_step NO hcfg) adds hinit = Ok h0).
  { unfold adds. rewrite foldM_map. exact Hnew. }
  assert (Hall : foldM (hx_step NO hcfg) (adds ++ ops) hinit = Ok h').
  { rewrite foldM_app, Hadds. exact Hrun. }
  assert (Hwf_all : Forall (op_wf NO) (adds ++ ops)).
  { apply Forall_app. split; [|exact Hwf]. unfold adds. rewrite Forall_forall in *. intros op Hop.
    apply in_map_iff in Hop. destruct Hop as (m & Em & Hm). subst op. cbn [op_wf]. apply Hmem. exact Hm. }
  assert (Hraw_all : Forall op_raw (adds ++ ops)).
  { apply Forall_app. split; [|exact Hraw]. unfold adds. rewrite Forall_forall. intros op Hop.
    apply in_map_iff in Hop. destruct Hop as (m & Em & Hm). subst op. exact Logic.I. }
  assert (Happ : appended (adds ++ ops) = appended ops).
  { unfold appended. rewrite map_app, concat_app. unfold adds. rewrite map_map. cbn beta iota.
    assert (E : List.concat (map (fun _ : ind NO * option (string * Z) => @nil cd) members) = []) by (clear; induction members as [|m ms IHm]; cbn [map List.concat app]; [reflexivity|exact IHm]).
    rewrite E. reflexivity. }
  destruct (hx_program_sim NO hcfg (adds ++ ops) hinit h' (h_mgrs NO hinit)) as (M' & EM & RM);
    [constructor| exact Hwf_all | apply mgrs_rel_refl; apply DL_refl | exact Hall |].
  assert (HI0 : MInv hcfg (h_mgrs NO hinit) init).
  { split.
    - exists st0. split; [reflexivity|]. destruct (tasks_plain hcfg [] [] init Hp (Inv_nil hcfg) Hinit) as (s & Es & Is).
      cbn [app] in Es, Is. rewrite T in Es. inversion Es; subst. exact Is.
    - constructor; [left; reflexivity|constructor]. }
  pose proof (m_program_inv hcfg Hp (adds ++ ops) _ M' init Hinit HI0 Hraw_all EM) as [_ HF]. rewrite Happ in HF.
  clear -RM HF. induction RM as [|x y l l' (A & B & C) RM IH]; constructor; inversion HF as [|? ? H1 H2]; subst.
  - destruct H1 as [H1|(Ho & xs & chunks & Es & Er)]; [left; congruence|right].
    rewrite B in Ho, Er. split; [exact Ho|]. exists xs, chunks, (snd (snd y)). auto.
  - apply IH. exact H2.
Qed.

End Seed.
