(* Collapse + fill + lifespan under appends (C15/C12): the manager with a timeframe, gap
   filling and a lifespan holds the same window for every append schedule. *)
From Coq Require Import ZArith List Bool Lia ZifyBool.
From Hexital Require Import Base.Prelude Model.Manager Proofs.CollapseProofs Proofs.FillProofs Proofs.ComposeProofs
  Proofs.FillCompose Proofs.TrimCompose Proofs.FillEngine.
Import ListNotations.
Local Open Scope Z_scope.

Section FillTrim.
Variable P : Type.
Variable merge : P -> P -> P.
Variable fillp : P -> P.
Notation cd := (cd P).
Notation fill := (fill P fillp).
Notation fill_from := (fill_from P fillp).
Notation resample := (resample P merge).
Notation resample_acc := (resample_acc P merge).
Notation cf := (cf P merge fillp).
Notation chain := (chain P).

(* what collapse + fill does to a filled series followed by new candles: everything but the
   last stored candle is kept, the rest is rebuilt from the last candle and the new ones *)
Lemma cf_last tf (Htf : 0 < tf) (Linit : list cd) (l : cd) (ys : list cd) :
  on_grid P tf (Linit ++ [l]) -> strictly_inc P (Linit ++ [l]) -> chain tf (Linit ++ [l]) ->
  lsorted P tf ((Linit ++ [l]) ++ ys) ->
  exists h tl, resample_acc tf [l] ys = h :: tl /\ t h = t l /\
    cf tf ((Linit ++ [l]) ++ ys) = (rb <- fill_from tf h tl ;; Ok (Linit ++ h :: rb)).
Proof.
  intros G S C L. destruct (resample_acc_head_t P merge tf ys l) as (h & tl & ET & Hth). exists h, tl.
  split; [exact ET|]. split; [exact Hth|].
  unfold FillCompose.cf. rewrite (collapse_lsorted P merge tf _ Htf L). cbn [bind].
  unfold Manager.resample. rewrite resample_acc_app. rewrite (resample_acc_id P merge tf Htf _ []); [|exact G|exact S].
  cbn [rev app]. rewrite rev_unit. rewrite (resample_acc_head P merge tf ys l (rev Linit)). rewrite rev_involutive, ET.
  apply (fill_split P fillp tf Htf Linit h tl). eapply chain_swap_last; [symmetry; exact Hth|exact C].
Qed.

Lemma chain_suffix tf : forall (pre s : list cd), s <> [] -> chain tf (pre ++ s) -> chain tf s.
Proof.
  intros pre s Hs H. destruct pre as [|p0 pre]; [exact H|]. cbn [app FillEngine.chain] in H.
  destruct (contiguous_app P tf pre (t p0) s H) as [_ H2]. destruct s as [|s0 s']; [congruence|].
  cbn [FillEngine.chain]. destruct H2 as [_ H2]. exact H2.
Qed.
Lemma strictly_inc_suffix : forall (pre s : list cd), strictly_inc P (pre ++ s) -> strictly_inc P s.
Proof.
  induction pre as [|p0 pre IH]; intros s H; [exact H|]. apply IH. cbn [app strictly_inc] in H.
  destruct (pre ++ s) as [|q0 q] eqn:E; [exact I|]. destruct H as [_ H]. exact H.
Qed.

Definition cft (tf ls : Z) (l : list cd) : res (list cd) := o <- cf tf l ;; Ok (trim P (Some ls) o).

Theorem collapse_fill_trim_incremental (tf ls : Z) (xs ys D : list cd) :
  0 < tf -> 0 <= ls -> sorted P (xs ++ ys) -> cft tf ls xs = Ok D -> cft tf ls (D ++ ys) = cft tf ls (xs ++ ys).
Proof.
  intros Htf Hls Hs HD. unfold cft in *.
  destruct (cf tf xs) as [F|] eqn:HF; cbn [bind] in HD; [|discriminate].
  destruct (cf_shape P merge fillp tf xs ys F Htf Hs HF) as (GF & SF & CF & LF).
  rewrite <- (collapse_fill_incremental P merge fillp tf xs ys F Htf Hs HF).
  destruct (exists_last_or_nil F) as [EF|(Finit & f & EF)].
  - subst F. cbn in HD. assert (D = []) by congruence. subst D. reflexivity.
  - assert (HsF : sorted P F).
    { destruct F as [|c0 F']; [exact I|]. cbn [sorted]. apply strictly_inc_from_sorted. exact SF. }
    destruct (trim_keeps_newest P ls F f Finit Hls EF HsF) as (S' & ES).
    assert (ED : D = S' ++ [f]) by congruence. clear HD.
    unfold trim in ES. rewrite EF, rev_unit in ES. rewrite <- EF in ES.
    destruct (drop_older_split P F (t f - ls)) as (Pre & EP & FP). rewrite ES in EP.
    assert (EFi : Finit = Pre ++ S').
    { rewrite EF in EP. rewrite app_assoc in EP. apply app_inj_tail in EP. tauto. }
    (* the shape of the retained suffix *)
    assert (EFs : F = Pre ++ (S' ++ [f])) by (rewrite EF, EFi, <- app_assoc; reflexivity).
    assert (GS : on_grid P tf (S' ++ [f])) by (rewrite EFs in GF; apply Forall_app in GF; tauto).
    assert (SS : strictly_inc P (S' ++ [f])) by (rewrite EFs in SF; eapply strictly_inc_suffix; exact SF).
    assert (CS : chain tf (S' ++ [f])) by (rewrite EFs in CF; eapply chain_suffix; [destruct S'; discriminate|exact CF]).
    assert (LS : lsorted P tf ((S' ++ [f]) ++ ys)).
    { apply (lsorted_drop_prefix P tf Pre); [destruct S'; discriminate|]. rewrite app_assoc, <- EFs. exact LF. }
    subst D.
    rewrite EF in GF, SF, CF, LF.
    destruct (cf_last tf Htf Finit f ys GF SF CF LF) as (h & tl & ET & Hth & E1).
    destruct (cf_last tf Htf S' f ys GS SS CS LS) as (h' & tl' & ET' & _ & E2).
    rewrite ET in ET'. injection ET' as Eh Etl. subst h' tl'.
    rewrite EF, E1, E2. destruct (fill_from tf h tl) as [rb|e] eqn:Erb; cbn [bind]; [|reflexivity]. f_equal.
    rewrite EFi, <- app_assoc. set (X := S' ++ h :: rb).
    assert (HX : X <> []) by (unfold X; destruct S'; discriminate).
    (* the whole-stream series is strictly increasing *)
    assert (SX : strictly_inc P X).
    { assert (Hall : cf tf ((Finit ++ [f]) ++ ys) = Ok (Pre ++ X)).
      { rewrite E1. cbn [bind]. rewrite EFi, <- app_assoc. reflexivity. }
      rewrite <- EF in Hall.
      rewrite (collapse_fill_incremental P merge fillp tf xs ys F Htf Hs HF) in Hall.
      assert (Hs' : sorted P ((xs ++ ys) ++ [])) by (rewrite app_nil_r; exact Hs).
      destruct (cf_shape P merge fillp tf (xs ++ ys) [] _ Htf Hs' Hall) as (_ & SA & _).
      eapply strictly_inc_suffix. exact SA. }
    unfold trim. rewrite rev_app_distr.
    destruct (rev X) as [|z q] eqn:EX; [exfalso; apply HX; apply (f_equal (@rev _)) in EX; rewrite rev_involutive in EX; exact EX|].
    cbn [app]. rewrite drop_older_app_pre; [reflexivity|].
    apply (Forall_lt_mono P Pre (t f - ls)); [|exact FP].
    assert (Hin : In h X) by (unfold X; apply in_or_app; right; left; reflexivity).
    pose proof (rev_head_last P X q z h EX) as HL.
    destruct X as [|x0 X'] eqn:EXX; [congruence|]. cbn [strictly_inc] in SX.
    assert (Hle : t h <= t z).
    { rewrite <- HL. destruct Hin as [<-|Hin].
      - destruct X' as [|x1 X'']; [cbn; lia|].
        change (List.last (x0 :: x1 :: X'') x0) with (List.last (x1 :: X'') x0).
        assert (Hl : In (List.last (x1 :: X'') x0) (x1 :: X'')).
        { clear. revert x1. induction X'' as [|y l IHl]; intros x1; [left; reflexivity|]. right. apply IHl. }
        pose proof (strictly_inc_from_gt P (x1 :: X'') (t x0) _ SX Hl). lia.
      - destruct X' as [|x1 X'']; [destruct Hin|].
        change (List.last (x0 :: x1 :: X'') h) with (List.last (x1 :: X'') h).
        apply (strictly_inc_from_last P (x1 :: X'') (t x0) h h SX Hin). }
    lia.
Qed.
End FillTrim.

From Hexital Require Import Base.Num Model.Candle.
Section FillTrimManager.
Context (NO : NumOps).
Notation cd := (cd (payload NO)).
Definition tf_fill_life_cfg (tf ls : Z) : mcfg := {| tf := Some tf; fillon := true; ha := false; lifespan := Some ls |}.
Lemma tasks_cft tf ls l : tasks NO (tf_fill_life_cfg tf ls) l = cft (payload NO) (Candle.merge NO) (fillp NO) tf ls l.
Proof.
  unfold tasks, cft, FillCompose.cf, tf_fill_life_cfg, collapse_candles. cbn [Candle.tf fillon ha lifespan].
  destruct (collapse (payload NO) (Candle.merge NO) tf l) as [o|e]; cbn [bind]; [|reflexivity].
  destruct (fill (payload NO) (fillp NO) tf o); reflexivity.
Qed.
Theorem manager_fill_lifespan_incremental (tf ls : Z) (xs ys D : list cd) :
  0 < tf -> 0 <= ls -> sorted (payload NO) (xs ++ ys) ->
  tasks NO (tf_fill_life_cfg tf ls) xs = Ok D ->
  mgr_append NO (tf_fill_life_cfg tf ls) D ys = tasks NO (tf_fill_life_cfg tf ls) (xs ++ ys).
Proof.
  intros Htf Hls Hs HD. unfold mgr_append. destruct ys as [|y ys'].
  - rewrite app_nil_r. symmetry. exact HD.
  - rewrite !tasks_cft in *. apply collapse_fill_trim_incremental; assumption.
Qed.
End FillTrimManager.
