(* Further discharged obligations of the engine theorem: COUNTER, RMA (no invariant needed),
   ROC and WMA (with the generic warm-up invariant that keeps their look-back inside the list). *)
From Coq Require Import ZArith List String Ascii Bool Lia ZifyBool.
From Hexital Require Import Base.Prelude Base.Num Model.Manager Model.Candle Model.Readings Model.Analysis
  Model.Engine Proofs.ListProofs Proofs.EngineProofs Proofs.AnalysisProofs Proofs.CausalProofs.
Import ListNotations.
Local Open Scope Z_scope.

Section More.
Context (NO : NumOps).
Notation val := (val NO).
Notation payload := (payload NO).
Notation cd := (cd payload).
Notation store := (store NO).
Variable I : ind NO.
Notation nm := (i_name NO I).
Notation stable := (stable NO I).
Notation pure_calc := (pure_calc NO I).

Lemma mapM_ext {A B} (f g : A -> res B) l : (forall x, In x l -> f x = g x) -> mapM f l = mapM g l.
Proof.
  induction l as [|y l IH]; intros H; cbn [mapM]; [reflexivity|].
  rewrite (H y (or_introl eq_refl)). rewrite IH; [reflexivity|]. intros x Hx. apply H. right. exact Hx.
Qed.

(* reading at any index up to |a| *)
Lemma reading_mid_le (a rest : store) d x name j : stable name -> 0 <= j <= zlen a ->
  reading NO (a ++ slot NO I d x :: rest) name j = reading NO (a ++ [d]) name j.
Proof.
  intros Hs Hj. unfold reading.
  destruct (Z.eq_dec j (zlen a)) as [->|Hne].
  - rewrite (pyidx_mid NO a rest (slot NO I d x)). rewrite (pyidx_mid NO a [] d). apply Hs.
  - rewrite !(pyidx_app_l NO) by lia. reflexivity.
Qed.
Lemma rnum_mid_le (a rest : store) d x name j : stable name -> 0 <= j <= zlen a ->
  rnum NO (a ++ slot NO I d x :: rest) name j = rnum NO (a ++ [d]) name j.
Proof. intros Hs Hj. unfold rnum. rewrite reading_mid_le by assumption. reflexivity. Qed.

Ltac finish_proj :=
  repeat match goal with
  | |- context [bind (rnum NO ?s ?n ?i) _] => destruct (rnum NO s n i); cbn [bind]
  | |- context [bind (as_num NO ?v) _] => destruct (as_num NO v); cbn [bind]
  | |- context [bind (divn NO ?a ?b) _] => destruct (divn NO a b); cbn [bind]
  | |- context [bind (reading NO ?s ?n ?i) _] => destruct (reading NO s n i); cbn [bind]
  | |- context [bind (prev_reading NO ?s ?n ?i) _] => destruct (prev_reading NO s n i); cbn [bind]
  | |- context [bind (prev_exists NO ?s ?n ?i) _] => destruct (prev_exists NO s n i) as [[|]|]; cbn [bind]
  | |- context [bind (rperiod NO ?s ?p ?n ?i) _] => destruct (rperiod NO s p n i) as [[|]|]; cbn [bind]
  | |- context [bind (csum NO ?s ?p ?n ?i) _] => destruct (csum NO s p n i); cbn [bind]
  | |- context [bind (mapM ?f ?l) _] => destruct (mapM f l); cbn [bind]
  | |- context [if ?b then _ else _] => destruct b
  end; try reflexivity.

Section COUNTER.
Variable input : string.
Variable cv : val.
Hypothesis K : i_kind NO I = K_COUNTER input cv.
Hypothesis Hinput : stable input.
Lemma counter_pure rec st i : calc_reading NO rec I st i = (v <- pure_calc st i ;; Ok (v, st)).
Proof.
  unfold CausalProofs.pure_calc, calc_reading. rewrite K.
  destruct (reading NO st input i); cbn [bind]; [|reflexivity].
  destruct (prev_reading NO st nm i); cbn [bind]; [|reflexivity].
  destruct (is_none NO a); [reflexivity|].
  destruct (py_eq _ _ _); [|reflexivity].
  destruct (as_num NO _); reflexivity.
Qed.
Lemma counter_causal : Causal NO I pure_calc.
Proof.
  intros a d x rest _ Hd. unfold CausalProofs.pure_calc, calc_reading. rewrite K.
  rewrite !prev_reading_slot_mid. rewrite (reading_stable_mid NO I a rest d x input Hinput). finish_proj.
Qed.
End COUNTER.

Section RMA.
Variable period : Z.
Variable input : string.
Hypothesis K : i_kind NO I = K_RMA period input.
Hypothesis Hperiod : 1 <= period.
Hypothesis Hinput : stable input.
Lemma rma_pure rec st i : calc_reading NO rec I st i = (v <- pure_calc st i ;; Ok (v, st)).
Proof.
  unfold CausalProofs.pure_calc, calc_reading. rewrite K.
  destruct (divn NO _ _); cbn [bind]; [|reflexivity].
  destruct (prev_exists NO st nm i) as [[|]|]; cbn [bind]; try reflexivity.
  - destruct (prev_reading NO st nm i); cbn [bind]; [|reflexivity].
    destruct (as_num NO a0); cbn [bind]; [|reflexivity].
    destruct (rnum NO st input i); reflexivity.
  - destruct (rperiod NO st period input i) as [[|]|]; cbn [bind]; try reflexivity.
    destruct (mapM _ _); cbn [bind]; [|reflexivity].
    destruct (divn NO _ _); reflexivity.
Qed.
Lemma rma_causal : Causal NO I pure_calc.
Proof.
  intros a d x rest _ Hd. unfold CausalProofs.pure_calc, calc_reading. rewrite K.
  rewrite prev_exists_slot_mid, !prev_reading_slot_mid.
  rewrite (rnum_stable_mid NO I a rest d x input Hinput).
  rewrite (rperiod_mid NO I a rest d x input period Hinput Hperiod).
  destruct (divn NO _ _); cbn [bind]; [|reflexivity].
  destruct (prev_exists NO (a ++ [d]) nm (zlen a)) as [[|]|]; cbn [bind]; try reflexivity.
  - finish_proj.
  - destruct (rperiod NO (a ++ [d]) period input (zlen a)) as [[|]|] eqn:Rp; cbn [bind]; try reflexivity.
    apply rperiod_true_bound in Rp.
    match goal with |- context [mapM ?f (combine ?u ?w)] =>
      match goal with |- context [mapM ?g (combine u w)] =>
        lazymatch f with g => fail | _ => rewrite (mapM_ext f g (combine u w)) end end end; [finish_proj|].
    intros [py j] Hin. apply in_combine_r in Hin. cbn [fst snd].
    unfold zrange_down in Hin. apply in_map_iff in Hin. destruct Hin as (k & <- & Hk). apply in_seq in Hk.
    rewrite (rnum_mid_le a rest d x input) by (try assumption; lia). reflexivity.
Qed.
End RMA.

(* ---- warm-up invariant, generic: if a fresh non-None reading can only arise behind a
   previous reading or from index w on, a canonical store has readings only from w on, and
   a previous reading at index |a| means |a| >= w + 1 ---- *)
Section Warmup.
Variable w : Z.
Hypothesis Htop : i_sub NO I = false.
Hypothesis Hplain : has_dot nm = false /\ forall q, candle_attr NO q nm = None.
Hypothesis Hwarm : forall (a : store) d v, pure_calc (a ++ [d]) (zlen a) = Ok v -> is_none NO v = false ->
  prev_exists NO (a ++ [d]) nm (zlen a) = Ok true \/ w <= zlen a.

Lemma rbc_setk_own' d v : reading_by_candle NO (p (setk NO I d v)) nm = Ok v.
Proof.
  destruct Hplain as [Hd Ha]. unfold reading_by_candle. rewrite Hd, Ha.
  unfold setk, with_own_dict, own, own_dict. cbn [p]. rewrite Htop. cbn [inds].
  rewrite alist_get_set_same. reflexivity.
Qed.

Definition WInv (a : store) : Prop :=
  forall j c v, nth_error a j = Some c -> reading_by_candle NO (p c) nm = Ok v -> is_none NO v = false ->
  w <= Z.of_nat j.

Lemma prev_true_inv (a : store) d : WInv a -> prev_exists NO (a ++ [d]) nm (zlen a) = Ok true -> w + 1 <= zlen a.
Proof.
  intros Hinv Pe. unfold prev_exists, prev_reading in Pe.
  destruct (a ++ [d]) eqn:E0; [destruct a; discriminate|]. rewrite <- E0 in Pe. clear E0.
  destruct (zlen a =? 0) eqn:Z0; [cbn in Pe; discriminate|].
  pose proof (zlen_nonneg a). rewrite (reading_app_l NO) in Pe by lia.
  destruct (reading NO a nm (zlen a - 1)) as [pv|] eqn:Er; cbn [bind] in Pe; [|discriminate].
  inversion Pe as [Hpv]. apply negb_true_iff in Hpv.
  assert (Hk : exists k ck, nth_error a k = Some ck /\ Z.of_nat k = zlen a - 1).
  { exists (List.length a - 1)%nat. destruct (nth_error a (List.length a - 1)) eqn:En.
    - eexists; split; [reflexivity|unfold zlen in *; lia].
    - apply nth_error_None in En. unfold zlen in *. lia. }
  destruct Hk as (k & ck & Hck & Hkz). rewrite <- Hkz in Er. rewrite (reading_last NO I Htop Hplain a k ck nm Hck) in Er.
  pose proof (Hinv k ck pv Hck Er Hpv). lia.
Qed.

Lemma warm_inv a : IsCanon NO I pure_calc a -> WInv a.
Proof.
  induction 1 as [|a d v Ha IH Hd Ev]; intros j c x Hj Hr Hn; [destruct j; discriminate|].
  destruct (Nat.lt_ge_cases j (List.length a)) as [Hlt|Hge].
  - rewrite nth_error_app1 in Hj by assumption. eapply IH; eassumption.
  - rewrite nth_error_app2 in Hj by assumption.
    destruct (j - List.length a)%nat as [|k] eqn:Ek; [|destruct k; discriminate]. cbn in Hj. inversion Hj; subst c.
    assert (j = List.length a) by lia. subst j.
    rewrite rbc_setk_own' in Hr. inversion Hr; subst x. rewrite rnd_none in Hn.
    destruct (Hwarm a d v Ev Hn) as [Pe|Hw]; [|unfold zlen in *; lia].
    pose proof (prev_true_inv a d IH Pe). unfold zlen in *. lia.
Qed.

Lemma prev_true_bound (a : store) d : IsCanon NO I pure_calc a -> prev_exists NO (a ++ [d]) nm (zlen a) = Ok true -> w + 1 <= zlen a.
Proof. intros Ha. apply prev_true_inv. apply warm_inv. exact Ha. Qed.
End Warmup.

Section ROC.
Variable period : Z.
Variable input : string.
Hypothesis K : i_kind NO I = K_ROC period input.
Hypothesis Hperiod : 1 <= period.
Hypothesis Hinput : stable input.
Hypothesis Htop : i_sub NO I = false.
Hypothesis Hplain : has_dot nm = false /\ forall q, candle_attr NO q nm = None.
Lemma roc_pure rec st i : calc_reading NO rec I st i = (v <- pure_calc st i ;; Ok (v, st)).
Proof.
  unfold CausalProofs.pure_calc, calc_reading. rewrite K.
  destruct (prev_exists NO st nm i) as [[|]|]; cbn [bind]; try reflexivity.
  - destruct (rnum NO st input (i - period)); cbn [bind]; [|reflexivity].
    destruct (rnum NO st input i); cbn [bind]; [|reflexivity].
    destruct (divn NO _ _); reflexivity.
  - destruct (rperiod NO st (period + 1) input i) as [[|]|]; cbn [bind]; try reflexivity.
    destruct (rnum NO st input (i - period)); cbn [bind]; [|reflexivity].
    destruct (rnum NO st input i); cbn [bind]; [|reflexivity].
    destruct (divn NO _ _); reflexivity.
Qed.
Lemma roc_warm (a : store) d v : pure_calc (a ++ [d]) (zlen a) = Ok v -> is_none NO v = false ->
  prev_exists NO (a ++ [d]) nm (zlen a) = Ok true \/ period <= zlen a.
Proof.
  intros Ev Hn. unfold CausalProofs.pure_calc, calc_reading in Ev. rewrite K in Ev.
  destruct (prev_exists NO (a ++ [d]) nm (zlen a)) as [[|]|] eqn:Pe; cbn [bind] in Ev; try discriminate; [left; reflexivity|].
  right. destruct (rperiod NO (a ++ [d]) (period + 1) input (zlen a)) as [[|]|] eqn:Rp; cbn [bind] in Ev; try discriminate.
  - apply rperiod_true_bound in Rp. lia.
  - unfold ret in Ev. inversion Ev; subst v. discriminate.
Qed.
Lemma roc_causal : Causal NO I pure_calc.
Proof.
  intros a d x rest Ha Hd. unfold CausalProofs.pure_calc, calc_reading. rewrite K.
  rewrite prev_exists_slot_mid.
  rewrite (rnum_stable_mid NO I a rest d x input Hinput).
  rewrite (rperiod_mid NO I a rest d x input (period + 1) Hinput ltac:(lia)).
  pose proof (zlen_nonneg a).
  destruct (prev_exists NO (a ++ [d]) nm (zlen a)) as [[|]|] eqn:Pe; cbn [bind]; try reflexivity.
  - pose proof (prev_true_bound period Htop Hplain roc_warm a d Ha Pe).
    rewrite (rnum_mid_le a rest d x input (zlen a - period)) by (try assumption; lia). finish_proj.
  - destruct (rperiod NO (a ++ [d]) (period + 1) input (zlen a)) as [[|]|] eqn:Rp; cbn [bind]; try reflexivity.
    apply rperiod_true_bound in Rp.
    rewrite (rnum_mid_le a rest d x input (zlen a - period)) by (try assumption; lia). finish_proj.
Qed.
End ROC.

Section WMA.
Variable period : Z.
Variable input : string.
Hypothesis K : i_kind NO I = K_WMA period input.
Hypothesis Hperiod : 1 <= period.
Hypothesis Hinput : stable input.
Hypothesis Htop : i_sub NO I = false.
Hypothesis Hplain : has_dot nm = false /\ forall q, candle_attr NO q nm = None.
Lemma wma_pure rec st i : calc_reading NO rec I st i = (v <- pure_calc st i ;; Ok (v, st)).
Proof.
  unfold CausalProofs.pure_calc, calc_reading. rewrite K.
  destruct (prev_exists NO st nm i) as [[|]|]; cbn [bind]; try reflexivity.
  - destruct (mapM _ _); cbn [bind]; [|reflexivity].
    destruct (divn NO _ _); cbn [bind]; [|reflexivity]. destruct (divn NO _ _); reflexivity.
  - destruct (rperiod NO st period input i) as [[|]|]; cbn [bind]; try reflexivity.
    destruct (mapM _ _); cbn [bind]; [|reflexivity].
    destruct (divn NO _ _); cbn [bind]; [|reflexivity]. destruct (divn NO _ _); reflexivity.
Qed.
Lemma wma_warm (a : store) d v : pure_calc (a ++ [d]) (zlen a) = Ok v -> is_none NO v = false ->
  prev_exists NO (a ++ [d]) nm (zlen a) = Ok true \/ period - 1 <= zlen a.
Proof.
  intros Ev Hn. unfold CausalProofs.pure_calc, calc_reading in Ev. rewrite K in Ev.
  destruct (prev_exists NO (a ++ [d]) nm (zlen a)) as [[|]|] eqn:Pe; cbn [bind] in Ev; try discriminate; [left; reflexivity|].
  right. destruct (rperiod NO (a ++ [d]) period input (zlen a)) as [[|]|] eqn:Rp; cbn [bind] in Ev; try discriminate.
  - apply rperiod_true_bound in Rp. lia.
  - unfold ret in Ev. inversion Ev; subst v. discriminate.
Qed.
Lemma wma_terms (a rest : store) d x : 0 <= zlen a - (period - 1) ->
  forall pj : Z * Z, In pj (combine (map Z.of_nat (seq 0 (List.length (zrange_down (zlen a) (zlen a - period))))) (zrange_down (zlen a) (zlen a - period))) ->
  (x0 <- rnum NO (a ++ slot NO I d x :: rest) input (snd pj) ;; Ok (nmul NO x0 (zn NO (period - fst pj)))) =
  (x0 <- rnum NO (a ++ [d]) input (snd pj) ;; Ok (nmul NO x0 (zn NO (period - fst pj)))).
Proof.
  intros Hb [py j] Hin. apply in_combine_r in Hin. cbn [fst snd].
  unfold zrange_down in Hin. apply in_map_iff in Hin. destruct Hin as (k & <- & Hk). apply in_seq in Hk.
  rewrite (rnum_mid_le a rest d x input) by (try assumption; lia). reflexivity.
Qed.
Lemma wma_causal : Causal NO I pure_calc.
Proof.
  intros a d x rest Ha Hd. unfold CausalProofs.pure_calc, calc_reading. rewrite K.
  rewrite prev_exists_slot_mid.
  rewrite (rperiod_mid NO I a rest d x input period Hinput Hperiod).
  pose proof (zlen_nonneg a).
  destruct (prev_exists NO (a ++ [d]) nm (zlen a)) as [[|]|] eqn:Pe; cbn [bind]; try reflexivity.
  - pose proof (prev_true_bound (period - 1) Htop Hplain wma_warm a d Ha Pe).
    rewrite (mapM_ext _ _ _ (wma_terms a rest d x ltac:(lia))). finish_proj.
  - destruct (rperiod NO (a ++ [d]) period input (zlen a)) as [[|]|] eqn:Rp; cbn [bind]; try reflexivity.
    apply rperiod_true_bound in Rp.
    rewrite (mapM_ext _ _ _ (wma_terms a rest d x Rp)). finish_proj.
Qed.
End WMA.
End More.
