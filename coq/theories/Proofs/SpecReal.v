(* Arithmetic theorems about the recurrence specifications, over the reals with
   round-to-nearest-even on nd decimals (Inst/RealInst.v). *)
From Coq Require Import ZArith List String Bool Reals Lra Lia.
From Flocq Require Import Core.
From Hexital Require Import Base.Prelude Base.Num Model.Candle Inst.RealInst Spec.Steppers.
Import ListNotations.
Local Open Scope R_scope.

Notation RO := ROps.
Definition eps (nd : Z) : R := / 2 * bpow radix10 (- nd).

Lemma eps_pos nd : 0 < eps nd.
Proof. unfold eps. pose proof (bpow_gt_0 radix10 (- nd)). lra. Qed.

Lemma divn_ok a b : b <> 0 -> divn RO a b = Ok (a / b).
Proof. intros H. unfold divn. cbn [ndiv RO]. destruct (Req_EM_T b 0); [contradiction|reflexivity]. Qed.
Lemma zn_R z : zn RO z = IZR z. Proof. reflexivity. Qed.
Lemma fl_one : fl RO 10 1 = 1.
Proof. unfold fl. cbn [ndec RO]. unfold powerRZ. simpl. field. Qed.
Lemma fl_hundred : fl RO 1000 1 = 100.
Proof. unfold fl. cbn [ndec RO]. unfold powerRZ. simpl. field. Qed.
Lemma fl_zero : fl RO 0 1 = 0.
Proof. unfold fl. cbn [ndec RO]. unfold powerRZ. simpl. field. Qed.
Lemma rnd_R nd x : rnd RO nd x = rnd10 nd x. Proof. reflexivity. Qed.

Lemma IZR_pos p : (0 < p)%Z -> 0 < IZR p.
Proof. intros H. apply (IZR_lt 0 p). exact H. Qed.

(* integers are on the rounding grid when nd >= 0 *)
Lemma IZR_on_grid nd (z : Z) : (0 <= nd)%Z -> generic_format radix10 (FIX_exp (- nd)) (IZR z).
Proof.
  intros Hnd. apply generic_format_FIX.
  exists (Float radix10 (z * 10 ^ nd) (- nd)); [|reflexivity].
  unfold F2R. cbn [Fnum Fexp]. rewrite mult_IZR.
  assert (E : IZR (10 ^ nd) = bpow radix10 nd) by (apply (IZR_Zpower radix10 nd Hnd)).
  rewrite E. rewrite Rmult_assoc, <- bpow_plus.
  replace (nd + - nd)%Z with 0%Z by lia. cbn. lra.
Qed.
Lemma rnd10_IZR nd z : (0 <= nd)%Z -> rnd10 nd (IZR z) = IZR z.
Proof. intros H. apply rnd10_grid, IZR_on_grid, H. Qed.

Lemma rnd10_nonneg nd x : 0 <= x -> 0 <= rnd10 nd x.
Proof. intros H. apply Rle_trans with (rnd10 nd 0); [rewrite rnd10_0; lra|apply rnd10_mono; exact H]. Qed.

(* rounding keeps a value between two grid points *)
Lemma rnd10_between nd lo hi x : generic_format radix10 (FIX_exp (- nd)) lo ->
  generic_format radix10 (FIX_exp (- nd)) hi -> lo <= x <= hi -> lo <= rnd10 nd x <= hi.
Proof.
  intros Hlo Hhi [H1 H2]. split.
  - rewrite <- (rnd10_grid nd lo Hlo). apply rnd10_mono. exact H1.
  - rewrite <- (rnd10_grid nd hi Hhi). apply rnd10_mono. exact H2.
Qed.

(* ---------------------------------------------------------------- C04: moving averages *)
Theorem ema_recurrence (p : Z) (sm : R) (nd : Z) (s : state RO) (x pr : R) :
  (0 < p)%Z -> s_prev RO s = Some pr ->
  exists r s', ema_step RO p sm nd s x = Ok (VNum r, s') /\ s_prev RO s' = Some r /\
    Rabs (r - ((sm / (IZR p + 1)) * x + pr * (1 - sm / (IZR p + 1)))) <= eps nd.
Proof.
  intros Hp Hs. pose proof (IZR_pos p Hp) as Hp'.
  unfold ema_step. rewrite Hs. unfold zn; cbn [nofZ RO]; rewrite fl_one.
  cbn [nadd RO]. rewrite divn_ok by lra. cbn [bind nfloat RO nmul nsub nadd].
  eexists _, _. split; [reflexivity|]. split; [reflexivity|].
  unfold rnd; cbn [nround RO]. apply rnd10_error.
Qed.

Theorem rma_recurrence (p : Z) (nd : Z) (s : state RO) (x pr : R) :
  (0 < p)%Z -> s_prev RO s = Some pr ->
  exists r s', rma_step RO p nd s x = Ok (VNum r, s') /\ s_prev RO s' = Some r /\
    Rabs (r - ((1 / IZR p) * x + (1 - 1 / IZR p) * pr)) <= eps nd.
Proof.
  intros Hp Hs. pose proof (IZR_pos p Hp) as Hp'.
  unfold rma_step. unfold zn; cbn [nofZ RO]; rewrite fl_one. rewrite divn_ok by lra. cbn [bind]. rewrite Hs.
  cbn [nfloat RO nmul nsub nadd].
  eexists _, _. split; [reflexivity|]. split; [reflexivity|].
  unfold rnd; cbn [nround RO]. apply rnd10_error.
Qed.

Theorem sma_recurrence (p nd : Z) (s : state RO) (x pr old : R) :
  (0 < p)%Z -> s_prev RO s = Some pr -> nth_error (s_buf RO s) (Z.to_nat (p - 1)) = Some old ->
  exists r s', sma_step RO p nd s x = Ok (VNum r, s') /\ s_prev RO s' = Some r /\
    Rabs (r - (pr - (old - x) / IZR p)) <= eps nd.
Proof.
  intros Hp Hs Ho. pose proof (IZR_pos p Hp) as Hp'.
  unfold sma_step. rewrite Hs, Ho. cbn [of_opt bind]. unfold zn; cbn [nofZ RO]. rewrite divn_ok by lra. cbn [bind nsub RO].
  eexists _, _. split; [reflexivity|]. split; [reflexivity|].
  unfold rnd; cbn [nround RO]. apply rnd10_error.
Qed.

(* the seed of SMA and EMA is the rounded mean of the first full window *)
Theorem sma_seed (p nd : Z) (s : state RO) (x : R) :
  (0 < p)%Z -> s_prev RO s = None -> full RO p (push RO p x (s_buf RO s)) = true ->
  exists r s', sma_step RO p nd s x = Ok (VNum r, s') /\
    Rabs (r - fold_left Rplus (rev (push RO p x (s_buf RO s))) 0 / IZR p) <= eps nd.
Proof.
  intros Hp Hs Hf. pose proof (IZR_pos p Hp) as Hp'.
  unfold sma_step. rewrite Hs, Hf. unfold zn; cbn [nofZ RO]. rewrite divn_ok by lra. cbn [bind nsum RO].
  eexists _, _. split; [reflexivity|]. unfold rnd; cbn [nround RO]. apply rnd10_error.
Qed.
Theorem ema_seed (p : Z) (sm : R) (nd : Z) (s : state RO) (x : R) :
  (0 < p)%Z -> s_prev RO s = None -> full RO p (push RO p x (s_buf RO s)) = true ->
  exists r s', ema_step RO p sm nd s x = Ok (VNum r, s') /\
    Rabs (r - fold_left Rplus (rev (push RO p x (s_buf RO s))) 0 / IZR p) <= eps nd.
Proof.
  intros Hp Hs Hf. pose proof (IZR_pos p Hp) as Hp'.
  unfold ema_step. rewrite Hs, Hf. unfold zn; cbn [nofZ RO]. rewrite divn_ok by lra. cbn [bind nsum RO nfloat].
  eexists _, _. split; [reflexivity|]. unfold rnd; cbn [nround RO]. apply rnd10_error.
Qed.

(* before the window is full there is no reading *)
Theorem ma_no_reading_before_full (p nd : Z) (sm : R) (s : state RO) (x : R) :
  s_prev RO s = None -> full RO p (push RO p x (s_buf RO s)) = false ->
  (exists s', sma_step RO p nd s x = Ok (VNone, s') /\ s_prev RO s' = None) /\
  (exists s', ema_step RO p sm nd s x = Ok (VNone, s') /\ s_prev RO s' = None) /\
  (exists s', wma_step RO p nd s x = Ok (VNone, s') /\ s_prev RO s' = None).
Proof.
  intros Hs Hf. unfold sma_step, ema_step, wma_step. rewrite Hs, Hf.
  repeat split; eexists; split; reflexivity.
Qed.

(* an EMA with 0 < alpha <= 1 stays inside any grid interval that contains its previous
   reading and the new input (so inside the range of everything it has averaged) *)
Theorem ema_within_range (p : Z) (sm : R) (nd : Z) (s : state RO) (x pr lo hi : R) :
  (0 < p)%Z -> 0 < sm <= IZR p + 1 -> s_prev RO s = Some pr ->
  generic_format radix10 (FIX_exp (- nd)) lo -> generic_format radix10 (FIX_exp (- nd)) hi ->
  lo <= pr <= hi -> lo <= x <= hi ->
  exists r s', ema_step RO p sm nd s x = Ok (VNum r, s') /\ lo <= r <= hi.
Proof.
  intros Hp Hsm Hs Hlo Hhi Hpr Hx. pose proof (IZR_pos p Hp) as Hp'.
  unfold ema_step. rewrite Hs. unfold zn; cbn [nofZ RO]; rewrite fl_one. cbn [nadd RO]. rewrite divn_ok by lra.
  cbn [bind nfloat RO nmul nsub nadd].
  eexists _, _. split; [reflexivity|]. unfold rnd; cbn [nround RO]. apply rnd10_between; try assumption.
  set (a := sm / (IZR p + 1)).
  assert (Ha : 0 < a <= 1).
  { unfold a. split; [apply Rdiv_lt_0_compat; lra|]. apply (Rmult_le_reg_r (IZR p + 1)); [lra|].
    unfold Rdiv. rewrite Rmult_assoc, Rinv_l by lra. lra. }
  split; nra.
Qed.

(* ---------------------------------------------------------------- C05/C10: true range, ATR *)
Lemma Rmax_ltb a b : nmax RO a b = Rmax a b.
Proof.
  unfold nmax. cbn [nltb RO]. unfold Rltb, Rmax. destruct (Rlt_dec a b), (Rle_dec a b); try reflexivity; lra.
Qed.

Theorem true_range_bounds (h l pc : R) : l <= h ->
  h - l <= true_range RO h l pc /\ 0 <= true_range RO h l pc /\
  Rabs (h - pc) <= true_range RO h l pc /\ Rabs (l - pc) <= true_range RO h l pc.
Proof.
  intros Hlh. unfold true_range, nmax3. rewrite !Rmax_ltb. cbn [nsub nabs RO].
  pose proof (Rmax_l (Rmax (h - l) (Rabs (h - pc))) (Rabs (l - pc))).
  pose proof (Rmax_r (Rmax (h - l) (Rabs (h - pc))) (Rabs (l - pc))).
  pose proof (Rmax_l (h - l) (Rabs (h - pc))). pose proof (Rmax_r (h - l) (Rabs (h - pc))).
  repeat split; lra.
Qed.

Theorem tr_reading_bounds (nd : Z) (s : state RO) (c : inp RO) pc : (0 <= nd)%Z ->
  x_l RO c <= x_h RO c -> s_a RO s = Some pc ->
  exists r s', step RO S_TR nd s c = Ok (VNum r, s') /\
    rnd10 nd (x_h RO c - x_l RO c) <= r /\ 0 <= r.
Proof.
  intros Hnd Hlh Ha. cbn [step]. unfold tr_step. rewrite Ha.
  eexists _, _. split; [reflexivity|]. unfold rnd; cbn [nround RO].
  destruct (true_range_bounds (x_h RO c) (x_l RO c) pc Hlh) as (B1 & B2 & _).
  split; [apply rnd10_mono; exact B1|]. apply rnd10_nonneg. exact B2.
Qed.

Theorem atr_nonneg (p nd : Z) (s : state RO) (c : inp RO) pc pr : (0 < p)%Z ->
  x_l RO c <= x_h RO c -> s_a RO s = Some pc -> s_prev RO s = Some pr -> 0 <= pr ->
  exists r s', step RO (S_ATR p) nd s c = Ok (VNum r, s') /\ 0 <= r.
Proof.
  intros Hp Hlh Ha Hs Hpr. pose proof (IZR_pos p Hp) as Hp'.
  cbn [step]. unfold atr_step. rewrite Ha, Hs. unfold zn; cbn [nofZ RO]. rewrite divn_ok by lra. cbn [bind].
  eexists _, _. split; [reflexivity|]. unfold rnd; cbn [nround RO]. apply rnd10_nonneg.
  cbn [nadd nmul RO].
  assert (T : 0 <= rnd10 4 (true_range RO (x_h RO c) (x_l RO c) pc)).
  { apply rnd10_nonneg. apply true_range_bounds. exact Hlh. }
  assert (H1 : 0 <= IZR (p - 1)) by (apply (IZR_le 0 (p - 1)); lia).
  apply Rmult_le_pos; [|left; apply Rinv_0_lt_compat; lra].
  apply Rplus_le_le_0_compat; [apply Rmult_le_pos; assumption|exact T].
Qed.

(* ---------------------------------------------------------------- C06/C10: RSI *)
Theorem rsi_value_range (nd : Z) (g l : R) : (0 <= nd)%Z -> 0 <= g -> 0 <= l ->
  exists r, rsi_value RO nd g l = Ok r /\ 0 <= r <= 100.
Proof.
  intros Hnd Hg Hl. unfold rsi_value. unfold zn; cbn [nofZ RO]; rewrite fl_hundred, fl_one. cbn [neqb RO]. unfold Reqb.
  destruct (Req_EM_T l 0) as [E|N].
  - eexists. split; [reflexivity|]. unfold rnd; cbn [nround RO]. rewrite (rnd10_IZR nd 100 Hnd). lra.
  - assert (Hl' : 0 < l) by lra.
    rewrite divn_ok by exact N. cbn [bind nadd RO].
    assert (Hrs : 0 <= g / l) by (apply Rmult_le_pos; [exact Hg|left; apply Rinv_0_lt_compat; exact Hl']).
    rewrite divn_ok by lra. cbn [bind nsub RO].
    eexists. split; [reflexivity|]. unfold rnd; cbn [nround RO].
    apply (rnd10_between nd 0 100); [apply (IZR_on_grid nd 0 Hnd)|apply (IZR_on_grid nd 100 Hnd)|].
    assert (0 < 1 + g / l) by lra.
    assert (0 < 100 / (1 + g / l) <= 100).
    { split; [apply Rdiv_lt_0_compat; lra|]. apply (Rmult_le_reg_r (1 + g / l)); [lra|].
      unfold Rdiv at 1. rewrite Rmult_assoc, Rinv_l by lra. nra. }
    lra.
Qed.

(* Wilder's update keeps the averages non-negative, and the reading in [0, 100] *)
Theorem rsi_step_range (p nd : Z) (s : state RO) (x pr g0 l0 px : R) rest :
  (0 < p)%Z -> (0 <= nd)%Z -> s_prev RO s = Some pr -> s_a RO s = Some g0 -> s_b RO s = Some l0 ->
  s_buf RO s = px :: rest -> 0 <= g0 -> 0 <= l0 ->
  exists r s' g l, rsi_step RO p nd s x = Ok (VNum r, s') /\ 0 <= r <= 100 /\
    s_a RO s' = Some g /\ s_b RO s' = Some l /\ 0 <= g /\ 0 <= l.
Proof.
  intros Hp Hnd Hs Ha Hb Hbuf Hg Hl. pose proof (IZR_pos p Hp) as Hp'.
  unfold rsi_step. rewrite Hs, Ha, Hb, Hbuf. unfold zn; cbn [nofZ RO]; rewrite fl_zero.
  assert (Hp1 : 0 <= IZR (p - 1)) by (apply (IZR_le 0 (p - 1)); lia).
  set (change := nsub RO px x).
  set (gain := if nltb RO change 0 then nmul RO (IZR (-1)) change else 0).
  set (loss := if nltb RO 0 change then change else 0).
  assert (Hgain : 0 <= gain).
  { unfold gain. cbn [nltb RO nmul]. unfold Rltb. destruct (Rlt_dec change 0); [|lra]. lra. }
  assert (Hloss : 0 <= loss).
  { unfold loss. cbn [nltb RO]. unfold Rltb. destruct (Rlt_dec 0 change); lra. }
  rewrite !divn_ok by lra. cbn [bind nadd nmul RO].
  assert (G : 0 <= (g0 * IZR (p - 1) + gain) / IZR p)
    by (apply Rmult_le_pos; [nra|left; apply Rinv_0_lt_compat; lra]).
  assert (L : 0 <= (l0 * IZR (p - 1) + loss) / IZR p)
    by (apply Rmult_le_pos; [nra|left; apply Rinv_0_lt_compat; lra]).
  destruct (rsi_value_range nd _ _ Hnd G L) as (r & Hr & Hrange).
  rewrite Hr. cbn [bind].
  eexists _, _, _, _. split; [reflexivity|]. repeat split; try assumption; apply Hrange.
Qed.

(* ---------------------------------------------------------------- C09: totality of a step *)
Theorem steps_total (nd : Z) (s : state RO) (c : inp RO) (p : Z) (sm : R) : (0 < p)%Z ->
  (exists v s', step RO S_TR nd s c = Ok (v, s')) /\
  (exists v s', step RO (S_ATR p) nd s c = Ok (v, s')) /\
  (exists v s', step RO S_HLA nd s c = Ok (v, s')) /\
  (exists v s', step RO S_OBV nd s c = Ok (v, s')) /\
  (exists v s', step RO S_VWAP nd s c = Ok (v, s')) /\
  (forall x, exists v s', ema_step RO p sm nd s x = Ok (v, s')).
Proof.
  intros Hp. pose proof (IZR_pos p Hp) as Hp'.
  repeat split.
  - cbn [step]. unfold tr_step. destruct (s_a RO s); eexists _, _; reflexivity.
  - cbn [step]. unfold atr_step. destruct (s_a RO s); [|eexists _, _; reflexivity].
    destruct (s_prev RO s).
    + unfold zn; cbn [nofZ RO]. rewrite divn_ok by lra. eexists _, _; reflexivity.
    + destruct (full RO p _); [|eexists _, _; reflexivity].
      unfold zn; cbn [nofZ RO]. rewrite divn_ok by lra. eexists _, _; reflexivity.
  - cbn [step]. unfold hla_step. unfold zn; cbn [nofZ RO]. rewrite divn_ok by lra. eexists _, _; reflexivity.
  - cbn [step]. unfold obv_step. destruct (s_prev RO s), (s_a RO s); eexists _, _; reflexivity.
  - cbn [step]. unfold vwap_step. unfold zn; cbn [nofZ RO]. rewrite divn_ok by lra. cbn [bind neqb RO]. unfold Reqb.
    match goal with |- context [Req_EM_T ?a ?b] => destruct (Req_EM_T a b) end.
    + eexists _, _; reflexivity.
    + rewrite divn_ok by assumption. eexists _, _; reflexivity.
  - intros x. unfold ema_step. destruct (s_prev RO s).
    + unfold zn; cbn [nofZ RO]; rewrite fl_one. cbn [nadd RO]. rewrite divn_ok by lra. eexists _, _; reflexivity.
    + destruct (full RO p _); [|eexists _, _; reflexivity]. unfold zn; cbn [nofZ RO]. rewrite divn_ok by lra. eexists _, _; reflexivity.
Qed.
