(* C09 at the level of whole series, over the reals: for every stream the recurrence
   specifications never raise, every output is None or a number, and once a number has been
   produced every later output is a number (no gaps after warm-up). *)
From Coq Require Import ZArith List String Bool Reals Lra Lia.
From Flocq Require Import Core.
From Hexital Require Import Base.Prelude Base.Num Model.Candle Inst.RealInst Spec.Steppers Proofs.SpecReal.
Import ListNotations.
Local Open Scope R_scope.

Definition isnum (v : val RO) : Prop := exists r, v = VNum r.
(* None ... None, number ... number *)
Definition no_gaps (vs : list (val RO)) : Prop :=
  exists a b, vs = (a ++ b)%list /\ Forall (fun v => v = VNone) a /\ Forall isnum b.

Section Generic.
Variable k : kind_s RO.
Variable nd : Z.
Variable inv warm : state RO -> Prop.
Variable ok : inp RO -> Prop.
Hypothesis step_ok : forall s c, inv s -> ok c ->
  exists v s', step RO k nd s c = Ok (v, s') /\ inv s' /\
               (v = VNone \/ isnum v) /\ (warm s -> isnum v) /\ (isnum v -> warm s').

Lemma series_from_total : forall cs s, inv s -> Forall ok cs ->
  exists vs, series_from RO k nd s cs = Ok vs /\ List.length vs = List.length cs /\
             (warm s -> Forall isnum vs) /\ no_gaps vs.
Proof.
  induction cs as [|c cs IH]; intros s Hi Hok; cbn [series_from].
  - exists []. repeat split; [constructor|]. exists [], []. repeat split; constructor.
  - inversion Hok as [|? ? Hc Hcs]; subst.
    destruct (step_ok s c Hi Hc) as (v & s' & E & Hi' & Hv & Hw & Hn). rewrite E. cbn [bind].
    destruct (IH s' Hi' Hcs) as (vs & Es & Hl & Hws & Hg). rewrite Es. cbn [bind].
    exists (v :: vs). split; [reflexivity|]. split; [cbn [List.length]; congruence|]. split.
    + intros W. constructor; [apply Hw; exact W|apply Hws, Hn, Hw; exact W].
    + destruct Hv as [Hv|Hv].
      * destruct Hg as (a & b & Ea & Ha & Hb). exists (v :: a), b. subst vs. repeat split; [constructor; assumption|exact Hb].
      * exists [], (v :: vs). repeat split; [constructor|]. constructor; [exact Hv|apply Hws, Hn; exact Hv].
Qed.
End Generic.

Lemma isnum_VNum r : isnum (VNum r). Proof. exists r; reflexivity. Qed.
Lemma not_isnum_none : ~ isnum (@VNone RO). Proof. intros [r H]; discriminate. Qed.
#[local] Hint Resolve isnum_VNum : core.

Definition any_state (s : state RO) : Prop := True.
Definition any_inp (c : inp RO) : Prop := True.
Definition has_input (c : inp RO) : Prop := exists x, x_in RO c = Some x.

(* ---- the indicators over OHLCV ---- *)
Lemma tr_ok nd s c : any_state s -> any_inp c ->
  exists v s', step RO S_TR nd s c = Ok (v, s') /\ any_state s' /\ (v = VNone \/ isnum v) /\
               (s_a RO s <> None -> isnum v) /\ (isnum v -> s_a RO s' <> None).
Proof.
  intros _ _. cbn [step]. unfold tr_step. destruct (s_a RO s) as [pc|]; eexists _, _; (split; [reflexivity|]); cbn [s_a];
    (split; [exact Logic.I|]).
  - split; [right; auto|]. split; [auto|intros _; discriminate].
  - split; [left; reflexivity|]. split; [intros H; congruence|intros _; discriminate].
Qed.

Lemma atr_ok p nd s c : (0 < p)%Z -> any_state s -> any_inp c ->
  exists v s', step RO (S_ATR p) nd s c = Ok (v, s') /\ any_state s' /\ (v = VNone \/ isnum v) /\
               (s_a RO s <> None /\ s_prev RO s <> None -> isnum v) /\ (isnum v -> s_a RO s' <> None /\ s_prev RO s' <> None).
Proof.
  intros Hp _ _. pose proof (IZR_pos p Hp) as Hp'. cbn [step]. unfold atr_step.
  destruct (s_a RO s) as [pc|].
  - destruct (s_prev RO s) as [pr|].
    + unfold zn; cbn [nofZ RO]. rewrite divn_ok by lra. cbn [bind]. eexists _, _. split; [reflexivity|]. cbn [s_a s_prev].
      split; [exact Logic.I|]. split; [right; auto|]. split; [auto|]. intros _. split; discriminate.
    + destruct (full RO p _).
      * unfold zn; cbn [nofZ RO]. rewrite divn_ok by lra. cbn [bind]. eexists _, _. split; [reflexivity|]. cbn [s_a s_prev].
        split; [exact Logic.I|]. split; [right; auto|]. split; [intros [_ H]; congruence|]. intros _. split; discriminate.
      * eexists _, _. split; [reflexivity|]. cbn [s_a s_prev]. split; [exact Logic.I|]. split; [left; reflexivity|].
        split; [intros [_ H]; congruence|]. intros H. exfalso. exact (not_isnum_none H).
  - eexists _, _. split; [reflexivity|]. cbn [s_a s_prev]. split; [exact Logic.I|]. split; [left; reflexivity|].
    split; [intros [H _]; congruence|]. intros H. exfalso. exact (not_isnum_none H).
Qed.

Ltac done_num := (split; [exact Logic.I|]); (split; [right; apply isnum_VNum|]); (split; [intros _; apply isnum_VNum|intros _; exact Logic.I]).

Lemma always_ok (k : kind_s RO) nd s c : k = S_HLA \/ k = S_OBV \/ k = S_VWAP -> any_state s -> any_inp c ->
  exists v s', step RO k nd s c = Ok (v, s') /\ any_state s' /\ (v = VNone \/ isnum v) /\ (True -> isnum v) /\ (isnum v -> True).
Proof.
  intros Hk _ _. destruct Hk as [Hk|[Hk|Hk]]; subst k; cbn [step].
  - unfold hla_step. unfold zn; cbn [nofZ RO]. rewrite divn_ok by lra. cbn [bind]. unfold out. eexists _, _. split; [reflexivity|]. done_num.
  - unfold obv_step. destruct (s_prev RO s), (s_a RO s); eexists _, _; (split; [reflexivity|]); done_num.
  - unfold vwap_step. unfold zn; cbn [nofZ RO]. rewrite divn_ok by lra. cbn [bind neqb RO]. unfold Reqb.
    match goal with |- context [Req_EM_T ?a ?b] => destruct (Req_EM_T a b) end.
    + eexists _, _. split; [reflexivity|]. done_num.
    + rewrite divn_ok by assumption. eexists _, _. split; [reflexivity|]. done_num.
Qed.

Theorem ohlcv_series_total (k : kind_s RO) (nd : Z) (cs : list (inp RO)) :
  (k = S_TR \/ (exists p, (0 < p)%Z /\ k = S_ATR p) \/ k = S_HLA \/ k = S_OBV \/ k = S_VWAP) ->
  exists vs, series RO k nd cs = Ok vs /\ List.length vs = List.length cs /\ no_gaps vs.
Proof.
  intros Hk. unfold series.
  assert (Hall : Forall any_inp cs) by (apply Forall_forall; intros; exact Logic.I).
  destruct Hk as [Hk|[(p & Hp & Hk)|Hk]]; subst.
  - destruct (series_from_total S_TR nd any_state (fun s => s_a RO s <> None) any_inp (tr_ok nd) cs (init RO) Logic.I Hall) as (vs & E & L & _ & G).
    exists vs; auto.
  - destruct (series_from_total (S_ATR p) nd any_state (fun s => s_a RO s <> None /\ s_prev RO s <> None) any_inp (fun s c => atr_ok p nd s c Hp) cs (init RO) Logic.I Hall) as (vs & E & L & _ & G).
    exists vs; auto.
  - destruct (series_from_total k nd any_state (fun _ => True) any_inp (fun s c => always_ok k nd s c Hk) cs (init RO) Logic.I Hall) as (vs & E & L & _ & G).
    exists vs; auto.
Qed.

(* ---- the indicators over one input series ---- *)
Lemma step_input (k : kind_s RO) nd s c x : x_in RO c = Some x ->
  step RO k nd s c = match k with
                     | S_SMA p => sma_step RO p nd s x | S_EMA p sm => ema_step RO p sm nd s x
                     | S_RMA p => rma_step RO p nd s x | S_WMA p => wma_step RO p nd s x
                     | S_RSI p => rsi_step RO p nd s x | S_ROC p => roc_step RO p nd s x
                     | _ => step RO k nd s c end.
Proof. intros H. destruct k; cbn [step]; rewrite ?H; reflexivity. Qed.

Lemma push_len w x (buf : list R) : (0 <= w)%Z ->
  List.length (push RO w x buf) = Nat.min (Z.to_nat w) (S (List.length buf)).
Proof. intros _. unfold push. rewrite firstn_length. reflexivity. Qed.

Lemma full_iff w (buf : list R) : (0 <= w)%Z -> full RO w buf = true <-> List.length buf = Z.to_nat w.
Proof. intros Hw. unfold full. rewrite Z.eqb_eq. split; intros H; [rewrite <- H; rewrite Nat2Z.id; reflexivity|change (Z.of_nat (List.length buf) = w); rewrite H; apply Z2Nat.id; exact Hw]. Qed.

Lemma ema_ok p sm nd s c : (0 < p)%Z -> any_state s -> has_input c ->
  exists v s', step RO (S_EMA p sm) nd s c = Ok (v, s') /\ any_state s' /\ (v = VNone \/ isnum v) /\
               (s_prev RO s <> None -> isnum v) /\ (isnum v -> s_prev RO s' <> None).
Proof.
  intros Hp _ [x Hx]. pose proof (IZR_pos p Hp) as Hp'. rewrite (step_input _ nd s c x Hx). unfold ema_step.
  destruct (s_prev RO s) as [pr|].
  - unfold zn; cbn [nofZ RO]; rewrite fl_one. cbn [nadd RO]. rewrite divn_ok by lra. cbn [bind].
    eexists _, _. split; [reflexivity|]. cbn [s_prev]. split; [exact Logic.I|]. split; [right; auto|]. split; [auto|intros _; discriminate].
  - destruct (full RO p _).
    + unfold zn; cbn [nofZ RO]. rewrite divn_ok by lra. cbn [bind].
      eexists _, _. split; [reflexivity|]. cbn [s_prev]. split; [exact Logic.I|]. split; [right; auto|]. split; [intros H; congruence|intros _; discriminate].
    + eexists _, _. split; [reflexivity|]. cbn [s_prev]. split; [exact Logic.I|]. split; [left; reflexivity|].
      split; [intros H; congruence|intros H; exfalso; exact (not_isnum_none H)].
Qed.

Definition sma_inv (p : Z) (s : state RO) : Prop := s_prev RO s <> None -> (Z.to_nat p <= List.length (s_buf RO s))%nat.

Lemma sma_ok p nd s c : (0 < p)%Z -> sma_inv p s -> has_input c ->
  exists v s', step RO (S_SMA p) nd s c = Ok (v, s') /\ sma_inv p s' /\ (v = VNone \/ isnum v) /\
               (s_prev RO s <> None -> isnum v) /\ (isnum v -> s_prev RO s' <> None).
Proof.
  intros Hp Hi [x Hx]. pose proof (IZR_pos p Hp) as Hp'. rewrite (step_input _ nd s c x Hx). unfold sma_step.
  assert (HL : List.length (push RO p x (s_buf RO s)) = Nat.min (Z.to_nat p) (S (List.length (s_buf RO s)))) by (apply push_len; lia).
  destruct (s_prev RO s) as [pr|] eqn:Ep.
  - assert (Hlen : (Z.to_nat p <= List.length (s_buf RO s))%nat) by (apply Hi; rewrite ?Ep; discriminate).
    destruct (nth_error (s_buf RO s) (Z.to_nat (p - 1))) as [old|] eqn:En.
    + cbn [of_opt bind]. unfold zn; cbn [nofZ RO]. rewrite divn_ok by lra. cbn [bind].
      eexists _, _. split; [reflexivity|]. unfold sma_inv. cbn [s_prev s_buf]. split; [intros _; eapply Nat.le_trans; [|apply Nat.eq_le_incl; symmetry; exact HL]; lia|].
      split; [right; auto|]. split; [auto|intros _; discriminate].
    + apply nth_error_None in En. lia.
  - destruct (full RO p _) eqn:F.
    + unfold zn; cbn [nofZ RO]. rewrite divn_ok by lra. cbn [bind]. apply full_iff in F; [|lia].
      eexists _, _. split; [reflexivity|]. unfold sma_inv. cbn [s_prev s_buf]. split; [intros _; apply Nat.eq_le_incl; symmetry; exact F|].
      split; [right; auto|]. split; [intros H; congruence|intros _; discriminate].
    + eexists _, _. split; [reflexivity|]. unfold sma_inv. cbn [s_prev s_buf]. split; [intros H; congruence|].
      split; [left; reflexivity|]. split; [intros H; congruence|intros H; exfalso; exact (not_isnum_none H)].
Qed.

Lemma fold_plus_ge (l : list R) : Forall (fun x => 0 <= x) l -> forall a, a <= fold_left Rplus l a.
Proof.
  induction 1 as [|x l Hx H IH]; intros a; cbn [fold_left]; [lra|]. specialize (IH (a + x)). lra.
Qed.

Lemma rma_den_pos (base : R) n : 0 <= base -> (0 < n)%nat ->
  0 < nsum RO (map (fun py => npow RO base py) (indices n)).
Proof.
  intros Hb Hn. destruct n as [|m]; [lia|]. unfold indices. cbn [seq map nsum npow RO fold_left].
  change (Z.of_nat 0) with 0%Z. cbn [powerRZ]. rewrite Rplus_0_l.
  assert (Forall (fun x => 0 <= x) (map (fun py : Z => powerRZ base py) (map Z.of_nat (seq 1 m)))).
  { rewrite map_map. apply Forall_forall. intros y Hy. apply in_map_iff in Hy. destruct Hy as (j & Ej & _). subst y.
    rewrite <- pow_powerRZ. apply pow_le. exact Hb. }
  pose proof (fold_plus_ge _ H 1). eapply Rlt_le_trans; [|exact H0]; lra.
Qed.

Lemma rma_ok p nd s c : (0 < p)%Z -> any_state s -> has_input c ->
  exists v s', step RO (S_RMA p) nd s c = Ok (v, s') /\ any_state s' /\ (v = VNone \/ isnum v) /\
               (s_prev RO s <> None -> isnum v) /\ (isnum v -> s_prev RO s' <> None).
Proof.
  intros Hp _ [x Hx]. pose proof (IZR_pos p Hp) as Hp'. rewrite (step_input _ nd s c x Hx). unfold rma_step.
  unfold zn; cbn [nofZ RO]; rewrite fl_one. rewrite divn_ok by lra. cbn [bind].
  destruct (s_prev RO s) as [pr|].
  - eexists _, _. split; [reflexivity|]. cbn [s_prev]. split; [exact Logic.I|]. split; [right; auto|]. split; [auto|intros _; discriminate].
  - destruct (full RO p _) eqn:F.
    + apply full_iff in F; [|lia].
      assert (Hbase : 0 <= nsub RO 1 (nfloat RO (1 / IZR p))).
      { cbn [nsub nfloat RO]. assert (1 <= IZR p) by (apply (IZR_le 1 p); lia).
        assert (1 / IZR p <= 1) by (apply (Rmult_le_reg_r (IZR p)); [lra|]; unfold Rdiv; rewrite Rmult_assoc, Rinv_l by lra; lra). lra. }
      rewrite divn_ok.
      * cbn [bind]. eexists _, _. split; [reflexivity|]. cbn [s_prev]. split; [exact Logic.I|]. split; [right; auto|].
        split; [intros H; congruence|intros _; discriminate].
      * apply Rgt_not_eq. apply Rlt_gt. apply rma_den_pos; [exact Hbase|]. eapply Nat.lt_le_trans; [|apply Nat.eq_le_incl; symmetry; exact F]. lia.
    + eexists _, _. split; [reflexivity|]. cbn [s_prev]. split; [exact Logic.I|]. split; [left; reflexivity|].
      split; [intros H; congruence|intros H; exfalso; exact (not_isnum_none H)].
Qed.

Definition wma_warm (p : Z) (s : state RO) : Prop := (Z.to_nat p <= S (List.length (s_buf RO s)))%nat.

Lemma wma_ok p nd s c : (0 < p)%Z -> any_state s -> has_input c ->
  exists v s', step RO (S_WMA p) nd s c = Ok (v, s') /\ any_state s' /\ (v = VNone \/ isnum v) /\
               (wma_warm p s -> isnum v) /\ (isnum v -> wma_warm p s').
Proof.
  intros Hp _ [x Hx]. rewrite (step_input _ nd s c x Hx). unfold wma_step.
  assert (HL : List.length (push RO p x (s_buf RO s)) = Nat.min (Z.to_nat p) (S (List.length (s_buf RO s)))) by (apply push_len; lia).
  assert (Hw : IZR (p * (p + 1)) / IZR 2 <> 0).
  { assert (0 < IZR (p * (p + 1))) by (apply IZR_pos; nia). apply Rgt_not_eq. apply Rdiv_lt_0_compat; lra. }
  destruct (full RO p _) eqn:F.
  - apply full_iff in F; [|lia]. unfold zn; cbn [nofZ RO]. rewrite divn_ok by lra. cbn [bind]. rewrite divn_ok by exact Hw. cbn [bind].
    eexists _, _. split; [reflexivity|]. unfold wma_warm. cbn [s_buf]. split; [exact Logic.I|]. split; [right; auto|].
    split; [auto|]. intros _. apply Nat.le_trans with (List.length (push RO p x (s_buf RO s))); [apply Nat.eq_le_incl; symmetry; exact F|apply Nat.le_succ_diag_r].
  - eexists _, _. split; [reflexivity|]. unfold wma_warm. cbn [s_buf]. split; [exact Logic.I|]. split; [left; reflexivity|]. split.
    + intros W. exfalso. assert (E : full RO p (push RO p x (s_buf RO s)) = true).
      { apply full_iff; [lia|]. eapply eq_trans; [exact HL|]. apply Nat.min_l. exact W. }
      congruence.
    + intros H; exfalso; exact (not_isnum_none H).
Qed.

Lemma in_firstn {A} (y : A) : forall n l, In y (firstn n l) -> In y l.
Proof. induction n as [|n IH]; intros l H; [contradiction|]. destruct l as [|a l]; [contradiction|]. cbn [firstn] in H. destruct H as [H|H]; [left; exact H|right; apply IH; exact H]. Qed.

Definition nonzero_input (c : inp RO) : Prop := exists x, x_in RO c = Some x /\ x <> 0.
Definition roc_inv (s : state RO) : Prop := Forall (fun y => y <> 0) (s_buf RO s).
Definition roc_warm (p : Z) (s : state RO) : Prop := (Z.to_nat p <= List.length (s_buf RO s))%nat.

Lemma roc_ok p nd s c : (0 < p)%Z -> roc_inv s -> nonzero_input c ->
  exists v s', step RO (S_ROC p) nd s c = Ok (v, s') /\ roc_inv s' /\ (v = VNone \/ isnum v) /\
               (roc_warm p s -> isnum v) /\ (isnum v -> roc_warm p s').
Proof.
  intros Hp Hi (x & Hx & Hnz). rewrite (step_input _ nd s c x Hx). unfold roc_step.
  assert (HL : List.length (push RO (p + 1) x (s_buf RO s)) = Nat.min (Z.to_nat (p + 1)) (S (List.length (s_buf RO s)))) by (apply push_len; lia).
  assert (Hall : Forall (fun y => y <> 0) (push RO (p + 1) x (s_buf RO s))).
  { unfold push. apply Forall_forall. intros y Hy. apply in_firstn in Hy. destruct Hy as [Hy|Hy]; [subst y; exact Hnz|].
    unfold roc_inv in Hi. rewrite Forall_forall in Hi. apply Hi. exact Hy. }
  assert (E1 : Z.to_nat (p + 1) = S (Z.to_nat p)) by lia.
  destruct (full RO (p + 1) _) eqn:F.
  - apply full_iff in F; [|lia].
    destruct (nth_error (push RO (p + 1) x (s_buf RO s)) (Z.to_nat p)) as [nb|] eqn:En.
    + cbn [of_opt bind]. assert (Hnb : nb <> 0). { rewrite Forall_forall in Hall. apply Hall. eapply nth_error_In. exact En. }
      rewrite divn_ok by exact Hnb. cbn [bind].
      eexists _, _. split; [reflexivity|]. unfold roc_inv, roc_warm. cbn [s_buf]. split; [exact Hall|]. split; [right; auto|].
      split; [auto|]. intros _. apply Nat.le_trans with (S (Z.to_nat p)); [apply Nat.le_succ_diag_r|]. rewrite <- E1. apply Nat.eq_le_incl. symmetry. exact F.
    + exfalso. apply nth_error_None in En.
      assert (S (Z.to_nat p) <= Z.to_nat p)%nat; [|lia]. rewrite <- E1. eapply Nat.le_trans; [apply Nat.eq_le_incl; symmetry; exact F|exact En].
  - eexists _, _. split; [reflexivity|]. unfold roc_inv, roc_warm. cbn [s_buf]. split; [exact Hall|]. split; [left; reflexivity|]. split.
    + intros W. exfalso. assert (E : full RO (p + 1) (push RO (p + 1) x (s_buf RO s)) = true).
      { apply full_iff; [lia|]. eapply eq_trans; [exact HL|]. apply Nat.min_l. unfold roc_warm in W. lia. }
      congruence.
    + intros H; exfalso; exact (not_isnum_none H).
Qed.

Definition rsi_inv (s : state RO) : Prop :=
  (forall g, s_a RO s = Some g -> 0 <= g) /\ (forall l, s_b RO s = Some l -> 0 <= l) /\
  (s_prev RO s <> None -> s_a RO s <> None /\ s_b RO s <> None /\ s_buf RO s <> []).

Lemma sum_nonneg (l : list R) : Forall (fun x => 0 <= x) l -> 0 <= nsum RO l.
Proof. intros H. cbn [nsum RO]. apply (fold_plus_ge l H 0). Qed.

Lemma sum_filter_nonneg (f : R -> bool) ch : (forall y, f y = true -> 0 <= y) -> 0 <= nsum RO (filter f ch).
Proof. intros H. apply sum_nonneg. apply Forall_forall. intros y Hy. apply filter_In in Hy. apply H. apply Hy. Qed.
Lemma sum_abs_nonneg (l : list R) : 0 <= nsum RO (map (nabs RO) l).
Proof. apply sum_nonneg. apply Forall_forall. intros y Hy. apply in_map_iff in Hy. destruct Hy as (z & Ez & _). subst y. cbn [nabs RO]. apply Rabs_pos. Qed.

Lemma rsi_ok p nd s c : (0 < p)%Z -> (0 <= nd)%Z -> rsi_inv s -> has_input c ->
  exists v s', step RO (S_RSI p) nd s c = Ok (v, s') /\ rsi_inv s' /\ (v = VNone \/ isnum v) /\
               (s_prev RO s <> None -> isnum v) /\ (isnum v -> s_prev RO s' <> None).
Proof.
  intros Hp Hnd (Ha & Hb & Hw) [x Hx]. pose proof (IZR_pos p Hp) as Hp'. rewrite (step_input _ nd s c x Hx).
  destruct (s_prev RO s) as [pr|] eqn:Ep.
  - destruct Hw as (Wa & Wb & Wbuf); [discriminate|].
    destruct (s_a RO s) as [g0|] eqn:Ea; [|congruence]. destruct (s_b RO s) as [l0|] eqn:Eb; [|congruence].
    destruct (s_buf RO s) as [|px rest] eqn:Ebuf; [congruence|].
    destruct (rsi_step_range p nd s x pr g0 l0 px rest Hp Hnd Ep Ea Eb Ebuf (Ha g0 eq_refl) (Hb l0 eq_refl))
      as (r & s' & g & l & E & _ & Ea' & Eb' & Hg & Hl).
    exists (VNum r), s'. split; [exact E|]. 
    assert (Hs' : s_prev RO s' <> None /\ s_buf RO s' <> []).
    { unfold rsi_step in E. rewrite Ep, Ea, Eb, Ebuf in E.
      repeat match type of E with bind ?m _ = _ => destruct m; cbn [bind] in E; [|discriminate] end.
      inversion E; subst. cbn [s_prev s_buf]. split; [discriminate|]. unfold push. destruct (Z.to_nat (p + 1)) eqn:En; [lia|]. cbn [firstn]. discriminate. }
    split.
    + split; [intros g' Hg'; rewrite Ea' in Hg'; inversion Hg'; subst; exact Hg|].
      split; [intros l' Hl'; rewrite Eb' in Hl'; inversion Hl'; subst; exact Hl|].
      intros _. split; [rewrite Ea'; discriminate|]. split; [rewrite Eb'; discriminate|apply Hs'].
    + split; [right; auto|]. split; [auto|intros _; apply Hs'].
  - unfold rsi_step. rewrite Ep. cbv beta iota zeta.
    assert (Hbuf' : push RO (p + 1) x (s_buf RO s) <> []).
    { unfold push. destruct (Z.to_nat (p + 1)) eqn:En; [lia|]. cbn [firstn]. discriminate. }
    destruct (full RO (p + 1) _) eqn:F.
    + unfold zn; cbn [nofZ RO]. rewrite !divn_ok by lra. cbn [bind].
      match goal with |- context [rsi_value RO nd ?g ?l] =>
        assert (G : 0 <= g);
        [apply Rmult_le_pos; [|left; apply Rinv_0_lt_compat; exact Hp']; apply sum_filter_nonneg;
         intros y Hy; cbn [nltb RO] in Hy; apply Rltb_true in Hy; lra|];
        assert (L : 0 <= l);
        [apply Rmult_le_pos; [|left; apply Rinv_0_lt_compat; exact Hp']; apply sum_abs_nonneg|];
        destruct (rsi_value_range nd g l Hnd G L) as (r & Hr & _); rewrite Hr
      end.
      cbn [bind]. eexists _, _. split; [reflexivity|]. unfold rsi_inv. cbn [s_prev s_a s_b s_buf].
      split; [split; [intros g' Hg'; inversion Hg'; subst; exact G|split; [intros l' Hl'; inversion Hl'; subst; exact L|intros _; repeat split; try discriminate; exact Hbuf']]|].
      split; [right; auto|]. split; [intros H; congruence|intros _; discriminate].
    + eexists _, _. split; [reflexivity|]. unfold rsi_inv. cbn [s_prev s_a s_b s_buf].
      split; [split; [intros g' Hg'; discriminate|split; [intros l' Hl'; discriminate|intros H; congruence]]|].
      split; [left; reflexivity|]. split; [intros H; congruence|intros H; exfalso; exact (not_isnum_none H)].
Qed.

Theorem input_series_total (k : kind_s RO) (nd : Z) (cs : list (inp RO)) :
  (0 <= nd)%Z ->
  (exists p, (0 < p)%Z /\ (k = S_SMA p \/ (exists sm, k = S_EMA p sm) \/ k = S_RMA p \/ k = S_WMA p \/ k = S_RSI p)) ->
  Forall has_input cs ->
  exists vs, series RO k nd cs = Ok vs /\ List.length vs = List.length cs /\ no_gaps vs.
Proof.
  intros Hnd (p & Hp & Hk) Hcs. unfold series.
  destruct Hk as [Hk|[(sm & Hk)|[Hk|[Hk|Hk]]]]; subst k.
  - destruct (series_from_total (S_SMA p) nd (sma_inv p) (fun s => s_prev RO s <> None) has_input (fun s c => sma_ok p nd s c Hp) cs (init RO)) as (vs & E & L & _ & G);
      [intros H; cbn [init s_prev] in H; congruence|exact Hcs|]. exists vs; auto.
  - destruct (series_from_total (S_EMA p sm) nd any_state (fun s => s_prev RO s <> None) has_input (fun s c => ema_ok p sm nd s c Hp) cs (init RO) Logic.I Hcs) as (vs & E & L & _ & G).
    exists vs; auto.
  - destruct (series_from_total (S_RMA p) nd any_state (fun s => s_prev RO s <> None) has_input (fun s c => rma_ok p nd s c Hp) cs (init RO) Logic.I Hcs) as (vs & E & L & _ & G).
    exists vs; auto.
  - destruct (series_from_total (S_WMA p) nd any_state (wma_warm p) has_input (fun s c => wma_ok p nd s c Hp) cs (init RO) Logic.I Hcs) as (vs & E & L & _ & G).
    exists vs; auto.
  - destruct (series_from_total (S_RSI p) nd rsi_inv (fun s => s_prev RO s <> None) has_input (fun s c => rsi_ok p nd s c Hp Hnd) cs (init RO)) as (vs & E & L & _ & G);
      [unfold rsi_inv; cbn [init s_prev s_a s_b s_buf]; repeat split; intros; congruence|exact Hcs|]. exists vs; auto.
Qed.

Theorem roc_series_total (p nd : Z) (cs : list (inp RO)) : (0 < p)%Z -> Forall nonzero_input cs ->
  exists vs, series RO (S_ROC p) nd cs = Ok vs /\ List.length vs = List.length cs /\ no_gaps vs.
Proof.
  intros Hp Hcs. unfold series.
  destruct (series_from_total (S_ROC p) nd roc_inv (roc_warm p) nonzero_input (fun s c => roc_ok p nd s c Hp) cs (init RO)) as (vs & E & L & _ & G);
    [constructor|exact Hcs|]. exists vs; auto.
Qed.

(* the premise of the ROC theorem cannot be dropped: a zero base raises (known finding K1) *)
Theorem roc_zero_base_refuted : series RO (S_ROC 1) 4
  [Build_inp RO 0 0 0 0 0 (Some 0); Build_inp RO 1 1 1 1 0 (Some 1)] = Err ZeroDivisionError.
Proof.
  unfold series. cbn [series_from step x_in]. unfold roc_step, push, full, init, divn.
  cbn -[Req_EM_T Rminus Rdiv Rmult Rplus IZR rnd10 powerRZ].
  change (Pos.to_nat 2) with 2%nat. change (Pos.to_nat 1) with 1%nat.
  cbn -[Req_EM_T Rminus Rdiv Rmult Rplus IZR rnd10 powerRZ].
  destruct (Req_EM_T 0 0) as [_|N]; [reflexivity|exfalso; apply N; reflexivity].
Qed.
