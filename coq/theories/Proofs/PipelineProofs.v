(* The manager pipeline with a collapsing timeframe AND Heikin-Ashi conversion, under
   appends (C11 composed with C03): collapsing and converting a raw stream, appending more
   raw candles to the converted buckets and running the pipeline again - re-collapse of
   (converted buckets ++ raw candles), then conversion from the resume index - gives exactly
   the pipeline over the whole raw stream. *)
From Coq Require Import ZArith List Bool Lia ZifyBool.
From Hexital Require Import Base.Prelude Base.Num Model.Manager Model.Candle
  Proofs.CollapseProofs Proofs.HAProofs Proofs.ComposeProofs.
Import ListNotations.
Local Open Scope Z_scope.

Section Pipeline.
Context (NO : NumOps).
Notation payload := (payload NO).
Notation cd := (cd payload).
Notation mrg := (Candle.merge NO).
Notation resample := (Manager.resample payload mrg).
Notation resample_acc := (Manager.resample_acc payload mrg).
Notation collapse := (Manager.collapse payload mrg).
Notation convert := (Candle.convert NO).
Notation convert_from := (Candle.convert_from NO).
Notation alike := (alike payload mrg).
Notation all_raw := (all_raw NO).

Definition pristine (l : list cd) : Prop := Forall (fun c => clean NO (p c) = None /\ tagged NO (p c) = false) l.

Lemma pristine_raw l : pristine l -> all_raw l.
Proof. apply Forall_impl. intros c [_ H]. exact H. Qed.

Lemma resample_acc_pristine tf : forall l acc, pristine acc -> pristine l -> pristine (resample_acc tf acc l).
Proof.
  induction l as [|c l IH]; intros acc Ha Hl; cbn [Manager.resample_acc].
  - apply Forall_rev. exact Ha.
  - inversion Hl as [|? ? Hc Hl']; subst. destruct acc as [|prev acc'].
    + apply IH; [constructor; [exact Hc|constructor]|exact Hl'].
    + inversion Ha as [|? ? Hp Ha']; subst. destruct (t prev =? label (t c) tf); apply IH; try assumption.
      * constructor; [split; reflexivity|exact Ha'].
      * constructor; [exact Hc|exact Ha].
Qed.

(* conversion keeps timestamps; a converted candle merges like its raw original *)
Lemma convert_from_alike : forall todo done, pristine todo ->
  exists out, convert_from done todo = rev done ++ out /\ Forall2 alike out todo.
Proof.
  induction todo as [|c todo IH]; intros done Hp; cbn [Candle.convert_from].
  - exists []. split; [rewrite app_nil_r; reflexivity|constructor].
  - inversion Hp as [|? ? [Hc _] Hp']; subst.
    destruct (IH ({| t := t c; p := convert_one NO (match done with [] => None | d :: _ => Some (p d) end) (p c) |} :: done) Hp')
      as (out & E & HA).
    eexists (_ :: out). split; [rewrite E; cbn [rev]; rewrite <- app_assoc; reflexivity|].
    constructor; [|exact HA]. split; [reflexivity|]. intros q. cbn [p]. apply merge_converted. exact Hc.
Qed.

Definition pipe (tf : Z) (l : list cd) : res (list cd) := l1 <- collapse tf l ;; Ok (convert l1).

Theorem pipeline_incremental (tf : Z) (xs ys : list cd) (D : list cd) :
  0 < tf -> sorted payload (xs ++ ys) -> pristine (xs ++ ys) ->
  pipe tf xs = Ok D -> pipe tf (D ++ ys) = pipe tf (xs ++ ys).
Proof.
  intros Htf Hs Hp HD. unfold pipe in *.
  apply Forall_app in Hp. destruct Hp as [Hpx Hpy].
  assert (Hsx : sorted payload xs).
  { destruct xs as [|x0 xs']; [exact Logic.I|]. cbn [app sorted] in Hs.
    destruct (sorted_from_app_inv payload xs' (t x0) ys Hs) as [A _]. exact A. }
  rewrite (collapse_is_resample payload mrg tf xs Htf Hsx) in HD. cbn [bind] in HD. assert (ED : convert (resample tf xs) = D) by congruence. clear HD.
  rewrite (collapse_is_resample payload mrg tf (xs ++ ys) Htf Hs). cbn [bind].
  set (R := resample tf xs) in *.
  assert (HpR : pristine R) by (apply resample_acc_pristine; [constructor|exact Hpx]).
  assert (HrR : all_raw R) by (apply pristine_raw; exact HpR).
  rewrite (convert_raw NO R HrR) in ED.
  destruct (convert_from_alike R [] HpR) as (out & Eout & HA). cbn [rev app] in Eout. rewrite Eout in ED. subst out.
  pose proof (alike_map_t NO D R HA) as Et.
  assert (Hlx : lsorted payload tf xs) by (apply sorted_lsorted; assumption).
  destruct (resample_shape payload mrg tf xs Htf Hlx) as [GR SR]. fold R in GR, SR.
  assert (GD : on_grid payload tf D) by (eapply on_grid_t; [symmetry; exact Et|exact GR]).
  assert (SD : strictly_inc payload D) by (eapply strictly_inc_t; [symmetry; exact Et|exact SR]).
  assert (LS : lsorted payload tf (D ++ ys)).
  { eapply lsorted_t; [|apply (lsorted_resample_app payload mrg tf xs ys Htf Hs)].
    fold R. rewrite !map_app, Et. reflexivity. }
  rewrite (collapse_lsorted payload mrg tf (D ++ ys) Htf LS). cbn [bind]. f_equal.
  assert (E1 : resample tf (D ++ ys) = resample_acc tf (rev D) ys).
  { unfold Manager.resample. rewrite resample_acc_app. rewrite (resample_acc_id payload mrg tf Htf D []); [reflexivity|exact GD|exact SD]. }
  assert (E2 : resample tf (xs ++ ys) = resample_acc tf (rev R) ys).
  { unfold Manager.resample. rewrite resample_acc_app. reflexivity. }
  rewrite E1, E2.
  assert (HDconv : D = convert R) by (rewrite (convert_raw NO R HrR); symmetry; exact Eout).
  destruct (exists_last_or_nil R) as [ER|(Rinit & r & ER)].
  - rewrite ER in *. inversion HA; subst. reflexivity.
  - rewrite ER in HA. destruct (Forall2_app_inv_r _ _ HA) as (Dinit & Dl & HAi & HAl & EDl).
    destruct Dl as [|d Dl']; [inversion HAl|].
    assert (Hdr : alike d r) by (inversion HAl; assumption).
    assert (Dl' = []) by (inversion HAl as [|? ? ? ? _ Hnil]; inversion Hnil; reflexivity). subst Dl'. clear HAl.
    rewrite EDl, ER. rewrite !rev_unit.
    rewrite (resample_acc_head payload mrg tf ys d (rev Dinit)), (resample_acc_head payload mrg tf ys r (rev Rinit)).
    rewrite !rev_involutive.
    assert (HpRi : pristine Rinit /\ pristine [r]) by (rewrite ER in HpR; apply Forall_app in HpR; exact HpR).
    destruct HpRi as [HpRi Hpr].
    assert (HM : pristine (resample_acc tf [r] ys)) by (apply resample_acc_pristine; assumption).
    destruct (resample_acc_alike payload mrg tf d r ys Hdr) as [(tl & T1 & T2)|(T1 & _)].
    + (* the last bucket is closed: conversion resumes behind it *)
      rewrite T1, T2. rewrite T2 in HM. inversion HM as [|? ? _ Htl]; subst.
      replace (Dinit ++ d :: tl) with ((Dinit ++ [d]) ++ tl) by (rewrite <- app_assoc; reflexivity).
      replace (Rinit ++ r :: tl) with ((Rinit ++ [r]) ++ tl) by (rewrite <- app_assoc; reflexivity).
      rewrite <- EDl, <- ER. rewrite HDconv. apply convert_incremental; [exact HrR|apply pristine_raw; exact Htl].
    + (* the last bucket takes in new candles: it is rebuilt raw and converted again *)
      rewrite T1.
      assert (HDi : Dinit = convert Rinit).
      { rewrite (convert_raw NO Rinit (pristine_raw _ HpRi)).
        rewrite HDconv, ER in EDl. rewrite (convert_raw NO (Rinit ++ [r])) in EDl by (rewrite <- ER; exact HrR).
        rewrite convert_from_app in EDl.
        destruct (convert_from_alike [r] (rev (convert_from [] Rinit)) Hpr) as (o1 & Eo & Ho). rewrite Eo, rev_involutive in EDl.
        inversion Ho as [|o ? ol ? _ Hol]; subst. inversion Hol; subst.
        apply app_inj_tail in EDl. destruct EDl as [EDl _]. symmetry. exact EDl. }
      rewrite HDi. apply convert_incremental; [apply pristine_raw; exact HpRi|apply pristine_raw; exact HM].
Qed.

(* the same statement on the manager's own entry points *)
Definition tf_ha_cfg (tf : Z) : mcfg := {| tf := Some tf; fillon := false; ha := true; lifespan := None |}.
Lemma tasks_pipe tf l : tasks NO (tf_ha_cfg tf) l = pipe tf l.
Proof.
  unfold tasks, pipe, tf_ha_cfg, collapse_candles. cbn [Candle.tf fillon ha lifespan].
  destruct (collapse tf l); cbn [bind]; reflexivity.
Qed.
Theorem manager_incremental (tf : Z) (xs ys : list cd) (D : list cd) :
  0 < tf -> sorted payload (xs ++ ys) -> pristine (xs ++ ys) ->
  tasks NO (tf_ha_cfg tf) xs = Ok D -> mgr_append NO (tf_ha_cfg tf) D ys = tasks NO (tf_ha_cfg tf) (xs ++ ys).
Proof.
  intros Htf Hs Hp HD. unfold mgr_append. destruct ys as [|y ys'].
  - rewrite app_nil_r. symmetry. exact HD.
  - rewrite !tasks_pipe in *. apply pipeline_incremental; assumption.
Qed.
End Pipeline.
