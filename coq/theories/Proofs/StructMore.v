(* More single-reading definitions (C04, C06), engine models over the reals. *)
From Coq Require Import ZArith List String Bool Reals Lra Lia.
From Hexital Require Import Base.Prelude Base.Num Model.Manager Model.Candle Model.Readings Model.Analysis
  Model.Engine Inst.RealInst.
Import ListNotations.
Local Open Scope string_scope.
Local Open Scope R_scope.
Notation F := ROps.

Section StructMore.
Variable I : ind F.
Notation nm := (i_name F I).

(* MACD line = fast EMA - slow EMA of the same candle *)
Theorem macd_line rec (fast slow signal : Z) (input : string) (st st' : store F) i v (fn sn : R) :
  i_kind F I = K_MACD fast slow signal input -> calc_reading F rec I st i = Ok (v, st') ->
  reading F st (nm ++ "_EMA_slow") i = Ok (@VNum F sn) -> reading F st (nm ++ "_EMA_fast") i = Ok (@VNum F fn) ->
  exists sg hist, v = VDict [("MACD", @VNum F (fn - sn)); ("signal", sg); ("histogram", hist)].
Proof.
  intros K H Hs Hf. unfold calc_reading in H. rewrite K, Hs in H. cbn [bind is_none negb as_num numlike] in H.
  unfold rnum in H. rewrite Hf in H. cbn [bind as_num numlike] in H.
  destruct (set_ind_direct F st nm _ i) as [st1|]; cbn [bind] in H; [|discriminate].
  destruct (managed_calc_index F rec I "signal" i st1) as [st2|]; cbn [bind] in H; [|discriminate].
  destruct (reading F st2 (nm ++ "_signal_line") i) as [sg|]; cbn [bind] in H; [|discriminate].
  match type of H with bind ?e _ = _ => destruct e as [hist|] end; cbn [bind] in H; [|discriminate].
  unfold ret, vnum in H. inversion H; subst. eexists _, _. reflexivity.
Qed.

(* HMA: the series that is smoothed is 2 * WMA(period / 2) - WMA(period) *)
Theorem hma_raw rec (period : Z) (input : string) (st st' : store F) i v (w wh : R) :
  i_kind F I = K_HMA period input -> calc_reading F rec I st i = Ok (v, st') ->
  reading F st (nm ++ "_WMA") i = Ok (@VNum F w) -> reading F st (nm ++ "_WMAh") i = Ok (@VNum F wh) ->
  exists st1, managed_set F rec I "raw_HMA" (@VNum F (2 * wh - w)) i st = Ok st1 /\ reading F st1 (nm ++ "_HMAs") i = Ok v /\ st' = st1.
Proof.
  intros K H Hw Hh. unfold calc_reading in H. rewrite K, Hw in H. cbn [bind is_none negb as_num numlike] in H.
  unfold rnum in H. rewrite Hh in H. cbn [bind as_num numlike] in H.
  change (vnum F (nsub F (nmul F (zn F 2) wh) w)) with (@VNum F (2 * wh - w)) in H.
  destruct (managed_set F rec I "raw_HMA" (@VNum F (2 * wh - w)) i st) as [st1|] eqn:EM; cbn [bind] in H; [|discriminate].
  destruct (reading F st1 (nm ++ "_HMAs") i) as [r|] eqn:ER; cbn [bind] in H; [|discriminate].
  unfold ret in H. inversion H; subst. exists st'. repeat split; assumption.
Qed.
End StructMore.
