(* ADX (C10): DX = 100 * |+DI - -DI| / (+DI + -DI) lies in [0, 100] for non-negative
   directional indicators, and Wilder's average of values in a grid interval stays in it -
   so ADX, Wilder's average of DX, lies in [0, 100] from its first recurrence step on. *)
From Coq Require Import ZArith List String Bool Reals Lra Lia.
From Flocq Require Import Core.
From Hexital Require Import Base.Prelude Base.Num Model.Candle Inst.RealInst Spec.Steppers Proofs.SpecReal.
Local Open Scope R_scope.
Notation RO := ROps.

Theorem dx_range (dp dn : R) : 0 <= dp -> 0 <= dn -> 0 < dp + dn -> 0 <= 100 * (Rabs (dp - dn) / (dp + dn)) <= 100.
Proof.
  intros Hp Hn Hs.
  assert (Q : 0 <= Rabs (dp - dn) / (dp + dn) <= 1).
  { split.
    - apply Rmult_le_pos; [apply Rabs_pos|apply Rlt_le, Rinv_0_lt_compat; exact Hs].
    - apply (Rmult_le_reg_r (dp + dn)); [exact Hs|]. unfold Rdiv. rewrite Rmult_assoc, Rinv_l by lra.
      rewrite Rmult_1_r, Rmult_1_l. apply Rabs_le. lra. }
  lra.
Qed.

(* Wilder's recurrence keeps the reading inside any grid interval that contains the previous
   reading and the new input *)
Theorem rma_within_range (p nd : Z) (s : state RO) (x pr lo hi : R) :
  (0 < p)%Z -> s_prev RO s = Some pr ->
  generic_format radix10 (FIX_exp (- nd)) lo -> generic_format radix10 (FIX_exp (- nd)) hi ->
  lo <= pr <= hi -> lo <= x <= hi ->
  exists r s', rma_step RO p nd s x = Ok (VNum r, s') /\ lo <= r <= hi.
Proof.
  intros Hp Hs Hlo Hhi Hpr Hx. pose proof (IZR_pos p Hp) as Hp'.
  unfold rma_step. unfold zn; cbn [nofZ RO]; rewrite fl_one. rewrite divn_ok by lra. cbn [bind]. rewrite Hs.
  cbn [nfloat RO nmul nsub nadd].
  eexists _, _. split; [reflexivity|]. unfold rnd; cbn [nround RO]. apply rnd10_between; try assumption.
  set (a := 1 / IZR p).
  assert (Ha : 0 < a <= 1).
  { unfold a. split; [apply Rdiv_lt_0_compat; lra|]. apply (Rmult_le_reg_r (IZR p)); [lra|].
    unfold Rdiv. rewrite Rmult_assoc, Rinv_l by lra. assert (1 <= IZR p) by (apply IZR_le; lia). lra. }
  split; nra.
Qed.

(* 0 and 100 are grid points for every non-negative number of decimals *)
Lemma grid_0 nd : generic_format radix10 (FIX_exp (- nd)) 0. Proof. apply generic_format_0. Qed.
Lemma grid_100 nd : (0 <= nd)%Z -> generic_format radix10 (FIX_exp (- nd)) 100.
Proof. intros H. replace 100 with (IZR 100) by reflexivity. apply IZR_on_grid. exact H. Qed.

Theorem adx_step_range (p nd : Z) (s : state RO) (dx pr : R) :
  (0 < p)%Z -> (0 <= nd)%Z -> s_prev RO s = Some pr -> 0 <= pr <= 100 -> 0 <= dx <= 100 ->
  exists r s', rma_step RO p nd s dx = Ok (VNum r, s') /\ 0 <= r <= 100.
Proof. intros Hp Hnd Hs Hpr Hdx. eapply rma_within_range; eauto using grid_0, grid_100. Qed.
