(* Rolling population standard deviation (C05).  The class keeps the mean and the variance of
   the window in a helper series and updates them when the window slides:
       mean' = mean + (x - removed) / p
       var'  = var + (x - removed) (x - mean' + removed - mean) / p.
   Algebraic identity (reals, before the helper's rounding): if mean and var are the mean and
   the population variance of the old window, mean' and var' are those of the new window.
   And the reading is sqrt(max(var', 0)) with exactly these updates. *)
From Coq Require Import ZArith List String Bool Reals Lra Lia.
From Hexital Require Import Base.Prelude Base.Num Model.Manager Model.Candle Model.Readings Model.Analysis
  Model.Engine Inst.RealInst.
Import ListNotations.
Local Open Scope string_scope.
Local Open Scope R_scope.
Notation F := ROps.

(* S = sum, Q = sum of squares of the old window of p slots; x enters, r leaves *)
Theorem rolling_update_identity (p S Q x r : R) : p <> 0 ->
  let m := S / p in let v := Q / p - m * m in
  let m' := m + (x - r) / p in
  let v' := v + (x - r) * (x - m' + r - m) / p in
  m' = (S - r + x) / p /\ v' = (Q - r * r + x * x) / p - m' * m'.
Proof. intros Hp. cbn zeta. split; field; exact Hp. Qed.

Section Stdev.
Variable I : ind F.
Notation nm := (i_name F I).

(* the reading of one candle: sqrt of the updated variance (clamped at 0), None until the
   window plus the leaving value are available *)
Theorem stdev_reading rec (period : Z) (input : string) (st st' : store F) i v (x : R) :
  (0 < period)%Z -> i_kind F I = K_STDEV period input -> calc_reading F rec I st i = Ok (v, st') ->
  reading F st input i = Ok (@VNum F x) ->
  exists (removed old_mean var0 : R),
    let new_mean := old_mean + (x - removed) / IZR period in
    let variance := var0 + (x - removed) * (x - new_mean + removed - old_mean) / IZR period in
    v = VNone \/ v = @VNum F (sqrt (Rmax variance 0)).
Proof.
  intros Hp K H Hx. unfold calc_reading in H. rewrite K, Hx in H. cbn [bind is_none as_num numlike] in H.
  destruct (reading_period F st (period + 1) input (Some i)) as [rp|]; cbn [bind] in H; [|discriminate].
  destruct (if rp then rnum F st input (i - period) else Ok (zn F 0)) as [removed|]; cbn [bind] in H; [|destruct rp; discriminate].
  destruct (prev_reading F st (nm ++ "_data.mean") i) as [pm|]; cbn [bind] in H; [|discriminate].
  destruct (if is_none F pm then Ok (zn F 0) else as_num F pm) as [old_mean|]; cbn [bind] in H; [|discriminate].
  assert (Pp : IZR period <> 0) by (apply not_0_IZR; lia).
  unfold divn in H. cbn [ndiv nsub F zn nofZ] in H. destruct (Req_EM_T (IZR period) 0) as [E|_]; [contradiction|]. cbn [of_opt bind] in H.
  destruct (prev_reading F st (nm ++ "_data.variance") i) as [pvv|]; cbn [bind] in H; [|discriminate].
  match type of H with context [if is_none F pvv then ?a else ?b] => destruct (if is_none F pvv then a else b) as [var0|] end; cbn [bind] in H; [|discriminate].
  destruct (Req_EM_T (IZR period) 0) as [E|_]; [contradiction|]. cbn [of_opt bind] in H.
  exists removed, old_mean, var0. cbn zeta.
  destruct (managed_set F rec I "STDEV_data" _ i st) as [st1|]; cbn [bind] in H; [|discriminate].
  destruct rp.
  - right. cbn [nsqrt nmax nadd nmul nsub fl ndec F] in H.
    match type of H with context [Rlt_dec ?a 0] => destruct (Rlt_dec a 0) as [Hneg|Hpos] end; cbn [of_opt bind] in H; [discriminate|].
    unfold ret, vnum in H. inversion H; subst. f_equal. f_equal.
    unfold nmax, Rmax. cbn [nltb F]. unfold Rltb.
    replace (0 / (10 * 1)) with 0 by lra.
    match goal with |- context [Rlt_dec ?a 0] => destruct (Rlt_dec a 0) as [L|L]; destruct (Rle_dec a 0) as [M|M]; lra end.
  - left. unfold ret in H. inversion H; reflexivity.
Qed.
End Stdev.
