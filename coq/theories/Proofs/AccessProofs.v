(* Proofs that the different ways of reading agree (C20) and that purge removes exactly
   an indicator tree's entries (C14). *)
From Coq Require Import ZArith List String Bool Lia ZifyBool.
From Hexital Require Import Base.Prelude Base.Num Model.Manager Model.Candle Model.Readings Model.Engine
  Model.Access Proofs.ListProofs.
Import ListNotations.
Local Open Scope Z_scope.

Section AccessProofs.
Context (NO : NumOps).
Notation val := (val NO).
Notation cd := (cd (payload NO)).

(* positive and negative index address the same candle *)
Lemma reading_neg (st : list cd) name i : 0 <= i < zlen st ->
  reading NO st name (i - zlen st) = reading NO st name i.
Proof. intros H. unfold reading. rewrite pyidx_neg by assumption. reflexivity. Qed.

(* reading_by_index (used by Hexital and the analysis functions) = Indicator.reading on valid indices *)
Lemma reading_by_index_valid (st : list cd) name i : valid_index i (zlen st) = true ->
  reading_by_index NO st name i = reading NO st name i.
Proof.
  intros H. unfold reading_by_index, reading. rewrite H. cbn [negb].
  destruct (pyidx st i) eqn:E; [reflexivity|].
  exfalso. unfold valid_index in H. unfold pyidx in E.
  destruct ((0 <=? i) && (i <? zlen st)) eqn:B1.
  - apply nth_error_None in E. unfold zlen in *. lia.
  - destruct ((i <? 0) && (- zlen st <=? i)) eqn:B2; [|lia].
    apply nth_error_None in E. unfold zlen in *. lia.
Qed.
Lemma reading_by_index_invalid (st : list cd) name i : valid_index i (zlen st) = false ->
  reading_by_index NO st name i = Ok VNone.
Proof. intros H. unfold reading_by_index. rewrite H. reflexivity. Qed.

(* as_list is the column of read_candle, and its i-th entry is reading(name, i) *)
Lemma mapM_nth {A B} (f : A -> res B) : forall (l : list A) (out : list B) (k : nat) (a : A),
  mapM f l = Ok out -> nth_error l k = Some a -> exists b, nth_error out k = Some b /\ f a = Ok b.
Proof.
  induction l as [|x l IH]; intros out k a H Hk; [destruct k; discriminate|].
  cbn [mapM] in H. destruct (f x) as [y|e] eqn:Ex; cbn [bind] in H; [|discriminate].
  destruct (mapM f l) as [ys|e] eqn:El; cbn [bind] in H; [|discriminate].
  inversion H; subst out. destruct k as [|k]; cbn in *.
  - inversion Hk; subst. eexists; split; [reflexivity|exact Ex].
  - apply (IH ys k a eq_refl Hk).
Qed.
Lemma mapM_length {A B} (f : A -> res B) : forall (l : list A) (out : list B),
  mapM f l = Ok out -> List.length out = List.length l.
Proof.
  induction l as [|x l IH]; intros out H; cbn [mapM] in H; [inversion H; reflexivity|].
  destruct (f x) as [y|e]; cbn [bind] in H; [|discriminate].
  destruct (mapM f l) as [ys|e] eqn:El; cbn [bind] in H; [|discriminate].
  inversion H. cbn. f_equal. apply IH. reflexivity.
Qed.

Theorem as_list_nth (st : list cd) name out i : 0 <= i < zlen st ->
  as_list NO st name = Ok out ->
  exists v, nth_error out (Z.to_nat i) = Some v /\ reading NO st name i = Ok v /\
            reading NO st name (i - zlen st) = Ok v.
Proof.
  intros Hi H. destruct (pyidx_some st i Hi) as [c Hc].
  pose proof Hc as Hc'. rewrite pyidx_nonneg in Hc' by assumption.
  destruct (mapM_nth _ st out (Z.to_nat i) c H Hc') as [v [Hv Hf]].
  exists v. split; [exact Hv|]. rewrite reading_neg by assumption.
  unfold reading. rewrite Hc. split; exact Hf.
Qed.

(* has_reading is true exactly when the latest reading is not None - 0 and False count *)
Theorem has_reading_spec (st : list cd) name c pre : st = pre ++ [c] ->
  has_reading NO st name = (v <- read_candle NO c name ;; Ok (negb (is_none NO v))).
Proof.
  intros E. unfold has_reading, read_candle, reading. subst st.
  destruct (pre ++ [c]) as [|x l] eqn:El; [destruct pre; discriminate|]. rewrite <- El.
  assert (L : zlen (pre ++ [c]) = zlen pre + 1) by (rewrite zlen_app; reflexivity).
  replace (-1) with ((zlen (pre ++ [c]) - 1) - zlen (pre ++ [c])) by lia.
  pose proof (zlen_nonneg pre).
  rewrite pyidx_neg by lia. rewrite pyidx_nonneg by lia.
  replace (Z.to_nat (zlen (pre ++ [c]) - 1)) with (List.length pre) by (unfold zlen in *; lia).
  rewrite nth_error_app2 by lia. rewrite Nat.sub_diag. reflexivity.
Qed.

(* reading_count = the number of trailing candles with a reading *)
Fixpoint trailing (l : list (option val)) : Z :=      (* l is newest-first; None = error-free reading *)
  match l with
  | Some v :: r => if is_none NO v then 0 else trailing r + 1
  | _ => 0
  end.
Theorem reading_count_spec : forall (rv : list cd) name n,
  count_trailing NO rv name = Ok n ->
  exists k, n = Z.of_nat k /\ (k <= List.length rv)%nat /\
    (forall c, In c (firstn k rv) -> exists v, reading_by_candle NO (p c) name = Ok v /\ is_none NO v = false) /\
    (forall c, nth_error rv k = Some c -> reading_by_candle NO (p c) name = Ok VNone).
Proof.
  induction rv as [|c r IH]; intros name n H; cbn [count_trailing] in H.
  - inversion H. exists 0%nat. repeat split; [cbn; lia|intros c []|intros c Hc; cbn in Hc; discriminate Hc].
  - destruct (reading_by_candle NO (p c) name) as [v|e] eqn:Ev; cbn [bind] in H; [|discriminate].
    destruct (is_none NO v) eqn:Nv.
    + inversion H. exists 0%nat. repeat split; [cbn; lia|intros x []|].
      intros x Hx. cbn in Hx. inversion Hx; subst. destruct v; try discriminate. exact Ev.
    + destruct (count_trailing NO r name) as [m|e] eqn:Em; cbn [bind] in H; [|discriminate].
      inversion H; subst n. destruct (IH name m Em) as (k & Hk & Hle & Hall & Hstop).
      exists (S k). repeat split; [lia|cbn; lia| |].
      * intros x Hx. cbn [firstn] in Hx. destruct Hx as [<-|Hx]; [eexists; split; eauto|apply Hall; exact Hx].
      * intros x Hx. cbn in Hx. apply Hstop. exact Hx.
Qed.

(* ---- purge ---- *)
Definition lookup_own (sub : bool) (q : payload NO) (k : string) : option val :=
  alist_get k (if sub then subs NO q else inds NO q).

Lemma bn_dec : forall x y : (bool * string)%type, ({x = y} + {x <> y})%type.
Proof. decide equality; [apply string_dec|apply bool_dec]. Qed.

Lemma fold_del_get_other (sub : bool) : forall (names : list (bool * string)) (d : list (string * val)) k,
  ~ In (sub, k) names ->
  alist_get k (fold_left (fun d (bn : bool * string) => if Bool.eqb (fst bn) sub then alist_del (snd bn) d else d) names d)
  = alist_get k d.
Proof.
  induction names as [|[b nm] names IH]; intros d k Hn; cbn [fold_left]; [reflexivity|].
  rewrite IH by (intros H; apply Hn; right; exact H).
  cbn [fst snd]. destruct (Bool.eqb b sub) eqn:E; [|reflexivity].
  apply alist_get_del_other. intros ->. apply Hn. left. apply Bool.eqb_prop in E. subst. reflexivity.
Qed.
Lemma fold_del_get_in (sub : bool) : forall (names : list (bool * string)) (d : list (string * val)) k,
  In (sub, k) names ->
  alist_get k (fold_left (fun d (bn : bool * string) => if Bool.eqb (fst bn) sub then alist_del (snd bn) d else d) names d)
  = None.
Proof.
  induction names as [|[b nm] names IH]; intros d k Hin; [destruct Hin|]. cbn [fold_left fst snd].
  destruct (in_dec bn_dec (sub, k) names) as [Hi|Hni].
  - apply IH. exact Hi.
  - destruct Hin as [E|Hi]; [|contradiction]. inversion E; subst b nm.
    rewrite fold_del_get_other by exact Hni. rewrite Bool.eqb_reflx. apply alist_get_del_same.
Qed.

Lemma fold_left_ext {A B} (f g : A -> B -> A) : (forall a x, f a x = g a x) -> forall l a, fold_left f l a = fold_left g l a.
Proof. intros H. induction l as [|x l IH]; intros a; cbn; [reflexivity|]. rewrite H. apply IH. Qed.

Lemma purge_payload_inds names (q : payload NO) : inds NO (purge_payload NO names q) =
  fold_left (fun d (bn : bool * string) => if Bool.eqb (fst bn) false then alist_del (snd bn) d else d) names (inds NO q).
Proof. unfold purge_payload. cbn [inds]. apply fold_left_ext. intros a [[|] nm]; reflexivity. Qed.
Lemma purge_payload_subs names (q : payload NO) : subs NO (purge_payload NO names q) =
  fold_left (fun d (bn : bool * string) => if Bool.eqb (fst bn) true then alist_del (snd bn) d else d) names (subs NO q).
Proof. unfold purge_payload. cbn [subs]. apply fold_left_ext. intros a [[|] nm]; reflexivity. Qed.

(* purge removes every entry of the tree (all depths) and nothing else *)
Theorem purge_exact (I : ind NO) (st : store NO) :
  let st' := purge NO I st in
  List.length st' = List.length st /\
  forall k c c', nth_error st k = Some c -> nth_error st' k = Some c' ->
    t c' = t c /\ cur NO (p c') = cur NO (p c) /\ clean NO (p c') = clean NO (p c) /\ tagged NO (p c') = tagged NO (p c) /\
    (forall sub nm, In (sub, nm) (tree_names NO FUEL I) -> lookup_own sub (p c') nm = None) /\
    (forall sub nm, ~ In (sub, nm) (tree_names NO FUEL I) -> lookup_own sub (p c') nm = lookup_own sub (p c) nm).
Proof.
  cbn zeta. unfold purge. set (names := tree_names NO FUEL I). clearbody names.
  unfold purge_names. split; [apply map_length|].
  intros k c c' Hc Hc'. rewrite nth_error_map, Hc in Hc'. unfold option_map in Hc'.
  injection Hc' as <-.
  cbn [t p]. unfold purge_payload at 1 2 3. cbn [cur clean tagged].
  split; [reflexivity|]. split; [reflexivity|]. split; [reflexivity|]. split; [reflexivity|]. split.
  - intros sub nm Hin. unfold lookup_own. destruct sub.
    + rewrite purge_payload_subs. apply fold_del_get_in. exact Hin.
    + rewrite purge_payload_inds. apply fold_del_get_in. exact Hin.
  - intros sub nm Hn. unfold lookup_own. destruct sub.
    + rewrite purge_payload_subs. apply fold_del_get_other. exact Hn.
    + rewrite purge_payload_inds. apply fold_del_get_other. exact Hn.
Qed.

End AccessProofs.
