(* Non-interference on any manager (C13, C08): the paired histories of Proofs/NonInterference.v
   with the candles going through a candle manager - a collapsing timeframe, gap filling,
   Heikin-Ashi, a lifespan, in any combination - instead of being appended raw.  Side 1 is the
   manager a Hexital shares among several members, side 2 the manager of a standalone B; both
   receive the same chunks.  B's entry on every candle is the same on both sides, and the two
   sides raise alike, whatever the other members do within the frame of their own trees. *)
From Coq Require Import ZArith List String Ascii Bool Lia.
From Hexital Require Import Base.Prelude Base.Num Model.Manager Model.Candle Model.Readings Model.Analysis
  Model.Engine Proofs.ListProofs Proofs.FrameProofs Proofs.AnalysisProofs Proofs.CausalProofs Proofs.SimProofs
  Proofs.NonInterference Proofs.DeliverProofs Proofs.ParamProofs.
Import ListNotations.
Local Open Scope Z_scope.

Section NITF.
Context (NO : NumOps).
Notation payload := (payload NO).
Notation cd := (cd payload).
Notation store := (store NO).
Variable B : ind NO.
Hypothesis Hleaf : i_subs NO B = [] /\ i_managed NO B = [].
Hypothesis Htop : i_sub NO B = false.
Hypothesis Hk : leaf_kind NO (i_kind NO B) = true.
Hypothesis Hnodot : has_dot (i_name NO B) = false.
Variable others : list (bool * string).
Hypothesis Hforeign : foreign NO B others.
Notation nm := (i_name NO B).
Notation N := (reads NO (i_kind NO B) (i_name NO B)).
Notation agree := (agree NO B).

(* what B can see of a payload, what B wrote on it, and what the manager looks at *)
Definition RPB (a b : payload) : Prop :=
  same_data NO a b /\
  (forall n, In n N -> reading_by_candle NO a n = reading_by_candle NO b n) /\
  alist_get nm (inds NO a) = alist_get nm (inds NO b).
Notation BL := (RL payload RPB).

Lemma RPB_data a b : RPB a b -> same_data NO a b.
Proof. intros H; apply H. Qed.
Lemma RPB_refl a : RPB a a.
Proof. split; [apply same_data_refl|split; reflexivity]. Qed.

Lemma BL_agree (l1 l2 : store) : BL l1 l2 -> Forall2 agree l1 l2.
Proof.
  intros H; induction H as [|c c' l l' [Ht ((Hc & _) & Hr & Ho)] H IH]; constructor; [|exact IH].
  split; [exact Ht|]. split; [split; [exact Hc|exact Hr]|exact Ho].
Qed.
Lemma BL_data (l1 l2 : store) : BL l1 l2 -> RL payload (same_data NO) l1 l2.
Proof. intros H; induction H as [|c c' l l' [Ht (Hd & _)] H IH]; constructor; [split; assumption|exact IH]. Qed.
Lemma agree_data_BL : forall (l1 l2 : store), Forall2 agree l1 l2 -> RL payload (same_data NO) l1 l2 -> BL l1 l2.
Proof.
  intros l1 l2 H; induction H as [|c c' l l' (Ht & (Hc & Hr) & Ho) H IH]; intros HD; inversion HD as [|? ? ? ? [_ Hd] HD']; subst; constructor.
  - split; [exact Ht|]. split; [exact Hd|split; assumption].
  - apply IH. exact HD'.
Qed.

Lemma wf_leaf : wf_tree NO FUEL B.
Proof.
  unfold FUEL. cbn [wf_tree]. destruct Hleaf as [Hs Hm]. rewrite Hs, Hm. split; [|split; constructor].
  destruct (i_kind NO B); try exact Logic.I. discriminate Hk.
Qed.

Lemma DLs_sym (l l' : store) : RL payload (same_data NO) l l' -> RL payload (same_data NO) l' l.
Proof. intros H; induction H as [|x y l l' [Ht (A & B0 & C)] H IH]; constructor; [split; [congruence|repeat split; congruence]|exact IH]. Qed.
Lemma DLs_trans (a b c : store) : RL payload (same_data NO) a b -> RL payload (same_data NO) b c -> RL payload (same_data NO) a c.
Proof.
  intros H; revert c; induction H as [|x y l l' [Ht (A & B0 & C)] H IH]; intros c Hc; inversion Hc as [|? z ? ? [Ht' (A' & B' & C')] Hc']; subst; constructor.
  - split; [congruence|repeat split; congruence].
  - apply IH; assumption.
Qed.
Lemma data_eq_DLs (st st' : store) : data_eq NO st st' -> RL payload (same_data NO) st st'.
Proof.
  intros H; induction H as [|c c' l l' (A & B0 & C & D) H IH]; constructor; [|exact IH].
  split; [congruence|]. repeat split; congruence.
Qed.

Inductive PairedM : store -> store -> Prop :=
| PM_init : PairedM [] []
| PM_append cfg s1 s2 new r1 r2 : PairedM s1 s2 ->
    mgr_append NO cfg s1 new = Ok r1 -> mgr_append NO cfg s2 new = Ok r2 -> PairedM r1 r2
| PM_B s1 s2 r1 r2 : PairedM s1 s2 -> calculate NO B s1 = Ok r1 -> calculate NO B s2 = Ok r2 -> PairedM r1 r2
| PM_other s1 s2 s1' : PairedM s1 s2 -> frame NO others s1 s1' -> PairedM s1' s2.

Theorem pairedM_rel s1 s2 : PairedM s1 s2 -> BL s1 s2.
Proof.
  induction 1 as [|cfg s1 s2 new r1 r2 _ IH H1 H2|s1 s2 r1 r2 _ IH H1 H2|s1 s2 s1' _ IH Hfr].
  - constructor.
  - pose proof (mgr_append_rel NO RPB RPB_data RPB_refl cfg s1 s2 new IH) as HR. rewrite H1, H2 in HR. exact HR.
  - apply agree_data_BL.
    + pose proof (calculate_agree NO B Hleaf Htop Hk s1 s2 (BL_agree _ _ IH)) as HR. rewrite H1, H2 in HR. exact HR.
    + eapply DLs_trans; [apply DLs_sym, data_eq_DLs; eapply calculate_data_eq; [exact wf_leaf|exact H1]|].
      eapply DLs_trans; [exact (BL_data _ _ IH)|]. apply data_eq_DLs. eapply calculate_data_eq; [exact wf_leaf|exact H2].
  - apply agree_data_BL.
    + eapply agree_trans_list; [eapply frame_agree; [exact Hnodot|exact Hforeign|exact Hfr]|exact (BL_agree _ _ IH)].
    + eapply DLs_trans; [apply DLs_sym, data_eq_DLs; eapply frame_data_eq; exact Hfr|exact (BL_data _ _ IH)].
Qed.

Theorem noninterference_on_any_manager s1 s2 : PairedM s1 s2 ->
  map (fun c => (t c, cur NO (p c), alist_get nm (inds NO (p c)))) s1 =
  map (fun c => (t c, cur NO (p c), alist_get nm (inds NO (p c)))) s2 /\
  (forall e, calculate NO B s1 = Err e <-> calculate NO B s2 = Err e) /\
  (forall cfg new, match mgr_append NO cfg s1 new, mgr_append NO cfg s2 new with
                   | Ok _, Ok _ => True | Err e1, Err e2 => e1 = e2 | _, _ => False end).
Proof.
  intros HP. pose proof (pairedM_rel s1 s2 HP) as HB. split; [|split].
  - clear HP. induction HB as [|c1 c2 l1 l2 [Ht ((Hc & _) & _ & Ho)] _ IH]; cbn [map]; [reflexivity|]. rewrite Ht, Hc, Ho, IH. reflexivity.
  - intros e. pose proof (calculate_agree NO B Hleaf Htop Hk s1 s2 (BL_agree _ _ HB)) as HR.
    destruct (calculate NO B s1), (calculate NO B s2); cbn [Rres] in HR; try contradiction; split; intros H; try discriminate; congruence.
  - intros cfg new. pose proof (mgr_append_rel NO RPB RPB_data RPB_refl cfg s1 s2 new HB) as HR.
    destruct (mgr_append NO cfg s1 new), (mgr_append NO cfg s2 new); cbn [RR] in HR; try contradiction; auto.
Qed.

End NITF.
