(* Structural relations of single readings (C10), proved about the faithful
   _calculate_reading models over the reals, for any store and index. *)
From Coq Require Import ZArith List String Bool Reals Lra Lia.
From Hexital Require Import Base.Prelude Base.Num Model.Manager Model.Candle Model.Readings Model.Analysis
  Model.Engine Inst.RealInst.
Import ListNotations.
Local Open Scope Z_scope.

Section Bars.
Context (NO : NumOps).
(* the offset found by highestbar / lowestbar lies inside the scanned window *)
Lemma bar_loop_range lowest cs name : forall idxs k best d r, 0 <= k ->
  bar_loop NO lowest cs name idxs k best d = Ok r -> (r = d \/ k <= r < k + Z.of_nat (List.length idxs)).
Proof.
  induction idxs as [|j idxs IH]; intros k best d r Hk H; cbn [bar_loop] in H.
  - left. congruence.
  - destruct (reading_by_index NO cs name j) as [c|e]; cbn [bind] in H; [|discriminate].
    cbn [List.length]. destruct (is_none NO c).
    + apply IH in H; [|lia]. destruct H as [E|E]; [left; exact E|right; lia].
    + destruct best as [b|].
      * destruct (if lowest then val_gt NO b c else val_lt NO b c) as [[|]|]; cbn [bind] in H; try discriminate.
        -- apply IH in H; [|lia]. destruct H as [E|E]; right; lia.
        -- apply IH in H; [|lia]. destruct H as [E|E]; [left; exact E|right; lia].
      * destruct (if lowest then val_gt NO c c else val_lt NO c c); cbn [bind] in H; [|discriminate].
        apply IH in H; [|lia]. destruct H as [E|E]; right; lia.
Qed.
Lemma zrange_down_length a b : List.length (zrange_down a b) = Z.to_nat (a - b).
Proof. unfold zrange_down. rewrite map_length, seq_length. reflexivity. Qed.

Lemma high_low_bar_range lowest cs name length index v : 1 <= length ->
  high_low_bar NO lowest cs name length index = Ok v ->
  v = VNone \/ exists d, v = VNum (nofZ NO d) /\ 0 <= d <= length - 1.
Proof.
  intros Hl H. unfold high_low_bar in H. destruct (absindex index (zlen cs)) as [i|] eqn:A; [|left; congruence].
  destruct (bar_loop NO lowest cs name _ 0 None 0) as [d|e] eqn:B; cbn [bind] in H; [|discriminate].
  right. exists d. split; [congruence|].
  assert (Hi : 0 <= i) by (unfold absindex in A; destruct (negb (valid_index index (zlen cs))) eqn:V; [discriminate|];
                           unfold valid_index in V; destruct (index <? 0) eqn:N; inversion A; lia).
  apply bar_loop_range in B; [|lia]. destruct B as [E|E]; [lia|].
  rewrite zrange_down_length in E. lia.
Qed.
End Bars.

Local Open Scope string_scope.
Local Open Scope R_scope.
Section StructR.
Variable I : ind ROps.
Notation nm := (i_name ROps I).
Notation F := ROps.

(* AROON: oscillator = up - down exactly, and both lie in [0, 100] *)
Theorem aroon_structure rec (period : Z) (st st' : store F) i v : (1 <= period)%Z ->
  i_kind F I = K_AROON period -> calc_reading F rec I st i = Ok (v, st') ->
  v = VDict [("AROONU", VNone); ("AROOND", VNone); ("AROONOSC", VNone)] \/
  exists u d : R, v = VDict [("AROONU", @VNum F u); ("AROOND", @VNum F d); ("AROONOSC", @VNum F (u - d))] /\
                  0 <= u <= 100 /\ 0 <= d <= 100.
Proof.
  intros Hp K H. unfold calc_reading in H. rewrite K in H.
  destruct (rperiod F st (period + 1) "high" i) as [[|]|]; cbn [bind] in H; try discriminate; [|left; unfold ret in H; congruence].
  destruct (mv_highestbar F st "high" (period + 1) i) as [hb|] eqn:HB; cbn [bind] in H; [|discriminate].
  destruct (as_num F hb) as [hbn|] eqn:HN; cbn [bind] in H; [|discriminate].
  destruct (mv_lowestbar F st "low" (period + 1) i) as [lb|] eqn:LB; cbn [bind] in H; [|discriminate].
  destruct (as_num F lb) as [lbn|] eqn:LN; cbn [bind] in H; [|discriminate].
  destruct (high_low_bar_range F false st "high" (period + 1) i hb ltac:(lia) HB) as [->|(dh & -> & Hdh)]; [discriminate|].
  destruct (high_low_bar_range F true st "low" (period + 1) i lb ltac:(lia) LB) as [->|(dl & -> & Hdl)]; [discriminate|].
  cbn in HN, LN. inversion HN; subst hbn. inversion LN; subst lbn.
  unfold divn in H. cbn [ndiv F nsub zn nofZ] in H.
  assert (Pp : IZR period <> 0) by (apply not_0_IZR; lia).
  destruct (Req_EM_T (IZR period) 0) as [E|_]; [contradiction|]. cbn [of_opt bind] in H.
  right. unfold ret, vnum in H. cbn [nmul nsub F zn nofZ] in H. inversion H; subst v st'. clear H.
  eexists _, _. split; [reflexivity|].
  assert (P0 : 0 < IZR period) by (apply IZR_lt; lia).
  assert (B1 : 0 <= IZR dh <= IZR period) by (split; apply IZR_le; lia).
  assert (B2 : 0 <= IZR dl <= IZR period) by (split; apply IZR_le; lia).
  assert (Q : forall x, 0 <= x <= IZR period -> 0 <= (IZR period - x) / IZR period * IZR 100 <= 100).
  { intros x Hx. replace (IZR 100) with 100 by reflexivity. split.
    - apply Rmult_le_pos; [|lra]. apply Rmult_le_pos; [lra|]. apply Rlt_le, Rinv_0_lt_compat; exact P0.
    - assert ((IZR period - x) / IZR period <= 1); [|lra].
      apply (Rmult_le_reg_r (IZR period)); [exact P0|]. unfold Rdiv. rewrite Rmult_assoc, Rinv_l by exact Pp. lra. }
  split; apply Q; assumption.
Qed.

(* Donchian: middle = mean of the bounds, hence between them *)
Theorem donchian_structure rec (period : Z) (st st' : store F) i v :
  i_kind F I = K_DONCHIAN period -> calc_reading F rec I st i = Ok (v, st') ->
  v = VDict [("DCL", VNone); ("DCM", VNone); ("DCU", VNone)] \/
  exists (l u : val F) (ln un : R), v = VDict [("DCL", l); ("DCM", @VNum F ((un + ln) / 2)); ("DCU", u)] /\
    as_num F l = Ok ln /\ as_num F u = Ok un /\ (ln <= un -> ln <= (un + ln) / 2 <= un).
Proof.
  intros K H. unfold calc_reading in H. rewrite K in H.
  destruct (prev_reading F st (nm ++ ".DCU") i) as [pd|]; cbn [bind] in H; [|discriminate].
  destruct (if negb (is_none F pd) then Ok true else rperiod F st period "high" i) as [[|]|]; cbn [bind] in H;
    try discriminate; [|left; unfold ret in H; congruence].
  destruct (mv_highest F st "high" (period - 1) i) as [u|]; cbn [bind] in H; [|discriminate].
  destruct (mv_lowest F st "low" (period - 1) i) as [l|]; cbn [bind] in H; [|discriminate].
  destruct (as_num F u) as [un|] eqn:EU; cbn [bind] in H; [|discriminate].
  destruct (as_num F l) as [ln|] eqn:EL; cbn [bind] in H; [|discriminate].
  unfold divn in H. cbn [ndiv F zn nofZ nadd] in H.
  destruct (Req_EM_T (IZR 2) 0) as [E|_]; [exfalso; apply (not_0_IZR 2); [lia|exact E]|]. cbn [of_opt bind] in H.
  right. unfold ret, vnum in H. inversion H; subst v st'. exists l, u, ln, un. replace (IZR 2) with 2 by reflexivity.
  split; [reflexivity|]. split; [exact EL|]. split; [exact EU|]. intros Hle. lra.
Qed.

(* Keltner channel: lower <= band <= upper when multiplier and ATR are non-negative *)
Theorem kc_structure rec (period : Z) (mult : R) (input : string) (st st' : store F) i v :
  i_kind F I = @K_KC F period mult input -> calc_reading F rec I st i = Ok (v, st') ->
  v = VDict [("lower", VNone); ("band", VNone); ("upper", VNone)] \/
  exists (e a : val F) (en an : R),
    v = VDict [("lower", @VNum F (en - mult * an)); ("band", e); ("upper", @VNum F (en + mult * an))] /\
    reading F st (nm ++ "_EMA") i = Ok e /\ reading F st (nm ++ "_ATR") i = Ok a /\
    as_num F e = Ok en /\ as_num F a = Ok an /\
    (0 <= mult -> 0 <= an -> en - mult * an <= en <= en + mult * an).
Proof.
  intros K H. unfold calc_reading in H. rewrite K in H.
  destruct (reading F st (nm ++ "_EMA") i) as [e|]; cbn [bind] in H; [|discriminate].
  destruct (reading F st (nm ++ "_ATR") i) as [a|]; cbn [bind] in H; [|discriminate].
  destruct (is_none F e || is_none F a); [left; unfold ret in H; congruence|].
  destruct (as_num F e) as [en|] eqn:EE; cbn [bind] in H; [|discriminate].
  destruct (as_num F a) as [an|] eqn:EN; cbn [bind] in H; [|discriminate].
  right. unfold ret, vnum in H. inversion H; subst v st'. exists e, a, en, an.
  repeat (split; [first [reflexivity|assumption]|]). intros Hm Ha. assert (0 <= mult * an) by (apply Rmult_le_pos; assumption). lra.
Qed.

(* Bollinger bands: lower <= middle <= upper when the deviation is non-negative *)
Theorem bbands_structure rec (period : Z) (input : string) (st st' : store F) i v :
  i_kind F I = K_BBANDS period input -> calc_reading F rec I st i = Ok (v, st') ->
  v = VDict [("BBL", VNone); ("BBM", VNone); ("BBU", VNone)] \/
  exists (sma sd : val F) (s d : R),
    v = VDict [("BBL", @VNum F (s - d * (20 / 10))); ("BBM", sma); ("BBU", @VNum F (s + d * (20 / 10)))] /\
    reading F st (nm ++ "_SMA") i = Ok sma /\ reading F st (nm ++ "_STDEV") i = Ok sd /\
    as_num F sma = Ok s /\ as_num F sd = Ok d /\
    (0 <= d -> s - d * (20 / 10) <= s <= s + d * (20 / 10)).
Proof.
  intros K H. unfold calc_reading in H. rewrite K in H.
  destruct (reading F st (nm ++ "_SMA") i) as [sma|]; cbn [bind] in H; [|discriminate].
  destruct (reading F st (nm ++ "_STDEV") i) as [sd|]; cbn [bind] in H; [|discriminate].
  destruct (negb (is_none F sma) && negb (is_none F sd)); [|left; unfold ret in H; congruence].
  destruct (as_num F sma) as [s|] eqn:ES; cbn [bind] in H; [|discriminate].
  destruct (as_num F sd) as [d|] eqn:ED; cbn [bind] in H; [|discriminate].
  right. unfold ret, vnum in H. cbn [nmul nsub nadd fl ndec F] in H.
  replace (IZR 20 / powerRZ 10 1) with (20 / 10) in H by (unfold powerRZ; simpl; lra).
  inversion H; subst v st'. exists sma, sd, s, d.
  repeat (split; [first [reflexivity|assumption]|]). intros Hd. lra.
Qed.

(* MACD: histogram = MACD - signal, exactly (before the three fields are rounded) *)
Theorem macd_structure rec (fast slow signal : Z) (input : string) (st st' : store F) i v :
  i_kind F I = K_MACD fast slow signal input -> calc_reading F rec I st i = Ok (v, st') ->
  v = VDict [("MACD", VNone); ("signal", VNone); ("histogram", VNone)] \/
  exists (m : R) (sg : val F),
    (v = VDict [("MACD", @VNum F m); ("signal", sg); ("histogram", VNone)] /\ sg = VNone) \/
    (exists s : R, as_num F sg = Ok s /\ v = VDict [("MACD", @VNum F m); ("signal", sg); ("histogram", @VNum F (m - s))]).
Proof.
  intros K H. unfold calc_reading in H. rewrite K in H.
  destruct (reading F st (nm ++ "_EMA_slow") i) as [sl|]; cbn [bind] in H; [|discriminate].
  destruct (negb (is_none F sl)); [|left; unfold ret in H; congruence].
  destruct (as_num F sl) as [sn|]; cbn [bind] in H; [|discriminate].
  destruct (rnum F st (nm ++ "_EMA_fast") i) as [fn|]; cbn [bind] in H; [|discriminate].
  destruct (set_ind_direct F st nm _ i) as [st1|]; cbn [bind] in H; [|discriminate].
  destruct (managed_calc_index F rec I "signal" i st1) as [st2|]; cbn [bind] in H; [|discriminate].
  destruct (reading F st2 (nm ++ "_signal_line") i) as [sg|]; cbn [bind] in H; [|discriminate].
  right. exists (fn - sn), sg. destruct (is_none F sg) eqn:Esg.
  - left. cbn [bind] in H. unfold ret, vnum in H. inversion H; subst. destruct sg; try discriminate. split; reflexivity.
  - right. destruct (as_num F sg) as [s|] eqn:Es; cbn [bind] in H; [|discriminate].
    exists s. split; [reflexivity|]. unfold ret, vnum in H. inversion H; subst. reflexivity.
Qed.

(* Supertrend: the direction is +1, -1 or the previous candle's stored direction; with
   direction +1 the trend is the lower band and it is the long side (short is None), with
   direction -1 the trend is the upper band and it is the short side (long is None) *)
Definition is_pm1 (d : val F) : Prop := d = @VNum F (IZR 1) \/ d = @VNum F (IZR (-1)).
Theorem supertrend_structure rec (period : Z) (mult : R) (st st' : store F) i v :
  i_kind F I = @K_SUPERTREND F period mult -> calc_reading F rec I st i = Ok (v, st') ->
  v = VDict [("trend", VNone); ("direction", @VNum F (IZR 1)); ("long", VNone); ("short", VNone)] \/
  exists (dv : val F) (upper lower : R),
    (is_pm1 dv \/ prev_reading F st (nm ++ ".direction") i = Ok dv) /\
    (dv = @VNum F (IZR 1) ->
       v = VDict [("trend", @VNum F lower); ("direction", dv); ("long", @VNum F lower); ("short", VNone)]) /\
    (dv = @VNum F (IZR (-1)) ->
       v = VDict [("trend", @VNum F upper); ("direction", dv); ("long", VNone); ("short", @VNum F upper)]).
Proof.
  intros K H. unfold calc_reading in H. rewrite K in H.
  destruct (reading F st (nm ++ "_atr") i) as [a|]; cbn [bind] in H; [|discriminate].
  destruct (negb (is_none F a)); [|left; unfold ret in H; cbn [zn nofZ F] in H; congruence].
  destruct (as_num F a) as [an|]; cbn [bind] in H; [|discriminate].
  destruct (rnum F st (nm ++ "_HL") i) as [hl|]; cbn [bind] in H; [|discriminate].
  destruct (prev_reading F st (nm ++ "_data.lower") i) as [pl|]; cbn [bind] in H; [|discriminate].
  match type of H with bind ?e _ = _ => destruct e as [[[dv upper] lower]|] eqn:ED end; cbn [bind] in H; [|discriminate].
  destruct (managed_set F rec I "ST_data" _ i st) as [st1|]; cbn [bind] in H; [|discriminate].
  unfold ret, vnum in H. inversion H; subst v st'. clear H.
  right. exists dv, upper, lower.
  assert (E1 : py_eq F (@VNum F (IZR 1)) (@VNum F (IZR 1)) = true).
  { cbn. unfold Reqb. destruct (Req_EM_T (IZR 1) (IZR 1)); [reflexivity|contradiction]. }
  assert (E2 : py_eq F (@VNum F (IZR (-1))) (@VNum F (IZR 1)) = false).
  { cbn. unfold Reqb. destruct (Req_EM_T (IZR (-1)) (IZR 1)) as [E|]; [apply eq_IZR in E; discriminate|reflexivity]. }
  assert (E3 : py_eq F (@VNum F (IZR (-1))) (@VNum F (IZR (-1))) = true).
  { cbn. unfold Reqb. destruct (Req_EM_T (IZR (-1)) (IZR (-1))); [reflexivity|contradiction]. }
  assert (E4 : py_eq F (@VNum F (IZR 1)) (@VNum F (IZR (-1))) = false).
  { cbn. unfold Reqb. destruct (Req_EM_T (IZR 1) (IZR (-1))) as [E|]; [apply eq_IZR in E; discriminate|reflexivity]. }
  split; [|split].
  - destruct (negb (is_none F pl)); [|inversion ED; left; left; reflexivity].
    destruct (rnum F st "close" i) as [cl|]; cbn [bind] in ED; [|discriminate].
    destruct (prev_reading F st (nm ++ "_data.upper") i) as [pu|]; cbn [bind] in ED; [|discriminate].
    destruct (as_num F pu) as [pun|]; cbn [bind] in ED; [|discriminate].
    destruct (nltb F pun cl); [inversion ED; left; left; reflexivity|].
    destruct (as_num F pl) as [pln|]; cbn [bind] in ED; [|discriminate].
    destruct (nltb F cl pln); [inversion ED; left; right; reflexivity|].
    destruct (prev_reading F st (nm ++ ".direction") i) as [dir|]; cbn [bind] in ED; [|discriminate].
    match type of ED with bind ?e _ = _ => destruct e end; cbn [bind] in ED; [|discriminate].
    match type of ED with bind ?e _ = _ => destruct e end; cbn [bind] in ED; [|discriminate].
    inversion ED; subst. right. reflexivity.
  - intros ->. cbn [zn nofZ F]. rewrite E1, E4. reflexivity.
  - intros ->. cbn [zn nofZ F]. rewrite E2, E3. reflexivity.
Qed.
End StructR.
