(* A toy integer instance of NumOps, used only for concrete examples and refutation
   witnesses inside theorem files (everything computes by reflexivity). *)
From Coq Require Import ZArith List.
From Hexital Require Import Base.Num.
Local Open Scope Z_scope.

Definition ZOps : NumOps := {|
  num := Z; nadd := Z.add; nsub := Z.sub; nmul := Z.mul;
  ndiv := fun a b => if b =? 0 then None else Some (Z.div a b);
  nltb := Z.ltb; nleb := Z.leb; neqb := Z.eqb; nofZ := fun z => z; ndec := fun m k => Z.div m (10 ^ k);
  nround := fun _ x => x; nsum := fun l => fold_left Z.add l 0;
  nsqrt := fun x => if x <? 0 then None else Some (Z.sqrt x);
  nabs := Z.abs; nfloat := fun x => x; npow := fun x k => Z.pow x k; nfinite := fun _ => true |}.
