(* The executable instance: CPython's int/float tower over primitive binary64. *)
From Coq Require Import ZArith List Bool PrimFloat.
From Hexital Require Import Base.Num Base.PyFloat.
Import ListNotations.

Section FloatInst.
(* x ** k is libm pow, which is not correctly rounded: it is an oracle supplied by the
   harness as a table of (base, exponent, result) triples observed on the platform *)
Variable pow_table : list (float * Z * float).

Fixpoint pow_lookup (tb : list (float * Z * float)) (b : float) (k : Z) : option float :=
  match tb with
  | [] => None
  | (b', k', r) :: tb' => if feqb b b' && Z.eqb k k' then Some r else pow_lookup tb' b k
  end.
Definition py_pow (a : pynum) (k : Z) : pynum :=
  match a with
  | PI n => PI (Z.pow n k)
  | PF x => match pow_lookup pow_table x k with Some r => PF r | None => PF nan end
  end.

Definition FOps : NumOps := {|
  num := pynum;
  nadd := py_add; nsub := py_sub; nmul := py_mul; ndiv := py_div;
  nltb := py_ltb; nleb := py_leb; neqb := py_eqb;
  nofZ := PI;
  ndec := fun m k => PF (PrimFloat.div (of_Z_small m) (of_Z_small (10 ^ k)));
  nround := py_roundv;
  nsum := py_sum;
  nsqrt := py_sqrt;
  nabs := py_abs;
  nfloat := py_float;
  npow := py_pow;
  nfinite := py_finite
|}.
End FloatInst.
