(* The ideal instance: real numbers, with round_values as Flocq's round-to-nearest-even
   on the radix-10 fixed-point format with [nd] decimals.  Does not run; the arithmetic
   theorems are proved here.  Binary64 rounding error, overflow and NaN are outside it. *)
From Coq Require Import ZArith List Reals Lra.
From Flocq Require Import Core.
From Hexital Require Import Base.Num.
Import ListNotations.
Local Open Scope R_scope.

Definition radix10 : radix := Build_radix 10 eq_refl.
Definition rnd10 (nd : Z) (x : R) : R := round radix10 (FIX_exp (- nd)) ZnearestE x.

Definition Rltb (x y : R) : bool := if Rlt_dec x y then true else false.
Definition Rleb (x y : R) : bool := if Rle_dec x y then true else false.
Definition Reqb (x y : R) : bool := if Req_EM_T x y then true else false.

Definition ROps : NumOps := {|
  num := R;
  nadd := Rplus; nsub := Rminus; nmul := Rmult;
  ndiv := fun a b => if Req_EM_T b 0 then None else Some (a / b);
  nltb := Rltb; nleb := Rleb; neqb := Reqb;
  nofZ := IZR;
  ndec := fun m k => IZR m / powerRZ 10 k;
  nround := rnd10;
  nsum := fun l => fold_left Rplus l 0;
  nsqrt := fun x => if Rlt_dec x 0 then None else Some (sqrt x);
  nabs := Rabs;
  nfloat := fun x => x;
  npow := fun x k => powerRZ x k;
  nfinite := fun _ => true
|}.

Lemma Rltb_true x y : Rltb x y = true <-> x < y.
Proof. unfold Rltb. destruct (Rlt_dec x y); split; intros; try assumption; try reflexivity; try discriminate; contradiction. Qed.
Lemma Rltb_false x y : Rltb x y = false <-> y <= x.
Proof. unfold Rltb. destruct (Rlt_dec x y); split; intros; try discriminate; try reflexivity; lra. Qed.
Lemma Rleb_true x y : Rleb x y = true <-> x <= y.
Proof. unfold Rleb. destruct (Rle_dec x y); split; intros; try assumption; try reflexivity; try discriminate; contradiction. Qed.

(* the four facts about rounding that the arithmetic proofs use *)
Lemma rnd10_error nd x : Rabs (rnd10 nd x - x) <= / 2 * bpow radix10 (- nd).
Proof.
  unfold rnd10.
  pose proof (error_le_half_ulp radix10 (FIX_exp (- nd)) (fun z => negb (Z.even z)) x) as H.
  rewrite ulp_FIX in H. exact H.
Qed.
Lemma rnd10_mono nd x y : x <= y -> rnd10 nd x <= rnd10 nd y.
Proof. intros H. unfold rnd10. apply round_le; [apply FIX_exp_valid|apply valid_rnd_N|exact H]. Qed.
Lemma rnd10_grid nd x : generic_format radix10 (FIX_exp (- nd)) x -> rnd10 nd x = x.
Proof. intros H. unfold rnd10. apply round_generic; [apply valid_rnd_N|exact H]. Qed.
Lemma rnd10_format nd x : generic_format radix10 (FIX_exp (- nd)) (rnd10 nd x).
Proof. unfold rnd10. apply generic_format_round; [apply FIX_exp_valid|apply valid_rnd_N]. Qed.
Lemma rnd10_idem nd x : rnd10 nd (rnd10 nd x) = rnd10 nd x.
Proof. apply rnd10_grid, rnd10_format. Qed.
Lemma rnd10_0 nd : rnd10 nd 0 = 0.
Proof. unfold rnd10. apply round_0. apply valid_rnd_N. Qed.
Lemma rnd10_opp nd x : rnd10 nd (- x) = - rnd10 nd x.
Proof. unfold rnd10. apply round_NE_opp. Qed.
