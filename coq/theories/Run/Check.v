(* Boolean comparators and runners used by the generated case files of the
   correspondence check.  Everything here is executed with vm_compute. *)
From Coq Require Import ZArith List String Bool PrimFloat.
From Hexital Require Import Base.Prelude Base.Num Base.PyFloat Model.Manager Model.Candle Inst.FloatInst.
Import ListNotations.
Local Open Scope Z_scope.

Notation F := (FOps []).

Definition mk_ohlcv (o h l c v : pynum) : ohlcv F :=
  Build_ohlcv F o h l c v.
Definition mkc (ts : Z) (o h l c v : pynum) : cd (payload F) :=
  {| t := ts; p := raw_payload F (mk_ohlcv o h l c v) |}.

Definition ohlcv_eqb (a b : ohlcv F) : bool :=
  pynum_eqb (c_open F a) (c_open F b) && pynum_eqb (c_high F a) (c_high F b) &&
  pynum_eqb (c_low F a) (c_low F b) && pynum_eqb (c_close F a) (c_close F b) &&
  pynum_eqb (c_vol F a) (c_vol F b).

Definition opt_eqb {A} (f : A -> A -> bool) (a b : option A) : bool :=
  match a, b with Some x, Some y => f x y | None, None => true | _, _ => false end.

Fixpoint list_eqb {A B} (f : A -> B -> bool) (a : list A) (b : list B) : bool :=
  match a, b with
  | [], [] => true
  | x :: a', y :: b' => f x y && list_eqb f a' b'
  | _, _ => false
  end.

(* expected candle as observed on the implementation: ts, current values, clean values, tagged *)
Definition exp_cd : Type := Z * ohlcv F * option (ohlcv F) * bool.
Definition cd_matches (c : cd (payload F)) (e : exp_cd) : bool :=
  let '(ts, x, cl, tg) := e in
  (t c =? ts) && ohlcv_eqb (cur F (p c)) x && opt_eqb ohlcv_eqb (clean F (p c)) cl &&
  Bool.eqb (tagged F (p c)) tg.

Inductive mop := MAppend (l : list (cd (payload F))) | MCollapse | MTasks.
Definition mgr_step (cfg : mcfg) (st : list (cd (payload F))) (op : mop) : res (list (cd (payload F))) :=
  match op with
  | MAppend l => mgr_append F cfg st l
  | MCollapse => collapse_candles (payload F) (merge F) (fillp F) (tf cfg) (fillon cfg) st
  | MTasks => tasks F cfg st
  end.

(* states after construction and after every operation, up to the first exception *)
Fixpoint mgr_trace (cfg : mcfg) (st : list (cd (payload F))) (ops : list mop)
  : list (list (cd (payload F))) * option exn :=
  match ops with
  | [] => ([st], None)
  | op :: ops' =>
    match mgr_step cfg st op with
    | Ok st' => let '(tr, e) := mgr_trace cfg st' ops' in (st :: tr, e)
    | Err e => ([st], Some e)
    end
  end.

(* expected states: None = this step is not compared (keeps the literals small) *)
Definition mgr_case : Type :=
  mcfg * list (cd (payload F)) * list mop * list (option (list exp_cd)) * option Z.
Definition state_matches (st : list (cd (payload F))) (e : option (list exp_cd)) : bool :=
  match e with None => true | Some l => list_eqb cd_matches st l end.

Definition check_mgr (c : mgr_case) : bool :=
  let '(cfg, init, ops, exp_states, exp_err) := c in
  match tasks F cfg init with
  | Err e => match exp_states, exp_err with [], Some code => exn_code e =? code | _, _ => false end
  | Ok st0 =>
    let '(tr, e) := mgr_trace cfg st0 ops in
    list_eqb state_matches tr exp_states &&
    opt_eqb Z.eqb (option_map exn_code e) exp_err
  end.
