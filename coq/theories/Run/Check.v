(* Boolean comparators and runners used by the generated case files of the
   correspondence check.  Everything here is executed with vm_compute. *)
From Coq Require Import ZArith List String Bool PrimFloat.
From Hexital Require Import Base.Prelude Base.Num Base.PyFloat Model.Manager Model.Candle Model.Readings
  Model.Analysis Model.Engine Model.Access Model.Hexital Inst.FloatInst Spec.Steppers.
Import ListNotations.
Local Open Scope Z_scope.

Section WithTable.
Variable tbl : list (float * Z * float).     (* the libm pow oracle *)
Notation F := (FOps tbl).

Definition mk_ohlcv (o h l c v : pynum) : ohlcv F :=
  Build_ohlcv F o h l c v.
Definition mkc (ts : Z) (o h l c v : pynum) : cd (payload F) :=
  {| t := ts; p := raw_payload F (mk_ohlcv o h l c v) |}.

Definition ohlcv_eqb (a b : ohlcv F) : bool :=
  pynum_eqb (c_open F a) (c_open F b) && pynum_eqb (c_high F a) (c_high F b) &&
  pynum_eqb (c_low F a) (c_low F b) && pynum_eqb (c_close F a) (c_close F b) &&
  pynum_eqb (c_vol F a) (c_vol F b).

Definition opt_eqb {A} (f : A -> A -> bool) (a b : option A) : bool :=
  match a, b with Some x, Some y => f x y | None, None => true | _, _ => false end.

Fixpoint list_eqb {A B} (f : A -> B -> bool) (a : list A) (b : list B) : bool :=
  match a, b with
  | [], [] => true
  | x :: a', y :: b' => f x y && list_eqb f a' b'
  | _, _ => false
  end.

(* expected candle as observed on the implementation: ts, current values, clean values, tagged *)
Definition exp_cd : Type := Z * ohlcv F * option (ohlcv F) * bool.
Definition cd_matches (c : cd (payload F)) (e : exp_cd) : bool :=
  let '(ts, x, cl, tg) := e in
  (t c =? ts) && ohlcv_eqb (cur F (p c)) x && opt_eqb ohlcv_eqb (clean F (p c)) cl &&
  Bool.eqb (tagged F (p c)) tg.

Inductive mop := MAppend (l : list (cd (payload F))) | MCollapse | MTasks.
Definition mgr_step (cfg : mcfg) (st : list (cd (payload F))) (op : mop) : res (list (cd (payload F))) :=
  match op with
  | MAppend l => mgr_append F cfg st l
  | MCollapse => collapse_candles (payload F) (merge F) (fillp F) (tf cfg) (fillon cfg) st
  | MTasks => tasks F cfg st
  end.

(* states after construction and after every operation, up to the first exception *)
Fixpoint mgr_trace (cfg : mcfg) (st : list (cd (payload F))) (ops : list mop)
  : list (list (cd (payload F))) * option exn :=
  match ops with
  | [] => ([st], None)
  | op :: ops' =>
    match mgr_step cfg st op with
    | Ok st' => let '(tr, e) := mgr_trace cfg st' ops' in (st :: tr, e)
    | Err e => ([st], Some e)
    end
  end.

(* expected states: None = this step is not compared (keeps the literals small) *)
Definition mgr_case : Type :=
  mcfg * list (cd (payload F)) * list mop * list (option (list exp_cd)) * option Z.
Definition state_matches (st : list (cd (payload F))) (e : option (list exp_cd)) : bool :=
  match e with None => true | Some l => list_eqb cd_matches st l end.

Definition check_mgr (c : mgr_case) : bool :=
  let '(cfg, init, ops, exp_states, exp_err) := c in
  match tasks F cfg init with
  | Err e => match exp_states, exp_err with [], Some code => exn_code e =? code | _, _ => false end
  | Ok st0 =>
    let '(tr, e) := mgr_trace cfg st0 ops in
    list_eqb state_matches tr exp_states &&
    opt_eqb Z.eqb (option_map exn_code e) exp_err
  end.

(* ---------------- analysis functions ---------------- *)

(* values compare by type tag and bits; dicts compare as finite maps (key order ignored) *)
Fixpoint val_eqb (a b : val F) : bool :=
  match a, b with
  | VNone, VNone => true
  | VBool x, VBool y => Bool.eqb x y
  | VNum x, VNum y => pynum_eqb x y
  | VDict d1, VDict d2 =>
    Nat.eqb (List.length d1) (List.length d2) &&
    (fix go (l1 : list (string * val F)) : bool :=
       match l1 with
       | [] => true
       | (k1, v1) :: r1 =>
         match alist_get k1 d2 with Some v2 => val_eqb v1 v2 | None => false end && go r1
       end) d1
  | _, _ => false
  end.

Definition alist_eqb (a b : list (string * val F)) : bool := val_eqb (VDict a) (VDict b).

(* candle with readings already on it *)
Definition mkcr (ts : Z) (o h l c v : pynum) (inds subs : list (string * val F)) : cd (payload F) :=
  {| t := ts; p := Build_payload F (mk_ohlcv o h l c v) None false inds subs |}.

(* expected outcome: a value or an exception code *)
Definition res_matches (r : res (val F)) (e : val F + Z) : bool :=
  match r, e with
  | Ok v, inl v' => val_eqb v v'
  | Err x, inr code => exn_code x =? code
  | _, _ => false
  end.

(* one candle list, many (function, index, expected) probes *)
Definition afun_case : Type := list (cd (payload F)) * list (afun * option Z * (val F + Z)).
Definition check_afun (c : afun_case) : bool :=
  let '(cs, probes) := c in
  forallb (fun pr => let '(f, idx, e) := pr in res_matches (run_afun F f cs idx) e) probes.


(* ---------------- indicators: engine + manager ---------------- *)
Inductive iop :=
| IAppend (l : list (cd (payload F)))
| ICalculate | IPurge | IRecalculate
| ICalcIndex (s : Z) (e : option Z).

Definition ind_step (cfg : mcfg) (I : ind F) (st : store F) (op : iop) : res (store F) :=
  match op with
  | IAppend l => st1 <- mgr_append F cfg st l ;; calculate F I st1
  | ICalculate => calculate F I st
  | IPurge => Ok (purge F I st)
  | IRecalculate => calculate F I (purge F I st)
  | ICalcIndex s e => calculate_index F I s e st
  end.

Fixpoint ind_trace (cfg : mcfg) (I : ind F) (st : store F) (ops : list iop) : list (store F) * option exn :=
  match ops with
  | [] => ([st], None)
  | op :: ops' =>
    match ind_step cfg I st op with
    | Ok st' => let '(tr, e) := ind_trace cfg I st' ops' in (st :: tr, e)
    | Err e => ([st], Some e)
    end
  end.

(* observed candle: timestamp and both reading dictionaries *)
Definition exp_rd : Type := Z * list (string * val F) * list (string * val F).
Definition rd_matches (c : cd (payload F)) (e : exp_rd) : bool :=
  let '(ts, i, s) := e in
  (t c =? ts) && alist_eqb (inds F (p c)) i && alist_eqb (subs F (p c)) s.
Definition store_matches (st : store F) (e : option (list exp_rd)) : bool :=
  match e with None => true | Some l => list_eqb rd_matches st l end.

Definition ind_case : Type :=
  mcfg * kind F * string * Z * list (cd (payload F)) * list iop * list (option (list exp_rd)) * option Z.

Definition check_ind (c : ind_case) : bool :=
  let '(cfg, k, name, rnd, init, ops, exp_states, exp_err) := c in
  match tasks F cfg init with
  | Err e => match exp_states, exp_err with [], Some code => exn_code e =? code | _, _ => false end
  | Ok st0 =>
    let '(tr, e) := ind_trace cfg (top F k name rnd) st0 ops in
    list_eqb store_matches tr exp_states && opt_eqb Z.eqb (option_map exn_code e) exp_err
  end.


(* ---------------- Hexital: several members on several managers ---------------- *)
Fixpoint hx_trace (hcfg : mcfg) (h : hexital F) (ops : list (hop F)) : list (hexital F) * option exn :=
  match ops with
  | [] => ([h], None)
  | op :: ops' =>
    match hx_step F hcfg h op with
    | Ok h' => let '(tr, e) := hx_trace hcfg h' ops' in (h :: tr, e)
    | Err e => ([h], Some e)
    end
  end.

(* observed candle of a manager: timestamp, values, both reading dictionaries *)
Definition exp_hc : Type := Z * ohlcv F * list (string * val F) * list (string * val F).
Definition hc_matches (c : cd (payload F)) (e : exp_hc) : bool :=
  let '(ts, x, i, s) := e in
  (t c =? ts) && ohlcv_eqb (cur F (p c)) x && alist_eqb (inds F (p c)) i && alist_eqb (subs F (p c)) s.
(* observed Hexital: its managers in creation order *)
Definition hx_matches (h : hexital F) (e : option (list (string * list exp_hc))) : bool :=
  match e with
  | None => true
  | Some l => list_eqb (fun (kv : string * (mcfg * store F)) (ke : string * list exp_hc) =>
                          String.eqb (fst kv) (fst ke) && list_eqb hc_matches (snd (snd kv)) (snd ke))
                       (h_mgrs F h) l
  end.

Definition hx_member : Type := kind F * string * Z * option (string * Z).
Definition hx_ind (m : hx_member) : ind F * option (string * Z) :=
  let '(k, name, rnd, own) := m in (top F k name rnd, own).
Definition hx_case : Type :=
  mcfg * list (cd (payload F)) * list hx_member * list (hop F) *
  list (option (list (string * list exp_hc))) * option Z.

Definition check_hx (c : hx_case) : bool :=
  let '(hcfg, init, members, ops, exp_states, exp_err) := c in
  match hx_new F hcfg init (map hx_ind members) with
  | Err e => match exp_states, exp_err with [], Some code => exn_code e =? code | _, _ => false end
  | Ok h0 =>
    let '(tr, e) := hx_trace hcfg h0 ops in
    list_eqb hx_matches tr exp_states && opt_eqb Z.eqb (option_map exn_code e) exp_err
  end.
Definition hadd (m : hx_member) : hop F := HAdd F (fst (hx_ind m)) (snd (hx_ind m)).


(* ---------------- read accessors of Indicator and Hexital ---------------- *)
Inductive acc :=
| AAsList (name : string)                 (* Indicator.as_list(name) *)
| AReading (name : string) (i : Z)        (* Indicator.reading(name, index) *)
| AReadCandle (i : Z) (name : string)     (* Indicator.read_candle(candles[i], name) *)
| ACount (name : string)                  (* Indicator.reading_count(name) *)
| AHas (name : string)                    (* Indicator.has_reading (name = the indicator's own) *)
| HReading (name : string) (i : Z)        (* Hexital.reading(name, index) *)
| HPrev (name : string)                   (* Hexital.prev_reading(name) *)
| HHas (name : string).                   (* Hexital.has_reading(name) *)

(* every answer as a list of values: a bool as VBool, a count as an int *)
Definition run_acc (st : store F) (others : list (store F)) (a : acc) : res (list (val F)) :=
  match a with
  | AAsList n => as_list F st n
  | AReading n i => v <- reading F st n i ;; Ok [v]
  | AReadCandle i n => match pyidx st i with Some c => v <- read_candle F c n ;; Ok [v] | None => Err IndexError end
  | ACount n => k <- reading_count F st n ;; Ok [@VNum F (PI k)]
  | AHas n => b <- has_reading F st n ;; Ok [VBool b]
  | HReading n i => v <- hx_reading F st others n i ;; Ok [v]
  | HPrev n => v <- hx_prev_reading F st others n ;; Ok [v]
  | HHas n => b <- hx_has_reading F st others n ;; Ok [VBool b]
  end.

Definition acc_case : Type := store F * list (store F) * list (acc * (list (val F) + Z)).
Definition check_acc (c : acc_case) : bool :=
  let '(st, others, probes) := c in
  forallb (fun pr : acc * (list (val F) + Z) =>
             match run_acc st others (fst pr), snd pr with
             | Ok vs, inl exp => list_eqb val_eqb vs exp
             | Err x, inr code => exn_code x =? code
             | _, _ => false
             end) probes.


(* ---------------- recurrence specifications ---------------- *)
Definition spec_case : Type := kind_s F * Z * list (inp F) * (list (val F) + Z).
Definition check_spec (c : spec_case) : bool :=
  let '(k, nd, cs, e) := c in
  match series F k nd cs, e with
  | Ok vs, inl exp => list_eqb val_eqb vs exp
  | Err x, inr code => exn_code x =? code
  | _, _ => false
  end.
Definition mkinp (o h l c v : pynum) (x : option pynum) : inp F := Build_inp F o h l c v x.

End WithTable.

Arguments mk_ohlcv {tbl}.
Arguments mkc {tbl}.
Arguments mkcr {tbl}.
Arguments MAppend {tbl}.
Arguments MCollapse {tbl}.
Arguments MTasks {tbl}.
Arguments IAppend {tbl}.
Arguments ICalculate {tbl}.
Arguments IPurge {tbl}.
Arguments IRecalculate {tbl}.
Arguments ICalcIndex {tbl}.
Arguments mkinp {tbl}.
Arguments hadd {tbl}.
