(* Model of hexital/core/hexital.py: a dictionary of candle managers (one per timeframe, the
   default one first) and a list of member indicators, each attached to one manager.
   Also the input decoding of CandleManager.append / Candle.from_dict / Candle.from_list. *)
From Coq Require Import ZArith List String Bool.
From Hexital Require Import Base.Prelude Base.Num Model.Manager Model.Candle Model.Readings Model.Engine.
Import ListNotations.
Local Open Scope Z_scope.

Section Hexital.
Context (NO : NumOps).
Notation num := (num NO).
Notation payload := (payload NO).
Notation cd := (cd payload).
Notation store := (store NO).

Record member := { m_ind : ind NO; m_mgr : string }.         (* manager key: "default" or a timeframe *)
Record hexital := {
  h_mgrs : list (string * (mcfg * store));                   (* insertion ordered, "default" first *)
  h_members : list member
}.

Definition get_mgr (h : hexital) (k : string) : res (mcfg * store) := of_opt KeyError (alist_get k (h_mgrs h)).

(* Hexital.calculate(): every member, in registration order, on its manager's candles *)
Definition hx_calculate (h : hexital) : res hexital :=
  foldM (fun h' m =>
           '(cfg, st) <- get_mgr h' (m_mgr m) ;;
           st' <- calculate NO (m_ind m) st ;;
           Ok {| h_mgrs := alist_set (m_mgr m) (cfg, st') (h_mgrs h'); h_members := h_members h' |})
        (h_members h) h.

(* Hexital.append(): every manager receives its own raw copy of the candles, then calculate() *)
Definition hx_append (h : hexital) (new : list cd) : res hexital :=
  mgrs <- mapM (fun kv => let '(k, (cfg, st)) := kv in
                          st' <- mgr_append NO cfg st new ;; Ok (k, (cfg, st'))) (h_mgrs h) ;;
  hx_calculate {| h_mgrs := mgrs; h_members := h_members h |}.

(* a standalone indicator with the same manager configuration *)
Definition alone_append (cfg : mcfg) (I : ind NO) (st : store) (new : list cd) : res store :=
  st' <- mgr_append NO cfg st new ;; calculate NO I st'.

(* ---- input decoding ---- *)
Inductive item := IT_num (x : num) | IT_ts (t : Z).
Inductive raw_candle :=
| RC_candle (c : cd)
| RC_dict (o h l c v : num) (ts : Z)
| RC_list (items : list item).

Definition from_list (items : list item) : res cd :=
  let strip := match items with
               | IT_ts t :: rest => Ok (Some t, rest)
               | _ => match rev items with
                      | IT_ts t :: rrest => Ok (Some t, rev rrest)
                      | _ => Ok (None, items)
                      end
               end in
  '(ts, body) <- strip ;;
  match ts, body with
  | Some t, [IT_num o; IT_num h; IT_num l; IT_num c; IT_num v] =>
    Ok {| t := t; p := raw_payload NO (Build_ohlcv NO o h l c v) |}
  | Some _, _ => Err IndexError
  | None, _ => Err OutOfModel       (* candles without a timestamp are outside the model *)
  end.

Definition decode (r : raw_candle) : res cd :=
  match r with
  | RC_candle c => Ok c
  | RC_dict o h l c v ts => Ok {| t := ts; p := raw_payload NO (Build_ohlcv NO o h l c v) |}
  | RC_list items => from_list items
  end.

End Hexital.
