(* Model of hexital/core/hexital.py: a dictionary of candle managers (one per timeframe, the
   default one first) and a list of member indicators, each attached to one manager.
   Also the input decoding of CandleManager.append / Candle.from_dict / Candle.from_list. *)
From Coq Require Import ZArith List String Bool.
From Hexital Require Import Base.Prelude Base.Num Model.Manager Model.Candle Model.Readings Model.Engine.
Import ListNotations.
Local Open Scope string_scope.
Local Open Scope Z_scope.

Section Hexital.
Context (NO : NumOps).
Notation num := (num NO).
Notation payload := (payload NO).
Notation cd := (cd payload).
Notation store := (store NO).

Record member := { m_ind : ind NO; m_mgr : string }.         (* manager key: "default" or a timeframe *)
Record hexital := {
  h_mgrs : list (string * (mcfg * store));                   (* insertion ordered, "default" first *)
  h_members : list member
}.

Definition get_mgr (h : hexital) (k : string) : res (mcfg * store) := of_opt KeyError (alist_get k (h_mgrs h)).

(* the members an optional name selects (Hexital.calculate(name), purge(name), ...) *)
Definition sel (name : option string) (m : member) : bool :=
  match name with None => true | Some n => String.eqb n (i_name NO (m_ind m)) end.

(* run [f] on the candles of every selected member, in registration order *)
Definition hx_on_members (f : ind NO -> store -> res store) (name : option string) (h : hexital) : res hexital :=
  foldM (fun h' m =>
           if sel name m then
             '(cfg, st) <- get_mgr h' (m_mgr m) ;;
             st' <- f (m_ind m) st ;;
             Ok {| h_mgrs := alist_set (m_mgr m) (cfg, st') (h_mgrs h'); h_members := h_members h' |}
           else Ok h')
        (h_members h) h.

(* Hexital.calculate(): every member, in registration order, on its manager's candles *)
Definition hx_calculate (h : hexital) : res hexital := hx_on_members (calculate NO) None h.

(* Hexital.append(): every manager receives its own raw copy of the candles, then calculate() *)
Definition hx_append (h : hexital) (new : list cd) : res hexital :=
  mgrs <- mapM (fun kv => let '(k, (cfg, st)) := kv in
                          st' <- mgr_append NO cfg st new ;; Ok (k, (cfg, st'))) (h_mgrs h) ;;
  hx_calculate {| h_mgrs := mgrs; h_members := h_members h |}.

(* Candle.clean_copy: the raw values, no readings, no conversion *)
Definition clean_copy (c : cd) : cd := {| t := t c; p := raw_payload NO (recovered NO (p c)) |}.

(* Hexital._validate_indicators for one indicator: a member without a timeframe joins the
   default manager; one with a timeframe joins that timeframe's manager, created if absent
   from clean copies of the default manager's *current* candles (already collapsed, filled,
   trimmed - known findings K2/K3) with the Hexital's other settings *)
Definition hx_attach (hcfg : mcfg) (h : hexital) (J : ind NO) (own : option (string * Z)) : res hexital :=
  match own with
  | None => Ok {| h_mgrs := h_mgrs h; h_members := h_members h ++ [{| m_ind := J; m_mgr := "default" |}] |}
  | Some (key, tfs) =>
    match alist_get key (h_mgrs h) with
    | Some _ => Ok {| h_mgrs := h_mgrs h; h_members := h_members h ++ [{| m_ind := J; m_mgr := key |}] |}
    | None =>
      '(_, dst) <- get_mgr h "default" ;;
      let cfg' := {| tf := Some tfs; fillon := fillon hcfg; ha := ha hcfg; lifespan := lifespan hcfg |} in
      st <- tasks NO cfg' (map clean_copy dst) ;;
      Ok {| h_mgrs := (h_mgrs h ++ [(key, (cfg', st))])%list;
            h_members := h_members h ++ [{| m_ind := J; m_mgr := key |}] |}
    end
  end.

(* Hexital(...): the default manager over the given candles, then every indicator attached *)
Definition hx_new (hcfg : mcfg) (init : list cd) (members : list (ind NO * option (string * Z))) : res hexital :=
  st0 <- tasks NO hcfg init ;;
  foldM (fun h m => hx_attach hcfg h (fst m) (snd m)) members
        {| h_mgrs := [("default", (hcfg, st0))]; h_members := [] |}.

(* the public operations *)
Inductive hop :=
| HAppend (new : list cd)
| HCalculate (name : option string)
| HPurge (name : option string)
| HRecalculate (name : option string)
| HCalcIndex (name : option string) (index : Z)
| HRemove (name : string)
| HAdd (J : ind NO) (own : option (string * Z)).

Definition hx_purge (name : option string) (h : hexital) : res hexital :=
  hx_on_members (fun J st => Ok (purge NO J st)) name h.

Definition hx_step (hcfg : mcfg) (h : hexital) (op : hop) : res hexital :=
  match op with
  | HAppend new => hx_append h new
  | HCalculate name => hx_on_members (calculate NO) name h
  | HPurge name => hx_purge name h
  | HRecalculate name => h1 <- hx_purge name h ;; hx_on_members (calculate NO) name h1
  | HCalcIndex name index => hx_on_members (fun J st => calculate_index NO J index None st) name h
  | HRemove name =>
    h1 <- hx_purge (Some name) h ;;
    Ok {| h_mgrs := h_mgrs h1;
          h_members := filter (fun m => negb (String.eqb name (i_name NO (m_ind m)))) (h_members h1) |}
  | HAdd J own => hx_attach hcfg h J own
  end.

(* a standalone indicator with the same manager configuration *)
Definition alone_append (cfg : mcfg) (I : ind NO) (st : store) (new : list cd) : res store :=
  st' <- mgr_append NO cfg st new ;; calculate NO I st'.

(* ---- input decoding ---- *)
Inductive item := IT_num (x : num) | IT_ts (t : Z).
Inductive raw_candle :=
| RC_candle (c : cd)
| RC_dict (o h l c v : num) (ts : Z)
| RC_list (items : list item).

Definition from_list (items : list item) : res cd :=
  let strip := match items with
               | IT_ts t :: rest => Ok (Some t, rest)
               | _ => match rev items with
                      | IT_ts t :: rrest => Ok (Some t, rev rrest)
                      | _ => Ok (None, items)
                      end
               end in
  '(ts, body) <- strip ;;
  match ts, body with
  | Some t, [IT_num o; IT_num h; IT_num l; IT_num c; IT_num v] =>
    Ok {| t := t; p := raw_payload NO (Build_ohlcv NO o h l c v) |}
  | Some _, _ => Err IndexError
  | None, _ => Err OutOfModel       (* candles without a timestamp are outside the model *)
  end.

Definition decode (r : raw_candle) : res cd :=
  match r with
  | RC_candle c => Ok c
  | RC_dict o h l c v ts => Ok {| t := ts; p := raw_payload NO (Build_ohlcv NO o h l c v) |}
  | RC_list items => from_list items
  end.

End Hexital.
