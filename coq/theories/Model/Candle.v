(* Model of hexital/core/candle.py (the data a candle carries besides its timestamp),
   hexital/candlesticks/heikinashi.py and hexital/core/candlestick_type.py. *)
From Coq Require Import ZArith List String Bool.
From Hexital Require Import Base.Prelude Base.Num Model.Manager.
Import ListNotations.
Local Open Scope Z_scope.

Section Candle.
Context (O : NumOps).
Notation num := (num O).

(* a reading: None, bool, number, or a dict of those *)
Inductive val := VNone | VBool (b : bool) | VNum (x : num) | VDict (d : list (string * val)).

Record ohlcv := { c_open : num; c_high : num; c_low : num; c_close : num; c_vol : num }.

Record payload := {
  cur : ohlcv;                       (* the values indicators see *)
  clean : option ohlcv;              (* clean_values: raw values saved by a conversion *)
  tagged : bool;                     (* candle.tag == "Heikin-Ashi" (the one shipped type) *)
  inds : list (string * val);        (* candle.indicators *)
  subs : list (string * val)         (* candle.sub_indicators *)
}.

Definition raw_payload (x : ohlcv) : payload :=
  {| cur := x; clean := None; tagged := false; inds := []; subs := [] |}.

(* recover_clean_values *)
Definition recovered (q : payload) : ohlcv :=
  match clean q with Some x => x | None => cur q end.

(* Candle.merge(self, candle): recover, fold the other candle in, drop clean values,
   reset readings and tag *)
Definition merge (a b : payload) : payload :=
  let x := recovered a in
  let y := cur b in
  raw_payload {| c_open := c_open x;
                 c_high := nmax O (c_high x) (c_high y);
                 c_low := nmin O (c_low x) (c_low y);
                 c_close := c_close y;
                 c_vol := nadd O (c_vol x) (c_vol y) |}.

(* fill_missing_candles: flat zero-volume candle at the previous candle's raw close *)
Definition fillp (prev : payload) : payload :=
  let cl := c_close (recovered prev) in
  raw_payload {| c_open := cl; c_high := cl; c_low := cl; c_close := cl; c_vol := nofZ O 0 |}.

(* the pre-fix behaviour (finding F5): the fill candle copied the *converted* close *)
Definition fillp_converted (prev : payload) : payload :=
  let cl := c_close (cur prev) in
  raw_payload {| c_open := cl; c_high := cl; c_low := cl; c_close := cl; c_vol := nofZ O 0 |}.

(* ---- Heikin-Ashi ---- *)
Definition div_by (a : num) (k : Z) : num :=
  match ndiv O a (nofZ O k) with Some x => x | None => a end.   (* k is the literal 2 or 4 *)

(* HeikinAshi.convert_candle on values; [prev] = already converted previous candle *)
Definition ha_values (prev : option ohlcv) (x : ohlcv) : ohlcv :=
  let new_close := div_by (nadd O (nadd O (nadd O (c_open x) (c_high x)) (c_low x)) (c_close x)) 4 in
  let new_open := match prev with
                  | None => div_by (nadd O (c_open x) (c_close x)) 2
                  | Some q => div_by (nadd O (c_open q) (c_close q)) 2
                  end in
  {| c_open := new_open;
     c_high := nmax3 O new_open (c_high x) new_close;
     c_low := nmin3 O new_open (c_low x) new_close;
     c_close := new_close;
     c_vol := c_vol x |}.

(* one step of CandlestickType.conversion: save clean, convert, reset, tag.  The tag
   setter raises CandleAlreadyTagged on an already tagged candle, but reset_candle has
   just cleared the tag, so it cannot fire. *)
Definition convert_one (prev : option payload) (q : payload) : payload :=
  {| cur := ha_values (option_map cur prev) (cur q);
     clean := Some (cur q);
     tagged := true; inds := []; subs := [] |}.

Notation cd := (cd payload).

(* _find_conv_index *)
Fixpoint last_tagged (l : list cd) (i : nat) : option nat :=
  match l with
  | [] => None
  | c :: l' => match last_tagged l' (S i) with
               | Some j => Some j
               | None => if tagged (p c) then Some i else None
               end
  end.
Definition find_conv_index (l : list cd) : nat :=
  match l with
  | [] => 0%nat
  | c0 :: _ => if negb (tagged (p c0)) then 0%nat
               else match last_tagged l 0%nat with Some j => S j | None => 0%nat end
  end.
(* the pre-fix scan (finding F4) excluded index 0 and fell back to len *)
Definition find_conv_index_old (l : list cd) : nat :=
  match l with
  | [] => 0%nat
  | c0 :: l' => if negb (tagged (p c0)) then 0%nat
                else match last_tagged l' 1 with Some j => S j | None => List.length l end
  end.

(* conversion loop from index i: [done] reversed prefix *)
Fixpoint convert_from (done : list cd) (todo : list cd) : list cd :=
  match todo with
  | [] => rev done
  | c :: todo' =>
    let prev := match done with [] => None | d :: _ => Some (p d) end in
    convert_from ({| t := t c; p := convert_one prev (p c) |} :: done) todo'
  end.
Definition convert (l : list cd) : list cd :=
  let i := find_conv_index l in
  convert_from (rev (firstn i l)) (skipn i l).

(* ---- the manager's _tasks pipeline on concrete candles ---- *)
Record mcfg := { tf : option Z; fillon : bool; ha : bool; lifespan : option Z }.

Definition tasks (cfg : mcfg) (l : list cd) : res (list cd) :=
  l1 <- collapse_candles payload merge fillp (tf cfg) (fillon cfg) l ;;
  let l2 := if ha cfg then convert l1 else l1 in
  Ok (trim payload (lifespan cfg) l2).

Definition mgr_append (cfg : mcfg) (st new : list cd) : res (list cd) :=
  match new with [] => Ok st | _ => tasks cfg (st ++ new) end.

Definition mgr_run (cfg : mcfg) (init : list cd) (chunks : list (list cd)) : res (list cd) :=
  st0 <- tasks cfg init ;;
  foldM (mgr_append cfg) chunks st0.

End Candle.

Arguments VNone {O}.
Arguments VBool {O} _.
Arguments VNum {O} _.
Arguments VDict {O} _.
