(* Model of hexital/core/candle_manager.py (collapse_candles, fill_missing_candles,
   trim_candles) and hexital/utils/timeframe.py on the naive wall-clock axis.
   Timestamps are integer seconds since 1970-01-01 00:00:00 of the *naive* datetime
   (sub-second parts and missing timestamps are outside the model).
   The payload of a candle (OHLCV, clean values, tag, readings) is abstract here:
   [merge] is Candle.merge, [fillp] builds the payload of a fill candle from the candle
   before it.  Definitions only; proofs live in Proofs/. *)
From Coq Require Import ZArith List Bool.
From Hexital Require Import Base.Prelude.
Import ListNotations.
Local Open Scope Z_scope.

Section Manager.
Variable P : Type.
Variable merge : P -> P -> P.
Variable fillp : P -> P.

Record cd := { t : Z; p : P }.

(* utils/timeframe.py (naive axis): round_down_timestamp, on_timeframe *)
Definition rdown (ts tf : Z) : Z := ts / tf * tf.
Definition on_tf (ts tf : Z) : bool := ts mod tf =? 0.

(* the while-loop of collapse_candles; [acc] is candles_ reversed, so its head is
   prev_candle = candles_[-1] *)
Fixpoint collapse_loop (tf start end_ : Z) (acc : list cd) (l : list cd) : res (list cd) :=
  match l with
  | [] => Ok (rev acc)
  | c :: l' =>
    match acc with
    | [] => Err OutOfModel
    | prev :: acc' =>
      let nxt := end_ + tf in
      if (start <? t c) && (t c <=? end_) && (t prev =? end_) then
        collapse_loop tf start end_ ({| t := t prev; p := merge (p prev) (p c) |} :: acc') l'
      else if (start <? t c) && (t c <=? end_) then
        collapse_loop tf start end_ ({| t := end_; p := p c |} :: acc) l'
      else if (start - tf <? t c) && (t c <=? start) && (t prev =? start) then
        collapse_loop tf start end_ ({| t := t prev; p := merge (p prev) (p c) |} :: acc') l'
      else if (end_ <? t c) && (t c <=? nxt) then
        collapse_loop tf (start + tf) (end_ + tf) ({| t := nxt; p := p c |} :: acc) l'
      else if (start <? t c) && on_tf (t c) tf then
        let s := rdown (t c) tf in
        collapse_loop tf s (s + tf) ({| t := s; p := p c |} :: acc) l'
      else if (nxt <? t c) then
        let s := rdown (t c) tf in
        collapse_loop tf s (s + tf) ({| t := s + tf; p := p c |} :: acc) l'
      else Err InvalidCandleOrder
    end
  end.

Definition collapse (tf : Z) (l : list cd) : res (list cd) :=
  match l with
  | [] => Ok []
  | c0 :: l' =>
    let s := rdown (t c0) tf in
    let c0' := if on_tf (t c0) tf then c0 else {| t := s + tf; p := p c0 |} in
    collapse_loop tf s (s + tf) [c0'] l'
  end.

(* fill_missing_candles.  The Python loop inserts one candle per iteration in front of
   candles[index] until candles[index].timestamp == prev.timestamp + tf; it terminates
   for a pair (prev, cur) exactly when cur.t = prev.t + k*tf with k >= 1, and otherwise
   inserts for ever (modelled as Err Diverges). *)
Fixpoint fill_run (n : nat) (tf : Z) (prev : cd) : list cd :=
  match n with
  | O => []
  | S n' => let f := {| t := t prev + tf; p := fillp (p prev) |} in f :: fill_run n' tf f
  end.

Fixpoint fill_from (tf : Z) (prev : cd) (l : list cd) : res (list cd) :=
  match l with
  | [] => Ok []
  | c :: l' =>
    if (t prev <? t c) && ((t c - t prev) mod tf =? 0) then
      rest <- fill_from tf c l' ;;
      Ok (fill_run (Z.to_nat ((t c - t prev) / tf - 1)) tf prev ++ c :: rest)
    else Err Diverges
  end.

Definition fill (tf : Z) (l : list cd) : res (list cd) :=
  match l with
  | [] => Ok []
  | c0 :: l' => rest <- fill_from tf c0 l' ;; Ok (c0 :: rest)
  end.

(* collapse_candles as a whole: timeframe None = identity *)
Definition collapse_candles (tf : option Z) (fillon : bool) (l : list cd) : res (list cd) :=
  match tf with
  | None => Ok l
  | Some tf =>
    out <- collapse tf l ;;
    if fillon then fill tf out else Ok out
  end.

(* trim_candles: pop from the front while older than latest - lifespan *)
Fixpoint drop_older (bound : Z) (l : list cd) : list cd :=
  match l with
  | [] => []
  | c :: l' => if t c <? bound then drop_older bound l' else l
  end.
Definition trim (lifespan : option Z) (l : list cd) : list cd :=
  match lifespan with
  | None => l
  | Some ls => match rev l with
               | [] => l
               | lastc :: _ => drop_older (t lastc - ls) l
               end
  end.

(* ---------------- specification: right-closed, right-labelled resampling ------------- *)
Definition label (ts tf : Z) : Z := - ((- ts) / tf) * tf.   (* ceil(ts/tf)*tf *)

Fixpoint resample_acc (tf : Z) (acc : list cd) (l : list cd) : list cd :=
  match l with
  | [] => rev acc
  | c :: l' =>
    match acc with
    | prev :: acc' =>
      if t prev =? label (t c) tf
      then resample_acc tf ({| t := t prev; p := merge (p prev) (p c) |} :: acc') l'
      else resample_acc tf ({| t := label (t c) tf; p := p c |} :: acc) l'
    | [] => resample_acc tf [{| t := label (t c) tf; p := p c |}] l'
    end
  end.
Definition resample (tf : Z) (l : list cd) : list cd := resample_acc tf [] l.

(* the same thing said set-wise: consecutive runs with equal label, folded with merge *)
Fixpoint buckets (tf : Z) (l : list cd) : list (Z * list P) :=
  match l with
  | [] => []
  | c :: l' =>
    match buckets tf l' with
    | (L, ps) :: bs => if L =? label (t c) tf then (L, p c :: ps) :: bs
                       else (label (t c) tf, [p c]) :: (L, ps) :: bs
    | [] => [(label (t c) tf, [p c])]
    end
  end.
Definition agg (b : Z * list P) : option cd :=
  match snd b with
  | [] => None
  | x :: xs => Some {| t := fst b; p := fold_left merge xs x |}
  end.

Fixpoint sorted_from (r : Z) (l : list cd) : Prop :=
  match l with [] => True | c :: l' => r <= t c /\ sorted_from (t c) l' end.
Definition sorted (l : list cd) : Prop :=
  match l with [] => True | c :: l' => sorted_from (t c) l' end.

(* weaker than sortedness: only the bucket labels must be non-decreasing *)
Fixpoint lsorted_from (tf L : Z) (l : list cd) : Prop :=
  match l with [] => True | c :: l' => L <= label (t c) tf /\ lsorted_from tf (label (t c) tf) l' end.
Definition lsorted (tf : Z) (l : list cd) : Prop :=
  match l with [] => True | c :: l' => lsorted_from tf (label (t c) tf) l' end.

Fixpoint sorted_fromb (r : Z) (l : list cd) : bool :=
  match l with [] => true | c :: l' => (r <=? t c) && sorted_fromb (t c) l' end.
Definition sortedb (l : list cd) : bool :=
  match l with [] => true | c :: l' => sorted_fromb (t c) l' end.

End Manager.

Arguments t {P} _.
Arguments p {P} _.
Arguments Build_cd {P} _ _.
