(* Model of hexital/utils/candles.py: how a reading is looked up on a candle. *)
From Coq Require Import ZArith List String Ascii Bool.
From Hexital Require Import Base.Prelude Base.Num Model.Manager Model.Candle.
Import ListNotations.
Local Open Scope Z_scope.

Section Readings.
Context (NO : NumOps).
Notation num := (num NO).
Notation val := (val NO).
Notation payload := (payload NO).
Notation cd := (cd payload).

Definition is_none (v : val) : bool := match v with VNone => true | _ => false end.
Definition is_dict (v : val) : bool := match v with VDict _ => true | _ => false end.

(* isinstance(v, (float, int)): bool is a subclass of int *)
Definition numlike (v : val) : option num :=
  match v with
  | VNum x => Some x
  | VBool b => Some (nofZ NO (if b then 1 else 0))
  | _ => None
  end.

(* Python truthiness of a reading *)
Definition truthy (v : val) : bool :=
  match v with
  | VNone => false
  | VBool b => b
  | VNum x => ntruthy NO x
  | VDict d => match d with [] => false | _ => true end
  end.

(* split a name at its dots *)
Fixpoint split_dot (s : string) : string * option string :=
  match s with
  | EmptyString => (EmptyString, None)
  | String c s' =>
    if Ascii.eqb c "."%char then (EmptyString, Some s')
    else let '(a, b) := split_dot s' in (String c a, b)
  end.
Fixpoint has_dot (s : string) : bool :=
  match s with
  | EmptyString => false
  | String c s' => Ascii.eqb c "."%char || has_dot s'
  end.

(* candle geometry (core/candle.py properties) *)
Definition c_positive (x : ohlcv NO) : bool := nltb NO (c_open NO x) (c_close NO x).
Definition c_negative (x : ohlcv NO) : bool := nltb NO (c_close NO x) (c_open NO x).
Definition c_realbody (x : ohlcv NO) : num := nabs NO (nsub NO (c_open NO x) (c_close NO x)).
Definition c_shadow_upper (x : ohlcv NO) : num :=
  if c_positive x then nabs NO (nsub NO (c_high NO x) (c_close NO x))
  else nabs NO (nsub NO (c_high NO x) (c_open NO x)).
Definition c_shadow_lower (x : ohlcv NO) : num :=
  if c_positive x then nabs NO (nsub NO (c_low NO x) (c_open NO x))
  else nabs NO (nsub NO (c_low NO x) (c_close NO x)).
Definition c_high_low (x : ohlcv NO) : num := nabs NO (nsub NO (c_high NO x) (c_low NO x)).

(* getattr(candle, name, None) for the attribute names inside the model *)
Definition candle_attr (q : payload) (name : string) : option val :=
  let x := cur NO q in
  if String.eqb name "open" then Some (VNum (c_open NO x)) else
  if String.eqb name "high" then Some (VNum (c_high NO x)) else
  if String.eqb name "low" then Some (VNum (c_low NO x)) else
  if String.eqb name "close" then Some (VNum (c_close NO x)) else
  if String.eqb name "volume" then Some (VNum (c_vol NO x)) else
  if String.eqb name "positive" then Some (VBool (c_positive x)) else
  if String.eqb name "negative" then Some (VBool (c_negative x)) else
  if String.eqb name "realbody" then Some (VNum (c_realbody x)) else
  if String.eqb name "shadow_upper" then Some (VNum (c_shadow_upper x)) else
  if String.eqb name "shadow_lower" then Some (VNum (c_shadow_lower x)) else
  if String.eqb name "high_low" then Some (VNum (c_high_low x)) else
  None.

Definition nested_lookup (q : payload) (name nested : string) : val :=
  let pick (v : val) : val :=
    match v with
    | VDict d => match alist_get nested d with Some x => x | None => VNone end
    | _ => v
    end in
  match alist_get name (inds NO q) with
  | Some v => pick v
  | None => match alist_get name (subs NO q) with Some v => pick v | None => VNone end
  end.

(* reading_by_candle; a name with two or more dots makes the tuple unpacking raise *)
Definition reading_by_candle (q : payload) (name : string) : res val :=
  if has_dot name then
    let '(a, b) := split_dot name in
    match b with
    | Some b' => if has_dot b' then Err ValueError else Ok (nested_lookup q a b')
    | None => Ok VNone
    end
  else
    match candle_attr q name with
    | Some v => Ok v
    | None =>
      match alist_get name (inds NO q) with
      | Some v => Ok v
      | None => match alist_get name (subs NO q) with Some v => Ok v | None => Ok VNone end
      end
    end.

(* reading_by_index: None for an invalid index *)
Definition reading_by_index (cs : list cd) (name : string) (i : Z) : res val :=
  if negb (valid_index i (zlen cs)) then Ok VNone
  else match pyidx cs i with
       | Some c => reading_by_candle (p c) name
       | None => Ok VNone
       end.

(* reading_count: trailing candles whose reading is not None *)
Fixpoint count_trailing (rev_cs : list cd) (name : string) : res Z :=
  match rev_cs with
  | [] => Ok 0
  | c :: r => v <- reading_by_candle (p c) name ;;
              if is_none v then Ok 0 else n <- count_trailing r name ;; Ok (n + 1)
  end.
Definition reading_count (cs : list cd) (name : string) : res Z := count_trailing (rev cs) name.

(* reading_period: only three points of the window are inspected; int() truncates
   period/2 (a float) toward zero *)
Definition reading_period (cs : list cd) (period : Z) (name : string) (index : option Z) : res bool :=
  let period := period - 1 in
  let n := zlen cs in
  match (match index with
         | None => Some (n - 1)
         | Some i => if valid_index i n then Some i else None
         end) with
  | None => Ok false
  | Some i =>
    if i - period <? 0 then Ok false else
    a <- reading_by_index cs name (i - period) ;;
    if is_none a then Ok false else
    b <- reading_by_index cs name (i - Z.quot period 2) ;;
    if is_none b then Ok false else
    c <- reading_by_index cs name i ;;
    Ok (negb (is_none c))
  end.

(* numbers of a list of readings, for sum(): None skipped, anything else must be a number *)
Fixpoint nums_for_sum (vs : list val) : res (list num) :=
  match vs with
  | [] => Ok []
  | v :: r =>
    rest <- nums_for_sum r ;;
    match v with
    | VNone => Ok rest
    | VNum x => Ok (x :: rest)
    | VBool b => Ok (nofZ NO (if b then 1 else 0) :: rest)
    | VDict _ => Err TypeError
    end
  end.

(* candles_sum: returns None at index 0 (the code tests "if not index_") *)
Definition candles_sum (cs : list cd) (name : string) (length : Z) (index : Z) : res val :=
  let n := zlen cs in
  match absindex index n with
  | None => Ok VNone
  | Some i =>
    if i =? 0 then Ok VNone else
    let i1 := i + 1 in
    let len := if n <? length then n else length in
    vs <- mapM (fun c => reading_by_candle (p c) name) (pyslice cs (i1 - len) i1) ;;
    xs <- nums_for_sum vs ;;
    Ok (VNum (nsum NO xs))
  end.

End Readings.
