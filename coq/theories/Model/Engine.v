(* Model of hexital/core/indicator.py (Indicator.calculate / calculate_index / Managed.set_reading,
   sub- and managed indicators, purge) and of every _calculate_reading in hexital/indicators/.
   A single fuelled fixpoint [run] interprets the four operations on an indicator tree; fuel
   only bounds the nesting depth of the tree (at most 4 in the shipped set). *)
From Coq Require Import ZArith List String Bool.
From Hexital Require Import Base.Prelude Base.Num Model.Manager Model.Candle Model.Readings Model.Analysis.
Import ListNotations.
Local Open Scope string_scope.
Local Open Scope Z_scope.

Section Engine.
Context (NO : NumOps).
Notation num := (num NO).
Notation val := (val NO).
Notation payload := (payload NO).
Notation cd := (cd payload).
Definition store := list cd.

(* ------------------------------------------------------------------ indicator trees *)
Inductive kind :=
| K_SMA (period : Z) (input : string)
| K_EMA (period : Z) (input : string) (smoothing : num)
| K_RMA (period : Z) (input : string)
| K_WMA (period : Z) (input : string)
| K_VWMA (period : Z)
| K_HMA (period : Z) (input : string)
| K_TR
| K_ATR (period : Z)
| K_STDEV (period : Z) (input : string)
| K_BBANDS (period : Z) (input : string)
| K_KC (period : Z) (multiplier : num) (input : string)
| K_DONCHIAN (period : Z)
| K_HL (period : Z)
| K_HLA
| K_SUPERTREND (period : Z) (multiplier : num)
| K_STDEVTHRES (period : Z) (multiplier : num) (input : string)
| K_COUNTER (input : string) (count_value : val)
| K_RSI (period : Z) (input : string)
| K_MACD (fast slow signal : Z) (input : string)
| K_ROC (period : Z) (input : string)
| K_STOCH (period slow smoothk : Z) (input : string)
| K_TSI (period smooth : Z) (input : string)
| K_AROON (period : Z)
| K_ADX (period signal : Z)
| K_OBV
| K_VWAP
| K_AMORPH (f : afun)
| K_MANAGED.

Inductive ind := Ind {
  i_kind : kind;
  i_name : string;
  i_sub : bool;                       (* _sub_indicator: readings go to candle.sub_indicators *)
  i_prior : bool;                     (* _sub_calc_prior *)
  i_round : Z;
  i_subs : list ind;                  (* sub_indicators, in insertion order *)
  i_managed : list (string * ind)     (* managed_indicators *)
}.

Definition sub_ (k : kind) (name : string) (prior : bool) (subs : list ind) (managed : list (string * ind)) : ind :=
  Ind k name true prior 4 subs managed.

(* _initialise of every indicator class: the tree below an indicator called [name] *)
Definition children (k : kind) (name : string) : list ind * list (string * ind) :=
  match k with
  | K_HMA period input =>
    ([sub_ (K_WMA period input) (name ++ "_WMA") true [] [];
      sub_ (K_WMA (period / 2) input) (name ++ "_WMAh") true [] []],
     [("raw_HMA", sub_ K_MANAGED (name ++ "_HMAr") true
         [sub_ (K_WMA (Z.sqrt period) (name ++ "_HMAr")) (name ++ "_HMAs") false [] []] [])])
  | K_ATR period => ([sub_ K_TR (name ++ "_TR") true [] []], [])
  | K_STDEV period input => ([], [("STDEV_data", sub_ K_MANAGED (name ++ "_data") true [] [])])
  | K_BBANDS period input =>
    let sd := name ++ "_STDEV" in
    ([sub_ (K_STDEV period input) sd true [] [("STDEV_data", sub_ K_MANAGED (sd ++ "_data") true [] [])];
      sub_ (K_SMA period input) (name ++ "_SMA") true [] []], [])
  | K_KC period mult input =>
    ([sub_ (K_ATR period) (name ++ "_ATR") true [sub_ K_TR (name ++ "_ATR_TR") true [] []] [];
      sub_ (K_EMA period input (ndec NO 20 1)) (name ++ "_EMA") true [] []], [])
  | K_SUPERTREND period mult =>
    ([sub_ (K_ATR period) (name ++ "_atr") true [sub_ K_TR (name ++ "_atr_TR") true [] []] [];
      sub_ K_HLA (name ++ "_HL") true [] []],
     [("ST_data", sub_ K_MANAGED (name ++ "_data") true [] [])])
  | K_STDEVTHRES period mult input =>
    let sd := name ++ "_stdev" in
    ([sub_ (K_STDEV period input) sd true [] [("STDEV_data", sub_ K_MANAGED (sd ++ "_data") true [] [])]], [])
  | K_RSI period input => ([], [("RSI_data", sub_ K_MANAGED (name ++ "_data") true [] [])])
  | K_MACD fast slow signal input =>
    ([sub_ (K_EMA fast input (ndec NO 20 1)) (name ++ "_EMA_fast") true [] [];
      sub_ (K_EMA slow input (ndec NO 20 1)) (name ++ "_EMA_slow") true [] []],
     [("signal", sub_ (K_EMA signal (name ++ ".MACD") (ndec NO 20 1)) (name ++ "_signal_line") true [] [])])
  | K_STOCH period slow smoothk input =>
    ([], [("STOCH_data", sub_ K_MANAGED (name ++ "_data") true
             [sub_ (K_SMA smoothk (name ++ "_data.stoch")) (name ++ "_k") false [] []] []);
          ("STOCH_d", sub_ (K_SMA slow (name ++ "_data.k")) (name ++ "_d") true [] [])])
  | K_TSI period smooth input =>
    ([], [("TSI_data", sub_ K_MANAGED (name ++ "_data") true
             [sub_ (K_EMA period (name ++ "_data.price") (ndec NO 20 1)) (name ++ "_first") false
                [sub_ (K_EMA smooth (name ++ "_first") (ndec NO 20 1)) (name ++ "_second") false [] []] [];
              sub_ (K_EMA period (name ++ "_data.abs_price") (ndec NO 20 1)) (name ++ "_abs_first") false
                [sub_ (K_EMA smooth (name ++ "_abs_first") (ndec NO 20 1)) (name ++ "_abs_second") false [] []] []] [])])
  | K_ADX period signal =>
    ([sub_ (K_ATR period) (name ++ "_atr") true [sub_ K_TR (name ++ "_atr_TR") true [] []] []],
     [("ADX_data", sub_ K_MANAGED (name ++ "_data") true
         [sub_ (K_RMA period (name ++ "_data.pos")) (name ++ "_pos") false [] [];
          sub_ (K_RMA period (name ++ "_data.neg")) (name ++ "_neg") false [] []] []);
      ("dx", sub_ (K_RMA signal (name ++ "_data.dx")) (name ++ "_dx") true [] [])])
  | K_VWAP => ([], [("VWAP_data", sub_ K_MANAGED (name ++ "_data") true [] [])])
  | _ => ([], [])
  end.

(* a top-level indicator *)
Definition top (k : kind) (name : string) (rnd : Z) : ind :=
  let '(s, m) := children k name in Ind k name false true rnd s m.

(* ------------------------------------------------------------------ store access *)
(* Indicator.reading(name, index) = reading_by_candle(self.candles[index], name) *)
Definition reading (st : store) (name : string) (i : Z) : res val :=
  match pyidx st i with
  | Some c => reading_by_candle NO (p c) name
  | None => Err IndexError
  end.
Definition prev_reading (st : store) (name : string) (ai : Z) : res val :=
  match st with
  | [] => Ok VNone
  | _ => if ai =? 0 then Ok VNone else reading st name (ai - 1)
  end.
Definition prev_exists (st : store) (name : string) (ai : Z) : res bool :=
  v <- prev_reading st name ai ;; Ok (negb (is_none NO v)).
Definition rperiod (st : store) (period : Z) (name : string) (ai : Z) : res bool :=
  reading_period NO st period name (Some ai).
Definition csum (st : store) (length : Z) (name : string) (ai : Z) : res val :=
  candles_sum NO st name length ai.

Definition own_dict (I : ind) (q : payload) : list (string * val) :=
  if i_sub I then subs NO q else inds NO q.
Definition with_own_dict (I : ind) (q : payload) (d : list (string * val)) : payload :=
  if i_sub I
  then {| cur := cur NO q; clean := clean NO q; tagged := tagged NO q; inds := inds NO q; subs := d |}
  else {| cur := cur NO q; clean := clean NO q; tagged := tagged NO q; inds := d; subs := subs NO q |}.

Definition nat_index (st : store) (i : Z) : option nat :=
  let n := zlen st in
  if (0 <=? i) && (i <? n) then Some (Z.to_nat i)
  else if (i <? 0) && (- n <=? i) then Some (Z.to_nat (n + i))
  else None.

(* _set_reading: self.candles[index].<own dict>[self.name] = reading *)
Definition set_reading (st : store) (I : ind) (v : val) (i : Z) : res store :=
  match nat_index st i with
  | None => Err IndexError
  | Some k =>
    match nth_error st k with
    | None => Err IndexError
    | Some c =>
      Ok (list_set st k {| t := t c; p := with_own_dict I (p c) (alist_set (i_name I) v (own_dict I (p c))) |})
    end
  end.

(* direct write into candle.indicators (MACD's temporary reading) *)
Definition set_ind_direct (st : store) (name : string) (v : val) (i : Z) : res store :=
  match nat_index st i with
  | None => Err IndexError
  | Some k =>
    match nth_error st k with
    | None => Err IndexError
    | Some c =>
      let q := p c in
      Ok (list_set st k {| t := t c; p := {| cur := cur NO q; clean := clean NO q; tagged := tagged NO q;
                                               inds := alist_set name v (inds NO q); subs := subs NO q |} |})
    end
  end.

(* utils.indexing.round_values: floats, and floats one level down in a dict *)
Definition round_val (nd : Z) (v : val) : val :=
  match v with
  | VNum x => VNum (nround NO nd x)
  | VDict d => VDict (map (fun kv => (fst kv, match snd kv with VNum x => VNum (nround NO nd x) | w => w end)) d)
  | _ => v
  end.

(* _find_calc_index, on the indicator's own dictionary *)
Fixpoint last_with_key (I : ind) (l : list cd) (i : nat) : option nat :=
  match l with
  | [] => None
  | c :: l' => match last_with_key I l' (S i) with
               | Some j => Some j
               | None => if alist_mem (i_name I) (own_dict I (p c)) then Some i else None
               end
  end.
Definition find_calc_index (I : ind) (st : store) : nat :=
  match st with
  | [] => 0%nat
  | c0 :: st' =>
    if negb (alist_mem (i_name I) (own_dict I (p c0))) then 0%nat
    else match last_with_key I st' 1 with Some j => S j | None => 0%nat end
  end.

(* ------------------------------------------------------------------ arithmetic on readings *)
Definition as_num (v : val) : res num :=
  match numlike NO v with Some x => Ok x | None => Err TypeError end.
Definition rnum (st : store) (name : string) (i : Z) : res num := v <- reading st name i ;; as_num v.
Definition divn (a b : num) : res num := of_opt ZeroDivisionError (ndiv NO a b).
Definition zn (z : Z) : num := nofZ NO z.
Definition fl (m k : Z) : num := ndec NO m k.

Definition vnum (x : num) : val := VNum x.
Definition opt_num (o : option num) : val := match o with Some x => VNum x | None => VNone end.

(* Python ==, for Counter: numbers and bools compare numerically, None only equals None *)
Definition py_eq (a b : val) : bool :=
  match numlike NO a, numlike NO b with
  | Some x, Some y => neqb NO x y
  | _, _ => match a, b with VNone, VNone => true | _, _ => false end
  end.

(* ------------------------------------------------------------------ the interpreter *)
Inductive request :=
| RCalculate
| RCalcIndex (s : Z) (e : option Z)
| RReading (index : Z)                  (* _calculate_reading(index) *)
| RSetReading (v : val) (index : Z).    (* Managed.set_reading(v) with active index = index *)

Definition find_managed (I : ind) (key : string) : res ind :=
  of_opt KeyError (alist_get key (i_managed I)).

Definition leaf_result := (val * store)%type.

Section Calc.
(* the recursive entry point with one unit of fuel less *)
Variable rec : request -> ind -> store -> res (val * store).

Definition run_subs (prior : bool) (I : ind) (range : option (Z * Z)) (st : store) : res store :=
  foldM (fun st' s =>
           if Bool.eqb (i_prior s && i_sub s) prior then
             match range with
             | Some (a, b) =>
               (* "if start_index and end_index": index 0 falls back to a full calculate() *)
               if negb (a =? 0) && negb (b =? 0)
               then '(_, st'') <- rec (RCalcIndex a (Some b)) s st' ;; Ok st''
               else '(_, st'') <- rec RCalculate s st' ;; Ok st''
             | None => '(_, st'') <- rec RCalculate s st' ;; Ok st''
             end
           else Ok st')
        (i_subs I) st.

Definition managed_set (I : ind) (key : string) (v : val) (index : Z) (st : store) : res store :=
  m <- find_managed I key ;;
  '(_, st') <- rec (RSetReading v index) m st ;; Ok st'.
Definition managed_calc_index (I : ind) (key : string) (index : Z) (st : store) : res store :=
  m <- find_managed I key ;;
  '(_, st') <- rec (RCalcIndex index None) m st ;; Ok st'.

Definition ret (v : val) (st : store) : res leaf_result := Ok (v, st).

(* _calculate_reading of every class; [i] is the index, also the active index *)
Definition calc_reading (I : ind) (st : store) (i : Z) : res leaf_result :=
  let name := i_name I in
  match i_kind I with
  | K_SMA period input =>
    pe <- prev_exists st name i ;;
    if pe then
      pv <- prev_reading st name i ;; pr <- as_num pv ;;
      old <- rnum st input (i - period) ;; x <- rnum st input i ;;
      q <- divn (nsub NO old x) (zn period) ;;
      ret (vnum (nsub NO pr q)) st
    else
      rp <- rperiod st period input i ;;
      if rp then
        sv <- csum st period input i ;; s <- as_num sv ;;
        q <- divn s (zn period) ;; ret (vnum q) st
      else ret VNone st
  | K_EMA period input smoothing =>
    pe <- prev_exists st name i ;;
    if pe then
      a0 <- divn smoothing (nadd NO (zn period) (fl 10 1)) ;;
      let alpha := nfloat NO a0 in
      pv <- prev_reading st name i ;; pr <- as_num pv ;;
      x <- rnum st input i ;;
      ret (vnum (nfloat NO (nadd NO (nmul NO alpha x) (nmul NO pr (nsub NO (fl 10 1) alpha))))) st
    else
      rp <- rperiod st period input i ;;
      if rp then
        sv <- csum st period input i ;; s <- as_num sv ;;
        q <- divn s (zn period) ;; ret (vnum (nfloat NO q)) st
      else ret VNone st
  | K_RMA period input =>
    a0 <- divn (fl 10 1) (zn period) ;;
    let alpha := nfloat NO a0 in
    pe <- prev_exists st name i ;;
    if pe then
      pv <- prev_reading st name i ;; pr <- as_num pv ;;
      x <- rnum st input i ;;
      ret (vnum (nfloat NO (nadd NO (nmul NO alpha x) (nmul NO (nsub NO (fl 10 1) alpha) pr)))) st
    else
      rp <- rperiod st period input i ;;
      if rp then
        let base := nsub NO (zn 1) alpha in
        let idxs := zrange_down i (i - period) in
        let pys := map Z.of_nat (seq 0 (List.length idxs)) in
        terms <- mapM (fun pj => x <- rnum st input (snd pj) ;; Ok (nmul NO (npow NO base (fst pj)) x)) (combine pys idxs) ;;
        let values := nsum NO terms in
        let divide_by := nsum NO (map (fun py => npow NO base py) pys) in
        q <- divn values divide_by ;; ret (vnum q) st
      else ret VNone st
  | K_WMA period input =>
    pe <- prev_exists st name i ;;
    rp <- (if pe then Ok true else rperiod st period input i) ;;
    if rp then
      let idxs := zrange_down i (i - period) in
      let pys := map Z.of_nat (seq 0 (List.length idxs)) in
      terms <- mapM (fun pj => x <- rnum st input (snd pj) ;; Ok (nmul NO x (zn (period - fst pj)))) (combine pys idxs) ;;
      w <- divn (zn (period * (period + 1))) (zn 2) ;;
      q <- divn (nsum NO terms) w ;; ret (vnum q) st
    else ret VNone st
  | K_VWMA period =>
    pe <- prev_exists st name i ;;
    rp <- (if pe then Ok true else rperiod st period "close" i) ;;
    if rp then
      terms <- mapM (fun j => c <- rnum st "close" j ;; v <- rnum st "volume" j ;; Ok (nmul NO c v))
                    (zrange (i - (period - 1)) (i + 1)) ;;
      vv <- csum st period "volume" i ;;
      if py_eq vv (VNum (zn 0)) then
        cv <- csum st period "close" i ;; c <- as_num cv ;; q <- divn c (zn period) ;; ret (vnum q) st
      else
        v <- as_num vv ;; q <- divn (nsum NO terms) v ;; ret (vnum q) st
    else ret VNone st
  | K_HMA period input =>
    w <- reading st (name ++ "_WMA") i ;;
    if negb (is_none NO w) then
      wn <- as_num w ;; wh <- rnum st (name ++ "_WMAh") i ;;
      let raw := nsub NO (nmul NO (zn 2) wh) wn in
      st1 <- managed_set I "raw_HMA" (vnum raw) i st ;;
      v <- reading st1 (name ++ "_HMAs") i ;; ret v st1
    else ret VNone st
  | K_TR =>
    high <- reading st "high" i ;; low <- reading st "low" i ;;
    rp <- rperiod st 2 "close" i ;;
    if rp then
      h <- as_num high ;; l <- as_num low ;;
      cv <- prev_reading st "close" i ;; c <- as_num cv ;;
      ret (vnum (nmax3 NO (nsub NO h l) (nabs NO (nsub NO h c)) (nabs NO (nsub NO l c)))) st
    else ret VNone st
  | K_ATR period =>
    pe <- prev_exists st name i ;;
    if pe then
      pv <- prev_reading st name i ;; pr <- as_num pv ;; tr <- rnum st (name ++ "_TR") i ;;
      q <- divn (nadd NO (nmul NO pr (zn (period - 1))) tr) (zn period) ;; ret (vnum q) st
    else
      rp <- rperiod st period (name ++ "_TR") i ;;
      if rp then
        sv <- csum st period (name ++ "_TR") i ;; s <- as_num sv ;; q <- divn s (zn period) ;; ret (vnum q) st
      else ret VNone st
  | K_STDEV period input =>
    xv <- reading st input i ;;
    if is_none NO xv then ret VNone st else
    x <- as_num xv ;;
    rp <- reading_period NO st (period + 1) input (Some i) ;;
    removed <- (if rp then rnum st input (i - period) else Ok (zn 0)) ;;
    pm <- prev_reading st (name ++ "_data.mean") i ;;
    old_mean <- (if is_none NO pm then Ok (zn 0) else as_num pm) ;;
    d <- divn (nsub NO x removed) (zn period) ;;
    let new_mean := nadd NO old_mean d in
    pvv <- prev_reading st (name ++ "_data.variance") i ;;
    var0 <- (if is_none NO pvv then Ok (zn 0) else as_num pvv) ;;
    inc <- divn (nmul NO (nsub NO x removed)
                         (nsub NO (nadd NO (nsub NO x new_mean) removed) old_mean)) (zn period) ;;
    let variance := nadd NO var0 inc in
    st1 <- managed_set I "STDEV_data" (VDict [("mean", vnum new_mean); ("variance", vnum variance)]) i st ;;
    if rp then
      r <- of_opt ValueError (nsqrt NO (nmax NO variance (fl 0 1))) ;; ret (vnum r) st1
    else ret VNone st1
  | K_BBANDS period input =>
    sma <- reading st (name ++ "_SMA") i ;; sd <- reading st (name ++ "_STDEV") i ;;
    if negb (is_none NO sma) && negb (is_none NO sd) then
      s <- as_num sma ;; d <- as_num sd ;;
      let w := nmul NO d (fl 20 1) in
      ret (VDict [("BBL", vnum (nsub NO s w)); ("BBM", sma); ("BBU", vnum (nadd NO s w))]) st
    else ret (VDict [("BBL", VNone); ("BBM", VNone); ("BBU", VNone)]) st
  | K_KC period mult input =>
    e <- reading st (name ++ "_EMA") i ;; a <- reading st (name ++ "_ATR") i ;;
    if is_none NO e || is_none NO a then
      ret (VDict [("lower", VNone); ("band", VNone); ("upper", VNone)]) st
    else
      en <- as_num e ;; an <- as_num a ;;
      let w := nmul NO mult an in
      ret (VDict [("lower", vnum (nsub NO en w)); ("band", e); ("upper", vnum (nadd NO en w))]) st
  | K_DONCHIAN period =>
    pd <- prev_reading st (name ++ ".DCU") i ;;
    go <- (if negb (is_none NO pd) then Ok true else rperiod st period "high" i) ;;
    if go then
      u <- mv_highest NO st "high" (period - 1) i ;; l <- mv_lowest NO st "low" (period - 1) i ;;
      un <- as_num u ;; ln <- as_num l ;;
      m <- divn (nadd NO un ln) (zn 2) ;;
      ret (VDict [("DCL", l); ("DCM", vnum m); ("DCU", u)]) st
    else ret (VDict [("DCL", VNone); ("DCM", VNone); ("DCU", VNone)]) st
  | K_HL period =>
    l <- mv_lowest NO st "low" period i ;; h <- mv_highest NO st "high" period i ;;
    ret (VDict [("low", l); ("high", h)]) st
  | K_HLA =>
    h <- rnum st "high" i ;; l <- rnum st "low" i ;;
    q <- divn (nadd NO h l) (zn 2) ;; ret (vnum q) st
  | K_SUPERTREND period mult =>
    a <- reading st (name ++ "_atr") i ;;
    if negb (is_none NO a) then
      an <- as_num a ;; hl <- rnum st (name ++ "_HL") i ;;
      let mid := nmul NO mult an in
      let upper0 := nadd NO hl mid in
      let lower0 := nsub NO hl mid in
      pl <- prev_reading st (name ++ "_data.lower") i ;;
      '(direction, upper, lower) <-
        (if negb (is_none NO pl) then
           cl <- rnum st "close" i ;;
           pu <- prev_reading st (name ++ "_data.upper") i ;; pun <- as_num pu ;;
           if nltb NO pun cl then Ok (VNum (zn 1), upper0, lower0) else
           pln <- as_num pl ;;
           if nltb NO cl pln then Ok (VNum (zn (-1)), upper0, lower0) else
           dir <- prev_reading st (name ++ ".direction") i ;;
           lower1 <- (if py_eq dir (VNum (zn 1)) then
                        (if nltb NO lower0 pln then Ok pln else Ok lower0)
                      else Ok lower0) ;;
           upper1 <- (if py_eq dir (VNum (zn (-1))) then
                        (if nltb NO pun upper0 then Ok pun else Ok upper0)
                      else Ok upper0) ;;
           Ok (dir, upper1, lower1)
         else Ok (VNum (zn 1), upper0, lower0)) ;;
      st1 <- managed_set I "ST_data" (VDict [("upper", vnum upper); ("lower", vnum lower)]) i st ;;
      let is_up := py_eq direction (VNum (zn 1)) in
      let is_down := py_eq direction (VNum (zn (-1))) in
      ret (VDict [("trend", if is_up then vnum lower else vnum upper); ("direction", direction);
                  ("long", if is_up then vnum lower else VNone);
                  ("short", if is_down then vnum upper else VNone)]) st1
    else
      ret (VDict [("trend", VNone); ("direction", VNum (zn 1)); ("long", VNone); ("short", VNone)]) st
  | K_STDEVTHRES period mult input =>
    sd <- reading st (name ++ "_stdev") i ;;
    if is_none NO sd then ret (VBool false) st else
    s <- as_num sd ;; x <- rnum st input i ;;
    pv <- prev_reading st input i ;; px <- as_num pv ;;
    ret (VBool (nltb NO (nmul NO s mult) (nabs NO (nsub NO x px)))) st
  | K_COUNTER input count_value =>
    r <- reading st input i ;;
    c <- prev_reading st name i ;;
    let count := if truthy NO c then c else VNum (zn 0) in
    if is_none NO r then ret count st else
    if py_eq count_value r then cn <- as_num count ;; ret (vnum (nadd NO cn (zn 1))) st
    else ret (VNum (zn 0)) st
  | K_RSI period input =>
    pe <- prev_exists st name i ;;
    st1 <-
      (if pe then
         pv <- prev_reading st input i ;; px <- as_num pv ;; x <- rnum st input i ;;
         let change := nsub NO px x in
         let gain := if nltb NO change (zn 0) then nmul NO (zn (-1)) change else fl 0 1 in
         let loss := if nltb NO (zn 0) change then change else fl 0 1 in
         pg <- prev_reading st (name ++ "_data.gain") i ;; pgn <- as_num pg ;;
         pl <- prev_reading st (name ++ "_data.loss") i ;; pln <- as_num pl ;;
         g <- divn (nadd NO (nmul NO pgn (zn (period - 1))) gain) (zn period) ;;
         l <- divn (nadd NO (nmul NO pln (zn (period - 1))) loss) (zn period) ;;
         managed_set I "RSI_data" (VDict [("gain", vnum g); ("loss", vnum l)]) i st
       else
         rp <- rperiod st (period + 1) input i ;;
         if rp then
           changes <- mapM (fun j => a <- rnum st input j ;; b <- rnum st input (j - 1) ;; Ok (nsub NO a b))
                           (zrange (i - (period - 1)) (i + 1)) ;;
           g <- divn (nsum NO (filter (fun c => nltb NO (zn 0) c) changes)) (zn period) ;;
           l <- divn (nsum NO (map (nabs NO) (filter (fun c => nltb NO c (zn 0)) changes))) (zn period) ;;
           managed_set I "RSI_data" (VDict [("gain", vnum g); ("loss", vnum l)]) i st
         else Ok st) ;;
    dv <- reading st1 (name ++ "_data") i ;;
    if truthy NO dv then
      g <- rnum st1 (name ++ "_data.gain") i ;; l <- rnum st1 (name ++ "_data.loss") i ;;
      if neqb NO l (zn 0) then ret (vnum (fl 1000 1)) st1 else
      rs <- divn g l ;;
      q <- divn (fl 1000 1) (nadd NO (fl 10 1) rs) ;;
      ret (vnum (nsub NO (fl 1000 1) q)) st1
    else
      st2 <- managed_set I "RSI_data" VNone i st1 ;; ret VNone st2
  | K_MACD fast slow signal input =>
    sl <- reading st (name ++ "_EMA_slow") i ;;
    if negb (is_none NO sl) then
      sn <- as_num sl ;; fn <- rnum st (name ++ "_EMA_fast") i ;;
      let macd := nsub NO fn sn in
      st1 <- set_ind_direct st name (VDict [("MACD", vnum macd)]) i ;;
      st2 <- managed_calc_index I "signal" i st1 ;;
      sg <- reading st2 (name ++ "_signal_line") i ;;
      hist <- (if is_none NO sg then Ok VNone else s <- as_num sg ;; Ok (vnum (nsub NO macd s))) ;;
      ret (VDict [("MACD", vnum macd); ("signal", sg); ("histogram", hist)]) st2
    else ret (VDict [("MACD", VNone); ("signal", VNone); ("histogram", VNone)]) st
  | K_ROC period input =>
    pe <- prev_exists st name i ;;
    rp <- (if pe then Ok true else rperiod st (period + 1) input i) ;;
    if rp then
      nb <- rnum st input (i - period) ;; x <- rnum st input i ;;
      q <- divn (nsub NO x nb) nb ;; ret (vnum (nmul NO q (zn 100))) st
    else ret VNone st
  | K_STOCH period slow smoothk input =>
    rp <- rperiod st period input i ;;
    if rp then
      lows <- mapM (fun j => rnum st "low" j) (zrange (i - (period - 1)) (i + 1)) ;;
      highs <- mapM (fun j => rnum st "high" j) (zrange (i - (period - 1)) (i + 1)) ;;
      match lows, highs with
      | l0 :: lr, h0 :: hr =>
        let lowest := nmin_list NO l0 lr in
        let highest := nmax_list NO h0 hr in
        x <- rnum st input i ;;
        stoch <- (if neqb NO highest lowest then Ok (fl 0 1)
                  else q <- divn (nsub NO x lowest) (nsub NO highest lowest) ;; Ok (nmul NO q (zn 100))) ;;
        st1 <- managed_set I "STOCH_data" (VDict [("stoch", vnum stoch)]) i st ;;
        k <- reading st1 (name ++ "_k") i ;;
        st2 <- managed_set I "STOCH_data" (VDict [("stoch", vnum stoch); ("k", k)]) i st1 ;;
        st3 <- managed_calc_index I "STOCH_d" i st2 ;;
        d <- reading st3 (name ++ "_d") i ;;
        ret (VDict [("stoch", vnum stoch); ("k", k); ("d", d)]) st3
      | _, _ => Err ValueError    (* min() of an empty sequence *)
      end
    else ret (VDict [("stoch", VNone); ("k", VNone); ("d", VNone)]) st
  | K_TSI period smooth input =>
    rp <- rperiod st 2 input i ;;
    if negb rp then ret VNone st else
    x <- rnum st input i ;; pv <- prev_reading st input i ;; px <- as_num pv ;;
    let d := nsub NO x px in
    st1 <- managed_set I "TSI_data" (VDict [("price", vnum d); ("abs_price", vnum (nabs NO d))]) i st ;;
    a2 <- reading st1 (name ++ "_abs_second") i ;;
    if py_eq a2 (VNum (zn 0)) then ret (vnum (fl 0 1)) st1 else
    if negb (is_none NO a2) then
      an <- as_num a2 ;; s2 <- rnum st1 (name ++ "_second") i ;;
      q <- divn s2 an ;; ret (vnum (nmul NO (zn 100) q)) st1
    else ret VNone st1
  | K_AROON period =>
    rp <- rperiod st (period + 1) "high" i ;;
    if rp then
      hb <- mv_highestbar NO st "high" (period + 1) i ;; hbn <- as_num hb ;;
      lb <- mv_lowestbar NO st "low" (period + 1) i ;; lbn <- as_num lb ;;
      uq <- divn (nsub NO (zn period) hbn) (zn period) ;;
      dq <- divn (nsub NO (zn period) lbn) (zn period) ;;
      let u := nmul NO uq (zn 100) in
      let d := nmul NO dq (zn 100) in
      ret (VDict [("AROONU", vnum u); ("AROOND", vnum d); ("AROONOSC", vnum (nsub NO u d))]) st
    else ret (VDict [("AROONU", VNone); ("AROOND", VNone); ("AROONOSC", VNone)]) st
  | K_ADX period signal =>
    ph <- prev_reading st "high" i ;;
    if negb (is_none NO ph) then
      h <- rnum st "high" i ;; h1 <- rnum st "high" (i - 1) ;;
      l <- rnum st "low" i ;; l1 <- rnum st "low" (i - 1) ;;
      let up := nsub NO h h1 in
      let down := nsub NO l1 l in
      let positive := if nltb NO down up && nltb NO (zn 0) up then up else zn 0 in
      let negative := if nltb NO up down && nltb NO (zn 0) down then down else zn 0 in
      st1 <- managed_set I "ADX_data" (VDict [("pos", vnum positive); ("neg", vnum negative)]) i st ;;
      a <- reading st1 (name ++ "_atr") i ;; ps <- reading st1 (name ++ "_pos") i ;;
      if negb (is_none NO a) && negb (is_none NO ps) then
        an <- as_num a ;; pn <- as_num ps ;; nn <- rnum st1 (name ++ "_neg") i ;;
        md <- (if neqb NO an (zn 0) then Ok (fl 0 1) else divn (zn 100) an) ;;
        let adxp := nmul NO md pn in
        let adxn := nmul NO md nn in
        let dm_sum := nadd NO adxp adxn in
        dx <- (if neqb NO dm_sum (zn 0) then Ok (fl 0 1)
               else divn (nmul NO (zn 100) (nabs NO (nsub NO adxp adxn))) dm_sum) ;;
        st2 <- managed_set I "ADX_data" (VDict [("pos", vnum positive); ("neg", vnum negative); ("dx", vnum dx)]) i st1 ;;
        st3 <- managed_calc_index I "dx" i st2 ;;
        fin <- reading st3 (name ++ "_dx") i ;;
        ret (VDict [("ADX", fin); ("DM_Plus", vnum adxp); ("DM_Neg", vnum adxn)]) st3
      else ret (VDict [("ADX", VNone); ("DM_Plus", VNone); ("DM_Neg", VNone)]) st1
    else ret (VDict [("ADX", VNone); ("DM_Plus", VNone); ("DM_Neg", VNone)]) st
  | K_OBV =>
    pe <- prev_exists st name i ;;
    if pe then
      pv <- prev_reading st name i ;; pr <- as_num pv ;;
      c <- rnum st "close" i ;; pcv <- prev_reading st "close" i ;; pc <- as_num pcv ;;
      v <- rnum st "volume" i ;;
      if neqb NO c pc then ret pv st
      else if nltb NO pc c then ret (vnum (nadd NO pr v)) st
      else ret (vnum (nsub NO pr v)) st
    else v <- reading st "volume" i ;; ret v st
  | K_VWAP =>
    h <- rnum st "high" i ;; l <- rnum st "low" i ;; c <- rnum st "close" i ;;
    tp <- divn (nadd NO (nadd NO h l) c) (zn 3) ;;
    pe <- prev_exists st (name ++ "_data.pv") i ;;
    '(ppv, pvol) <- (if pe then
                       a <- prev_reading st (name ++ "_data.pv") i ;; an <- as_num a ;;
                       b <- prev_reading st (name ++ "_data.vol") i ;; bn <- as_num b ;; Ok (an, bn)
                     else Ok (zn 0, zn 0)) ;;
    v <- rnum st "volume" i ;;
    st1 <- managed_set I "VWAP_data" (VDict [("pv", vnum (nadd NO ppv (nmul NO v tp))); ("vol", vnum (nadd NO pvol v))]) i st ;;
    vol <- reading st1 (name ++ "_data.vol") i ;;
    pvv <- reading st1 (name ++ "_data.pv") i ;;
    if py_eq vol (VNum (zn 0)) then ret pvv st1 else
    a <- as_num pvv ;; b <- as_num vol ;; q <- divn a b ;; ret (vnum q) st1
  | K_AMORPH f => v <- run_afun NO f st (Some i) ;; ret v st
  | K_MANAGED => ret VNone st     (* Indicator._calculate_reading: pass *)
  end.

(* the loop of calculate(): for index in range(start, len): skip when a reading is there *)
Fixpoint calc_loop (I : ind) (idxs : list Z) (skip_present : bool) (st : store) : res store :=
  match idxs with
  | [] => Ok st
  | i :: rest =>
    present <-
      (if skip_present then
         match pyidx st i with
         | Some c => Ok (match alist_get (i_name I) (own_dict I (p c)) with
                         | Some v => negb (is_none NO v) | None => false end)
         | None => Err IndexError
         end
       else Ok false) ;;
    if present then calc_loop I rest skip_present st else
    '(v, st1) <- rec (RReading i) I st ;;
    st2 <- set_reading st1 I (round_val (i_round I) v) i ;;
    calc_loop I rest skip_present st2
  end.

Definition step (req : request) (I : ind) (st : store) : res (val * store) :=
  match req with
  | RReading i => calc_reading I st i
  | RCalculate =>
    st1 <- run_subs true I None st ;;
    let s := Z.of_nat (find_calc_index I st1) in
    st2 <- calc_loop I (zrange s (zlen st1)) true st1 ;;
    st3 <- run_subs false I None st2 ;;
    Ok (VNone, st3)
  | RCalcIndex s0 e0 =>
    let n := zlen st in
    let s := if s0 <? 0 then s0 + n else s0 in
    let e1 := match e0 with Some e => Some (if e <? 0 then e + n else e) | None => None end in
    let e := match e1 with Some e => if e =? 0 then s + 1 else e | None => s + 1 end in
    st1 <- run_subs true I (Some (s, e)) st ;;
    st2 <- calc_loop I (zrange s e) false st1 ;;
    st3 <- run_subs false I (Some (s, e)) st2 ;;
    Ok (VNone, st3)
  | RSetReading v i =>
    st1 <- run_subs true I (Some (i, i + 1)) st ;;
    st2 <- set_reading st1 I v i ;;
    st3 <- run_subs false I (Some (i, i + 1)) st2 ;;
    Ok (VNone, st3)
  end.
End Calc.

Fixpoint run (fuel : nat) (req : request) (I : ind) (st : store) : res (val * store) :=
  match fuel with
  | O => Err OutOfFuel
  | S f => step (run f) req I st
  end.

Definition FUEL : nat := 16.

Definition calculate (I : ind) (st : store) : res store := '(_, st') <- run FUEL RCalculate I st ;; Ok st'.
Definition calculate_index (I : ind) (s : Z) (e : option Z) (st : store) : res store :=
  '(_, st') <- run FUEL (RCalcIndex s e) I st ;; Ok st'.

(* names written by an indicator tree (purge removes exactly these from its own dicts) *)
Fixpoint tree_names (fuel : nat) (I : ind) : list (bool * string) :=
  match fuel with
  | O => []
  | S f => (i_sub I, i_name I) :: (flat_map (tree_names f) (i_subs I) ++ flat_map (fun km => tree_names f (snd km)) (i_managed I))%list
  end.

Definition purge_payload (names : list (bool * string)) (q : payload) : payload :=
  Build_payload NO (cur NO q) (clean NO q) (tagged NO q)
    (fold_left (fun d (bn : bool * string) => if fst bn then d else alist_del (snd bn) d) names (inds NO q))
    (fold_left (fun d (bn : bool * string) => if fst bn then alist_del (snd bn) d else d) names (subs NO q)).
Definition purge_names (names : list (bool * string)) (st : store) : store :=
  map (fun c : cd => Build_cd (t c) (purge_payload names (p c))) st.
Definition purge (I : ind) (st : store) : store := purge_names (tree_names FUEL I) st.

End Engine.

Arguments K_SMA {NO}.
Arguments K_EMA {NO}.
Arguments K_RMA {NO}.
Arguments K_WMA {NO}.
Arguments K_VWMA {NO}.
Arguments K_HMA {NO}.
Arguments K_TR {NO}.
Arguments K_ATR {NO}.
Arguments K_STDEV {NO}.
Arguments K_BBANDS {NO}.
Arguments K_KC {NO}.
Arguments K_DONCHIAN {NO}.
Arguments K_HL {NO}.
Arguments K_HLA {NO}.
Arguments K_SUPERTREND {NO}.
Arguments K_STDEVTHRES {NO}.
Arguments K_COUNTER {NO}.
Arguments K_RSI {NO}.
Arguments K_MACD {NO}.
Arguments K_ROC {NO}.
Arguments K_STOCH {NO}.
Arguments K_TSI {NO}.
Arguments K_AROON {NO}.
Arguments K_ADX {NO}.
Arguments K_OBV {NO}.
Arguments K_VWAP {NO}.
Arguments K_AMORPH {NO}.
Arguments K_MANAGED {NO}.
