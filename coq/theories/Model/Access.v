(* Model of the read accessors of Indicator and Hexital (core/indicator.py, core/hexital.py). *)
From Coq Require Import ZArith List String Bool.
From Hexital Require Import Base.Prelude Base.Num Model.Manager Model.Candle Model.Readings Model.Engine.
Import ListNotations.
Local Open Scope Z_scope.

Section Access.
Context (NO : NumOps).
Notation val := (val NO).
Notation cd := (cd (payload NO)).

(* Indicator.as_list(name) *)
Definition as_list (st : list cd) (name : string) : res (list val) :=
  mapM (fun c => reading_by_candle NO (p c) name) st.

(* Indicator.has_reading: the latest candle holds a reading *)
Definition has_reading (st : list cd) (name : string) : res bool :=
  match st with
  | [] => Ok false
  | _ => v <- reading NO st name (-1) ;; Ok (negb (is_none NO v))
  end.

(* Indicator.read_candle *)
Definition read_candle (c : cd) (name : string) : res val := reading_by_candle NO (p c) name.

(* Hexital.reading(name, index): the default manager first, then every manager in order *)
Fixpoint first_not_none (ms : list (list cd)) (name : string) (i : Z) : res val :=
  match ms with
  | [] => Ok VNone
  | m :: rest => v <- reading_by_index NO m name i ;;
                 if is_none NO v then first_not_none rest name i else Ok v
  end.
Definition hx_reading (default : list cd) (others : list (list cd)) (name : string) (i : Z) : res val :=
  first_not_none (default :: default :: others) name i.
Definition hx_prev_reading default others name : res val := hx_reading default others name (-2).
Definition hx_has_reading default others name : res bool :=
  v <- hx_reading default others name (-1) ;; Ok (negb (is_none NO v)).

End Access.
