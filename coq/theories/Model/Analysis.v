(* Model of hexital/analysis/movement.py, patterns.py and utils.py.
   Every function takes the candle list and a Python index (negative allowed). *)
From Coq Require Import ZArith List String Bool.
From Hexital Require Import Base.Prelude Base.Num Model.Manager Model.Candle Model.Readings.
Import ListNotations.
Local Open Scope Z_scope.

Section Analysis.
Context (NO : NumOps).
Notation num := (num NO).
Notation val := (val NO).
Notation payload := (payload NO).
Notation cd := (cd payload).
Notation rbc := (reading_by_candle NO).
Notation rbi := (reading_by_index NO).

(* Python comparisons between readings: numbers and bools compare numerically, anything
   else (None, dict) raises TypeError *)
Definition val_lt (a b : val) : res bool :=
  match numlike NO a, numlike NO b with
  | Some x, Some y => Ok (nltb NO x y)
  | _, _ => Err TypeError
  end.
Definition val_le (a b : val) : res bool :=
  match numlike NO a, numlike NO b with
  | Some x, Some y => Ok (nleb NO x y)
  | _, _ => Err TypeError
  end.
Definition val_gt (a b : val) : res bool := val_lt b a.
Definition val_ge (a b : val) : res bool := val_le b a.

Definition is_numlike (v : val) : bool := match numlike NO v with Some _ => true | None => false end.
Definition num_of (v : val) : num := match numlike NO v with Some x => x | None => nofZ NO 0 end.

(* _get_clean_readings: newest first, only int/float (bool is an int) *)
Definition clean_readings (cs : list cd) (name : string) (length index : Z) (include_latest : bool)
  : res (list val) :=
  let to_index := if include_latest then index + 1 else index in
  let start := if index - length <? 0 then 0 else index - length in
  vs <- mapM (fun c => rbc (p c) name) (pyslice cs start to_index) ;;
  Ok (filter is_numlike (rev vs)).

(* max()/min() over a list of number-like readings: the first extreme element is kept *)
Definition vmax (a b : val) : val := if nltb NO (num_of a) (num_of b) then b else a.
Definition vmin (a b : val) : val := if nltb NO (num_of b) (num_of a) then b else a.

Definition mv_positive (cs : list cd) (index : Z) : res val :=
  if negb (valid_index index (zlen cs)) then Ok (VBool false)
  else match pyidx cs index with
       | Some c => Ok (VBool (c_positive NO (cur NO (p c))))
       | None => Err IndexError
       end.
Definition mv_negative (cs : list cd) (index : Z) : res val :=
  if negb (valid_index index (zlen cs)) then Ok (VBool false)
  else match pyidx cs index with
       | Some c => Ok (VBool (c_negative NO (cur NO (p c))))
       | None => Err IndexError
       end.

Definition above_b (cs : list cd) (a b : string) (index : Z) : res bool :=
  match cs with
  | [] => Ok false
  | _ =>
    r1 <- rbi cs a index ;; r2 <- rbi cs b index ;;
    if negb (is_none NO r1) && negb (is_none NO r2) then val_gt r1 r2 else Ok false
  end.
Definition below_b (cs : list cd) (a b : string) (index : Z) : res bool :=
  match cs with
  | [] => Ok false
  | _ =>
    r1 <- rbi cs a index ;; r2 <- rbi cs b index ;;
    if is_numlike r1 && is_numlike r2 then val_lt r1 r2 else Ok false
  end.
Definition mv_above cs a b index : res val := x <- above_b cs a b index ;; Ok (VBool x).
Definition mv_below cs a b index : res val := x <- below_b cs a b index ;; Ok (VBool x).

Definition mv_value_range (cs : list cd) (name : string) (length index : Z) : res val :=
  match absindex index (zlen cs) with
  | None => Ok VNone
  | Some i =>
    if length <? 2 then Ok VNone else
    rs <- clean_readings cs name length i true ;;
    match rs with
    | [] | [_] => Ok VNone
    | r :: rest =>
      let mn := fold_left vmin rest r in
      let mx := fold_left vmax rest r in
      Ok (VNum (nabs NO (nsub NO (num_of mn) (num_of mx))))
    end
  end.

Fixpoint all_lt (rs : list val) (latest : val) (strict_gt : bool) : res bool :=
  (* rising: every earlier reading < latest; falling: every earlier reading > latest *)
  match rs with
  | [] => Ok true
  | r :: rest =>
    stop <- (if strict_gt then val_le r latest else val_ge r latest) ;;
    if stop then Ok false else all_lt rest latest strict_gt
  end.

Definition rise_fall (falling : bool) (cs : list cd) (name : string) (length index : Z) : res val :=
  match absindex index (zlen cs) with
  | None => Ok (VBool false)
  | Some i =>
    if (length <? 1) || (zlen cs <? 2) then Ok (VBool false) else
    match pyidx cs index with
    | None => Err IndexError
    | Some c =>
      latest <- rbc (p c) name ;;
      if is_none NO latest || is_dict NO latest then Ok (VBool false) else
      rs <- clean_readings cs name length i false ;;
      match rs with
      | [] => Ok (VBool false)
      | _ => b <- all_lt rs latest falling ;; Ok (VBool b)
      end
    end
  end.
Definition mv_rising := rise_fall false.
Definition mv_falling := rise_fall true.

Definition mean_rise_fall (falling : bool) (cs : list cd) (name : string) (length index : Z) : res val :=
  match absindex index (zlen cs) with
  | None => Ok (VBool false)
  | Some i =>
    if (length <? 1) || (zlen cs <? 2) then Ok (VBool false) else
    match pyidx cs i with
    | None => Err IndexError
    | Some c =>
      latest <- rbc (p c) name ;;
      if is_none NO latest || is_dict NO latest then Ok (VBool false) else
      rs <- clean_readings cs name length i false ;;
      match rs with
      | [] => Ok (VBool false)
      | _ =>
        match ndiv NO (nsum NO (map num_of rs)) (nofZ NO (zlen rs)) with
        | None => Err ZeroDivisionError
        | Some m =>
          b <- (if falling then val_gt (VNum m) latest else val_lt (VNum m) latest) ;;
          Ok (VBool b)
        end
      end
    end
  end.
Definition mv_mean_rising := mean_rise_fall false.
Definition mv_mean_falling := mean_rise_fall true.

Definition high_low_est (lowest : bool) (cs : list cd) (name : string) (length index : Z) : res val :=
  match absindex index (zlen cs) with
  | None => Ok (VBool false)
  | Some i =>
    if (length <? 1) || (zlen cs =? 0) then Ok (VBool false) else
    rs <- clean_readings cs name length i true ;;
    match rs with
    | [] => Ok VNone
    | r :: rest =>
      let m := if lowest then fold_left vmin rest r else fold_left vmax rest r in
      match m with VBool false => Ok VNone | _ => Ok m end     (* "is not False" *)
    end
  end.
Definition mv_highest := high_low_est false.
Definition mv_lowest := high_low_est true.

(* highestbar / lowestbar: offset of the most extreme reading among the [length] candles
   ending at the index (window clamped at candle 0) *)
Fixpoint bar_loop (lowest : bool) (cs : list cd) (name : string) (idxs : list Z) (k : Z)
  (best : option val) (distance : Z) : res Z :=
  match idxs with
  | [] => Ok distance
  | j :: rest =>
    cur_ <- rbi cs name j ;;
    if is_none NO cur_ then bar_loop lowest cs name rest (k + 1) best distance else
    match best with
    | None =>
      (* first reading found: it becomes the extreme, and is then compared with itself
         (which is where a dict reading raises TypeError) *)
      _ <- (if lowest then val_gt cur_ cur_ else val_lt cur_ cur_) ;;
      bar_loop lowest cs name rest (k + 1) (Some cur_) k
    | Some best0 =>
      better <- (if lowest then val_gt best0 cur_ else val_lt best0 cur_) ;;
      if better then bar_loop lowest cs name rest (k + 1) (Some cur_) k
      else bar_loop lowest cs name rest (k + 1) (Some best0) distance
    end
  end.
Definition high_low_bar (lowest : bool) (cs : list cd) (name : string) (length index : Z) : res val :=
  match absindex index (zlen cs) with
  | None => Ok VNone
  | Some i =>
    d <- bar_loop lowest cs name (zrange_down i (Z.max (i - length) (-1))) 0 None 0 ;;
    Ok (VNum (nofZ NO d))
  end.
Definition mv_highestbar := high_low_bar false.
Definition mv_lowestbar := high_low_bar true.

Fixpoint exists_m {A} (f : A -> res bool) (l : list A) : res bool :=
  match l with
  | [] => Ok false
  | x :: r => b <- f x ;; if b then Ok true else exists_m f r
  end.

Definition mv_cross (cs : list cd) (one two : string) (length index : Z) : res val :=
  match absindex index (zlen cs) with
  | None => Ok (VBool false)
  | Some i =>
    b <- exists_m (fun idx =>
      r1 <- rbi cs two idx ;; r2 <- rbi cs one idx ;;
      p1 <- rbi cs one (idx - 1) ;; p2 <- rbi cs two (idx - 1) ;;
      if negb (is_numlike r1 && is_numlike r2 && is_numlike p1 && is_numlike p2) then Ok false else
      Ok ((nltb NO (num_of r1) (num_of r2) && nleb NO (num_of p1) (num_of p2)) ||
          (nltb NO (num_of r2) (num_of r1) && nleb NO (num_of p2) (num_of p1))))
      (zrange_down i (Z.max (i - length) 0)) ;;
    Ok (VBool b)
  end.

Definition cross_dir (under : bool) (cs : list cd) (one two : string) (length index : Z) : res val :=
  match absindex index (zlen cs) with
  | None => Ok (VBool false)
  | Some i =>
    b <- exists_m (fun idx =>
      x <- (if under then below_b cs one two idx else above_b cs one two idx) ;;
      if negb x then Ok false else
      (if under then above_b cs one two (idx - 1) else below_b cs one two (idx - 1)))
      (zrange_down i (Z.max (i - length) 0)) ;;
    Ok (VBool b)
  end.
Definition mv_crossover := cross_dir false.
Definition mv_crossunder := cross_dir true.

(* ---- analysis/utils.py ---- *)
Definition geom_avg (f : ohlcv NO -> num) (cs : list cd) (length index : Z) : res num :=
  let index1 := index + 1 in
  let start := if index1 - length <? 0 then 0 else index1 - length in
  if (zlen cs <? index1) || (index1 <? 0) then Err IndexError else
  let xs := map (fun c => f (cur NO (p c))) (pyslice cs start index1) in
  of_opt ZeroDivisionError (ndiv NO (nsum NO xs) (nofZ NO length)).

Definition high_low_pct (cs : list cd) (index : Z) (m k : Z) (length : Z) : res num :=
  a <- geom_avg (c_high_low NO) cs length index ;; Ok (nmul NO a (ndec NO m k)).
Definition realbody_pct (cs : list cd) (index : Z) (m k : Z) (length : Z) : res num :=
  a <- geom_avg (c_realbody NO) cs length index ;; Ok (nmul NO a (ndec NO m k)).

Definition candle_doji cs index := high_low_pct cs index 1 1 10.           (* 0.1 *)
Definition candle_bodylong cs index := realbody_pct cs index 10 1 10.      (* 1.0 *)
Definition candle_bodyshort cs index := realbody_pct cs index 10 1 10.
Definition candle_shadow_veryshort cs index := high_low_pct cs index 1 1 10.
Definition candle_near cs index := high_low_pct cs index 2 1 5.            (* 0.2, length 5 *)

Definition at_index (cs : list cd) (i : Z) : res (ohlcv NO) :=
  match pyidx cs i with Some c => Ok (cur NO (p c)) | None => Err IndexError end.

Definition realbody_gapup (a b : ohlcv NO) : bool :=
  nltb NO (nmax NO (c_open NO b) (c_close NO b)) (nmin NO (c_open NO a) (c_close NO a)).
Definition realbody_gapdown (a b : ohlcv NO) : bool :=
  nltb NO (nmax NO (c_open NO a) (c_close NO a)) (nmin NO (c_open NO b) (c_close NO b)).

(* ---- analysis/patterns.py ---- *)
Definition doji_at (cs : list cd) (i : Z) : res bool :=
  if i <? 10 then Ok false else
  c <- at_index cs i ;; d <- candle_doji cs i ;;
  Ok (nltb NO (c_realbody NO c) d).

Definition dojistar_at (cs : list cd) (i : Z) : res bool :=
  if i <? 10 then Ok false else
  c <- at_index cs i ;; pc <- at_index cs (i - 1) ;;
  bl <- candle_bodylong cs (i - 1) ;;
  if negb (nltb NO bl (c_realbody NO pc)) then Ok false else
  d <- candle_doji cs i ;;
  if negb (nleb NO (c_realbody NO c) d) then Ok false else
  Ok ((c_positive NO pc && realbody_gapup c pc) || (c_negative NO pc && realbody_gapdown c pc)).

Definition hammer_at (cs : list cd) (i : Z) : res bool :=
  if i <? 10 then Ok false else
  c <- at_index cs i ;;
  bs <- candle_bodyshort cs i ;;
  if negb (nltb NO (c_realbody NO c) bs) then Ok false else
  if negb (nltb NO (c_realbody NO c) (c_shadow_lower NO c)) then Ok false else    (* shadow_lower > candle_shadow_long *)
  vs <- candle_shadow_veryshort cs i ;;
  if negb (nltb NO (c_shadow_upper NO c) vs) then Ok false else
  pc <- at_index cs (i - 1) ;;
  nr <- candle_near cs (i - 1) ;;
  Ok (nleb NO (nmin NO (c_close NO c) (c_open NO c)) (nadd NO (c_low NO pc) nr)).

Definition inverted_hammer_at (cs : list cd) (i : Z) : res bool :=
  if i <? 10 then Ok false else
  c <- at_index cs i ;; pc <- at_index cs (i - 1) ;;
  bs <- candle_bodyshort cs i ;;
  if negb (nltb NO (c_realbody NO c) bs) then Ok false else
  if negb (nltb NO (c_realbody NO c) (c_shadow_upper NO c)) then Ok false else
  vs <- candle_shadow_veryshort cs i ;;
  if negb (nltb NO (c_shadow_lower NO c) vs) then Ok false else
  Ok (realbody_gapdown c pc).

Definition pattern (at_ : list cd -> Z -> res bool) (cs : list cd) (lookback index : option Z) : res val :=
  let n := zlen cs in
  let idx := match index with Some i => i | None => -1 end in
  match absindex idx n with
  | None => Ok (VBool false)
  | Some i =>
    match lookback with
    | None => b <- at_ cs i ;; Ok (VBool b)
    | Some lb => b <- exists_m (at_ cs) (zrange (Z.max (i + 1 - lb) 0) (i + 1)) ;; Ok (VBool b)
    end
  end.
Definition pt_doji := pattern doji_at.
Definition pt_dojistar := pattern dojistar_at.
Definition pt_hammer := pattern hammer_at.
Definition pt_inverted_hammer := pattern inverted_hammer_at.

(* ---- one entry point for every function of the movement and pattern maps ---- *)
Inductive afun :=
| A_positive | A_negative
| A_above (a b : string) | A_below (a b : string)
| A_value_range (name : string) (length : Z)
| A_rising (name : string) (length : Z) | A_falling (name : string) (length : Z)
| A_mean_rising (name : string) (length : Z) | A_mean_falling (name : string) (length : Z)
| A_highest (name : string) (length : Z) | A_lowest (name : string) (length : Z)
| A_highestbar (name : string) (length : Z) | A_lowestbar (name : string) (length : Z)
| A_cross (a b : string) (length : Z) | A_crossover (a b : string) (length : Z)
| A_crossunder (a b : string) (length : Z)
| A_doji (lookback : option Z) | A_dojistar (lookback : option Z)
| A_hammer (lookback : option Z) | A_inv_hammer (lookback : option Z).

(* [index] = None means the function's default (latest candle) *)
Definition run_afun (f : afun) (cs : list cd) (index : option Z) : res val :=
  let i := match index with Some i => i | None => -1 end in
  match f with
  | A_positive => mv_positive cs i
  | A_negative => mv_negative cs i
  | A_above a b => mv_above cs a b i
  | A_below a b => mv_below cs a b i
  | A_value_range nm l => mv_value_range cs nm l i
  | A_rising nm l => mv_rising cs nm l i
  | A_falling nm l => mv_falling cs nm l i
  | A_mean_rising nm l => mv_mean_rising cs nm l i
  | A_mean_falling nm l => mv_mean_falling cs nm l i
  | A_highest nm l => mv_highest cs nm l i
  | A_lowest nm l => mv_lowest cs nm l i
  | A_highestbar nm l => mv_highestbar cs nm l i
  | A_lowestbar nm l => mv_lowestbar cs nm l i
  | A_cross a b l => mv_cross cs a b l i
  | A_crossover a b l => mv_crossover cs a b l i
  | A_crossunder a b l => mv_crossunder cs a b l i
  | A_doji lb => pt_doji cs lb index
  | A_dojistar lb => pt_dojistar cs lb index
  | A_hammer lb => pt_hammer cs lb index
  | A_inv_hammer lb => pt_inverted_hammer cs lb index
  end.

End Analysis.
