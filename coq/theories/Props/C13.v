(* C13 - Indicators sharing candles do not interfere with one another. *)
From Coq Require Import ZArith List String Bool.
From Hexital Require Import Base.Prelude Base.Num Model.Manager Model.Candle Model.Readings Model.Engine
  Proofs.AccessProofs Proofs.FrameProofs.
Import ListNotations.

(* Whatever any indicator tree does - calculate, calculate_index (positive or negative
   index), a managed set_reading, a single _calculate_reading - for each of the 27 shipped
   kinds and any tree built from them: the candles keep their number, timestamps, OHLCV,
   clean values and tags, and every entry of either reading dictionary whose
   (dictionary, name) is not one of the tree's own is left exactly as it was. *)
Theorem C13_engine_writes_only_its_own_entries :
  forall (O : NumOps) (fuel : nat) (req : request O) (I : ind O) (st : store O) (v : val O) (st' : store O),
  wf_tree O fuel I -> run O fuel req I st = Ok (v, st') -> frame O (tree_names O fuel I) st st'.
Proof. exact run_frame. Qed.
Print Assumptions C13_engine_writes_only_its_own_entries.

(* ... in particular for calculate() and calculate_index() of every shipped indicator *)
Theorem C13_calculate_leaves_others_alone :
  forall (O : NumOps) (k : kind O) (name : string) (rnd : Z) (st st' : store O),
  calculate O (top O k name rnd) st = Ok st' -> frame O (tree_names O FUEL (top O k name rnd)) st st'.
Proof. exact calculate_frame. Qed.
Print Assumptions C13_calculate_leaves_others_alone.

Theorem C13_calculate_index_leaves_others_alone :
  forall (O : NumOps) (k : kind O) (name : string) (rnd : Z) (s : Z) (e : option Z) (st st' : store O),
  calculate_index O (top O k name rnd) s e st = Ok st' -> frame O (tree_names O FUEL (top O k name rnd)) st st'.
Proof. exact calculate_index_frame. Qed.
Print Assumptions C13_calculate_index_leaves_others_alone.

(* purging (hence recalculating or removing) an indicator removes its own entries only *)
Theorem C13_purge_leaves_others_alone :
  forall (O : NumOps) (I : ind O) (st : store O),
  let st' := purge O I st in
  List.length st' = List.length st /\
  forall k c c', nth_error st k = Some c -> nth_error st' k = Some c' ->
    t c' = t c /\ cur O (p c') = cur O (p c) /\ clean O (p c') = clean O (p c) /\ tagged O (p c') = tagged O (p c) /\
    (forall sub nm, In (sub, nm) (tree_names O FUEL I) -> lookup_own O sub (p c') nm = None) /\
    (forall sub nm, ~ In (sub, nm) (tree_names O FUEL I) -> lookup_own O sub (p c') nm = lookup_own O sub (p c) nm).
Proof. exact purge_exact. Qed.
Print Assumptions C13_purge_leaves_others_alone.
