(* C13 - Indicators sharing candles do not interfere with one another. *)
From Coq Require Import ZArith List String Bool.
From Hexital Require Import Base.Prelude Base.Num Model.Manager Model.Candle Model.Readings Model.Engine
  Model.Analysis Inst.ZInst Proofs.AccessProofs Proofs.FrameProofs Proofs.AnalysisProofs Proofs.CausalProofs
  Proofs.SimProofs Proofs.NonInterference Proofs.ParamProofs Proofs.NonInterferenceTF Model.Hexital Proofs.HxTwin.
Import ListNotations.

(* Whatever any indicator tree does - calculate, calculate_index (positive or negative
   index), a managed set_reading, a single _calculate_reading - for each of the 27 shipped
   kinds and any tree built from them: the candles keep their number, timestamps, OHLCV,
   clean values and tags, and every entry of either reading dictionary whose
   (dictionary, name) is not one of the tree's own is left exactly as it was. *)
Theorem C13_engine_writes_only_its_own_entries :
  forall (O : NumOps) (fuel : nat) (req : request O) (I : ind O) (st : store O) (v : val O) (st' : store O),
  wf_tree O fuel I -> run O fuel req I st = Ok (v, st') -> frame O (tree_names O fuel I) st st'.
Proof. exact run_frame. Qed.
Print Assumptions C13_engine_writes_only_its_own_entries.

(* ... in particular for calculate() and calculate_index() of every shipped indicator *)
Theorem C13_calculate_leaves_others_alone :
  forall (O : NumOps) (k : kind O) (name : string) (rnd : Z) (st st' : store O),
  calculate O (top O k name rnd) st = Ok st' -> frame O (tree_names O FUEL (top O k name rnd)) st st'.
Proof. exact calculate_frame. Qed.
Print Assumptions C13_calculate_leaves_others_alone.

Theorem C13_calculate_index_leaves_others_alone :
  forall (O : NumOps) (k : kind O) (name : string) (rnd : Z) (s : Z) (e : option Z) (st st' : store O),
  calculate_index O (top O k name rnd) s e st = Ok st' -> frame O (tree_names O FUEL (top O k name rnd)) st st'.
Proof. exact calculate_index_frame. Qed.
Print Assumptions C13_calculate_index_leaves_others_alone.

(* purging (hence recalculating or removing) an indicator removes its own entries only *)
Theorem C13_purge_leaves_others_alone :
  forall (O : NumOps) (I : ind O) (st : store O),
  let st' := purge O I st in
  List.length st' = List.length st /\
  forall k c c', nth_error st k = Some c -> nth_error st' k = Some c' ->
    t c' = t c /\ cur O (p c') = cur O (p c) /\ clean O (p c') = clean O (p c) /\ tagged O (p c') = tagged O (p c) /\
    (forall sub nm, In (sub, nm) (tree_names O FUEL I) -> lookup_own O sub (p c') nm = None) /\
    (forall sub nm, ~ In (sub, nm) (tree_names O FUEL I) -> lookup_own O sub (p c') nm = lookup_own O sub (p c) nm).
Proof. exact purge_exact. Qed.
Print Assumptions C13_purge_leaves_others_alone.

(* ---- the read half: what a leaf indicator can see ---- *)

(* _calculate_reading of every indicator class without helper series depends only on the
   candles' OHLCV and on the readings it names (its inputs and its own name): two stores that
   agree on those give the same value, or the same exception *)
Theorem C13_leaf_reads_only_its_inputs :
  forall (O : NumOps) (I : ind O) (st1 st2 : store O) (i : Z),
  leaf_kind O (i_kind O I) = true ->
  Forall2 (sim O (reads O (i_kind O I) (i_name O I))) st1 st2 ->
  pure_calc O I st1 i = pure_calc O I st2 i.
Proof. exact reads_only. Qed.
Print Assumptions C13_leaf_reads_only_its_inputs.

(* Non-interference.  B is a top-level leaf indicator; [others] are the entries any other
   indicators on the same candles may write (the names of their trees).  If none of them is a
   name B reads or B's own name (foreign), then along every paired history - side 1 with the
   others, side 2 with B alone; the same candles appended to both; B calculating on both; the
   others doing anything that satisfies the frame condition (calculate, calculate_index, purge,
   recalculate, remove_indicator of any of the 27 classes: the theorems above) on side 1 only -
   B's entry on every candle is the same on both sides, and calculate() raises on one side
   exactly when it raises on the other. *)
Theorem C13_leaf_noninterference :
  forall (O : NumOps) (B : ind O) (others : list (bool * string)),
  i_subs O B = [] /\ i_managed O B = [] -> i_sub O B = false -> leaf_kind O (i_kind O B) = true ->
  has_dot (i_name O B) = false -> foreign O B others ->
  forall s1 s2 : store O, Paired O B others s1 s2 ->
  map (fun c => alist_get (i_name O B) (inds O (p c))) s1 = map (fun c => alist_get (i_name O B) (inds O (p c))) s2 /\
  (forall e, calculate O B s1 = Err e <-> calculate O B s2 = Err e).
Proof. intros O B others Hl Ht Hk Hn Hf s1 s2 HP. eapply noninterference; eassumption. Qed.
Print Assumptions C13_leaf_noninterference.

(* purge satisfies the frame condition as well (the form Paired asks for) *)
Theorem C13_purge_frame :
  forall (O : NumOps) (A : ind O) (st : store O), frame O (tree_names O FUEL A) st (purge O A st).
Proof. exact purge_frame. Qed.
Print Assumptions C13_purge_frame.

(* the premises are satisfiable: SMA(3) on close next to an ATR(5) *)
Example C13_foreign_example :
  foreign ZOps (top ZOps (K_SMA 3%Z "close") "SMA_3" 4%Z) (tree_names ZOps FUEL (top ZOps (K_ATR 5%Z) "ATR_5" 4%Z)).
Proof.
  intros n sub Hn. vm_compute in Hn. vm_compute.
  destruct Hn as [<-|[<-|[<-|[]]]]; intros [H|[H|[]]]; inversion H.
Qed.

(* The same on any candle manager - a collapsing timeframe, gap filling, Heikin-Ashi, a
   lifespan, in any combination: both sides receive the same chunks through mgr_append
   (re-collapse, fill, conversion, trim), B calculates on both, the others do anything within
   their frame on side 1.  Timestamps, values and B's entry agree candle by candle,
   calculate() raises alike, and so does the next append. *)
Theorem C13_leaf_noninterference_on_any_manager :
  forall (O : NumOps) (B : ind O) (others : list (bool * string)),
  i_subs O B = [] /\ i_managed O B = [] -> i_sub O B = false -> leaf_kind O (i_kind O B) = true ->
  has_dot (i_name O B) = false -> foreign O B others ->
  forall s1 s2 : store O, PairedM O B others s1 s2 ->
  map (fun c => (t c, cur O (p c), alist_get (i_name O B) (inds O (p c)))) s1 =
  map (fun c => (t c, cur O (p c), alist_get (i_name O B) (inds O (p c)))) s2 /\
  (forall e, calculate O B s1 = Err e <-> calculate O B s2 = Err e) /\
  (forall cfg new, match mgr_append O cfg s1 new, mgr_append O cfg s2 new with
                   | Ok _, Ok _ => True | Err e1, Err e2 => e1 = e2 | _, _ => False end).
Proof. intros O B others Hl Ht Hk Hn Hf s1 s2 HP. eapply noninterference_on_any_manager; eassumption. Qed.
Print Assumptions C13_leaf_noninterference_on_any_manager.

(* At the level of the container: two Hexitals with different other members (any names B neither
   reads nor owns, any timeframes), driven by different programs (appends, calculate() of anything,
   purge / recalculate / calculate_index / remove_indicator aimed at other members, add_indicator),
   that hand B the same candles and the same calculate() calls, leave B with the same candles and
   the same readings - "regardless of the other indicators registered and of the operation order". *)
Theorem C13_member_unaffected_by_the_other_members :
  forall (O : NumOps) (B : ind O),
  i_subs O B = [] /\ i_managed O B = [] -> i_sub O B = false -> leaf_kind O (i_kind O B) = true ->
  has_dot (i_name O B) = false ->
  forall (others1 others2 : list (bool * string)) (key1 key2 : string) (cfg hcfg1 hcfg2 : mcfg)
         (ops1 ops2 : list (hop O)) (h1 h1' h2 h2' : hexital O) (twin : store O),
  foreign O B others1 -> foreign O B others2 ->
  Inv O B others1 key1 cfg h1 twin -> Inv O B others2 key2 cfg h2 twin ->
  Forall (op_allowed O B others1 key1) ops1 -> Forall (op_allowed O B others2 key2) ops2 ->
  foldM (hx_step O hcfg1) ops1 h1 = Ok h1' -> foldM (hx_step O hcfg2) ops2 h2 = Ok h2' ->
  foldM (twin_step O B cfg) ops1 twin = foldM (twin_step O B cfg) ops2 twin ->
  exists s1 s2, alist_get key1 (h_mgrs O h1') = Some (cfg, s1) /\ alist_get key2 (h_mgrs O h2') = Some (cfg, s2) /\
    map (fun c => (t c, cur O (p c), alist_get (i_name O B) (inds O (p c)))) s1 =
    map (fun c => (t c, cur O (p c), alist_get (i_name O B) (inds O (p c)))) s2.
Proof. intros O B Hl Ht Hk Hn o1 o2 k1 k2 cfg c1 c2 ops1 ops2 h1 h1' h2 h2' tw. apply member_agrees_across_hexitals; assumption. Qed.
Print Assumptions C13_member_unaffected_by_the_other_members.

(* the paired histories on a manager are inhabited: a timeframe with gap filling, Heikin-Ashi
   and a lifespan, four raw candles (one gap), an SMA, another member's entry as the foreign name *)
Local Open Scope string_scope.
Local Open Scope Z_scope.
Definition c13_B : ind ZOps := top ZOps (K_SMA 2 "close") "SMA_2" 4.
Definition c13_cfg : mcfg := {| tf := Some 300; fillon := true; ha := true; lifespan := Some 3600 |}.
Definition c13_c (ts c : Z) : cd (payload ZOps) := {| t := ts; p := raw_payload ZOps (Build_ohlcv ZOps c c c c 1) |}.
Definition c13_new := [c13_c 60 10; c13_c 120 11; c13_c 400 12; c13_c 1300 14].
Example C13_example_foreign : foreign ZOps c13_B [(false, "OTHER")].
Proof.
  unfold foreign. intros n sub Hn Hin. destruct Hin as [Hin|[]]. inversion Hin as [[Hs Hr]]. clear Hin.
  vm_compute in Hn. destruct Hn as [Hn|[Hn|[Hn|[]]]]; subst n; vm_compute in Hr; discriminate Hr.
Qed.
Definition c13_r0 : store ZOps := Eval vm_compute in (match mgr_append ZOps c13_cfg [] c13_new with Ok r => r | Err _ => [] end).
Definition c13_r1 : store ZOps := Eval vm_compute in (match calculate ZOps c13_B c13_r0 with Ok r => r | Err _ => [] end).
Lemma c13_e0 : mgr_append ZOps c13_cfg [] c13_new = Ok c13_r0. Proof. vm_cast_no_check (@eq_refl _ (Ok (A:=store ZOps) c13_r0)). Qed.
Lemma c13_e1 : calculate ZOps c13_B c13_r0 = Ok c13_r1. Proof. vm_cast_no_check (@eq_refl _ (Ok (A:=store ZOps) c13_r1)). Qed.
Example C13_example_paired_on_a_manager : PairedM ZOps c13_B [(false, "OTHER")] c13_r1 c13_r1 /\ List.length c13_r1 = 5%nat.
Proof.
  split; [|reflexivity].
  eapply PM_other; [|apply frame_refl].
  eapply PM_B; [|exact c13_e1|exact c13_e1]. eapply PM_append; [apply PM_init|exact c13_e0|exact c13_e0].
Qed.

From Hexital Require Import Inst.ZInst Proofs.DataSlot Proofs.DataInst Proofs.DataThms Proofs.DataNI Proofs.DataNIInst Proofs.DataNIThms.
(* the same for B = VWAP, StandardDeviation or RSI - indicators that keep their running state in a
   managed helper series: two candles are "the same for B" when they agree on timestamp, OHLCV, the
   readings under the names B's class looks at (reads_data), B's own entry and its helper's entry
   (and neither carries a top-level entry under the helper's name).  calculate() on two stores that
   are the same for B gives stores that are the same for B, or the same exception - the loop itself
   (resume index, skip rule, the write of the helper entry and of the reading) respects the relation,
   no canonical-store hypothesis is needed - hence along every paired history (the same candles
   arrive on both sides, B calculates on both, on one side anything else may happen to the candles
   that keeps what B looks at) B ends with the same readings on every candle *)
Theorem C13_data_series_noninterference :
  forall (O : NumOps) (B : ind O) (key : string), data_node O B key -> data_kind O B key ->
  forall r r0, paired O B r r0 -> related O B r r0.
Proof. exact data_noninterference. Qed.
Print Assumptions C13_data_series_noninterference.

Theorem C13_same_for_means_same_readings :
  forall (O : NumOps) (B : ind O) (st st0 : store O), i_sub O B = false -> Forall2 (same_for O B) st st0 ->
  map (fun c => (t c, cur O (p c), alist_get (i_name O B) (inds O (p c)))) st =
  map (fun c => (t c, cur O (p c), alist_get (i_name O B) (inds O (p c)))) st0.
Proof. exact related_same_readings. Qed.
Print Assumptions C13_same_for_means_same_readings.

(* the relation is not just equality: a raw candle and the same candle carrying another
   indicator's entries are the same for a VWAP *)
Definition c13d_V : ind ZOps := top ZOps K_VWAP "VWAP" 4.
Definition c13d_raw : cd (payload ZOps) := Build_cd 60%Z (raw_payload ZOps (Build_ohlcv ZOps 10 14 8 12 10)%Z).
Definition c13d_deco : cd (payload ZOps) :=
  Build_cd 60%Z (Build_payload ZOps (Build_ohlcv ZOps 10 14 8 12 10)%Z None false [("EMA_3"%string, @VNum ZOps 11%Z)] [("ATR_5_TR"%string, @VNum ZOps 6%Z)]).
Example C13_same_for_example : same_for ZOps c13d_V c13d_deco c13d_raw.
Proof.
  unfold same_for, Rd. split; [reflexivity|]. split.
  - split; [reflexivity|]. intros n Hn. cbn in Hn.
    repeat (destruct Hn as [<-|Hn]; [reflexivity|]). contradiction.
  - repeat split.
Qed.
