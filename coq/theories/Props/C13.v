(* C13 - Indicators sharing candles do not interfere with one another. *)
From Coq Require Import ZArith List String Bool.
From Hexital Require Import Base.Prelude Base.Num Model.Manager Model.Candle Model.Readings Model.Engine
  Model.Analysis Inst.ZInst Proofs.AccessProofs Proofs.FrameProofs Proofs.AnalysisProofs Proofs.CausalProofs
  Proofs.SimProofs Proofs.NonInterference.
Import ListNotations.

(* Whatever any indicator tree does - calculate, calculate_index (positive or negative
   index), a managed set_reading, a single _calculate_reading - for each of the 27 shipped
   kinds and any tree built from them: the candles keep their number, timestamps, OHLCV,
   clean values and tags, and every entry of either reading dictionary whose
   (dictionary, name) is not one of the tree's own is left exactly as it was. *)
Theorem C13_engine_writes_only_its_own_entries :
  forall (O : NumOps) (fuel : nat) (req : request O) (I : ind O) (st : store O) (v : val O) (st' : store O),
  wf_tree O fuel I -> run O fuel req I st = Ok (v, st') -> frame O (tree_names O fuel I) st st'.
Proof. exact run_frame. Qed.
Print Assumptions C13_engine_writes_only_its_own_entries.

(* ... in particular for calculate() and calculate_index() of every shipped indicator *)
Theorem C13_calculate_leaves_others_alone :
  forall (O : NumOps) (k : kind O) (name : string) (rnd : Z) (st st' : store O),
  calculate O (top O k name rnd) st = Ok st' -> frame O (tree_names O FUEL (top O k name rnd)) st st'.
Proof. exact calculate_frame. Qed.
Print Assumptions C13_calculate_leaves_others_alone.

Theorem C13_calculate_index_leaves_others_alone :
  forall (O : NumOps) (k : kind O) (name : string) (rnd : Z) (s : Z) (e : option Z) (st st' : store O),
  calculate_index O (top O k name rnd) s e st = Ok st' -> frame O (tree_names O FUEL (top O k name rnd)) st st'.
Proof. exact calculate_index_frame. Qed.
Print Assumptions C13_calculate_index_leaves_others_alone.

(* purging (hence recalculating or removing) an indicator removes its own entries only *)
Theorem C13_purge_leaves_others_alone :
  forall (O : NumOps) (I : ind O) (st : store O),
  let st' := purge O I st in
  List.length st' = List.length st /\
  forall k c c', nth_error st k = Some c -> nth_error st' k = Some c' ->
    t c' = t c /\ cur O (p c') = cur O (p c) /\ clean O (p c') = clean O (p c) /\ tagged O (p c') = tagged O (p c) /\
    (forall sub nm, In (sub, nm) (tree_names O FUEL I) -> lookup_own O sub (p c') nm = None) /\
    (forall sub nm, ~ In (sub, nm) (tree_names O FUEL I) -> lookup_own O sub (p c') nm = lookup_own O sub (p c) nm).
Proof. exact purge_exact. Qed.
Print Assumptions C13_purge_leaves_others_alone.

(* ---- the read half: what a leaf indicator can see ---- *)

(* _calculate_reading of every indicator class without helper series depends only on the
   candles' OHLCV and on the readings it names (its inputs and its own name): two stores that
   agree on those give the same value, or the same exception *)
Theorem C13_leaf_reads_only_its_inputs :
  forall (O : NumOps) (I : ind O) (st1 st2 : store O) (i : Z),
  leaf_kind O (i_kind O I) = true ->
  Forall2 (sim O (reads O (i_kind O I) (i_name O I))) st1 st2 ->
  pure_calc O I st1 i = pure_calc O I st2 i.
Proof. exact reads_only. Qed.
Print Assumptions C13_leaf_reads_only_its_inputs.

(* Non-interference.  B is a top-level leaf indicator; [others] are the entries any other
   indicators on the same candles may write (the names of their trees).  If none of them is a
   name B reads or B's own name (foreign), then along every paired history - side 1 with the
   others, side 2 with B alone; the same candles appended to both; B calculating on both; the
   others doing anything that satisfies the frame condition (calculate, calculate_index, purge,
   recalculate, remove_indicator of any of the 27 classes: the theorems above) on side 1 only -
   B's entry on every candle is the same on both sides, and calculate() raises on one side
   exactly when it raises on the other. *)
Theorem C13_leaf_noninterference :
  forall (O : NumOps) (B : ind O) (others : list (bool * string)),
  i_subs O B = [] /\ i_managed O B = [] -> i_sub O B = false -> leaf_kind O (i_kind O B) = true ->
  has_dot (i_name O B) = false -> foreign O B others ->
  forall s1 s2 : store O, Paired O B others s1 s2 ->
  map (fun c => alist_get (i_name O B) (inds O (p c))) s1 = map (fun c => alist_get (i_name O B) (inds O (p c))) s2 /\
  (forall e, calculate O B s1 = Err e <-> calculate O B s2 = Err e).
Proof. intros O B others Hl Ht Hk Hn Hf s1 s2 HP. eapply noninterference; eassumption. Qed.
Print Assumptions C13_leaf_noninterference.

(* purge satisfies the frame condition as well (the form Paired asks for) *)
Theorem C13_purge_frame :
  forall (O : NumOps) (A : ind O) (st : store O), frame O (tree_names O FUEL A) st (purge O A st).
Proof. exact purge_frame. Qed.
Print Assumptions C13_purge_frame.

(* the premises are satisfiable: SMA(3) on close next to an ATR(5) *)
Example C13_foreign_example :
  foreign ZOps (top ZOps (K_SMA 3%Z "close") "SMA_3" 4%Z) (tree_names ZOps FUEL (top ZOps (K_ATR 5%Z) "ATR_5" 4%Z)).
Proof.
  intros n sub Hn. vm_compute in Hn. vm_compute.
  destruct Hn as [<-|[<-|[<-|[]]]]; intros [H|[H|[]]]; inversion H.
Qed.
