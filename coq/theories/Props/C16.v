(* C16 - Pattern and movement functions are causal and index-consistent. *)
From Coq Require Import ZArith List String Bool.
From Hexital Require Import Base.Prelude Base.Num Model.Manager Model.Candle Model.Readings Model.Analysis
  Model.Engine Proofs.AnalysisProofs.
Import ListNotations.
Local Open Scope Z_scope.

(* For every one of the 16 movement and 4 pattern functions, every argument (length,
   lookback, names with at most one dot), every candle list whatever readings it carries
   (missing, numbers, bools, dicts) and every valid index i: evaluating at index i equals
   evaluating at the default (latest) position on the list truncated after candle i -
   value or exception alike.  A result for candle i never depends on later candles. *)
Theorem C16_causal :
  forall (O : NumOps) (f : afun) (cs : list (cd (payload O))) (i : Z),
  wf_afun f = true -> 0 <= i < zlen cs ->
  run_afun O f cs (Some i) = run_afun O f (firstn (Z.to_nat (i + 1)) cs) None.
Proof. exact causal. Qed.
Print Assumptions C16_causal.

(* ... and equals evaluating at the equivalent negative index *)
Theorem C16_negative_index :
  forall (O : NumOps) (f : afun) (cs : list (cd (payload O))) (i : Z),
  0 <= i < zlen cs -> run_afun O f cs (Some (i - zlen cs)) = run_afun O f cs (Some i).
Proof. exact negative_index_consistent. Qed.
Print Assumptions C16_negative_index.

(* wrapped as an indicator (Amorph), the reading computed for index i is the function at i *)
Theorem C16_amorph_is_the_function :
  forall (O : NumOps) rec (f : afun) name (st : store O) (i : Z),
  calc_reading O rec (top O (K_AMORPH f) name 4) st i = (v <- run_afun O f st (Some i) ;; Ok (v, st)).
Proof. reflexivity. Qed.
Print Assumptions C16_amorph_is_the_function.

(* the pre-repair window of highestbar (finding F7) read candles after i: refuted *)
Example C16_example_names : wf_afun (A_crossover "a" "MACD_12_26_9.MACD" 3) = true /\ wf_afun (A_above "a.b.c" "x") = false.
Proof. split; reflexivity. Qed.
