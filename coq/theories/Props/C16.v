(* C16 - placeholder so that the pipeline runs; theorems follow below once proved. *)
From Coq Require Import ZArith List Bool.
From Hexital Require Import Base.Prelude Base.Num Model.Manager Model.Candle Model.Readings Model.Analysis.
