(* placeholder; theorems are added below *)
From Hexital Require Import Base.Prelude.
