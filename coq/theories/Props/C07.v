(* C07 - Work per appended candle is constant.
   The recurrence specifications compute each reading from a state and the newest candle
   only; the theorem bounds that state: the buffer never holds more than the stepper's
   window, whatever the history.  Together with the bit-exact correspondence of the
   specifications this shows that the readings *can* be, and by the executed-line counts
   of the falsifier that they *are*, produced with work independent of the history length.
   Partial: CPU time itself is outside any Gallina model. *)
From Coq Require Import ZArith List String Bool.
From Hexital Require Import Base.Prelude Base.Num Model.Manager Model.Candle Model.Readings Model.Engine
  Spec.Steppers Proofs.SpecGeneric Proofs.EngineProofs Proofs.WorkProofs Proofs.DataSlot Proofs.DataInst Proofs.DataThms.
Local Open Scope Z_scope.

Theorem C07_state_bounded_by_window :
  forall (O : NumOps) (k : kind_s O) nd (s s' : state O) (c : inp O) v, 0 <= window_of O k ->
  Z.of_nat (List.length (s_buf O s)) <= window_of O k ->
  step O k nd s c = Ok (v, s') ->
  Z.of_nat (List.length (s_buf O s')) <= window_of O k.
Proof. exact state_bounded. Qed.
Print Assumptions C07_state_bounded_by_window.

(* Readings computed per append, in the engine model: [leaf_steps] is the loop of calculate()
   with a counter of _calculate_reading invocations (it returns the loop's own result,
   leaf_steps_loop).  After appending k fresh candles to a calculated leaf indicator with at
   least two candles of history, calculate() makes exactly k invocations - independent of the
   length of the history. *)
Theorem C07_instrumented_loop_is_the_loop :
  forall (O : NumOps) (I : ind O) (calc : store O -> Z -> res (val O)) idxs st,
  leaf_loop O I calc idxs st = ('(_, r) <- leaf_steps O I calc idxs st ;; Ok r).
Proof. intros. apply leaf_steps_loop. Qed.
Print Assumptions C07_instrumented_loop_is_the_loop.

Theorem C07_one_reading_per_appended_candle_leaf :
  forall (O : NumOps) (I : ind O) (calc : store O -> Z -> res (val O)), Causal O I calc ->
  forall (cs : store O) (new : list (cd (payload O))) (r : store O),
  IsCanon O I calc cs -> (2 <= List.length cs)%nat -> Forall (fresh O I) new ->
  leaf_calculate O I calc (cs ++ new) = Ok r ->
  leaf_steps O I calc (zrange (Z.of_nat (find_calc_index O I (cs ++ new))) (zlen (cs ++ new))) (cs ++ new)
  = Ok (List.length new, r).
Proof. intros O I calc HC cs new r Hc Hl Hf Hr. eapply append_steps; eassumption. Qed.
Print Assumptions C07_one_reading_per_appended_candle_leaf.

(* the same count for the indicators that keep their state in one managed helper series (VWAP,
   StandardDeviation, RSI; see C01_schedule_independence_data_series_indicators): calculate() is
   the instrumented loop, and after k candles are appended to a calculated indicator with two or
   more candles of history it makes exactly k _calculate_reading invocations (each of which writes
   the helper's slot of its own candle and looks at a bounded window), whatever the length of the
   history *)
Theorem C07_one_reading_per_appended_candle_data_series :
  forall (O : NumOps) (I : ind O) (key : string), data_node O I key -> data_kind O I key ->
  forall (ds new : list (cd (payload O))) (st r : store O), Forall (fresh_data O I) ds ->
  calculate O I ds = Ok st -> (2 <= List.length st)%nat -> Forall (fresh_data O I) new ->
  calculate O I (st ++ new) = Ok r ->
  loop_steps O I 13 (zrange (Z.of_nat (find_calc_index O I (st ++ new))) (zlen (st ++ new))) (st ++ new) = Ok (List.length new, r) /\
  calculate O I (st ++ new) =
    ('(_, r') <- loop_steps O I 13 (zrange (Z.of_nat (find_calc_index O I (st ++ new))) (zlen (st ++ new))) (st ++ new) ;; Ok r').
Proof. exact data_one_reading_per_appended_candle. Qed.
Print Assumptions C07_one_reading_per_appended_candle_data_series.
