(* C07 - Work per appended candle is constant.
   The recurrence specifications compute each reading from a state and the newest candle
   only; the theorem bounds that state: the buffer never holds more than the stepper's
   window, whatever the history.  Together with the bit-exact correspondence of the
   specifications this shows that the readings *can* be, and by the executed-line counts
   of the falsifier that they *are*, produced with work independent of the history length.
   Partial: CPU time itself is outside any Gallina model. *)
From Coq Require Import ZArith List String Bool.
From Hexital Require Import Base.Prelude Base.Num Model.Candle Spec.Steppers Proofs.SpecGeneric.
Local Open Scope Z_scope.

Theorem C07_state_bounded_by_window :
  forall (O : NumOps) (k : kind_s O) nd (s s' : state O) (c : inp O) v, 0 <= window_of O k ->
  Z.of_nat (List.length (s_buf O s)) <= window_of O k ->
  step O k nd s c = Ok (v, s') ->
  Z.of_nat (List.length (s_buf O s')) <= window_of O k.
Proof. exact state_bounded. Qed.
Print Assumptions C07_state_bounded_by_window.
