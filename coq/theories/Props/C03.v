(* C03 - Timeframe collapsing equals right-closed, right-labelled OHLCV resampling.
   Statements only; each is closed by a lemma from Proofs/. *)
From Coq Require Import ZArith List Bool.
From Hexital Require Import Base.Prelude Base.Num Model.Manager Model.Candle
  Proofs.CollapseProofs Proofs.CandleProofs.
Import ListNotations.
Local Open Scope Z_scope.

(* The model of CandleManager.collapse_candles (seven-branch loop) computes exactly the
   resampling specification on every stream with non-decreasing timestamps, for every
   positive timeframe length, whatever the candles carry (P) and however they merge. *)
Theorem C03_collapse_is_resample :
  forall (P : Type) (merge : P -> P -> P) (tf : Z) (l : list (cd P)),
  0 < tf -> sorted P l -> collapse P merge tf l = Ok (resample P merge tf l).
Proof. exact collapse_is_resample. Qed.
Print Assumptions C03_collapse_is_resample.

(* Appending to an already collapsed list and collapsing again - the state after any
   append, and any number of repeated passes (ys = []) - is resampling of the whole stream. *)
Theorem C03_recollapse :
  forall (P : Type) (merge : P -> P -> P) (tf : Z) (xs ys : list (cd P)),
  0 < tf -> sorted P (xs ++ ys) ->
  collapse P merge tf (resample P merge tf xs ++ ys) = Ok (resample P merge tf (xs ++ ys)).
Proof. exact recollapse. Qed.
Print Assumptions C03_recollapse.

(* Output timestamps lie on the timeframe grid and are strictly increasing. *)
Theorem C03_shape :
  forall (P : Type) (merge : P -> P -> P) (tf : Z) (l : list (cd P)),
  0 < tf -> sorted P l ->
  on_grid P tf (resample P merge tf l) /\ strictly_inc P (resample P merge tf l).
Proof.
  intros P merge tf l Htf Hs. apply resample_shape; [assumption|apply sorted_lsorted; assumption].
Qed.
Print Assumptions C03_shape.

(* InvalidCandleOrder (or any error) can only come from a stream whose bucket labels
   decrease; in particular never from non-decreasing timestamps. *)
Theorem C03_error_only_on_bad_order :
  forall (P : Type) (merge : P -> P -> P) (tf : Z) (l : list (cd P)) (e : exn),
  0 < tf -> collapse P merge tf l = Err e -> ~ lsorted P tf l.
Proof. exact collapse_error_only_unsorted. Qed.
Print Assumptions C03_error_only_on_bad_order.

(* Any additive measure of the payload that merge adds up (volume under an associative
   addition) is conserved by resampling. *)
Theorem C03_volume_conserved :
  forall (P : Type) (merge : P -> P -> P) (M : Type) (madd : M -> M -> M) (f : P -> M),
  (forall a b c, madd (madd a b) c = madd a (madd b c)) ->
  (forall a b, f (merge a b) = madd (f a) (f b)) ->
  forall tf l m0, total P M madd f (resample P merge tf l) m0 = total P M madd f l m0.
Proof. exact resample_total. Qed.
Print Assumptions C03_volume_conserved.

(* What a bucket holds for the concrete Candle.merge: open of the first candle, left fold
   of max over the highs, of min over the lows, close of the last, left fold of + over
   the volumes; readings, tag and clean values are reset. *)
Theorem C03_bucket_values :
  forall (O : NumOps) (ys : list (payload O)) (x : payload O), clean O x = None ->
  let r := fold_left (merge O) ys x in
  c_open O (cur O r) = c_open O (cur O x) /\
  c_high O (cur O r) = fold_left (nmax O) (map (fun y => c_high O (cur O y)) ys) (c_high O (cur O x)) /\
  c_low O (cur O r) = fold_left (nmin O) (map (fun y => c_low O (cur O y)) ys) (c_low O (cur O x)) /\
  c_close O (cur O r) = last_close O x ys /\
  c_vol O (cur O r) = fold_left (nadd O) (map (fun y => c_vol O (cur O y)) ys) (c_vol O (cur O x)) /\
  (ys <> [] -> inds O r = [] /\ subs O r = [] /\ tagged O r = false /\ clean O r = None).
Proof. exact fold_merge_values. Qed.
Print Assumptions C03_bucket_values.

(* Non-vacuity: a concrete unsorted-within-bucket-free stream with duplicates and a gap
   meets the hypotheses, and the model computes the expected buckets on it. *)
Example C03_example :
  let l := [Build_cd 61 1; Build_cd 61 2; Build_cd 119 3; Build_cd 120 4; Build_cd 121 5; Build_cd 600 6] in
  sorted Z l /\ collapse Z Z.add 60 l = Ok [Build_cd 120 10; Build_cd 180 5; Build_cd 600 6].
Proof. split; [cbn; repeat split; discriminate|reflexivity]. Qed.
