(* C12 - Gap filling yields a contiguous series of flat, zero-volume candles. *)
From Coq Require Import ZArith List Bool.
From Hexital Require Import Base.Prelude Base.Num Model.Manager Model.Candle
  Proofs.CollapseProofs Proofs.FillProofs Proofs.FillCompose Proofs.PipelineProofs Proofs.FillEngine Proofs.FillHA Proofs.TrimCompose Proofs.FillTrim.
Import ListNotations.
Local Open Scope Z_scope.

(* Whenever fill_missing_candles returns, its output is the input with, in every gap,
   candles exactly one timeframe apart, each built from the candle just before it. *)
Theorem C12_fill_relation :
  forall (P : Type) (fillp : P -> P) (tf : Z) (l out : list (cd P)),
  0 < tf -> fill P fillp tf l = Ok out ->
  match l, out with
  | [], [] => True
  | c0 :: l', c0' :: out' => c0' = c0 /\ Filled P fillp tf c0 l' out'
  | _, _ => False
  end.
Proof. exact fill_spec. Qed.
Print Assumptions C12_fill_relation.

Theorem C12_contiguous :
  forall (P : Type) (fillp : P -> P) (tf : Z) (prev : cd P) (l out : list (cd P)),
  Filled P fillp tf prev l out -> contiguous_from P tf (t prev) out.
Proof. exact filled_contiguous. Qed.
Print Assumptions C12_contiguous.

(* the real buckets are all there, unchanged and in order *)
Theorem C12_real_buckets_preserved :
  forall (P : Type) (fillp : P -> P) (tf : Z) (prev : cd P) (l out : list (cd P)),
  Filled P fillp tf prev l out -> drop_inserted P l out = l.
Proof. exact filled_preserves. Qed.
Print Assumptions C12_real_buckets_preserved.

(* every candle of the output is a real one or was made by fillp from its predecessor *)
Theorem C12_inserted_from_predecessor :
  forall (P : Type) (fillp : P -> P) (tf : Z) (prev : cd P) (l out : list (cd P)),
  Filled P fillp tf prev l out -> forall orig, incl l orig -> from_prev_or_orig P fillp orig prev out.
Proof. exact filled_flat. Qed.
Print Assumptions C12_inserted_from_predecessor.

(* ... and such a candle is flat at the predecessor's raw close with volume 0, no readings *)
Theorem C12_fill_candle_flat :
  forall (O : NumOps) (prev : payload O),
  let f := fillp O prev in let cl := c_close O (recovered O prev) in
  cur O f = Build_ohlcv O cl cl cl cl (nofZ O 0) /\ clean O f = None /\ tagged O f = false /\
  inds O f = [] /\ subs O f = [].
Proof. intros; repeat split. Qed.
Print Assumptions C12_fill_candle_flat.

(* on every stream with non-decreasing timestamps collapse-then-fill returns (no error, no
   divergence) *)
Theorem C12_total_on_sorted_streams :
  forall (P : Type) (merge : P -> P -> P) (fillp : P -> P) (tf : Z) (l : list (cd P)),
  0 < tf -> sorted P l -> exists out, collapse_candles P merge fillp (Some tf) true l = Ok out.
Proof.
  intros P merge fillp tf l Htf Hs. unfold collapse_candles.
  rewrite (collapse_is_resample P merge tf l Htf Hs). cbn [bind].
  destruct (resample_shape P merge tf l Htf (sorted_lsorted P tf l Htf Hs)) as [G S].
  apply fill_total; assumption.
Qed.
Print Assumptions C12_total_on_sorted_streams.

Example C12_example :
  fill Z (fun x => x) 60 [Build_cd 60 1; Build_cd 240 2; Build_cd 300 3]
  = Ok [Build_cd 60 1; Build_cd 120 1; Build_cd 180 1; Build_cd 240 2; Build_cd 300 3].
Proof. reflexivity. Qed.

(* "the outcome is the same for every append schedule": D is the manager's state (timeframe
   and timeframe_fill set) after the raw stream xs; appending ys re-collapses D ++ ys - the
   filled series followed by raw candles - and fills again; the result is collapse + fill of
   the whole raw stream (value or exception alike).  By induction over the chunks, any split
   of a stream into appends ends in the same series. *)
Theorem C12_schedule_independent :
  forall (O : NumOps) (tf : Z) (xs ys D : list (cd (payload O))),
  0 < tf -> sorted (payload O) (xs ++ ys) ->
  tasks O (tf_fill_cfg tf) xs = Ok D ->
  mgr_append O (tf_fill_cfg tf) D ys = tasks O (tf_fill_cfg tf) (xs ++ ys).
Proof. intros O tf xs ys D Htf Hs HD. eapply manager_fill_incremental; eassumption. Qed.
Print Assumptions C12_schedule_independent.

(* ... and with Heikin-Ashi on top of the filled series: collapse, fill, convert; the stored
   series is converted, the appended candles are raw (pristine), and the pipeline over
   (stored series ++ new candles) is the pipeline over the whole raw stream - fill candles
   are flat at the *raw* close of their predecessor on every schedule *)
Theorem C12_schedule_independent_with_heikin_ashi :
  forall (O : NumOps) (tf : Z) (xs ys D : list (cd (payload O))),
  0 < tf -> sorted (payload O) (xs ++ ys) -> pristine O (xs ++ ys) ->
  tasks O (tf_fill_ha_cfg tf) xs = Ok D ->
  mgr_append O (tf_fill_ha_cfg tf) D ys = tasks O (tf_fill_ha_cfg tf) (xs ++ ys).
Proof. intros O tf xs ys D Htf Hs Hp HD. eapply manager_fill_ha_incremental; eassumption. Qed.
Print Assumptions C12_schedule_independent_with_heikin_ashi.

(* ... and with a lifespan: the filled window is the same for every append schedule *)
Theorem C12_schedule_independent_with_lifespan :
  forall (O : NumOps) (tf ls : Z) (xs ys D : list (cd (payload O))),
  0 < tf -> 0 <= ls -> sorted (payload O) (xs ++ ys) ->
  tasks O (tf_fill_life_cfg tf ls) xs = Ok D ->
  mgr_append O (tf_fill_life_cfg tf ls) D ys = tasks O (tf_fill_life_cfg tf ls) (xs ++ ys).
Proof. intros O tf ls xs ys D Htf Hls Hs HD. eapply manager_fill_lifespan_incremental; eassumption. Qed.
Print Assumptions C12_schedule_independent_with_lifespan.
