(* C15 - Lifespan trimming keeps exactly the window (clause 1).
   Clause 2 (readings on the retained candles are unchanged while the look-back is
   retained): proved for ten indicator classes without helper series, at the level of one
   reading - the value computed at an index is the same with or without the trimmed prefix as
   long as lookback(class) candles before the index are retained - and at the level of a whole
   calculate(): on the retained candles followed by new ones it computes what the untrimmed
   run computes; for the other classes it is decided by the correspondence and the falsifier
   over the indicator engine. *)
From Coq Require Import ZArith List String Bool Lia.
From Hexital Require Import Base.Prelude Base.Num Model.Manager Model.Candle Model.Readings Model.Engine
  Proofs.CollapseProofs Proofs.FillProofs Proofs.CausalProofs Proofs.TrimProofs Proofs.TrimCompose Proofs.FillCompose Proofs.FillEngine Proofs.FillTrim Proofs.EngineProofs Proofs.TrimWin Proofs.TrimRun Inst.ZInst.
Import ListNotations.
Local Open Scope Z_scope.

(* trim_candles on a time-ordered list keeps exactly the candles not older than
   newest - lifespan, in order *)
Theorem C15_window_exact :
  forall (P : Type) (ls : Z) (l : list (cd P)), sorted P l ->
  trim P (Some ls) l =
  match newest P l with
  | None => l
  | Some tn => filter (fun c => negb (t c <? tn - ls)) l
  end.
Proof. exact trim_is_filter. Qed.
Print Assumptions C15_window_exact.

Theorem C15_newest_survives :
  forall (P : Type) (ls : Z) (l : list (cd P)) c pre, 0 <= ls -> l = pre ++ [c] -> sorted P l ->
  exists pre', trim P (Some ls) l = pre' ++ [c].
Proof. exact trim_keeps_newest. Qed.
Print Assumptions C15_newest_survives.

(* after every construction/append of a manager without candlestick conversion the
   retained candles are that window of the collapsed (and filled) candles *)
Theorem C15_window_after_tasks :
  forall (O : NumOps) (tfv : Z) (fl : bool) (ls : Z) (l out : list (cd (payload O))),
  0 < tfv -> sorted _ l ->
  tasks O {| tf := Some tfv; fillon := fl; ha := false; lifespan := Some ls |} l = Ok out ->
  exists mid, collapse_candles _ (merge O) (fillp O) (Some tfv) fl l = Ok mid /\
    out = match newest _ mid with
          | None => mid
          | Some tn => filter (fun c => negb (t c <? tn - ls)) mid
          end.
Proof.
  intros O tfv fl ls l out Htf Hs H. unfold tasks in H. cbn [tf fillon ha lifespan] in H.
  destruct (collapse_candles _ (merge O) (fillp O) (Some tfv) fl l) as [mid|e] eqn:E; cbn [bind] in H; [|discriminate].
  inversion H; subst out. exists mid. split; [reflexivity|].
  apply trim_is_filter.
  (* mid is time ordered: strictly increasing grid, contiguous after filling *)
  unfold collapse_candles in E. rewrite (collapse_is_resample _ (merge O) tfv l Htf Hs) in E. cbn [bind] in E.
  destruct (resample_shape _ (merge O) tfv l Htf (sorted_lsorted _ tfv l Htf Hs)) as [G S].
  destruct fl.
  - pose proof (fill_spec _ (fillp O) tfv _ _ Htf E) as F.
    destruct (resample _ (merge O) tfv l) as [|c0 r']; destruct mid as [|m0 mid']; try contradiction; [exact I|].
    destruct F as [-> F]. cbn [sorted]. apply filled_contiguous in F.
    apply (contiguous_sorted _ tfv Htf). exact F.
  - inversion E; subst mid. destruct (resample _ (merge O) tfv l) as [|c0 r']; [exact I|].
    apply strictly_inc_from_sorted. exact S.
Qed.
Print Assumptions C15_window_after_tasks.

Example C15_example :
  trim Z (Some 100) [Build_cd 0 1; Build_cd 60 2; Build_cd 120 3; Build_cd 180 4]
  = [Build_cd 120 3; Build_cd 180 4].
Proof. reflexivity. Qed.

(* clause 2, one reading: [pre] are the candles the trim removed, [suf] the retained ones.
   lookback: SMA, ROC: period; EMA, RMA, WMA, VWMA: period - 1; TR, OBV, Counter: 1; HLA: 0
   (periods >= 2).  The value (or exception) at index i of the untrimmed list is the value
   at index i - |pre| of the retained list. *)
Theorem C15_reading_unchanged_by_trim_leaf :
  forall (O : NumOps) (I : ind O) (pre suf : store O) (i W : Z),
  lookback O (i_kind O I) = Some W -> period_ok O (i_kind O I) ->
  zlen pre + W <= i < zlen (pre ++ suf) ->
  pure_calc O I (pre ++ suf) i = pure_calc O I suf (i - zlen pre).
Proof. exact trim_invariant. Qed.
Print Assumptions C15_reading_unchanged_by_trim_leaf.

(* clause 1 under every append schedule: D is the manager's state (timeframe and lifespan set)
   after the raw stream xs; appending ys re-collapses D ++ ys and trims again; the result is
   collapse + trim of the whole raw stream - the buckets already trimmed away are older than
   every later bound, and the retained suffix continues exactly like the whole series *)
Theorem C15_window_schedule_independent :
  forall (O : NumOps) (tf ls : Z) (xs ys D : list (cd (payload O))),
  0 < tf -> 0 <= ls -> sorted (payload O) (xs ++ ys) ->
  tasks O (tf_life_cfg tf ls) xs = Ok D ->
  mgr_append O (tf_life_cfg tf ls) D ys = tasks O (tf_life_cfg tf ls) (xs ++ ys).
Proof. intros O tf ls xs ys D Htf Hls Hs HD. eapply manager_lifespan_incremental; eassumption. Qed.
Print Assumptions C15_window_schedule_independent.

(* ... and with gap filling as well: timeframe, timeframe_fill and lifespan together *)
Theorem C15_window_schedule_independent_with_fill :
  forall (O : NumOps) (tf ls : Z) (xs ys D : list (cd (payload O))),
  0 < tf -> 0 <= ls -> sorted (payload O) (xs ++ ys) ->
  tasks O (tf_fill_life_cfg tf ls) xs = Ok D ->
  mgr_append O (tf_fill_life_cfg tf ls) D ys = tasks O (tf_fill_life_cfg tf ls) (xs ++ ys).
Proof. intros O tf ls xs ys D Htf Hls Hs HD. eapply manager_fill_lifespan_incremental; eassumption. Qed.
Print Assumptions C15_window_schedule_independent_with_fill.

(* clause 2 for a whole calculate(): [pre] was trimmed away, [S] are the retained candles (all
   calculated: they carry the indicator's entry, None included), [new] the raw candles just
   appended.  With at least two retained candles and the class's look-back retained, calculate()
   on the manager's list S ++ new gives exactly what calculate() gives on the untrimmed list -
   same readings on every candle, same exception - because the loop on the retained list
   mirrors the loop on the whole list index by index.  No assumption on how the retained
   readings were obtained is needed, so the statement applies again after every later append
   and trim. *)
Theorem C15_calculate_unchanged_by_trim_leaf :
  forall (O : NumOps) (I : ind O) (W : Z),
  lookback O (i_kind O I) = Some W -> period_ok O (i_kind O I) ->
  i_subs O I = [] /\ i_managed O I = [] ->
  (forall rec st i, calc_reading O rec I st i = (v <- pure_calc O I st i ;; Ok (v, st))) ->
  forall (pre S new : store O),
  Forall (has_key O I) pre -> Forall (has_key O I) S -> (2 <= List.length S)%nat -> W <= zlen S ->
  Forall (fresh O I) new ->
  calculate O I ((pre ++ S) ++ new) = (r <- calculate O I (S ++ new) ;; Ok (pre ++ r)).
Proof. intros O I W HW Hp Hl Hpu pre S new H1 H2 H3 H4 H5. eapply calculate_after_trim_rec; eassumption. Qed.
Print Assumptions C15_calculate_unchanged_by_trim_leaf.

(* the same for the window indicators HL (look-back = period), Donchian (period - 1) and AROON
   (period): their extremes, bar offsets and warm-up tests commute with dropping the prefix *)
Theorem C15_calculate_unchanged_by_trim_window_indicators :
  forall (O : NumOps) (I : ind O) (W : Z),
  lookback_win O (i_kind O I) = Some W -> period_ok_win O (i_kind O I) ->
  i_subs O I = [] /\ i_managed O I = [] ->
  (forall rec st i, calc_reading O rec I st i = (v <- pure_calc O I st i ;; Ok (v, st))) ->
  forall (pre S new : store O),
  Forall (has_key O I) pre -> Forall (has_key O I) S -> (2 <= List.length S)%nat -> W <= zlen S ->
  Forall (fresh O I) new ->
  calculate O I ((pre ++ S) ++ new) = (r <- calculate O I (S ++ new) ;; Ok (pre ++ r)).
Proof. intros O I W HW Hp Hl Hpu pre S new H1 H2 H3 H4 H5. eapply calculate_after_trim_win; eassumption. Qed.
Print Assumptions C15_calculate_unchanged_by_trim_window_indicators.

(* SMA(2) over Z: five calculated candles, the first two trimmed away, two new candles *)
Local Open Scope string_scope.
Definition c15_I : ind ZOps := top ZOps (K_SMA 2 "close") "SMA_2" 4.
Definition c15_c (ts c : Z) : cd (payload ZOps) := {| t := ts; p := raw_payload ZOps (Build_ohlcv ZOps c c c c 1) |}.
Definition c15_all : store ZOps :=
  Eval vm_compute in (match calculate ZOps c15_I [c15_c 60 10; c15_c 120 12; c15_c 180 14; c15_c 240 18; c15_c 300 20] with Ok r => r | Err _ => [] end).
Definition c15_pre := firstn 2 c15_all.
Definition c15_S := skipn 2 c15_all.
Definition c15_new := [c15_c 360 30; c15_c 420 34].
Definition c15_r : store ZOps :=
  Eval vm_compute in (match calculate ZOps c15_I (c15_S ++ c15_new)%list with Ok r => r | Err _ => [] end).
Example C15_trimmed_run_example :
  calculate ZOps c15_I ((c15_pre ++ c15_S) ++ c15_new)%list = Ok (c15_pre ++ c15_r)%list /\
  calculate ZOps c15_I (c15_S ++ c15_new)%list = Ok c15_r /\ List.length c15_S = 3%nat /\
  lookback ZOps (i_kind ZOps c15_I) = Some 2 /\
  map (fun c => alist_get "SMA_2" (inds ZOps (p c))) c15_r =
    [Some (@VNum ZOps 13); Some (@VNum ZOps 16); Some (@VNum ZOps 19); Some (@VNum ZOps 25); Some (@VNum ZOps 32)].
Proof.
  split; [vm_cast_no_check (@eq_refl (res (store ZOps)) (Ok (c15_pre ++ c15_r)%list))|].
  split; [vm_cast_no_check (@eq_refl (res (store ZOps)) (Ok c15_r))|]. repeat split.
Qed.

From Hexital Require Import Proofs.DataSlot Proofs.DataInst Proofs.DataThms Proofs.DataTrim Proofs.DataTrimInst Proofs.DataTrimThms.
(* clause 2 for a whole calculate() of the indicators that keep their running state in a managed
   helper series (VWAP: one retained candle suffices - the cumulative sums live on the previous
   candle; StandardDeviation and RSI: `period` candles): calculate() on the retained list S ++ new
   gives exactly what it gives on the untrimmed list, readings and helper entries alike; again
   nothing is assumed about how the retained entries were obtained *)
Theorem C15_calculate_unchanged_by_trim_data_series :
  forall (O : NumOps) (I : ind O) (key : string), data_node O I key -> data_kind O I key ->
  forall (pre S new : store O),
  Forall (has_key O I) pre -> Forall (has_key O I) S -> (2 <= List.length S)%nat -> (lookback_data O I <= zlen S)%Z ->
  Forall (fresh_data O I) new ->
  calculate O I ((pre ++ S) ++ new)%list = (r <- calculate O I (S ++ new)%list ;; Ok (pre ++ r)%list).
Proof. exact data_calculate_after_trim. Qed.
Print Assumptions C15_calculate_unchanged_by_trim_data_series.
