(* C15 - Lifespan trimming keeps exactly the window (clause 1).
   Clause 2 (readings on the retained candles are unchanged while the look-back is
   retained): proved at the level of one reading for ten indicator classes without helper
   series - the value computed at an index is the same with or without the trimmed prefix as
   long as lookback(class) candles before the index are retained; for the other classes it
   is decided by the correspondence and the falsifier over the indicator engine. *)
From Coq Require Import ZArith List Bool Lia.
From Hexital Require Import Base.Prelude Base.Num Model.Manager Model.Candle Model.Readings Model.Engine
  Proofs.CollapseProofs Proofs.FillProofs Proofs.CausalProofs Proofs.TrimProofs Proofs.TrimCompose Proofs.FillCompose Proofs.FillEngine Proofs.FillTrim.
Import ListNotations.
Local Open Scope Z_scope.

(* trim_candles on a time-ordered list keeps exactly the candles not older than
   newest - lifespan, in order *)
Theorem C15_window_exact :
  forall (P : Type) (ls : Z) (l : list (cd P)), sorted P l ->
  trim P (Some ls) l =
  match newest P l with
  | None => l
  | Some tn => filter (fun c => negb (t c <? tn - ls)) l
  end.
Proof. exact trim_is_filter. Qed.
Print Assumptions C15_window_exact.

Theorem C15_newest_survives :
  forall (P : Type) (ls : Z) (l : list (cd P)) c pre, 0 <= ls -> l = pre ++ [c] -> sorted P l ->
  exists pre', trim P (Some ls) l = pre' ++ [c].
Proof. exact trim_keeps_newest. Qed.
Print Assumptions C15_newest_survives.

(* after every construction/append of a manager without candlestick conversion the
   retained candles are that window of the collapsed (and filled) candles *)
Theorem C15_window_after_tasks :
  forall (O : NumOps) (tfv : Z) (fl : bool) (ls : Z) (l out : list (cd (payload O))),
  0 < tfv -> sorted _ l ->
  tasks O {| tf := Some tfv; fillon := fl; ha := false; lifespan := Some ls |} l = Ok out ->
  exists mid, collapse_candles _ (merge O) (fillp O) (Some tfv) fl l = Ok mid /\
    out = match newest _ mid with
          | None => mid
          | Some tn => filter (fun c => negb (t c <? tn - ls)) mid
          end.
Proof.
  intros O tfv fl ls l out Htf Hs H. unfold tasks in H. cbn [tf fillon ha lifespan] in H.
  destruct (collapse_candles _ (merge O) (fillp O) (Some tfv) fl l) as [mid|e] eqn:E; cbn [bind] in H; [|discriminate].
  inversion H; subst out. exists mid. split; [reflexivity|].
  apply trim_is_filter.
  (* mid is time ordered: strictly increasing grid, contiguous after filling *)
  unfold collapse_candles in E. rewrite (collapse_is_resample _ (merge O) tfv l Htf Hs) in E. cbn [bind] in E.
  destruct (resample_shape _ (merge O) tfv l Htf (sorted_lsorted _ tfv l Htf Hs)) as [G S].
  destruct fl.
  - pose proof (fill_spec _ (fillp O) tfv _ _ Htf E) as F.
    destruct (resample _ (merge O) tfv l) as [|c0 r']; destruct mid as [|m0 mid']; try contradiction; [exact I|].
    destruct F as [-> F]. cbn [sorted]. apply filled_contiguous in F.
    apply (contiguous_sorted _ tfv Htf). exact F.
  - inversion E; subst mid. destruct (resample _ (merge O) tfv l) as [|c0 r']; [exact I|].
    apply strictly_inc_from_sorted. exact S.
Qed.
Print Assumptions C15_window_after_tasks.

Example C15_example :
  trim Z (Some 100) [Build_cd 0 1; Build_cd 60 2; Build_cd 120 3; Build_cd 180 4]
  = [Build_cd 120 3; Build_cd 180 4].
Proof. reflexivity. Qed.

(* clause 2, one reading: [pre] are the candles the trim removed, [suf] the retained ones.
   lookback: SMA, ROC: period; EMA, RMA, WMA, VWMA: period - 1; TR, OBV, Counter: 1; HLA: 0
   (periods >= 2).  The value (or exception) at index i of the untrimmed list is the value
   at index i - |pre| of the retained list. *)
Theorem C15_reading_unchanged_by_trim_leaf :
  forall (O : NumOps) (I : ind O) (pre suf : store O) (i W : Z),
  lookback O (i_kind O I) = Some W -> period_ok O (i_kind O I) ->
  zlen pre + W <= i < zlen (pre ++ suf) ->
  pure_calc O I (pre ++ suf) i = pure_calc O I suf (i - zlen pre).
Proof. exact trim_invariant. Qed.
Print Assumptions C15_reading_unchanged_by_trim_leaf.

(* clause 1 under every append schedule: D is the manager's state (timeframe and lifespan set)
   after the raw stream xs; appending ys re-collapses D ++ ys and trims again; the result is
   collapse + trim of the whole raw stream - the buckets already trimmed away are older than
   every later bound, and the retained suffix continues exactly like the whole series *)
Theorem C15_window_schedule_independent :
  forall (O : NumOps) (tf ls : Z) (xs ys D : list (cd (payload O))),
  0 < tf -> 0 <= ls -> sorted (payload O) (xs ++ ys) ->
  tasks O (tf_life_cfg tf ls) xs = Ok D ->
  mgr_append O (tf_life_cfg tf ls) D ys = tasks O (tf_life_cfg tf ls) (xs ++ ys).
Proof. intros O tf ls xs ys D Htf Hls Hs HD. eapply manager_lifespan_incremental; eassumption. Qed.
Print Assumptions C15_window_schedule_independent.

(* ... and with gap filling as well: timeframe, timeframe_fill and lifespan together *)
Theorem C15_window_schedule_independent_with_fill :
  forall (O : NumOps) (tf ls : Z) (xs ys D : list (cd (payload O))),
  0 < tf -> 0 <= ls -> sorted (payload O) (xs ++ ys) ->
  tasks O (tf_fill_life_cfg tf ls) xs = Ok D ->
  mgr_append O (tf_fill_life_cfg tf ls) D ys = tasks O (tf_fill_life_cfg tf ls) (xs ++ ys).
Proof. intros O tf ls xs ys D Htf Hls Hs HD. eapply manager_fill_lifespan_incremental; eassumption. Qed.
Print Assumptions C15_window_schedule_independent_with_fill.
