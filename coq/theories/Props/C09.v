(* C09 - Calculation is total: no exception, only finite numbers, no gaps after warm-up.
   Proved over the reals for the recurrence specifications of TR, ATR, HLA, OBV, VWAP, EMA
   and RSI: no step can raise (every divisor is non-zero: periods are positive, VWAP and
   RSI test their divisor first).  Finiteness is immediate in R; overflow of binary64 is
   outside the theorem.  At the level of whole series (Proofs/TotalReal.v): on every stream the
   specifications of TR, ATR, HLA, OBV, VWAP and - given the input on every candle - SMA, EMA,
   RMA, WMA, RSI return a series as long as the stream, made of None and numbers only, with no
   gap once a number has appeared; ROC does so when no input is zero, and that premise cannot
   be dropped (a zero base raises: known finding K1).  All other indicators: bit-exact
   correspondence + falsifier on degenerate streams. *)
From Coq Require Import ZArith List String Bool Reals.
From Hexital Require Import Base.Prelude Base.Num Model.Candle Inst.RealInst Spec.Steppers Proofs.SpecReal Proofs.TotalReal.
Import ListNotations.
Local Open Scope R_scope.

Theorem C09_steps_never_raise :
  forall (nd : Z) (s : state ROps) (c : inp ROps) (p : Z) (sm : R), (0 < p)%Z ->
  (exists v s', step ROps S_TR nd s c = Ok (v, s')) /\
  (exists v s', step ROps (S_ATR p) nd s c = Ok (v, s')) /\
  (exists v s', step ROps S_HLA nd s c = Ok (v, s')) /\
  (exists v s', step ROps S_OBV nd s c = Ok (v, s')) /\
  (exists v s', step ROps S_VWAP nd s c = Ok (v, s')) /\
  (forall x, exists v s', ema_step ROps p sm nd s x = Ok (v, s')).
Proof. exact steps_total. Qed.
Print Assumptions C09_steps_never_raise.

(* RSI never divides by a zero average loss: it reads 100 *)
Theorem C09_rsi_total :
  forall (nd : Z) (g l : R), (0 <= nd)%Z -> 0 <= g -> 0 <= l ->
  exists r, rsi_value ROps nd g l = Ok r /\ 0 <= r <= 100.
Proof. exact rsi_value_range. Qed.
Print Assumptions C09_rsi_total.

(* whole series: never raises, None/number only, no gaps after warm-up *)
Theorem C09_ohlcv_series_total_without_gaps :
  forall (k : kind_s ROps) (nd : Z) (cs : list (inp ROps)),
  (k = S_TR \/ (exists p, (0 < p)%Z /\ k = S_ATR p) \/ k = S_HLA \/ k = S_OBV \/ k = S_VWAP) ->
  exists vs, series ROps k nd cs = Ok vs /\ List.length vs = List.length cs /\ no_gaps vs.
Proof. exact ohlcv_series_total. Qed.
Print Assumptions C09_ohlcv_series_total_without_gaps.

Theorem C09_input_series_total_without_gaps :
  forall (k : kind_s ROps) (nd : Z) (cs : list (inp ROps)),
  (0 <= nd)%Z ->
  (exists p, (0 < p)%Z /\ (k = S_SMA p \/ (exists sm, k = S_EMA p sm) \/ k = S_RMA p \/ k = S_WMA p \/ k = S_RSI p)) ->
  Forall has_input cs ->
  exists vs, series ROps k nd cs = Ok vs /\ List.length vs = List.length cs /\ no_gaps vs.
Proof. exact input_series_total. Qed.
Print Assumptions C09_input_series_total_without_gaps.

Theorem C09_roc_series_total_on_nonzero_inputs :
  forall (p nd : Z) (cs : list (inp ROps)), (0 < p)%Z -> Forall nonzero_input cs ->
  exists vs, series ROps (S_ROC p) nd cs = Ok vs /\ List.length vs = List.length cs /\ no_gaps vs.
Proof. exact roc_series_total. Qed.
Print Assumptions C09_roc_series_total_on_nonzero_inputs.

(* the full statement is false of ROC on a zero base: the witness of known finding K1 *)
Theorem C09_roc_zero_base_refuted :
  series ROps (S_ROC 1) 4 [Build_inp ROps 0 0 0 0 0 (Some 0%R); Build_inp ROps 1 1 1 1 0 (Some 1%R)] = Err ZeroDivisionError.
Proof. exact roc_zero_base_refuted. Qed.
Print Assumptions C09_roc_zero_base_refuted.
