(* C09 - Calculation is total: no exception, only finite numbers, no gaps after warm-up.
   Proved over the reals for the recurrence specifications of TR, ATR, HLA, OBV, VWAP, EMA
   and RSI: no step can raise (every divisor is non-zero: periods are positive, VWAP and
   RSI test their divisor first).  Finiteness is immediate in R; overflow of binary64 is
   outside the theorem.  All other indicators: bit-exact correspondence + falsifier on
   degenerate streams. *)
From Coq Require Import ZArith List String Bool Reals.
From Hexital Require Import Base.Prelude Base.Num Model.Candle Inst.RealInst Spec.Steppers Proofs.SpecReal.
Local Open Scope R_scope.

Theorem C09_steps_never_raise :
  forall (nd : Z) (s : state ROps) (c : inp ROps) (p : Z) (sm : R), (0 < p)%Z ->
  (exists v s', step ROps S_TR nd s c = Ok (v, s')) /\
  (exists v s', step ROps (S_ATR p) nd s c = Ok (v, s')) /\
  (exists v s', step ROps S_HLA nd s c = Ok (v, s')) /\
  (exists v s', step ROps S_OBV nd s c = Ok (v, s')) /\
  (exists v s', step ROps S_VWAP nd s c = Ok (v, s')) /\
  (forall x, exists v s', ema_step ROps p sm nd s x = Ok (v, s')).
Proof. exact steps_total. Qed.
Print Assumptions C09_steps_never_raise.

(* RSI never divides by a zero average loss: it reads 100 *)
Theorem C09_rsi_total :
  forall (nd : Z) (g l : R), (0 <= nd)%Z -> 0 <= g -> 0 <= l ->
  exists r, rsi_value ROps nd g l = Ok r /\ 0 <= r <= 100.
Proof. exact rsi_value_range. Qed.
Print Assumptions C09_rsi_total.
